package main

// C14: path search (sonic.Get*/ast.Searcher, Node.Get/Index/GetByPath), the read-only views
// of the located node, and ast.Preorder - against a first-occurrence reference walk built on
// encoding/json.
//
//   get <optmask hex> <doc hex> <path>     path: "-" | elem("/"elem)*,  elem: k:<hex|-> | i:<int>
// entry points (short names in the output): G sonic.Get, GS GetFromString, GC GetCopyFromString,
// W<o> GetWithOptions (o = ValidateJSON|CopyReturn<<1|ConcurrentRead<<2), W<o>N<k> searcher for the
// first k path elements then Node.GetByPath, NR ast.NewRaw(doc).GetByPath, NRC NewRawConcurrentRead,
// NGI chain of Node.Get/Index, NL after LoadAll, NI after Interface().
//   pre <doc hex>
//
// A "record" is the canonical description of what one API returned for (doc, path):
//   nf | err:<class> | panic:<class> |
//   ok;t=<Type()>;raw=<hex>;oc=<ordered canon of Raw()>;c=<canon of InterfaceUseNumber()>;
//      s=<StrictString hex|e|->;n=<StrictNumber|->;i=<StrictInt64|E|->;b=<StrictBool|->;
//      it=<iterator contents>;f=<StrictFloat64 bits|E|->;cf=<canon of Interface()>;
//      un=<ArrayUseNode/MapUseNode/InterfaceUseNode: children as nodes>;x=<other checks>
// canon: n t f #<literal> F<float bits> s<hex> [..] {<hexkey>:<v>,..} (keys sorted);
// ordered canon keeps member order and duplicates.

import (
	"bytes"
	"encoding/hex"
	"encoding/json"
	"io"
	"math"
	"sort"
	"strconv"
	"strings"
	"unicode/utf8"

	"github.com/bytedance/sonic"
	"github.com/bytedance/sonic/ast"
)

// ---------------------------------------------------------------- path

type pathElem struct {
	isKey bool
	key   string
	idx   int
}

func parsePath(s string) ([]pathElem, []interface{}) {
	if s == "-" {
		return nil, nil
	}
	var pe []pathElem
	var pi []interface{}
	for _, e := range strings.Split(s, "/") {
		if strings.HasPrefix(e, "k:") {
			k := string(unhexArg(e[2:]))
			pe = append(pe, pathElem{isKey: true, key: k})
			pi = append(pi, k)
		} else if strings.HasPrefix(e, "i:") {
			n, err := strconv.Atoi(e[2:])
			if err != nil {
				panic("bad path index")
			}
			pe = append(pe, pathElem{idx: n})
			pi = append(pi, n)
		} else {
			panic("bad path element")
		}
	}
	return pe, pi
}

// ---------------------------------------------------------------- canonical text

func srchHx(s string) string { return hex.EncodeToString([]byte(s)) }

func canonAny(v interface{}, sb *strings.Builder) {
	switch x := v.(type) {
	case nil:
		sb.WriteByte('n')
	case bool:
		if x {
			sb.WriteByte('t')
		} else {
			sb.WriteByte('f')
		}
	case json.Number:
		sb.WriteByte('#')
		sb.WriteString(string(x))
	case float64:
		sb.WriteByte('F')
		sb.WriteString(strconv.FormatUint(math.Float64bits(x), 16))
	case string:
		sb.WriteByte('s')
		sb.WriteString(srchHx(x))
	case []interface{}:
		sb.WriteByte('[')
		for i, e := range x {
			if i > 0 {
				sb.WriteByte(',')
			}
			canonAny(e, sb)
		}
		sb.WriteByte(']')
	case map[string]interface{}:
		keys := make([]string, 0, len(x))
		for k := range x {
			keys = append(keys, k)
		}
		sort.Strings(keys)
		sb.WriteByte('{')
		for i, k := range keys {
			if i > 0 {
				sb.WriteByte(',')
			}
			sb.WriteString(srchHx(k))
			sb.WriteByte(':')
			canonAny(x[k], sb)
		}
		sb.WriteByte('}')
	default:
		sb.WriteString("?")
	}
}

func canonOf(v interface{}) string {
	var sb strings.Builder
	canonAny(v, &sb)
	return sb.String()
}

// ordered canonical text of a JSON text, through encoding/json's token stream
func ocanonDec(dec *json.Decoder, sb *strings.Builder) bool {
	tok, err := dec.Token()
	if err != nil {
		return false
	}
	switch x := tok.(type) {
	case json.Delim:
		switch x {
		case '[':
			sb.WriteByte('[')
			first := true
			for dec.More() {
				if !first {
					sb.WriteByte(',')
				}
				first = false
				if !ocanonDec(dec, sb) {
					return false
				}
			}
			if _, err := dec.Token(); err != nil {
				return false
			}
			sb.WriteByte(']')
		case '{':
			sb.WriteByte('{')
			first := true
			for dec.More() {
				if !first {
					sb.WriteByte(',')
				}
				first = false
				kt, err := dec.Token()
				if err != nil {
					return false
				}
				ks, ok := kt.(string)
				if !ok {
					return false
				}
				sb.WriteString(srchHx(ks))
				sb.WriteByte(':')
				if !ocanonDec(dec, sb) {
					return false
				}
			}
			if _, err := dec.Token(); err != nil {
				return false
			}
			sb.WriteByte('}')
		default:
			return false
		}
	default:
		canonAny(tok, sb)
	}
	return true
}

func ocanonText(raw []byte) string {
	if !json.Valid(raw) {
		return "!"
	}
	dec := json.NewDecoder(bytes.NewReader(raw))
	dec.UseNumber()
	var sb strings.Builder
	if !ocanonDec(dec, &sb) {
		return "!"
	}
	return sb.String()
}

func decodeUseNumber(raw []byte) (interface{}, error) {
	dec := json.NewDecoder(bytes.NewReader(raw))
	dec.UseNumber()
	var v interface{}
	err := dec.Decode(&v)
	return v, err
}

// ---------------------------------------------------------------- reference

// refLocate walks the path with encoding/json, taking the FIRST occurrence of a duplicated key.
func refLocate(doc []byte, path []pathElem) (json.RawMessage, bool) {
	cur := json.RawMessage(bytes.TrimSpace(doc))
	for _, p := range path {
		cur = bytes.TrimSpace(cur)
		if len(cur) == 0 {
			return nil, false
		}
		if p.isKey {
			if cur[0] != '{' {
				return nil, false
			}
			dec := json.NewDecoder(bytes.NewReader(cur))
			if _, err := dec.Token(); err != nil {
				return nil, false
			}
			found := false
			for dec.More() {
				t, err := dec.Token()
				if err != nil {
					return nil, false
				}
				var v json.RawMessage
				if err := dec.Decode(&v); err != nil {
					return nil, false
				}
				if ks, ok := t.(string); ok && ks == p.key {
					cur = v
					found = true
					break
				}
			}
			if !found {
				return nil, false
			}
		} else {
			if cur[0] != '[' || p.idx < 0 {
				return nil, false
			}
			dec := json.NewDecoder(bytes.NewReader(cur))
			if _, err := dec.Token(); err != nil {
				return nil, false
			}
			i := 0
			found := false
			for dec.More() {
				var v json.RawMessage
				if err := dec.Decode(&v); err != nil {
					return nil, false
				}
				if i == p.idx {
					cur = v
					found = true
					break
				}
				i++
			}
			if !found {
				return nil, false
			}
		}
	}
	return cur, true
}

func typeOfRaw(raw []byte) int {
	switch raw[0] {
	case 'n':
		return 2
	case 't':
		return 3
	case 'f':
		return 4
	case '[':
		return 5
	case '{':
		return 6
	case '"':
		return 7
	default:
		return 33
	}
}

func optHexStr(s string) string {
	if s == "" {
		return "e"
	}
	return srchHx(s)
}

func refIter(raw []byte) string {
	var sb strings.Builder
	dec := json.NewDecoder(bytes.NewReader(raw))
	dec.UseNumber()
	tok, err := dec.Token()
	if err != nil {
		return "!"
	}
	d, ok := tok.(json.Delim)
	if !ok {
		return "-"
	}
	if d == '[' {
		sb.WriteByte('[')
	} else {
		sb.WriteByte('{')
	}
	first := true
	for dec.More() {
		if !first {
			sb.WriteByte(',')
		}
		first = false
		if d == '{' {
			kt, err := dec.Token()
			if err != nil {
				return "!"
			}
			sb.WriteString(srchHx(kt.(string)))
			sb.WriteByte(':')
		}
		var v json.RawMessage
		if err := dec.Decode(&v); err != nil {
			return "!"
		}
		x, err := decodeUseNumber(v)
		if err != nil {
			return "!"
		}
		canonAny(x, &sb)
	}
	if d == '[' {
		sb.WriteByte(']')
	} else {
		sb.WriteByte('}')
	}
	return sb.String()
}

// refRecord: the views of the located value according to encoding/json / strconv
func refRecord(raw []byte) string {
	var sb strings.Builder
	t := typeOfRaw(raw)
	sb.WriteString("ok;t=" + itoa(t))
	sb.WriteString(";raw=" + hex.EncodeToString(raw))
	sb.WriteString(";oc=" + ocanonText(raw))
	v, err := decodeUseNumber(raw)
	if err != nil {
		sb.WriteString(";c=!")
	} else {
		sb.WriteString(";c=" + canonOf(v))
	}
	s, n, i, b, f := "-", "-", "-", "-", "-"
	switch t {
	case 7:
		var str string
		if json.Unmarshal(raw, &str) == nil {
			s = optHexStr(str)
		} else {
			s = "!"
		}
	case 33:
		n = string(raw)
		if iv, err := strconv.ParseInt(n, 10, 64); err == nil {
			i = strconv.FormatInt(iv, 10)
		} else {
			i = "E"
		}
		if fv, err := strconv.ParseFloat(n, 64); err == nil {
			f = strconv.FormatUint(math.Float64bits(fv), 16)
		} else {
			f = "E"
		}
	case 3:
		b = "1"
	case 4:
		b = "0"
	}
	sb.WriteString(";s=" + s + ";n=" + n + ";i=" + i + ";b=" + b)
	sb.WriteString(";it=" + refIter(raw))
	sb.WriteString(";f=" + f)
	var fvv interface{}
	if err := json.Unmarshal(raw, &fvv); err != nil {
		sb.WriteString(";cf=E")
	} else {
		sb.WriteString(";cf=" + canonOf(fvv))
	}
	sb.WriteString(";un=" + srchRefUseNode(raw, t))
	sb.WriteString(";x=ok")
	return sb.String()
}

// ---------------------------------------------------------------- sonic side

func errClass(err error) string {
	if err == nil {
		return "ok"
	}
	if err == ast.ErrNotExist {
		return "nf"
	}
	if err == ast.ErrUnsupportType {
		return "err:type"
	}
	msg := err.Error()
	switch {
	case strings.HasPrefix(msg, "value not exists"):
		return "nf"
	case strings.HasPrefix(msg, "unsupported type"):
		return "err:type"
	case strings.Contains(msg, "Syntax error"):
		return "err:syntax"
	}
	return "err:other"
}

func orE(s string, err error) string {
	if err != nil {
		return "E"
	}
	return s
}

// nodeRecord takes every view of a located node.  Raw() first: later views load the node.
func nodeRecord(n *ast.Node) string {
	if n == nil {
		return "nf"
	}
	if err := n.Check(); err != nil {
		return errClass(err)
	}
	if !n.Exists() {
		return "nf"
	}
	var sb strings.Builder
	var bad []string
	t := n.Type()
	raw, rerr := n.Raw()
	if rerr != nil {
		return "ok;rawerr=" + errClass(rerr)
	}
	sb.WriteString("ok;t=" + itoa(t))
	sb.WriteString(";raw=" + srchHx(raw))
	oc := ocanonText([]byte(raw))
	sb.WriteString(";oc=" + oc)
	if n.TypeSafe() != t {
		bad = append(bad, "typesafe")
	}
	s, num, i, b, f := "-", "-", "-", "-", "-"
	switch t {
	case 7:
		v, err := n.StrictString()
		s = orE(optHexStr(v), err)
		if v2, err2 := n.String(); err2 != nil || v2 != v {
			bad = append(bad, "String")
		}
	case 33:
		v, err := n.StrictNumber()
		num = orE(string(v), err)
		if v2, err2 := n.Number(); err2 != nil || v2 != v {
			bad = append(bad, "Number")
		}
		iv, err := n.StrictInt64()
		i = orE(strconv.FormatInt(iv, 10), err)
		if err == nil {
			if iv2, err2 := n.Int64(); err2 != nil || iv2 != iv {
				bad = append(bad, "Int64")
			}
		}
		fv, err := n.StrictFloat64()
		f = orE(strconv.FormatUint(math.Float64bits(fv), 16), err)
		if fv2, err2 := n.Float64(); (err2 == nil) != (err == nil) || (err == nil && math.Float64bits(fv2) != math.Float64bits(fv)) {
			bad = append(bad, "Float64")
		}
	case 3, 4:
		v, err := n.StrictBool()
		b = orE(b01(v), err)
		if v2, err2 := n.Bool(); err2 != nil || v2 != v {
			bad = append(bad, "Bool")
		}
	case 2:
		if v, err := n.Interface(); err != nil || v != nil {
			bad = append(bad, "null")
		}
	}
	// iterators on a copy of the still-lazy node
	it := "-"
	switch t {
	case 5:
		cp := *n
		iter, err := cp.Values()
		if err != nil {
			it = "E"
		} else {
			var isb strings.Builder
			isb.WriteByte('[')
			var v ast.Node
			k := 0
			for iter.Next(&v) {
				if k > 0 {
					isb.WriteByte(',')
				}
				k++
				x, err := v.InterfaceUseNumber()
				if err != nil {
					isb.WriteString("E")
				} else {
					canonAny(x, &isb)
				}
			}
			isb.WriteByte(']')
			it = isb.String()
			if l, err := cp.Len(); err != nil || l != k {
				bad = append(bad, "Len")
			}
		}
		// ForEach on another copy
		cp2 := *n
		var fsb strings.Builder
		fsb.WriteByte('[')
		k := 0
		cp2.ForEach(func(p ast.Sequence, nd *ast.Node) bool {
			if k > 0 {
				fsb.WriteByte(',')
			}
			if p.Index != k {
				fsb.WriteString("@")
			}
			k++
			x, err := nd.InterfaceUseNumber()
			if err != nil {
				fsb.WriteString("E")
			} else {
				canonAny(x, &fsb)
			}
			return true
		})
		fsb.WriteByte(']')
		if fsb.String() != it {
			bad = append(bad, "ForEach")
		}
	case 6:
		cp := *n
		iter, err := cp.Properties()
		if err != nil {
			it = "E"
		} else {
			var isb strings.Builder
			isb.WriteByte('{')
			var p ast.Pair
			k := 0
			for iter.Next(&p) {
				if k > 0 {
					isb.WriteByte(',')
				}
				k++
				isb.WriteString(srchHx(p.Key))
				isb.WriteByte(':')
				x, err := p.Value.InterfaceUseNumber()
				if err != nil {
					isb.WriteString("E")
				} else {
					canonAny(x, &isb)
				}
			}
			isb.WriteByte('}')
			it = isb.String()
			if l, err := cp.Len(); err != nil || l != k {
				bad = append(bad, "Len")
			}
		}
		cp2 := *n
		var fsb strings.Builder
		fsb.WriteByte('{')
		k := 0
		cp2.ForEach(func(p ast.Sequence, nd *ast.Node) bool {
			if k > 0 {
				fsb.WriteByte(',')
			}
			if p.Index != k || p.Key == nil {
				fsb.WriteString("@")
			} else {
				fsb.WriteString(srchHx(*p.Key))
			}
			k++
			fsb.WriteByte(':')
			x, err := nd.InterfaceUseNumber()
			if err != nil {
				fsb.WriteString("E")
			} else {
				canonAny(x, &fsb)
			}
			return true
		})
		fsb.WriteByte('}')
		if fsb.String() != it {
			bad = append(bad, "ForEach")
		}
	}
	// generic conversions
	c := "E"
	cpn := *n
	if v, err := cpn.InterfaceUseNumber(); err == nil {
		c = canonOf(v)
	}
	cf := "E"
	cpf := *n
	if v, err := cpf.Interface(); err == nil {
		cf = canonOf(v)
	}
	switch t {
	case 5:
		cpa := *n
		if v, err := cpa.ArrayUseNumber(); err != nil || canonOf(v) != c {
			bad = append(bad, "ArrayUseNumber")
		}
		cpb := *n
		if v, err := cpb.Array(); (err != nil) != (cf == "E") || (err == nil && canonOf(v) != cf) {
			bad = append(bad, "Array")
		}
	case 6:
		cpa := *n
		if v, err := cpa.MapUseNumber(); err != nil || canonOf(v) != c {
			bad = append(bad, "MapUseNumber")
		}
		cpb := *n
		if v, err := cpb.Map(); (err != nil) != (cf == "E") || (err == nil && canonOf(v) != cf) {
			bad = append(bad, "Map")
		}
	}
	// the *UseNode conversions: children as nodes; each child shown through the ordered canon of its Raw()
	un := srchUseNodeView(n, t, &bad)
	// LoadAll, then Len and MarshalJSON of the loaded node
	if t == 5 || t == 6 {
		cpl := *n
		if err := cpl.LoadAll(); err != nil {
			bad = append(bad, "LoadAll")
		} else {
			if mj, err := cpl.MarshalJSON(); err != nil || ocanonText(mj) != oc {
				bad = append(bad, "MarshalJSONAfterLoad")
			}
			cnt := 0
			cpl.ForEach(func(p ast.Sequence, nd *ast.Node) bool { cnt++; return true })
			if l, err := cpl.Len(); err != nil || l != cnt {
				bad = append(bad, "LenAfterLoad")
			}
		}
	}
	// Raw() again after the node itself has been loaded
	if _, err := n.InterfaceUseNumber(); err == nil {
		if raw2, err := n.Raw(); err != nil || ocanonText([]byte(raw2)) != oc {
			bad = append(bad, "RawAfterLoad")
		}
	}
	sb.WriteString(";c=" + c)
	sb.WriteString(";s=" + s + ";n=" + num + ";i=" + i + ";b=" + b)
	sb.WriteString(";it=" + it)
	sb.WriteString(";f=" + f)
	sb.WriteString(";cf=" + cf)
	sb.WriteString(";un=" + un)
	if len(bad) == 0 {
		sb.WriteString(";x=ok")
	} else {
		sb.WriteString(";x=" + strings.Join(bad, "+"))
	}
	return sb.String()
}

func guarded(f func() string) (res string) {
	defer func() {
		if r := recover(); r != nil {
			msg, _ := r.(string)
			if strings.HasPrefix(msg, "path must be either int") {
				res = "panic:path"
			} else {
				res = "panic:other"
			}
		}
	}()
	return f()
}

func getRecord(n ast.Node, err error) string {
	if err != nil {
		return errClass(err)
	}
	return nodeRecord(&n)
}

func optsOf(i int) ast.SearchOptions {
	return ast.SearchOptions{ValidateJSON: i&1 != 0, CopyReturn: i&2 != 0, ConcurrentRead: i&4 != 0}
}

type apiRes struct {
	name string
	rec  string
}

func runGetAPIs(mask int, doc []byte, pe []pathElem, pi []interface{}) []apiRes {
	var out []apiRes
	add := func(name string, f func() string) {
		out = append(out, apiRes{name, guarded(f)})
	}
	sdoc := string(doc)
	add("G", func() string { return getRecord(sonic.Get(doc, pi...)) })
	add("GS", func() string { return getRecord(sonic.GetFromString(sdoc, pi...)) })
	add("GC", func() string { return getRecord(sonic.GetCopyFromString(sdoc, pi...)) })
	for o := 0; o < 8; o++ {
		if mask&(1<<uint(o)) == 0 {
			continue
		}
		opts := optsOf(o)
		add("W"+itoa(o), func() string { return getRecord(sonic.GetWithOptions(doc, opts, pi...)) })
		// searcher for a prefix of the path, Node.GetByPath for the rest
		for _, k := range []int{0, len(pi) / 2} {
			if k == len(pi) && k != 0 {
				continue
			}
			kk := k
			add("W"+itoa(o)+"N"+itoa(kk), func() string {
				n, err := sonic.GetWithOptions(doc, opts, pi[:kk]...)
				if err != nil {
					return errClass(err)
				}
				return nodeRecord(n.GetByPath(pi[kk:]...))
			})
			if len(pi) < 2 {
				break
			}
		}
	}
	add("NR", func() string {
		root := ast.NewRaw(sdoc)
		return nodeRecord(root.GetByPath(pi...))
	})
	add("NRC", func() string {
		root := ast.NewRawConcurrentRead(sdoc)
		return nodeRecord(root.GetByPath(pi...))
	})
	add("NGI", func() string {
		root := ast.NewRaw(sdoc)
		n := &root
		for _, p := range pe {
			if p.isKey {
				n = n.Get(p.key)
			} else {
				n = n.Index(p.idx)
			}
			if n == nil || !n.Valid() {
				break
			}
		}
		return nodeRecord(n)
	})
	add("NL", func() string {
		root := ast.NewRaw(sdoc)
		if err := root.LoadAll(); err != nil {
			return errClass(err)
		}
		return nodeRecord(root.GetByPath(pi...))
	})
	add("NI", func() string {
		// a node whose children were all visited by a conversion before the lookup
		root := ast.NewRaw(sdoc)
		if _, err := root.Interface(); err != nil {
			if _, err2 := root.InterfaceUseNumber(); err2 != nil {
				return errClass(err2)
			}
		}
		return nodeRecord(root.GetByPath(pi...))
	})
	return out
}

// ---------------------------------------------------------------- Preorder

type recVisitor struct {
	sb      strings.Builder
	n       int
	numck   int
	only    bool
	skipLvl int  // containers opened with this many containers already open (or more) answer VisitOPSkip; <0: never
	open    int  // containers currently open (not counting skipped ones)
	skipped bool // the last Begin callback answered VisitOPSkip
}

func (r *recVisitor) begin(tok string) error {
	r.ev(tok)
	if r.skipLvl >= 0 && r.open >= r.skipLvl {
		r.skipped = true
		return ast.VisitOPSkip
	}
	r.open++
	return nil
}

func (r *recVisitor) end(tok string) error {
	r.ev(tok)
	if r.skipped {
		r.skipped = false
	} else {
		r.open--
	}
	return nil
}

func (r *recVisitor) ev(s string) {
	if r.n > 0 {
		r.sb.WriteByte(',')
	}
	r.n++
	r.sb.WriteString(s)
}
func (r *recVisitor) OnNull() error { r.ev("n"); return nil }
func (r *recVisitor) OnBool(v bool) error {
	if v {
		r.ev("t")
	} else {
		r.ev("f")
	}
	return nil
}
func (r *recVisitor) OnString(v string) error { r.ev("s" + srchHx(v)); return nil }
func (r *recVisitor) OnInt64(v int64, n json.Number) error {
	r.ev("#" + string(n))
	if !r.only {
		if x, err := strconv.ParseInt(string(n), 10, 64); err != nil || x != v {
			r.numck++
		}
	}
	return nil
}
func (r *recVisitor) OnFloat64(v float64, n json.Number) error {
	r.ev("#" + string(n))
	if !r.only {
		if x, err := strconv.ParseFloat(string(n), 64); err != nil || math.Float64bits(x) != math.Float64bits(v) {
			r.numck++
		}
	}
	return nil
}
func (r *recVisitor) OnObjectBegin(capacity int) error { return r.begin("{") }
func (r *recVisitor) OnObjectKey(key string) error      { r.ev("k" + srchHx(key)); return nil }
func (r *recVisitor) OnObjectEnd() error                { return r.end("}") }
func (r *recVisitor) OnArrayBegin(capacity int) error   { return r.begin("[") }
func (r *recVisitor) OnArrayEnd() error                 { return r.end("]") }

func refEvents(dec *json.Decoder, out *[]string) bool {
	tok, err := dec.Token()
	if err != nil {
		return false
	}
	switch x := tok.(type) {
	case json.Delim:
		if x == '[' {
			*out = append(*out, "[")
			for dec.More() {
				if !refEvents(dec, out) {
					return false
				}
			}
			if _, err := dec.Token(); err != nil {
				return false
			}
			*out = append(*out, "]")
		} else if x == '{' {
			*out = append(*out, "{")
			for dec.More() {
				kt, err := dec.Token()
				if err != nil {
					return false
				}
				*out = append(*out, "k"+srchHx(kt.(string)))
				if !refEvents(dec, out) {
					return false
				}
			}
			if _, err := dec.Token(); err != nil {
				return false
			}
			*out = append(*out, "}")
		} else {
			return false
		}
	case nil:
		*out = append(*out, "n")
	case bool:
		if x {
			*out = append(*out, "t")
		} else {
			*out = append(*out, "f")
		}
	case json.Number:
		*out = append(*out, "#"+string(x))
	case string:
		*out = append(*out, "s"+srchHx(x))
	default:
		return false
	}
	return true
}

func runPreorder(doc string, only bool) string { return runPreorderSkip(doc, only, -1) }

func runPreorderSkip(doc string, only bool, skipLvl int) string {
	return guarded(func() string {
		rv := &recVisitor{only: only, skipLvl: skipLvl}
		err := ast.Preorder(doc, rv, &ast.VisitorOptions{OnlyNumber: only})
		if err != nil {
			if strings.Contains(err.Error(), "recursion exceeded max depth") {
				return "depth"
			}
			return "err"
		}
		ck := "ok"
		if rv.numck > 0 {
			ck = "bad" + itoa(rv.numck)
		}
		return "ok:" + rv.sb.String() + "\tnumck=" + ck
	})
}

func init() {
	registerOp("get", func(a []string) string {
		mask64, err := strconv.ParseUint(a[0], 16, 32)
		if err != nil {
			panic("bad option mask")
		}
		doc := unhexArg(a[1])
		pe, pi := parsePath(a[2])
		return srchGetAnswer(int(mask64), doc, pe, pi, false)
	})

	// c14wide <mask hex> <a|o> <s|e|c|m> <n> <path>: the document is built here (and by the driver) from the
	// parameters: {"meta":{"n":1},"rows":<container of n children>}; the long fields of every record
	// travel as <length>:<fnv-1a 64>
	registerOp("c14wide", func(a []string) string {
		mask64, err := strconv.ParseUint(a[0], 16, 32)
		if err != nil {
			panic("bad option mask")
		}
		n, err := strconv.Atoi(a[3])
		if err != nil {
			panic("bad n")
		}
		doc := srchWideDoc(a[1], a[2], n)
		pe, pi := parsePath(a[4])
		return srchGetAnswer(int(mask64), doc, pe, pi, true)
	})

	registerOp("pre", func(a []string) string {
		doc := unhexArg(a[0])
		var sb strings.Builder
		r1 := runPreorder(string(doc), false)
		sb.WriteString("sonic=" + r1)
		r2 := runPreorder(string(doc), true)
		if i := strings.Index(r2, "\t"); i >= 0 {
			r2 = r2[:i]
		}
		e1 := r1
		if i := strings.Index(e1, "\t"); i >= 0 {
			e1 = e1[:i]
		}
		if r2 == e1 {
			sb.WriteString("\tonlynum=same")
		} else {
			sb.WriteString("\tonlynum=" + r2)
		}
		if !json.Valid(doc) {
			sb.WriteString("\tref=invalid")
		} else {
			dec := json.NewDecoder(bytes.NewReader(doc))
			dec.UseNumber()
			var evs []string
			if refEvents(dec, &evs) {
				if _, err := dec.Token(); err == io.EOF {
					sb.WriteString("\tref=ok:" + strings.Join(evs, ","))
				} else {
					sb.WriteString("\tref=invalid")
				}
			} else {
				sb.WriteString("\tref=invalid")
			}
			// a visitor that skips (VisitOPSkip) every container opened inside another one
			rs := runPreorderSkip(string(doc), true, 1)
			if i := strings.Index(rs, "\t"); i >= 0 {
				rs = rs[:i]
			}
			sb.WriteString("\tskip=" + rs)
			dec2 := json.NewDecoder(bytes.NewReader(doc))
			dec2.UseNumber()
			var evs2 []string
			if refEventsSkip(dec2, &evs2, 0, 1) {
				sb.WriteString("\trefskip=ok:" + strings.Join(evs2, ","))
			} else {
				sb.WriteString("\trefskip=invalid")
			}
			var v interface{}
			if err := json.Unmarshal(doc, &v); err != nil {
				sb.WriteString("\tfrange=1")
			} else {
				sb.WriteString("\tfrange=0")
			}
		}
		sb.WriteString("\tu8=" + b01(utf8.Valid(doc)))
		return sb.String()
	})
}

// refEventsSkip: the event stream of a visitor that skips every container opened with at least lvl
// containers open: Begin and End only, nothing of the content.
func refEventsSkip(dec *json.Decoder, out *[]string, open int, lvl int) bool {
	tok, err := dec.Token()
	if err != nil {
		return false
	}
	d, isDelim := tok.(json.Delim)
	if !isDelim {
		switch x := tok.(type) {
		case nil:
			*out = append(*out, "n")
		case bool:
			if x {
				*out = append(*out, "t")
			} else {
				*out = append(*out, "f")
			}
		case json.Number:
			*out = append(*out, "#"+string(x))
		case string:
			*out = append(*out, "s"+srchHx(x))
		default:
			return false
		}
		return true
	}
	closer := "]"
	if d == '{' {
		closer = "}"
	}
	*out = append(*out, string(rune(d)))
	if open >= lvl {
		// consume the container without reporting it
		depth := 1
		for depth > 0 {
			t, err := dec.Token()
			if err != nil {
				return false
			}
			if dd, ok := t.(json.Delim); ok {
				if dd == '[' || dd == '{' {
					depth++
				} else {
					depth--
				}
			}
		}
		*out = append(*out, closer)
		return true
	}
	for dec.More() {
		if d == '{' {
			kt, err := dec.Token()
			if err != nil {
				return false
			}
			*out = append(*out, "k"+srchHx(kt.(string)))
		}
		if !refEventsSkip(dec, out, open+1, lvl) {
			return false
		}
	}
	if _, err := dec.Token(); err != nil {
		return false
	}
	*out = append(*out, closer)
	return true
}

// ---------------------------------------------------------------- sequences of lookups on ONE node
//
//   c14seq <doc hex> <step;step;...>    step: g<path> (root.GetByPath)  c<path> (chain of Get/Index from root)
//                                             L (root.LoadAll)  M (root.Interface/Map/Array)  I (iterate root to the end)  N (root.Len)
// answers, one per step joined by "|":  ok:<ordered canon of Raw()> | nf | err:<class> | - (control step)

func srchSeqAnswer(n *ast.Node) string {
	if n == nil {
		return "nf"
	}
	if err := n.Check(); err != nil {
		return errClass(err)
	}
	if !n.Exists() {
		return "nf"
	}
	raw, err := n.Raw()
	if err != nil {
		return "err:raw"
	}
	return "ok:" + ocanonText([]byte(raw))
}

func srchRunSeq(root *ast.Node, steps []string) string {
	out := make([]string, 0, len(steps))
	for _, st := range steps {
		ans := guarded(func() string {
			switch st[0] {
			case 'g':
				_, pi := parsePath(st[1:])
				return srchSeqAnswer(root.GetByPath(pi...))
			case 'c':
				pe, _ := parsePath(st[1:])
				n := root
				for _, p := range pe {
					if p.isKey {
						n = n.Get(p.key)
					} else {
						n = n.Index(p.idx)
					}
					if n == nil || !n.Valid() {
						break
					}
				}
				return srchSeqAnswer(n)
			case 'L':
				root.LoadAll()
			case 'M':
				root.Interface()
			case 'N':
				root.Len()
			case 'I':
				switch root.Type() {
				case 5:
					if it, err := root.Values(); err == nil {
						var v ast.Node
						for it.Next(&v) {
						}
					}
				case 6:
					if it, err := root.Properties(); err == nil {
						var p ast.Pair
						for it.Next(&p) {
						}
					}
				}
			default:
				panic("bad seq step")
			}
			return "-"
		})
		out = append(out, ans)
	}
	return strings.Join(out, "|")
}

func init() {
	registerOp("c14seq", func(a []string) string {
		doc := unhexArg(a[0])
		sdoc := string(doc)
		steps := strings.Split(a[1], ";")
		var sb strings.Builder
		roots := []struct {
			name string
			mk   func() (ast.Node, error)
		}{
			{"NR", func() (ast.Node, error) { return ast.NewRaw(sdoc), nil }},
			{"SG", func() (ast.Node, error) { return sonic.Get(doc) }},
			{"GS", func() (ast.Node, error) { return sonic.GetFromString(sdoc) }},
			{"W0", func() (ast.Node, error) { return sonic.GetWithOptions(doc, ast.SearchOptions{}) }},
			{"W5", func() (ast.Node, error) {
				return sonic.GetWithOptions(doc, ast.SearchOptions{ValidateJSON: true, ConcurrentRead: true})
			}},
			{"NRC", func() (ast.Node, error) { return ast.NewRawConcurrentRead(sdoc), nil }},
		}
		first := ""
		for i, r := range roots {
			res := guarded(func() string {
				root, err := r.mk()
				if err != nil {
					return "rooterr:" + errClass(err)
				}
				return srchRunSeq(&root, steps)
			})
			if i == 0 {
				first = res
				sb.WriteString("sonic=" + res)
			} else if res != first {
				sb.WriteString("\talt" + r.name + "=" + res)
			}
		}
		if !json.Valid(doc) {
			sb.WriteString("\tref=invalid")
		} else {
			refs := make([]string, 0, len(steps))
			for _, st := range steps {
				if st[0] != 'g' && st[0] != 'c' {
					refs = append(refs, "-")
					continue
				}
				pe, _ := parsePath(st[1:])
				if raw, ok := refLocate(doc, pe); ok {
					refs = append(refs, "ok:"+ocanonText(raw))
				} else {
					refs = append(refs, "nf")
				}
			}
			sb.WriteString("\tref=" + strings.Join(refs, "|"))
		}
		sb.WriteString("\tu8=" + b01(utf8.Valid(doc)))
		return sb.String()
	})
}

// ---------------------------------------------------------------- *UseNode conversions

func srchNodeOC(n *ast.Node) string {
	raw, err := n.Raw()
	if err != nil {
		return "E"
	}
	return ocanonText([]byte(raw))
}

func srchNodesCanon(ns []ast.Node) string {
	var sb strings.Builder
	sb.WriteByte('[')
	for i := range ns {
		if i > 0 {
			sb.WriteByte(',')
		}
		sb.WriteString(srchNodeOC(&ns[i]))
	}
	sb.WriteByte(']')
	return sb.String()
}

func srchNodeMapCanon(m map[string]ast.Node) string {
	keys := make([]string, 0, len(m))
	for k := range m {
		keys = append(keys, k)
	}
	sort.Strings(keys)
	var sb strings.Builder
	sb.WriteByte('{')
	for i, k := range keys {
		if i > 0 {
			sb.WriteByte(',')
		}
		v := m[k]
		sb.WriteString(srchHx(k))
		sb.WriteByte(':')
		sb.WriteString(srchNodeOC(&v))
	}
	sb.WriteByte('}')
	return sb.String()
}

// srchUseNodeView: ArrayUseNode / MapUseNode on copies of the located node, cross-checked with
// InterfaceUseNode on another copy (and on a copy that was loaded with LoadAll first)
func srchUseNodeView(n *ast.Node, t int, bad *[]string) string {
	switch t {
	case 5:
		cp := *n
		v, err := cp.ArrayUseNode()
		if err != nil {
			return "E"
		}
		un := srchNodesCanon(v)
		cp2 := *n
		if w, err := cp2.InterfaceUseNode(); err != nil {
			*bad = append(*bad, "InterfaceUseNode")
		} else if ws, ok := w.([]ast.Node); !ok || srchNodesCanon(ws) != un {
			*bad = append(*bad, "InterfaceUseNode")
		}
		cp3 := *n
		if cp3.LoadAll() == nil {
			if w, err := cp3.ArrayUseNode(); err != nil || srchNodesCanon(w) != un {
				*bad = append(*bad, "ArrayUseNodeAfterLoad")
			}
		}
		return un
	case 6:
		cp := *n
		v, err := cp.MapUseNode()
		if err != nil {
			return "E"
		}
		un := srchNodeMapCanon(v)
		cp2 := *n
		if w, err := cp2.InterfaceUseNode(); err != nil {
			*bad = append(*bad, "InterfaceUseNode")
		} else if wm, ok := w.(map[string]ast.Node); !ok || srchNodeMapCanon(wm) != un {
			*bad = append(*bad, "InterfaceUseNode")
		}
		cp3 := *n
		if cp3.LoadAll() == nil {
			if w, err := cp3.MapUseNode(); err != nil || srchNodeMapCanon(w) != un {
				*bad = append(*bad, "MapUseNodeAfterLoad")
			}
		}
		return un
	default:
		cp := *n
		w, err := cp.InterfaceUseNode()
		if err != nil {
			return "E"
		}
		if nd, ok := w.(ast.Node); ok {
			return srchNodeOC(&nd)
		}
		return "?"
	}
}

// srchRefUseNode: the same view from encoding/json: children in order (array), or one entry per
// distinct decoded key, last occurrence (object), each as the ordered canon of its text
func srchRefUseNode(raw []byte, t int) string {
	switch t {
	case 5:
		return ocanonText(raw)
	case 6:
		dec := json.NewDecoder(bytes.NewReader(raw))
		dec.UseNumber()
		if _, err := dec.Token(); err != nil {
			return "!"
		}
		m := map[string]string{}
		for dec.More() {
			kt, err := dec.Token()
			if err != nil {
				return "!"
			}
			var v json.RawMessage
			if err := dec.Decode(&v); err != nil {
				return "!"
			}
			m[kt.(string)] = ocanonText(v)
		}
		keys := make([]string, 0, len(m))
		for k := range m {
			keys = append(keys, k)
		}
		sort.Strings(keys)
		var sb strings.Builder
		sb.WriteByte('{')
		for i, k := range keys {
			if i > 0 {
				sb.WriteByte(',')
			}
			sb.WriteString(srchHx(k) + ":" + m[k])
		}
		sb.WriteByte('}')
		return sb.String()
	default:
		return ocanonText(raw)
	}
}

// ---------------------------------------------------------------- wide documents by repetition

func srchWideChild(child string, i int) string {
	switch child {
	case "s":
		return itoa(i)
	case "e":
		if i%2 == 0 {
			return "[]"
		}
		return "{}"
	case "c":
		if i%2 == 0 {
			return "[" + itoa(i) + `,"r"]`
		}
		return `{"id":` + itoa(i) + "}"
	default: // "m": scalar, empty container, non-empty container in turn
		switch i % 3 {
		case 0:
			return itoa(i)
		case 1:
			return "[]"
		}
		return `{"id":` + itoa(i) + "}"
	}
}

func srchWideDoc(ckind, child string, n int) []byte {
	var sb strings.Builder
	sb.WriteString(`{"meta":{"n":1},"rows":`)
	if ckind == "a" {
		sb.WriteByte('[')
	} else {
		sb.WriteByte('{')
	}
	for i := 0; i < n; i++ {
		if i > 0 {
			sb.WriteByte(',')
		}
		if ckind != "a" {
			sb.WriteString(`"k` + itoa(i) + `":`)
		}
		sb.WriteString(srchWideChild(child, i))
	}
	if ckind == "a" {
		sb.WriteByte(']')
	} else {
		sb.WriteByte('}')
	}
	sb.WriteByte('}')
	return []byte(sb.String())
}

func srchFnv(s string) string {
	h := uint64(14695981039346656037)
	for i := 0; i < len(s); i++ {
		h ^= uint64(s[i])
		h *= 1099511628211
	}
	return itoa(len(s)) + ":" + strconv.FormatUint(h, 16)
}

// srchCompress: the long fields of a record as <length>:<fnv-1a 64 of the field text>
func srchCompress(rec string) string {
	if !strings.HasPrefix(rec, "ok;") {
		return rec
	}
	parts := strings.Split(rec, ";")
	for i, kv := range parts {
		eq := strings.IndexByte(kv, '=')
		if eq < 0 {
			continue
		}
		switch kv[:eq] {
		case "raw", "oc", "c", "it", "cf", "un":
			parts[i] = kv[:eq+1] + srchFnv(kv[eq+1:])
		}
	}
	return strings.Join(parts, ";")
}

func srchGetAnswer(mask int, doc []byte, pe []pathElem, pi []interface{}, compress bool) string {
	var sb strings.Builder
	apis := runGetAPIs(mask, doc, pe, pi)
	if compress {
		for i := range apis {
			apis[i].rec = srchCompress(apis[i].rec)
		}
	}
	sb.WriteString("sonic=" + apis[0].rec)
	// distinct records among the other entry points
	alts := map[string][]string{}
	var order []string
	for _, r := range apis[1:] {
		if r.rec == apis[0].rec {
			continue
		}
		if _, ok := alts[r.rec]; !ok {
			order = append(order, r.rec)
		}
		alts[r.rec] = append(alts[r.rec], r.name)
	}
	sb.WriteString("\tapis=" + itoa(len(apis)))
	for i, rec := range order {
		sb.WriteString("\talt" + itoa(i) + "=" + strings.Join(alts[rec], "&") + "@" + rec)
	}
	// reference
	if !json.Valid(doc) {
		sb.WriteString("\tref=invalid")
	} else if raw, ok := refLocate(doc, pe); ok {
		rr := refRecord(raw)
		if compress {
			rr = srchCompress(rr)
		}
		sb.WriteString("\tref=" + rr)
	} else {
		sb.WriteString("\tref=nf")
	}
	sb.WriteString("\tu8=" + b01(utf8.Valid(doc)))
	return sb.String()
}
