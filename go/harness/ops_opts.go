package main

// C18 - option switches and entry points (work package `opts`).
//
//   optpair <sw> <cfg> m <value-desc-hex>         Marshal the value under Config c (switch sw off) and c+sw
//   optpair <sw> <cfg> u <dest> <doc-hex>         Unmarshal the document under c and c+sw
//   entry   <which> <cfg> <value-desc-hex> <dest> <doc-hex>
//   froze   <cfg>                                 the real option words of Config.Froze()
//   setseq  <Encoder|Decoder|Stream*> <calls>     option word after a sequence of setter calls
//
// <cfg> is a decimal number whose bit i is field i of sonic.Config in declaration order.
// All identifiers in this file start with `oc` (other packages share package main).

import (
	"bytes"
	"encoding/hex"
	"encoding/json"
	"errors"
	"fmt"
	"io"
	"math"
	"reflect"
	"sort"
	"strconv"
	"strings"
	"unicode/utf8"

	"github.com/bytedance/sonic"
	"github.com/bytedance/sonic/decoder"
	"github.com/bytedance/sonic/encoder"
)

// ---------------------------------------------------------------------------------- Config

var ocFieldNames = func() []string {
	t := reflect.TypeOf(sonic.Config{})
	var r []string
	for i := 0; i < t.NumField(); i++ {
		if t.Field(i).Type.Kind() == reflect.Bool {
			r = append(r, t.Field(i).Name)
		}
	}
	return r
}()

func ocConfig(bits uint64) sonic.Config {
	var c sonic.Config
	v := reflect.ValueOf(&c).Elem()
	for i, n := range ocFieldNames {
		if bits&(1<<uint(i)) != 0 {
			v.FieldByName(n).SetBool(true)
		}
	}
	return c
}

func ocBit(name string) uint64 {
	for i, n := range ocFieldNames {
		if n == name {
			return 1 << uint(i)
		}
	}
	return 0
}

func ocHas(bits uint64, name string) bool { return bits&ocBit(name) != 0 }

// names of the switches that are on, comma separated ("-" = none)
func ocNamesOn(bits uint64) string {
	var r []string
	for i, n := range ocFieldNames {
		if bits&(1<<uint(i)) != 0 {
			r = append(r, n)
		}
	}
	if len(r) == 0 {
		return "-"
	}
	return strings.Join(r, ",")
}

// ---------------------------------------------------------------------------------- errors

var ocLeafErr = errors.New("leaf error")

func ocErrKind(err error) string {
	if err == nil {
		return "ok"
	}
	if errors.Is(err, ocLeafErr) {
		return "leaf"
	}
	var ute *json.UnsupportedTypeError
	if errors.As(err, &ute) {
		return "unsupported_type"
	}
	var uve *json.UnsupportedValueError
	if errors.As(err, &uve) {
		return "unsupported_value"
	}
	var me *json.MarshalerError
	if errors.As(err, &me) {
		return "marshaler"
	}
	var se *json.SyntaxError
	if errors.As(err, &se) {
		return "syntax"
	}
	var te *json.UnmarshalTypeError
	if errors.As(err, &te) {
		return "mismatch"
	}
	if _, ok := err.(decoder.SyntaxError); ok {
		return "syntax"
	}
	if _, ok := err.(*decoder.MismatchTypeError); ok {
		return "mismatch"
	}
	m := err.Error()
	switch {
	case strings.Contains(m, "unknown field"):
		return "unknown_field"
	case strings.Contains(m, "unsupported value"):
		return "unsupported_value"
	case strings.Contains(m, "unsupported type"):
		return "unsupported_type"
	case strings.Contains(m, "invalid Marshaler output"):
		return "marshaler"
	case strings.Contains(m, "unexpected end of JSON input"), strings.Contains(m, "invalid character"):
		return "syntax"
	case strings.Contains(m, "Syntax error"), strings.Contains(m, "syntax error"):
		return "syntax"
	case strings.Contains(m, "ismatch"), strings.Contains(m, "cannot unmarshal"):
		return "mismatch"
	case err == io.EOF || err == io.ErrUnexpectedEOF:
		return "eof"
	}
	return "other"
}

func ocRes(b []byte, err error) string {
	if err != nil {
		return "E:" + ocErrKind(err)
	}
	return "O:" + hex.EncodeToString(b)
}

// ---------------------------------------------------------------------------------- leaf types with methods

// ocTM: encoding.TextMarshaler leaf (value receiver); comparable, so usable as a map key.
type ocTM struct {
	T string
	E bool
}

func (t ocTM) MarshalText() ([]byte, error) {
	if t.E {
		return nil, ocLeafErr
	}
	return []byte(t.T), nil
}

// ocJM: json.Marshaler leaf returning fixed bytes.
type ocJM struct {
	R string
	E bool
}

func (j ocJM) MarshalJSON() ([]byte, error) {
	if j.E {
		return nil, ocLeafErr
	}
	return []byte(j.R), nil
}

// ocS1: one struct with typed fields for every feature a switch looks at.  All JSON names start
// with 'F' (the model tells struct objects from map objects by that), and are deliberately NOT
// declared in byte order.
type ocS1 struct {
	Fsl []int                  `json:"Fsl"`
	Fmp map[string]int         `json:"Fmp"`
	Fby []byte                 `json:"Fby"`
	Fso []int                  `json:"Fso,omitempty"`
	Fmo map[string]int         `json:"Fmo,omitempty"`
	Ff  float64                `json:"Ff"`
	Fg  float32                `json:"Fg"`
	Ffs float64                `json:"Ffs,string"`
	Fs  string                 `json:"Fs"`
	Fss string                 `json:"Fss,string"`
	Ftm ocTM                   `json:"Ftm"`
	Fpt *ocTM                  `json:"Fpt"`
	Fjm ocJM                   `json:"Fjm"`
	Fz  int                    `json:"Fz,omitzero"`
	Fas []interface{}          `json:"Fas"`
	Fam map[string]interface{} `json:"Fam"`
	Fim map[int]interface{}    `json:"Fim"`
	Ftk map[ocTM]int           `json:"Ftk"`
	Fb  interface{}            `json:"Fb"`
	Fa  interface{}            `json:"Fa"`
}

// ocS2: small struct (pointer fields, embedded order) used nested.
type ocS2 struct {
	Fy interface{} `json:"Fy"`
	Fx *float64    `json:"Fx"`
	Fn []string    `json:"Fn"`
	Fo map[string]interface{} `json:"Fo,omitempty"`
}

// ---------------------------------------------------------------------------------- value descriptions

// A value description is a JSON document (hex on the wire):
//   null | true | false | number (float64) | "text" (Go string)
//   [ ... ]                                   []interface{}
//   {"t":"str","h":hex}                       Go string with arbitrary bytes
//   {"t":"int","v":n}                         int64
//   {"t":"f64"|"f32","v":"nan"|"+inf"|"-inf"|"<decimal>"}
//   {"t":"map","k":"str"|"int"|"tm","e":[[k,v],...]}   k: hex (str, tm) or number (int)
//   {"t":"nilmap","k":...} {"t":"nilsl","of":"any"|"int"|"byte"|"str"} {"t":"sl","of":"int"|"str","e":[...]}
//   {"t":"bytes","h":hex}
//   {"t":"tm","h":hex,"err":bool,"ptr":bool} {"t":"jm","h":hex,"err":bool}
//   {"t":"s1", <field>:desc ...}  {"t":"s2", ...}
type ocMode struct {
	nilAsEmpty  bool // nil slices and maps built as empty ones
	nanSentinel bool // non-finite floats replaced by the sentinel value
	maxMap      int  // >0: keep at most that many entries of every map
}

const ocSentinel = 7.25e+77  // prints as 7.25e+77
const ocSentinel32 = 7.25e+27 // float32, prints as 7.25e+27

type ocStats struct {
	nonfinite int
	nilcont   int
	tms       map[string]bool
	tmk       map[string]bool // texts of TextMarshaler map keys
	badjm     int
	jms       int
	maps2     int // maps with >= 2 entries
	strs      int
}

func ocUnhex(s interface{}) string {
	h, _ := s.(string)
	b, err := hex.DecodeString(h)
	if err != nil {
		panic("bad hex in value description")
	}
	return string(b)
}

func ocFloat(d map[string]interface{}, m ocMode, st *ocStats, is32 bool) float64 {
	var f float64
	switch v := d["v"].(type) {
	case string:
		switch v {
		case "nan":
			f = math.NaN()
		case "+inf":
			f = math.Inf(1)
		case "-inf":
			f = math.Inf(-1)
		default:
			x, err := strconv.ParseFloat(v, 64)
			if err != nil {
				panic("bad float in value description")
			}
			f = x
		}
	case float64:
		f = v
	}
	if is32 {
		f = float64(float32(f)) // overflow to ±Inf happens here
	}
	if math.IsNaN(f) || math.IsInf(f, 0) {
		st.nonfinite++
		if m.nanSentinel {
			if is32 {
				return ocSentinel32
			}
			return ocSentinel
		}
	}
	return f
}

func ocBuild(d interface{}, m ocMode, st *ocStats) interface{} {
	switch x := d.(type) {
	case nil, bool, float64:
		return x
	case string:
		st.strs++
		return x
	case []interface{}:
		r := make([]interface{}, len(x))
		for i, e := range x {
			r[i] = ocBuild(e, m, st)
		}
		return r
	case map[string]interface{}:
		t, _ := x["t"].(string)
		switch t {
		case "str":
			st.strs++
			return ocUnhex(x["h"])
		case "int":
			f, _ := x["v"].(float64)
			return int64(f)
		case "f64":
			return ocFloat(x, m, st, false)
		case "f32":
			return float32(ocFloat(x, m, st, true))
		case "bytes":
			return []byte(ocUnhex(x["h"]))
		case "tm":
			tm := ocBuildTM(x, st)
			if p, _ := x["ptr"].(bool); p {
				return &tm
			}
			return tm
		case "jm":
			return ocBuildJM(x, st)
		case "nilsl":
			st.nilcont++
			switch x["of"] {
			case "int":
				if m.nilAsEmpty {
					return []int{}
				}
				return []int(nil)
			case "byte":
				if m.nilAsEmpty {
					return []byte{}
				}
				return []byte(nil)
			case "str":
				if m.nilAsEmpty {
					return []string{}
				}
				return []string(nil)
			default:
				if m.nilAsEmpty {
					return []interface{}{}
				}
				return []interface{}(nil)
			}
		case "sl":
			es, _ := x["e"].([]interface{})
			if x["of"] == "str" {
				r := make([]string, len(es))
				for i, e := range es {
					r[i], _ = ocBuild(e, m, st).(string)
				}
				return r
			}
			r := make([]int, len(es))
			for i, e := range es {
				f, _ := e.(float64)
				r[i] = int(f)
			}
			return r
		case "nilmap":
			st.nilcont++
			switch x["k"] {
			case "int":
				if m.nilAsEmpty {
					return map[int]interface{}{}
				}
				return map[int]interface{}(nil)
			case "tm":
				if m.nilAsEmpty {
					return map[ocTM]interface{}{}
				}
				return map[ocTM]interface{}(nil)
			default:
				if m.nilAsEmpty {
					return map[string]interface{}{}
				}
				return map[string]interface{}(nil)
			}
		case "map":
			es, _ := x["e"].([]interface{})
			if m.maxMap > 0 && len(es) > m.maxMap {
				es = es[:m.maxMap]
			}
			var n int
			var r interface{}
			switch x["k"] {
			case "int":
				mm := map[int]interface{}{}
				for _, e := range es {
					kv := e.([]interface{})
					f, _ := kv[0].(float64)
					mm[int(f)] = ocBuild(kv[1], m, st)
				}
				n, r = len(mm), mm
			case "tm":
				mm := map[ocTM]interface{}{}
				for _, e := range es {
					kv := e.([]interface{})
					k := ocTM{T: ocUnhex(kv[0])}
					st.tms[k.T] = true
					st.tmk[k.T] = true
					mm[k] = ocBuild(kv[1], m, st)
				}
				n, r = len(mm), mm
			default:
				mm := map[string]interface{}{}
				for _, e := range es {
					kv := e.([]interface{})
					mm[ocUnhex(kv[0])] = ocBuild(kv[1], m, st)
				}
				n, r = len(mm), mm
			}
			if n >= 2 {
				st.maps2++
			}
			return r
		case "s1":
			return ocBuildS1(x, m, st)
		case "s2":
			return ocBuildS2(x, m, st)
		}
		panic("unknown value description tag " + t)
	}
	panic("bad value description")
}

func ocBuildTM(x map[string]interface{}, st *ocStats) ocTM {
	tm := ocTM{T: ocUnhex(x["h"])}
	tm.E, _ = x["err"].(bool)
	if !tm.E {
		st.tms[tm.T] = true
	}
	return tm
}

func ocBuildJM(x map[string]interface{}, st *ocStats) ocJM {
	jm := ocJM{R: ocUnhex(x["h"])}
	jm.E, _ = x["err"].(bool)
	if !jm.E {
		st.jms++
		if !json.Valid([]byte(jm.R)) {
			st.badjm++
		}
	}
	return jm
}

func ocIntSlice(d interface{}, m ocMode, st *ocStats) []int {
	if d == nil {
		st.nilcont++
		if m.nilAsEmpty {
			return []int{}
		}
		return nil
	}
	es, _ := d.([]interface{})
	r := make([]int, len(es))
	for i, e := range es {
		f, _ := e.(float64)
		r[i] = int(f)
	}
	return r
}

func ocStrIntMap(d interface{}, m ocMode, st *ocStats) map[string]int {
	if d == nil {
		st.nilcont++
		if m.nilAsEmpty {
			return map[string]int{}
		}
		return nil
	}
	es, _ := d.([]interface{})
	if m.maxMap > 0 && len(es) > m.maxMap {
		es = es[:m.maxMap]
	}
	r := map[string]int{}
	for _, e := range es {
		kv := e.([]interface{})
		f, _ := kv[1].(float64)
		r[ocUnhex(kv[0])] = int(f)
	}
	if len(r) >= 2 {
		st.maps2++
	}
	return r
}

func ocAnyMap(d interface{}, m ocMode, st *ocStats) map[string]interface{} {
	if d == nil {
		st.nilcont++
		if m.nilAsEmpty {
			return map[string]interface{}{}
		}
		return nil
	}
	v := ocBuild(map[string]interface{}{"t": "map", "k": "str", "e": d}, m, st)
	return v.(map[string]interface{})
}

func ocStrField(d interface{}, st *ocStats) string {
	st.strs++
	switch x := d.(type) {
	case string:
		return x
	case map[string]interface{}:
		return ocUnhex(x["h"])
	}
	return ""
}

func ocFloatField(d interface{}, m ocMode, st *ocStats, is32 bool) float64 {
	switch x := d.(type) {
	case float64:
		return x
	case string:
		return ocFloat(map[string]interface{}{"v": x}, m, st, is32)
	case map[string]interface{}:
		return ocFloat(x, m, st, is32)
	}
	return 0
}

func ocBuildS1(x map[string]interface{}, m ocMode, st *ocStats) ocS1 {
	var s ocS1
	s.Fsl = ocIntSlice(x["Fsl"], m, st)
	s.Fmp = ocStrIntMap(x["Fmp"], m, st)
	if x["Fby"] == nil {
		st.nilcont++
		if m.nilAsEmpty {
			s.Fby = []byte{}
		}
	} else {
		s.Fby = []byte(ocUnhex(x["Fby"]))
	}
	// omitempty fields: a nil or empty container is omitted under every option set
	if x["Fso"] != nil {
		s.Fso = ocIntSlice(x["Fso"], m, st)
	}
	if x["Fmo"] != nil {
		s.Fmo = ocStrIntMap(x["Fmo"], m, st)
	}
	s.Ff = ocFloatField(x["Ff"], m, st, false)
	s.Fg = float32(ocFloatField(x["Fg"], m, st, true))
	s.Ffs = ocFloatField(x["Ffs"], m, st, false)
	s.Fs = ocStrField(x["Fs"], st)
	s.Fss = ocStrField(x["Fss"], st)
	if d, ok := x["Ftm"].(map[string]interface{}); ok {
		s.Ftm = ocBuildTM(d, st)
	} else {
		s.Ftm = ocTM{T: "tm"}
		st.tms["tm"] = true
	}
	if d, ok := x["Fpt"].(map[string]interface{}); ok {
		t := ocBuildTM(d, st)
		s.Fpt = &t
	}
	if d, ok := x["Fjm"].(map[string]interface{}); ok {
		s.Fjm = ocBuildJM(d, st)
	} else {
		s.Fjm = ocJM{R: "null"}
		st.jms++
	}
	if f, ok := x["Fz"].(float64); ok {
		s.Fz = int(f)
	}
	if x["Fas"] == nil {
		st.nilcont++
		if m.nilAsEmpty {
			s.Fas = []interface{}{}
		}
	} else {
		s.Fas, _ = ocBuild(x["Fas"], m, st).([]interface{})
	}
	s.Fam = ocAnyMap(x["Fam"], m, st)
	if x["Fim"] == nil {
		st.nilcont++
		if m.nilAsEmpty {
			s.Fim = map[int]interface{}{}
		}
	} else {
		s.Fim, _ = ocBuild(map[string]interface{}{"t": "map", "k": "int", "e": x["Fim"]}, m, st).(map[int]interface{})
	}
	if x["Ftk"] == nil {
		st.nilcont++
		if m.nilAsEmpty {
			s.Ftk = map[ocTM]int{}
		}
	} else {
		es, _ := x["Ftk"].([]interface{})
		if m.maxMap > 0 && len(es) > m.maxMap {
			es = es[:m.maxMap]
		}
		s.Ftk = map[ocTM]int{}
		for _, e := range es {
			kv := e.([]interface{})
			f, _ := kv[1].(float64)
			k := ocTM{T: ocUnhex(kv[0])}
			st.tms[k.T] = true
			st.tmk[k.T] = true
			s.Ftk[k] = int(f)
		}
		if len(s.Ftk) >= 2 {
			st.maps2++
		}
	}
	s.Fb = ocBuild(x["Fb"], m, st)
	s.Fa = ocBuild(x["Fa"], m, st)
	return s
}

func ocBuildS2(x map[string]interface{}, m ocMode, st *ocStats) ocS2 {
	var s ocS2
	s.Fy = ocBuild(x["Fy"], m, st)
	if x["Fx"] != nil {
		f := ocFloatField(x["Fx"], m, st, false)
		s.Fx = &f
	}
	if x["Fn"] == nil {
		st.nilcont++
		if m.nilAsEmpty {
			s.Fn = []string{}
		}
	} else {
		es, _ := x["Fn"].([]interface{})
		s.Fn = make([]string, len(es))
		for i, e := range es {
			s.Fn[i] = ocStrField(e, st)
		}
	}
	if x["Fo"] != nil {
		s.Fo = ocAnyMap(x["Fo"], m, st)
	}
	return s
}

func ocParseDesc(h string) interface{} {
	var d interface{}
	if err := json.Unmarshal(unhexArg(h), &d); err != nil {
		panic("value description is not JSON: " + err.Error())
	}
	return d
}

func ocNewStats() *ocStats { return &ocStats{tms: map[string]bool{}, tmk: map[string]bool{}} }

// ---------------------------------------------------------------------------------- references

// ocCorrect: every byte that does not start a well-formed UTF-8 sequence replaced by repl
// (what encoding/json does when it quotes / unquotes a string)
func ocCorrect(b []byte, repl string) []byte {
	var out []byte
	for i := 0; i < len(b); {
		r, n := utf8.DecodeRune(b[i:])
		if r == utf8.RuneError && n == 1 {
			out = append(out, repl...)
			i++
			continue
		}
		out = append(out, b[i:i+n]...)
		i += n
	}
	return out
}

// ---------------------------------------------------------------------------------- marshal side

func ocMarshal(api sonic.API, v interface{}) string {
	b, err := api.Marshal(v)
	return ocRes(b, err)
}

func ocStream(api sonic.API, v interface{}) string {
	var w bytes.Buffer
	err := api.NewEncoder(&w).Encode(v)
	return ocRes(w.Bytes(), err)
}

func ocSortedKeys(m map[string]bool) []string {
	var r []string
	for k := range m {
		r = append(r, k)
	}
	sort.Strings(r)
	return r
}

func ocPairMarshal(sw int, cfg uint64, descHex string) string {
	name := ocFieldNames[sw]
	c0 := cfg &^ (1 << uint(sw))
	c1 := c0 | 1<<uint(sw)
	d := ocParseDesc(descHex)
	// Go randomises map iteration: unless keys are sorted on both sides (or the switch under test is
	// SortMapKeys itself) maps are cut to one entry so that both outputs are functions of the value.
	mode := ocMode{}
	if !ocHas(c0, "SortMapKeys") && name != "SortMapKeys" {
		mode.maxMap = 1
	}
	st := ocNewStats()
	v := ocBuild(d, mode, st)
	api0, api1 := ocConfig(c0).Froze(), ocConfig(c1).Froze()
	a := ocMarshal(api0, v)
	b := ocMarshal(api1, v)
	out := []string{"sonic=done", "sw=" + name, "on=" + ocNamesOn(c0), "a=" + a, "b=" + b, "sa=" + ocStream(api0, v), "sb=" + ocStream(api1, v)}
	switch name {
	case "NoNullSliceOrMap":
		m2 := mode
		m2.nilAsEmpty = true
		out = append(out, "x="+ocMarshal(api0, ocBuild(d, m2, ocNewStats())))
	case "EncodeNullForInfOrNan":
		m2 := mode
		m2.nanSentinel = true
		out = append(out, "x="+ocMarshal(api0, ocBuild(d, m2, ocNewStats())))
	case "EscapeHTML":
		if strings.HasPrefix(a, "O:") {
			raw, _ := hex.DecodeString(a[2:])
			var w bytes.Buffer
			json.HTMLEscape(&w, raw)
			out = append(out, "ref=O:"+hex.EncodeToString(w.Bytes()))
		} else {
			out = append(out, "ref="+a)
		}
	case "ValidateString":
		if strings.HasPrefix(a, "O:") {
			raw, _ := hex.DecodeString(a[2:])
			out = append(out, "ref=O:"+hex.EncodeToString(ocCorrect(raw, "\\ufffd")))
		} else {
			out = append(out, "ref="+a)
		}
	}
	var tms []string
	for _, t := range ocSortedKeys(st.tms) {
		tms = append(tms, hexArg([]byte(t)))
	}
	if len(tms) == 0 {
		tms = []string{"none"}
	}
	var tmk []string
	for _, t := range ocSortedKeys(st.tmk) {
		tmk = append(tmk, hexArg([]byte(t)))
	}
	if len(tmk) == 0 {
		tmk = []string{"none"}
	}
	out = append(out, "tms="+strings.Join(tms, ","), "tmk="+strings.Join(tmk, ","),
		fmt.Sprintf("st=nf%d,nil%d,bad%d,jm%d,mm%d,str%d", st.nonfinite, st.nilcont, st.badjm, st.jms, st.maps2, st.strs))
	return strings.Join(out, "\t")
}

// ---------------------------------------------------------------------------------- unmarshal side

// destination types
type ocFlat struct {
	A interface{} `json:"ab"`
	B interface{} `json:"AB"`
	C interface{} `json:"Ab"`
	D interface{} `json:"xy"`
	E interface{}
	F interface{} `json:"e"`
	G interface{} `json:"Gg"`
	H interface{} `json:"-"`
	I interface{} `json:"hello_World"`
}

// ocFlat's fields in declaration order as `GoName:hex(JSON name)` (`!` = never matched), given to the model
var ocFlatFields = func() string {
	t := reflect.TypeOf(ocFlat{})
	var r []string
	for i := 0; i < t.NumField(); i++ {
		f := t.Field(i)
		name := f.Name
		if tag, ok := f.Tag.Lookup("json"); ok {
			if tag == "-" {
				r = append(r, f.Name+":!")
				continue
			}
			if n := strings.Split(tag, ",")[0]; n != "" {
				name = n
			}
		}
		r = append(r, f.Name+":"+hex.EncodeToString([]byte(name)))
	}
	return strings.Join(r, ",")
}()

type ocSub struct {
	X interface{}
	Y json.Number
	Z []interface{}
}

type ocNest struct {
	N   int
	Fl  float64
	S   string
	I   interface{}
	A   []interface{}
	M   map[string]interface{}
	Sub ocSub
	Num json.Number
	P   *ocSub
	U   uint8
}

func ocNewDest(kind string) interface{} {
	switch kind {
	case "any":
		return new(interface{})
	case "flat":
		return new(ocFlat)
	case "nest":
		return new(ocNest)
	case "mapany":
		return new(map[string]interface{})
	case "slany":
		return new([]interface{})
	case "str":
		return new(string)
	}
	panic("unknown destination " + kind)
}

// ocDump: canonical JSON text of a decoded value.  Leaves are strings with a tag: under interface{}
// lower case (f: float64 bits, i: int64, n: json.Number, s: string), in typed positions upper case.
func ocDump(w *bytes.Buffer, v reflect.Value, under bool) {
	tag := func(lo, up string) string {
		if under {
			return lo
		}
		return up
	}
	if !v.IsValid() {
		w.WriteString("null")
		return
	}
	if v.Type() == reflect.TypeOf(json.Number("")) {
		w.WriteString(`"` + tag("n", "N") + ":" + hex.EncodeToString([]byte(v.String())) + `"`)
		return
	}
	switch v.Kind() {
	case reflect.Interface:
		if v.IsNil() {
			w.WriteString("null")
			return
		}
		ocDump(w, v.Elem(), true)
	case reflect.Ptr:
		if v.IsNil() {
			w.WriteString("null")
			return
		}
		w.WriteString(`{"*":`)
		ocDump(w, v.Elem(), false)
		w.WriteString("}")
	case reflect.Bool:
		if v.Bool() {
			w.WriteString("true")
		} else {
			w.WriteString("false")
		}
	case reflect.Float64, reflect.Float32:
		w.WriteString(`"` + tag("f", "F") + ":" + fmt.Sprintf("%016x", math.Float64bits(v.Float())) + `"`)
	case reflect.Int, reflect.Int8, reflect.Int16, reflect.Int32, reflect.Int64:
		w.WriteString(`"` + tag("i", "I") + ":" + strconv.FormatInt(v.Int(), 10) + `"`)
	case reflect.Uint, reflect.Uint8, reflect.Uint16, reflect.Uint32, reflect.Uint64:
		w.WriteString(`"` + tag("u", "U") + ":" + strconv.FormatUint(v.Uint(), 10) + `"`)
	case reflect.String:
		w.WriteString(`"` + tag("s", "S") + ":" + hex.EncodeToString([]byte(v.String())) + `"`)
	case reflect.Slice, reflect.Array:
		if v.Kind() == reflect.Slice && v.IsNil() {
			w.WriteString("null")
			return
		}
		w.WriteString("[")
		for i := 0; i < v.Len(); i++ {
			if i > 0 {
				w.WriteString(",")
			}
			ocDump(w, v.Index(i), false)
		}
		w.WriteString("]")
	case reflect.Map:
		if v.IsNil() {
			w.WriteString("null")
			return
		}
		keys := make([]string, 0, v.Len())
		vals := map[string]reflect.Value{}
		it := v.MapRange()
		for it.Next() {
			k := hex.EncodeToString([]byte(it.Key().String()))
			keys = append(keys, k)
			vals[k] = it.Value()
		}
		sort.Strings(keys)
		w.WriteString("{")
		for i, k := range keys {
			if i > 0 {
				w.WriteString(",")
			}
			w.WriteString(`"k` + k + `":`)
			ocDump(w, vals[k], false)
		}
		w.WriteString("}")
	case reflect.Struct:
		w.WriteString("{")
		for i := 0; i < v.NumField(); i++ {
			if i > 0 {
				w.WriteString(",")
			}
			w.WriteString(`"` + v.Type().Field(i).Name + `":`)
			ocDump(w, v.Field(i), false)
		}
		w.WriteString("}")
	default:
		w.WriteString(`"?"`)
	}
}

func ocDumpOf(dest interface{}, err error) string {
	if err != nil {
		return "E:" + ocErrKind(err)
	}
	var w bytes.Buffer
	ocDump(&w, reflect.ValueOf(dest).Elem(), false)
	return "O:" + hex.EncodeToString(w.Bytes())
}

const ocBothMsg = "can't set OptionUseInt64 and OptionUseNumber both!"

func ocUnmarshal(c uint64, kind string, doc []byte) (res string) {
	defer func() {
		if r := recover(); r != nil {
			if fmt.Sprint(r) == ocBothMsg {
				res = "P:both_number_modes"
				return
			}
			panic(r)
		}
	}()
	dest := ocNewDest(kind)
	err := ocConfig(c).Froze().UnmarshalFromString(string(doc), dest)
	return ocDumpOf(dest, err)
}

func ocStdUnmarshal(kind string, doc []byte, useNumber, disallow bool) string {
	dest := ocNewDest(kind)
	d := json.NewDecoder(bytes.NewReader(doc))
	if useNumber {
		d.UseNumber()
	}
	if disallow {
		d.DisallowUnknownFields()
	}
	err := d.Decode(dest)
	if err == nil {
		// json.Unmarshal rejects trailing data; a Decoder does not
		var extra interface{}
		if e2 := d.Decode(&extra); e2 != io.EOF {
			err = &json.SyntaxError{}
		}
	}
	return ocDumpOf(dest, err)
}

func ocPairUnmarshal(sw int, cfg uint64, kind string, docHex string) string {
	name := ocFieldNames[sw]
	c0 := cfg &^ (1 << uint(sw))
	c1 := c0 | 1<<uint(sw)
	doc := unhexArg(docHex)
	a := ocUnmarshal(c0, kind, doc)
	b := ocUnmarshal(c1, kind, doc)
	out := []string{"sonic=done", "sw=" + name, "on=" + ocNamesOn(c0), "a=" + a, "b=" + b}
	switch name {
	case "ValidateString":
		// third voice: the same call without the switch on the document whose ill-formed UTF-8 was
		// replaced by U+FFFD
		fixed := ocCorrect(doc, "\xef\xbf\xbd")
		out = append(out, "x="+ocUnmarshal(c0, kind, fixed), "xdoc="+hexArg(fixed))
	case "UseNumber":
		out = append(out, "ref0="+ocStdUnmarshal(kind, doc, false, false), "ref="+ocStdUnmarshal(kind, doc, true, false))
	case "DisallowUnknownFields":
		out = append(out, "ref0="+ocStdUnmarshal(kind, doc, false, false), "ref="+ocStdUnmarshal(kind, doc, false, true))
	}
	if kind == "flat" {
		out = append(out, "fields="+ocFlatFields)
	}
	return strings.Join(out, "\t")
}

// ---------------------------------------------------------------------------------- entry points

func ocEncOpts(cfg uint64) encoder.Options {
	var o encoder.Options
	for _, p := range []struct {
		n string
		o encoder.Options
	}{{"EscapeHTML", encoder.EscapeHTML}, {"SortMapKeys", encoder.SortMapKeys}, {"CompactMarshaler", encoder.CompactMarshaler},
		{"NoQuoteTextMarshaler", encoder.NoQuoteTextMarshaler}, {"NoNullSliceOrMap", encoder.NoNullSliceOrMap},
		{"ValidateString", encoder.ValidateString}, {"NoValidateJSONMarshaler", encoder.NoValidateJSONMarshaler},
		{"NoEncoderNewline", encoder.NoEncoderNewline}, {"EncodeNullForInfOrNan", encoder.EncodeNullForInfOrNan}} {
		if ocHas(cfg, p.n) {
			o |= p.o
		}
	}
	return o
}

func ocDecOpts(cfg uint64) decoder.Options {
	var o decoder.Options
	for _, p := range []struct {
		n string
		o decoder.Options
	}{{"UseInt64", decoder.OptionUseInt64}, {"UseNumber", decoder.OptionUseNumber}, {"UseUnicodeErrors", decoder.OptionUseUnicodeErrors},
		{"DisallowUnknownFields", decoder.OptionDisableUnknown}, {"CopyString", decoder.OptionCopyString},
		{"ValidateString", decoder.OptionValidateString}, {"NoValidateJSONSkip", decoder.OptionNoValidateJSON},
		{"CaseSensitive", decoder.OptionCaseSensitive}} {
		if ocHas(cfg, p.n) {
			o |= p.o
		}
	}
	return o
}

func ocSetEnc(e *encoder.Encoder, cfg uint64) {
	// every switch that has a setter goes through the setter; the two without one through Opts
	if ocHas(cfg, "SortMapKeys") {
		e.SortKeys()
	}
	e.SetEscapeHTML(ocHas(cfg, "EscapeHTML"))
	e.SetValidateString(ocHas(cfg, "ValidateString"))
	e.SetNoValidateJSONMarshaler(ocHas(cfg, "NoValidateJSONMarshaler"))
	e.SetNoEncoderNewline(ocHas(cfg, "NoEncoderNewline"))
	e.SetCompactMarshaler(ocHas(cfg, "CompactMarshaler"))
	e.SetNoQuoteTextMarshaler(ocHas(cfg, "NoQuoteTextMarshaler"))
	if ocHas(cfg, "NoNullSliceOrMap") {
		e.Opts |= encoder.NoNullSliceOrMap
	}
	if ocHas(cfg, "EncodeNullForInfOrNan") {
		e.Opts |= encoder.EncodeNullForInfOrNan
	}
}

func ocSetDec(d *decoder.Decoder, cfg uint64) {
	// the two switches without a setter can only be given through SetOptions (which overwrites all)
	d.SetOptions(ocDecOpts(cfg & (ocBit("NoValidateJSONSkip") | ocBit("CaseSensitive"))))
	if ocHas(cfg, "UseInt64") {
		d.UseInt64()
	}
	if ocHas(cfg, "UseNumber") {
		d.UseNumber()
	}
	if ocHas(cfg, "UseUnicodeErrors") {
		d.UseUnicodeErrors()
	}
	if ocHas(cfg, "DisallowUnknownFields") {
		d.DisallowUnknownFields()
	}
	if ocHas(cfg, "CopyString") {
		d.CopyString()
	}
	if ocHas(cfg, "ValidateString") {
		d.ValidateString()
	}
}

type ocAlt struct {
	name string
	res  string
}

func ocJoinAlts(base string, alts []ocAlt) string {
	var diff []string
	for _, a := range alts {
		if a.res != base {
			diff = append(diff, a.name+":"+a.res)
		}
	}
	names := make([]string, len(alts))
	for i, a := range alts {
		names[i] = a.name
	}
	d := "-"
	if len(diff) > 0 {
		d = strings.Join(diff, ";")
	}
	return "sonic=" + base + "\tn=" + itoa(len(alts)) + "\talts=" + strings.Join(names, ",") + "\tdiff=" + d
}

func ocIndentRef(res string, prefix, indent string) string {
	if !strings.HasPrefix(res, "O:") {
		return res
	}
	raw, _ := hex.DecodeString(res[2:])
	var w bytes.Buffer
	if err := json.Indent(&w, raw, prefix, indent); err != nil {
		return "E:" + ocErrKind(err)
	}
	return "O:" + hex.EncodeToString(w.Bytes())
}

func ocEntry(which string, cfg uint64, descHex, kind, docHex string) string {
	build := func() interface{} {
		mode := ocMode{}
		if !ocHas(cfg, "SortMapKeys") {
			mode.maxMap = 1
		}
		return ocBuild(ocParseDesc(descHex), mode, ocNewStats())
	}
	doc := unhexArg(docHex)
	if strings.HasPrefix(which, "top_") && which != "top_v" {
		cfg = 0 // the package-level functions are bound to the default configuration
	}
	api := ocConfig(cfg).Froze()
	switch which {
	case "top_m": // package-level Marshal family vs ConfigDefault vs a fresh Config{}.Froze()
		v := build()
		base := ocMarshal(sonic.Config{}.Froze(), v)
		var alts []ocAlt
		b, err := sonic.Marshal(v)
		alts = append(alts, ocAlt{"Marshal", ocRes(b, err)})
		s, err := sonic.MarshalString(v)
		alts = append(alts, ocAlt{"MarshalString", ocRes([]byte(s), err)})
		b, err = sonic.ConfigDefault.Marshal(v)
		alts = append(alts, ocAlt{"ConfigDefault.Marshal", ocRes(b, err)})
		s, err = sonic.ConfigDefault.MarshalToString(v)
		alts = append(alts, ocAlt{"ConfigDefault.MarshalToString", ocRes([]byte(s), err)})
		// MarshalIndent = json.Indent of Marshal
		want := ocIndentRef(base, ">", " \t")
		b, err = sonic.MarshalIndent(v, ">", " \t")
		got := ocRes(b, err)
		if got != want {
			got = "indent-differs:" + got
		} else {
			got = base
		}
		alts = append(alts, ocAlt{"MarshalIndent", got})
		return ocJoinAlts(base, alts)
	case "top_u":
		base := ocUnmarshal(0, kind, doc)
		var alts []ocAlt
		d := ocNewDest(kind)
		alts = append(alts, ocAlt{"Unmarshal", ocDumpOf(d, sonic.Unmarshal(append([]byte(nil), doc...), d))})
		d = ocNewDest(kind)
		alts = append(alts, ocAlt{"UnmarshalString", ocDumpOf(d, sonic.UnmarshalString(string(doc), d))})
		d = ocNewDest(kind)
		alts = append(alts, ocAlt{"ConfigDefault.Unmarshal", ocDumpOf(d, sonic.ConfigDefault.Unmarshal(append([]byte(nil), doc...), d))})
		d = ocNewDest(kind)
		alts = append(alts, ocAlt{"ConfigDefault.UnmarshalFromString", ocDumpOf(d, sonic.ConfigDefault.UnmarshalFromString(string(doc), d))})
		return ocJoinAlts(base, alts)
	case "top_v":
		base := b01(sonic.Config{}.Froze().Valid(doc))
		alts := []ocAlt{{"Valid", b01(sonic.Valid(doc))}, {"ValidString", b01(sonic.ValidString(string(doc)))},
			{"ConfigDefault.Valid", b01(sonic.ConfigDefault.Valid(doc))}, {"cfg.Valid", b01(api.Valid(doc))}}
		return ocJoinAlts(base, alts) + "\tref=" + b01(json.Valid(doc))
	case "enc": // encoder package entry points vs the frozen Config
		v := build()
		base := ocMarshal(api, v)
		var alts []ocAlt
		s, err := api.MarshalToString(v)
		alts = append(alts, ocAlt{"cfg.MarshalToString", ocRes([]byte(s), err)})
		b, err := encoder.Encode(v, ocEncOpts(cfg))
		alts = append(alts, ocAlt{"encoder.Encode", ocRes(b, err)})
		var buf []byte
		err = encoder.EncodeInto(&buf, v, ocEncOpts(cfg))
		alts = append(alts, ocAlt{"encoder.EncodeInto", ocRes(buf, err)})
		var e encoder.Encoder
		ocSetEnc(&e, cfg)
		b, err = e.Encode(v)
		alts = append(alts, ocAlt{"Encoder+setters", ocRes(b, err)})
		// indentation: json.Indent of the plain output
		want := ocIndentRef(base, "", "  ")
		b, err = api.MarshalIndent(v, "", "  ")
		got := ocRes(b, err)
		if got == want {
			got = base
		} else {
			got = "indent-differs:" + got
		}
		alts = append(alts, ocAlt{"cfg.MarshalIndent", got})
		b, err = encoder.EncodeIndented(v, "", "  ", ocEncOpts(cfg))
		got = ocRes(b, err)
		if got == want {
			got = base
		} else {
			got = "indent-differs:" + got
		}
		alts = append(alts, ocAlt{"encoder.EncodeIndented", got})
		// stream encoders: output followed by a newline unless NoEncoderNewline
		nl := func(res string) string {
			if !strings.HasPrefix(res, "O:") {
				return res
			}
			raw, _ := hex.DecodeString(res[2:])
			if ocHas(cfg, "NoEncoderNewline") {
				return res
			}
			if len(raw) > 0 && raw[len(raw)-1] == '\n' {
				return "O:" + hex.EncodeToString(raw[:len(raw)-1])
			}
			return "no-newline:" + res
		}
		alts = append(alts, ocAlt{"cfg.NewEncoder", nl(ocStream(api, v))})
		var w bytes.Buffer
		se := encoder.NewStreamEncoder(&w)
		ocSetEnc(&se.Encoder, cfg)
		err = se.Encode(v)
		alts = append(alts, ocAlt{"NewStreamEncoder+setters", nl(ocRes(w.Bytes(), err))})
		w.Reset()
		se = encoder.NewStreamEncoder(&w)
		se.Opts = ocEncOpts(cfg)
		err = se.Encode(v)
		alts = append(alts, ocAlt{"NewStreamEncoder+Opts", nl(ocRes(w.Bytes(), err))})
		// the sonic.Encoder interface: SetEscapeHTML on an encoder made by the Config without EscapeHTML
		w.Reset()
		ie := ocConfig(cfg &^ ocBit("EscapeHTML")).Froze().NewEncoder(&w)
		ie.SetEscapeHTML(ocHas(cfg, "EscapeHTML"))
		ie.SetIndent("", "")
		err = ie.Encode(v)
		alts = append(alts, ocAlt{"api.NewEncoder+SetEscapeHTML", nl(ocRes(w.Bytes(), err))})
		// SetIndent: json.Indent of the plain output, then the newline rule
		w.Reset()
		ie = api.NewEncoder(&w)
		ie.SetIndent("", "  ")
		err = ie.Encode(v)
		got = nl(ocRes(w.Bytes(), err))
		if got == want {
			got = base
		} else {
			got = "indent-differs:" + got
		}
		alts = append(alts, ocAlt{"api.NewEncoder+SetIndent", got})
		return ocJoinAlts(base, alts)
	case "dec": // decoder package entry points vs the frozen Config
		base := ocUnmarshal(cfg, kind, doc)
		var alts []ocAlt
		d := ocNewDest(kind)
		alts = append(alts, ocAlt{"cfg.Unmarshal", ocDumpOf(d, api.Unmarshal(append([]byte(nil), doc...), d))})
		run := func(dec *decoder.Decoder) string {
			d := ocNewDest(kind)
			err := dec.Decode(d)
			if err == nil {
				err = dec.CheckTrailings()
			}
			return ocDumpOf(d, err)
		}
		dec := decoder.NewDecoder(string(doc))
		dec.SetOptions(ocDecOpts(cfg))
		alts = append(alts, ocAlt{"NewDecoder+SetOptions", run(dec)})
		dec = decoder.NewDecoder(string(doc))
		ocSetDec(dec, cfg)
		alts = append(alts, ocAlt{"NewDecoder+setters", run(dec)})
		return ocJoinAlts(base, alts)
	case "sdec": // stream decoders on a single document
		base := ocUnmarshal(cfg, kind, doc)
		var alts []ocAlt
		d := ocNewDest(kind)
		alts = append(alts, ocAlt{"cfg.NewDecoder", ocDumpOf(d, api.NewDecoder(bytes.NewReader(doc)).Decode(d))})
		sd := decoder.NewStreamDecoder(bytes.NewReader(doc))
		ocSetDec(&sd.Decoder, cfg)
		d = ocNewDest(kind)
		alts = append(alts, ocAlt{"NewStreamDecoder+setters", ocDumpOf(d, sd.Decode(d))})
		sd = decoder.NewStreamDecoder(bytes.NewReader(doc))
		sd.SetOptions(ocDecOpts(cfg))
		d = ocNewDest(kind)
		alts = append(alts, ocAlt{"NewStreamDecoder+SetOptions", ocDumpOf(d, sd.Decode(d))})
		// the sonic.Decoder interface: UseNumber / DisallowUnknownFields on a decoder made by the Config without them
		c0 := cfg
		if ocHas(cfg, "UseNumber") {
			c0 &^= ocBit("UseNumber")
		}
		c0 &^= ocBit("DisallowUnknownFields")
		id := ocConfig(c0).Froze().NewDecoder(bytes.NewReader(doc))
		if ocHas(cfg, "UseNumber") {
			id.UseNumber()
		}
		if ocHas(cfg, "DisallowUnknownFields") {
			id.DisallowUnknownFields()
		}
		d = ocNewDest(kind)
		alts = append(alts, ocAlt{"api.NewDecoder+UseNumber/DisallowUnknownFields", ocDumpOf(d, id.Decode(d))})
		return ocJoinAlts(base, alts)
	}
	return "sonic=unsupported"
}

// ---------------------------------------------------------------------------------- option words

func ocFrozeWords(cfg uint64) (res string) {
	defer func() {
		if r := recover(); r != nil {
			if fmt.Sprint(r) == ocBothMsg {
				res = "sonic=P:both_number_modes"
				return
			}
			panic(r)
		}
	}()
	api := ocConfig(cfg).Froze()
	se, ok := api.NewEncoder(io.Discard).(*encoder.StreamEncoder)
	if !ok {
		return "sonic=unsupported"
	}
	sd, ok := api.NewDecoder(bytes.NewReader(nil)).(*decoder.StreamDecoder)
	if !ok {
		return "sonic=unsupported"
	}
	f := reflect.ValueOf(sd).Elem().FieldByName("Decoder").FieldByName("f")
	return fmt.Sprintf("sonic=%d:%d", uint64(se.Opts), f.Uint())
}

// setseq: calls = comma separated `Method` or `Method:0|1`
func ocSetSeq(recv string, calls string) string {
	var cs []string
	if calls != "-" {
		cs = strings.Split(calls, ",")
	}
	arg := func(c string) (string, bool) {
		i := strings.IndexByte(c, ':')
		if i < 0 {
			return c, true
		}
		return c[:i], c[i+1:] == "1"
	}
	switch recv {
	case "Encoder", "StreamEncoder":
		var e *encoder.Encoder
		if recv == "Encoder" {
			e = &encoder.Encoder{}
		} else {
			e = &encoder.NewStreamEncoder(io.Discard).Encoder
		}
		for _, c := range cs {
			m, on := arg(c)
			switch m {
			case "SortKeys":
				e.SortKeys()
			case "SetEscapeHTML":
				e.SetEscapeHTML(on)
			case "SetValidateString":
				e.SetValidateString(on)
			case "SetNoValidateJSONMarshaler":
				e.SetNoValidateJSONMarshaler(on)
			case "SetNoEncoderNewline":
				e.SetNoEncoderNewline(on)
			case "SetCompactMarshaler":
				e.SetCompactMarshaler(on)
			case "SetNoQuoteTextMarshaler":
				e.SetNoQuoteTextMarshaler(on)
			default:
				return "sonic=unsupported"
			}
		}
		return fmt.Sprintf("sonic=%d", uint64(e.Opts))
	case "Decoder", "StreamDecoder":
		var d *decoder.Decoder
		if recv == "Decoder" {
			d = decoder.NewDecoder("")
		} else {
			d = &decoder.NewStreamDecoder(bytes.NewReader(nil)).Decoder
		}
		for _, c := range cs {
			m, _ := arg(c)
			switch m {
			case "UseInt64":
				d.UseInt64()
			case "UseNumber":
				d.UseNumber()
			case "UseUnicodeErrors":
				d.UseUnicodeErrors()
			case "DisallowUnknownFields":
				d.DisallowUnknownFields()
			case "CopyString":
				d.CopyString()
			case "ValidateString":
				d.ValidateString()
			default:
				return "sonic=unsupported"
			}
		}
		return fmt.Sprintf("sonic=%d", reflect.ValueOf(d).Elem().FieldByName("f").Uint())
	}
	return "sonic=unsupported"
}

func init() {
	registerOp("optpair", func(a []string) string {
		sw, _ := strconv.Atoi(a[0])
		cfg, _ := strconv.ParseUint(a[1], 10, 64)
		if sw < 0 || sw >= len(ocFieldNames) {
			return "sonic=unsupported"
		}
		switch a[2] {
		case "m":
			return ocPairMarshal(sw, cfg, a[3])
		case "u":
			return ocPairUnmarshal(sw, cfg, a[3], a[4])
		}
		return "sonic=unsupported"
	})
	registerOp("entry", func(a []string) string {
		cfg, _ := strconv.ParseUint(a[1], 10, 64)
		return ocEntry(a[0], cfg, a[2], a[3], a[4])
	})
	registerOp("froze", func(a []string) string {
		cfg, _ := strconv.ParseUint(a[0], 10, 64)
		return ocFrozeWords(cfg) + "\tnfields=" + itoa(len(ocFieldNames))
	})
	registerOp("setseq", func(a []string) string { return ocSetSeq(a[0], a[1]) })
}
