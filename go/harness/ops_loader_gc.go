package main

// gcstress <kind> <seed> <size>  (property C10; EXPLORATION of what the model assumes, not proof)
//
// Runs a Marshal or Unmarshal workload whose user callbacks (json.Marshaler, json.Unmarshaler,
// encoding.TextMarshaler, encoding.TextUnmarshaler) are hostile to the runtime while sonic's
// generated frames are live underneath them: runtime.GC(), debug.Stack(), runtime.Callers +
// CallersFrames + FuncForPC/FileLine (the traceback must resolve through the generated frames),
// deep recursion (forces the stack, generated frames included, to be copied), garbage to make
// freed memory get reused.  Oracle: the same workload run quietly through the same sonic must
// give the same bytes / the same value; decoded values and retained aliases of the input are
// re-checked after further forced collections.  encoding/json's answer is reported in ref=.
//
// kinds: marshaler textmarshaler unmarshaler textunmarshaler mixedenc mixeddec iface bg

import (
	"bytes"
	"encoding/json"
	"fmt"
	"math/rand"
	"reflect"
	"runtime"
	"runtime/debug"
	"strconv"
	"strings"
	"sync"
	"sync/atomic"

	"github.com/bytedance/sonic"
)

type gcState struct {
	on        bool
	r         *rand.Rand
	calls     int
	jitFrames int
	gcs       int
	grown     int
	names     map[string]bool
	aliases   []gcAlias
	sink      [][]byte
}

type gcAlias struct {
	alias []byte
	copy  string
}

var gcst gcState

//go:noinline
func gcGrow(n int, acc *[256]byte) int {
	var pad [256]byte
	pad[n&255] = byte(n)
	if n == 0 {
		return int(pad[0]) + int(acc[1])
	}
	return gcGrow(n-1, &pad) + int(pad[(n+1)&255])
}

// hostile is what every callback does first.
func hostile() {
	s := &gcst
	s.calls++
	if !s.on {
		return
	}
	act := s.r.Intn(16)
	if act&1 != 0 || s.calls <= 2 {
		runtime.GC()
		s.gcs++
	}
	if act&2 != 0 || s.calls <= 2 {
		st := debug.Stack()
		if !bytes.Contains(st, []byte("hostile")) {
			panic("verif: debug.Stack() does not show the callback")
		}
	}
	if act&4 != 0 || s.calls <= 2 {
		pcs := make([]uintptr, 128)
		n := runtime.Callers(0, pcs)
		frames := runtime.CallersFrames(pcs[:n])
		sawTop := false
		for {
			fr, more := frames.Next()
			fn := fr.Function
			if strings.HasPrefix(fn, "decode_") || strings.HasPrefix(fn, "encode_") {
				s.jitFrames++
				s.names[fn] = true
				// the same lookup the profiler and panics do
				if f := runtime.FuncForPC(fr.PC); f == nil || f.Name() != fn {
					panic("verif: FuncForPC disagrees with CallersFrames inside generated code")
				} else {
					f.FileLine(fr.PC)
				}
			}
			if strings.HasSuffix(fn, "main.runOne") {
				sawTop = true
			}
			if !more {
				break
			}
		}
		if !sawTop && n < 128 {
			panic("verif: traceback through generated frames did not reach the caller")
		}
	}
	if act&8 != 0 || s.calls == 2 {
		var z [256]byte
		depth := 64 << uint(s.r.Intn(5)) // 64 .. 1024 frames of ~300 bytes
		gcGrow(depth, &z)
		s.grown++
	}
	// garbage of the sizes the workload itself allocates
	for i := 0; i < 8; i++ {
		b := make([]byte, 16<<uint(s.r.Intn(6)))
		for k := range b {
			b[k] = 0xA5
		}
		if len(s.sink) < 64 {
			s.sink = append(s.sink, b)
		} else {
			s.sink[s.r.Intn(64)] = b
		}
	}
}

// ---- callback types ------------------------------------------------------------------------

type gcLeaf struct {
	X int
	Y string
}

// json.Marshaler, value receiver
type gcMV struct {
	ID int
	S  string
	P  *gcLeaf
}

func (m gcMV) MarshalJSON() ([]byte, error) {
	hostile()
	y := "nil"
	if m.P != nil {
		y = m.P.Y
	}
	return []byte(`{"id":` + strconv.Itoa(m.ID) + `,"s":` + strconv.Quote(m.S) + `,"y":` + strconv.Quote(y) + `}`), nil
}

// json.Marshaler, pointer receiver
type gcMP struct {
	ID int
	L  []string
}

func (m *gcMP) MarshalJSON() ([]byte, error) {
	hostile()
	if m == nil {
		return []byte("null"), nil
	}
	return []byte(`[` + strconv.Itoa(m.ID) + `,` + strconv.Itoa(len(m.L)) + `,` + strconv.Quote(strings.Join(m.L, "|")) + `]`), nil
}

// encoding.TextMarshaler / TextUnmarshaler (also as map key)
type gcT struct {
	K string
}

func (t gcT) MarshalText() ([]byte, error) {
	hostile()
	return []byte("t:" + t.K), nil
}

func (t *gcT) UnmarshalText(b []byte) error {
	hostile()
	gcRetain(b)
	t.K = string(b)
	return nil
}

// json.Unmarshaler
type gcU struct {
	Raw string
	N   int
}

func (u *gcU) UnmarshalJSON(b []byte) error {
	hostile()
	gcRetain(b)
	u.Raw = string(b)
	u.N = len(b)
	return nil
}

func (u gcU) MarshalJSON() ([]byte, error) {
	hostile()
	if u.Raw == "" {
		return []byte("null"), nil
	}
	return []byte(u.Raw), nil
}

// gcRetain keeps the slice the decoder handed to the callback (which may alias the input) and a
// private copy, to check later that the aliased memory is still what it was.
func gcRetain(b []byte) {
	if gcst.on && len(gcst.aliases) < 256 {
		gcst.aliases = append(gcst.aliases, gcAlias{alias: b, copy: string(b)})
	}
}

type gcEnc struct {
	A  string
	V  gcMV
	VP *gcMV
	PP *gcMP
	LV []gcMV
	LP []*gcMP
	T  gcT
	TP *gcT
	LT []gcT
	MT map[gcT]int
	MS map[string]gcMV
	I  interface{}
	N  []int
	F  float64
	Z  *gcEnc
}

type gcDec struct {
	A  string
	U  gcU
	UP *gcU
	LU []gcU
	MU map[string]*gcU
	T  gcT
	TP *gcT
	LT []gcT
	MT map[gcT]int
	I  interface{}
	PS *string
	N  []int
	B  []byte
	F  float64
	Z  *gcDec
}

// ---- workload construction -------------------------------------------------------------------

func gcStr(r *rand.Rand) string {
	n := r.Intn(40)
	b := make([]byte, n)
	for i := range b {
		switch r.Intn(12) {
		case 0:
			b[i] = '"'
		case 1:
			b[i] = '\\'
		case 2:
			b[i] = '\n'
		default:
			b[i] = byte('a' + r.Intn(26))
		}
	}
	return string(b)
}

func gcMVv(r *rand.Rand) gcMV {
	m := gcMV{ID: r.Intn(1000), S: gcStr(r)}
	if r.Intn(2) == 0 {
		m.P = &gcLeaf{X: r.Intn(9), Y: gcStr(r)}
	}
	return m
}

func gcMPv(r *rand.Rand) *gcMP {
	if r.Intn(6) == 0 {
		return nil
	}
	m := &gcMP{ID: r.Intn(1000)}
	for i := r.Intn(4); i > 0; i-- {
		m.L = append(m.L, gcStr(r))
	}
	return m
}

func gcAny(r *rand.Rand, depth int) interface{} {
	switch k := r.Intn(7); {
	case k == 0:
		return gcStr(r)
	case k == 1:
		return float64(r.Intn(100000))
	case k == 2:
		return r.Intn(2) == 0
	case k == 3:
		return nil
	case k == 4 && depth > 0:
		n := r.Intn(5)
		l := make([]interface{}, n)
		for i := range l {
			l[i] = gcAny(r, depth-1)
		}
		return l
	case k == 5 && depth > 0:
		m := map[string]interface{}{}
		for i := r.Intn(5); i > 0; i-- {
			m[gcStr(r)] = gcAny(r, depth-1)
		}
		return m
	}
	return gcStr(r)
}

func gcEncValue(r *rand.Rand, size, depth int, kind string) *gcEnc {
	useM := kind != "textmarshaler"
	useT := kind != "marshaler"
	e := &gcEnc{A: gcStr(r), F: float64(r.Intn(1000)) / 8, MT: map[gcT]int{}, MS: map[string]gcMV{}}
	for i := r.Intn(6); i > 0; i-- {
		e.N = append(e.N, r.Intn(1<<30))
	}
	if useM {
		e.V = gcMVv(r)
		v := gcMVv(r)
		e.VP = &v
		e.PP = gcMPv(r)
		for i := r.Intn(size + 1); i > 0; i-- {
			e.LV = append(e.LV, gcMVv(r))
			e.LP = append(e.LP, gcMPv(r))
		}
		for i := r.Intn(size + 1); i > 0; i-- {
			e.MS[gcStr(r)] = gcMVv(r)
		}
		if r.Intn(2) == 0 {
			e.I = gcMVv(r)
		} else {
			e.I = gcMPv(r)
		}
	} else {
		e.I = gcAny(r, 2)
	}
	if useT {
		e.T = gcT{K: gcStr(r)}
		e.TP = &gcT{K: gcStr(r)}
		for i := r.Intn(size + 1); i > 0; i-- {
			e.LT = append(e.LT, gcT{K: gcStr(r)})
			e.MT[gcT{K: gcStr(r)}] = r.Intn(100)
		}
	}
	if depth > 0 && r.Intn(2) == 0 {
		e.Z = gcEncValue(r, size/2, depth-1, kind)
	}
	return e
}

func gcQ(s string) string { b, _ := json.Marshal(s); return string(b) }

func gcRawValue(r *rand.Rand, depth int) string {
	b, _ := json.Marshal(gcAny(r, depth))
	return string(b)
}

// gcDecDoc writes a JSON document for gcDec.
func gcDecDoc(r *rand.Rand, size, depth int, kind string) string {
	useU := kind != "textunmarshaler"
	useT := kind != "unmarshaler"
	var sb strings.Builder
	sb.WriteString(`{"A":` + gcQ(gcStr(r)))
	if useU {
		sb.WriteString(`,"U":` + gcRawValue(r, 2))
		sb.WriteString(`,"UP":` + gcRawValue(r, 1))
		sb.WriteString(`,"LU":[`)
		for i, n := 0, r.Intn(size+1); i < n; i++ {
			if i > 0 {
				sb.WriteByte(',')
			}
			sb.WriteString(gcRawValue(r, 2))
		}
		sb.WriteString(`],"MU":{`)
		for i, n := 0, r.Intn(size+1); i < n; i++ {
			if i > 0 {
				sb.WriteByte(',')
			}
			sb.WriteString(gcQ("k"+strconv.Itoa(i)+gcStr(r)) + ":" + gcRawValue(r, 1))
		}
		sb.WriteString(`}`)
	}
	if useT {
		sb.WriteString(`,"T":` + gcQ(gcStr(r)))
		sb.WriteString(`,"TP":` + gcQ(gcStr(r)))
		sb.WriteString(`,"LT":[`)
		for i, n := 0, r.Intn(size+1); i < n; i++ {
			if i > 0 {
				sb.WriteByte(',')
			}
			sb.WriteString(gcQ(gcStr(r)))
		}
		sb.WriteString(`],"MT":{`)
		for i, n := 0, r.Intn(size+1); i < n; i++ {
			if i > 0 {
				sb.WriteByte(',')
			}
			sb.WriteString(gcQ("m"+strconv.Itoa(i)+gcStr(r)) + ":" + strconv.Itoa(r.Intn(100)))
		}
		sb.WriteString(`}`)
	}
	sb.WriteString(`,"I":` + gcRawValue(r, 3))
	sb.WriteString(`,"PS":` + gcQ(gcStr(r)))
	sb.WriteString(`,"N":[`)
	for i, n := 0, r.Intn(8); i < n; i++ {
		if i > 0 {
			sb.WriteByte(',')
		}
		sb.WriteString(strconv.Itoa(r.Intn(1 << 30)))
	}
	sb.WriteString(`],"B":` + gcQ("aGVsbG8gd29ybGQ="))
	sb.WriteString(`,"F":` + strconv.Itoa(r.Intn(1000)) + `.5`)
	if depth > 0 && r.Intn(2) == 0 {
		sb.WriteString(`,"Z":` + gcDecDoc(r, size/2, depth-1, kind))
	}
	sb.WriteString(`}`)
	return sb.String()
}

// ---- the runs ----------------------------------------------------------------------------------

func gcReset(on bool, seed int64) {
	gcst = gcState{on: on, r: rand.New(rand.NewSource(seed)), names: map[string]bool{}}
}

func gcChurn(rounds int) {
	var keep [][]byte
	for i := 0; i < rounds; i++ {
		for k := 0; k < 64; k++ {
			b := make([]byte, 16<<uint(k%7))
			for j := range b {
				b[j] = 0x5A
			}
			keep = append(keep, b)
		}
		keep = keep[:0]
		runtime.GC()
	}
}

func gcCheckAliases() string {
	for i, a := range gcst.aliases {
		if string(a.alias) != a.copy {
			return "alias" + strconv.Itoa(i)
		}
	}
	return ""
}

//go:noinline
func gcDecodeOnce(doc string, hostileOn bool, seed int64, api sonic.API) (*gcDec, error, gcState) {
	// a private copy of the input: after this function returns, the only references to it are
	// the ones the decoder left in the value (and in the retained aliases)
	in := string(append([]byte(nil), doc...))
	gcReset(hostileOn, seed)
	var d gcDec
	err := api.UnmarshalFromString(in, &d)
	st := gcst
	gcst.on = false
	return &d, err, st
}

func gcStats(st gcState) string {
	return fmt.Sprintf("calls=%d\tjitframes=%d\tgcs=%d\tgrown=%d", st.calls, st.jitFrames, st.gcs, st.grown)
}

func gcRunDecode(kind string, seed int64, size int, api sonic.API, target string) string {
	r := rand.New(rand.NewSource(seed))
	var doc string
	if target == "iface" {
		doc = gcRawValue(r, 5+size/4)
		var q, h interface{}
		in1 := string(append([]byte(nil), doc...))
		gcReset(false, seed)
		if err := api.UnmarshalFromString(in1, &q); err != nil {
			return "sonic=ok\tnote=quiet-error\tcalls=0\tjitframes=0"
		}
		stop := gcBackground()
		in2 := string(append([]byte(nil), doc...))
		err := api.UnmarshalFromString(in2, &h)
		stop()
		if err != nil {
			return "sonic=corrupt:error-only-under-gc"
		}
		gcChurn(3)
		if !reflect.DeepEqual(q, h) {
			return "sonic=corrupt:value-differs-under-gc"
		}
		var ref interface{}
		rs := "same"
		if json.Unmarshal([]byte(doc), &ref) != nil || !reflect.DeepEqual(ref, h) {
			rs = "differs"
		}
		return "sonic=ok\tref=" + rs + "\tcalls=0\tjitframes=0\tbytes=" + strconv.Itoa(len(doc))
	}
	doc = gcDecDoc(r, size, 2, kind)
	quiet, qerr, _ := gcDecodeOnce(doc, false, seed, api)
	host, herr, st := gcDecodeOnce(doc, true, seed, api)
	if (qerr == nil) != (herr == nil) {
		return "sonic=corrupt:error-only-under-gc\t" + gcStats(st)
	}
	// more collections with the freed memory being reused, then look again
	gcChurn(3)
	if !reflect.DeepEqual(quiet, host) {
		return "sonic=corrupt:value-differs-under-gc\t" + gcStats(st)
	}
	gcst.aliases = st.aliases
	if w := gcCheckAliases(); w != "" {
		return "sonic=corrupt:retained-input-changed:" + w + "\t" + gcStats(st)
	}
	gcst.aliases = nil
	var ref gcDec
	rs := "same"
	gcReset(false, seed)
	if rerr := json.Unmarshal([]byte(doc), &ref); (rerr == nil) != (herr == nil) || (rerr == nil && !reflect.DeepEqual(&ref, host)) {
		rs = "differs"
	}
	return "sonic=ok\tref=" + rs + "\t" + gcStats(st) + "\tbytes=" + strconv.Itoa(len(doc))
}

func gcRunEncode(kind string, seed int64, size int, api sonic.API) string {
	r := rand.New(rand.NewSource(seed))
	v := gcEncValue(r, size, 2, kind)
	gcReset(false, seed)
	quiet, qerr := api.Marshal(v)
	quiet = append([]byte(nil), quiet...)
	gcReset(true, seed)
	host, herr := api.Marshal(v)
	st := gcst
	gcst.on = false
	if (qerr == nil) != (herr == nil) {
		return "sonic=corrupt:error-only-under-gc\t" + gcStats(st)
	}
	hostCopy := string(host)
	gcChurn(3)
	if string(host) != hostCopy {
		return "sonic=corrupt:output-changed-after-gc\t" + gcStats(st)
	}
	if !bytes.Equal(quiet, host) {
		return "sonic=corrupt:output-differs-under-gc\t" + gcStats(st)
	}
	rs := "same"
	gcReset(false, seed)
	if rb, rerr := json.Marshal(v); (rerr == nil) != (herr == nil) {
		rs = "differs"
	} else if rerr == nil {
		var a, b interface{}
		if json.Unmarshal(rb, &a) != nil || json.Unmarshal(host, &b) != nil || !reflect.DeepEqual(a, b) {
			rs = "differs"
		}
	}
	return "sonic=ok\tref=" + rs + "\t" + gcStats(st) + "\tbytes=" + strconv.Itoa(len(host))
}

// gcBackground: another goroutine collecting and allocating while this one is in generated code
func gcBackground() (stop func()) {
	var quit int32
	var wg sync.WaitGroup
	wg.Add(1)
	go func() {
		defer wg.Done()
		var keep [][]byte
		for atomic.LoadInt32(&quit) == 0 {
			runtime.GC()
			for k := 0; k < 32; k++ {
				keep = append(keep, make([]byte, 64<<uint(k%6)))
			}
			keep = keep[:0]
			runtime.Gosched()
		}
	}()
	return func() { atomic.StoreInt32(&quit, 1); wg.Wait() }
}

var gcSorted = sonic.Config{SortMapKeys: true}.Froze()

func init() {
	registerOp("gcstress", func(a []string) string {
		kind := a[0]
		seed, _ := strconv.ParseInt(a[1], 10, 64)
		size, _ := strconv.Atoi(a[2])
		// map keys sorted in both configurations, so that two runs of one workload are comparable
		api := gcSorted
		if seed%3 == 1 {
			api = sonic.ConfigStd
		}
		defer func() { gcst = gcState{} }()
		switch kind {
		case "marshaler", "textmarshaler", "mixedenc":
			return gcRunEncode(kind, seed, size, api)
		case "unmarshaler", "textunmarshaler", "mixeddec":
			return gcRunDecode(kind, seed, size, api, "struct")
		case "iface":
			return gcRunDecode(kind, seed, size, api, "iface")
		case "bg":
			stop := gcBackground()
			defer stop()
			if seed%2 == 0 {
				return gcRunEncode("mixedenc", seed, size, api)
			}
			return gcRunDecode("mixeddec", seed, size, api, "struct")
		}
		return "sonic=unsupported"
	})
}
