package main

// generators for C06 (ops_own.go): histories around the pool limit, EncodeInto buffer geometries,
// HTMLEscape destinations, decoder inputs.

import (
	"encoding/hex"
	"strconv"
	"strings"
)

// patterns whose quoted image restarts the native loop in different ways (quoted length per repeat)
var ownPatterns = []struct {
	raw string
	q   int
}{
	{"a", 1}, {"ab", 2}, {"\"", 2}, {"\\", 2}, {"\x01", 6}, {"\n", 2}, {"a\"", 3}, {"\x1f\x00", 12},
	{"<", 1}, {"a<b>&", 5}, {"\xe2\x80\xa8", 3}, {"é", 2}, {"中\"\x02", 11}, {"x\xe2\x80\xa9y", 5},
	{"0123456789abcdef", 16}, {"\"\"\"\"\"\"\"\"", 16}, {"\x03\x03\x03\x03", 24}, {"\xff\xfe", 2},
}

func ownHexOr(b string) string {
	if b == "" {
		return ""
	}
	return hex.EncodeToString([]byte(b))
}

// a string token whose quoted text is about `target` bytes long
func ownStrTok(g *Gen, target int) string {
	if target < 0 {
		target = 0
	}
	if target <= 24 && g.R.Intn(3) == 0 {
		b := randBytes(g, target)
		return "s" + ownHexOr(string(b)) + ";"
	}
	p := ownPatterns[g.R.Intn(len(ownPatterns))]
	n := target / p.q
	if g.R.Intn(4) == 0 {
		n += g.R.Intn(3)
	}
	return "x" + strconv.Itoa(n) + "," + ownHexOr(p.raw) + ";"
}

// a value whose compact text is about `target` bytes long
func ownValTok(g *Gen, target int, depth int, allowBad bool) string {
	k := g.R.Intn(100)
	switch {
	case allowBad && k < 2:
		return "b"
	case k < 45 || depth <= 0:
		return ownStrTok(g, target-2)
	case k < 65:
		n := 1 + g.R.Intn(4)
		var sb strings.Builder
		sb.WriteByte('[')
		for i := 0; i < n; i++ {
			sb.WriteString(ownValTok(g, target/n-1, depth-1, allowBad))
		}
		sb.WriteByte(']')
		return sb.String()
	case k < 70:
		return "[]"
	case k < 82:
		n := g.R.Intn(4)
		var sb strings.Builder
		sb.WriteByte('r')
		sb.WriteString(ownStrTok(g, target/3))
		sb.WriteByte('[')
		for i := 0; i < n; i++ {
			sb.WriteString(ownStrTok(g, target/(2*n+1)))
		}
		sb.WriteString("]i" + strconv.Itoa(g.R.Intn(2000)-1000) + ";")
		return sb.String()
	case k < 90:
		return "m" + ownHexOr(string(randBytes(g, 6))) + ";" + ownValTok(g, target-8, depth-1, allowBad)
	case k < 95:
		return "i" + strconv.FormatInt(g.R.Int63n(2000000)-1000000, 10) + ";"
	case k < 97:
		return "n"
	case k < 99:
		return "t"
	}
	return "f"
}

func ownPick(g *Gen, xs []int) int { return xs[g.R.Intn(len(xs))] }

// output sizes that straddle the limits
func ownSize(g *Gen, limit, encDef int) int {
	switch g.R.Intn(9) {
	case 0:
		return g.R.Intn(9)
	case 1, 2:
		return limit - 4 + g.R.Intn(9)
	case 3:
		return encDef - 4 + g.R.Intn(9)
	case 4:
		return 2*limit - 3 + g.R.Intn(7)
	case 5:
		return limit/2 + g.R.Intn(limit/2+2)
	case 6:
		return limit + g.R.Intn(3*limit+2)
	case 7:
		return encDef/2 + g.R.Intn(encDef+2)
	}
	return g.R.Intn(2*limit + 2)
}

func ownCap(g *Gen, around int) int {
	switch g.R.Intn(5) {
	case 0:
		return g.R.Intn(9)
	case 1:
		return around - 3 + g.R.Intn(7)
	case 2:
		p := 1 << uint(g.R.Intn(13))
		return p - 1 + g.R.Intn(3)
	case 3:
		return g.R.Intn(257)
	}
	return around + g.R.Intn(around+2)
}

// bit 0 EscapeHTML, bit 1 ValidateString (the correction pass runs when the value has ill-formed UTF-8)
func ownOpts(g *Gen) string {
	switch g.R.Intn(14) {
	case 0, 1:
		return "1"
	case 2, 3:
		return "2"
	case 4:
		return "3"
	}
	return "0"
}

func ownDirtyPrior(g *Gen, max int) []byte {
	b := randBytes(g, max)
	if len(b) > 0 && g.R.Intn(3) == 0 {
		ins := []string{"<", ">", "&", "\xe2\x80\xa8", "\xe2\x80\xa9", "\xff", "\xe2\x80", "\"", "\\"}[g.R.Intn(9)]
		at := g.R.Intn(len(b))
		b = append(b[:at:at], append([]byte(ins), b[at:]...)...)
	}
	return b
}

func init() {
	registerGen("c06.hist", func(g *Gen) {
		defs := []int{16, 32, 64, 128, 512, 1024, 4096}
		for i := 0; i < g.N; i++ {
			encDef := ownPick(g, defs)
			astDef := ownPick(g, defs)
			limit := ownPick(g, []int{encDef / 2, encDef - 1, encDef, encDef + 1, 2 * encDef, 4 * encDef, 8 * encDef, astDef, astDef + 1})
			if limit > 4096 {
				limit = 4096
			}
			n := 5 + g.R.Intn(36)
			fields := []string{"hist", strconv.Itoa(limit), strconv.Itoa(encDef), strconv.Itoa(astDef)}
			var appendable []int
			errs := g.R.Intn(4) == 0
			for c := 0; c < n; c++ {
				sz := ownSize(g, limit, encDef)
				v := ownValTok(g, sz, 2, errs)
				bad := ownHasBadTok(v)
				k := g.R.Intn(100)
				call := ""
				// two live encoder buffers in one goroutine, the stream encoder, and verbatim repeats of earlier calls
				switch x := g.R.Intn(100); {
				case x < 7:
					call = "J|" + strconv.Itoa(g.R.Intn(4)) + "|" + []string{"0", "0", "0", "1", "2"}[g.R.Intn(5)] + "|" + v
				case x < 10:
					call = "K|" + strconv.Itoa(g.R.Intn(3)) + "|0|" + v
				case x < 13:
					call = "D|" + ownOpts(g) + "|" + v
				case x < 16:
					call = "Z|" + []string{"0", "0", "1", "2", "3"}[g.R.Intn(5)] + "|" + v
				case x < 20 && len(fields) > 5:
					call = fields[4+g.R.Intn(len(fields)-4)]
					if strings.HasPrefix(call, "E|") || strings.HasPrefix(call, "X|") {
						call = ""
					}
				case x < 24:
					// an output with ill-formed UTF-8 under ValidateString: the correction pass swaps two pooled buffers
					call = "M|" + []string{"2", "3"}[g.R.Intn(2)] + "|x" + strconv.Itoa(1+g.R.Intn(sz/2+2)) + ",fffe61;"
				}
				if call != "" {
					fields = append(fields, call)
					continue
				}
				switch {
				case k < 24:
					call = "M|" + ownOpts(g) + "|" + v
					if !bad {
						appendable = append(appendable, c)
					}
				case k < 34:
					call = "S|" + ownOpts(g) + "|" + v
				case k < 44:
					pre := []string{"-", "-", "20", "3e3e"}[g.R.Intn(4)]
					ind := []string{"-", "20", "2020", "09"}[g.R.Intn(4)]
					call = "I|" + ownOpts(g) + "|" + pre + "|" + ind + "|" + v
					if !bad {
						appendable = append(appendable, c)
					}
				case k < 64:
					tgt := ""
					if len(appendable) > 0 && g.R.Intn(3) == 0 {
						// a slice is passed on at most once (afterwards the longer result takes its place)
						at := g.R.Intn(len(appendable))
						tgt = "a" + strconv.Itoa(appendable[at])
						appendable = append(appendable[:at], appendable[at+1:]...)
					} else {
						prior := ownDirtyPrior(g, 12)
						tgt = "f" + strconv.Itoa(ownCap(g, sz+len(prior))) + "," + ownHexOr(string(prior))
					}
					call = "E|" + ownOpts(g) + "|" + tgt + "|" + v
					if !bad {
						appendable = append(appendable, c)
					}
				case k < 72:
					call = "N|" + v
					if !bad {
						appendable = append(appendable, c)
					}
				case k < 76:
					call = "R|" + v
				case k < 79:
					call = "P|" + v
				case k < 82:
					call = "Q|" + v
				case k < 87:
					call = "G|" + v
				case k < 94:
					call = "U|" + v
				case k < 98:
					call = "X|" + strconv.Itoa(2+g.R.Intn(7))
				default:
					call = "C"
				}
				fields = append(fields, call)
			}
			g.Emit(fields...)
		}
	})

	registerGen("c06.encinto", func(g *Gen) {
		emitted := 0
		for emitted < g.N {
			prior := ownDirtyPrior(g, 40)
			if g.R.Intn(3) == 0 {
				prior = nil
			}
			sz := []int{0, 1, 2, 5, 6, 7, 8, 15, 16, 17, 31, 32, 33, 63, 64, 65, 100, 255, 256, 257, 1000, 4096, 5000}[g.R.Intn(23)]
			v := ownValTok(g, sz, 2, g.R.Intn(12) == 0)
			opts := []string{"0", "0", "0", "0", "0", "0", "0", "0", "0", "0", "0", "0", "0", "0", "0", "0", "1", "1", "2", "3", "4", "8"}[g.R.Intn(22)]
			caps := map[int]bool{}
			base := len(prior)
			sweep := 12
			if g.Tier == "thorough" {
				sweep = 40
			}
			start := g.R.Intn(3) * g.R.Intn(20)
			for c := 0; c < sweep; c++ {
				caps[base+start+c] = true
			}
			for _, p := range []int{base + sz - 2, base + sz, base + sz + 1, base + sz + 2, base + sz + 3, base + 2*sz + 2, base + 6*sz + 2} {
				if p >= base {
					caps[p] = true
				}
			}
			for k := 0; k < 3; k++ {
				p := 1 << uint(g.R.Intn(13))
				for _, q := range []int{p - 1, p, p + 1} {
					if q >= base {
						caps[q] = true
					}
				}
			}
			if g.R.Intn(2) == 0 {
				caps[base] = true
				caps[g.R.Intn(257)+base] = true
			}
			for _, c := range sortedKeys(caps) {
				g.Emit("encinto", strconv.Itoa(c), hexArg(prior), opts, v)
				emitted++
			}
		}
	})

	registerGen("c06.htmlesc", func(g *Gen) {
		for i := 0; i < g.N; i++ {
			n := g.R.Intn(80)
			if g.R.Intn(6) == 0 {
				n = g.R.Intn(600)
			}
			src := make([]byte, 0, n+4)
			for len(src) < n {
				switch g.R.Intn(8) {
				case 0:
					src = append(src, "<>&"[g.R.Intn(3)])
				case 1:
					src = append(src, []string{"\xe2\x80\xa8", "\xe2\x80\xa9", "\xe2\x80", "\xe2", "\xe2\x80\xaa"}[g.R.Intn(5)]...)
				case 2:
					src = append(src, byte(g.R.Intn(256)))
				default:
					src = append(src, byte(0x20+g.R.Intn(0x5f)))
				}
			}
			var prior []byte
			switch g.R.Intn(5) {
			case 0:
			case 1:
				// a long destination with little room: len > len(src)*3/2+64, spare < len(src)+64
				prior = []byte(strings.Repeat("p", len(src)*3/2+65+g.R.Intn(40)))
			default:
				prior = ownDirtyPrior(g, 60)
			}
			c := len(prior) + []int{0, 1, g.R.Intn(70), len(src) + 63, len(src) + 64, len(src) + 65, 2*len(src) + 64, g.R.Intn(800)}[g.R.Intn(8)]
			g.Emit("htmlesc", strconv.Itoa(c), hexArg(prior), hexArg(src))
		}
	})

	registerGen("c06.alias", func(g *Gen) {
		entries := []string{"unmarshal", "unmarshal", "unmarshal", "unmarshalstring", "decoder"}
		cfgs := []string{"def", "std", "cs", "csnum", "num"}
		dests := []string{"iface", "mapiface", "sliface", "typed", "nodes", "wrap"}
		gets := []string{"get", "get", "getcopy", "getref", "getfromstring"}
		q := func(n int) string { return string(ownQuote(nil, string(ownPlain(g, n)))) }
		num := func() string {
			return []string{strconv.Itoa(g.R.Intn(1000000)), "-" + strconv.Itoa(1000+g.R.Intn(100000)), "12345.6789", "1e21", "0"}[g.R.Intn(5)]
		}
		// a generic value with plain strings, numbers, nested containers and keys
		var gen func(d int) string
		gen = func(d int) string {
			switch k := g.R.Intn(10); {
			case k < 3 || d <= 0:
				return q(20)
			case k < 5:
				return num()
			case k < 7:
				n := 1 + g.R.Intn(3)
				xs := make([]string, n)
				for i := range xs {
					xs[i] = gen(d - 1)
				}
				return "[" + strings.Join(xs, ",") + "]"
			case k < 9:
				n := 1 + g.R.Intn(3)
				xs := make([]string, n)
				for i := range xs {
					xs[i] = `"k` + strconv.Itoa(i) + string(ownPlain(g, 4)) + `":` + gen(d-1)
				}
				return "{" + strings.Join(xs, ",") + "}"
			}
			return []string{"null", "true", "false", string(ownQuote(nil, "esc\"\n"+string(ownPlain(g, 5))))}[g.R.Intn(4)]
		}
		for i := 0; i < g.N; i++ {
			api, doc := "", ""
			if g.R.Intn(5) == 0 {
				api = gets[g.R.Intn(len(gets))] + ".def.node"
				doc = gen(3)
			} else {
				dest := dests[g.R.Intn(len(dests))]
				api = entries[g.R.Intn(len(entries))] + "." + cfgs[g.R.Intn(len(cfgs))] + "." + dest
				switch dest {
				case "iface":
					doc = gen(3)
				case "mapiface":
					doc = `{"n":` + num() + `,"s":` + q(12) + `,"v":` + gen(2) + `}`
				case "sliface":
					doc = `[` + num() + `,` + q(12) + `,` + gen(2) + `]`
				case "typed":
					var sb strings.Builder
					sb.WriteString(`{"a":` + q(20) + `,"b":[`)
					for k, n := 0, g.R.Intn(4); k < n; k++ {
						if k > 0 {
							sb.WriteByte(',')
						}
						sb.WriteString(q(12))
					}
					sb.WriteString(`],"m":{`)
					for k, n := 0, g.R.Intn(3); k < n; k++ {
						if k > 0 {
							sb.WriteByte(',')
						}
						sb.WriteString(`"k` + strconv.Itoa(k) + string(ownPlain(g, 3)) + `":` + q(10))
					}
					sb.WriteString(`},"r":` + gen(2))
					if g.R.Intn(3) == 0 {
						sb.WriteString(`,"n":` + num())
					}
					sb.WriteString(`,"y":"aGVsbG8gd29ybGQ=","s2":` + q(8) + `}`)
					doc = sb.String()
				case "nodes":
					doc = `{"nd":` + gen(2) + `,"pn":` + gen(2) + `}`
				case "wrap":
					doc = `{"i":` + gen(2) + `,"mi":{"n":` + num() + `,"s":` + q(9) + `},"si":[` + num() + `,` + gen(1) + `]}`
				}
			}
			b := []byte(doc)
			if g.R.Intn(25) == 0 && len(b) > 1 {
				b = b[:g.R.Intn(len(b))] // malformed: truncated
			}
			g.Emit("alias", api, hexArg(b))
		}
	})

	// every capacity 0..80 for values that sit at the extreme digit counts of every integer width
	registerGen("c06.encgrid", func(g *Gen) {
		vals := []string{
			"ja-128;", "ja-100;", "ja-99;", "ja127;", "ja-1;", "jb-32768;", "jb32767;", "jc-2147483648;", "jc2147483647;",
			"jd-9223372036854775808;", "jd9223372036854775807;", "je255;", "jf65535;", "jg4294967295;", "jh18446744073709551615;",
			"t", "f", "n", "qa-128,-128,-100,127;", "qb-32768,-32768;", "qc-2147483648;", "qd-9223372036854775808,1;",
			"qe255,255,0;", "qh18446744073709551615;", "qa;",
			"k-128;-32768;-2147483648;-9223372036854775808;255;65535;4294967295;18446744073709551615;t",
			"k-100;-1;0;1;9;99;999;9999;f",
			"[ja-128;tjb-32768;]", "[[ja-128;][f[jc-2147483648;]]]", "m6b;ja-128;", "m6b6b;[jd-9223372036854775808;t]",
			"[s61;ja-128;s;ja-100;]", "F3ff8000000000000;", "Fffefffffffffffff;", "F0000000000000001;", "F4415af1d78b58c40;",
			"G7f7fffff;", "G00000001;", "[F3ff8000000000000;ja-128;Gc2c80000;]", "[tfn]",
		}
		caps := 81
		if g.Tier == "quick" {
			// the whole grid for the integer extremes, every other capacity parity for the rest
			caps = 81
		}
		for vi, v := range vals {
			for c := 0; c < caps; c++ {
				if g.Tier == "quick" && vi >= 26 && (c+vi)%2 == 1 {
					continue
				}
				g.Emit("encinto", strconv.Itoa(c), "-", "0", v)
			}
			// a few dirty prefixes shift the position at which each number is emitted
			for k := 0; k < 6; k++ {
				prior := ownDirtyPrior(g, 5)
				g.Emit("encinto", strconv.Itoa(len(prior)+g.R.Intn(40)), hexArg(prior), "0", v)
			}
		}
		// struct fields with tag options (,string on string / int / bool / float / pointer fields, omitempty),
		// string values with escapes, []byte (base64), a map with an escaped key, nested pointers:
		// T <s> <i>; <t|f> <o> <oi>; <y> <mk> <mv> <p|n> <ps|n>     W <f64 bits>; <f32 bits>; <u8>;
		hx := func(x string) string { return "s" + ownHexOr(x) + ";" }
		tagged := []string{
			"T" + hx("say \"hi\"") + "0;f" + hx("") + "0;" + hx("") + hx("k") + hx("v") + "nn",
			"T" + hx("a\\b") + "-5;t" + hx("") + "0;" + hx("\x01\x02\xff") + hx("k\"") + hx("v\u00e9") + "n" + hx("A\""),
			"T" + hx("\x01") + "9223372036854775807;t" + hx("o\"") + "7;" + hx("hello") + hx("\\") + hx("\n") + hx("p\"\\") + hx("\x1f\u4e2d"),
			"T" + hx("") + "0;f" + hx("") + "0;" + hx("") + hx("") + hx("") + "nn",
			"T" + hx("\u00e9\u4e2d\"") + "-9223372036854775808;f" + hx("\u4e2d") + "-1;" + hx("ab") + hx("\t") + hx("\"") + hx("") + hx(""),
			"T" + hx("plain") + "1;t" + hx("") + "0;" + hx("a") + hx("key") + hx("val") + "n" + hx("plain"),
			"T" + hx("\"") + "1;t" + hx("") + "0;" + hx("abc") + hx("k") + hx("v") + hx("x") + hx("\""),
			"T" + hx("\r\n\t") + "12;f" + hx("<&>") + "3;" + hx("\x00") + hx("<") + hx("\u2028") + "n" + hx("\\\\"),
			"[T" + hx("q\"q") + "0;f" + hx("") + "0;" + hx("") + hx("k") + hx("v") + "nn" + "T" + hx("\\") + "0;t" + hx("") + "0;" + hx("") + hx("k") + hx("v") + "n" + hx("\"") + "]",
			"m" + ownHexOr("k\"\\") + ";T" + hx("z\"") + "0;f" + hx("") + "0;" + hx("") + hx("k") + hx("v") + "nn",
		}
		floats := []string{
			"W3ff8000000000000;c2c80000;0;", "Wffefffffffffffff;7f7fffff;255;", "W0000000000000001;00000001;7;", "W4415af1d78b58c40;3dcccccd;100;",
		}
		for _, v := range tagged {
			for c := 0; c <= 160; c++ {
				g.Emit("encinto", strconv.Itoa(c), "-", "0", v)
			}
			for k := 0; k < 4; k++ {
				prior := ownDirtyPrior(g, 5)
				g.Emit("encinto", strconv.Itoa(len(prior)+g.R.Intn(120)), hexArg(prior), "0", v)
			}
		}
		for vi, v := range floats {
			for c := 0; c <= 160; c++ {
				if g.Tier == "quick" && (c+vi)%2 == 1 {
					continue
				}
				g.Emit("encinto", strconv.Itoa(c), "-", "0", v)
			}
		}
	})
}

// printable text without anything the quoting escapes (such strings are not unescaped when decoded)
func ownPlain(g *Gen, max int) []byte {
	n := 1 + g.R.Intn(max)
	b := make([]byte, n)
	for i := range b {
		c := byte(0x20 + g.R.Intn(0x5f))
		if c == '"' || c == '\\' {
			c = 'q'
		}
		b[i] = c
	}
	if g.R.Intn(5) == 0 {
		b = append(b, "é中"...)
	}
	return b
}

// does the value token contain the bad-value token `b` (outside hex payloads)?
func ownHasBadTok(v string) bool {
	i := 0
	for i < len(v) {
		switch v[i] {
		case 's', 'x', 'm', 'i':
			j := strings.IndexByte(v[i:], ';')
			if j < 0 {
				return false
			}
			i += j + 1
		case 'b':
			return true
		default:
			i++
		}
	}
	return false
}

func sortedKeys(m map[int]bool) []int {
	out := make([]int, 0, len(m))
	for k := range m {
		out = append(out, k)
	}
	for i := 1; i < len(out); i++ {
		for j := i; j > 0 && out[j] < out[j-1]; j-- {
			out[j], out[j-1] = out[j-1], out[j]
		}
	}
	return out
}
