//go:build verif && hook_loader

package main

// Operations of property C10 that need the add-only hook /repo/loader/verif_hook.go
// (delivered as hooks/loader/verif_hook.go; build tag hook_loader is set by the runner when the
// hook file is present in the tree under test):
//
//	stackmap <program>    real rt.StackMapBuilder (AddField/AddFields/Build) + StackMap.MarshalBinary
//	loadtabs <noPreempt> <textSize> <argbits> <localbits> <table>   real buildLoadFunc, every table marshalled

import (
	"strconv"
	"strings"

	"github.com/bytedance/sonic/loader"
)

func parseBitsArg(s string) []bool {
	switch s {
	case "nil":
		return nil
	case "-":
		return []bool{}
	}
	out := make([]bool, len(s))
	for i := range s {
		out[i] = s[i] == '1'
	}
	return out
}

func hexOrNil(b []byte) string {
	if b == nil {
		return "nil"
	}
	return hexArg(b)
}

func init() {
	registerOp("stackmap", func(a []string) string {
		var ops []loader.VerifBuilderOp
		if a[0] != "-" {
			for _, e := range strings.Split(a[0], ",") {
				switch {
				case e == "f1":
					ops = append(ops, loader.VerifBuilderOp{N: -1, Ptr: true})
				case e == "f0":
					ops = append(ops, loader.VerifBuilderOp{N: -1, Ptr: false})
				default:
					nb := strings.Split(e, "x")
					n, err := strconv.Atoi(nb[0])
					if err != nil || len(nb) != 2 || n < 0 {
						panic("bad builder op")
					}
					ops = append(ops, loader.VerifBuilderOp{N: n, Ptr: nb[1] == "1"})
				}
			}
		}
		bin, n, bits := loader.VerifStackMap(ops)
		sb := make([]byte, len(bits))
		for i, b := range bits {
			sb[i] = '0' + b
		}
		bs := string(sb)
		if bs == "" {
			bs = "-"
		}
		return "sonic=" + hexArg(bin) + "\tbits=" + bs + "\tn=" + strconv.Itoa(n)
	})

	registerOp("loadtabs", func(a []string) string {
		size, err := strconv.Atoi(a[1])
		if err != nil || size < 0 || size > 1<<20 {
			return "sonic=unsupported"
		}
		item := loader.LoadOneItem{
			Text:      make([]byte, size),
			FuncName:  "verif_loadtabs",
			ArgPtrs:   parseBitsArg(a[2]),
			LocalPtrs: parseBitsArg(a[3]),
			Pcdata:    parseTable(a[4]),
		}
		var parts []string
		func() {
			defer func() {
				if r := recover(); r != nil {
					parts = nil
				}
			}()
			pcsp, up, smi, args, locals := loader.VerifLoadTables(a[0] == "1", item)
			parts = []string{hexArg(pcsp), hexOrNil(up), hexArg(smi), hexOrNil(args), hexOrNil(locals)}
		}()
		if parts == nil {
			// MarshalBinary of the pc-sp table panicked (descending pcs)
			return "sonic=PANIC"
		}
		return "sonic=" + strings.Join(parts, ":")
	})
}
