package main

// C16 - concurrently readable ast.Node.
//
//	conc <mode> <doc hex> <K> <seed>
//
// ONE shared node is obtained from the document through the API that promises concurrent reads
// (mode), K goroutines are released together by a barrier and each runs a small program of the
// documented read operations (Get, Index, GetByPath, typed accessors, Interface, Map, Array, Raw,
// MarshalJSON - chosen by a PRNG seeded with <seed> and the goroutine number, weighted so that
// MarshalJSON/Raw on the still-raw node meet the first converting Get/Index).  Every result is
// compared with the result of the same program run single-threaded on a fresh private node.
//
// The `-race` build of the harness runs these cases with GORACE=halt_on_error=1: a reported data
// race kills the worker (the runner records sonic=CRASH); with VERIF_RACE_DIR set the worker
// leaves `case.<pid>` (hash of the case it is running) next to the detector's `race.<pid>` log so
// that the report can be attached to the case.
//
// modes: new  = ast.NewRawConcurrentRead(doc)
//        get  = sonic.GetWithOptions(doc, {ConcurrentRead:true})            (whole document)
//        getv = sonic.GetWithOptions(doc, {ConcurrentRead:true, ValidateJSON:true})
//        sub  = sonic.GetWithOptions(doc, {ConcurrentRead:true}, <first child>)
//        load / loadall = ast.NewRaw(doc) followed by Load() / LoadAll() before sharing
//
// answer: sonic=ok|DIFF|HANG|ctor_err  ref=valid|invalid  pf=0|1 (the node's own parser rejects the
// text)  nops=…  mraw=… (MarshalJSON/Raw programs aimed at the shared root)  conv=… (converting
// programs)  outs=<hex,…> distinct texts returned by Raw/MarshalJSON of the shared root
// refeq=0|1 (encoding/json: every such text denotes the document's value)  diff=… (first mismatch)

import (
	"bytes"
	"crypto/sha1"
	"encoding/hex"
	"encoding/json"
	"fmt"
	"math/rand"
	"os"
	"path/filepath"
	"reflect"
	"runtime"
	"runtime/debug"
	"strconv"
	"strings"
	"sync"
	"sync/atomic"
	"time"

	"github.com/bytedance/sonic"
	"github.com/bytedance/sonic/ast"
)

type rwPath struct {
	path []interface{}
	kind byte // 'o' object, 'a' array, 's' string, 'n' number, 'b' bool, 'z' null
}

// rwPaths enumerates addressable positions of a decoded document (bounded)
func rwPaths(v interface{}, cur []interface{}, out *[]rwPath, depth int) {
	if len(*out) >= 400 || depth > 12 {
		return
	}
	cp := append([]interface{}(nil), cur...)
	switch x := v.(type) {
	case map[string]interface{}:
		*out = append(*out, rwPath{cp, 'o'})
		// deterministic order
		keys := make([]string, 0, len(x))
		for k := range x {
			keys = append(keys, k)
		}
		sortStrings(keys)
		for _, k := range keys {
			rwPaths(x[k], append(cp, k), out, depth+1)
		}
	case []interface{}:
		*out = append(*out, rwPath{cp, 'a'})
		for i, e := range x {
			if i > 40 {
				break
			}
			rwPaths(e, append(cp, i), out, depth+1)
		}
	case string:
		*out = append(*out, rwPath{cp, 's'})
	case json.Number:
		*out = append(*out, rwPath{cp, 'n'})
	case bool:
		*out = append(*out, rwPath{cp, 'b'})
	default:
		*out = append(*out, rwPath{cp, 'z'})
	}
}

func sortStrings(a []string) {
	for i := 1; i < len(a); i++ {
		for j := i; j > 0 && a[j] < a[j-1]; j-- {
			a[j], a[j-1] = a[j-1], a[j]
		}
	}
}

// terminal read operations
const (
	tRaw = iota
	tMarshal
	tInterface
	tInterfaceNum
	tMap
	tMapNum
	tArray
	tArrayNum
	tBool
	tInt64
	tFloat64
	tString
	tNumber
	tStrictString
	tStrictInt64
	tStrictFloat64
	tStrictBool
	tStrictNumber
	tExists
	tType
	tMapNode
	tArrayNode
	tInterfaceNode
	tCount
)

var rwTermNames = [...]string{"Raw", "MarshalJSON", "Interface", "InterfaceUseNumber", "Map", "MapUseNumber", "Array",
	"ArrayUseNumber", "Bool", "Int64", "Float64", "String", "Number", "StrictString", "StrictInt64", "StrictFloat64",
	"StrictBool", "StrictNumber", "Exists", "TypeSafe", "MapUseNode", "ArrayUseNode", "InterfaceUseNode"}

type rwOp struct {
	path []interface{}
	via  int // 0 GetByPath, 1 chain of Get/Index, 2 chain using IndexOrGet for keys
	term int
}

func (o rwOp) String() string {
	var b strings.Builder
	for _, p := range o.path {
		switch x := p.(type) {
		case int:
			fmt.Fprintf(&b, "[%d]", x)
		case string:
			fmt.Fprintf(&b, ".%q", x)
		}
	}
	return fmt.Sprintf("%s via%d %s", b.String(), o.via, rwTermNames[o.term])
}

func rwErr(e error) string {
	switch {
	case e == nil:
		return "ok"
	case e == ast.ErrNotExist:
		return "notexist"
	case e == ast.ErrUnsupportType:
		return "unsupported"
	default:
		return "err"
	}
}

// rwCanonJSON: the value a JSON text denotes (whitespace and escape spelling removed); texts that
// encoding/json cannot read stay as they are
func rwCanonJSON(b []byte) string {
	d := json.NewDecoder(bytes.NewReader(b))
	d.UseNumber()
	var v interface{}
	if err := d.Decode(&v); err != nil || d.More() {
		return "!" + hex.EncodeToString(b)
	}
	out, err := json.Marshal(v)
	if err != nil {
		return "!" + hex.EncodeToString(b)
	}
	return string(out)
}

func rwNodeCanon(n *ast.Node) string {
	b, e := n.MarshalJSON()
	if e != nil {
		return "E:" + rwErr(e)
	}
	return rwCanonJSON(b)
}

func rwVal(v interface{}) string {
	switch x := v.(type) {
	case ast.Node:
		return "node:" + rwNodeCanon(&x)
	case map[string]ast.Node:
		keys := make([]string, 0, len(x))
		for k := range x {
			keys = append(keys, k)
		}
		sortStrings(keys)
		var b strings.Builder
		b.WriteString("mapnode{")
		for _, k := range keys {
			n := x[k]
			fmt.Fprintf(&b, "%q:%s,", k, rwNodeCanon(&n))
		}
		b.WriteString("}")
		return b.String()
	case []ast.Node:
		var b strings.Builder
		b.WriteString("arrnode[")
		for i := range x {
			b.WriteString(rwNodeCanon(&x[i]))
			b.WriteString(",")
		}
		b.WriteString("]")
		return b.String()
	}
	return fmt.Sprintf("%T:%#v", v, v)
}

// rwRun runs one program step on root; returns the canonical result and, for Raw/MarshalJSON aimed
// at the root itself, the text returned
func rwRun(root *ast.Node, o rwOp) (res string, rootText []byte) {
	n := root
	switch o.via {
	case 0:
		if len(o.path) > 0 {
			n = root.GetByPath(o.path...)
		}
	default:
		for _, p := range o.path {
			switch x := p.(type) {
			case int:
				n = n.Index(x)
			case string:
				if o.via == 2 {
					n = n.IndexOrGet(0, x)
				} else {
					n = n.Get(x)
				}
			}
		}
	}
	switch o.term {
	case tRaw:
		s, e := n.Raw()
		if e != nil {
			return "Raw:" + rwErr(e), nil
		}
		if len(o.path) == 0 {
			rootText = []byte(s)
		}
		return "Raw:" + rwCanonJSON([]byte(s)), rootText
	case tMarshal:
		b, e := n.MarshalJSON()
		if e != nil {
			return "Marshal:" + rwErr(e), nil
		}
		if len(o.path) == 0 {
			rootText = append([]byte(nil), b...)
		}
		return "Marshal:" + rwCanonJSON(b), rootText
	case tInterface:
		v, e := n.Interface()
		return "Interface:" + rwErr(e) + ":" + rwVal(v), nil
	case tInterfaceNum:
		v, e := n.InterfaceUseNumber()
		return "InterfaceUseNumber:" + rwErr(e) + ":" + rwVal(v), nil
	case tInterfaceNode:
		v, e := n.InterfaceUseNode()
		return "InterfaceUseNode:" + rwErr(e) + ":" + rwVal(v), nil
	case tMap:
		v, e := n.Map()
		return "Map:" + rwErr(e) + ":" + rwVal(v), nil
	case tMapNum:
		v, e := n.MapUseNumber()
		return "MapUseNumber:" + rwErr(e) + ":" + rwVal(v), nil
	case tMapNode:
		v, e := n.MapUseNode()
		return "MapUseNode:" + rwErr(e) + ":" + rwVal(v), nil
	case tArray:
		v, e := n.Array()
		return "Array:" + rwErr(e) + ":" + rwVal(v), nil
	case tArrayNum:
		v, e := n.ArrayUseNumber()
		return "ArrayUseNumber:" + rwErr(e) + ":" + rwVal(v), nil
	case tArrayNode:
		v, e := n.ArrayUseNode()
		return "ArrayUseNode:" + rwErr(e) + ":" + rwVal(v), nil
	case tBool:
		v, e := n.Bool()
		return "Bool:" + rwErr(e) + ":" + b01(v), nil
	case tStrictBool:
		v, e := n.StrictBool()
		return "StrictBool:" + rwErr(e) + ":" + b01(v), nil
	case tInt64:
		v, e := n.Int64()
		return "Int64:" + rwErr(e) + ":" + strconv.FormatInt(v, 10), nil
	case tStrictInt64:
		v, e := n.StrictInt64()
		return "StrictInt64:" + rwErr(e) + ":" + strconv.FormatInt(v, 10), nil
	case tFloat64:
		v, e := n.Float64()
		return "Float64:" + rwErr(e) + ":" + fmt.Sprintf("%x", v), nil
	case tStrictFloat64:
		v, e := n.StrictFloat64()
		return "StrictFloat64:" + rwErr(e) + ":" + fmt.Sprintf("%x", v), nil
	case tString:
		v, e := n.String()
		return "String:" + rwErr(e) + ":" + hex.EncodeToString([]byte(v)), nil
	case tStrictString:
		v, e := n.StrictString()
		return "StrictString:" + rwErr(e) + ":" + hex.EncodeToString([]byte(v)), nil
	case tNumber:
		v, e := n.Number()
		return "Number:" + rwErr(e) + ":" + string(v), nil
	case tStrictNumber:
		v, e := n.StrictNumber()
		return "StrictNumber:" + rwErr(e) + ":" + string(v), nil
	case tExists:
		return "Exists:" + b01(n.Exists()) + b01(n.Valid()) + rwErr(n.Check()), nil
	case tType:
		if n == nil {
			return "TypeSafe:nil", nil // TypeSafe has no nil-receiver guard; not what is tested here
		}
		return "TypeSafe:" + strconv.Itoa(n.TypeSafe()), nil
	}
	return "?", nil
}

// rwNode obtains the shared (or a private) node for a mode
func rwNode(mode string, doc []byte, sub []interface{}) (*ast.Node, string) {
	// every node gets its own copy of the text
	text := string(append([]byte(nil), doc...))
	var n ast.Node
	var err error
	switch mode {
	case "new":
		n = ast.NewRawConcurrentRead(text)
	case "get":
		n, err = sonic.GetWithOptions([]byte(text), ast.SearchOptions{ConcurrentRead: true})
	case "getv":
		n, err = sonic.GetWithOptions([]byte(text), ast.SearchOptions{ConcurrentRead: true, ValidateJSON: true})
	case "sub":
		n, err = sonic.GetWithOptions([]byte(text), ast.SearchOptions{ConcurrentRead: true}, sub...)
	case "load":
		n = ast.NewRaw(text)
		err = n.Load()
	case "loadall":
		n = ast.NewRaw(text)
		err = n.LoadAll()
	default:
		return nil, "badmode"
	}
	if err != nil {
		return nil, rwErr(err)
	}
	if !n.Valid() {
		return nil, "errnode"
	}
	return &n, ""
}

// rwPrograms derives the K programs from the seed and the document's structure
func rwPrograms(doc []byte, k int, seed int64, base []interface{}) (progs [][]rwOp, mraw, conv int) {
	var paths []rwPath
	d := json.NewDecoder(bytes.NewReader(doc))
	d.UseNumber()
	var v interface{}
	if err := d.Decode(&v); err == nil {
		// in mode sub the shared node is the first child
		for _, p := range base {
			switch x := p.(type) {
			case int:
				if a, ok := v.([]interface{}); ok && x < len(a) {
					v = a[x]
				}
			case string:
				if m, ok := v.(map[string]interface{}); ok {
					v = m[x]
				}
			}
		}
		rwPaths(v, nil, &paths, 0)
	}
	if len(paths) == 0 {
		paths = []rwPath{{nil, 'z'}, {[]interface{}{0}, 'z'}, {[]interface{}{"a"}, 'z'}, {[]interface{}{0, 0}, 'z'}}
	}
	progs = make([][]rwOp, k)
	// (while finding C16-marshal-raw-unlocked was open MarshalJSON programs were generated in every 4th case
	// only - each hit costs a worker restart in the -race build; VERIF_C16_MARSHAL_QUARTER restores that)
	marshalOK := true
	if os.Getenv("VERIF_C16_MARSHAL_QUARTER") != "" {
		marshalOK = seed%4 == 0
	}
	for g := 0; g < k; g++ {
		r := rand.New(rand.NewSource(seed*1000003 + int64(g)*7919 + 17))
		nops := 1 + r.Intn(4)
		// the first operation decides what meets what on the raw root: about 40% of the goroutines
		// start with MarshalJSON / Raw of the shared root, the others with a converting read
		for i := 0; i < nops; i++ {
			var o rwOp
			c := r.Intn(100)
			switch {
			case i == 0 && c < 25:
				o = rwOp{nil, 0, tMarshal}
				mraw++
			case i == 0 && c < 40:
				o = rwOp{nil, 0, tRaw}
				mraw++
			default:
				p := paths[r.Intn(len(paths))]
				if r.Intn(12) == 0 {
					// a position that does not exist
					if r.Intn(2) == 0 {
						p = rwPath{append(append([]interface{}(nil), p.path...), "\x00nokey"), 'z'}
					} else {
						p = rwPath{append(append([]interface{}(nil), p.path...), 1000000), 'z'}
					}
				}
				o.path = p.path
				o.via = r.Intn(3)
				// terminal: by kind mostly, sometimes anything
				switch {
				case r.Intn(5) == 0:
					// any documented terminal (the *UseNode variants copy child nodes and are not in the
					// documented list of concurrently usable reads: not generated)
					o.term = r.Intn(tMapNode)
				case p.kind == 'o':
					o.term = []int{tMap, tMapNum, tInterface, tInterfaceNum, tRaw, tMarshal, tExists, tType}[r.Intn(8)]
				case p.kind == 'a':
					o.term = []int{tArray, tArrayNum, tInterface, tInterfaceNum, tRaw, tMarshal, tExists, tType}[r.Intn(8)]
				case p.kind == 's':
					o.term = []int{tString, tStrictString, tInterface, tRaw, tMarshal, tBool, tInt64, tFloat64, tNumber}[r.Intn(9)]
				case p.kind == 'n':
					o.term = []int{tInt64, tStrictInt64, tFloat64, tStrictFloat64, tNumber, tStrictNumber, tInterface, tInterfaceNum, tRaw, tString, tBool}[r.Intn(11)]
				default:
					o.term = []int{tBool, tStrictBool, tInterface, tRaw, tMarshal, tExists, tType, tInt64, tString}[r.Intn(9)]
				}
				if i == 0 {
					conv++
				}
			}
			if o.term == tMarshal && !marshalOK {
				o.term = tRaw
			}
			progs[g] = append(progs[g], o)
		}
	}
	return
}

// rwFrames: the sonic frames of a stack dump, innermost first
func rwFrames(stack []byte) string {
	var fr []string
	for _, ln := range strings.Split(string(stack), "\n") {
		if strings.HasPrefix(ln, "github.com/bytedance/sonic/") {
			f := strings.TrimPrefix(ln, "github.com/bytedance/sonic/")
			if i := strings.LastIndex(f, "("); i > 0 {
				f = f[:i]
			}
			fr = append(fr, f)
			if len(fr) >= 5 {
				break
			}
		}
	}
	return strings.Join(fr, "<")
}

// rwMarkCase leaves "<sha1 of the case line> pf=<0|1>" for the orchestrator: if the race detector
// halts the process during this case, nothing else of the answer survives
func rwMarkCase(a []string, pf string) {
	dir := os.Getenv("VERIF_RACE_DIR")
	if dir == "" {
		return
	}
	h := sha1.Sum([]byte("conc\t" + strings.Join(a, "\t")))
	_ = os.WriteFile(filepath.Join(dir, "case."+strconv.Itoa(os.Getpid())), []byte(hex.EncodeToString(h[:])+" pf="+pf), 0o644)
}

func init() {
	registerOp("conc", func(a []string) string {
		if len(a) < 4 {
			return "sonic=unsupported"
		}
		mode := a[0]
		doc := unhexArg(a[1])
		k, _ := strconv.Atoi(a[2])
		seed, _ := strconv.ParseInt(a[3], 10, 64)
		if k < 1 || k > 64 {
			return "sonic=unsupported"
		}
		ref := "invalid"
		if json.Valid(doc) {
			ref = "valid"
		}
		// does the node's own parser accept the text?  (private, non-shared node, fully loaded)
		pf := "0"
		{
			p := ast.NewRaw(string(append([]byte(nil), doc...)))
			if !p.Valid() {
				pf = "1"
			} else if _, e := p.Interface(); e != nil {
				pf = "1"
			}
		}
		var base []interface{}
		if mode == "sub" {
			// first child of the document
			var v interface{}
			if json.Unmarshal(doc, &v) == nil {
				switch x := v.(type) {
				case []interface{}:
					if len(x) > 0 {
						base = []interface{}{0}
					}
				case map[string]interface{}:
					keys := make([]string, 0, len(x))
					for kk := range x {
						keys = append(keys, kk)
					}
					sortStrings(keys)
					if len(keys) > 0 {
						base = []interface{}{keys[0]}
					}
				}
			}
		}
		shared, cerr := rwNode(mode, doc, base)
		if shared == nil {
			return "sonic=ctor_err\tref=" + ref + "\tpf=" + pf + "\tctor=" + cerr
		}
		progs, mraw, conv := rwPrograms(doc, k, seed, base)
		rwMarkCase(a, fmt.Sprintf("%s mraw=%d conv=%d", pf, mraw, conv))
		// single-threaded reference: each program on its own fresh private node
		want := make([][]string, k)
		nops := 0
		seqPanic := ""
		func() {
			// a panic of the single-threaded run is not a matter of this property (C07): reported apart
			defer func() {
				if r := recover(); r != nil {
					seqPanic = fmt.Sprint(r)
				}
			}()
			for g := range progs {
				priv, _ := rwNode(mode, doc, base)
				if priv == nil {
					seqPanic = "constructor unstable"
					return
				}
				for _, o := range progs[g] {
					r, _ := rwRun(priv, o)
					want[g] = append(want[g], r)
					nops++
				}
			}
		}()
		if seqPanic != "" {
			return "sonic=seq_panic\tref=" + ref + "\tpf=" + pf
		}
		// concurrent run on the shared node
		got := make([][]string, k)
		texts := make([][][]byte, k)
		var ready int32
		start := make(chan struct{})
		var wg sync.WaitGroup
		panics := make([]string, k)
		for g := 0; g < k; g++ {
			wg.Add(1)
			go func(g int) {
				defer wg.Done()
				defer func() {
					if r := recover(); r != nil {
						panics[g] = fmt.Sprint(r) + " @ " + rwFrames(debug.Stack())
					}
				}()
				// a torn (p, l) pair read by another goroutine may point anywhere: make the fault a panic
				debug.SetPanicOnFault(true)
				atomic.AddInt32(&ready, 1)
				<-start
				for _, o := range progs[g] {
					r, t := rwRun(shared, o)
					got[g] = append(got[g], r)
					if t != nil {
						texts[g] = append(texts[g], t)
					}
				}
			}(g)
		}
		// barrier: everybody is parked on the channel, then released together
		for atomic.LoadInt32(&ready) != int32(k) {
			runtime.Gosched()
		}
		close(start)
		done := make(chan struct{})
		go func() { wg.Wait(); close(done) }()
		select {
		case <-done:
		case <-time.After(2 * time.Second):
			return fmt.Sprintf("sonic=HANG\tref=%s\tpf=%s\tnops=%d\tmraw=%d\tconv=%d", ref, pf, nops, mraw, conv)
		}
		res := "ok"
		diff := ""
		for g := 0; g < k && diff == ""; g++ {
			if panics[g] != "" {
				res = "PANIC"
				diff = fmt.Sprintf("g%d panic %.260s", g, panics[g])
				break
			}
			if !reflect.DeepEqual(got[g], want[g]) {
				res = "DIFF"
				for i := range want[g] {
					if i >= len(got[g]) || got[g][i] != want[g][i] {
						gs := ""
						if i < len(got[g]) {
							gs = got[g][i]
						}
						diff = fmt.Sprintf("g%d op%d %s: concurrent=%.120s sequential=%.120s", g, i, progs[g][i], gs, want[g][i])
						break
					}
				}
			}
		}
		// distinct texts returned for the shared root
		var outs []string
		seen := map[string]bool{}
		refeq := "1"
		docCanon := rwCanonJSON(doc)
		if mode == "sub" {
			docCanon = ""
		}
		for g := range texts {
			for _, t := range texts[g] {
				if !seen[string(t)] {
					seen[string(t)] = true
					if len(outs) < 4 && len(t) <= 1<<16 {
						outs = append(outs, hexArg(t))
					}
					if docCanon != "" && rwCanonJSON(t) != docCanon {
						refeq = "0"
					}
				}
			}
		}
		out := fmt.Sprintf("sonic=%s\tref=%s\tpf=%s\tnops=%d\tmraw=%d\tconv=%d\trefeq=%s\touts=%s", res, ref, pf, nops, mraw, conv, refeq, strings.Join(outs, ","))
		if diff != "" {
			diff = strings.Map(func(r rune) rune {
				if r == '\t' || r == '\n' || r == '\r' {
					return ' '
				}
				return r
			}, diff)
			out += "\tdiff=" + diff
		}
		return out
	})
}
