package main

// C06 - ownership of returned data, buffer geometry, aliasing of decoder inputs.
//
//	hist    <limit> <encDefault> <astDefault> <call>*       histories; every earlier result is re-checked after every call
//	encinto <cap> <prior hex> <opts> <value>                encoder.EncodeInto into a slice that ends at a guard page
//	htmlesc <cap> <prior hex> <src hex>                     encoder.HTMLEscape(dst, src) with a caller-supplied dst
//	alias   <api> <doc hex>                                 decode, overwrite the input, re-read the decoded strings
//
// value syntax (shared with lean/SonicSpec/Driver/Own.lean):
//	n t f b  i<dec>;  s<hex>;  x<count>,<hex>;  [v*]  m<hex>;v  r<str>[<str>*]i<dec>;

import (
	"bytes"
	"encoding/json"
	"fmt"
	"math"
	"os"
	"reflect"
	"runtime"
	"sort"
	"strconv"
	"strings"
	"sync"
	"syscall"
	"unsafe"

	"github.com/bytedance/sonic"
	"github.com/bytedance/sonic/ast"
	"github.com/bytedance/sonic/decoder"
	"github.com/bytedance/sonic/encoder"
	"github.com/bytedance/sonic/option"
)

// ---------------------------------------------------------------- values

type ownKind int

const (
	okNull ownKind = iota
	okBool
	okInt
	okStr
	okArr
	okMap1
	okRec3
	okBad
	okTyped  // an integer of a fixed Go width (w), value in i / u
	okTSlice // a slice of such integers
	okInts8  // ownInts8T
	okF64
	okF32
	okTag  // ownTagT: fields with tag options
	okTagF // ownTagFT: floats under ,string
)

type ownVal struct {
	k    ownKind
	b    bool
	w    byte   // width letter a..h
	u    uint64 // unsigned payload / float bits
	is   []int64
	us   []uint64
	i    int64
	s    string
	xs   []*ownVal
	strs []string
}

// struct fields carrying tag options; strs = s, o, y, mk, mv, then p / ps when present (has[0], has[1])
type ownTagT struct {
	S  string            `json:"s,string"`
	I  int64             `json:"i,string"`
	B  bool              `json:"b,string"`
	O  string            `json:"o,omitempty"`
	OI int               `json:"oi,omitempty"`
	Y  []byte            `json:"y"`
	M  map[string]string `json:"m"`
	P  **string          `json:"p"`
	PS *string           `json:"ps,string"`
}

type ownTagFT struct {
	F float64 `json:"f,string"`
	G float32 `json:"g,string"`
	U uint8   `json:"u,string,omitempty"`
}

type ownInts8T struct {
	A int8
	B int16
	C int32
	D int64
	E uint8
	F uint16
	G uint32
	H uint64
	T bool
}

func ownTypedInt(w byte, i int64, u uint64) interface{} {
	switch w {
	case 'a':
		return int8(i)
	case 'b':
		return int16(i)
	case 'c':
		return int32(i)
	case 'd':
		return i
	case 'e':
		return uint8(u)
	case 'f':
		return uint16(u)
	case 'g':
		return uint32(u)
	}
	return u
}

func ownTypedSlice(w byte, is []int64, us []uint64) interface{} {
	switch w {
	case 'a':
		r := make([]int8, len(is))
		for k, x := range is {
			r[k] = int8(x)
		}
		return r
	case 'b':
		r := make([]int16, len(is))
		for k, x := range is {
			r[k] = int16(x)
		}
		return r
	case 'c':
		r := make([]int32, len(is))
		for k, x := range is {
			r[k] = int32(x)
		}
		return r
	case 'd':
		return append([]int64{}, is...)
	case 'e':
		// []uint8 would be base64 text: box the elements instead
		r := make([]interface{}, len(us))
		for k, x := range us {
			r[k] = uint8(x)
		}
		return r
	case 'f':
		r := make([]uint16, len(us))
		for k, x := range us {
			r[k] = uint16(x)
		}
		return r
	case 'g':
		r := make([]uint32, len(us))
		for k, x := range us {
			r[k] = uint32(x)
		}
		return r
	}
	return append([]uint64{}, us...)
}

func ownParseInt(w byte, d string) (int64, uint64) {
	if w >= 'e' {
		u, err := strconv.ParseUint(d, 10, 64)
		if err != nil {
			panic("bad uint")
		}
		return 0, u
	}
	i, err := strconv.ParseInt(d, 10, 64)
	if err != nil {
		panic("bad int")
	}
	return i, 0
}

type rec3T struct {
	A string   `json:"a"`
	B []string `json:"b"`
	C int64    `json:"c"`
}

type ownParser struct {
	s string
	p int
}

func (p *ownParser) until(stop byte) string {
	j := strings.IndexByte(p.s[p.p:], stop)
	if j < 0 {
		panic("bad value syntax")
	}
	r := p.s[p.p : p.p+j]
	p.p += j + 1
	return r
}

func (p *ownParser) str() string {
	switch p.s[p.p] {
	case 's':
		p.p++
		h := p.until(';')
		if h == "" {
			return ""
		}
		return string(unhexArg(h))
	case 'x':
		p.p++
		n, err := strconv.Atoi(p.until(','))
		if err != nil {
			panic("bad repeat count")
		}
		h := p.until(';')
		if h == "" {
			return ""
		}
		return strings.Repeat(string(unhexArg(h)), n)
	}
	panic("bad string token")
}

func (p *ownParser) val() *ownVal {
	if p.p >= len(p.s) {
		panic("bad value syntax")
	}
	switch p.s[p.p] {
	case 'n':
		p.p++
		return &ownVal{k: okNull}
	case 't':
		p.p++
		return &ownVal{k: okBool, b: true}
	case 'f':
		p.p++
		return &ownVal{k: okBool}
	case 'b':
		p.p++
		return &ownVal{k: okBad}
	case 'j':
		w := p.s[p.p+1]
		p.p += 2
		i, u := ownParseInt(w, p.until(';'))
		return &ownVal{k: okTyped, w: w, i: i, u: u}
	case 'q':
		w := p.s[p.p+1]
		p.p += 2
		v := &ownVal{k: okTSlice, w: w}
		if d := p.until(';'); d != "" {
			for _, x := range strings.Split(d, ",") {
				i, u := ownParseInt(w, x)
				v.is, v.us = append(v.is, i), append(v.us, u)
			}
		}
		return v
	case 'k':
		p.p++
		v := &ownVal{k: okInts8}
		for n := 0; n < 8; n++ {
			w := byte('a' + n)
			i, u := ownParseInt(w, p.until(';'))
			v.is, v.us = append(v.is, i), append(v.us, u)
		}
		v.b = p.s[p.p] == 't'
		p.p++
		return v
	case 'T':
		// T <s> <i>; <t|f> <o> <oi>; <y> <mk> <mv> <p|n> <ps|n>
		p.p++
		v := &ownVal{k: okTag}
		v.strs = append(v.strs, p.str())
		v.i, _ = ownParseInt('d', p.until(';'))
		v.b = p.s[p.p] == 't'
		p.p++
		v.strs = append(v.strs, p.str())
		oi, _ := ownParseInt('d', p.until(';'))
		v.is = []int64{oi}
		v.strs = append(v.strs, p.str(), p.str(), p.str())
		for k := 0; k < 2; k++ {
			if p.s[p.p] == 'n' {
				p.p++
				v.us = append(v.us, 0)
				v.strs = append(v.strs, "")
			} else {
				v.us = append(v.us, 1)
				v.strs = append(v.strs, p.str())
			}
		}
		return v
	case 'W':
		// W <f64 bits>; <f32 bits>; <u8>;
		p.p++
		v := &ownVal{k: okTagF}
		f, err := strconv.ParseUint(p.until(';'), 16, 64)
		g, err2 := strconv.ParseUint(p.until(';'), 16, 32)
		u, err3 := strconv.ParseUint(p.until(';'), 10, 8)
		if err != nil || err2 != nil || err3 != nil {
			panic("bad W token")
		}
		v.us = []uint64{f, g, u}
		return v
	case 'F':
		p.p++
		u, err := strconv.ParseUint(p.until(';'), 16, 64)
		if err != nil {
			panic("bad float bits")
		}
		return &ownVal{k: okF64, u: u}
	case 'G':
		p.p++
		u, err := strconv.ParseUint(p.until(';'), 16, 32)
		if err != nil {
			panic("bad float bits")
		}
		return &ownVal{k: okF32, u: u}
	case 'i':
		p.p++
		n, err := strconv.ParseInt(p.until(';'), 10, 64)
		if err != nil {
			panic("bad int")
		}
		return &ownVal{k: okInt, i: n}
	case '[':
		p.p++
		v := &ownVal{k: okArr}
		for p.s[p.p] != ']' {
			v.xs = append(v.xs, p.val())
		}
		p.p++
		return v
	case 'm':
		p.p++
		h := p.until(';')
		key := ""
		if h != "" {
			key = string(unhexArg(h))
		}
		return &ownVal{k: okMap1, s: key, xs: []*ownVal{p.val()}}
	case 'r':
		p.p++
		v := &ownVal{k: okRec3, strs: []string{}}
		v.s = p.str()
		if p.s[p.p] != '[' {
			panic("bad record")
		}
		p.p++
		for p.s[p.p] != ']' {
			v.strs = append(v.strs, p.str())
		}
		p.p++
		if p.s[p.p] != 'i' {
			panic("bad record")
		}
		p.p++
		n, err := strconv.ParseInt(p.until(';'), 10, 64)
		if err != nil {
			panic("bad int")
		}
		v.i = n
		return v
	}
	return &ownVal{k: okStr, s: p.str()}
}

func parseOwnVal(s string) *ownVal {
	p := &ownParser{s: s}
	v := p.val()
	if p.p != len(s) {
		panic("trailing value syntax")
	}
	return v
}

func (v *ownVal) goValue() interface{} {
	switch v.k {
	case okNull:
		return nil
	case okBool:
		return v.b
	case okInt:
		return v.i
	case okStr:
		return v.s
	case okArr:
		r := make([]interface{}, 0, len(v.xs))
		for _, x := range v.xs {
			r = append(r, x.goValue())
		}
		return r
	case okMap1:
		return map[string]interface{}{v.s: v.xs[0].goValue()}
	case okRec3:
		return rec3T{A: v.s, B: v.strs, C: v.i}
	case okTyped:
		return ownTypedInt(v.w, v.i, v.u)
	case okTSlice:
		return ownTypedSlice(v.w, v.is, v.us)
	case okInts8:
		return ownInts8T{int8(v.is[0]), int16(v.is[1]), int32(v.is[2]), v.is[3], uint8(v.us[4]), uint16(v.us[5]), uint32(v.us[6]), v.us[7], v.b}
	case okTag:
		t := ownTagT{S: v.strs[0], I: v.i, B: v.b, O: v.strs[1], OI: int(v.is[0]), Y: []byte(v.strs[2]),
			M: map[string]string{v.strs[3]: v.strs[4]}}
		if t.Y == nil {
			t.Y = []byte{}
		}
		if v.us[0] == 1 {
			ps := v.strs[5]
			pp := &ps
			t.P = &pp
		}
		if v.us[1] == 1 {
			ps := v.strs[6]
			t.PS = &ps
		}
		return t
	case okTagF:
		return ownTagFT{math.Float64frombits(v.us[0]), math.Float32frombits(uint32(v.us[1])), uint8(v.us[2])}
	case okF64:
		return math.Float64frombits(v.u)
	case okF32:
		return math.Float32frombits(uint32(v.u))
	}
	return math.NaN() // okBad: rejected by the encoder after what precedes it was written
}

func (v *ownVal) node() ast.Node {
	switch v.k {
	case okNull:
		return ast.NewNull()
	case okBool:
		return ast.NewBool(v.b)
	case okInt:
		return ast.NewNumber(strconv.FormatInt(v.i, 10))
	case okStr:
		return ast.NewString(v.s)
	case okArr:
		r := make([]ast.Node, 0, len(v.xs))
		for _, x := range v.xs {
			r = append(r, x.node())
		}
		return ast.NewArray(r)
	case okMap1:
		return ast.NewObject([]ast.Pair{ast.NewPair(v.s, v.xs[0].node())})
	case okRec3:
		b := make([]ast.Node, 0, len(v.strs))
		for _, s := range v.strs {
			b = append(b, ast.NewString(s))
		}
		return ast.NewObject([]ast.Pair{ast.NewPair("a", ast.NewString(v.s)), ast.NewPair("b", ast.NewArray(b)),
			ast.NewPair("c", ast.NewNumber(strconv.FormatInt(v.i, 10)))})
	}
	if v.k >= okTyped {
		return ast.NewAny(v.goValue())
	}
	return ast.NewAny(math.NaN())
}

func (v *ownVal) hasBad() bool {
	if v.k == okBad {
		return true
	}
	for _, x := range v.xs {
		if x.hasBad() {
			return true
		}
	}
	return false
}

// every string byte is one that encoding/json and sonic write identically
func (v *ownVal) stdAgrees(html bool) bool {
	ok := func(s string) bool {
		for i := 0; i < len(s); i++ {
			c := s[i]
			if c < 0x20 || c > 0x7e {
				return false
			}
			if !html && (c == '<' || c == '>' || c == '&') {
				return false
			}
		}
		return true
	}
	if !ok(v.s) {
		return false
	}
	for _, s := range v.strs {
		if !ok(s) {
			return false
		}
	}
	for _, x := range v.xs {
		if !x.stdAgrees(html) {
			return false
		}
	}
	return true
}

const hexdig = "0123456789abcdef"

// own renderer of the compact text (used to build documents; the quoting table of encoder.Quote)
func ownQuote(dst []byte, s string) []byte {
	dst = append(dst, '"')
	for i := 0; i < len(s); i++ {
		c := s[i]
		switch {
		case c == '"':
			dst = append(dst, '\\', '"')
		case c == '\\':
			dst = append(dst, '\\', '\\')
		case c == '\t':
			dst = append(dst, '\\', 't')
		case c == '\n':
			dst = append(dst, '\\', 'n')
		case c == '\r':
			dst = append(dst, '\\', 'r')
		case c < 0x20:
			dst = append(dst, '\\', 'u', '0', '0', hexdig[c>>4], hexdig[c&15])
		default:
			dst = append(dst, c)
		}
	}
	return append(dst, '"')
}

func (v *ownVal) render(dst []byte) []byte {
	if v.k >= okTyped {
		b, _ := json.Marshal(v.goValue())
		return append(dst, b...)
	}
	switch v.k {
	case okNull:
		return append(dst, "null"...)
	case okBool:
		if v.b {
			return append(dst, "true"...)
		}
		return append(dst, "false"...)
	case okInt:
		return strconv.AppendInt(dst, v.i, 10)
	case okStr:
		return ownQuote(dst, v.s)
	case okArr:
		dst = append(dst, '[')
		for i, x := range v.xs {
			if i > 0 {
				dst = append(dst, ',')
			}
			dst = x.render(dst)
		}
		return append(dst, ']')
	case okMap1:
		dst = append(dst, '{')
		dst = ownQuote(dst, v.s)
		dst = append(dst, ':')
		dst = v.xs[0].render(dst)
		return append(dst, '}')
	case okRec3:
		dst = append(dst, `{"a":`...)
		dst = ownQuote(dst, v.s)
		dst = append(dst, `,"b":[`...)
		for i, s := range v.strs {
			if i > 0 {
				dst = append(dst, ',')
			}
			dst = ownQuote(dst, s)
		}
		dst = append(dst, `],"c":`...)
		dst = strconv.AppendInt(dst, v.i, 10)
		return append(dst, '}')
	}
	return dst
}

// ---------------------------------------------------------------- hashes

func fnv64(b []byte) uint64 {
	h := uint64(14695981039346656037)
	for _, c := range b {
		h = (h ^ uint64(c)) * 1099511628211
	}
	return h
}

func fnvStrs(ss []string) uint64 {
	h := uint64(14695981039346656037)
	for _, s := range ss {
		n := len(s)
		for _, c := range []byte{byte(n), byte(n >> 8), byte(n >> 16), byte(n >> 24)} {
			h = (h ^ uint64(c)) * 1099511628211
		}
		for i := 0; i < len(s); i++ {
			h = (h ^ uint64(s[i])) * 1099511628211
		}
	}
	return h
}

func hex64(h uint64) string { return fmt.Sprintf("%016x", h) }

// strings of a decoded value, depth first, object keys sorted and before their values
func collectStrs(v interface{}, out []string) []string {
	switch t := v.(type) {
	case string:
		return append(out, t)
	case json.Number:
		return append(out, string(t))
	case json.RawMessage:
		return append(out, string(t))
	case []byte:
		return append(out, string(t))
	case []interface{}:
		for _, x := range t {
			out = collectStrs(x, out)
		}
	case []string:
		out = append(out, t...)
	case map[string]interface{}:
		ks := make([]string, 0, len(t))
		for k := range t {
			ks = append(ks, k)
		}
		sort.Strings(ks)
		for _, k := range ks {
			out = append(out, k)
			out = collectStrs(t[k], out)
		}
	case map[string]string:
		ks := make([]string, 0, len(t))
		for k := range t {
			ks = append(ks, k)
		}
		sort.Strings(ks)
		for _, k := range ks {
			out = append(out, k, t[k])
		}
	}
	return out
}

// the caller's bytes viewed as a string without copying (what rt.Mem2Str does)
func unsafeStr(b []byte) string {
	if len(b) == 0 {
		return ""
	}
	return *(*string)(unsafe.Pointer(&b))
}

func dataPtr(b []byte) uintptr { return (*reflect.SliceHeader)(unsafe.Pointer(&b)).Data }

// ---------------------------------------------------------------- hist

type ownResult struct {
	kind  byte
	bytes []byte // the returned slice itself (not a copy)
	str   string // the returned string itself
	isStr bool
	val   interface{} // a decoded value
	node  *ast.Node   // a node that must keep answering the same
	snap  []byte      // private copy of the bytes at return time
	strs  []string    // private copies of the decoded strings at return time
	err   bool
	none  bool
}

func (r *ownResult) intact() bool {
	if r.err || r.none {
		return true
	}
	if r.val != nil {
		now := collectStrs(r.val, nil)
		if len(now) != len(r.strs) {
			return false
		}
		for i := range now {
			if now[i] != r.strs[i] {
				return false
			}
		}
		return true
	}
	if r.isStr {
		if r.str != string(r.snap) {
			return false
		}
	} else if !bytes.Equal(r.bytes, r.snap) {
		return false
	}
	if r.node != nil {
		s, err := r.node.Raw()
		if err != nil || s != string(r.snap) {
			return false
		}
	}
	return true
}

func cloneStrs(ss []string) []string {
	out := make([]string, len(ss))
	for i, s := range ss {
		out[i] = string(append([]byte(nil), s...))
	}
	return out
}

var ownAPIs = [4]sonic.API{sonic.Config{}.Froze(), sonic.Config{EscapeHTML: true}.Froze(),
	sonic.Config{ValidateString: true}.Froze(), sonic.Config{EscapeHTML: true, ValidateString: true}.Froze()}

// encoder configuration of a history call: bit 0 EscapeHTML, bit 1 ValidateString
func ownAPIOf(o string) sonic.API {
	n, err := strconv.Atoi(o)
	if err != nil || n < 0 || n > 3 {
		panic("bad call options")
	}
	return ownAPIs[n]
}

func ownHTML(o string) bool { return o == "1" || o == "3" }

// ---- re-entrant encoding: two encoder buffers live in ONE goroutine

type ownNestT struct {
	A     int       `json:"a"`
	B     string    `json:"b"`
	Inner ownReJSON `json:"inner"`
	Tail  string    `json:"tail"`
}

type ownNestTextT struct {
	A     int       `json:"a"`
	B     string    `json:"b"`
	Inner ownReText `json:"inner"`
	Tail  string    `json:"tail"`
}

// MarshalJSON / MarshalText run while the outer encoder holds its buffer and call the encoder again
type ownReJSON struct {
	depth int
	v     interface{}
	enc   func(interface{}) ([]byte, error)
}

type ownReText ownReJSON

func (r ownReJSON) MarshalJSON() ([]byte, error) {
	if r.depth == 0 {
		return r.enc(r.v)
	}
	return r.enc(ownNestT{42, "inner-value", ownReJSON{r.depth - 1, r.v, r.enc}, "the-end"})
}

func (r ownReText) MarshalText() ([]byte, error) {
	if r.depth == 0 {
		return r.enc(r.v)
	}
	return r.enc(ownNestTextT{42, "inner-value", ownReText{r.depth - 1, r.v, r.enc}, "the-end"})
}

// UnmarshalJSON runs inside the decoder and calls the encoder
type ownDecCb struct {
	v   interface{}
	enc func(interface{}) ([]byte, error)
	out []byte
	err error
}

func (c *ownDecCb) UnmarshalJSON(data []byte) error {
	c.out, c.err = c.enc(c.v)
	return nil
}

// the text the nested encodings must produce, written with the harness's own renderer
func ownNestText(depth int, inner []byte, text bool) []byte {
	for d := 0; d <= depth; d++ {
		w := append([]byte(nil), `{"a":42,"b":"inner-value","inner":`...)
		if text {
			w = ownQuote(w, string(inner))
		} else {
			w = append(w, inner...)
		}
		inner = append(w, `,"tail":"the-end"}`...)
	}
	return inner
}

func encOpts(o string) encoder.Options {
	n, err := strconv.Atoi(o)
	if err != nil {
		panic("bad opts")
	}
	var r encoder.Options
	if n&1 != 0 {
		r |= encoder.EscapeHTML
	}
	if n&2 != 0 {
		r |= encoder.ValidateString
	}
	if n&4 != 0 {
		r |= encoder.SortMapKeys
	}
	if n&8 != 0 {
		r |= encoder.NoNullSliceOrMap
	}
	return r
}

// burst: concurrent Marshal / MarshalIndent / Node.MarshalJSON calls whose outputs straddle the limits
func ownBurst(n int, limit int) {
	var wg sync.WaitGroup
	for g := 0; g < n; g++ {
		wg.Add(1)
		go func(g int) {
			defer wg.Done()
			for k := 0; k < 12; k++ {
				sz := limit/2 + (g*131+k*977)%(limit*2+8)
				s := strings.Repeat("ab\"<\x01", sz/5+1)
				switch k % 4 {
				case 0:
					sonic.Marshal([]interface{}{s, k})
				case 1:
					sonic.MarshalString(map[string]interface{}{"k": s})
				case 2:
					sonic.MarshalIndent([]interface{}{s, []interface{}{k}}, "", " ")
				case 3:
					nd := ast.NewArray([]ast.Node{ast.NewString(s), ast.NewNumber("7")})
					nd.MarshalJSON()
				}
			}
		}(g)
	}
	wg.Wait()
}

func ownHashOf(b []byte, err error) string {
	if err != nil {
		return "E"
	}
	return hex64(fnv64(b))
}

func stdHash(v *ownVal, html bool, indent bool, pre, ind string) string {
	if !v.stdAgrees(html) {
		return "-"
	}
	var buf bytes.Buffer
	e := json.NewEncoder(&buf)
	e.SetEscapeHTML(html)
	if err := e.Encode(v.goValue()); err != nil {
		return "E"
	}
	b := buf.Bytes()
	b = b[:len(b)-1] // the newline json.Encoder adds
	if indent {
		var out bytes.Buffer
		if err := json.Indent(&out, b, pre, ind); err != nil {
			return "-"
		}
		b = out.Bytes()
	}
	return hex64(fnv64(b))
}

func init() {
	registerOp("hist", func(a []string) string {
		limit, _ := strconv.Atoi(a[0])
		encDef, _ := strconv.Atoi(a[1])
		astDef, _ := strconv.Atoi(a[2])
		option.LimitBufferSize = uint(limit)
		option.DefaultEncoderBufferSize = uint(encDef)
		option.DefaultAstBufferSize = uint(astDef)
		defer func() {
			option.LimitBufferSize = 1024 * 1024
			option.DefaultEncoderBufferSize = 4096
			option.DefaultAstBufferSize = 4096
		}()
		var res []*ownResult
		used := map[int]bool{}
		var hashes, refs []string
		changed := "-"
		dep := "-"
		firstHash := map[string]string{}
		firstIdx := map[string]int{}
		handed := 0
		for ci, call := range a[3:] {
			f := strings.Split(call, "|")
			r := &ownResult{kind: f[0][0]}
			ref := "-"
			key := ""
			var again func() string // runs the same call once more
			setBytes := func(b []byte, err error) {
				if err != nil {
					r.err = true
					return
				}
				r.bytes = b
				r.snap = append([]byte(nil), b...)
				if cap(b) > limit {
					handed++
				}
			}
			setStr := func(s string, err error) {
				if err != nil {
					r.err = true
					return
				}
				r.str, r.isStr = s, true
				r.snap = []byte(s)
			}
			switch f[0] {
			case "M":
				v := parseOwnVal(f[2])
				gv := v.goValue()
				setBytes(ownAPIOf(f[1]).Marshal(gv))
				ref = stdHash(v, ownHTML(f[1]), false, "", "")
				key = call
				again = func() string { return ownHashOf(ownAPIOf(f[1]).Marshal(gv)) }
			case "S":
				v := parseOwnVal(f[2])
				gv := v.goValue()
				setStr(ownAPIOf(f[1]).MarshalToString(gv))
				ref = stdHash(v, ownHTML(f[1]), false, "", "")
				key = "M" + call[1:]
				again = func() string { return ownHashOf(ownAPIOf(f[1]).Marshal(gv)) }
			case "I":
				v := parseOwnVal(f[4])
				pre, ind := string(unhexArg(f[2])), string(unhexArg(f[3]))
				setBytes(ownAPIOf(f[1]).MarshalIndent(v.goValue(), pre, ind))
				if ownHTML(f[1]) { // encoding/json's MarshalIndent always escapes HTML
					ref = stdHash(v, true, true, pre, ind)
				} else {
					ref = stdHash(v, false, true, pre, ind)
				}
				key = call
			case "E":
				v := parseOwnVal(f[3])
				var buf []byte
				if f[2][0] == 'f' {
					t := strings.SplitN(f[2][1:], ",", 2)
					c, _ := strconv.Atoi(t[0])
					prior := []byte{}
					if t[1] != "" {
						prior = unhexArg(t[1])
					}
					if c < len(prior) {
						c = len(prior)
					}
					buf = make([]byte, c)
					for i := range buf {
						buf[i] = 0xA5
					}
					copy(buf, prior)
					buf = buf[:len(prior)]
					// the same prior content and value must give the same bytes whatever the capacity
					key = "E|" + f[1] + "|" + t[1] + "|" + f[3]
				} else {
					k, _ := strconv.Atoi(f[2][1:])
					// a slice passed to EncodeInto is given away: appending twice behind the same
					// length would be the caller overwriting its own data
					if k >= len(res) || res[k].err || res[k].none || res[k].bytes == nil || used[k] {
						r.none = true
						break
					}
					used[k] = true
					buf = res[k].bytes
				}
				err := encoder.EncodeInto(&buf, v.goValue(), encOpts(f[1]))
				setBytes(buf, err)
			case "N", "R":
				v := parseOwnVal(f[1])
				nd := v.node()
				if f[0] == "N" {
					setBytes(nd.MarshalJSON())
				} else {
					setStr(nd.Raw())
				}
				ref = stdHash(v, false, false, "", "")
				key = "N|" + f[1]
			case "P", "Q":
				v := parseOwnVal(f[1])
				if v.hasBad() {
					r.none = true
					break
				}
				doc := string(v.render(nil))
				nd := ast.NewRaw(doc)
				if f[0] == "P" {
					setBytes(nd.MarshalJSON())
				} else {
					setStr(nd.Raw())
				}
				r.node = &nd
			case "G":
				v := parseOwnVal(f[1])
				if v.hasBad() {
					r.none = true
					break
				}
				src := v.render(nil)
				nd, err := sonic.Get(src)
				if err != nil {
					r.err = true
				} else {
					setStr(nd.Raw())
					r.node = &nd
				}
				for i := range src { // the caller reuses its buffer
					src[i] = 'Z'
				}
			case "U":
				v := parseOwnVal(f[1])
				if v.hasBad() {
					r.none = true
					break
				}
				src := v.render(nil)
				var out interface{}
				if err := sonic.Unmarshal(src, &out); err != nil {
					r.err = true
				} else {
					if out == nil {
						out = []interface{}{}
					}
					r.val = out
					r.strs = cloneStrs(collectStrs(out, nil))
				}
				for i := range src {
					src[i] = 'Z'
				}
			case "J", "K":
				// J|<depth>|<o>|<val>: Marshal of a struct whose field's MarshalJSON (K: MarshalText) calls Marshal again
				depth, _ := strconv.Atoi(f[1])
				v := parseOwnVal(f[3])
				api := ownAPIOf(f[2])
				gv := v.goValue()
				run := func() ([]byte, error) {
					if f[0] == "J" {
						return api.Marshal(ownNestT{42, "inner-value", ownReJSON{depth, gv, api.Marshal}, "the-end"})
					}
					return api.Marshal(ownNestTextT{42, "inner-value", ownReText{depth, gv, api.Marshal}, "the-end"})
				}
				setBytes(run())
				if f[2] == "0" && v.k < okTyped {
					if v.hasBad() {
						ref = "E"
					} else {
						ref = hex64(fnv64(ownNestText(depth, v.render(nil), f[0] == "K")))
					}
				}
				key = call
				again = func() string { return ownHashOf(run()) }
			case "D":
				// D|<o>|<val>: the encoder called from an UnmarshalJSON callback of the decoder
				v := parseOwnVal(f[2])
				api := ownAPIOf(f[1])
				gv := v.goValue()
				run := func() ([]byte, error) {
					var t struct {
						X ownDecCb `json:"x"`
						Y string   `json:"y"`
					}
					t.X.v, t.X.enc = gv, api.Marshal
					if err := sonic.Unmarshal([]byte(`{"x":[1,{"k":"v"}],"y":"after"}`), &t); err != nil || t.Y != "after" {
						return nil, fmt.Errorf("decode failed")
					}
					return t.X.out, t.X.err
				}
				setBytes(run())
				ref = stdHash(v, ownHTML(f[1]), false, "", "")
				key = "M|" + f[1] + "|" + f[2]
				again = func() string { return ownHashOf(run()) }
			case "Z":
				// Z|<o>|<val>: the stream encoder, two values
				v := parseOwnVal(f[2])
				gv := v.goValue()
				run := func() ([]byte, error) {
					var w bytes.Buffer
					e := encoder.NewStreamEncoder(&w)
					e.Opts = encOpts(f[1])
					if err := e.Encode(gv); err != nil {
						return nil, err
					}
					if err := e.Encode(gv); err != nil {
						return nil, err
					}
					return w.Bytes(), nil
				}
				setBytes(run())
				if f[1] == "0" && v.k < okTyped {
					if v.hasBad() {
						ref = "E"
					} else {
						one := append(v.render(nil), 10)
						ref = hex64(fnv64(append(one, one...)))
					}
				}
				key = call
				again = func() string { return ownHashOf(run()) }
			case "X":
				n, _ := strconv.Atoi(f[1])
				ownBurst(n, limit)
				r.none = true
			case "C":
				runtime.GC()
				r.none = true
			default:
				r.none = true
			}
			res = append(res, r)
			h := "-"
			switch {
			case r.err:
				h = "E"
			case r.none:
			case r.val != nil:
				h = hex64(fnvStrs(r.strs))
			default:
				h = hex64(fnv64(r.snap))
			}
			hashes = append(hashes, h)
			refs = append(refs, ref)
			if again != nil && ref != "-" && h != ref && dep == "-" {
				// not the reference's bytes: empty the pools (two collections clear sync.Pool's victim cache too)
				// and ask again - a different answer means the first one depended on the state of the pools
				runtime.GC()
				runtime.GC()
				if h2 := again(); h2 != h {
					dep = itoa(ci) + "~gc"
				}
			}
			if key != "" && !r.none {
				if h0, ok := firstHash[key]; ok {
					if h0 != h && dep == "-" {
						dep = itoa(firstIdx[key]) + "~" + itoa(ci)
					}
				} else {
					firstHash[key], firstIdx[key] = h, ci
				}
			}
			if changed == "-" {
				for i, e := range res {
					if !e.intact() {
						changed = itoa(i) + "@" + itoa(ci)
						break
					}
				}
			}
		}
		runtime.KeepAlive(res)
		return "sonic=" + strings.Join(hashes, ",") + "\tref=" + strings.Join(refs, ",") + "\tchanged=" + changed +
			"\tdep=" + dep + "\thanded=" + itoa(handed)
	})

	// encinto <cap> <prior hex> <opts> <value>
	registerOp("encinto", func(a []string) string {
		c, _ := strconv.Atoi(a[0])
		prior := unhexArg(a[1])
		if c < len(prior) {
			return "sonic=unsupported"
		}
		opts := encOpts(a[2])
		v := parseOwnVal(a[3])
		val := v.goValue()
		impl := "jit"
		if os.Getenv("SONIC_ENCODER_USE_VM") != "" {
			impl = "vm"
		}
		// the plain Marshal of the same value with the same options
		plain, perr := encoder.Encode(val, opts)
		plain = append([]byte(nil), plain...)

		// 1. on the heap, inside a larger array whose tail is watched: an overrun is reported, not fatal
		const tailLen = 64
		backing := make([]byte, c+tailLen)
		for i := range backing {
			backing[i] = 0xA5
		}
		copy(backing, prior)
		hbuf := backing[:len(prior):c]
		herr := encoder.EncodeInto(&hbuf, val, opts)
		hout := append([]byte(nil), hbuf...)
		over := false
		for i := c; i < len(backing); i++ {
			if backing[i] != 0xA5 {
				over = true
			}
		}
		hpre := bytes.Equal(backing[:len(prior)], prior)
		if over || !hpre {
			hres := hexArg(hout)
			if herr != nil {
				hres = "err:" + hres
			}
			return "sonic=" + hres + "\tref=-\tpre=" + b01(hpre) + "\tover=" + b01(over) + "\timpl=" + impl + "\tplace=heap"
		}

		// 2. at the end of a mapping, the next page inaccessible: an overrun kills the worker
		page := syscall.Getpagesize()
		const canary = 64
		usable := (c + canary + page - 1) / page * page
		if usable == 0 {
			usable = page
		}
		mem, err := syscall.Mmap(-1, 0, usable+page, syscall.PROT_READ|syscall.PROT_WRITE, syscall.MAP_ANON|syscall.MAP_PRIVATE)
		if err != nil {
			return "sonic=unsupported\twhy=mmap"
		}
		if err := syscall.Mprotect(mem[usable:], syscall.PROT_NONE); err != nil {
			syscall.Munmap(mem)
			return "sonic=unsupported\twhy=mprotect"
		}
		start := usable - c
		for i := 0; i < start; i++ {
			mem[i] = 0xC3
		}
		for i := start; i < usable; i++ {
			mem[i] = 0xA5
		}
		copy(mem[start:], prior)
		buf := mem[start : start+len(prior) : usable]
		orig := buf
		eerr := encoder.EncodeInto(&buf, val, opts)
		out := append([]byte(nil), buf...)
		moved := dataPtr(buf) != dataPtr(orig)
		// nothing before the spare part may have changed in the caller's array
		pre := true
		for i := 0; i < start; i++ {
			if mem[i] != 0xC3 {
				pre = false
			}
		}
		if !bytes.Equal(mem[start:start+len(prior)], prior) {
			pre = false
		}
		syscall.Munmap(mem)
		res := ""
		ref := ""
		if eerr != nil {
			res = "err:" + hexArg(out)
		} else {
			res = hexArg(out)
		}
		if perr != nil {
			ref = "err"
		} else {
			ref = hexArg(append(append([]byte(nil), prior...), plain...))
		}
		agree := bytes.Equal(hout, out) && (herr != nil) == (eerr != nil)
		return "sonic=" + res + "\tref=" + ref + "\tpre=" + b01(pre) + "\tover=0\timpl=" + impl + "\tmoved=" + b01(moved) + "\tplaces=" + b01(agree)
	})

	// htmlesc <cap> <prior hex> <src hex>
	registerOp("htmlesc", func(a []string) string {
		c, _ := strconv.Atoi(a[0])
		prior := unhexArg(a[1])
		src := unhexArg(a[2])
		if c < len(prior) {
			return "sonic=unsupported"
		}
		var std bytes.Buffer
		std.Write(prior)
		json.HTMLEscape(&std, src)
		dst := make([]byte, c)
		for i := range dst {
			dst[i] = 0xA5
		}
		copy(dst, prior)
		keep := dst
		dst = dst[:len(prior)]
		out := encoder.HTMLEscape(dst, src)
		pre := bytes.Equal(keep[:len(prior)], prior)
		return "sonic=" + hexArg(out) + "\tref=" + hexArg(std.Bytes()) + "\tpre=" + b01(pre)
	})

	// alias <entry>.<cfg>.<dest> <doc hex>
	//   entry: unmarshal | unmarshalstring | decoder | get | getcopy | getref | getfromstring
	//   cfg:   def | std | cs | csnum | num          dest: iface | mapiface | sliface | typed | nodes | wrap | node
	registerOp("alias", func(a []string) string {
		api := a[0]
		if old, ok := ownOldAlias[api]; ok {
			api = old
		}
		f := strings.Split(api, ".")
		if len(f) != 3 {
			return "sonic=unsupported"
		}
		entry, cfgName, dest := f[0], f[1], f[2]
		buf := append([]byte(nil), unhexArg(a[1])...)
		var read func() []ownLab
		var derr error
		switch entry {
		case "unmarshal", "unmarshalstring", "decoder":
			cfg, ok := ownAliasCfg[cfgName]
			if !ok {
				return "sonic=unsupported"
			}
			dec := func(v interface{}) error {
				switch entry {
				case "unmarshal":
					return cfg.Unmarshal(buf, v)
				case "unmarshalstring":
					return cfg.UnmarshalFromString(unsafeStr(buf), v)
				}
				d := decoder.NewDecoder(unsafeStr(buf))
				switch cfgName {
				case "cs":
					d.CopyString()
				case "csnum":
					d.CopyString()
					d.UseNumber()
				case "num":
					d.UseNumber()
				case "std":
					d.CopyString()
					d.ValidateString()
				}
				return d.Decode(v)
			}
			switch dest {
			case "iface":
				var v interface{}
				derr = dec(&v)
				read = func() []ownLab { return ownCollect(v, "", nil) }
			case "mapiface":
				var v map[string]interface{}
				derr = dec(&v)
				read = func() []ownLab { return ownCollect(v, "", nil) }
			case "sliface":
				var v []interface{}
				derr = dec(&v)
				read = func() []ownLab { return ownCollect(v, "", nil) }
			case "typed":
				var v ownAliasTyped
				derr = dec(&v)
				read = func() []ownLab {
					out := []ownLab{{"a", v.A}}
					for _, x := range v.B {
						out = append(out, ownLab{"b", x})
					}
					for _, x := range collectStrs(v.M, nil) {
						out = append(out, ownLab{"m", x})
					}
					return append(out, ownLab{"r", string(v.R)}, ownLab{"n", string(v.N)}, ownLab{"y", string(v.Y)}, ownLab{"s2", v.S2})
				}
			case "wrap":
				var v ownAliasWrap
				derr = dec(&v)
				read = func() []ownLab {
					out := ownCollect(v.I, "", nil)
					out = ownCollect(v.MI, "", out)
					return ownCollect(v.SI, "", out)
				}
			case "nodes":
				var v ownAliasNodes
				derr = dec(&v)
				var h1, h2 *ownNodeReader
				read = func() []ownLab {
					if h1 == nil {
						h1, h2 = &ownNodeReader{n: &v.Nd}, &ownNodeReader{n: v.Pn}
					}
					return append(h1.read("nd"), h2.read("pn")...)
				}
			default:
				return "sonic=unsupported"
			}
		case "get", "getcopy", "getref", "getfromstring":
			var nd ast.Node
			switch entry {
			case "get":
				nd, derr = sonic.Get(buf)
			case "getcopy":
				nd, derr = sonic.GetWithOptions(buf, ast.SearchOptions{CopyReturn: true, ValidateJSON: true})
			case "getref":
				nd, derr = sonic.GetWithOptions(buf, ast.SearchOptions{ValidateJSON: true})
			default:
				nd, derr = sonic.GetFromString(unsafeStr(buf))
			}
			h := &ownNodeReader{n: &nd}
			read = func() []ownLab { return h.read("node") }
		default:
			return "sonic=unsupported"
		}
		if derr != nil {
			for i := range buf {
				buf[i] ^= 0xFF
			}
			return "sonic=err\tsame=1\tnstr=0\tdiff="
		}
		first := read()
		before := make([]string, len(first))
		for i, l := range first {
			before[i] = string(append([]byte(nil), l.s...))
		}
		for i := range buf {
			buf[i] ^= 0xFF
		}
		after := read()
		same := len(before) == len(after)
		diff := map[string]bool{}
		if same {
			for i := range before {
				if before[i] != after[i].s {
					same = false
					diff[after[i].l] = true
				}
			}
		} else {
			diff["shape"] = true
		}
		dl := make([]string, 0, len(diff))
		for k := range diff {
			dl = append(dl, k)
		}
		sort.Strings(dl)
		n := 0
		for _, s := range before {
			if len(s) > 0 {
				n++
			}
		}
		runtime.KeepAlive(buf)
		return "sonic=ok\tsame=" + b01(same) + "\tnstr=" + itoa(n) + "\tdiff=" + strings.Join(dl, ",")
	})
}

type ownLab struct{ l, s string }

type ownAliasTyped struct {
	A  string            `json:"a"`
	B  []string          `json:"b"`
	M  map[string]string `json:"m"`
	R  json.RawMessage   `json:"r"`
	N  json.Number       `json:"n"`
	Y  []byte            `json:"y"`
	S2 string            `json:"s2,omitempty"`
}

type ownAliasWrap struct {
	I  interface{}            `json:"i"`
	MI map[string]interface{} `json:"mi"`
	SI []interface{}          `json:"si"`
}

type ownAliasNodes struct {
	Nd ast.Node  `json:"nd"`
	Pn *ast.Node `json:"pn"`
}

var ownAliasCfg = map[string]sonic.API{
	"def":   sonic.ConfigDefault,
	"std":   sonic.ConfigStd,
	"cs":    sonic.Config{CopyString: true}.Froze(),
	"csnum": sonic.Config{CopyString: true, UseNumber: true}.Froze(),
	"num":   sonic.Config{UseNumber: true}.Froze(),
}

var ownOldAlias = map[string]string{
	"unmarshal": "unmarshal.def.iface", "unmarshal_t": "unmarshal.def.typed", "unmarshal_std": "unmarshal.std.iface",
	"copystring": "unmarshalstring.cs.iface", "copystring_t": "unmarshalstring.cs.typed",
	"decoder_copystring": "decoder.cs.iface", "decoder_copystring_t": "decoder.cs.typed",
	"unmarshalstring": "unmarshalstring.def.iface", "unmarshalstring_t": "unmarshalstring.def.typed",
	"get": "get.def.node", "getfromstring": "getfromstring.def.node",
}

// everything textual reachable from a decoded generic value: strings S, numbers N, keys K (sorted)
func ownCollect(v interface{}, pre string, out []ownLab) []ownLab {
	switch t := v.(type) {
	case string:
		return append(out, ownLab{pre + "S", t})
	case json.Number:
		return append(out, ownLab{pre + "N", string(t)})
	case []interface{}:
		for _, x := range t {
			out = ownCollect(x, pre, out)
		}
	case map[string]interface{}:
		ks := make([]string, 0, len(t))
		for k := range t {
			ks = append(ks, k)
		}
		sort.Strings(ks)
		for _, k := range ks {
			out = append(out, ownLab{pre + "K", k})
			out = ownCollect(t[k], pre, out)
		}
	}
	return out
}

// what a node hands out before the caller touches its buffer, re-read later through the same
// string headers, plus what the node answers when asked again
type ownNodeReader struct {
	n      *ast.Node
	handed []string
	done   bool
}

func (h *ownNodeReader) read(label string) []ownLab {
	if h.n == nil {
		return nil
	}
	if !h.done {
		h.done = true
		s, _ := h.n.Raw()
		h.handed = []string{s}
		switch h.n.TypeSafe() {
		case ast.V_ARRAY, ast.V_OBJECT:
			for i := 0; i < 4; i++ {
				c := h.n.Index(i)
				if c == nil || !c.Exists() {
					break
				}
				r, _ := c.Raw()
				h.handed = append(h.handed, r)
				if c.TypeSafe() == ast.V_STRING {
					sv, _ := c.String()
					h.handed = append(h.handed, sv)
				}
			}
		case ast.V_STRING:
			sv, _ := h.n.String()
			h.handed = append(h.handed, sv)
		}
	}
	out := make([]ownLab, 0, len(h.handed)+1)
	for _, s := range h.handed {
		out = append(out, ownLab{label, s})
	}
	s, _ := h.n.Raw()
	return append(out, ownLab{label, s})
}
