//go:build hook_dir

package main

// dirdis <T> [<MaxInlineDepth>]      (0 / absent = the default compile options, as findOrCompile)
//
// The program text of the REAL JIT-decoder compiler for type T (hook internal/decoder/jitdec/verif_hook.go through
// verifhook/decoder.go), laid out as `_Program.disassemble` prints it, canonicalised so that the Lean model
// (Model/Dir.lean `disasm`) can print the SAME text:
//   * type operands are printed in the type-expression grammar of types.go instead of Go type names;
//   * the operands `_Instr.disassemble` does not print are appended after ` ; `: the flags of dyn / unmarshal*, the
//     mismatch target of the map-key opcodes and of go_skip, target and character of check_char_0 / check_empty, the type of
//     dismatch_err / unsupported, the amount of add, and which of the three nameless opcodes (`<invalid>`) it is.
// Before that every line of the real listing is checked to be the real `_Instr.disassemble` text, and that text is
// re-derived from the structured operands (so the canonical line says nothing the real line does not).
// answer: sonic=ok  n=<instructions>  dis=<hex of the text>   |  sonic=err:<...>
// Needs hooks/internal/decoder/jitdec/verif_hook.go + hooks/verifhook/decoder.go in the tree.

import (
	"encoding"
	"encoding/hex"
	"encoding/json"
	"fmt"
	"reflect"
	"sort"
	"strconv"
	"strings"

	"github.com/bytedance/sonic/verifhook"
)

// library types of this work package (mirrored in lean/SonicSpec/Model/Dir.lean `libInfo`)

// DirSJ: named string with a pointer-receiver json.Unmarshaler
type DirSJ string

func (s *DirSJ) UnmarshalJSON(b []byte) error { *s = DirSJ(b); return nil }

// DirST: named string with a pointer-receiver encoding.TextUnmarshaler
type DirST string

func (s *DirST) UnmarshalText(b []byte) error { *s = DirST(b); return nil }

// DirVJ: value-receiver json.Unmarshaler
type DirVJ struct{ V int }

func (DirVJ) UnmarshalJSON(b []byte) error { return nil }

// DirVT: value-receiver encoding.TextUnmarshaler
type DirVT struct{ V int }

func (DirVT) UnmarshalText(b []byte) error { return nil }

// DirIU / DirIT / DirIM: interfaces with methods
type DirIU interface{ json.Unmarshaler }
type DirIT interface{ encoding.TextUnmarshaler }
type DirIM interface{ M() }

var dirLibExtra = map[string]reflect.Type{
	"DirSJ":    reflect.TypeOf(DirSJ("")),
	"DirST":    reflect.TypeOf(DirST("")),
	"DirVJ":    reflect.TypeOf(DirVJ{}),
	"DirVT":    reflect.TypeOf(DirVT{}),
	"DirIU":    reflect.TypeOf((*DirIU)(nil)).Elem(),
	"DirIT":    reflect.TypeOf((*DirIT)(nil)).Elem(),
	"DirIM":    reflect.TypeOf((*DirIM)(nil)).Elem(),
	"EmbInner": reflect.TypeOf(EmbInner{}),
	"EmbPtr":   reflect.TypeOf(EmbPtr{}),
}

var dirLibByType map[reflect.Type]string

// dirTypeSx prints a reflect.Type in the grammar of types.go, in the canonical spelling of the Lean side
// (`Go.typeToString`: int = i64, uint = uptr = u64; []uint8 = bytes)
func dirTypeSx(t reflect.Type) string {
	if n, ok := dirLibByType[t]; ok {
		return "(lib " + n + ")"
	}
	switch t {
	case reflect.TypeOf(json.Number("")):
		return "num"
	case reflect.TypeOf(json.RawMessage(nil)):
		return "raw"
	}
	switch t.Kind() {
	case reflect.Bool:
		return "bool"
	case reflect.Int8:
		return "i8"
	case reflect.Int16:
		return "i16"
	case reflect.Int32:
		return "i32"
	case reflect.Int64, reflect.Int:
		return "i64"
	case reflect.Uint8:
		return "u8"
	case reflect.Uint16:
		return "u16"
	case reflect.Uint32:
		return "u32"
	case reflect.Uint64, reflect.Uint, reflect.Uintptr:
		return "u64"
	case reflect.Float32:
		return "f32"
	case reflect.Float64:
		return "f64"
	case reflect.String:
		return "str"
	case reflect.Interface:
		if t.NumMethod() == 0 {
			return "any"
		}
	case reflect.Slice:
		if t.Elem().Kind() == reflect.Uint8 {
			return "bytes"
		}
		return "(sl " + dirTypeSx(t.Elem()) + ")"
	case reflect.Array:
		return "(arr " + strconv.Itoa(t.Len()) + " " + dirTypeSx(t.Elem()) + ")"
	case reflect.Ptr:
		return "(ptr " + dirTypeSx(t.Elem()) + ")"
	case reflect.Map:
		return "(map " + dirTypeSx(t.Key()) + " " + dirTypeSx(t.Elem()) + ")"
	case reflect.Struct:
		var b strings.Builder
		b.WriteString("(st")
		for i := 0; i < t.NumField(); i++ {
			f := t.Field(i)
			tag := "-"
			if v, ok := f.Tag.Lookup("json"); ok && v != "" {
				tag = hex.EncodeToString([]byte(v))
			}
			b.WriteString(" (f " + f.Name + " " + tag + " " + dirTypeSx(f.Type) + ")")
		}
		b.WriteString(")")
		return b.String()
	}
	return "?" + t.String()
}

func dirQuoteRune(c byte) string { return strconv.QuoteRune(rune(c)) }

// dirShown re-derives `_Instr.disassemble` from the structured operands; ty prints a type operand
func dirShown(in verifhook.DecoderInstr, ty func(reflect.Type) string) string {
	switch in.Op {
	case "dyn", "deref", "map_key_i8", "map_key_i16", "map_key_i32", "map_key_i64", "map_key_u8", "map_key_u16", "map_key_u32",
		"map_key_u64", "map_key_f32", "map_key_f64", "map_key_str", "map_key_utext", "map_key_utext_p", "slice_init", "slice_append",
		"unmarshal", "unmarshal_p", "unmarshal_text", "unmarshal_text_p", "recurse":
		return fmt.Sprintf("%-18s%s", in.Op, ty(in.Type))
	case "goto", "is_null_quote", "is_null":
		return fmt.Sprintf("%-18sL_%d", in.Op, in.Vi)
	case "index":
		return fmt.Sprintf("%-18s%d", in.Op, in.Vi)
	case "switch":
		var m []string
		for i, v := range in.Labels {
			m = append(m, fmt.Sprintf("%d=L_%d", i, v))
		}
		return fmt.Sprintf("%-18s%s", in.Op, strings.Join(m, ", "))
	case "struct_field":
		fs := append([]verifhook.DecoderField(nil), in.Fields...)
		sort.SliceStable(fs, func(i, j int) bool { return fs[i].Name < fs[j].Name })
		var r []string
		for _, f := range fs {
			r = append(r, fmt.Sprintf("%s=%d", f.Name, f.ID))
		}
		return fmt.Sprintf("%-18s%s", in.Op, strings.Join(r, ", "))
	case "match_char":
		return fmt.Sprintf("%-18s%s", in.Op, dirQuoteRune(in.Vb))
	case "check_char":
		return fmt.Sprintf("%-18sL_%d, %s", in.Op, in.Vi, dirQuoteRune(in.Vb))
	case "<invalid>":
		if in.Code == 41 || in.Code == 42 { // _OP_array_clear, _OP_array_clear_p: in the `%d` group of disassemble, without a name
			return fmt.Sprintf("%-18s%d", in.Op, in.Vi)
		}
	}
	return in.Op
}

func dirHidden(in verifhook.DecoderInstr) string {
	switch in.Op {
	case "dyn", "unmarshal", "unmarshal_p", "unmarshal_text", "unmarshal_text_p":
		return fmt.Sprintf(" ; %d", in.Vi)
	case "map_key_i8", "map_key_i16", "map_key_i32", "map_key_i64", "map_key_u8", "map_key_u16", "map_key_u32",
		"map_key_u64", "map_key_f32", "map_key_f64", "map_key_str", "map_key_utext", "map_key_utext_p", "go_skip":
		return fmt.Sprintf(" ; L_%d", in.Vi)
	case "check_char_0", "check_empty":
		return fmt.Sprintf(" ; L_%d, %s", in.Vi, dirQuoteRune(in.Vb))
	case "dismatch_err", "unsupported type":
		return " ; " + dirTypeSx(in.Type)
	case "add":
		return fmt.Sprintf(" ; %d", in.Vi)
	case "<invalid>":
		switch in.Code {
		case 41:
			return " ; array_clear"
		case 42:
			return " ; array_clear_p"
		case 64:
			return fmt.Sprintf(" ; skip_empty L_%d", in.Vi)
		}
		return fmt.Sprintf(" ; #%d", in.Code)
	}
	return ""
}

func dirErr(msg string) string {
	if len(msg) > 60 {
		msg = msg[:60]
	}
	return "sonic=err:" + strings.Map(func(r rune) rune {
		if r == '\t' || r == '\n' {
			return ' '
		}
		return r
	}, msg)
}

func init() {
	for n, t := range dirLibExtra {
		libTypes[n] = t // after `libNames` was computed: the generators of other work packages do not see these
	}
	dirLibByType = map[reflect.Type]string{}
	for n, t := range libTypes {
		dirLibByType[t] = n
	}
	registerOp("dirdis", func(a []string) string {
		_, t := parseType(a[0])
		depth := 0
		if len(a) > 1 {
			depth, _ = strconv.Atoi(a[1])
		}
		prog, err := verifhook.DecoderCompile(t, depth)
		if err != nil {
			return dirErr(err.Error())
		}
		// the real listing, line by line: labels and the final `end` are kept, instruction lines are checked and replaced
		lines := strings.Split(prog.Disasm, "\n")
		k := 0
		for n, l := range lines {
			if (strings.HasPrefix(l, "L_") && strings.HasSuffix(l, ":")) || l == "\tend" {
				continue
			}
			if k >= len(prog.Instrs) {
				return "sonic=err:disassembly has more lines than instructions"
			}
			in := prog.Instrs[k]
			if strings.TrimPrefix(l, "\t") != in.Text {
				return "sonic=err:line " + strconv.Itoa(k) + " of _Program.disassemble is not _Instr.disassemble"
			}
			if dirShown(in, func(t reflect.Type) string { return t.String() }) != in.Text {
				return "sonic=err:line " + strconv.Itoa(k) + " (" + in.Op + ") is not what the operands give"
			}
			lines[n] = "\t" + dirShown(in, dirTypeSx) + dirHidden(in)
			k++
		}
		if k != len(prog.Instrs) {
			return "sonic=err:disassembly has fewer lines than instructions"
		}
		return "sonic=ok\tn=" + strconv.Itoa(k) + "\tdis=" + hexArg([]byte(strings.Join(lines, "\n")))
	})
}
