package main

import "reflect"

// dirun <cfgbits> <T> <doc hex> <tags>
//
// = the shared `unm` (sonic + encoding/json on a fresh zero value of T).  The Lean driver answers the same line with
// `Dir.exec` of the MODEL compiler's program for T (Driver/Dir.lean): the behavioural voice of the decoder-IR model.

// DirRef / DirRefT: DEFINED pointer types whose element has a pointer-receiver json.Unmarshaler / encoding.TextUnmarshaler; the
// defined types themselves have no methods (findings C09-jitdec-namedptr-inline-depth, C01-field-defined-pointer-type-calls-
// elem-unmarshaler).  Mirrored in lean/SonicSpec/Model/Dir.lean `libInfo`.
type DirRef *MV
type DirRefT *TV

func init() {
	// after `libNames` was computed: the generators of other work packages do not see these
	libTypes["DirRef"] = reflect.TypeOf(DirRef(nil))
	libTypes["DirRefT"] = reflect.TypeOf(DirRefT(nil))
	registerOp("dirun", func(a []string) string {
		return ops["unm"](a[:3])
	})
}
