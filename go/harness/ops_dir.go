package main

// dirun <cfgbits> <T> <doc hex> <tags>
//
// = the shared `unm` (sonic + encoding/json on a fresh zero value of T).  The Lean driver answers the same line with
// `Dir.exec` of the MODEL compiler's program for T (Driver/Dir.lean): the behavioural voice of the decoder-IR model.

func init() {
	registerOp("dirun", func(a []string) string {
		return ops["unm"](a[:3])
	})
}
