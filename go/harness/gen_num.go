package main

// C19 generators.
//   c19.atof   well-formed number literals chosen to be hard (halfway and near-halfway points between
//              adjacent float64 / float32 values built with exact big arithmetic, long mantissas,
//              > 19 and > 800 digits, exponent extremes, subnormals, zeros, integer-width boundaries,
//              integer-valued literals with fraction/exponent) x destination kinds
//   c19.bad    malformed literals (leading zeros, bare signs, missing digits, hex, Inf/NaN, ...)
//   c19.ftoa   float64 / float32 bit patterns (powers of two and ten and neighbours, every exponent,
//              notation thresholds, subnormals, random, short decimals, float32 slices)
//   c19.itoa   integers of every width (boundaries, powers of ten, random)

import (
	"fmt"
	"math"
	"math/big"
	"strconv"
	"strings"
)

var (
	numFloatKinds = []string{"f64", "f32", "any", "any_useint64", "num", "any_usenumber"}
	numIntKinds   = []string{"i8", "i16", "i32", "i64", "int", "u8", "u16", "u32", "u64", "uint"}
	numAllKinds   = append(append([]string{}, numFloatKinds...), numIntKinds...)
)

// exact value of a finite float as mant * 2^exp
func exactF64(bits uint64) (*big.Int, int) {
	e := int(bits>>52) & 0x7ff
	m := bits & (1<<52 - 1)
	if e == 0 {
		return new(big.Int).SetUint64(m), -1074
	}
	return new(big.Int).SetUint64(m | 1<<52), e - 1075
}

func exactF32(bits uint32) (*big.Int, int) {
	e := int(bits>>23) & 0xff
	m := bits & (1<<23 - 1)
	if e == 0 {
		return new(big.Int).SetUint64(uint64(m)), -149
	}
	return new(big.Int).SetUint64(uint64(m | 1<<23)), e - 150
}

// decimal digits D and exponent e10 with mant*2^exp = D * 10^e10, exactly
func exactDecimal(mant *big.Int, exp int) (*big.Int, int) {
	d := new(big.Int).Set(mant)
	if exp >= 0 {
		return d.Lsh(d, uint(exp)), 0
	}
	p5 := new(big.Int).Exp(big.NewInt(5), big.NewInt(int64(-exp)), nil)
	return d.Mul(d, p5), exp
}

// midpoint between the float with these (mant, exp) and the next one up: (2*mant+1) * 2^(exp-1)
func midpoint(mant *big.Int, exp int) (*big.Int, int) {
	m := new(big.Int).Lsh(mant, 1)
	m.Add(m, big.NewInt(1))
	return exactDecimal(m, exp-1)
}

// renderDec writes digits * 10^e10 in one of several notations (all RFC 8259)
func renderDec(g *Gen, digits string, e10 int) string {
	digits = strings.TrimLeft(digits, "0")
	if digits == "" {
		digits = "0"
	}
	expStr := func(x int) string {
		e := "e"
		if g.R.Intn(4) == 0 {
			e = "E"
		}
		switch {
		case x >= 0 && g.R.Intn(3) == 0:
			e += "+"
		case x < 0:
			e += "-"
			x = -x
		}
		if g.R.Intn(8) == 0 {
			e += strings.Repeat("0", 1+g.R.Intn(3))
		}
		return e + strconv.Itoa(x)
	}
	switch g.R.Intn(4) {
	case 0: // integer mantissa with exponent
		if e10 == 0 && g.R.Intn(2) == 0 {
			return digits
		}
		return digits + expStr(e10)
	case 1: // d.ddd e x
		if len(digits) == 1 {
			return digits + expStr(e10)
		}
		return digits[:1] + "." + digits[1:] + expStr(e10+len(digits)-1)
	case 2: // plain decimal when the exponent is moderate
		if e10 >= 0 && e10 < 40 {
			return digits + strings.Repeat("0", e10)
		}
		if e10 < 0 && -e10 < 1200 {
			k := -e10
			if k >= len(digits) {
				return "0." + strings.Repeat("0", k-len(digits)) + digits
			}
			return digits[:len(digits)-k] + "." + digits[len(digits)-k:]
		}
		return digits + expStr(e10)
	default: // decimal point somewhere inside, exponent adjusted
		if len(digits) < 2 {
			return digits + ".0" + expStr(e10)
		}
		p := 1 + g.R.Intn(len(digits)-1)
		return digits[:p] + "." + digits[p:] + expStr(e10+len(digits)-p)
	}
}

// perturb an exact digit string: exact, just above (append ...0001), just below (decrement, append 9s),
// padded with zeros beyond the 800-digit buffer of the native fallback
func perturb(g *Gen, d *big.Int, e10 int) (string, int) {
	s := d.String()
	switch g.R.Intn(6) {
	case 0:
		return s, e10
	case 1:
		k := 1 + g.R.Intn(40)
		return s + strings.Repeat("0", k-1) + "1", e10 - k
	case 2:
		k := 1 + g.R.Intn(40)
		dd := new(big.Int).Sub(d, big.NewInt(1))
		return dd.String() + strings.Repeat("9", k), e10 - k
	case 3: // far beyond 800 digits
		k := 800 + g.R.Intn(400)
		if len(s) < k {
			pad := k - len(s)
			return s + strings.Repeat("0", pad) + "1", e10 - pad - 1
		}
		return s + "1", e10 - 1
	case 4:
		k := 780 + g.R.Intn(60)
		if len(s) < k {
			pad := k - len(s)
			dd := new(big.Int).Sub(d, big.NewInt(1))
			return dd.String() + strings.Repeat("9", pad), e10 - pad
		}
		return s, e10
	default:
		k := 1 + g.R.Intn(30)
		return s + strings.Repeat("0", k), e10 - k
	}
}

func randDigits(g *Gen, n int) string {
	b := make([]byte, n)
	for i := range b {
		b[i] = byte('0' + g.R.Intn(10))
	}
	if b[0] == '0' {
		b[0] = byte('1' + g.R.Intn(9))
	}
	return string(b)
}

func randF64Bits(g *Gen) uint64 {
	switch g.R.Intn(5) {
	case 0: // subnormal or first binades
		return g.R.Uint64() & 0x003fffffffffffff
	case 1: // top binades
		return 0x7fd0000000000000 | g.R.Uint64()&0x001fffffffffffff
	case 2: // mantissa all ones / all zeros
		b := uint64(g.R.Intn(2046)) << 52
		if g.R.Intn(2) == 0 {
			b |= 1<<52 - 1 - uint64(g.R.Intn(3))
		} else {
			b |= uint64(g.R.Intn(3))
		}
		return b
	default:
		return g.R.Uint64() & 0x7fffffffffffffff % 0x7ff0000000000000
	}
}

func randF32Bits(g *Gen) uint32 {
	switch g.R.Intn(5) {
	case 0:
		return g.R.Uint32() & 0x01ffffff
	case 1:
		return 0x7e800000 | g.R.Uint32()&0x00ffffff
	case 2:
		b := uint32(g.R.Intn(254)) << 23
		if g.R.Intn(2) == 0 {
			b |= 1<<23 - 1 - uint32(g.R.Intn(3))
		} else {
			b |= uint32(g.R.Intn(3))
		}
		return b
	default:
		return g.R.Uint32() & 0x7fffffff % 0x7f800000
	}
}

var intBoundaryStrs = func() []string {
	var out []string
	add := func(b *big.Int) {
		for d := int64(-2); d <= 2; d++ {
			x := new(big.Int).Add(b, big.NewInt(d))
			out = append(out, x.String())
			out = append(out, new(big.Int).Neg(x).String())
		}
	}
	for _, w := range []uint{7, 8, 15, 16, 31, 32, 63, 64} {
		add(new(big.Int).Lsh(big.NewInt(1), w))
	}
	for _, p := range []int64{18, 19, 20, 21} {
		add(new(big.Int).Exp(big.NewInt(10), big.NewInt(p), nil))
	}
	out = append(out, "0", "-0", "1", "-1", "9", "10", "99", "100", "1844674407370955161", "18446744073709551610", "18446744073709551619",
		"922337203685477580", "9223372036854775800", "9223372036854775809", "-9223372036854775809", "-9223372036854775810",
		"99999999999999999999", "-99999999999999999999", "184467440737095516150", "340282366920938463463374607431768211456")
	return out
}()

// an integer value n written with a fraction or exponent part (value unchanged)
func intAsNonInt(g *Gen, s string) string {
	neg := strings.HasPrefix(s, "-")
	if neg {
		s = s[1:]
	}
	var r string
	switch g.R.Intn(7) {
	case 0:
		r = s + ".0"
	case 1:
		r = s + "e0"
	case 2:
		r = s + "E+0"
	case 3:
		r = s + ".000e0"
	case 4:
		r = s + "0e-1"
	case 5:
		if len(s) > 1 {
			r = s[:1] + "." + s[1:] + "e" + strconv.Itoa(len(s)-1)
		} else {
			r = s + ".0e0"
		}
	default:
		t := strings.TrimRight(s, "0")
		if t == "" {
			r = "0e5"
		} else {
			r = t + "e" + strconv.Itoa(len(s)-len(t))
		}
	}
	if neg {
		r = "-" + r
	}
	return r
}

// one hard literal and the tag of the class it came from
func hardLiteral(g *Gen) (string, string) {
	switch g.R.Intn(16) {
	case 0, 1: // halfway between adjacent float64 (exact / nudged / long)
		m, e := exactF64(randF64Bits(g))
		d, e10 := midpoint(m, e)
		s, x := perturb(g, d, e10)
		return renderDec(g, s, x), "half64"
	case 2, 3: // halfway between adjacent float32
		m, e := exactF32(randF32Bits(g))
		d, e10 := midpoint(m, e)
		s, x := perturb(g, d, e10)
		return renderDec(g, s, x), "half32"
	case 4: // an exactly representable float64 / float32, full expansion, perturbed
		var d *big.Int
		var e10 int
		if g.R.Intn(2) == 0 {
			m, e := exactF64(randF64Bits(g))
			d, e10 = exactDecimal(m, e)
		} else {
			m, e := exactF32(randF32Bits(g))
			d, e10 = exactDecimal(m, e)
		}
		if d.Sign() == 0 {
			return "0", "zero"
		}
		s, x := perturb(g, d, e10)
		return renderDec(g, s, x), "exact"
	case 5: // 17..30 significant digits near a double
		f := math.Float64frombits(randF64Bits(g))
		s := strconv.FormatFloat(f, 'e', 16+g.R.Intn(14), 64)
		return s, "digits17_30"
	case 6: // random digit strings of any length, random exponent
		n := 1 + g.R.Intn(40)
		if g.R.Intn(6) == 0 {
			n = 700 + g.R.Intn(1500)
		}
		ex := 0
		switch g.R.Intn(4) {
		case 0:
			ex = g.R.Intn(700) - 350 - n
		case 1:
			ex = -n + g.R.Intn(5) - 2
		case 2:
			ex = g.R.Intn(40) - 20
		}
		return renderDec(g, randDigits(g, n), ex), "random"
	case 7: // exponent extremes
		exps := []string{"308", "309", "310", "-323", "-324", "-325", "-326", "400", "-400", "1000", "-1000", "99999", "-99999",
			"2147483647", "-2147483648", "4294967296", "-4294967296", "9223372036854775807", "-9223372036854775808",
			"18446744073709551616", "99999999999999999999999", "-99999999999999999999999", "+0", "-0", "0000", "+00308"}
		mant := []string{"1", "0", "9", "1.7976931348623157", "1.7976931348623158", "1.7976931348623159", "4.9", "4.94065645841246544", "2.4703282292062327",
			"2.4703282292062328", "2.2250738585072014", "2.2250738585072011", "2.2250738585072012", "0.0", "0.000001", "123456789012345678901234567890",
			"3.4028234663852886", "3.4028235677973366", "3.4028235677973367", "1.401298464324817", "7.006492321624085", "7.006492321624086", "1.1754943508222875", "17976931348623157", "0.17976931348623157"}
		return mant[g.R.Intn(len(mant))] + "e" + exps[g.R.Intn(len(exps))], "expext"
	case 8: // around the overflow thresholds of both widths
		var d *big.Int
		var e10 int
		if g.R.Intn(2) == 0 {
			d, e10 = midpoint(new(big.Int).SetUint64(1<<53-1), 971)
		} else {
			d, e10 = midpoint(new(big.Int).SetUint64(1<<24-1), 104)
		}
		s, x := perturb(g, d, e10)
		return renderDec(g, s, x), "ovfl"
	case 9: // zeros in many spellings
		z := []string{"0", "-0", "0.0", "-0.0", "0e0", "-0e0", "0E-0", "-0e+5", "0.000", "-0.000e-10", "0e400", "-0e400", "0e-400", "0.0e99999999999", "-0e-99999999999"}
		return z[g.R.Intn(len(z))], "zero"
	case 10, 11: // integer boundaries
		return intBoundaryStrs[g.R.Intn(len(intBoundaryStrs))], "intbound"
	case 12: // integer values spelled with fraction / exponent
		return intAsNonInt(g, intBoundaryStrs[g.R.Intn(len(intBoundaryStrs))]), "int_as_nonint"
	case 13: // random integers of random length
		n := 1 + g.R.Intn(24)
		s := randDigits(g, n)
		if g.R.Intn(3) == 0 {
			s = "-" + s
		}
		return s, "randint"
	case 14: // non-integers near integers
		s := strconv.FormatInt(g.R.Int63n(1000)-500, 10)
		fr := []string{".5", ".1", ".9", ".0000000000000000000001", ".99999999999999999999999", "e-1", ".5e0", ".25"}
		return s + fr[g.R.Intn(len(fr))], "nonint"
	default: // short everyday decimals
		f := float64(g.R.Intn(2000000)-1000000) / math.Pow(10, float64(g.R.Intn(8)))
		return strconv.FormatFloat(f, 'f', -1, 64), "short"
	}
}

func kindsFor(g *Gen, tag string) []string {
	switch tag {
	case "intbound", "randint", "int_as_nonint", "nonint", "zero":
		ks := append([]string{}, numIntKinds...)
		ks = append(ks, "any_useint64", "f64", "f32", "any")
		return ks
	case "half32":
		return []string{"f32", "f64", "any"}
	case "half64", "ovfl", "expext", "exact", "digits17_30":
		ks := []string{"f64", "f32", "any", "any_useint64"}
		ks = append(ks, numAllKinds[g.R.Intn(len(numAllKinds))])
		return ks
	}
	return []string{"f64", "f32", numAllKinds[g.R.Intn(len(numAllKinds))], numAllKinds[g.R.Intn(len(numAllKinds))]}
}

var badLits = []string{"", "-", "+", "+1", "01", "-01", "00", "-00", "0123", "1.", "-1.", ".5", "-.5", "1.e3", "1e", "1e+", "1e-", "1E", "e5", "1.5.5",
	"1e5.5", "1e5e5", "--1", "-+1", "1-", "1+", "1e--5", "1e+-5", "0x10", "0X1p3", "1_000", "Inf", "-Inf", "+Inf", "NaN", "nan", "inf", "Infinity",
	"1f", "1d", "1L", "0b1", "0o7", "١", "1,5", "0.", "0e", "-0.", "-0e", "0.e1", "00.5", "-e5", "1e05x", "0x", "1.0f", ".", "-.", "e", "E1",
	"9223372036854775807L", "1.7976931348623157e308e", "0.0.0", "1..0", "1ee5", "1eE5", "−1"}

func mutate(g *Gen, s string) string {
	alpha := "0123456789+-.eE"
	if g.R.Intn(6) == 0 {
		alpha = "xX_aIN,pn"
	}
	b := []byte(s)
	switch g.R.Intn(3) {
	case 0: // insert
		p := g.R.Intn(len(b) + 1)
		b = append(b[:p], append([]byte{alpha[g.R.Intn(len(alpha))]}, b[p:]...)...)
	case 1: // delete
		if len(b) > 0 {
			p := g.R.Intn(len(b))
			b = append(b[:p], b[p+1:]...)
		}
	default: // replace
		if len(b) > 0 {
			b[g.R.Intn(len(b))] = alpha[g.R.Intn(len(alpha))]
		}
	}
	return string(b)
}

func f64Patterns(g *Gen) uint64 {
	sign := uint64(g.R.Intn(2)) << 63
	switch g.R.Intn(12) {
	case 0: // powers of two and neighbours, every exponent
		b := uint64(g.R.Intn(2047)) << 52
		return sign | (b + uint64(g.R.Intn(5)) - 2)
	case 1: // powers of ten and neighbours
		f, _ := strconv.ParseFloat("1e"+strconv.Itoa(g.R.Intn(633)-324), 64)
		return sign | (math.Float64bits(f) + uint64(g.R.Intn(5)) - 2)
	case 2: // notation thresholds
		t := []uint64{0x3eb0c6f7a0b5ed8d, 0x444b1ae4d6e2ef50}[g.R.Intn(2)]
		return sign | (t + uint64(g.R.Intn(7)) - 3)
	case 3: // integers
		return sign | math.Float64bits(float64(g.R.Int63n(1<<uint(1+g.R.Intn(62)))))
	case 4: // 2^53 region and large integers
		return sign | math.Float64bits(float64(uint64(1)<<53+uint64(g.R.Intn(9))-4))
	case 5: // subnormals
		return sign | g.R.Uint64()&(1<<uint(1+g.R.Intn(52))-1)
	case 6: // short decimals
		f := float64(g.R.Intn(2000000)) / math.Pow(10, float64(g.R.Intn(30)))
		return sign | math.Float64bits(f)
	case 7: // few-digit decimals with large exponents
		f, _ := strconv.ParseFloat(strconv.Itoa(1+g.R.Intn(999))+"e"+strconv.Itoa(g.R.Intn(620)-320), 64)
		if math.IsInf(f, 0) {
			f = math.MaxFloat64
		}
		return sign | math.Float64bits(f)
	case 8: // specials
		s := []uint64{0, 1, 2, 0x000fffffffffffff, 0x0010000000000000, 0x7fefffffffffffff, 0x7ff0000000000000, 0x7ff8000000000000, 0x7ff0000000000001,
			0x3ff0000000000000, 0x3fb999999999999a, 0x4340000000000000, 0x433fffffffffffff, 0x44b52d02c7e14af6}
		return sign | s[g.R.Intn(len(s))]
	case 9: // float32 values widened (often printed differently as float64)
		return sign | math.Float64bits(float64(math.Float32frombits(g.R.Uint32()&0x7fffffff%0x7f800000)))
	default:
		return g.R.Uint64()
	}
}

func f32Patterns(g *Gen) uint32 {
	sign := uint32(g.R.Intn(2)) << 31
	switch g.R.Intn(10) {
	case 0:
		b := uint32(g.R.Intn(255)) << 23
		return sign | (b + uint32(g.R.Intn(5)) - 2)
	case 1:
		f, _ := strconv.ParseFloat("1e"+strconv.Itoa(g.R.Intn(84)-45), 32)
		return sign | (math.Float32bits(float32(f)) + uint32(g.R.Intn(5)) - 2)
	case 2:
		t := []uint32{0x358637bd, 0x6258d727}[g.R.Intn(2)]
		return sign | (t + uint32(g.R.Intn(7)) - 3)
	case 3:
		return sign | math.Float32bits(float32(g.R.Int63n(1<<uint(1+g.R.Intn(40)))))
	case 4:
		return sign | g.R.Uint32()&(1<<uint(1+g.R.Intn(23))-1)
	case 5:
		f := float32(float64(g.R.Intn(2000000)) / math.Pow(10, float64(g.R.Intn(20))))
		return sign | math.Float32bits(f)
	case 6:
		s := []uint32{0, 1, 2, 0x007fffff, 0x00800000, 0x7f7fffff, 0x7f800000, 0x7fc00000, 0x3f800000, 0x3dcccccd, 0x4b800000, 0x4b7fffff}
		return sign | s[g.R.Intn(len(s))]
	default:
		return g.R.Uint32()
	}
}

func init() {
	// combined streams for the quick tier (fewer worker start-ups): decode = atof + bad, encode = ftoa + itoa
	registerGen("c19.dec", func(g *Gen) {
		n := g.N
		g.N = n * 3 / 4
		gens["c19.atof"](g)
		g.N = n / 4
		gens["c19.bad"](g)
		g.N = n
	})
	registerGen("c19.enc", func(g *Gen) {
		n := g.N
		g.N = n * 2 / 3
		gens["c19.ftoa"](g)
		g.N = n / 3
		gens["c19.itoa"](g)
		g.N = n
	})
	registerGen("c19.atof", func(g *Gen) {
		for n := 0; n < g.N; {
			lit, tag := hardLiteral(g)
			if g.R.Intn(3) == 0 && !strings.HasPrefix(lit, "-") {
				lit = "-" + lit
			}
			for _, k := range kindsFor(g, tag) {
				g.Emit("atof", k, hexArg([]byte(lit)))
				n++
			}
		}
	})
	registerGen("c19.bad", func(g *Gen) {
		for _, s := range badLits {
			for _, k := range []string{"f64", "f32", "i64", "u64", "num", "any", "any_usenumber", "any_useint64", "i8", "u8"} {
				g.Emit("atof", k, hexArg([]byte(s)))
			}
		}
		for n := 0; n < g.N; n++ {
			var s string
			if g.R.Intn(3) == 0 {
				s = badLits[g.R.Intn(len(badLits))]
			} else {
				s, _ = hardLiteral(g)
				if len(s) > 60 {
					s = s[:20+g.R.Intn(40)]
				}
			}
			for k := 1 + g.R.Intn(2); k > 0; k-- {
				s = mutate(g, s)
			}
			g.Emit("atof", numAllKinds[g.R.Intn(len(numAllKinds))], hexArg([]byte(s)))
		}
	})
	registerGen("c19.ftoa", func(g *Gen) {
		// every float64 exponent once, both signs of zero, the float32 exponents
		for e := uint64(0); e < 2047; e++ {
			g.Emit("ftoa", "f64", fmt.Sprintf("%016x", e<<52))
		}
		for e := uint32(0); e < 255; e++ {
			g.Emit("ftoa", "f32", fmt.Sprintf("%08x", e<<23))
			g.Emit("ftoa", "f32", fmt.Sprintf("%08x", e<<23|0x7fffff))
		}
		g.Emit("ftoa", "f64", "8000000000000000")
		g.Emit("ftoa", "f32", "80000000")
		for n := 0; n < g.N; n++ {
			if n%3 == 0 {
				g.Emit("ftoa", "f32", fmt.Sprintf("%08x", f32Patterns(g)))
			} else {
				g.Emit("ftoa", "f64", fmt.Sprintf("%016x", f64Patterns(g)))
			}
		}
		if g.Tier == "thorough" {
			// contiguous float32 slices
			for k := 0; k < 24; k++ {
				start := g.R.Uint32()
				for i := uint32(0); i < 1<<13; i++ {
					g.Emit("ftoa", "f32", fmt.Sprintf("%08x", start+i))
				}
			}
		}
	})
	registerGen("c19.itoa", func(g *Gen) {
		emit := func(kind string, v *big.Int) {
			bits, uns, _ := intBits(kind)
			lo, hi := new(big.Int), new(big.Int)
			if uns {
				hi.Lsh(big.NewInt(1), uint(bits))
			} else {
				hi.Lsh(big.NewInt(1), uint(bits-1))
				lo.Neg(hi)
			}
			if v.Cmp(lo) >= 0 && v.Cmp(hi) < 0 {
				g.Emit("itoa", kind, v.String())
			}
		}
		for _, k := range numIntKinds {
			for _, s := range intBoundaryStrs {
				v, _ := new(big.Int).SetString(s, 10)
				emit(k, v)
			}
			for p := int64(0); p <= 20; p++ {
				t := new(big.Int).Exp(big.NewInt(10), big.NewInt(p), nil)
				for d := int64(-1); d <= 1; d++ {
					x := new(big.Int).Add(t, big.NewInt(d))
					emit(k, x)
					emit(k, new(big.Int).Neg(x))
				}
			}
		}
		for n := 0; n < g.N; n++ {
			k := numIntKinds[g.R.Intn(len(numIntKinds))]
			v := new(big.Int).SetUint64(g.R.Uint64() >> uint(g.R.Intn(64)))
			if g.R.Intn(2) == 0 {
				v.Neg(v)
			}
			bits, uns, _ := intBits(k)
			if uns {
				v.Abs(v)
				v.And(v, new(big.Int).Sub(new(big.Int).Lsh(big.NewInt(1), uint(bits)), big.NewInt(1)))
			} else {
				m := new(big.Int).Lsh(big.NewInt(1), uint(bits-1))
				v.Rem(v, m)
			}
			emit(k, v)
		}
	})
}
