//go:build hook_ir

package main

// irdis <T> <pv 0|1> [<MaxInlineDepth> [<EncOnlyOmitNull 0|1>]]
//
// The program text of the REAL encoder compiler for type T (hook internal/encoder/verif_hook.go through
// verifhook/encoder.go), laid out as ir.Program.Disassemble prints it, with the operands that carry Go type
// names or addresses canonicalised so that the Lean model (Model/IrCompile.lean `disasm`) can print the SAME text:
//   * type operands (recurse / map_iter / slice_next) are printed in the type-expression grammar of types.go;
//     OP_recurse also shows its pv operand (`, pv=1`), which the real text omits
//   * OP_text shows its operand as hex (`text              <hex>`) instead of a Go-quoted string
//   * the address inside the %#v form of operand-less instructions is printed as PTR, and an
//     `unsupported type` instruction is followed by ` ; <type expression>`
// answer: sonic=ok  n=<instructions>  dis=<hex of the text>   |  sonic=err:<...>
// Needs hooks/internal/encoder/verif_hook.go + hooks/verifhook/encoder.go in the tree.

import (
	"encoding/hex"
	"encoding/json"
	"fmt"
	"reflect"
	"regexp"
	"strconv"
	"strings"

	"github.com/bytedance/sonic/verifhook"
)

var irPtrRe = regexp.MustCompile(`\(unsafe\.Pointer\)\(0x[0-9a-f]+\)`)

// library types are registered by several files' init functions: look the name up at call time
func irLibName(t reflect.Type) (string, bool) {
	for n, lt := range libTypes {
		if lt == t {
			return n, true
		}
	}
	return "", false
}

// irTypeSx prints a reflect.Type in the grammar of types.go, in the canonical spelling of the Lean side
// (`Go.typeToString`: int = i64, uint = uptr = u64; []uint8 = bytes)
func irTypeSx(t reflect.Type) string {
	if n, ok := irLibName(t); ok {
		return "(lib " + n + ")"
	}
	switch t {
	case reflect.TypeOf(json.Number("")):
		return "num"
	case reflect.TypeOf(json.RawMessage(nil)):
		return "raw"
	}
	switch t.Kind() {
	case reflect.Bool:
		return "bool"
	case reflect.Int8:
		return "i8"
	case reflect.Int16:
		return "i16"
	case reflect.Int32:
		return "i32"
	case reflect.Int64, reflect.Int:
		return "i64"
	case reflect.Uint8:
		return "u8"
	case reflect.Uint16:
		return "u16"
	case reflect.Uint32:
		return "u32"
	case reflect.Uint64, reflect.Uint, reflect.Uintptr:
		return "u64"
	case reflect.Float32:
		return "f32"
	case reflect.Float64:
		return "f64"
	case reflect.String:
		return "str"
	case reflect.Interface:
		if t.NumMethod() == 0 {
			return "any"
		}
	case reflect.Slice:
		if t.Elem().Kind() == reflect.Uint8 {
			return "bytes"
		}
		return "(sl " + irTypeSx(t.Elem()) + ")"
	case reflect.Array:
		return "(arr " + strconv.Itoa(t.Len()) + " " + irTypeSx(t.Elem()) + ")"
	case reflect.Ptr:
		return "(ptr " + irTypeSx(t.Elem()) + ")"
	case reflect.Map:
		return "(map " + irTypeSx(t.Key()) + " " + irTypeSx(t.Elem()) + ")"
	case reflect.Struct:
		var b strings.Builder
		b.WriteString("(st")
		for i := 0; i < t.NumField(); i++ {
			f := t.Field(i)
			tag := "-"
			if v, ok := f.Tag.Lookup("json"); ok && v != "" {
				tag = hex.EncodeToString([]byte(v))
			}
			b.WriteString(" (f " + f.Name + " " + tag + " " + irTypeSx(f.Type) + ")")
		}
		b.WriteString(")")
		return b.String()
	}
	return "?" + t.String()
}

func irCanonLine(in verifhook.EncoderInstr) string {
	switch in.Op {
	case "recurse":
		return fmt.Sprintf("%-18s%s, pv=%d", in.Op, irTypeSx(in.Type), in.Vi)
	case "map_iter":
		return fmt.Sprintf("%-18s%s", in.Op, irTypeSx(in.Type))
	case "slice_next":
		return fmt.Sprintf("%-18sL_%d, %s", in.Op, in.Vi, irTypeSx(in.Type))
	case "marshal", "marshal_p", "marshal_text", "marshal_text_p":
		return fmt.Sprintf("%-18s%s", in.Op, irTypeSx(in.Type))
	case "text":
		return fmt.Sprintf("%-18s%s", in.Op, hexArg([]byte(in.Str)))
	case "unsupported type":
		return irPtrRe.ReplaceAllString(in.Text, "(unsafe.Pointer)(PTR)") + " ; " + irTypeSx(in.Type)
	}
	return irPtrRe.ReplaceAllString(in.Text, "(unsafe.Pointer)(PTR)")
}

func init() {
	registerOp("irdis", func(a []string) string {
		_, t := parseType(a[0])
		pv := a[1] == "1"
		depth, only := 3, false
		if len(a) > 2 {
			depth, _ = strconv.Atoi(a[2])
		}
		if len(a) > 3 {
			only = a[3] == "1"
		}
		prog, err := verifhook.EncoderCompile(t, pv, depth, only)
		if err != nil {
			msg := err.Error()
			if len(msg) > 60 {
				msg = msg[:60]
			}
			return "sonic=err:" + strings.Map(func(r rune) rune {
				if r == '\t' || r == '\n' {
					return ' '
				}
				return r
			}, msg)
		}
		// lay the canonical lines out along the real text (labels and the final `end` are the real ones)
		lines := strings.Split(prog.Disasm, "\n")
		k := 0
		for n, l := range lines {
			if (strings.HasPrefix(l, "L_") && strings.HasSuffix(l, ":")) || l == "\tend" {
				continue
			}
			lab := ""
			if strings.HasPrefix(l, "L_") { // "L_n:\n\t..." was split: cannot happen (the label has its own line)
				lab = l
			}
			_ = lab
			if k >= len(prog.Instrs) {
				return "sonic=err:disassembly has more lines than instructions"
			}
			if strings.TrimPrefix(l, "\t") != prog.Instrs[k].Text {
				return "sonic=err:line " + strconv.Itoa(k) + " of Program.Disassemble is not Instr.Disassemble"
			}
			lines[n] = "\t" + irCanonLine(prog.Instrs[k])
			k++
		}
		if k != len(prog.Instrs) {
			return "sonic=err:disassembly has fewer lines than instructions"
		}
		return "sonic=ok\tn=" + strconv.Itoa(k) + "\tdis=" + hexArg([]byte(strings.Join(lines, "\n")))
	})
}
