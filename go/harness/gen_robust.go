package main

// C07 generators.  Every random choice comes from g.R.
//
//   c07.fmt    hand-made error values: (size, pos) grid around the 16/32-byte excerpt window
//   c07.bytes  random bytes, grammar documents, single edits, every-prefix truncations  x  entry points
//   c07.deep   10^3 .. 10^7 levels of [ / {"a": / mixed, closed and unclosed  x  entry points
//   c07.big    64 KiB .. 1 MiB scalars, blanks, keys, wide containers  x  entry points
//   c07.mar    cyclic, deep, non-encodable and large Go values  x  encoder entry points

import (
	"fmt"
	"strings"
)

type rbG struct{ g *Gen }

func (r rbG) ws() string {
	n := 0
	switch r.g.R.Intn(10) {
	case 0:
		n = 1 + r.g.R.Intn(3)
	case 1:
		n = r.g.R.Intn(70)
	}
	var sb strings.Builder
	for i := 0; i < n; i++ {
		sb.WriteByte(" \t\r\n"[r.g.R.Intn(4)])
	}
	return sb.String()
}

var rbEscs = []string{`\"`, `\\`, `\/`, `\b`, `\f`, `\n`, `\r`, `\t`, `A`, `é`, `😀`, `\u0000`, `\u001f`, `\ud800`, `\udc00x`}

func (r rbG) strBody(maxLen int) string {
	n := r.g.R.Intn(maxLen + 1)
	var sb strings.Builder
	for sb.Len() < n {
		switch r.g.R.Intn(12) {
		case 0:
			sb.WriteString(rbEscs[r.g.R.Intn(len(rbEscs))])
		case 1:
			sb.WriteString([]string{"é", "中", "😀", " ", "<", ">", "&"}[r.g.R.Intn(7)])
		default:
			c := byte(0x20 + r.g.R.Intn(0x5f))
			if c == '"' || c == '\\' {
				c = 'x'
			}
			sb.WriteByte(c)
		}
	}
	return sb.String()
}

func (r rbG) str() string {
	m := 8
	switch r.g.R.Intn(8) {
	case 0:
		m = 100
	case 1:
		// SIMD block multiples
		return `"` + strings.Repeat("s", []int{15, 16, 17, 31, 32, 33, 63, 64, 65}[r.g.R.Intn(9)]) + `"`
	}
	return `"` + r.strBody(m) + `"`
}

func (r rbG) num() string {
	R := r.g.R
	switch R.Intn(12) {
	case 0:
		return "0"
	case 1:
		return "-0"
	case 2:
		return fmt.Sprintf("%d", R.Int63())
	case 3:
		return fmt.Sprintf("-%d", R.Int63n(1000))
	case 4:
		return fmt.Sprintf("%d.%d", R.Intn(100), R.Intn(1000))
	case 5:
		return fmt.Sprintf("%de%d", R.Intn(100), R.Intn(400))
	case 6:
		return fmt.Sprintf("%d.%dE-%d", R.Intn(10), R.Intn(100000), R.Intn(400))
	case 7:
		return fmt.Sprintf("%g", R.NormFloat64()*1e10)
	case 8:
		return "18446744073709551616"
	case 9:
		return "1e999"
	default:
		return fmt.Sprintf("%d", R.Intn(1000))
	}
}

var rbKeys = []string{"a", "b", "A", "id", "Name", "name", "x", "", "k\\u0061", "é", "c", "d", "e", "f", "h", "i", "j", "k", "l", "m", "n", "s", "t"}

func (r rbG) key() string {
	if r.g.R.Intn(5) == 0 {
		return r.str()
	}
	return `"` + rbKeys[r.g.R.Intn(len(rbKeys))] + `"`
}

func (r rbG) val(depth int) string {
	R := r.g.R
	k := R.Intn(10)
	if depth <= 0 && k >= 6 {
		k = R.Intn(6)
	}
	switch k {
	case 0:
		return "null"
	case 1:
		return "true"
	case 2:
		return "false"
	case 3, 4:
		return r.num()
	case 5:
		return r.str()
	case 6, 7:
		n := R.Intn(5)
		if R.Intn(20) == 0 {
			n = 17 + R.Intn(20)
		}
		var sb strings.Builder
		sb.WriteString("[" + r.ws())
		for i := 0; i < n; i++ {
			if i > 0 {
				sb.WriteString("," + r.ws())
			}
			sb.WriteString(r.val(depth-1) + r.ws())
		}
		sb.WriteString("]")
		return sb.String()
	default:
		n := R.Intn(5)
		if R.Intn(20) == 0 {
			n = 17 + R.Intn(20)
		}
		var sb strings.Builder
		sb.WriteString("{" + r.ws())
		for i := 0; i < n; i++ {
			if i > 0 {
				sb.WriteString("," + r.ws())
			}
			sb.WriteString(r.key() + r.ws() + ":" + r.ws() + r.val(depth-1) + r.ws())
		}
		sb.WriteString("}")
		return sb.String()
	}
}

func (r rbG) doc() string { return r.ws() + r.val(1+r.g.R.Intn(4)) + r.ws() }

const rbStruct = `{}[],:"\ 0-.eEtfn` + "\x00\x1f\x7f\xff\xc3\xe2\xf0"

func (r rbG) mutate(s string) string {
	R := r.g.R
	if len(s) == 0 {
		return "]"
	}
	b := []byte(s)
	i := R.Intn(len(b))
	switch R.Intn(8) {
	case 0:
		return string(append(b[:i:i], b[i+1:]...))
	case 1:
		return string(append(b[:i:i], append([]byte{rbStruct[R.Intn(len(rbStruct))]}, b[i:]...)...))
	case 2:
		b[i] = rbStruct[R.Intn(len(rbStruct))]
		return string(b)
	case 3:
		return string(b[:i])
	case 4:
		j := i + R.Intn(len(b)-i)
		return string(append(b[:j:j], b[i:]...))
	case 5:
		j := R.Intn(len(b))
		b[i], b[j] = b[j], b[i]
		return string(b)
	case 6:
		return string(b[i:])
	default:
		return s + []string{"x", "]", "}", ",", "1", "\"", " \x00", "\xef\xbb\xbf", " ]", "\n}", " [", "{"}[R.Intn(12)]
	}
}

func (r rbG) randomBytes() string {
	R := r.g.R
	n := R.Intn(80)
	if R.Intn(10) == 0 {
		n = R.Intn(600)
	}
	b := make([]byte, n)
	for i := range b {
		switch R.Intn(3) {
		case 0:
			b[i] = byte(R.Intn(256))
		case 1:
			b[i] = rbStruct[R.Intn(len(rbStruct))]
		default:
			b[i] = byte(0x20 + R.Intn(0x5f))
		}
	}
	return string(b)
}

// a value stream: several documents one after another, sometimes with a stray closer
func (r rbG) streamDoc() string {
	R := r.g.R
	var sb strings.Builder
	n := 1 + R.Intn(4)
	for i := 0; i < n; i++ {
		switch R.Intn(12) {
		case 0:
			sb.WriteString("]")
		case 1:
			sb.WriteString("}")
		default:
			sb.WriteString(r.val(2))
		}
		sb.WriteString([]string{" ", "\n", "", ",", "  "}[R.Intn(5)])
	}
	return sb.String()
}

func (r rbG) pickAPIs(all []string, k int) []string {
	out := make([]string, 0, k)
	for i := 0; i < k; i++ {
		out = append(out, all[r.g.R.Intn(len(all))])
	}
	return out
}

var rbHandDocs = []string{
	``, ` `, `]`, `}`, ` ] `, `1 ]`, `1 ] 2`, `[`, `{`, `[0`, `{"a"`, `{"a":`, `{"a":1`, `{"a":1,`, `"`, `"\`, `"\u`, `"\ud800`, `-`, `1.`, `1e`, `tru`, `nul`, `fals`,
	`[1,`, `[1 `, `[[[[`, `{"a":{"a":{"a":`, `"abc`, `"x":1`, `[1]]`, `{}}`, `1 x`, `1 2`, "\x00", "\xff", `{"a":1}x`, `[,]`, `{,}`, `[1,]`, `{"a":1,}`, `{"a" 1}`, `{1:2}`,
	`"` + strings.Repeat("x", 32), `"` + strings.Repeat("x", 64), `[` + strings.Repeat(" ", 64), `{"a":"b"`, `{"s":"1`, `{"s":"x"}`, `{"n":"!!"}`, `{"n":"QQ=`, `{"l":[1,2,3]}`,
	`{"c":[1,"x"]}`, `{"e":{"e":{"a":"x"}}}`, `{"m":{"k":{"a":[]}}}`, `{"id":256}`, `{"id":-1}`, `{"f":1e999}`, `{"k":"x"}`, `{"t":1}`, `{"j":`, `{"h":`, `{"h":[}`, `{"i":{`,
	// minimal inputs of findings that need the alternative decoder (SONIC_USE_OPTDEC) or ConfigStd
	`null"`, `60"`, "{\"a\":\"\xc3\\\"&\"}", "\"\xc3", `{""1`, `{"a" 1}`, `"do="`, `{"n":"QUJDRA="}`, `[tru]`, `{"a":tru}`, "\r\n\n\n\r\r\t",
}

func init() {
	registerGen("c07.fmt", func(g *Gen) {
		sizes := []int{0, 1, 2, 3, 15, 16, 17, 18, 30, 31, 32, 33, 34, 35, 47, 48, 49, 50, 63, 64, 65, 66, 88, 100, 1000}
		if g.Tier != "quick" {
			sizes = nil
			for s := 0; s <= 120; s++ {
				sizes = append(sizes, s)
			}
			sizes = append(sizes, 1000, 4096, 65536)
		}
		for _, kind := range []string{"dec", "mis", "ast"} {
			for _, s := range sizes {
				step := 1
				if g.Tier == "quick" && s > 3 {
					step = 3
				}
				for p := -20; p <= s+56; p += step {
					if s >= 1000 && p > 40 && p < s-40 {
						continue
					}
					g.Emit("fmterr", kind, itoa(s), itoa(p))
				}
			}
		}
		for i := 0; i < g.N; i++ {
			s := g.R.Intn(200)
			p := g.R.Intn(s+120) - 40
			if g.R.Intn(20) == 0 {
				// far outside, but small enough that a dot line of that length is harmless
				// (the ast formatter repeats "." about |pos| times: hand-made values only)
				p = (g.R.Intn(2)*2 - 1) * (1 << uint(8+g.R.Intn(9)))
			}
			g.Emit("fmterr", []string{"dec", "mis", "ast"}[g.R.Intn(3)], itoa(s), itoa(p))
		}
	})

	registerGen("c07.bytes", func(g *Gen) {
		r := rbG{g}
		all := rbAPIs()
		// hand-written truncations and stray closers on every entry point
		for _, d := range rbHandDocs {
			for _, a := range all {
				g.Emit("crash", a, hexArg([]byte(d)))
			}
		}
		// every prefix of a few grammar documents on a rotating subset
		np := 3
		if g.Tier != "quick" {
			np = 40
		}
		for k := 0; k < np; k++ {
			d := r.doc()
			if len(d) > 300 {
				d = d[:300]
			}
			for i := 0; i <= len(d); i++ {
				for _, a := range r.pickAPIs(all, 3) {
					g.Emit("crash", a, hexArg([]byte(d[:i])))
				}
			}
		}
		for i := 0; i < g.N; i++ {
			var d string
			switch g.R.Intn(10) {
			case 0, 1:
				d = r.randomBytes()
			case 2:
				d = r.doc()
			case 3:
				d = r.streamDoc()
			case 4:
				d = r.mutate(r.mutate(r.doc()))
			default:
				d = r.mutate(r.doc())
			}
			k := 4
			for _, a := range r.pickAPIs(all, k) {
				g.Emit("crash", a, hexArg([]byte(d)))
			}
		}
	})

	registerGen("c07.deep", func(g *Gen) {
		all := rbAPIs()
		type shape struct{ open, core, cl string }
		shapes := []shape{
			{"[", "1", "]"}, {`{"a":`, "1", "}"}, {"[", "", ""}, {`{"a":`, "", ""}, {`[{"a":`, "null", "}]"}, {`{"b":[`, "", ""}, {`{"e":`, `{"a":"x"}`, "}"}, {`{"x":[`, `{}`, "]}"},
			{"[", "", "]"},
		}
		emit := func(a string, s shape, d int) {
			g.Emit("deep", a, hexArg([]byte(s.open)), itoa(d), hexArg([]byte(s.core)), hexArg([]byte(s.cl)))
		}
		fast := []string{"valid", "valids", "validstd", "skip", "um:iface:def", "um:iface:std", "ums:struct:def", "um:recl:def", "um:recm:fast", "um:recs:def", "um:raw:def", "um:um:def",
			"um:node:def", "get", "raw_check", "raw_loadall", "raw_iface", "raw_marshal", "raw_foreach", "node_unmarshal", "preorder", "streamall", "dec_opts:0", "dec_opts:7", "loads", "searcher"}
		medium := append([]string{"gets", "getopt", "loadsnum", "parse", "parsenolazy", "raw_load", "raw_ifacenum", "raw_ifacenode", "raw_walk", "raw_conv", "raw_iter", "raw_sort", "raw_map",
			"raw_arr", "raw_edit", "rawcr_walk", "preordernum", "stream7", "streamstd", "dec_multi", "um:struct:std", "um:map:def", "um:slice:def", "um:int:def", "um:str:def", "um:arr:def",
			"um:recl:std", "um:recm:def", "um:recs:fast", "ums:iface:fast"}, fast...)
		// boundary depths of the three budgets (4096) on every entry point
		for _, a := range all {
			for _, s := range shapes[:4] {
				emit(a, s, 1000)
			}
		}
		quickSlow := map[string]bool{"getopt": true, "gets": true, "get": true, "searcher": true, "loads": true, "loadsnum": true, "parsenolazy": true, "parse": true}
		bd := []int{4094, 4095, 4096, 4097, 4098, 65536}
		if g.Tier == "quick" {
			bd = []int{4095, 4096, 4097}
		}
		for _, d := range bd {
			for _, a := range medium {
				for _, s := range shapes[:2] {
					emit(a, s, d)
				}
			}
		}
		if g.Tier == "quick" {
			for _, a := range fast {
				if quickSlow[a] {
					continue
				}
				for _, s := range shapes[:6] {
					emit(a, s, 10000)
				}
			}
			for _, a := range []string{"valid", "skip", "um:iface:def", "um:recl:def", "raw_loadall", "preorder", "streamall"} {
				for _, s := range shapes[:4] {
					emit(a, s, 100000)
				}
			}
			// (the fatal stack-overflow class needs ~10^6 levels and about a minute per case: thorough tier only)
			for _, a := range []string{"valid", "um:iface:def", "skip", "raw_loadall"} {
				emit(a, shapes[0], 1000000)
				emit(a, shapes[3], 1000000)
			}
			return
		}
		for _, a := range all {
			for _, s := range shapes {
				emit(a, s, 10000)
			}
		}
		// quadratic in the depth (re-skipping the rest of the document per level, 1-byte reads): 10^4 is their limit
		slow := map[string]bool{"parsenolazy": true, "getopt": true, "gets": true, "searcher": true, "stream1": true, "stream7": true, "parse": true, "raw_walk": true,
			"rawcr_walk": true, "raw_load": true, "raw_conv": true, "raw_edit": true, "raw_iter": true, "raw_map": true, "raw_arr": true, "raw_sort": true, "dec_multi": true}
		for _, a := range medium {
			if slow[a] {
				continue
			}
			for _, s := range shapes {
				emit(a, s, 100000)
			}
		}
		crashy := map[string]bool{"loads": true, "loadsnum": true, "preorder": true, "preordernum": true, "get": true}
		for _, a := range medium {
			if slow[a] || crashy[a] {
				continue
			}
			for _, s := range shapes[:6] {
				emit(a, s, 1000000)
			}
		}
		// the Go-recursive traversals: below and above the depth at which the goroutine stack limit is hit
		emit("loads", shapes[0], 500000)
		emit("preorder", shapes[1], 500000)
		// (each fatal case costs about a minute: growing, scanning and dumping a 512 MiB stack)
		emit("loads", shapes[1], 1000000)
		emit("loadsnum", shapes[4], 600000)
		emit("preorder", shapes[0], 3000000)
		for _, a := range []string{"valid", "validstd", "skip", "um:iface:def", "um:recl:def", "um:recm:fast", "um:raw:def", "um:node:def", "raw_check", "raw_loadall",
			"node_unmarshal", "streamall", "dec_opts:3"} {
			for _, s := range shapes[:4] {
				emit(a, s, 10000000)
			}
		}
	})

	// unmarshal entry points only (run under the alternative decoder configurations)
	registerGen("c07.deepum", func(g *Gen) {
		for _, a := range rbAPIs() {
			if !strings.HasPrefix(a, "um") {
				continue
			}
			for _, d := range []int{1000, 4095, 4096, 4097, 100000, 1000000} {
				if d > 4097 && !strings.HasSuffix(a, ":def") {
					continue
				}
				for _, sh := range [][3]string{{"[", "1", "]"}, {`{"a":`, "1", "}"}, {"[", "", ""}, {`{"a":`, "", ""}, {`{"e":`, `{"a":"x"}`, "}"}} {
					g.Emit("deep", a, hexArg([]byte(sh[0])), itoa(d), hexArg([]byte(sh[1])), hexArg([]byte(sh[2])))
				}
			}
		}
	})

	bigGen := func(g *Gen, thorough bool) {
		all := rbAPIs()
		apis := []string{"valid", "validstd", "skip", "um:iface:def", "um:iface:std", "um:struct:def", "um:str:def", "um:num:def", "um:f64:def", "um:bytes:def", "um:int:fast", "um:raw:def",
			"um:map:def", "get", "raw_iface", "raw_conv", "loads", "preorder", "streamall", "stream7", "dec_opts:2", "dec_opts:5", "node_unmarshal", "raw_sort", "raw_walk", "raw_unsetpop"}
		if thorough {
			apis = all
		}
		for _, k := range rbBigKinds {
			for _, a := range apis {
				g.Emit("big", a, k, "65536")
			}
		}
		if !thorough {
			return
		}
		// chunked readers, repeated Decode and node editing are quadratic in the input size (slow, not
		// hanging): they get the 64 KiB inputs only; 1 MiB (+31: not a SIMD block multiple) for the rest
		for _, k := range rbBigKinds {
			for _, a := range all {
				if a == "stream1" || a == "stream7" || a == "dec_multi" || a == "raw_edit" {
					continue
				}
				if strings.HasPrefix(a, "um") && !strings.HasSuffix(a, ":def") {
					continue
				}
				g.Emit("big", a, k, itoa(1<<20+31))
			}
		}
	}
	registerGen("c07.big", func(g *Gen) { bigGen(g, g.Tier != "quick") })
	registerGen("c07.bigq", func(g *Gen) { bigGen(g, false) })

	// destination / source TYPES: nesting depth of the type around the compile-time budget (4096), and pointer
	// types that only ever point to pointer types.  (slice / map nestings between ~12 and 4095 levels are left out:
	// compiling them takes time exponential in the depth - reported separately, each case would burn its deadline)
	registerGen("c07.types", func(g *Gen) {
		if g.Tier == "quick" {
			// (a never-ending compile costs its 8 s deadline until the guard is in the tree: one of them here)
			g.Emit("rtype", "unmnull", "selfptr", "0")
			g.Emit("rtype", "mar", "selfptr", "0")
			g.Emit("rtype", "preenc", "selfholder", "0")
			for _, op := range []string{"mar", "unmnull", "pre"} {
				for _, k := range []string{"arr", "ptr", "slice", "map", "arrptr"} {
					for _, d := range []int{1, 5} {
						g.Emit("rtype", op, k, itoa(d))
					}
				}
				for _, d := range []int{1, 5, 100} {
					g.Emit("rtype", op, "struct", itoa(d))
					g.Emit("rtype", op, "ptrstruct", itoa(d))
				}
			}
			// beyond the compile-time nesting budget (the cheap ones; the rest in the thorough tier)
			g.Emit("rtype", "mar", "ptr", "5000")
			g.Emit("rtype", "unmnull", "slice", "5000")
			g.Emit("rtype", "pre", "ptr", "5000")
			g.Emit("rtype", "mar", "slice", "4097")
			return
		}
		// pointer types that only point to pointer types, as destination, element and field
		for _, c := range [][2]string{{"unmnull", "selfptr"}, {"unm1", "selfptr"}, {"pre", "selfptr"}, {"mar", "selfptr"}, {"marstd", "selfptr"}, {"preenc", "selfptr"},
			{"unmnull", "mutptr"}, {"predec", "mutptr"}, {"mar", "mutptr"}, {"unmobj", "selfholder"}, {"mar", "selfholder"}, {"preenc", "selfholder"},
			{"unmnull", "selfslice"}, {"mar", "selfslice"}, {"unm1", "selfmap"}, {"marstd", "selfmap"}} {
			g.Emit("rtype", c[0], c[1], "0")
		}
		for _, op := range rbTypeOps {
			for _, k := range rbTypeKinds {
				depths := []int{1, 2, 3, 5, 7, 8}
				heavy := op == "mar" || op == "unmnull" || op == "pre"
				switch k {
				case "arr", "ptr", "arrptr":
					depths = append(depths, 100)
					if heavy {
						depths = append(depths, 1000)
					}
					if k == "ptr" && (op == "mar" || op == "unm1") {
						depths = append(depths, 4095, 4096)
					}
				case "struct", "ptrstruct":
					depths = []int{1, 2, 3, 5, 100}
					if heavy {
						depths = append(depths, 1000)
					}
				}
				// beyond the compile-time nesting budget (compiling these takes seconds each)
				if k != "struct" && k != "ptrstruct" && heavy {
					depths = append(depths, 5000)
					if k == "ptr" || k == "slice" {
						depths = append(depths, 4097, 8192)
					}
				}
				for _, d := range depths {
					g.Emit("rtype", op, k, itoa(d))
				}
			}
		}
	})

	registerGen("c07.mar", func(g *Gen) {
		depths := []int{0, 1, 2, 100, 1000, 2048, 4096, 4097, 10000}
		if g.Tier != "quick" {
			depths = append(depths, 3, 2047, 2049, 4094, 4095, 1365, 1366, 100000, 1000000)
		}
		for _, k := range rbMarKinds {
			for _, c := range rbMarCfgs {
				// quick tier: the deep and cyclic values under four of the eight encoder entry points
				if g.Tier == "quick" && (strings.HasPrefix(k, "deep_") || strings.HasPrefix(k, "cyc_")) && !(c == "def" || c == "std" || c == "stream" || c == "enc_all") {
					continue
				}
				switch {
				case k == "nonenc":
					for i := 0; i < 42; i++ {
						g.Emit("rmar", k, itoa(i), c)
					}
				case k == "keys_prefix":
					for d := 2; d <= 40; d++ {
						g.Emit("rmar", k, itoa(d), c)
					}
					for _, d := range []int{64, 100, 257, 1000} {
						g.Emit("rmar", k, itoa(d), c)
					}
				case strings.HasPrefix(k, "cyc_"):
					for _, d := range []int{0, 1, 2, 5, 5000} {
						g.Emit("rmar", k, itoa(d), c)
					}
				case strings.HasPrefix(k, "deep_"):
					for _, d := range depths {
						// indented output of a d-deep value has ~d*d bytes
						if c == "indent" && (d > 4097 || (g.Tier == "quick" && d > 1000)) {
							continue
						}
						// the very deep values: a few kinds and configurations only (building and walking them dominates the time)
						if d >= 1000000 && !((k == "deep_ptr" || k == "deep_slice" || k == "deep_map" || k == "deep_recl") && (c == "def" || c == "std")) {
							continue
						}
						if d >= 100000 && d < 1000000 && !(c == "def" || c == "std" || c == "stream" || c == "enc_all") {
							continue
						}
						g.Emit("rmar", k, itoa(d), c)
					}
					if g.Tier == "quick" && (k == "deep_ptr" || k == "deep_slice") && c != "indent" {
						g.Emit("rmar", k, "100000", c)
					}
				default:
					for _, d := range []int{0, 1, 1000, 1 << 14, 1 << 17, 1 << 20} {
						// quick tier: the 128 Ki-element values under the default configuration only
						if g.Tier == "quick" && (d > 1<<17 || (d == 1<<17 && c != "def")) {
							continue
						}
						g.Emit("rmar", k, itoa(d), c)
					}
				}
			}
		}
	})
}
