package main

import (
	"encoding/hex"
	"strconv"
)

// hexArg / unhexArg: "-" stands for the empty byte string on the wire.
func hexArg(b []byte) string {
	if len(b) == 0 {
		return "-"
	}
	return hex.EncodeToString(b)
}

func unhexArg(s string) []byte {
	if s == "-" {
		return nil
	}
	b, err := hex.DecodeString(s)
	if err != nil {
		panic("bad hex arg")
	}
	return b
}

func b01(b bool) string {
	if b {
		return "1"
	}
	return "0"
}

func itoa(n int) string { return strconv.Itoa(n) }
