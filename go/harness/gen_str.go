package main

// Generators of property C20.  Every random choice comes from g.R.
//
//   c20.quote    raw byte strings            -> quote
//   c20.unq      escaped string bodies       -> unq          (valid and malformed, separately produced)
//   c20.html     JSON-ish text + dst prefix  -> html
//   c20.utf8     byte strings                -> utf8v, utf8c
//   c20.marshal  raw byte strings            -> mstr <shape> <cfg>
//   c20.unmarshal escaped bodies             -> ustr <shape> <cfg>

import (
	"fmt"
)

// randBytes: byte strings that mix ASCII, characters with special treatment in
// quoting/escaping, multi-byte UTF-8 and ill-formed UTF-8.
func randBytes(g *Gen, maxLen int) []byte {
	return randBytesN(g, g.R.Intn(maxLen+1))
}

var specialBytes = []byte{'"', '\\', '<', '>', '&', '\n', 0, 0x1f, 0x7f, '\t', '\r', 8, 12, '/', 0x20, 0xe2, 0x80, 0xa8, 0xa9}
var utf8Pieces = []string{"\u00e9", "\u4e2d", "\U0001f600", "\u2028", "\u2029", "\ufffd", "\xed\xa0\x80", "\xf4\x90\x80\x80", "\xc0\x80", "\xe0\x80",
	"\xe2\x80", "\xe2", "\xe2\x80\xa7", "\xe2\x80\xaa", "\xe2\x81\xa8", "\xf0\x90\x80\x80", "\xf4\x8f\xbf\xbf", "\xef\xbf\xbf", "\xdf\xbf", "\xc2\x80",
	"\xe0\xa0\x80", "\xed\x9f\xbf", "\xee\x80\x80", "\xf0\x8f\xbf\xbf", "\xf5\x80\x80\x80", "\xff", "\xfe", "\xc1\xbf", "\x80", "\xbf"}

// randBytesN: about n bytes (a multi-byte piece at the end may be cut to hit n exactly)
func randBytesN(g *Gen, n int) []byte {
	b := make([]byte, 0, n+4)
	mode := g.R.Intn(6)
	for len(b) < n {
		k := g.R.Intn(10)
		if mode == 0 { // mostly plain: long runs for the vector loops
			if k < 9 {
				k = 9
			}
		}
		if mode == 1 && k > 2 { // dense in special characters: destination fills up
			k = 1
		}
		switch k {
		case 0:
			b = append(b, byte(g.R.Intn(256)))
		case 1:
			b = append(b, specialBytes[g.R.Intn(len(specialBytes))])
		case 2:
			b = append(b, utf8Pieces[g.R.Intn(len(utf8Pieces))]...)
		default:
			b = append(b, byte(0x20+g.R.Intn(0x5f)))
		}
	}
	return b[:n]
}

// interesting single bytes: boundaries of every class the routines distinguish
var edgeBytes = []byte{0, 1, 8, 9, 10, 12, 13, 0x1f, 0x20, '"', '&', '/', '0', '9', '<', '>', 'A', 'F', 'G', '\\', 'a', 'b', 'f', 'g', 'n', 'r', 't', 'u', 0x7f,
	0x80, 0x8f, 0x90, 0x9f, 0xa0, 0xa8, 0xa9, 0xbf, 0xc0, 0xc1, 0xc2, 0xdf, 0xe0, 0xe2, 0xed, 0xef, 0xf0, 0xf4, 0xf5, 0xff}

// all strings of one byte and of two bytes (thorough: all 65,536 pairs; quick: every pair of edge bytes
// plus a stride sample of the rest)
func smallStrings(g *Gen, emit func([]byte)) {
	emit(nil)
	for c := 0; c < 256; c++ {
		emit([]byte{byte(c)})
	}
	if g.Tier == "thorough" {
		for a := 0; a < 256; a++ {
			for b := 0; b < 256; b++ {
				emit([]byte{byte(a), byte(b)})
			}
		}
		return
	}
	for _, a := range edgeBytes {
		for _, b := range edgeBytes {
			emit([]byte{a, b})
		}
	}
	off := g.R.Intn(53)
	for k := off; k < 65536; k += 53 {
		emit([]byte{byte(k >> 8), byte(k)})
	}
}

// every length 0..300 (every residue modulo 16 and 32, several times), random content
func lengthSweep(g *Gen, emit func([]byte)) {
	for n := 0; n <= 300; n++ {
		emit(randBytesN(g, n))
	}
}

// `piece` placed at every offset of a 32-byte block (and the block behind it) inside plain filler, for
// total lengths around the vector widths
func positionSweep(g *Gen, pieces [][]byte, emit func([]byte)) {
	totals := []int{31, 32, 33, 48, 63, 64, 65, 96, 100}
	for _, p := range pieces {
		for pos := 0; pos < 66; pos++ {
			total := totals[g.R.Intn(len(totals))]
			if total < pos+len(p) {
				total = pos + len(p) + g.R.Intn(3)
			}
			b := make([]byte, 0, total)
			for len(b) < pos {
				b = append(b, byte('a'+g.R.Intn(26)))
			}
			b = append(b, p...)
			for len(b) < total {
				b = append(b, byte('a'+g.R.Intn(26)))
			}
			emit(b)
		}
	}
}

func rawPieces() [][]byte {
	ps := [][]byte{}
	for _, c := range []byte{'"', '\\', 0, '\n', '\t', '\r', 0x1f, '<', '>', '&', 0x7f, 0x80, 0xff} {
		ps = append(ps, []byte{c})
	}
	for _, s := range []string{"\u2028", "\u2029", "\xe2\x80", "\xe2", "\u00e9", "\U0001f600", "\xed\xa0\x80", "\"\"", "\\\"", "\x00\x01\x02\x03\x04\x05\x06\x07"} {
		ps = append(ps, []byte(s))
	}
	return ps
}

// long inputs: the destination of Quote / HTMLEscape is grown several times, vector loops run long
func longStrings(g *Gen, emit func([]byte)) {
	sizes := []int{1000, 4097, 9000}
	if g.Tier == "thorough" {
		sizes = append(sizes, 20000, 70001)
	}
	for _, n := range sizes {
		emit(randBytesN(g, n))
		d := make([]byte, n) // nothing but characters that expand 6x
		for i := range d {
			d[i] = []byte{0, '"', '<', 0x1f, '\\', '&'}[g.R.Intn(6)]
		}
		emit(d)
	}
}

/* ---------- escaped bodies (input of unquote) ---------- */

const hexLower = "0123456789abcdef"
const hexUpper = "0123456789ABCDEF"

func hex4(g *Gen, v int) string {
	d := hexLower
	out := make([]byte, 4)
	for i := 0; i < 4; i++ {
		if g.R.Intn(3) == 0 {
			d = hexUpper
		} else {
			d = hexLower
		}
		out[i] = d[(v>>(12-4*uint(i)))&15]
	}
	return string(out)
}

// a string body that denotes the (valid UTF-8) text t, with randomly chosen escape forms
func escapeBody(g *Gen, t string) []byte {
	out := []byte{}
	for _, r := range t {
		switch {
		case r == '"':
			out = append(out, `\"`...)
		case r == '\\':
			out = append(out, `\\`...)
		case r == '/' && g.R.Intn(2) == 0:
			out = append(out, `\/`...)
		case r == '\b' && g.R.Intn(2) == 0:
			out = append(out, `\b`...)
		case r == '\f' && g.R.Intn(2) == 0:
			out = append(out, `\f`...)
		case r == '\n' && g.R.Intn(2) == 0:
			out = append(out, `\n`...)
		case r == '\r' && g.R.Intn(2) == 0:
			out = append(out, `\r`...)
		case r == '\t' && g.R.Intn(2) == 0:
			out = append(out, `\t`...)
		case r < 0x20 || g.R.Intn(8) == 0:
			if r >= 0x10000 {
				v := int(r) - 0x10000
				out = append(out, `\u`+hex4(g, 0xd800+(v>>10))+`\u`+hex4(g, 0xdc00+(v&0x3ff))...)
			} else {
				out = append(out, `\u`+hex4(g, int(r))...)
			}
		default:
			out = append(out, string(r)...)
		}
	}
	return out
}

var textPieces = []string{"a", "b", " ", "x", "0", "\"", "\\", "/", "\b", "\f", "\n", "\r", "\t", "\x00", "\x1f", "<", ">", "&", "\u00e9", "\u4e2d", "\U0001f600", "\u2028", "\u2029",
	"\ufffd", "\U00010000", "\U0010ffff", "\ud7ff", "\ue000", "\uffff", "\x7f", "\u0080", "\u07ff", "\u0800"}

func randText(g *Gen, n int) string {
	s := ""
	for len(s) < n {
		if g.R.Intn(3) == 0 {
			s += textPieces[g.R.Intn(len(textPieces))]
		} else {
			s += string(rune(0x20 + g.R.Intn(0x5f)))
		}
	}
	return s
}

var surrogateEdges = []int{0x0000, 0x0041, 0x007f, 0x0080, 0x07ff, 0x0800, 0xd7ff, 0xd800, 0xd801, 0xdabc, 0xdbfe, 0xdbff, 0xdc00, 0xdc01, 0xdead, 0xdffe, 0xdfff, 0xe000, 0xfffd, 0xffff}

// well-formed bodies (every backslash starts a legal escape), including every pairing of code units on
// the surrogate boundaries
func validBodies(g *Gen, n int, emit func([]byte)) {
	for _, a := range surrogateEdges {
		emit([]byte(`\u` + hex4(g, a)))
		emit([]byte(`x\u` + hex4(g, a) + `y`))
		for _, b := range surrogateEdges {
			emit([]byte(`\u` + hex4(g, a) + `\u` + hex4(g, b)))
			emit([]byte(`\u` + hex4(g, a) + `\u` + hex4(g, b) + `\u` + hex4(g, surrogateEdges[g.R.Intn(len(surrogateEdges))])))
			emit([]byte(`\u` + hex4(g, a) + `z\u` + hex4(g, b)))
			emit([]byte(`\u` + hex4(g, a) + `\n\u` + hex4(g, b)))
		}
	}
	// all 65,536 quads (thorough) or a stride sample
	step := 97
	if g.Tier == "thorough" {
		step = 1
	}
	for v := g.R.Intn(step); v < 65536; v += step {
		emit([]byte(fmt.Sprintf(`\u%04x`, v)))
		if v >= 0xd800 && v < 0xdc00 {
			emit([]byte(fmt.Sprintf(`\u%04x\u%04X`, v, 0xdc00+g.R.Intn(0x400))))
		}
	}
	for _, e := range []string{`\"`, `\\`, `\/`, `\b`, `\f`, `\n`, `\r`, `\t`} {
		emit([]byte(e))
		emit([]byte(e + e))
		emit([]byte("a" + e + "b"))
	}
	for i := 0; i < n; i++ {
		m := 40
		if i%8 == 0 {
			m = 300
		}
		emit(escapeBody(g, randText(g, g.R.Intn(m+1))))
	}
	// every length, escapes at every block offset
	for l := 0; l <= 300; l += 1 + g.R.Intn(2) {
		b := escapeBody(g, randText(g, l))
		emit(b)
	}
	ps := [][]byte{}
	for _, s := range []string{`\n`, `\"`, `\\`, `\u0041`, `\u00e9`, `\u4e2d`, `\ud83d\ude00`, `\ud800`, `\udc00`, `\ud800\ud800`, `\ud800x`, `\/`} {
		ps = append(ps, []byte(s))
	}
	positionSweep(g, ps, emit)
}

// malformed bodies: truncated escapes, illegal escape letters, bad hex digits, surrogate halves with a
// broken second escape; alone and at every block offset
func malformedBodies(g *Gen, n int, emit func([]byte)) {
	for c := 0; c < 256; c++ { // every byte after a backslash
		emit([]byte{'\\', byte(c)})
		emit([]byte{'a', '\\', byte(c), 'b', 'c', 'd', 'e'})
	}
	for pos := 0; pos < 4; pos++ { // every byte at every hex position
		for c := 0; c < 256; c++ {
			q := []byte(`\u00e9`)
			q[2+pos] = byte(c)
			emit(q)
			q2 := []byte(`\ud83d\ude00`)
			q2[8+pos] = byte(c)
			emit(q2)
		}
	}
	trunc := []string{`\`, `\u`, `\u1`, `\u12`, `\u123`, `\ud800\`, `\ud800\u`, `\ud800\ud`, `\ud800\udc0`, `\ud800\udc`, `\ud800\x`, `\ud800\n`,
		`\ud800\u12g4`, `\udbff\udbff\udbff`, `\ud800A`, `\x41`, `\U0041`, `\ `, "\\\x00", `\u00zz`, `\u+123`, `\u 123`, `\u-123`, `\u00e`, `\'`, `\a`, `\v`, `\0`, `\e`}
	ps := [][]byte{}
	for _, s := range trunc {
		emit([]byte(s))
		emit([]byte("abc" + s))
		emit([]byte(s + "abc"))
		ps = append(ps, []byte(s))
	}
	positionSweep(g, ps, emit)
	// tails: a truncated escape at the very end of strings of every length
	for l := 0; l < 70; l++ {
		b := escapeBody(g, randText(g, l))
		emit(append(b, trunc[g.R.Intn(12)]...))
	}
	// random mutations of valid bodies
	for i := 0; i < n; i++ {
		b := escapeBody(g, randText(g, g.R.Intn(60)))
		if len(b) == 0 {
			b = []byte(`\n`)
		}
		for k := 0; k <= g.R.Intn(3); k++ {
			switch g.R.Intn(4) {
			case 0:
				b[g.R.Intn(len(b))] = byte(g.R.Intn(256))
			case 1:
				p := g.R.Intn(len(b) + 1)
				b = append(b[:p:p], append([]byte{'\\'}, b[p:]...)...)
			case 2:
				b = b[:g.R.Intn(len(b)+1)]
				if len(b) == 0 {
					b = []byte(`\`)
				}
			case 3:
				p := g.R.Intn(len(b))
				b = append(b[:p:p], b[p+1:]...)
				if len(b) == 0 {
					b = []byte(`\u`)
				}
			}
		}
		emit(b)
	}
}

// escape once more: the body of a literal whose content is the literal `"`+b+`"` (the `,string` form)
func escapeAgain(b []byte) []byte {
	out := make([]byte, 0, len(b)+8)
	for _, c := range b {
		if c == '"' || c == '\\' {
			out = append(out, '\\')
		}
		out = append(out, c)
	}
	return out
}

func init() {
	registerGen("c20.quote", func(g *Gen) {
		emit := func(b []byte) { g.Emit("quote", hexArg(b)) }
		smallStrings(g, emit)
		lengthSweep(g, emit)
		positionSweep(g, rawPieces(), emit)
		longStrings(g, emit)
		for i := 0; i < g.N; i++ {
			m := 100
			if i%10 == 0 {
				m = 300
			}
			emit(randBytes(g, m))
		}
	})

	registerGen("c20.unq", func(g *Gen) {
		emit := func(b []byte) { g.Emit("unq", hexArg(b)) }
		smallStrings(g, emit)
		validBodies(g, g.N, emit)
		lengthSweep(g, emit) // raw bytes: whatever is not a backslash is copied
	})
	registerGen("c20.unqbad", func(g *Gen) {
		emit := func(b []byte) { g.Emit("unq", hexArg(b)) }
		malformedBodies(g, g.N, emit)
		if g.Tier == "thorough" { // backslash in front of every pair
			for a := 0; a < 256; a++ {
				for b := 0; b < 256; b++ {
					emit([]byte{'\\', byte(a), byte(b)})
				}
			}
		}
	})

	registerGen("c20.html", func(g *Gen) {
		emitWith := func(spare int, dst, src []byte) { g.Emit("html", itoa(spare), hexArg(dst), hexArg(src)) }
		spareFor := func(src []byte) int {
			switch g.R.Intn(8) {
			case 0:
				return 0
			case 1:
				return g.R.Intn(8)
			case 2:
				return len(src)
			case 3:
				return len(src) + 63
			case 4:
				return len(src) + 64
			case 5:
				return len(src) + 65
			case 6:
				return len(src)*6 + 70
			}
			return g.R.Intn(2*len(src) + 80)
		}
		emit := func(src []byte) {
			// a prefix short enough for the growth rule of spec.go:131 (see known finding C20-html-long-prefix)
			dst := randBytesN(g, g.R.Intn(60))
			emitWith(spareFor(src), dst, src)
		}
		smallStrings(g, emit)
		lengthSweep(g, emit)
		ps := [][]byte{}
		for _, s := range []string{"<", ">", "&", "\u2028", "\u2029", "\xe2\x80", "\xe2", "\xe2\x80\xa7", "\xe2\x80\xaa", "\xe2\x81\xa8", "\xe2\xe2\x80\xa8", "<>&", "\xa8", "\xe2\x80\xa8\xe2\x80\xa9"} {
			ps = append(ps, []byte(s))
		}
		positionSweep(g, ps, emit)
		longStrings(g, emit)
		for i := 0; i < g.N; i++ {
			emit(randBytes(g, 200))
		}
		// JSON documents, the intended input
		for i := 0; i < g.N/4; i++ {
			doc := []byte(`{"a<b":["` + string(escapeBody(g, randText(g, g.R.Intn(40)))) + `",1.5e3,true,null],"&":"\u2028"}`)
			emit(doc)
		}
		// long destination prefixes (the growth rule computes the new capacity from len(src) alone)
		for i := 0; i < 40; i++ {
			src := randBytes(g, 20)
			dl := 60 + g.R.Intn(300)
			emitWith(spareFor(src), randBytesN(g, dl), src)
		}
		for _, dl := range []int{64, 65, 66, 67, 100, 1000} {
			emitWith(0, randBytesN(g, dl), []byte("a"))
			emitWith(0, randBytesN(g, dl), []byte("<"))
			emitWith(0, randBytesN(g, dl), nil)
			emitWith(64, randBytesN(g, dl), []byte("a"))
			emitWith(65, randBytesN(g, dl), []byte("a"))
		}
	})

	registerGen("c20.utf8", func(g *Gen) {
		repls := []string{"\ufffd", `\ufffd`, "?", "", "<?>", "\xff"}
		emit := func(b []byte) {
			g.Emit("utf8v", hexArg(b))
			dst := randBytesN(g, g.R.Intn(5))
			g.Emit("utf8c", hexArg([]byte(repls[g.R.Intn(len(repls))])), hexArg(dst), hexArg(b))
		}
		smallStrings(g, emit)
		// three- and four-byte sequences around every boundary of the well-formedness table
		lead3 := []byte{0xdf, 0xe0, 0xe1, 0xec, 0xed, 0xee, 0xef, 0xf0}
		c1 := []byte{0x7f, 0x80, 0x8f, 0x90, 0x9f, 0xa0, 0xbf, 0xc0}
		c2 := []byte{0x00, 0x7f, 0x80, 0xbf, 0xc0, 0xff}
		for _, a := range lead3 {
			for _, b := range c1 {
				for _, c := range c2 {
					emit([]byte{a, b, c})
					emit([]byte{a, b, c, 'x'})
				}
			}
		}
		lead4 := []byte{0xef, 0xf0, 0xf1, 0xf3, 0xf4, 0xf5, 0xf7, 0xf8, 0xff}
		for _, a := range lead4 {
			for _, b := range c1 {
				for _, c := range c2 {
					for _, d := range c2 {
						emit([]byte{a, b, c, d})
					}
				}
			}
		}
		lengthSweep(g, emit)
		ps := [][]byte{}
		for _, s := range []string{"\u00e9", "\u4e2d", "\U0001f600", "\xff", "\x80", "\xc0\x80", "\xed\xa0\x80", "\xf4\x90\x80\x80", "\xe2\x80", "\xf0\x9f\x98", "\xf0\x9f", "\xf0", "\xc3"} {
			ps = append(ps, []byte(s))
		}
		positionSweep(g, ps, emit)
		// truncated sequences at the very end, every length
		for l := 0; l < 70; l++ {
			b := []byte(randText(g, l))
			emit(append(b, ps[7+g.R.Intn(6)]...))
		}
		for i := 0; i < g.N; i++ {
			if i%3 == 0 {
				emit([]byte(randText(g, g.R.Intn(200))))
			} else {
				emit(randBytes(g, 200))
			}
		}
		longStrings(g, emit)
		// more ill-formed bytes than the position list of one native call holds (4096)
		bad := make([]byte, 9001)
		for i := range bad {
			bad[i] = []byte{0xff, 0x80, 'a', 0xc0}[g.R.Intn(4)]
		}
		emit(bad)
		allbad := make([]byte, 4097)
		for i := range allbad {
			allbad[i] = 0xff
		}
		emit(allbad)
		emit(allbad[:4096])
		emit(allbad[:4095])
		// valid bytes right behind the 4096*k-th ill-formed byte (the native call restarts there:
		// the copy cursor must restart with it)
		for _, k := range []int{1, 2} {
			for _, gap := range []string{"a", "abc", "\u00e9x", "0123456789abcdef0123456789abcdef"} {
				for _, pre := range []string{"", "p", "pq\xff"} {
					b := []byte(pre)
					n := 0
					for _, c := range b {
						if c == 0xff {
							n++
						}
					}
					for n < 4096*k {
						b = append(b, 0xff)
						n++
					}
					b = append(b, gap...)
					b = append(b, 0xff, 0x80)
					b = append(b, "tail"...)
					emit(b)
				}
			}
		}
	})

	registerGen("c20.marshal", func(g *Gen) {
		shapes := []string{"v", "i", "f", "fs", "k", "a"}
		cfgs := []string{"d", "s", "h", "v"}
		k := 0
		emit := func(b []byte) {
			// rotate through all shape/configuration pairs
			sh := shapes[k%len(shapes)]
			cf := cfgs[(k/len(shapes))%len(cfgs)]
			k++
			if sh == "a" {
				cf = "d"
			}
			g.Emit("mstr", sh, cf, hexArg(b))
		}
		all := func(b []byte) {
			for _, sh := range shapes {
				for _, cf := range cfgs {
					if sh == "a" && cf != "d" {
						continue
					}
					g.Emit("mstr", sh, cf, hexArg(b))
				}
			}
		}
		all(nil)
		for c := 0; c < 256; c++ {
			all([]byte{byte(c)})
		}
		for _, s := range []string{"\u2028", "\u2029", "\xe2\x80", "<\xff>", "\"\\", "\xed\xa0\x80"} {
			all([]byte(s))
		}
		if g.Tier == "thorough" {
			smallStrings(g, emit)
		} else {
			for _, a := range edgeBytes {
				for _, b := range edgeBytes {
					emit([]byte{a, b})
				}
			}
		}
		lengthSweep(g, emit)
		positionSweep(g, rawPieces(), emit)
		longStrings(g, emit)
		for i := 0; i < g.N; i++ {
			emit(randBytes(g, 200))
		}
	})

	registerGen("c20.unmarshal", func(g *Gen) {
		shapes := []string{"v", "i", "f", "fs"}
		cfgs := []string{"d", "s", "u"}
		k := 0
		emit := func(b []byte) {
			sh := shapes[k%len(shapes)]
			cf := cfgs[(k/len(shapes))%len(cfgs)]
			k++
			if sh == "fs" {
				if g.R.Intn(8) != 0 {
					b = escapeAgain(b)
				}
			}
			g.Emit("ustr", sh, cf, hexArg(b))
		}
		for c := 0; c < 256; c++ {
			for _, sh := range shapes {
				for _, cf := range cfgs {
					g.Emit("ustr", sh, cf, hexArg([]byte{byte(c)}))
					g.Emit("ustr", sh, cf, hexArg([]byte{'\\', byte(c)}))
					if sh == "fs" {
						g.Emit("ustr", sh, cf, hexArg([]byte{'\\', '\\', byte(c)}))
						g.Emit("ustr", sh, cf, hexArg([]byte{'\\', '\\', '\\', byte(c)}))
					}
				}
			}
		}
		validBodies(g, g.N, emit)
		malformedBodies(g, g.N/2, emit)
		lengthSweep(g, emit)
		for _, n := range []int{1000, 9000} {
			emit(escapeBody(g, randText(g, n)))
		}
	})
}
