package main

// randBytes: byte strings that mix ASCII, characters with special treatment in
// quoting/escaping, multi-byte UTF-8 and ill-formed UTF-8.
func randBytes(g *Gen, maxLen int) []byte {
	n := g.R.Intn(maxLen + 1)
	b := make([]byte, 0, n+4)
	for len(b) < n {
		switch g.R.Intn(10) {
		case 0:
			b = append(b, byte(g.R.Intn(256)))
		case 1:
			b = append(b, []byte{'"', '\\', '<', '>', '&', '\n', 0, 0x1f, 0x7f, '\t', '\r', 8, 12, '/'}[g.R.Intn(14)])
		case 2:
			b = append(b, []byte([]string{"é", "中", "😀", " ", " ", "�", "\xed\xa0\x80", "\xf4\x90\x80\x80", "\xc0\x80", "\xe0\x80", "\xe2\x80", "\xe2"}[g.R.Intn(12)])...)
		default:
			b = append(b, byte(0x20+g.R.Intn(0x5f)))
		}
	}
	return b
}

func init() {
	registerGen("c20.quote", func(g *Gen) {
		// exhaustive single bytes first, then a length sweep, then random
		for c := 0; c < 256; c++ {
			g.Emit("quote", hexArg([]byte{byte(c)}))
		}
		g.Emit("quote", "-")
		for i := 0; i < g.N; i++ {
			m := 100
			if i%10 == 0 {
				m = 300
			}
			g.Emit("quote", hexArg(randBytes(g, m)))
		}
	})
}
