// Command vh is the correspondence harness: it generates protocol case lines
// (`vh gen`) and runs them against the real sonic in-process (`vh run`).
// One case per line in, one canonical result line out (tab separated key=value).
package main

import (
	"bufio"
	"fmt"
	"math/rand"
	"os"
	"runtime/debug"
	"strconv"
	"strings"
)

type opFunc func(a []string) string

var ops = map[string]opFunc{}

func registerOp(name string, f opFunc) {
	if _, dup := ops[name]; dup {
		panic("operation registered twice: " + name)
	}
	ops[name] = f
}

// Gen is handed to every generator: one PRNG, an emit function, the tier.
type Gen struct {
	R    *rand.Rand
	N    int
	Tier string
	out  *bufio.Writer
}

func (g *Gen) Emit(fields ...string) {
	g.out.WriteString(strings.Join(fields, "\t"))
	g.out.WriteByte('\n')
}

type genFunc func(g *Gen)

var gens = map[string]genFunc{}

func registerGen(name string, f genFunc) {
	if _, dup := gens[name]; dup {
		panic("generator registered twice: " + name)
	}
	gens[name] = f
}

func runOne(line string) (res string) {
	defer func() {
		if r := recover(); r != nil {
			msg := fmt.Sprint(r)
			if len(msg) > 120 {
				msg = msg[:120]
			}
			msg = strings.Map(func(r rune) rune {
				if r == '\t' || r == '\n' || r == '\r' {
					return ' '
				}
				return r
			}, msg)
			res = "sonic=PANIC\tpanic=" + msg
		}
	}()
	parts := strings.Split(line, "\t")
	f, ok := ops[parts[0]]
	if !ok {
		return "sonic=unsupported"
	}
	return f(parts[1:])
}

func main() {
	if len(os.Args) < 2 {
		fmt.Fprintln(os.Stderr, "usage: vh run | vh gen <name> <seed> <n> <tier>")
		os.Exit(2)
	}
	switch os.Args[1] {
	case "run":
		debug.SetMaxStack(512 << 20)
		in := bufio.NewReaderSize(os.Stdin, 1<<20)
		out := bufio.NewWriterSize(os.Stdout, 1<<16)
		for {
			line, err := in.ReadString('\n')
			if len(line) > 0 {
				line = strings.TrimRight(line, "\r\n")
				out.WriteString(runOne(line))
				out.WriteByte('\n')
				out.Flush()
			}
			if err != nil {
				break
			}
		}
	case "gen":
		if len(os.Args) < 6 {
			fmt.Fprintln(os.Stderr, "usage: vh gen <name> <seed> <n> <tier>")
			os.Exit(2)
		}
		f, ok := gens[os.Args[2]]
		if !ok {
			fmt.Fprintln(os.Stderr, "unknown generator", os.Args[2])
			os.Exit(2)
		}
		seed, _ := strconv.ParseInt(os.Args[3], 10, 64)
		n, _ := strconv.Atoi(os.Args[4])
		out := bufio.NewWriterSize(os.Stdout, 1<<20)
		f(&Gen{R: rand.New(rand.NewSource(seed)), N: n, Tier: os.Args[5], out: out})
		out.Flush()
	case "ops":
		for k := range ops {
			fmt.Println(k)
		}
	default:
		os.Exit(2)
	}
}
