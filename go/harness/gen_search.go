package main

// Generators for C14: valid documents built as trees (so that paths can be drawn from them)
// and rendered with adversarial spelling: escaped keys, duplicate keys, containers / strings
// full of brackets, quotes and backslashes as skipped siblings, white space everywhere,
// objects with more than 16 and more than 256 members, and sweeps that move such siblings
// across the 16/32/64-byte blocks of the vectorised skippers.

import (
	"fmt"
	"strings"
	"unicode/utf8"
)

type sjv struct {
	kind  byte // 'n' 't' 'f' '#' 's' '[' '{'
	lit   string
	elems []*sjv
	keys  []string // decoded keys (objects)
	klits []string // key literals as spelled, without quotes
}

type sgen struct {
	g       *Gen
	ws      int // 0 none, 1 sparse, 2 everywhere, 3 long runs
	surr    bool
	bigNums bool
}

var sKeyPool = []string{"a", "b", "c", "id", "name", "", "k\"q", "back\\slash", "é", "中", "😀", "x y", "a/b", "t\tb", "n\nl", "A", "key_that_is_longer_than_sixteen", "key_that_is_longer_than_thirty_two_bytes_long", "[", "}", "{\"a\":1}", "0", "-1"}

func (s *sgen) wsp() string {
	r := s.g.R
	switch s.ws {
	case 0:
		return ""
	case 1:
		if r.Intn(4) != 0 {
			return ""
		}
	}
	n := 1 + r.Intn(3)
	if s.ws == 3 && r.Intn(3) == 0 {
		n = []int{4, 5, 8, 15, 16, 17, 31, 32, 33, 64, 70}[r.Intn(11)]
	}
	var sb strings.Builder
	for i := 0; i < n; i++ {
		sb.WriteByte(" \t\n\r"[r.Intn(4)])
	}
	return sb.String()
}

// escapeStr spells a decoded string as the body of a JSON string literal; mode 0 = minimal,
// 1 = random optional escapes, 2 = everything possible as \uXXXX
func (s *sgen) escapeStr(v string, mode int) string {
	r := s.g.R
	var sb strings.Builder
	for _, c := range v {
		must := c < 0x20 || c == '"' || c == '\\'
		esc := must || mode == 2 || (mode == 1 && r.Intn(4) == 0)
		if !esc {
			sb.WriteRune(c)
			continue
		}
		short := map[rune]string{'"': `\"`, '\\': `\\`, '/': `\/`, '\b': `\b`, '\f': `\f`, '\n': `\n`, '\r': `\r`, '\t': `\t`}
		if sh, ok := short[c]; ok && (mode != 2 || r.Intn(2) == 0) {
			sb.WriteString(sh)
			continue
		}
		hexf := "\\u%04x"
		if r.Intn(2) == 0 {
			hexf = "\\u%04X"
		}
		if c >= 0x10000 {
			c -= 0x10000
			sb.WriteString(fmt.Sprintf(hexf, 0xd800+(c>>10)))
			sb.WriteString(fmt.Sprintf(hexf, 0xdc00+(c&0x3ff)))
		} else {
			sb.WriteString(fmt.Sprintf(hexf, c))
		}
	}
	return sb.String()
}

var sStrPool = []string{"", "x", "hello", "]", "}", "[", "{", "]}", "\"", "\\", "\\\"", "a\"]b", "{\"a\":[1,2]}", "\\\\", "\\\\\"", "}\\", "é中😀", "\n\t", "/", "\x00", "\x7f", "a,b", "a:b", " ", "null", "true", "1"}

func (s *sgen) randText() string {
	r := s.g.R
	if r.Intn(3) != 0 {
		return sStrPool[r.Intn(len(sStrPool))]
	}
	n := r.Intn(12)
	if r.Intn(6) == 0 {
		n = []int{13, 14, 15, 16, 17, 29, 30, 31, 32, 33, 61, 62, 63, 64, 65, 127, 128}[r.Intn(17)]
	}
	var sb strings.Builder
	for i := 0; i < n; i++ {
		switch r.Intn(8) {
		case 0:
			sb.WriteByte("\"\\]}[{,:"[r.Intn(8)])
		case 1:
			sb.WriteString([]string{"é", "中", "😀", "\n", "\t", "\x01", "/"}[r.Intn(7)])
		default:
			sb.WriteByte(byte('a' + r.Intn(26)))
		}
	}
	return sb.String()
}

func (s *sgen) strLit() string {
	mode := 0
	switch s.g.R.Intn(6) {
	case 0, 1:
		mode = 1
	case 2:
		mode = 2
	}
	body := s.escapeStr(s.randText(), mode)
	if s.surr && s.g.R.Intn(3) == 0 {
		body += []string{`\ud800`, `\udc00`, `\ud800x`, `\ud83dA`, `\udbff`}[s.g.R.Intn(5)]
	}
	return body
}

var sNumPool = []string{"0", "-0", "1", "-1", "12", "123456789", "9223372036854775807", "-9223372036854775808", "9223372036854775808", "-9223372036854775809", "1.5", "-0.0", "0.1", "1e2", "1E2", "1e+2", "1e-2", "2.5e3", "1.0", "100000000000000000000", "0.000001", "1e308", "5e-324", "3.141592653589793", "0e0", "1E-0", "4.9406564584124654e-324", "123456789012345678901234567890"}

func (s *sgen) numLit() string {
	r := s.g.R
	if s.bigNums && r.Intn(20) == 0 {
		return []string{"1e400", "-1e999", "1e309"}[r.Intn(3)]
	}
	if r.Intn(2) == 0 {
		return sNumPool[r.Intn(len(sNumPool))]
	}
	var sb strings.Builder
	if r.Intn(3) == 0 {
		sb.WriteByte('-')
	}
	if r.Intn(5) == 0 {
		sb.WriteByte('0')
	} else {
		sb.WriteByte(byte('1' + r.Intn(9)))
		for i := r.Intn(18); i > 0; i-- {
			sb.WriteByte(byte('0' + r.Intn(10)))
		}
	}
	if r.Intn(3) == 0 {
		sb.WriteByte('.')
		for i := 1 + r.Intn(6); i > 0; i-- {
			sb.WriteByte(byte('0' + r.Intn(10)))
		}
	}
	if r.Intn(4) == 0 {
		sb.WriteByte("eE"[r.Intn(2)])
		if r.Intn(2) == 0 {
			sb.WriteByte("+-"[r.Intn(2)])
		}
		sb.WriteString(itoa(r.Intn(30)))
	}
	return sb.String()
}

func (s *sgen) scalar() *sjv {
	switch s.g.R.Intn(8) {
	case 0:
		return &sjv{kind: 'n', lit: "null"}
	case 1:
		return &sjv{kind: 't', lit: "true"}
	case 2:
		return &sjv{kind: 'f', lit: "false"}
	case 3, 4:
		return &sjv{kind: '#', lit: s.numLit()}
	default:
		return &sjv{kind: 's', lit: s.strLit()}
	}
}

func (s *sgen) key() (string, string) {
	r := s.g.R
	k := sKeyPool[r.Intn(len(sKeyPool))]
	if r.Intn(5) == 0 {
		k = s.randText()
	}
	mode := 0
	switch r.Intn(5) {
	case 0:
		mode = 1
	case 1:
		mode = 2
	}
	return k, s.escapeStr(k, mode)
}

func (s *sgen) value(depth, width int) *sjv {
	r := s.g.R
	if depth <= 0 || r.Intn(3) == 0 {
		return s.scalar()
	}
	n := r.Intn(width + 1)
	if r.Intn(2) == 0 {
		v := &sjv{kind: '['}
		for i := 0; i < n; i++ {
			v.elems = append(v.elems, s.value(depth-1, width))
		}
		return v
	}
	v := &sjv{kind: '{'}
	for i := 0; i < n; i++ {
		k, kl := s.key()
		v.keys = append(v.keys, k)
		v.klits = append(v.klits, kl)
		v.elems = append(v.elems, s.value(depth-1, width))
	}
	return v
}

// bigObject: n members with mostly distinct keys, some duplicated, values of all kinds
func (s *sgen) bigObject(n int, depth int) *sjv {
	r := s.g.R
	v := &sjv{kind: '{'}
	for i := 0; i < n; i++ {
		k := "k" + itoa(i)
		if r.Intn(8) == 0 && i > 0 {
			k = v.keys[r.Intn(i)] // duplicate of an earlier key
		} else if r.Intn(10) == 0 {
			k, _ = s.key()
		}
		mode := 0
		if r.Intn(6) == 0 {
			mode = 1 + r.Intn(2)
		}
		v.keys = append(v.keys, k)
		v.klits = append(v.klits, s.escapeStr(k, mode))
		if r.Intn(4) == 0 {
			v.elems = append(v.elems, s.value(depth, 4))
		} else {
			v.elems = append(v.elems, s.scalar())
		}
	}
	return v
}

func (s *sgen) render(v *sjv, sb *strings.Builder) {
	switch v.kind {
	case 's':
		sb.WriteByte('"')
		sb.WriteString(v.lit)
		sb.WriteByte('"')
	case '[':
		sb.WriteByte('[')
		sb.WriteString(s.wsp())
		for i, e := range v.elems {
			if i > 0 {
				sb.WriteByte(',')
				sb.WriteString(s.wsp())
			}
			s.render(e, sb)
			sb.WriteString(s.wsp())
		}
		sb.WriteByte(']')
	case '{':
		sb.WriteByte('{')
		sb.WriteString(s.wsp())
		for i, e := range v.elems {
			if i > 0 {
				sb.WriteByte(',')
				sb.WriteString(s.wsp())
			}
			sb.WriteByte('"')
			sb.WriteString(v.klits[i])
			sb.WriteByte('"')
			sb.WriteString(s.wsp())
			sb.WriteByte(':')
			sb.WriteString(s.wsp())
			s.render(e, sb)
			sb.WriteString(s.wsp())
		}
		sb.WriteByte('}')
	default:
		sb.WriteString(v.lit)
	}
}

func (s *sgen) doc(v *sjv) string {
	var sb strings.Builder
	sb.WriteString(s.wsp())
	s.render(v, &sb)
	sb.WriteString(s.wsp())
	return sb.String()
}

func pathStr(p []string) string {
	if len(p) == 0 {
		return "-"
	}
	return strings.Join(p, "/")
}

// path draws a path from the tree: mostly existing prefixes, ended by one of the failure shapes
func (s *sgen) path(v *sjv) []string {
	r := s.g.R
	var p []string
	cur := v
	steps := r.Intn(5)
	for d := 0; d < steps; d++ {
		mode := r.Intn(12)
		switch cur.kind {
		case '{':
			switch {
			case mode == 0: // missing key
				p = append(p, "k:"+hexArg([]byte("missing"+itoa(r.Intn(3)))))
				return p
			case mode == 1: // wrong kind: index into an object
				p = append(p, "i:"+itoa(r.Intn(len(cur.elems)+2)))
				if r.Intn(2) == 0 {
					p = append(p, s.randElem())
				}
				return p
			case mode == 2: // a key from the pool, may or may not exist
				k := sKeyPool[r.Intn(len(sKeyPool))]
				p = append(p, "k:"+hexArg([]byte(k)))
				idx := -1
				for i, kk := range cur.keys {
					if kk == k {
						idx = i
						break
					}
				}
				if idx < 0 {
					return p
				}
				cur = cur.elems[idx]
			default:
				if len(cur.elems) == 0 {
					p = append(p, "k:"+hexArg([]byte("a")))
					return p
				}
				i := r.Intn(len(cur.elems))
				k := cur.keys[i]
				p = append(p, "k:"+hexArg([]byte(k)))
				// first occurrence is what must be found
				for j, kk := range cur.keys {
					if kk == k {
						i = j
						break
					}
				}
				cur = cur.elems[i]
			}
		case '[':
			switch {
			case mode == 0: // out of range
				p = append(p, "i:"+itoa(len(cur.elems)+r.Intn(3)))
				return p
			case mode == 1: // negative
				p = append(p, "i:-"+itoa(1+r.Intn(3)))
				return p
			case mode == 2: // wrong kind: key into an array
				p = append(p, "k:"+hexArg([]byte(sKeyPool[r.Intn(len(sKeyPool))])))
				return p
			default:
				if len(cur.elems) == 0 {
					p = append(p, "i:0")
					return p
				}
				i := r.Intn(len(cur.elems))
				p = append(p, "i:"+itoa(i))
				cur = cur.elems[i]
			}
		default: // scalar: any further step is of the wrong kind
			if mode < 6 {
				p = append(p, s.randElem())
			}
			return p
		}
	}
	return p
}

func (s *sgen) randElem() string {
	r := s.g.R
	if r.Intn(2) == 0 {
		return "i:" + itoa(r.Intn(3))
	}
	return "k:" + hexArg([]byte(sKeyPool[r.Intn(len(sKeyPool))]))
}

func (s *sgen) emitGet(doc string, p []string) {
	if !utf8.ValidString(doc) {
		return
	}
	s.g.Emit("get", "ff", hexArg([]byte(doc)), pathStr(p))
}

// mutate: one byte-level edit of a valid document (for the malformed Preorder stream)
func (s *sgen) mutate(doc string) string {
	r := s.g.R
	b := []byte(doc)
	if len(b) == 0 {
		return "{"
	}
	i := r.Intn(len(b))
	switch r.Intn(5) {
	case 0:
		return string(b[:i])
	case 1:
		return string(append(append([]byte{}, b[:i]...), b[i+1:]...))
	case 2:
		c := "{}[],:\"\\ tfn0-1.eE+x\x00"[r.Intn(21)]
		return string(append(append(append([]byte{}, b[:i]...), c), b[i:]...))
	case 3:
		c := "{}[],:\"\\ tfn0-1.eE+x\x00"[r.Intn(21)]
		nb := append([]byte{}, b...)
		nb[i] = c
		return string(nb)
	default:
		return doc + string("{}[],:\"x 1"[r.Intn(10)])
	}
}

func init() {
	// main stream: structured valid documents x paths
	registerGen("c14.get", func(g *Gen) {
		for i := 0; i < g.N; i++ {
			s := &sgen{g: g, ws: g.R.Intn(4)}
			var v *sjv
			switch {
			case i%50 == 7:
				v = s.bigObject(17+g.R.Intn(24), 2)
			case i%200 == 11:
				v = s.bigObject(257+g.R.Intn(60), 1)
			case i%50 == 13:
				// big object nested under a key and inside an array
				inner := s.bigObject(17+g.R.Intn(10), 1)
				v = &sjv{kind: '{', keys: []string{"a", "list"}, klits: []string{"a", "list"},
					elems: []*sjv{inner, {kind: '[', elems: []*sjv{s.scalar(), inner}}}}
			default:
				v = s.value(1+g.R.Intn(4), 1+g.R.Intn(6))
			}
			doc := s.doc(v)
			np := 1 + g.R.Intn(3)
			for k := 0; k < np; k++ {
				s.emitGet(doc, s.path(v))
			}
		}
	})

	// sweep: one awkward sibling of every length around the block sizes, then the target
	registerGen("c14.sweep", func(g *Gen) {
		s := &sgen{g: g, ws: 0}
		maxL := 140
		if g.Tier == "thorough" {
			maxL = 300
		}
		fillers := []func(n int) string{
			func(n int) string { return strings.Repeat("x", n) },
			func(n int) string { return strings.Repeat("]", n) },
			func(n int) string { return strings.Repeat("}", n) },
			func(n int) string { return strings.Repeat("\\\\", n/2) + strings.Repeat("x", n%2) },
			func(n int) string { return strings.Repeat("x", n-n%2) + strings.Repeat("\\\"", n%2) + strings.Repeat("\\\"", 1) },
			func(n int) string {
				if n < 2 {
					return strings.Repeat("y", n)
				}
				return strings.Repeat("y", n-2) + "\\\""
			},
			func(n int) string {
				if n < 3 {
					return strings.Repeat("z", n)
				}
				return strings.Repeat("z", n-3) + "\\\\]"
			},
			func(n int) string { return strings.Repeat("[{\\\"", n/4) + strings.Repeat("q", n%4) },
		}
		quick := g.Tier != "thorough"
		for L := 0; L <= maxL; L++ {
			for fi, f := range fillers {
				// quick: two of the eight fillers per length (rotating), one padding variant
				if quick && fi != L%8 && fi != (3*L+1)%8 {
					continue
				}
				body := f(L)
				for lead := 0; lead < 2; lead++ {
					if quick && lead != L%2 {
						continue
					}
					pad := strings.Repeat(" ", lead*g.R.Intn(70))
					// (1) string sibling before the target key
					doc := `{"s":"` + body + `",` + pad + `"t":[1,{"u":"v"}]}`
					s.emitGet(doc, []string{"k:" + hexArg([]byte("t")), "i:1", "k:" + hexArg([]byte("u"))})
					// (2) container sibling holding that string, in an array
					doc = `[` + pad + `{"a":["` + body + `"],"b":{"c":"` + body + `"}},` + pad + `[0,"` + body + `"],7]`
					s.emitGet(doc, []string{"i:2"})
					s.emitGet(doc, []string{"i:1", "i:1"})
					// (3) the awkward string as a key
					if utf8.ValidString(body) {
						doc = `{"` + body + `":1,"k":{"` + body + `x":2,"z":3}}`
						s.emitGet(doc, []string{"k:" + hexArg([]byte("k")), "k:" + hexArg([]byte("z"))})
					}
				}
			}
			// numbers and literals of every length as skipped siblings
			num := "1" + strings.Repeat("0", L%40)
			doc := "[" + num + strings.Repeat(" ", L) + "," + strings.Repeat(" ", L%5) + "true ,null,\"x\"]"
			s.emitGet(doc, []string{"i:3"})
			s.emitGet(doc, []string{"i:0"})
			// top-level scalars surrounded by white space
			s.emitGet(strings.Repeat(" ", L%7)+num+strings.Repeat(" ", L), nil)
			s.emitGet(strings.Repeat("\n", L)+"\""+f0(L)+"\""+strings.Repeat("\t", L%3), nil)
			// nesting depth sweep (bounded: deep recursion is C07's subject)
			if L%10 == 0 {
				d := L * 3
				doc = strings.Repeat("[", d) + "1" + strings.Repeat("]", d)
				var p []string
				for i := 0; i < d && i < 40; i++ {
					p = append(p, "i:0")
				}
				s.emitGet(`{"deep":`+doc+`,"after":{"x":[true]}}`, []string{"k:" + hexArg([]byte("after")), "k:" + hexArg([]byte("x")), "i:0"})
				s.emitGet(doc, p)
			}
		}
		// whole containers as the located node (all conversions, incl. the *UseNode ones, see every child):
		// sizes around the 16-element chunks of linkedNodes / linkedPairs
		for _, n := range []int{0, 1, 15, 16, 17, 32, 33, 48, 49, 64, 100, 257} {
			var sa, so strings.Builder
			sa.WriteByte('[')
			so.WriteByte('{')
			for i := 0; i < n; i++ {
				if i > 0 {
					sa.WriteByte(',')
					so.WriteByte(',')
				}
				sa.WriteString(`{"id":` + itoa(i) + `}`)
				so.WriteString(`"k` + itoa(i) + `":{"id":` + itoa(i) + `}`)
			}
			sa.WriteByte(']')
			so.WriteByte('}')
			// the large ones with two option sets only (plain, and ValidateJSON+ConcurrentRead): every entry
			// point takes all views of all children
			mask := "ff"
			if n >= 64 {
				mask = "21"
			}
			for _, c := range [][2]string{
				{sa.String(), "-"}, {so.String(), "-"},
				{`{"a":` + sa.String() + `,"o":` + so.String() + `}`, "k:" + hexArg([]byte("a"))},
				{`[0,` + so.String() + `,` + sa.String() + `]`, "i:1"},
			} {
				s.g.Emit("get", mask, hexArg([]byte(c[0])), c[1])
			}
		}
		// wide arrays / objects: index and key positions around 16 and 256
		for _, n := range []int{15, 16, 17, 18, 31, 32, 33, 255, 256, 257, 300} {
			var sa, so strings.Builder
			sa.WriteByte('[')
			so.WriteByte('{')
			for i := 0; i < n; i++ {
				if i > 0 {
					sa.WriteByte(',')
					so.WriteByte(',')
				}
				sa.WriteString(`{"i":` + itoa(i) + `}`)
				so.WriteString(`"k` + itoa(i) + `":[` + itoa(i) + `]`)
			}
			sa.WriteByte(']')
			so.WriteByte('}')
			for _, i := range []int{0, 1, 14, 15, 16, 17, n - 2, n - 1, n, n + 1} {
				if i < 0 {
					continue
				}
				s.emitGet(sa.String(), []string{"i:" + itoa(i), "k:" + hexArg([]byte("i"))})
				s.emitGet(so.String(), []string{"k:" + hexArg([]byte("k"+itoa(i))), "i:0"})
				s.emitGet(so.String(), []string{"i:" + itoa(i)})
			}
		}
	})

	// duplicate keys above and below the index threshold, spelled differently
	registerGen("c14.dup", func(g *Gen) {
		for i := 0; i < g.N; i++ {
			s := &sgen{g: g, ws: g.R.Intn(3)}
			n := []int{2, 3, 8, 15, 16, 17, 18, 20, 33, 40}[g.R.Intn(10)]
			v := s.bigObject(n, 1)
			// force a duplicate of a random key at a random later position, with another spelling
			a := g.R.Intn(n)
			b := g.R.Intn(n)
			if a != b {
				if a > b {
					a, b = b, a
				}
				v.keys[b] = v.keys[a]
				v.klits[b] = s.escapeStr(v.keys[a], g.R.Intn(3))
			}
			doc := s.doc(v)
			s.emitGet(doc, []string{"k:" + hexArg([]byte(v.keys[a]))})
			if g.R.Intn(2) == 0 {
				wrapped := `{"w":[0,` + doc + `]}`
				s.emitGet(wrapped, []string{"k:" + hexArg([]byte("w")), "i:1", "k:" + hexArg([]byte(v.keys[a]))})
			}
		}
	})

	// lone surrogate escapes (valid per RFC 8259 grammar, accepted by encoding/json)
	registerGen("c14.surr", func(g *Gen) {
		for i := 0; i < g.N; i++ {
			s := &sgen{g: g, ws: g.R.Intn(2), surr: true}
			v := s.value(1+g.R.Intn(2), 1+g.R.Intn(4))
			if g.R.Intn(2) == 0 && v.kind == '{' && len(v.keys) > 0 {
				j := g.R.Intn(len(v.keys))
				v.klits[j] = v.klits[j] + `\ud800`
				v.keys[j] = v.keys[j] + "�"
			}
			s.emitGet(s.doc(v), s.path(v))
		}
	})

	// Preorder: valid documents (incl. numbers outside float64) and a malformed stream
	registerGen("c14.pre", func(g *Gen) {
		for i := 0; i < g.N; i++ {
			s := &sgen{g: g, ws: g.R.Intn(4), bigNums: i%7 == 0}
			var v *sjv
			if i%40 == 3 {
				v = s.bigObject(17+g.R.Intn(300), 1)
			} else {
				v = s.value(1+g.R.Intn(5), 1+g.R.Intn(6))
			}
			doc := s.doc(v)
			if i%3 == 2 {
				doc = s.mutate(doc)
				if g.R.Intn(3) == 0 {
					doc = s.mutate(doc)
				}
			}
			g.Emit("pre", hexArg([]byte(doc)))
		}
		for d := 1; d <= 1000; d *= 10 {
			g.Emit("pre", hexArg([]byte(strings.Repeat("[", d)+strings.Repeat("]", d))))
			g.Emit("pre", hexArg([]byte(strings.Repeat(`{"a":`, d)+"1"+strings.Repeat("}", d))))
		}
	})
}

func f0(n int) string { return strings.Repeat("s", n) }

// ---------------------------------------------------------------- sequences of lookups on one node

func (s *sgen) seqKeyStep(kind string, path ...string) string { return kind + strings.Join(path, "/") }

func init() {
	// c14.seq: an object (or array) with 3, 16, 17, 40 ... members; one root node; a sequence of
	// lookups (existing, missing, existing again, last, by index, nested, after a full load) whose
	// answers must each be the addressed value whatever was looked up before.
	registerGen("c14.seq", func(g *Gen) {
		sizes := []int{3, 16, 17, 40, 2, 15, 18, 33, 100}
		kp := func(k string) string { return "k:" + hexArg([]byte(k)) }
		for i := 0; i < g.N; i++ {
			s := &sgen{g: g, ws: g.R.Intn(3)}
			n := sizes[i%4]
			if i%3 == 2 {
				n = sizes[g.R.Intn(len(sizes))]
			}
			var steps []string
			var doc string
			if i%5 == 4 {
				// array root
				v := &sjv{kind: '['}
				for j := 0; j < n; j++ {
					v.elems = append(v.elems, s.value(1, 3))
				}
				doc = s.doc(v)
				idx := func(j int) string { return "i:" + itoa(j) }
				a, b := g.R.Intn(n), g.R.Intn(n)
				steps = []string{"g" + idx(a), "c" + idx(b), "g" + idx(n + g.R.Intn(2)), "g" + idx(a), "c" + idx(b), "g" + idx(n-1), "g" + idx(0)}
				if g.R.Intn(2) == 0 {
					steps = append(steps, string("LMIN"[g.R.Intn(4)]), "g"+idx(a), "c"+idx(n-1))
				}
			} else {
				v := s.bigObject(n, 1)
				prefix := []string{}
				doc = s.doc(v)
				if i%7 == 3 {
					doc = `{"pad":[1,2],"obj":` + doc + `,"z":0}`
					prefix = []string{kp("obj")}
				}
				key := func(j int) string { return strings.Join(append(append([]string{}, prefix...), kp(v.keys[j])), "/") }
				miss := strings.Join(append(append([]string{}, prefix...), kp("no_such_key")), "/")
				a, b := g.R.Intn(n), g.R.Intn(n)
				switch g.R.Intn(4) {
				case 0: // the canonical sequence: found, found, miss (forces the full load), found again, last
					steps = []string{"g" + key(a), "g" + key(b), "g" + miss, "g" + key(a), "g" + key(b), "g" + key(n-1)}
				case 1: // last key first (full load through a hit), then earlier ones
					steps = []string{"c" + key(a), "g" + key(n-1), "g" + key(a), "c" + key(0), "g" + miss, "c" + key(b)}
				case 2: // a conversion / iteration / Len in between
					steps = []string{"g" + key(a), string("LMIN"[g.R.Intn(4)]), "g" + key(a), "g" + key(b), "g" + miss, "g" + key(a)}
				default:
					m := 4 + g.R.Intn(6)
					for t := 0; t < m; t++ {
						switch g.R.Intn(7) {
						case 0:
							steps = append(steps, "g"+miss)
						case 1:
							steps = append(steps, string("LMIN"[g.R.Intn(4)]))
						case 2:
							steps = append(steps, "c"+key(g.R.Intn(n)))
						case 3:
							steps = append(steps, "g"+key(a))
						default:
							steps = append(steps, "g"+key(g.R.Intn(n)))
						}
					}
					steps = append(steps, "g"+key(a))
				}
				// one nested step below a member that is a container
				for j, e := range v.elems {
					firstOcc := true
					for jj := 0; jj < j; jj++ {
						if v.keys[jj] == v.keys[j] {
							firstOcc = false
						}
					}
					if firstOcc && e.kind == '[' && len(e.elems) > 0 {
						steps = append(steps, "g"+key(j)+"/i:"+itoa(g.R.Intn(len(e.elems))), "g"+key(j)+"/i:"+itoa(len(e.elems)))
						break
					}
				}
			}
			if !utf8.ValidString(doc) {
				continue
			}
			g.Emit("c14seq", hexArg([]byte(doc)), strings.Join(steps, ";"))
		}
	})

	// c14.wide: Preorder over documents that are WIDE but shallow (more than MAX_RECURSE sibling empty
	// arrays / empty objects / small containers at real depth <= 5), and the nesting boundary itself
	registerGen("c14.wide", func(g *Gen) {
		const n = 4200
		var sb strings.Builder
		emit := func(doc string) { g.Emit("pre", hexArg([]byte(doc))) }
		rep := func(item func(i int) string) string {
			sb.Reset()
			for i := 0; i < n; i++ {
				if i > 0 {
					sb.WriteByte(',')
				}
				sb.WriteString(item(i))
			}
			return sb.String()
		}
		emit(`{"items":[` + rep(func(i int) string { return `{"id":` + itoa(i) + `,"tags":[],"attrs":{}}` }) + `]}`)
		emit(`[` + rep(func(i int) string { return `[]` }) + `]`)
		emit(`[` + rep(func(i int) string { return `{}` }) + `]`)
		emit(`[` + rep(func(i int) string { return `[ ]` }) + `,{ }]`)
		emit(`{"a":[` + rep(func(i int) string { return `[` + itoa(i) + `]` }) + `]}`)
		emit(`[[` + rep(func(i int) string { return `{"k":[[]]}` }) + `]]`)
		emit(`{` + rep(func(i int) string { return `"k` + itoa(i) + `":{}` }) + `}`)
		for _, d := range []int{4095, 4096, 4097, 4100} {
			emit(strings.Repeat("[", d) + strings.Repeat("]", d))
			emit(strings.Repeat(`{"a":`, d) + "1" + strings.Repeat("}", d))
		}
		emit(strings.Repeat("[", 4095) + "[],{},[1]" + strings.Repeat("]", 4095))
		emit(strings.Repeat("[", 4096) + "[]" + strings.Repeat("]", 4096))
	})
}

// c14.wideviews: views / conversions of WIDE containers.  The documents are built by repetition from
// (container kind, child kind, n) inside the `c14wide` op; n straddles the internal thresholds.
// g.N carries the constants re-read from the source by factx: MAX_RECURSE*100 + _DEFAULT_NODE_CAP
// (= _Threshold_Index; 4096 and 16 when not given).
func init() {
	registerGen("c14.wideviews", func(g *Gen) {
		maxRec, capN := 4096, 16
		if g.N >= 10000 {
			maxRec, capN = g.N/100, g.N%100
		}
		rows := "k:" + hexArg([]byte("rows"))
		emit := func(mask, ck, child string, n int, path string) {
			g.Emit("c14wide", mask, ck, child, itoa(n), path)
		}
		seen := map[int]bool{}
		var small []int
		addSize := func(n int) {
			if n < 0 || n > 600 || seen[n] {
				return
			}
			seen[n] = true
			small = append(small, n)
		}
		// chunk sizes / index threshold and their multiples, small powers of two
		for _, m := range []int{1, 2, 3, 4, 16} {
			for d := -1; d <= 1; d++ {
				addSize(capN*m + d)
			}
		}
		for k := 0; k <= 9; k++ {
			for d := -1; d <= 1; d++ {
				addSize((1 << uint(k)) + d)
			}
		}
		for _, ck := range []string{"a", "o"} {
			for _, n := range small {
				for _, child := range []string{"s", "e", "c", "m"} {
					emit("21", ck, child, n, rows)
				}
				emit("21", ck, "c", n, "-")
				if n > 0 {
					last := rows + "/i:" + itoa(n-1)
					if ck == "o" {
						last = rows + "/k:" + hexArg([]byte("k"+itoa(n-1)))
					}
					emit("21", ck, "m", n, last)
				}
			}
		}
		// large: around the recursion bound (children counted as levels would cross it here), 2^k+1
		top := 13
		if g.Tier == "thorough" {
			top = 16
		}
		arrSizes := []int{1025, 2049, maxRec - 7, maxRec - 1, maxRec, maxRec + 1, maxRec + 4, maxRec + maxRec/4}
		for k := 13; k <= top; k++ {
			arrSizes = append(arrSizes, (1<<uint(k))+1)
		}
		for _, n := range arrSizes {
			emit("21", "a", "c", n, rows) // non-empty container children at every large size
			if n == maxRec+1 || n == (1<<uint(top))+1 {
				emit("21", "a", "s", n, rows)
				emit("21", "a", "e", n, rows)
				emit("21", "a", "m", n, rows)
			}
		}
		emit("21", "a", "c", maxRec+1, "-") // the whole document: root.Map() / Interface() of everything
		emit("21", "a", "m", maxRec+maxRec/4, rows+"/i:"+itoa(maxRec+maxRec/4-1))
		for _, n := range []int{maxRec - 1, maxRec + 1, maxRec + maxRec/4} {
			emit("21", "o", "c", n, rows)
		}
		emit("21", "o", "m", maxRec+1, rows)
		emit("21", "o", "e", maxRec+1, rows)
		emit("21", "o", "c", maxRec+1, "-")
	})
}
