package main

import "strconv"

func init() {
	// smoke generator: Marshal cases over the whole type universe under ConfigStd
	registerGen("codec.mar.smoke", func(g *Gen) {
		std := cfgBit("EscapeHTML") | cfgBit("SortMapKeys") | cfgBit("CompactMarshaler") | cfgBit("CopyString") | cfgBit("ValidateString")
		for i := 0; i < g.N; i++ {
			tn := genType(g, 3, TypeOpts{})
			v := genValue(g, tn, 3, false)
			g.Emit("mar", strconv.FormatUint(std, 10), tn.String(), v.String())
		}
	})
}
