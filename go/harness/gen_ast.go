package main

// C15 generators: an initial document plus an operation sequence (see ops_ast.go for the syntax).
// The generator keeps its own rough ordered-tree picture of the document (gm) only to aim the
// operations (existing keys, indexes around the length, containers to descend into); it takes no part
// in any verdict.

import (
	"fmt"
	"sort"
	"strconv"
	"strings"
	"unicode/utf8"
)

type gm struct {
	kind byte // z null, b bool, n number, s string, a array, o object
	text string
	arr  []*gm
	keys []string
	vals []*gm
}

func (m *gm) n() int {
	if m.kind == 'a' {
		return len(m.arr)
	}
	return len(m.keys)
}

var astKeyPool = []string{"a", "b", "c", "d", "e", "f", "g", "h", "k1", "k2", "key", "", "a\"b", "x\\y", "é", "\n", "日本", "😀", "a/b", "A", "aa", "ab", "\x01"}

type astGen struct {
	g       *Gen
	dupKeys bool
	odd     bool // empty / escaped keys
	ws      bool
}

func (ag *astGen) key() string {
	r := ag.g.R
	if ag.odd && r.Intn(3) == 0 {
		return astKeyPool[11+r.Intn(len(astKeyPool)-11)]
	}
	if r.Intn(8) == 0 {
		return "k" + strconv.Itoa(r.Intn(400))
	}
	return astKeyPool[r.Intn(11)]
}

func (ag *astGen) scalar() *gm {
	r := ag.g.R
	switch r.Intn(9) {
	case 0:
		return &gm{kind: 'z', text: "null"}
	case 1:
		return &gm{kind: 'b', text: "true"}
	case 2:
		return &gm{kind: 'b', text: "false"}
	case 3, 4:
		return &gm{kind: 'n', text: strconv.Itoa(r.Intn(2000) - 500)}
	case 5:
		return &gm{kind: 'n', text: []string{"0", "-0", "1.5", "1e3", "2E+2", "0.001", "-12.5e-1", "123456789012345678901234567890", "1.0"}[r.Intn(9)]}
	case 6:
		return &gm{kind: 's', text: ag.quote(astKeyPool[r.Intn(len(astKeyPool))])}
	default:
		return &gm{kind: 's', text: ag.quote("v" + strconv.Itoa(r.Intn(50)))}
	}
}

func (ag *astGen) size(allowHuge bool) int {
	r := ag.g.R
	switch x := r.Intn(40); {
	case x < 22:
		return r.Intn(6)
	case x < 30:
		return 14 + r.Intn(6) // 14..19 : around _DEFAULT_NODE_CAP / _Threshold_Index
	case x < 34:
		return 30 + r.Intn(5) // 30..34 : second chunk boundary
	case x < 36:
		return 47 + r.Intn(4)
	case x < 37 && allowHuge:
		return 255 + r.Intn(5) // > 256 members
	default:
		return 6 + r.Intn(8)
	}
}

func (ag *astGen) value(depth int, allowHuge bool) *gm {
	r := ag.g.R
	k := r.Intn(10)
	if depth <= 0 && k >= 5 {
		return ag.scalar()
	}
	switch {
	case k < 5:
		return ag.scalar()
	case k < 7:
		n := ag.size(allowHuge)
		m := &gm{kind: 'a'}
		for i := 0; i < n; i++ {
			d := depth - 1
			if n > 20 {
				d = depth - 2
			}
			m.arr = append(m.arr, ag.value(d, false))
		}
		return m
	default:
		n := ag.size(allowHuge)
		m := &gm{kind: 'o'}
		used := map[string]bool{}
		for i := 0; i < n; i++ {
			key := ag.key()
			if n > 11 && !(ag.dupKeys && r.Intn(6) == 0) {
				key = "k" + strconv.Itoa(i)
				if ag.odd && r.Intn(10) == 0 {
					key = ag.key()
				}
			}
			if used[key] && !ag.dupKeys {
				key = "u" + strconv.Itoa(i)
			}
			used[key] = true
			d := depth - 1
			if n > 20 {
				d = depth - 2
			}
			m.keys = append(m.keys, key)
			m.vals = append(m.vals, ag.value(d, false))
		}
		return m
	}
}

// quote renders a string literal; the escape spelling of each character is chosen at random
func (ag *astGen) quote(s string) string {
	r := ag.g.R
	var sb strings.Builder
	sb.WriteByte('"')
	for len(s) > 0 {
		c, sz := utf8.DecodeRuneInString(s)
		s = s[sz:]
		u := func() {
			if c >= 0x10000 {
				c2 := c - 0x10000
				fmt.Fprintf(&sb, "\\u%04x\\u%04X", 0xd800+(c2>>10), 0xdc00+(c2&0x3ff))
			} else {
				fmt.Fprintf(&sb, "\\u%04x", c)
			}
		}
		switch {
		case c == '"' || c == '\\':
			if r.Intn(4) == 0 {
				u()
			} else {
				sb.WriteByte('\\')
				sb.WriteRune(c)
			}
		case c == '\n' && r.Intn(2) == 0:
			sb.WriteString("\\n")
		case c == '\t' && r.Intn(2) == 0:
			sb.WriteString("\\t")
		case c < 0x20:
			u()
		case c == '/' && r.Intn(2) == 0:
			sb.WriteString("\\/")
		case ag.odd && r.Intn(12) == 0:
			u()
		default:
			sb.WriteRune(c)
		}
	}
	sb.WriteByte('"')
	return sb.String()
}

func (ag *astGen) sp(sb *strings.Builder) {
	if ag.ws && ag.g.R.Intn(4) == 0 {
		sb.WriteString([]string{" ", "\n", "\t", "  ", "\r\n"}[ag.g.R.Intn(5)])
	}
}

func (ag *astGen) render(m *gm, sb *strings.Builder) {
	switch m.kind {
	case 'a':
		sb.WriteByte('[')
		ag.sp(sb)
		for i, e := range m.arr {
			if i > 0 {
				sb.WriteByte(',')
				ag.sp(sb)
			}
			ag.render(e, sb)
			ag.sp(sb)
		}
		sb.WriteByte(']')
	case 'o':
		sb.WriteByte('{')
		ag.sp(sb)
		for i, k := range m.keys {
			if i > 0 {
				sb.WriteByte(',')
				ag.sp(sb)
			}
			sb.WriteString(ag.quote(k))
			ag.sp(sb)
			sb.WriteByte(':')
			ag.sp(sb)
			ag.render(m.vals[i], sb)
			ag.sp(sb)
		}
		sb.WriteByte('}')
	default:
		sb.WriteString(m.text)
	}
}

func (ag *astGen) text(m *gm) string {
	var sb strings.Builder
	ag.render(m, &sb)
	return sb.String()
}

func (m *gm) find(k string) int {
	for i, x := range m.keys {
		if x == k {
			return i
		}
	}
	return -1
}

// ---- the rough picture's updates (documented semantics) ----

func (m *gm) set(k string, v *gm) {
	if m.kind == 'z' {
		*m = gm{kind: 'o', keys: []string{k}, vals: []*gm{v}}
		return
	}
	if m.kind != 'o' {
		return
	}
	if j := m.find(k); j >= 0 {
		m.vals[j] = v
	} else {
		m.keys = append(m.keys, k)
		m.vals = append(m.vals, v)
	}
}

func (m *gm) removeAt(i int) {
	if i < 0 || i >= m.n() {
		return
	}
	if m.kind == 'a' {
		m.arr = append(m.arr[:i:i], m.arr[i+1:]...)
	} else if m.kind == 'o' {
		m.keys = append(m.keys[:i:i], m.keys[i+1:]...)
		m.vals = append(m.vals[:i:i], m.vals[i+1:]...)
	}
}

func (m *gm) move(dst, src int) {
	if m.kind != 'a' || dst >= len(m.arr) || src >= len(m.arr) || dst < 0 || src < 0 {
		return
	}
	e := m.arr[src]
	rest := append(m.arr[:src:src], m.arr[src+1:]...)
	m.arr = append(rest[:dst:dst], append([]*gm{e}, rest[dst:]...)...)
}

func (m *gm) sortKeys() {
	if m.kind != 'o' {
		return
	}
	idx := make([]int, len(m.keys))
	for i := range idx {
		idx[i] = i
	}
	sort.SliceStable(idx, func(a, b int) bool { return m.keys[idx[a]] < m.keys[idx[b]] })
	nk := make([]string, len(idx))
	nv := make([]*gm, len(idx))
	for i, j := range idx {
		nk[i], nv[i] = m.keys[j], m.vals[j]
	}
	m.keys, m.vals = nk, nv
}

// ---- operation sequences ----

type astSeq struct {
	ag   *astGen
	root *gm
	ops  []string
}

func hexKey(k string) string { return hexArg([]byte(k)) }

// target picks root or a container (sometimes a scalar) below it, returns the path text and the picture node
func (s *astSeq) target() (string, *gm) {
	r := s.ag.g.R
	cur := s.root
	var path []string
	depth := 0
	switch x := r.Intn(10); {
	case x < 5:
		depth = 0
	case x < 8:
		depth = 1
	default:
		depth = 2
	}
	for d := 0; d < depth; d++ {
		if cur.n() == 0 || (cur.kind != 'a' && cur.kind != 'o') {
			break
		}
		// prefer container children
		var cand []int
		for i := 0; i < cur.n(); i++ {
			var c *gm
			if cur.kind == 'a' {
				c = cur.arr[i]
			} else {
				c = cur.vals[i]
			}
			if c.kind == 'a' || c.kind == 'o' || c.kind == 'z' {
				cand = append(cand, i)
			}
		}
		var i int
		if len(cand) > 0 && r.Intn(8) != 0 {
			i = cand[r.Intn(len(cand))]
		} else {
			i = r.Intn(cur.n())
		}
		if cur.kind == 'a' {
			path = append(path, "i"+strconv.Itoa(i))
			cur = cur.arr[i]
		} else {
			if r.Intn(4) == 0 {
				path = append(path, "i"+strconv.Itoa(i))
				cur = cur.vals[i]
			} else {
				// a key selector resolves to the FIRST pair with that key
				k := cur.keys[i]
				path = append(path, "k"+hexKey(k))
				cur = cur.vals[cur.find(k)]
			}
		}
	}
	if len(path) == 0 {
		return ".", cur
	}
	return strings.Join(path, "/"), cur
}

func (s *astSeq) emit(path, name string, args ...string) {
	f := append([]string{path, name}, args...)
	s.ops = append(s.ops, strings.Join(f, ":"))
}

func (s *astSeq) someKey(t *gm) string {
	r := s.ag.g.R
	if t.kind == 'o' && len(t.keys) > 0 && r.Intn(5) != 0 {
		switch r.Intn(4) {
		case 0:
			return t.keys[len(t.keys)-1]
		case 1:
			return t.keys[0]
		default:
			return t.keys[r.Intn(len(t.keys))]
		}
	}
	return s.ag.key()
}

func (s *astSeq) someIdx(t *gm) int {
	r := s.ag.g.R
	n := t.n()
	switch r.Intn(8) {
	case 0:
		return n
	case 1:
		return n + 1 + r.Intn(3)
	case 2:
		if n > 0 {
			return n - 1
		}
		return 0
	case 3:
		return 0
	default:
		if n > 0 {
			return r.Intn(n)
		}
		return 0
	}
}

func (s *astSeq) newValue() (*gm, string) {
	ag := s.ag
	r := ag.g.R
	var v *gm
	switch r.Intn(10) {
	case 0:
		v = &gm{kind: 'z', text: "null"}
	case 1, 2:
		v = ag.value(1, false)
	case 3:
		// a container big enough to get its own index
		v = &gm{kind: 'o'}
		n := 15 + r.Intn(5)
		for i := 0; i < n; i++ {
			v.keys = append(v.keys, "n"+strconv.Itoa(i))
			v.vals = append(v.vals, ag.scalar())
		}
	default:
		v = ag.scalar()
	}
	return v, hexArg([]byte(ag.text(v)))
}

// one step of kind k on target (path p, picture t); keeps the picture in step
func (s *astSeq) step(k string, p string, t *gm) {
	r := s.ag.g.R
	switch k {
	case "get":
		s.emit(p, "get", hexKey(s.someKey(t)))
	case "idx":
		s.emit(p, "idx", strconv.Itoa(s.someIdx(t)))
	case "len", "iter", "load", "raw", "mar":
		s.emit(p, k)
	case "set":
		key := s.someKey(t)
		v, h := s.newValue()
		s.emit(p, "set", hexKey(key), h)
		t.set(key, v)
	case "seti":
		i := s.someIdx(t)
		v, h := s.newValue()
		s.emit(p, "seti", strconv.Itoa(i), h)
		if t.kind == 'z' && i == 0 {
			*t = gm{kind: 'a', arr: []*gm{v}}
		} else if i < t.n() {
			if t.kind == 'a' {
				t.arr[i] = v
			} else if t.kind == 'o' {
				t.vals[i] = v
			}
		}
	case "add":
		v, h := s.newValue()
		s.emit(p, "add", h)
		if t.kind == 'z' {
			*t = gm{kind: 'a', arr: []*gm{v}}
		} else if t.kind == 'a' {
			t.arr = append(t.arr, v)
		}
	case "unset":
		key := s.someKey(t)
		s.emit(p, "unset", hexKey(key))
		if t.kind == 'o' {
			t.removeAt(t.find(key))
		}
	case "unseti":
		i := s.someIdx(t)
		s.emit(p, "unseti", strconv.Itoa(i))
		t.removeAt(i)
	case "pop":
		s.emit(p, "pop")
		t.removeAt(t.n() - 1)
	case "move":
		d, sr := s.someIdx(t), s.someIdx(t)
		s.emit(p, "move", strconv.Itoa(d), strconv.Itoa(sr))
		t.move(d, sr)
	case "sort":
		rec := r.Intn(2)
		s.emit(p, "sort", strconv.Itoa(rec))
		// the picture only tracks the top level (good enough for aiming)
		t.sortKeys()
	}
}

var astReadOps = []string{"get", "idx", "len", "iter", "get", "idx"}
var astAllOps = []string{"get", "get", "idx", "idx", "len", "iter", "set", "set", "seti", "add", "unset", "unset", "unseti", "unseti", "pop", "move", "sort", "load", "raw", "mar"}

// scenario emits a short burst in one of the orders that the laziness / soft deletion machinery makes risky
func (s *astSeq) scenario() {
	r := s.ag.g.R
	p, t := s.target()
	pick := func(xs ...string) string { return xs[r.Intn(len(xs))] }
	switch r.Intn(14) {
	case 0: // unset-then-index
		s.step(pick("unset", "unseti"), p, t)
		s.step(pick("idx", "get", "iter"), p, t)
	case 1: // set after partial load
		s.step(pick("idx", "get"), p, t)
		s.step(pick("set", "seti", "add"), p, t)
		s.step(pick("idx", "get", "len"), p, t)
	case 2: // sort after unset
		s.step(pick("unset", "unseti"), p, t)
		s.step("sort", p, t)
		s.step(pick("get", "idx", "iter"), p, t)
	case 3: // pop after soft delete, then look for the last key
		if t.kind == 'o' && len(t.keys) > 0 {
			last := t.keys[len(t.keys)-1]
			s.emit(p, "unset", hexKey(last))
			t.removeAt(t.find(last))
			s.step("pop", p, t)
			s.emit(p, "get", hexKey(last))
		} else {
			s.step("unseti", p, t)
			s.step("pop", p, t)
			s.step("idx", p, t)
		}
	case 4: // move across deleted slots
		s.step("unseti", p, t)
		s.step("move", p, t)
		s.step(pick("iter", "idx"), p, t)
	case 5: // len while partially loaded
		s.step("len", p, t)
		s.step(pick("idx", "get"), p, t)
		s.step("len", p, t)
	case 6: // delete several, add, index around the end
		s.step("unseti", p, t)
		s.step("unseti", p, t)
		s.step(pick("add", "set"), p, t)
		s.step("idx", p, t)
		s.step("pop", p, t)
	case 7: // empty key after a deletion
		s.step(pick("unset", "unseti"), p, t)
		s.emit(p, pick("get", "unset"), "-")
		if t.kind == 'o' && r.Intn(2) == 0 {
			v, h := s.newValue()
			s.emit(p, "set", "-", h)
			t.set("", v)
		}
	case 8: // load first, then mutate
		s.step("load", p, t)
		s.step(pick("set", "add", "unseti", "pop"), p, t)
		s.step(pick("get", "idx"), p, t)
	case 9: // read a child, then mutate the parent
		s.step(pick("raw", "mar", "iter"), p, t)
		s.step(pick("unset", "unseti", "move", "sort"), p, t)
	case 10: // repeated pops / unsets down to empty, then grow again
		for i := 0; i < 2+r.Intn(3); i++ {
			s.step(pick("pop", "unseti"), p, t)
		}
		s.step(pick("add", "set"), p, t)
		s.step("len", p, t)
	case 11, 12: // the chunk boundary (_DEFAULT_NODE_CAP = 16): soft deletes on it, moves / pops / growth across it
		n := t.n()
		if n < 16 || (t.kind != 'a' && t.kind != 'o') {
			s.step(astReadOps[r.Intn(len(astReadOps))], p, t)
			break
		}
		edge := []int{15, 16, 31, 32}
		at := func() int {
			for tries := 0; tries < 8; tries++ {
				if e := edge[r.Intn(len(edge))]; e < t.n() {
					return e
				}
			}
			return 15
		}
		e := at()
		s.emit(p, "unseti", strconv.Itoa(e))
		t.removeAt(e)
		if r.Intn(2) == 0 && e-1 < t.n() {
			s.emit(p, "unseti", strconv.Itoa(e-1))
			t.removeAt(e - 1)
		}
		s.emit(p, "idx", strconv.Itoa(at()))
		if t.kind == 'a' {
			d, sr := at(), r.Intn(4)
			if r.Intn(2) == 0 {
				d, sr = sr, d
			}
			s.emit(p, "move", strconv.Itoa(d), strconv.Itoa(sr))
			t.move(d, sr)
		} else {
			s.step(pick("get", "set", "sort"), p, t)
		}
		// shrink below the boundary, then grow over it again
		for t.n() > 14 && r.Intn(6) != 0 {
			s.emit(p, "pop")
			t.removeAt(t.n() - 1)
		}
		for i := 0; i < 2+r.Intn(3); i++ {
			s.step(pick("add", "set"), p, t)
		}
		s.step(pick("idx", "iter", "len"), p, t)
	default:
		s.step(astReadOps[r.Intn(len(astReadOps))], p, t)
	}
}

func (s *astSeq) random() {
	p, t := s.target()
	s.step(astAllOps[s.ag.g.R.Intn(len(astAllOps))], p, t)
}

func genAstCase(g *Gen, maxOps int, allowHuge bool) []string {
	r := g.R
	ag := &astGen{g: g, dupKeys: r.Intn(4) == 0, odd: r.Intn(3) == 0, ws: r.Intn(3) == 0}
	var root *gm
	for {
		root = ag.value(3, allowHuge)
		if root.kind == 'a' || root.kind == 'o' || r.Intn(30) == 0 {
			break
		}
	}
	doc := ag.text(root)
	if ag.ws && r.Intn(2) == 0 {
		doc = " " + doc + "\n"
	}
	s := &astSeq{ag: ag, root: root}
	n := 1 + r.Intn(maxOps)
	if maxOps > 60 && r.Intn(4) != 0 {
		n = 1 + r.Intn(60)
	}
	for len(s.ops) < n {
		if r.Intn(3) == 0 {
			s.scenario()
		} else {
			s.random()
		}
	}
	if len(s.ops) > maxOps {
		s.ops = s.ops[:maxOps]
	}
	mode := []string{"raw", "raw", "raw", "get", "cr"}[r.Intn(5)]
	return append([]string{"ast", mode, hexArg([]byte(doc))}, s.ops...)
}

func init() {
	registerGen("c15.seq", func(g *Gen) {
		maxOps := 40
		if g.Tier == "thorough" {
			maxOps = 400
		}
		for i := 0; i < g.N; i++ {
			g.Emit(genAstCase(g, maxOps, i%6 == 0)...)
		}
	})
}
