package main

// C17 - stream decoder / stream encoder driven by scripted io.Reader / io.Writer.
//
//   stream <opts> <final> <chunk> <chunk> ...
//      opts : one of d (decoder.NewStreamDecoder), c (ConfigDefault.NewDecoder), s (ConfigStd.NewDecoder)
//      final: eof | err      what the reader returns once the script is exhausted (err = a fixed non-EOF error)
//      chunk: <hex> | -      one Read result (- = a Read that returns 0 bytes, nil error);
//             a trailing "!" on the LAST chunk means the data is returned together with the final error.
//      answer: sonic=<values>|<terminal>  ref=<values>|<terminal>  eff=<chunk,chunk,...>
//        values  : comma separated hex of the canonical re-marshalling of each decoded value (- = none)
//        terminal: eof | syntax | rerr | noprogress | more
//        eff     : the Read results the decoder actually received (a chunk larger than the free
//                  buffer space is delivered in pieces), followed by the unread rest of the script
//
//   sink <opts> <wscript> <value> <value> ...
//      opts   : letters n (NoEncoderNewline), i (SetIndent("", " ")), h (EscapeHTML), v (ValidateString),
//               u (do NOT sort map keys), C (sonic.Config{...}.Froze().NewEncoder instead of
//               encoder.NewStreamEncoder + setters), - for none
//      value  : see sinkValue
//      wscript: comma separated Write results by call index: ok | p<k> (accept k bytes, nil error)
//               | f<k> (accept k bytes, return the writer's error); - = empty; after the script: ok
//      value  : hex of a JSON text (decoded with encoding/json+UseNumber, then Encode()d)
//      answer : sonic=<delivered hex>|<per-Encode 0/E/X>  marshal=<hex,hex,...>  ref=<delivered>|<errs>
//               wfail=<per Encode: 0 | F (a write failed) | N (the write of the newline failed) | P (short write without error)>

import (
	"bytes"
	"encoding/json"
	"errors"
	"io"
	"strconv"
	"strings"

	"github.com/bytedance/sonic"
	"github.com/bytedance/sonic/decoder"
	"github.com/bytedance/sonic/encoder"
)

var errScript = errors.New("scripted failure")

type scriptChunk struct {
	data []byte
	with bool // deliver the final error together with this (last) chunk
}

type scriptReader struct {
	chunks []scriptChunk
	i      int
	final  error
	done   bool
	eff    []string // what each Read call returned
}

func (r *scriptReader) Read(p []byte) (int, error) {
	if r.done || r.i >= len(r.chunks) {
		r.done = true
		r.eff = append(r.eff, "-!")
		return 0, r.final
	}
	c := &r.chunks[r.i]
	n := copy(p, c.data)
	if n < len(c.data) {
		c.data = c.data[n:]
		r.eff = append(r.eff, hexArg(p[:n]))
		return n, nil
	}
	r.i++
	if c.with && r.i >= len(r.chunks) {
		r.done = true
		r.eff = append(r.eff, hexArg(p[:n])+"!")
		return n, r.final
	}
	r.eff = append(r.eff, hexArg(p[:n]))
	return n, nil
}

// effective script: reads made so far (without the trailing exhausted reads) + unread rest
func (r *scriptReader) effective() string {
	out := []string{}
	for _, e := range r.eff {
		if e == "-!" {
			continue
		}
		out = append(out, e)
	}
	if !r.done {
		for k := r.i; k < len(r.chunks); k++ {
			s := hexArg(r.chunks[k].data)
			if r.chunks[k].with && k == len(r.chunks)-1 {
				s += "!"
			}
			out = append(out, s)
		}
	}
	if len(out) == 0 {
		return "-"
	}
	return strings.Join(out, ",")
}

func parseScript(final string, fields []string) *scriptReader {
	r := &scriptReader{final: io.EOF}
	if final == "err" {
		r.final = errScript
	}
	for k, f := range fields {
		with := false
		if strings.HasSuffix(f, "!") {
			f = f[:len(f)-1]
			with = k == len(fields)-1
		}
		r.chunks = append(r.chunks, scriptChunk{data: append([]byte{}, unhexArg(f)...), with: with})
	}
	return r
}

type streamDec interface {
	Decode(interface{}) error
	UseNumber()
}

// sonic's stream decoders also validate string contents (as encoding/json does), so that the inner
// one-value decoder accepts the strict grammar; what is under test here is the streaming around it
type stringValidator interface{ ValidateString() }

type noValue struct{}

type offsetter interface{ InputOffset() int64 }

const streamMaxCalls = 200

func canonValue(v interface{}) string {
	var bb bytes.Buffer
	e := json.NewEncoder(&bb)
	e.SetEscapeHTML(false)
	if err := e.Encode(v); err != nil {
		return "21" // "!"
	}
	return hexArg(bytes.TrimRight(bb.Bytes(), "\n"))
}

func classifyReadErr(err error) string {
	switch {
	case err == io.EOF:
		return "eof"
	case err == errScript:
		return "rerr"
	default:
		return "syntax"
	}
}

func runStreamDecoder(d streamDec) string {
	d.UseNumber()
	vals := []string{}
	term := "more"
	off, hasOff := d.(offsetter)
	for k := 0; k < streamMaxCalls; k++ {
		var before int64
		if hasOff {
			before = off.InputOffset()
		}
		var v interface{} = noValue{} // sentinel: a Decode that stores nothing leaves it in place
		err := d.Decode(&v)
		if err != nil {
			term = classifyReadErr(err)
			break
		}
		if v == interface{}(noValue{}) || (hasOff && off.InputOffset() == before) {
			// success reported without a value / without consuming input
			term = "noprogress"
			break
		}
		vals = append(vals, canonValue(v))
	}
	vs := "-"
	if len(vals) > 0 {
		vs = strings.Join(vals, ",")
	}
	return vs + "|" + term
}

type scriptWriter struct {
	script []string
	k      int
	got    []byte
	tok    string // what happened to the writes of the current Encode: 0 | F (a write failed) | N (the write of "\n" failed) | P (short write, nil error)
}

func (w *scriptWriter) note(p []byte, failed bool) {
	t := "P"
	if failed {
		t = "F"
		if string(p) == "\n" {
			t = "N"
		}
	}
	if w.tok == "0" || (w.tok == "P" && failed) {
		w.tok = t
	}
}

func (w *scriptWriter) Write(p []byte) (int, error) {
	act := "ok"
	if w.k < len(w.script) {
		act = w.script[w.k]
	}
	w.k++
	switch {
	case act == "ok" || act == "":
		w.got = append(w.got, p...)
		return len(p), nil
	case act[0] == 'p' || act[0] == 'f':
		n, _ := strconv.Atoi(act[1:])
		if n > len(p) {
			n = len(p)
		}
		w.got = append(w.got, p[:n]...)
		if act[0] == 'f' {
			w.note(p, true)
			return n, errScript
		}
		if n < len(p) {
			w.note(p, false)
		}
		return n, nil
	}
	panic("bad writer script")
}

func classifyWriteErr(err error) string {
	switch {
	case err == nil:
		return "0"
	case err == errScript:
		return "E"
	default:
		return "X"
	}
}

// sinkValue: <hex> = JSON text (decoded with encoding/json + UseNumber); S<hex> = a Go string with exactly
// these bytes (ill-formed UTF-8 allowed); L<hex>.<hex>... = []interface{} of such strings;
// M<hex>=<hex> = map[string]interface{} with one such pair
func sinkValue(f string) (interface{}, bool) {
	raw := func(h string) string {
		if h == "" {
			return ""
		}
		return string(unhexArg(h))
	}
	switch {
	case strings.HasPrefix(f, "S"):
		return raw(f[1:]), true
	case strings.HasPrefix(f, "L"):
		l := []interface{}{}
		for _, x := range strings.Split(f[1:], ".") {
			l = append(l, raw(x))
		}
		return l, true
	case strings.HasPrefix(f, "M"):
		kv := strings.SplitN(f[1:], "=", 2)
		if len(kv) != 2 {
			return nil, false
		}
		return map[string]interface{}{raw(kv[0]): raw(kv[1])}, true
	}
	dec := json.NewDecoder(bytes.NewReader(unhexArg(f)))
	dec.UseNumber()
	var v interface{}
	if err := dec.Decode(&v); err != nil {
		return nil, false
	}
	return v, true
}

func init() {
	registerOp("stream", func(a []string) string {
		if len(a) < 2 {
			return "sonic=unsupported"
		}
		mk := func() *scriptReader { return parseScript(a[1], a[2:]) }
		r := mk()
		var d streamDec
		switch a[0] {
		case "d":
			d = decoder.NewStreamDecoder(r)
		case "c":
			d = sonic.ConfigDefault.NewDecoder(r).(streamDec)
		case "s":
			d = sonic.ConfigStd.NewDecoder(r).(streamDec)
		default:
			return "sonic=unsupported"
		}
		if sv, ok := d.(stringValidator); ok {
			sv.ValidateString()
		}
		res := runStreamDecoder(d)
		eff := r.effective()
		ref := runStreamDecoder(json.NewDecoder(mk()))
		return "sonic=" + res + "\tref=" + ref + "\teff=" + eff
	})

	registerOp("sink", func(a []string) string {
		if len(a) < 2 {
			return "sonic=unsupported"
		}
		noNL := strings.Contains(a[0], "n")
		indent := strings.Contains(a[0], "i")
		escHTML := strings.Contains(a[0], "h")
		valStr := strings.Contains(a[0], "v")
		sortKeys := !strings.Contains(a[0], "u")
		viaConfig := strings.Contains(a[0], "C")
		var script []string
		if a[1] != "-" {
			script = strings.Split(a[1], ",")
		}
		var vals []interface{}
		for _, h := range a[2:] {
			v, ok := sinkValue(h)
			if !ok {
				return "sonic=unsupported"
			}
			vals = append(vals, v)
		}
		opts := encoder.Options(0)
		if sortKeys {
			opts |= encoder.SortMapKeys
		}
		if escHTML {
			opts |= encoder.EscapeHTML
		}
		if valStr {
			opts |= encoder.ValidateString
		}
		w := &scriptWriter{script: script}
		// the stream encoder under test, and the same configuration's Marshal
		var enc interface{ Encode(interface{}) error }
		var marshal func(interface{}) ([]byte, error)
		if viaConfig {
			api := sonic.Config{EscapeHTML: escHTML, SortMapKeys: sortKeys, ValidateString: valStr, NoEncoderNewline: noNL}.Froze()
			e := api.NewEncoder(w)
			if indent {
				e.SetIndent("", " ")
			}
			enc, marshal = e, api.Marshal
		} else {
			e := encoder.NewStreamEncoder(w)
			if sortKeys {
				e.SortKeys()
			}
			e.SetEscapeHTML(escHTML)
			e.SetValidateString(valStr)
			e.SetNoEncoderNewline(noNL)
			if indent {
				e.SetIndent("", " ")
			}
			enc, marshal = e, func(v interface{}) ([]byte, error) { return encoder.Encode(v, opts) }
		}
		errs := []string{}
		marsh := []string{}
		toks := []string{}
		for _, v := range vals {
			m, merr := marshal(v)
			if merr == nil && indent {
				// "Marshal's bytes", indented as the Encoder was told to
				var ib bytes.Buffer
				if merr = json.Indent(&ib, m, "", " "); merr == nil {
					m = ib.Bytes()
				}
			}
			if merr != nil {
				return "sonic=unsupported"
			}
			marsh = append(marsh, hexArg(m))
			w.tok = "0"
			errs = append(errs, classifyWriteErr(enc.Encode(v)))
			toks = append(toks, w.tok)
		}
		// reference: encoding/json.Encoder (one Write per Encode, always a newline)
		rw := &scriptWriter{script: script}
		renc := json.NewEncoder(rw)
		renc.SetEscapeHTML(false)
		if indent {
			renc.SetIndent("", " ")
		}
		rerrs := []string{}
		for _, v := range vals {
			rerrs = append(rerrs, classifyWriteErr(renc.Encode(v)))
		}
		j := func(x []string) string {
			if len(x) == 0 {
				return "-"
			}
			return strings.Join(x, ",")
		}
		return "sonic=" + hexArg(w.got) + "|" + j(errs) + "\tmarshal=" + j(marsh) +
			"\tref=" + hexArg(rw.got) + "|" + j(rerrs) + "\twrites=" + itoa(w.k) + "\twfail=" + j(toks)
	})
}
