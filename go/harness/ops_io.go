package main

// C17 - stream decoder / stream encoder driven by scripted io.Reader / io.Writer.
//
//   stream <opts> <final> <chunk> <chunk> ...
//      opts : one of d (decoder.NewStreamDecoder), c (ConfigDefault.NewDecoder), s (ConfigStd.NewDecoder)
//      final: eof | err      what the reader returns once the script is exhausted (err = a fixed non-EOF error)
//      chunk: <hex> | -      one Read result (- = a Read that returns 0 bytes, nil error);
//             a trailing "!" on the LAST chunk means the data is returned together with the final error.
//      answer: sonic=<values>|<terminal>  ref=<values>|<terminal>  eff=<chunk,chunk,...>
//        values  : comma separated hex of the canonical re-marshalling of each decoded value (- = none)
//        terminal: eof | syntax | rerr | noprogress | more
//        eff     : the Read results the decoder actually received (a chunk larger than the free
//                  buffer space is delivered in pieces), followed by the unread rest of the script
//
//   sink <opts> <wscript> <value> <value> ...
//      opts   : letters n (NoEncoderNewline), i (SetIndent("", " ")), - for none
//      wscript: comma separated Write results by call index: ok | p<k> (accept k bytes, nil error)
//               | f<k> (accept k bytes, return the writer's error); - = empty; after the script: ok
//      value  : hex of a JSON text (decoded with encoding/json+UseNumber, then Encode()d)
//      answer : sonic=<delivered hex>|<per-Encode 0/E/X>  marshal=<hex,hex,...>  ref=<delivered>|<errs>
//               wfail=<per Encode: 0 | F (a write failed) | N (the write of the newline failed) | P (short write without error)>

import (
	"bytes"
	"encoding/json"
	"errors"
	"io"
	"strconv"
	"strings"

	"github.com/bytedance/sonic"
	"github.com/bytedance/sonic/decoder"
	"github.com/bytedance/sonic/encoder"
)

var errScript = errors.New("scripted failure")

type scriptChunk struct {
	data []byte
	with bool // deliver the final error together with this (last) chunk
}

type scriptReader struct {
	chunks []scriptChunk
	i      int
	final  error
	done   bool
	eff    []string // what each Read call returned
}

func (r *scriptReader) Read(p []byte) (int, error) {
	if r.done || r.i >= len(r.chunks) {
		r.done = true
		r.eff = append(r.eff, "-!")
		return 0, r.final
	}
	c := &r.chunks[r.i]
	n := copy(p, c.data)
	if n < len(c.data) {
		c.data = c.data[n:]
		r.eff = append(r.eff, hexArg(p[:n]))
		return n, nil
	}
	r.i++
	if c.with && r.i >= len(r.chunks) {
		r.done = true
		r.eff = append(r.eff, hexArg(p[:n])+"!")
		return n, r.final
	}
	r.eff = append(r.eff, hexArg(p[:n]))
	return n, nil
}

// effective script: reads made so far (without the trailing exhausted reads) + unread rest
func (r *scriptReader) effective() string {
	out := []string{}
	for _, e := range r.eff {
		if e == "-!" {
			continue
		}
		out = append(out, e)
	}
	if !r.done {
		for k := r.i; k < len(r.chunks); k++ {
			s := hexArg(r.chunks[k].data)
			if r.chunks[k].with && k == len(r.chunks)-1 {
				s += "!"
			}
			out = append(out, s)
		}
	}
	if len(out) == 0 {
		return "-"
	}
	return strings.Join(out, ",")
}

func parseScript(final string, fields []string) *scriptReader {
	r := &scriptReader{final: io.EOF}
	if final == "err" {
		r.final = errScript
	}
	for k, f := range fields {
		with := false
		if strings.HasSuffix(f, "!") {
			f = f[:len(f)-1]
			with = k == len(fields)-1
		}
		r.chunks = append(r.chunks, scriptChunk{data: append([]byte{}, unhexArg(f)...), with: with})
	}
	return r
}

type streamDec interface {
	Decode(interface{}) error
	UseNumber()
}

// sonic's stream decoders also validate string contents (as encoding/json does), so that the inner
// one-value decoder accepts the strict grammar; what is under test here is the streaming around it
type stringValidator interface{ ValidateString() }

type noValue struct{}

type offsetter interface{ InputOffset() int64 }

const streamMaxCalls = 200

func canonValue(v interface{}) string {
	var bb bytes.Buffer
	e := json.NewEncoder(&bb)
	e.SetEscapeHTML(false)
	if err := e.Encode(v); err != nil {
		return "21" // "!"
	}
	return hexArg(bytes.TrimRight(bb.Bytes(), "\n"))
}

func classifyReadErr(err error) string {
	switch {
	case err == io.EOF:
		return "eof"
	case err == errScript:
		return "rerr"
	default:
		return "syntax"
	}
}

func runStreamDecoder(d streamDec) string {
	d.UseNumber()
	vals := []string{}
	term := "more"
	off, hasOff := d.(offsetter)
	for k := 0; k < streamMaxCalls; k++ {
		var before int64
		if hasOff {
			before = off.InputOffset()
		}
		var v interface{} = noValue{} // sentinel: a Decode that stores nothing leaves it in place
		err := d.Decode(&v)
		if err != nil {
			term = classifyReadErr(err)
			break
		}
		if v == interface{}(noValue{}) || (hasOff && off.InputOffset() == before) {
			// success reported without a value / without consuming input
			term = "noprogress"
			break
		}
		vals = append(vals, canonValue(v))
	}
	vs := "-"
	if len(vals) > 0 {
		vs = strings.Join(vals, ",")
	}
	return vs + "|" + term
}

type scriptWriter struct {
	script []string
	k      int
	got    []byte
	tok    string // what happened to the writes of the current Encode: 0 | F (a write failed) | N (the write of "\n" failed) | P (short write, nil error)
}

func (w *scriptWriter) note(p []byte, failed bool) {
	t := "P"
	if failed {
		t = "F"
		if string(p) == "\n" {
			t = "N"
		}
	}
	if w.tok == "0" || (w.tok == "P" && failed) {
		w.tok = t
	}
}

func (w *scriptWriter) Write(p []byte) (int, error) {
	act := "ok"
	if w.k < len(w.script) {
		act = w.script[w.k]
	}
	w.k++
	switch {
	case act == "ok" || act == "":
		w.got = append(w.got, p...)
		return len(p), nil
	case act[0] == 'p' || act[0] == 'f':
		n, _ := strconv.Atoi(act[1:])
		if n > len(p) {
			n = len(p)
		}
		w.got = append(w.got, p[:n]...)
		if act[0] == 'f' {
			w.note(p, true)
			return n, errScript
		}
		if n < len(p) {
			w.note(p, false)
		}
		return n, nil
	}
	panic("bad writer script")
}

func classifyWriteErr(err error) string {
	switch {
	case err == nil:
		return "0"
	case err == errScript:
		return "E"
	default:
		return "X"
	}
}

func init() {
	registerOp("stream", func(a []string) string {
		if len(a) < 2 {
			return "sonic=unsupported"
		}
		mk := func() *scriptReader { return parseScript(a[1], a[2:]) }
		r := mk()
		var d streamDec
		switch a[0] {
		case "d":
			d = decoder.NewStreamDecoder(r)
		case "c":
			d = sonic.ConfigDefault.NewDecoder(r).(streamDec)
		case "s":
			d = sonic.ConfigStd.NewDecoder(r).(streamDec)
		default:
			return "sonic=unsupported"
		}
		if sv, ok := d.(stringValidator); ok {
			sv.ValidateString()
		}
		res := runStreamDecoder(d)
		eff := r.effective()
		ref := runStreamDecoder(json.NewDecoder(mk()))
		return "sonic=" + res + "\tref=" + ref + "\teff=" + eff
	})

	registerOp("sink", func(a []string) string {
		if len(a) < 2 {
			return "sonic=unsupported"
		}
		noNL := strings.Contains(a[0], "n")
		indent := strings.Contains(a[0], "i")
		var script []string
		if a[1] != "-" {
			script = strings.Split(a[1], ",")
		}
		var vals []interface{}
		for _, h := range a[2:] {
			dec := json.NewDecoder(bytes.NewReader(unhexArg(h)))
			dec.UseNumber()
			var v interface{}
			if err := dec.Decode(&v); err != nil {
				return "sonic=unsupported"
			}
			vals = append(vals, v)
		}
		opts := encoder.SortMapKeys
		w := &scriptWriter{script: script}
		enc := encoder.NewStreamEncoder(w)
		enc.Opts = opts
		if noNL {
			enc.SetNoEncoderNewline(true)
		}
		if indent {
			enc.SetIndent("", " ")
		}
		errs := []string{}
		marsh := []string{}
		toks := []string{}
		for _, v := range vals {
			var m []byte
			var merr error
			if indent {
				m, merr = encoder.EncodeIndented(v, "", " ", opts)
			} else {
				m, merr = encoder.Encode(v, opts)
			}
			if merr != nil {
				return "sonic=unsupported"
			}
			marsh = append(marsh, hexArg(m))
			w.tok = "0"
			errs = append(errs, classifyWriteErr(enc.Encode(v)))
			toks = append(toks, w.tok)
		}
		// reference: encoding/json.Encoder (one Write per Encode, always a newline)
		rw := &scriptWriter{script: script}
		renc := json.NewEncoder(rw)
		renc.SetEscapeHTML(false)
		if indent {
			renc.SetIndent("", " ")
		}
		rerrs := []string{}
		for _, v := range vals {
			rerrs = append(rerrs, classifyWriteErr(renc.Encode(v)))
		}
		j := func(x []string) string {
			if len(x) == 0 {
				return "-"
			}
			return strings.Join(x, ",")
		}
		return "sonic=" + hexArg(w.got) + "|" + j(errs) + "\tmarshal=" + j(marsh) +
			"\tref=" + hexArg(rw.got) + "|" + j(rerrs) + "\twrites=" + itoa(w.k) + "\twfail=" + j(toks)
	})
}
