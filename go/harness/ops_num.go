package main

// C19 operations: number literal -> Go value (atof), float bits -> text (ftoa), integer -> text (itoa).
//
//   atof <kind> <lit hex>     kind = f64 f32 i8 i16 i32 i64 int u8 u16 u32 u64 uint num any any_usenumber any_useint64
//       sonic= ConfigStd.Unmarshal   def= ConfigDefault.Unmarshal (with the kind's option)
//       ast= sonic.Get(lit).Float64/StrictInt64/Number/InterfaceUseNumber  (astcast= Node.Int64, a documented cast)
//       nest= ConfigStd `[lit]` into []T     fld= ConfigDefault `{"a":lit}` into struct{A T}
//       ref=   encoding/json          ref2= strconv.ParseFloat / ParseInt / ParseUint (only for literals encoding/json accepts as JSON)
//   ftoa <f64|f32> <bits hex>  sonic= sonic.Marshal   def= ConfigDefault.Marshal   ref= encoding/json   ref2= strconv.AppendFloat(shortest) digits
//   itoa <kind> <decimal n>    sonic= sonic.Marshal of that integer type   ref= strconv.FormatInt/FormatUint
//
// results: ok:<payload> | err:<syntax|range|mismatch|other>
//   payload: f64 -> 16 hex digits of the bit pattern, f32 -> 8 hex digits, integers -> decimal,
//   num -> hex of the text, any -> f:<bits> | i:<n> | n:<hex text>

import (
	"encoding/json"
	"errors"
	"fmt"
	"io"
	"math"
	"math/big"
	"reflect"
	"strconv"
	"strings"

	"github.com/bytedance/sonic"
	"github.com/bytedance/sonic/ast"
	"github.com/bytedance/sonic/decoder"
)

func numErrKind(err error) string {
	if err == nil {
		return ""
	}
	var se *json.SyntaxError
	var te *json.UnmarshalTypeError
	var ds decoder.SyntaxError
	var dm *decoder.MismatchTypeError
	var ne *strconv.NumError
	switch {
	case errors.Is(err, io.EOF), errors.Is(err, io.ErrUnexpectedEOF):
		return "syntax"
	case errors.As(err, &se):
		return "syntax"
	case errors.As(err, &ds):
		return "syntax"
	case errors.As(err, &te):
		return "mismatch"
	case errors.As(err, &dm):
		return "mismatch"
	case errors.As(err, &ne):
		if ne.Err == strconv.ErrRange {
			return "range"
		}
		return "syntax"
	}
	msg := err.Error()
	switch {
	case strings.Contains(msg, "Syntax error"), strings.Contains(msg, "invalid char"), strings.Contains(msg, "unexpected end"), strings.Contains(msg, "invalid character"):
		return "syntax"
	case strings.Contains(msg, "Mismatch type"), strings.Contains(msg, "cannot unmarshal"), strings.Contains(msg, "unsupported"):
		return "mismatch"
	case strings.Contains(msg, "out of range"), strings.Contains(msg, "overflow"), strings.Contains(msg, "exceeds"):
		return "range"
	}
	return "other"
}

func fmtAny(v interface{}) string {
	switch x := v.(type) {
	case float64:
		return fmt.Sprintf("f:%016x", math.Float64bits(x))
	case int64:
		return "i:" + strconv.FormatInt(x, 10)
	case json.Number:
		return "n:" + hexArg([]byte(x))
	case nil:
		return "nil"
	}
	return fmt.Sprintf("other:%T", v)
}

// payload of the value stored in *p (p is a pointer produced by numDest)
func numPayload(kind string, p interface{}) string {
	switch v := p.(type) {
	case *float64:
		return fmt.Sprintf("%016x", math.Float64bits(*v))
	case *float32:
		return fmt.Sprintf("%08x", math.Float32bits(*v))
	case *json.Number:
		return hexArg([]byte(*v))
	case *interface{}:
		return fmtAny(*v)
	}
	rv := reflect.ValueOf(p).Elem()
	switch rv.Kind() {
	case reflect.Int, reflect.Int8, reflect.Int16, reflect.Int32, reflect.Int64:
		return strconv.FormatInt(rv.Int(), 10)
	case reflect.Uint, reflect.Uint8, reflect.Uint16, reflect.Uint32, reflect.Uint64:
		return strconv.FormatUint(rv.Uint(), 10)
	}
	return "?"
}

func numDest(kind string) interface{} {
	switch kind {
	case "f64":
		return new(float64)
	case "f32":
		return new(float32)
	case "i8":
		return new(int8)
	case "i16":
		return new(int16)
	case "i32":
		return new(int32)
	case "i64":
		return new(int64)
	case "int":
		return new(int)
	case "u8":
		return new(uint8)
	case "u16":
		return new(uint16)
	case "u32":
		return new(uint32)
	case "u64":
		return new(uint64)
	case "uint":
		return new(uint)
	case "num":
		return new(json.Number)
	case "any", "any_usenumber", "any_useint64":
		return new(interface{})
	}
	return nil
}

var (
	cfgStdUseNumber = sonic.Config{EscapeHTML: true, SortMapKeys: true, CompactMarshaler: true, CopyString: true, ValidateString: true, UseNumber: true}.Froze()
	cfgStdUseInt64  = sonic.Config{EscapeHTML: true, SortMapKeys: true, CompactMarshaler: true, CopyString: true, ValidateString: true, UseInt64: true}.Froze()
	cfgDefUseNumber = sonic.Config{UseNumber: true}.Froze()
	cfgDefUseInt64  = sonic.Config{UseInt64: true}.Froze()
)

func resStr(kind string, p interface{}, err error) string {
	if err != nil {
		return "err:" + numErrKind(err)
	}
	return "ok:" + numPayload(kind, p)
}

func intBits(kind string) (bits int, unsigned bool, isInt bool) {
	switch kind {
	case "i8":
		return 8, false, true
	case "i16":
		return 16, false, true
	case "i32":
		return 32, false, true
	case "i64":
		return 64, false, true
	case "int":
		return strconv.IntSize, false, true
	case "u8":
		return 8, true, true
	case "u16":
		return 16, true, true
	case "u32":
		return 32, true, true
	case "u64":
		return 64, true, true
	case "uint":
		return strconv.IntSize, true, true
	}
	return 0, false, false
}

func atofAst(kind string, lit string) string {
	n, err := sonic.GetFromString(lit)
	if err != nil {
		return "err:" + numErrKind(err)
	}
	if n.TypeSafe() != ast.V_NUMBER {
		return "err:mismatch"
	}
	switch kind {
	case "f64", "any":
		f, e := n.Float64()
		if e != nil {
			return "err:" + numErrKind(e)
		}
		if kind == "any" {
			return "ok:" + fmtAny(f)
		}
		return fmt.Sprintf("ok:%016x", math.Float64bits(f))
	case "i64", "int":
		i, e := n.StrictInt64()
		if e != nil {
			return "err:" + numErrKind(e)
		}
		// Node.Int64 is documented as a cast (it converts through float64 when the text is not an
		// int64 literal); reported apart and judged only on integer literals in range.
		c, ce := n.Int64()
		cast := "err:" + numErrKind(ce)
		if ce == nil {
			cast = "ok:" + strconv.FormatInt(c, 10)
		}
		return "ok:" + strconv.FormatInt(i, 10) + "\tastcast=" + cast
	case "num":
		x, e := n.Number()
		if e != nil {
			return "err:" + numErrKind(e)
		}
		return "ok:" + hexArg([]byte(x))
	case "any_usenumber":
		x, e := n.InterfaceUseNumber()
		if e != nil {
			return "err:" + numErrKind(e)
		}
		return "ok:" + fmtAny(x)
	}
	return "na"
}

// nestDecode decodes the literal as the only element of an array into []T (mode 0) or as the value
// of the only member of an object into struct{A T} (mode 1): nested values take other code paths
// in the decoders than a top-level value.  Only judged for well-formed literals.
func nestDecode(api sonic.API, kind string, lit []byte, mode int) string {
	et := reflect.TypeOf(numDest(kind)).Elem()
	if mode == 0 {
		doc := append(append([]byte("["), lit...), ']')
		pv := reflect.New(reflect.SliceOf(et))
		if err := api.Unmarshal(doc, pv.Interface()); err != nil {
			return "err:" + numErrKind(err)
		}
		if pv.Elem().Len() != 1 {
			return "err:shape"
		}
		return "ok:" + numPayload(kind, pv.Elem().Index(0).Addr().Interface())
	}
	doc := append(append([]byte(`{"a":`), lit...), '}')
	st := reflect.StructOf([]reflect.StructField{{Name: "A", Type: et, Tag: `json:"a"`}})
	pv := reflect.New(st)
	if err := api.Unmarshal(doc, pv.Interface()); err != nil {
		return "err:" + numErrKind(err)
	}
	return "ok:" + numPayload(kind, pv.Elem().Field(0).Addr().Interface())
}

func atofRef2(kind, lit string) string {
	switch kind {
	case "f64", "any", "any_useint64":
		f, e := strconv.ParseFloat(lit, 64)
		if e != nil {
			return "err:" + numErrKind(e)
		}
		if kind != "f64" {
			return "ok:" + fmtAny(f)
		}
		return fmt.Sprintf("ok:%016x", math.Float64bits(f))
	case "f32":
		f, e := strconv.ParseFloat(lit, 32)
		if e != nil {
			return "err:" + numErrKind(e)
		}
		return fmt.Sprintf("ok:%08x", math.Float32bits(float32(f)))
	}
	if bits, uns, ok := intBits(kind); ok {
		if uns {
			u, e := strconv.ParseUint(lit, 10, bits)
			if e != nil {
				return "err:" + numErrKind(e)
			}
			return "ok:" + strconv.FormatUint(u, 10)
		}
		i, e := strconv.ParseInt(lit, 10, bits)
		if e != nil {
			return "err:" + numErrKind(e)
		}
		return "ok:" + strconv.FormatInt(i, 10)
	}
	return "na"
}

// number of digits before the fraction / exponent part
func intDigits(lit []byte) int {
	n := 0
	for _, c := range lit {
		if c == '-' {
			continue
		}
		if c < '0' || c > '9' {
			break
		}
		n++
	}
	return n
}

// atofRefBig: second executable reference with exact rational arithmetic (math/big), used where
// Go's strconv (1.23.5) itself is not correctly rounded: decimal.set keeps 800 digits and, when more
// than 800 digits precede the decimal point, loses the position of the point (slow path only).
func atofRefBig(kind, lit string) string {
	switch kind {
	case "f64", "f32", "any", "any_useint64":
	default:
		return "na"
	}
	if i := strings.IndexAny(lit, "eE"); i >= 0 {
		if x := strings.TrimLeft(strings.TrimLeft(lit[i+1:], "+-"), "0"); len(x) > 5 {
			return "na" // keep the rational small; such exponents are decided by magnitude alone
		}
	}
	r, ok := new(big.Rat).SetString(lit)
	if !ok {
		return "na"
	}
	neg := strings.HasPrefix(lit, "-")
	if kind == "f32" {
		f, _ := r.Float32()
		if math.IsInf(float64(f), 0) {
			return "err:range"
		}
		b := math.Float32bits(f)
		if neg {
			b |= 1 << 31
		}
		return fmt.Sprintf("ok:%08x", b)
	}
	f, _ := r.Float64()
	if math.IsInf(f, 0) {
		return "err:range"
	}
	b := math.Float64bits(f)
	if neg {
		b |= 1 << 63
	}
	if kind == "f64" {
		return fmt.Sprintf("ok:%016x", b)
	}
	return fmt.Sprintf("ok:f:%016x", b)
}

func init() {
	registerOp("atof", func(a []string) string {
		kind := a[0]
		lit := unhexArg(a[1])
		if numDest(kind) == nil {
			return "sonic=unsupported"
		}
		var std, def sonic.API = sonic.ConfigStd, sonic.ConfigDefault
		dec := json.NewDecoder(strings.NewReader(string(lit)))
		switch kind {
		case "any_usenumber":
			std, def = cfgStdUseNumber, cfgDefUseNumber
			dec.UseNumber()
		case "any_useint64":
			std, def = cfgStdUseInt64, cfgDefUseInt64
		}
		p1 := numDest(kind)
		e1 := std.Unmarshal(lit, p1)
		p2 := numDest(kind)
		e2 := def.Unmarshal(lit, p2)
		p3 := numDest(kind)
		var e3 error
		if kind == "any_usenumber" {
			e3 = dec.Decode(p3)
			if e3 == nil && dec.More() {
				e3 = &json.SyntaxError{}
			}
			if e3 == nil {
				// Decode stops after the first value; make sure the whole input was one value
				if !json.Valid(lit) {
					e3 = &json.SyntaxError{}
				}
			}
		} else {
			e3 = json.Unmarshal(lit, p3)
		}
		out := "sonic=" + resStr(kind, p1, e1) + "\tdef=" + resStr(kind, p2, e2) + "\tast=" + atofAst(kind, string(lit)) +
			"\tnest=" + nestDecode(std, kind, lit, 0) + "\tfld=" + nestDecode(def, kind, lit, 1) +
			"\tref=" + resStr(kind, p3, e3)
		if json.Valid(lit) && len(lit) > 0 && (lit[0] == '-' || (lit[0] >= '0' && lit[0] <= '9')) {
			out += "\tref2=" + atofRef2(kind, string(lit))
			if intDigits(lit) > 800 {
				out += "\trefbig=" + atofRefBig(kind, string(lit))
				if kind == "f32" {
					out += "\tref64=" + atofRef2("f64", string(lit)) + "\trefbig64=" + atofRefBig("f64", string(lit))
				}
			}
		} else {
			out += "\tref2=na"
		}
		return out
	})

	registerOp("ftoa", func(a []string) string {
		kind := a[0]
		bits, err := strconv.ParseUint(a[1], 16, 64)
		if err != nil {
			return "sonic=unsupported"
		}
		var v interface{}
		var f64 float64
		bs := 64
		switch kind {
		case "f64":
			f64 = math.Float64frombits(bits)
			v = f64
		case "f32":
			f32 := math.Float32frombits(uint32(bits))
			f64 = float64(f32)
			v = f32
			bs = 32
		default:
			return "sonic=unsupported"
		}
		res := func(b []byte, e error) string {
			if e != nil {
				return "err:" + numErrKind(e)
			}
			return "ok:" + hexArg(b)
		}
		s1, e1 := sonic.ConfigStd.Marshal(v)
		s2, e2 := sonic.ConfigDefault.Marshal(v)
		r, e3 := json.Marshal(v)
		out := "sonic=" + res(s1, e1) + "\tdef=" + res(s2, e2) + "\tref=" + res(r, e3)
		if !math.IsNaN(f64) && !math.IsInf(f64, 0) {
			out += "\tref2=ok:" + hexArg(strconv.AppendFloat(nil, f64, 'e', -1, bs))
		} else {
			out += "\tref2=na"
		}
		return out
	})

	registerOp("itoa", func(a []string) string {
		kind := a[0]
		bits, uns, ok := intBits(kind)
		if !ok {
			return "sonic=unsupported"
		}
		p := numDest(kind)
		rv := reflect.ValueOf(p).Elem()
		var ref string
		if uns {
			u, err := strconv.ParseUint(a[1], 10, bits)
			if err != nil {
				return "sonic=unsupported"
			}
			rv.SetUint(u)
			ref = strconv.FormatUint(u, 10)
		} else {
			i, err := strconv.ParseInt(a[1], 10, bits)
			if err != nil {
				return "sonic=unsupported"
			}
			rv.SetInt(i)
			ref = strconv.FormatInt(i, 10)
		}
		res := func(b []byte, e error) string {
			if e != nil {
				return "err:" + numErrKind(e)
			}
			return "ok:" + hexArg(b)
		}
		s1, e1 := sonic.ConfigStd.Marshal(rv.Interface())
		s2, e2 := sonic.ConfigDefault.Marshal(rv.Interface())
		r, e3 := json.Marshal(rv.Interface())
		return "sonic=" + res(s1, e1) + "\tdef=" + res(s2, e2) + "\tref=" + res(r, e3) + "\tref2=ok:" + hexArg([]byte(ref))
	})
}
