// Command factx is the translator that ties the Lean facts to the source: it re-reads the
// repository on every run (type-checked with go/packages) and regenerates
// lean/SonicSpec/Generated/*.lean: named constants, the Config -> option-bit wiring of
// Froze, the setter methods' bit effects, the stock configurations, and straight-line
// integer functions translated statement by statement into `Id.run do` blocks.
//
// It is deliberately dumb: any source shape it does not recognise is an error (exit 1,
// message on stderr) - never a guess.
//
//	usage: factx <repo root> <output dir>
package main

import (
	"fmt"
	"go/ast"
	"go/constant"
	"go/token"
	"go/types"
	"os"
	"path/filepath"
	"sort"
	"strings"

	"golang.org/x/tools/go/packages"
)

const mod = "github.com/bytedance/sonic"

var failed []string

func fail(format string, a ...interface{}) {
	failed = append(failed, fmt.Sprintf(format, a...))
}

type loaded struct {
	pkgs map[string]*packages.Package
}

func load(root string, paths []string) *loaded {
	cfg := &packages.Config{
		Mode: packages.NeedName | packages.NeedFiles | packages.NeedSyntax | packages.NeedTypes | packages.NeedTypesInfo | packages.NeedImports,
		Dir:  root,
		Env:  append(os.Environ(), "GOFLAGS=", "GOPROXY=off", "GOSUMDB=off", "GOTOOLCHAIN=local"),
	}
	full := make([]string, len(paths))
	for i, p := range paths {
		if p == "" {
			full[i] = mod
		} else {
			full[i] = mod + "/" + p
		}
	}
	ps, err := packages.Load(cfg, full...)
	if err != nil {
		fmt.Fprintln(os.Stderr, "factx: load:", err)
		os.Exit(1)
	}
	l := &loaded{pkgs: map[string]*packages.Package{}}
	for _, p := range ps {
		for _, e := range p.Errors {
			fail("package %s: %v", p.PkgPath, e)
		}
		l.pkgs[strings.TrimPrefix(strings.TrimPrefix(p.PkgPath, mod), "/")] = p
	}
	return l
}

func (l *loaded) pkg(rel string) *packages.Package {
	p := l.pkgs[rel]
	if p == nil || p.Types == nil {
		fail("package %q not loaded", rel)
		return nil
	}
	return p
}

// constInt returns the exact integer value of a package-level constant (or an integer
// variable initialised with a constant expression).
func (l *loaded) constInt(rel, name string) (string, bool) {
	p := l.pkg(rel)
	if p == nil {
		return "", false
	}
	obj := p.Types.Scope().Lookup(name)
	switch o := obj.(type) {
	case *types.Const:
		v := constant.ToInt(o.Val())
		if v.Kind() != constant.Int {
			fail("%s.%s is not an integer constant", rel, name)
			return "", false
		}
		return v.ExactString(), true
	case *types.Var:
		// var x = <constant expr>
		for _, f := range p.Syntax {
			for _, d := range f.Decls {
				gd, ok := d.(*ast.GenDecl)
				if !ok || gd.Tok != token.VAR {
					continue
				}
				for _, sp := range gd.Specs {
					vs := sp.(*ast.ValueSpec)
					for i, n := range vs.Names {
						if n.Name == name && i < len(vs.Values) {
							tv := p.TypesInfo.Types[vs.Values[i]]
							if tv.Value != nil {
								v := constant.ToInt(tv.Value)
								if v.Kind() == constant.Int {
									return v.ExactString(), true
								}
							}
						}
					}
				}
			}
		}
		fail("%s.%s: variable without constant integer initialiser", rel, name)
		return "", false
	}
	fail("%s.%s not found", rel, name)
	return "", false
}

func findFunc(p *packages.Package, recv, name string) *ast.FuncDecl {
	for _, f := range p.Syntax {
		for _, d := range f.Decls {
			fd, ok := d.(*ast.FuncDecl)
			if !ok || fd.Name.Name != name {
				continue
			}
			r := ""
			if fd.Recv != nil && len(fd.Recv.List) == 1 {
				t := fd.Recv.List[0].Type
				if st, ok := t.(*ast.StarExpr); ok {
					t = st.X
				}
				if id, ok := t.(*ast.Ident); ok {
					r = id.Name
				}
			}
			if r == recv {
				return fd
			}
		}
	}
	return nil
}

func leanStr(s string) string { return "\"" + s + "\"" }

func leanInt(v string) string {
	if strings.HasPrefix(v, "-") {
		return "(" + v + ")"
	}
	return v
}

// ---------------------------------------------------------------------------- constants

type constSpec struct{ pkg, name, lean string }

var curated = []constSpec{
	{"internal/native/types", "MAX_RECURSE", "maxRecurse"},
	{"internal/native/types", "BufPaddingSize", "bufPaddingSize"},
	{"internal/native/types", "B_DOUBLE_UNQUOTE", "bDoubleUnquote"},
	{"internal/native/types", "B_UNICODE_REPLACE", "bUnicodeReplace"},
	{"internal/native/types", "B_USE_NUMBER", "bUseNumber"},
	{"internal/native/types", "B_VALIDATE_STRING", "bValidateString"},
	{"internal/native/types", "B_ALLOW_CONTROL", "bAllowControl"},
	{"internal/native/types", "B_NO_VALIDATE_JSON", "bNoValidateJSON"},
	{"internal/decoder/consts", "MaxStack", "decMaxStack"},
	{"internal/decoder/consts", "F_use_int64", "fUseInt64"},
	{"internal/decoder/consts", "F_use_number", "fUseNumber"},
	{"internal/decoder/consts", "F_disable_urc", "fDisableUrc"},
	{"internal/decoder/consts", "F_disable_unknown", "fDisableUnknown"},
	{"internal/decoder/consts", "F_copy_string", "fCopyString"},
	{"internal/decoder/consts", "F_validate_string", "fValidateString"},
	{"internal/decoder/consts", "F_no_validate_json", "fNoValidateJSON"},
	{"internal/decoder/consts", "F_case_sensitive", "fCaseSensitive"},
	{"internal/encoder/vars", "MaxStack", "encMaxStack"},
	{"internal/encoder/vars", "StateSize", "encStateSize"},
	{"internal/encoder/vars", "StackLimit", "encStackLimit"},
	{"internal/encoder/vars", "MAX_ILBUF", "encMaxIlbuf"},
	{"internal/encoder/vars", "MAX_FIELDS", "encMaxFields"},
	{"internal/encoder/alg", "BitPointerValue", "bitPointerValue"},
	{"option", "DefaultDecoderBufferSize", "defaultDecoderBufferSize"},
	{"option", "DefaultEncoderBufferSize", "defaultEncoderBufferSize"},
	{"option", "DefaultAstBufferSize", "defaultAstBufferSize"},
	{"option", "LimitBufferSize", "limitBufferSize"},
	{"option", "DefaultRecursiveDepth", "defaultRecursiveDepth"},
	{"option", "DefaultMaxInlineDepth", "defaultMaxInlineDepth"},
	{"internal/caching", "_InitCapacity", "pcacheInitCapacity"},
	{"ast", "_DEFAULT_NODE_CAP", "astDefaultNodeCap"},
	{"ast", "_Threshold_Index", "astThresholdIndex"},
	{"ast", "_APPEND_GROW_SHIFT", "astAppendGrowShift"},
}

func genConsts(l *loaded) string {
	var b strings.Builder
	b.WriteString("/- GENERATED by go/factx from the repository's source on every run. Do not edit. -/\nnamespace SonicSpec.Gen\n\n")
	for _, c := range curated {
		v, ok := l.constInt(c.pkg, c.name)
		if !ok {
			continue
		}
		fmt.Fprintf(&b, "/-- %s.%s -/\ndef %s : Int := %s\n", c.pkg, c.name, c.lean, v)
	}
	// rational constants: numerator / denominator
	if p := l.pkg("internal/caching"); p != nil {
		if c, ok := p.Types.Scope().Lookup("_LoadFactor").(*types.Const); ok {
			num, den := constant.Num(c.Val()), constant.Denom(c.Val())
			if num.Kind() == constant.Int && den.Kind() == constant.Int {
				fmt.Fprintf(&b, "/-- internal/caching._LoadFactor as numerator / denominator -/\ndef pcacheLoadFactorNum : Int := %s\ndef pcacheLoadFactorDen : Int := %s\n", num.ExactString(), den.ExactString())
			} else {
				fail("internal/caching._LoadFactor is not rational")
			}
		} else {
			fail("internal/caching._LoadFactor not found")
		}
	}
	b.WriteString("\nend SonicSpec.Gen\n")
	return b.String()
}

// ---------------------------------------------------------------------------- options

type kv struct {
	k string
	v string
}

func constsOfType(p *packages.Package, typeName string) []kv {
	var out []kv
	sc := p.Types.Scope()
	names := sc.Names()
	for _, n := range names {
		c, ok := sc.Lookup(n).(*types.Const)
		if !ok {
			continue
		}
		nt, ok := c.Type().(*types.Named)
		if !ok {
			// alias of a named type
			if al, ok2 := c.Type().(*types.Alias); ok2 {
				nt, ok = types.Unalias(al).(*types.Named)
			}
			if !ok {
				continue
			}
		}
		if nt.Obj().Name() != typeName {
			continue
		}
		v := constant.ToInt(c.Val())
		if v.Kind() == constant.Int {
			out = append(out, kv{n, v.ExactString()})
		}
	}
	// declaration order is more readable than alphabetical: sort by position
	sort.SliceStable(out, func(i, j int) bool {
		return sc.Lookup(out[i].k).Pos() < sc.Lookup(out[j].k).Pos()
	})
	return out
}

func prefixConsts(p *packages.Package, prefix string) []kv {
	var out []kv
	sc := p.Types.Scope()
	for _, n := range sc.Names() {
		if !strings.HasPrefix(n, prefix) {
			continue
		}
		c, ok := sc.Lookup(n).(*types.Const)
		if !ok {
			continue
		}
		v := constant.ToInt(c.Val())
		if v.Kind() == constant.Int {
			out = append(out, kv{n, v.ExactString()})
		}
	}
	sort.SliceStable(out, func(i, j int) bool { return sc.Lookup(out[i].k).Pos() < sc.Lookup(out[j].k).Pos() })
	return out
}

func leanTable(name, doc string, rows []kv) string {
	var b strings.Builder
	fmt.Fprintf(&b, "/-- %s -/\ndef %s : List (String × Int) := [", doc, name)
	for i, r := range rows {
		if i > 0 {
			b.WriteString(",")
		}
		fmt.Fprintf(&b, "\n  (%s, %s)", leanStr(r.k), leanInt(r.v))
	}
	b.WriteString("]\n\n")
	return b.String()
}

// selector chain as text: cfg.EscapeHTML -> ["cfg","EscapeHTML"]
func selChain(e ast.Expr) []string {
	switch x := e.(type) {
	case *ast.Ident:
		return []string{x.Name}
	case *ast.SelectorExpr:
		c := selChain(x.X)
		if c == nil {
			return nil
		}
		return append(c, x.Sel.Name)
	case *ast.ParenExpr:
		return selChain(x.X)
	}
	return nil
}

func constVal(info *types.Info, e ast.Expr) (string, bool) {
	tv, ok := info.Types[e]
	if !ok || tv.Value == nil {
		return "", false
	}
	v := constant.ToInt(tv.Value)
	if v.Kind() != constant.Int {
		return "", false
	}
	return v.ExactString(), true
}

// Froze: `if cfg.F { api.T |= C }` statements only.
type wire struct{ field, target, mask, cname string }

func genFroze(l *loaded) (fields []string, wires []wire, stock [][2]interface{}) {
	p := l.pkg("")
	if p == nil {
		return
	}
	// Config fields
	obj := p.Types.Scope().Lookup("Config")
	if obj == nil {
		fail("type Config not found")
		return
	}
	st, ok := obj.Type().Underlying().(*types.Struct)
	if !ok {
		fail("Config is not a struct")
		return
	}
	for i := 0; i < st.NumFields(); i++ {
		f := st.Field(i)
		if b, ok := f.Type().Underlying().(*types.Basic); !ok || b.Kind() != types.Bool {
			fail("Config.%s is not a bool", f.Name())
			continue
		}
		fields = append(fields, f.Name())
	}
	fd := findFunc(p, "Config", "Froze")
	if fd == nil || fd.Body == nil {
		fail("Config.Froze not found")
		return
	}
	recv := fd.Recv.List[0].Names[0].Name
	for i, s := range fd.Body.List {
		switch x := s.(type) {
		case *ast.AssignStmt:
			if i == 0 && x.Tok == token.DEFINE {
				continue // api := &frozenConfig{Config: cfg}
			}
			fail("Froze: unexpected assignment at statement %d", i)
		case *ast.ReturnStmt:
			continue
		case *ast.IfStmt:
			if x.Init != nil || x.Else != nil {
				fail("Froze: if statement %d has init/else", i)
				continue
			}
			c := selChain(x.Cond)
			if len(c) != 2 || c[0] != recv {
				fail("Froze: condition of statement %d is not %s.<Field>", i, recv)
				continue
			}
			for _, bs := range x.Body.List {
				as, ok := bs.(*ast.AssignStmt)
				if !ok || as.Tok != token.OR_ASSIGN || len(as.Lhs) != 1 || len(as.Rhs) != 1 {
					fail("Froze: body of `if %s.%s` is not `x |= C`", recv, c[1])
					continue
				}
				t := selChain(as.Lhs[0])
				if len(t) != 2 {
					fail("Froze: target of `if %s.%s` not recognised", recv, c[1])
					continue
				}
				v, ok := constVal(p.TypesInfo, as.Rhs[0])
				if !ok {
					fail("Froze: mask of `if %s.%s` is not constant", recv, c[1])
					continue
				}
				cn := ""
				if cc := selChain(as.Rhs[0]); len(cc) > 0 {
					cn = cc[len(cc)-1]
				}
				wires = append(wires, wire{c[1], t[1], v, cn})
			}
		default:
			fail("Froze: unexpected statement %d (%T)", i, s)
		}
	}
	// stock configs: var X = Config{...}.Froze()
	for _, name := range []string{"ConfigDefault", "ConfigStd", "ConfigFastest"} {
		found := false
		for _, f := range p.Syntax {
			ast.Inspect(f, func(n ast.Node) bool {
				vs, ok := n.(*ast.ValueSpec)
				if !ok {
					return true
				}
				for i, nm := range vs.Names {
					if nm.Name != name || i >= len(vs.Values) {
						continue
					}
					call, ok := vs.Values[i].(*ast.CallExpr)
					if !ok {
						fail("%s is not Config{...}.Froze()", name)
						return false
					}
					sel, ok := call.Fun.(*ast.SelectorExpr)
					if !ok || sel.Sel.Name != "Froze" {
						fail("%s is not Config{...}.Froze()", name)
						return false
					}
					cl, ok := sel.X.(*ast.CompositeLit)
					if !ok {
						fail("%s: receiver of Froze is not a composite literal", name)
						return false
					}
					var on []string
					for _, el := range cl.Elts {
						kvx, ok := el.(*ast.KeyValueExpr)
						if !ok {
							fail("%s: positional composite literal", name)
							continue
						}
						k := kvx.Key.(*ast.Ident).Name
						tv := p.TypesInfo.Types[kvx.Value]
						if tv.Value == nil || tv.Value.Kind() != constant.Bool {
							fail("%s.%s: not a constant bool", name, k)
							continue
						}
						if constant.BoolVal(tv.Value) {
							on = append(on, k)
						}
					}
					stock = append(stock, [2]interface{}{name, on})
					found = true
				}
				return true
			})
		}
		if !found {
			fail("stock config %s not found", name)
		}
	}
	return
}

// setter methods: sequences of `x.f |= C`, `x.f &^= C`, `x.f &= ^C`, optionally under `if b {..} else {..}`
type effect struct{ set, clear uint64 }

func (e *effect) apply(tok token.Token, m uint64) {
	switch tok {
	case token.OR_ASSIGN:
		e.set |= m
		e.clear &^= m
	case token.AND_NOT_ASSIGN:
		e.clear |= m
		e.set &^= m
	case token.AND_ASSIGN: // x &= K keeps bits of K
		e.clear |= ^m
		e.set &= m
	}
}

func u64(info *types.Info, e ast.Expr) (uint64, bool) {
	tv, ok := info.Types[e]
	if !ok || tv.Value == nil {
		return 0, false
	}
	v := constant.ToInt(tv.Value)
	if v.Kind() != constant.Int {
		return 0, false
	}
	if u, ok := constant.Uint64Val(v); ok {
		return u, true
	}
	if i, ok := constant.Int64Val(v); ok {
		return uint64(i), true
	}
	return 0, false
}

func stmtsEffect(info *types.Info, list []ast.Stmt, field string, e *effect, where string) {
	for _, s := range list {
		switch x := s.(type) {
		case *ast.AssignStmt:
			t := selChain(x.Lhs[0])
			if len(t) != 2 || t[1] != field || len(x.Rhs) != 1 {
				fail("%s: assignment target not <recv>.%s", where, field)
				continue
			}
			m, ok := u64(info, x.Rhs[0])
			if !ok {
				fail("%s: mask is not constant", where)
				continue
			}
			if x.Tok != token.OR_ASSIGN && x.Tok != token.AND_NOT_ASSIGN && x.Tok != token.AND_ASSIGN {
				fail("%s: operator %s not recognised", where, x.Tok)
				continue
			}
			e.apply(x.Tok, m)
		case *ast.ReturnStmt:
		default:
			fail("%s: statement %T not recognised", where, s)
		}
	}
}

type setter struct {
	recv, name   string
	hasArg       bool
	onT, onF     effect
}

func genSetters(l *loaded, rel, recv, field string, names []string) []setter {
	p := l.pkg(rel)
	if p == nil {
		return nil
	}
	var out []setter
	for _, n := range names {
		fd := findFunc(p, recv, n)
		if fd == nil || fd.Body == nil {
			fail("setter %s.%s not found", recv, n)
			continue
		}
		where := recv + "." + n
		s := setter{recv: recv, name: n}
		body := fd.Body.List
		if fd.Type.Params != nil && len(fd.Type.Params.List) == 1 {
			s.hasArg = true
			arg := fd.Type.Params.List[0].Names[0].Name
			if len(body) < 1 {
				fail("%s: empty body", where)
				continue
			}
			ifs, ok := body[0].(*ast.IfStmt)
			if !ok || ifs.Init != nil {
				fail("%s: body is not `if %s {..} else {..}`", where, arg)
				continue
			}
			if id, ok := ifs.Cond.(*ast.Ident); !ok || id.Name != arg {
				fail("%s: condition is not the parameter", where)
				continue
			}
			stmtsEffect(p.TypesInfo, ifs.Body.List, field, &s.onT, where)
			if ifs.Else != nil {
				eb, ok := ifs.Else.(*ast.BlockStmt)
				if !ok {
					fail("%s: else-if not recognised", where)
					continue
				}
				stmtsEffect(p.TypesInfo, eb.List, field, &s.onF, where)
			}
			for _, rest := range body[1:] {
				if _, ok := rest.(*ast.ReturnStmt); !ok {
					fail("%s: trailing statement %T", where, rest)
				}
			}
		} else {
			stmtsEffect(p.TypesInfo, body, field, &s.onT, where)
		}
		out = append(out, s)
	}
	return out
}

func genOpts(l *loaded) string {
	var b strings.Builder
	b.WriteString("/- GENERATED by go/factx from the repository's source on every run. Do not edit. -/\nnamespace SonicSpec.Gen\n\n")
	if p := l.pkg("internal/encoder/alg"); p != nil {
		b.WriteString(leanTable("encBits", "internal/encoder/alg: Bit* positions", prefixConsts(p, "Bit")))
	}
	if p := l.pkg("internal/encoder"); p != nil {
		b.WriteString(leanTable("encOptions", "internal/encoder: constants of type Options", constsOfType(p, "Options")))
	}
	if p := l.pkg("encoder"); p != nil {
		b.WriteString(leanTable("encOptionsPublic", "encoder (public package): constants of type Options", constsOfType(p, "Options")))
	}
	if p := l.pkg("internal/decoder/consts"); p != nil {
		b.WriteString(leanTable("decOptions", "internal/decoder/consts: constants of type Options", constsOfType(p, "Options")))
		b.WriteString(leanTable("decFlagBits", "internal/decoder/consts: F_* positions", prefixConsts(p, "F_")))
	}
	if p := l.pkg("decoder"); p != nil {
		b.WriteString(leanTable("decOptionsPublic", "decoder (public package): Option* constants", prefixConsts(p, "Option")))
	}
	if p := l.pkg("internal/native/types"); p != nil {
		b.WriteString(leanTable("nativeBits", "internal/native/types: B_* positions", prefixConsts(p, "B_")))
		b.WriteString(leanTable("nativeFlags", "internal/native/types: F_* masks", prefixConsts(p, "F_")))
	}
	fields, wires, stock := genFroze(l)
	b.WriteString("/-- fields of sonic.Config, in declaration order -/\ndef configFields : List String := [")
	for i, f := range fields {
		if i > 0 {
			b.WriteString(", ")
		}
		b.WriteString(leanStr(f))
	}
	b.WriteString("]\n\n")
	b.WriteString("/-- Config.Froze: (Config field, options word it is OR-ed into, mask, name of the constant) per `if cfg.F { api.T |= C }` -/\ndef frozeWires : List (String × String × Int × String) := [")
	for i, w := range wires {
		if i > 0 {
			b.WriteString(",")
		}
		fmt.Fprintf(&b, "\n  (%s, %s, %s, %s)", leanStr(w.field), leanStr(w.target), leanInt(w.mask), leanStr(w.cname))
	}
	b.WriteString("]\n\n")
	b.WriteString("/-- stock configurations: the Config fields set to true -/\ndef stockConfigs : List (String × List String) := [")
	for i, s := range stock {
		if i > 0 {
			b.WriteString(",")
		}
		on := s[1].([]string)
		q := make([]string, len(on))
		for j, x := range on {
			q[j] = leanStr(x)
		}
		fmt.Fprintf(&b, "\n  (%s, [%s])", leanStr(s[0].(string)), strings.Join(q, ", "))
	}
	b.WriteString("]\n\n")
	var sets []setter
	sets = append(sets, genSetters(l, "internal/encoder", "Encoder", "Opts",
		[]string{"SortKeys", "SetEscapeHTML", "SetValidateString", "SetNoValidateJSONMarshaler", "SetNoEncoderNewline", "SetCompactMarshaler", "SetNoQuoteTextMarshaler"})...)
	sets = append(sets, genSetters(l, "internal/decoder/api", "Decoder", "f",
		[]string{"UseInt64", "UseNumber", "UseUnicodeErrors", "DisallowUnknownFields", "CopyString", "ValidateString"})...)
	b.WriteString("/-- setter methods: (receiver, method, takes a bool, set mask / clear mask when called (with true), set / clear with false) -/\n")
	b.WriteString("def setters : List (String × String × Bool × Nat × Nat × Nat × Nat) := [")
	for i, s := range sets {
		if i > 0 {
			b.WriteString(",")
		}
		fmt.Fprintf(&b, "\n  (%s, %s, %v, %d, %d, %d, %d)", leanStr(s.recv), leanStr(s.name), s.hasArg, s.onT.set, s.onT.clear, s.onF.set, s.onF.clear)
	}
	b.WriteString("]\n\nend SonicSpec.Gen\n")
	return b.String()
}

// ---------------------------------------------------------------------------- straight-line integer functions

type xlate struct {
	info    *types.Info
	params  map[string]string // Go expression text -> Lean name (e.g. "self.Pos" -> "pos")
	results []string          // named results
	known   map[string]bool   // translated callees
	decl    map[string]bool   // declared mutable locals
	err     []string
}

func (x *xlate) bad(format string, a ...interface{}) string {
	x.err = append(x.err, fmt.Sprintf(format, a...))
	return "0"
}

func (x *xlate) expr(e ast.Expr) string {
	if c := selChain(e); c != nil {
		if n, ok := x.params[strings.Join(c, ".")]; ok {
			return n
		}
	}
	switch v := e.(type) {
	case *ast.BasicLit:
		if v.Kind == token.INT {
			return v.Value
		}
	case *ast.Ident:
		return v.Name
	case *ast.ParenExpr:
		return "(" + x.expr(v.X) + ")"
	case *ast.UnaryExpr:
		if v.Op == token.SUB {
			return "(-" + x.expr(v.X) + ")"
		}
	case *ast.BinaryExpr:
		op := ""
		switch v.Op {
		case token.ADD:
			op = "+"
		case token.SUB:
			op = "-"
		case token.MUL:
			op = "*"
		case token.LSS:
			op = "<"
		case token.GTR:
			op = ">"
		case token.LEQ:
			op = "<="
		case token.GEQ:
			op = ">="
		case token.EQL:
			op = "=="
		case token.NEQ:
			op = "!="
		case token.LOR:
			op = "||"
		case token.LAND:
			op = "&&"
		}
		if op != "" {
			return "(" + x.expr(v.X) + " " + op + " " + x.expr(v.Y) + ")"
		}
	case *ast.CallExpr:
		if id, ok := v.Fun.(*ast.Ident); ok {
			if id.Name == "len" && len(v.Args) == 1 {
				if c := selChain(v.Args[0]); c != nil {
					if n, ok := x.params["len("+strings.Join(c, ".")+")"]; ok {
						return n
					}
				}
			}
			if x.known[id.Name] {
				args := make([]string, len(v.Args))
				for i, a := range v.Args {
					args[i] = x.expr(a)
				}
				return "(" + id.Name + " " + strings.Join(args, " ") + ")"
			}
		}
	}
	return x.bad("expression %T not recognised", e)
}

func (x *xlate) assignTo(name string, val string, ind string, b *strings.Builder) {
	if x.decl[name] {
		fmt.Fprintf(b, "%s%s := %s\n", ind, name, val)
	} else {
		x.decl[name] = true
		fmt.Fprintf(b, "%slet mut %s : Int := %s\n", ind, name, val)
	}
}

func (x *xlate) stmts(list []ast.Stmt, ind string, b *strings.Builder, ret func(vals []ast.Expr) string) {
	for _, s := range list {
		switch v := s.(type) {
		case *ast.AssignStmt:
			switch v.Tok {
			case token.DEFINE, token.ASSIGN:
				if len(v.Lhs) == 1 {
					id, ok := v.Lhs[0].(*ast.Ident)
					if !ok {
						x.bad("assignment target %T", v.Lhs[0])
						continue
					}
					x.assignTo(id.Name, x.expr(v.Rhs[0]), ind, b)
				} else {
					if len(v.Lhs) != len(v.Rhs) {
						x.bad("tuple assignment arity")
						continue
					}
					var ls, rs []string
					for i := range v.Lhs {
						id, ok := v.Lhs[i].(*ast.Ident)
						if !ok || !x.decl[id.Name] {
							x.bad("tuple assignment to undeclared or non-identifier")
							continue
						}
						ls = append(ls, id.Name)
						rs = append(rs, x.expr(v.Rhs[i]))
					}
					fmt.Fprintf(b, "%s(%s) := (%s)\n", ind, strings.Join(ls, ", "), strings.Join(rs, ", "))
				}
			case token.ADD_ASSIGN, token.SUB_ASSIGN:
				id, ok := v.Lhs[0].(*ast.Ident)
				if !ok {
					x.bad("op-assignment target")
					continue
				}
				op := "+"
				if v.Tok == token.SUB_ASSIGN {
					op = "-"
				}
				fmt.Fprintf(b, "%s%s := %s %s %s\n", ind, id.Name, id.Name, op, x.expr(v.Rhs[0]))
			default:
				x.bad("assignment operator %s", v.Tok)
			}
		case *ast.IfStmt:
			if v.Init != nil {
				x.stmts([]ast.Stmt{v.Init}, ind, b, ret)
			}
			fmt.Fprintf(b, "%sif %s then\n", ind, x.expr(v.Cond))
			x.stmts(v.Body.List, ind+"  ", b, ret)
			if len(v.Body.List) == 0 {
				fmt.Fprintf(b, "%s  pure ()\n", ind)
			}
			if v.Else != nil {
				fmt.Fprintf(b, "%selse\n", ind)
				switch e := v.Else.(type) {
				case *ast.BlockStmt:
					x.stmts(e.List, ind+"  ", b, ret)
				case *ast.IfStmt:
					x.stmts([]ast.Stmt{e}, ind+"  ", b, ret)
				}
			}
		case *ast.ReturnStmt:
			fmt.Fprintf(b, "%sreturn %s\n", ind, ret(v.Results))
		default:
			x.bad("statement %T not recognised", s)
		}
	}
}

// translate a whole function with int parameters and int results
func translateFunc(p *packages.Package, recv, name string, known map[string]bool) (string, []string) {
	fd := findFunc(p, recv, name)
	if fd == nil || fd.Body == nil {
		return "", []string{name + ": not found"}
	}
	x := &xlate{info: p.TypesInfo, params: map[string]string{}, known: known, decl: map[string]bool{}}
	var ps []string
	for _, f := range fd.Type.Params.List {
		for _, n := range f.Names {
			ps = append(ps, n.Name)
		}
	}
	var named []string
	nres := 0
	if fd.Type.Results != nil {
		for _, f := range fd.Type.Results.List {
			if len(f.Names) == 0 {
				nres++
			}
			for _, n := range f.Names {
				named = append(named, n.Name)
				nres++
			}
		}
	}
	var b strings.Builder
	rt := "Int"
	if nres > 1 {
		rt = strings.Repeat("Int × ", nres-1) + "Int"
	}
	fmt.Fprintf(&b, "def %s", name)
	for _, q := range ps {
		fmt.Fprintf(&b, " (%s : Int)", q)
	}
	fmt.Fprintf(&b, " : %s := Id.run do\n", rt)
	for _, n := range named {
		x.decl[n] = true
		fmt.Fprintf(&b, "  let mut %s : Int := 0\n", n)
	}
	ret := func(vals []ast.Expr) string {
		if len(vals) == 0 {
			return "(" + strings.Join(named, ", ") + ")"
		}
		s := make([]string, len(vals))
		for i, v := range vals {
			s[i] = x.expr(v)
		}
		if len(s) == 1 {
			return s[0]
		}
		return "(" + strings.Join(s, ", ") + ")"
	}
	x.stmts(fd.Body.List, "  ", &b, ret)
	// a body that may fall off the end (no final return) is rejected
	if len(fd.Body.List) == 0 {
		x.bad("empty body")
	} else if _, ok := fd.Body.List[len(fd.Body.List)-1].(*ast.ReturnStmt); !ok {
		if _, ok := fd.Body.List[len(fd.Body.List)-1].(*ast.IfStmt); !ok {
			x.bad("function does not end in return")
		}
	}
	for i := range x.err {
		x.err[i] = name + ": " + x.err[i]
	}
	return b.String(), x.err
}

// the arithmetic of ast.SyntaxError.description: everything before the final return, plus the
// slice bounds and repeat counts used in it
func translateAstDescription(p *packages.Package) (string, []string) {
	fd := findFunc(p, "SyntaxError", "description")
	if fd == nil || fd.Body == nil {
		return "", []string{"ast description: not found"}
	}
	recv := fd.Recv.List[0].Names[0].Name
	x := &xlate{info: p.TypesInfo, params: map[string]string{recv + ".Pos": "pos", "len(" + recv + ".Src)": "size"},
		known: map[string]bool{"clamp_zero": true}, decl: map[string]bool{}}
	var b strings.Builder
	b.WriteString("def astDescriptionBounds (size pos : Int) : Int × Int × Int × Int := Id.run do\n")
	var body []ast.Stmt
	var final *ast.ReturnStmt
	for i, s := range fd.Body.List {
		if i == len(fd.Body.List)-1 {
			r, ok := s.(*ast.ReturnStmt)
			if !ok {
				return "", []string{"ast description: last statement is not return"}
			}
			final = r
			break
		}
		// the empty-source guard returns early with a fixed text: modelled as the size = 0 case
		if ifs, ok := s.(*ast.IfStmt); ok {
			if be, ok := ifs.Cond.(*ast.BinaryExpr); ok && be.Op == token.EQL {
				if c := selChain(be.X); len(c) == 2 && c[1] == "Src" {
					body = append(body, &ast.ExprStmt{X: &ast.Ident{Name: "__empty_guard__"}})
					continue
				}
			}
		}
		body = append(body, s)
	}
	ret := func(vals []ast.Expr) string { return "(0, 0, 0, 0)" }
	for _, s := range body {
		if es, ok := s.(*ast.ExprStmt); ok {
			if id, ok := es.X.(*ast.Ident); ok && id.Name == "__empty_guard__" {
				b.WriteString("  if size == 0 then\n    return (0, 0, 0, 0)\n")
				continue
			}
		}
		x.stmts([]ast.Stmt{s}, "  ", &b, ret)
	}
	// find Src[p:q] and the two strings.Repeat counts in the final return
	var lo, hi string
	var reps []string
	ast.Inspect(final, func(n ast.Node) bool {
		switch v := n.(type) {
		case *ast.SliceExpr:
			if c := selChain(v.X); len(c) == 2 && c[1] == "Src" && v.Low != nil && v.High != nil {
				lo, hi = x.expr(v.Low), x.expr(v.High)
			}
		case *ast.CallExpr:
			if c := selChain(v.Fun); len(c) == 2 && c[0] == "strings" && c[1] == "Repeat" && len(v.Args) == 2 {
				reps = append(reps, x.expr(v.Args[1]))
			}
		}
		return true
	})
	if lo == "" || len(reps) != 2 {
		x.bad("final return: Src[p:q] / two strings.Repeat not found")
	} else {
		fmt.Fprintf(&b, "  return (%s, %s, %s, %s)\n", lo, reps[0], hi, reps[1])
	}
	for i := range x.err {
		x.err[i] = "ast description: " + x.err[i]
	}
	return b.String(), x.err
}

func genBounds(l *loaded) string {
	var b strings.Builder
	b.WriteString("/- GENERATED by go/factx from the repository's source on every run. Do not edit.\n   Go `int` is translated to unbounded `Int` (sizes and positions are far below 2^63). -/\nnamespace SonicSpec.Gen\n\n")
	if p := l.pkg("internal/decoder/errors"); p != nil {
		known := map[string]bool{}
		for _, fn := range []string{"clamp_zero", "calcBounds"} {
			s, errs := translateFunc(p, "", fn, known)
			for _, e := range errs {
				fail("internal/decoder/errors: %s", e)
			}
			b.WriteString("/-- internal/decoder/errors." + fn + " -/\n" + s + "\n")
			known[fn] = true
		}
	}
	if p := l.pkg("ast"); p != nil {
		s, errs := translateAstDescription(p)
		for _, e := range errs {
			fail("ast: %s", e)
		}
		b.WriteString("/-- ast.SyntaxError.description: (slice low, left dots, slice high, right dots); uses the same clamp_zero -/\n" + s + "\n")
	}
	b.WriteString("end SonicSpec.Gen\n")
	return b.String()
}

// ---------------------------------------------------------------------------- struct layouts

func ptrShaped(t types.Type) string {
	switch u := t.Underlying().(type) {
	case *types.Pointer, *types.Map, *types.Chan, *types.Signature:
		return "ptr"
	case *types.Basic:
		if u.Kind() == types.UnsafePointer {
			return "ptr"
		}
		return "scalar"
	case *types.Array:
		return "array-of-" + ptrShaped(u.Elem())
	case *types.Struct:
		return "struct"
	case *types.Slice:
		return "slice"
	case *types.Interface:
		return "iface"
	}
	return "other"
}

// layout of the decoder's _Stack as the compiler lays it out on amd64, and the hand-computed offsets the JIT uses
func genLayout(l *loaded) string {
	var b strings.Builder
	b.WriteString("/- GENERATED by go/factx from the repository's source on every run. Do not edit. -/\nnamespace SonicSpec.Gen\n\n")
	p := l.pkg("internal/decoder/jitdec")
	if p == nil {
		b.WriteString("end SonicSpec.Gen\n")
		return b.String()
	}
	sizes := types.SizesFor("gc", "amd64")
	obj := p.Types.Scope().Lookup("_Stack")
	if obj == nil {
		fail("jitdec._Stack not found")
	} else if st, ok := obj.Type().Underlying().(*types.Struct); !ok {
		fail("jitdec._Stack is not a struct")
	} else {
		var fs []*types.Var
		for i := 0; i < st.NumFields(); i++ {
			fs = append(fs, st.Field(i))
		}
		offs := sizes.Offsetsof(fs)
		b.WriteString("/-- internal/decoder/jitdec._Stack: (field, offset, size, shape) on amd64 -/\ndef decStackLayout : List (String × Int × Int × String) := [")
		for i, f := range fs {
			if i > 0 {
				b.WriteString(",")
			}
			fmt.Fprintf(&b, "\n  (%s, %d, %d, %s)", leanStr(f.Name()), offs[i], sizes.Sizeof(f.Type()), leanStr(ptrShaped(f.Type())))
		}
		fmt.Fprintf(&b, "]\n\n/-- unsafe.Sizeof(_Stack{}) -/\ndef decStackSize : Int := %d\n\n", sizes.Sizeof(obj.Type()))
	}
	for _, c := range []struct{ name, lean string }{{"_FsmOffset", "decFsmOffset"}, {"_DbufOffset", "decDbufOffset"}, {"_EpOffset", "decEpOffset"}, {"_StackSize", "decStackSizeConst"}, {"_MaxStack", "decJitMaxStack"}, {"_MaxDigitNums", "decMaxDigitNums"}} {
		if v, ok := l.constInt("internal/decoder/jitdec", c.name); ok {
			fmt.Fprintf(&b, "/-- internal/decoder/jitdec.%s -/\ndef %s : Int := %s\n", c.name, c.lean, v)
		}
	}
	b.WriteString("\nend SonicSpec.Gen\n")
	return b.String()
}

func main() {
	if len(os.Args) != 3 {
		fmt.Fprintln(os.Stderr, "usage: factx <repo root> <output dir>")
		os.Exit(2)
	}
	root, out := os.Args[1], os.Args[2]
	l := load(root, []string{"", "encoder", "decoder", "option", "ast", "internal/encoder", "internal/encoder/alg", "internal/encoder/vars",
		"internal/decoder/consts", "internal/decoder/api", "internal/decoder/errors", "internal/decoder/jitdec", "internal/native/types", "internal/caching", "internal/rt"})
	files := map[string]string{
		"Consts.lean": genConsts(l),
		"Opts.lean":   genOpts(l),
		"Bounds.lean": genBounds(l),
		"Layout.lean": genLayout(l),
	}
	os.MkdirAll(out, 0o755)
	for name, content := range files {
		if err := os.WriteFile(filepath.Join(out, name), []byte(content), 0o644); err != nil {
			fmt.Fprintln(os.Stderr, "factx:", err)
			os.Exit(1)
		}
	}
	if len(failed) > 0 {
		for _, f := range failed {
			fmt.Fprintln(os.Stderr, "factx: UNRECOGNISED:", f)
		}
		os.Exit(1)
	}
}
