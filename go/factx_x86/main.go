// Command factx_x86 prints lean/SonicSpec/Generated/X86.lean for the tree at <repo root>: for every opcode of the
// encoder IR, what each of the two back ends does with it as far as that can be read off the source without a
// semantics of x86 (property C12):
//
//	JIT  internal/encoder/x86/assembler_regabi_amd64.go: the `_asm_OP_*` method `_OpFuncTab` dispatches the opcode
//	     to, and - through the methods of *Assembler it calls, transitively - the subroutines it emits calls to
//	     (package variables `_F_x = jit.Func(pkg.Fn)` / `jit.Imm(int64(native.S_x))` / `jit.Imm(rt.FuncAddr(pkg.Fn))`
//	     handed to any method; a jump to a shared label `_LB_x` counts as a call of the method that `Link`s the label)
//	     and the option bits it tests (`alg.Bit*`)
//	VM   internal/encoder/vm/vm.go `Execute`: per `case ir.OP_x` of its switch, the functions of other packages it
//	     calls (pkg.Fn(...), and EncodeTypedPointer) and the `alg.Bit*` constants it mentions
//	IR   internal/encoder/ir/op.go: the opcodes in declaration order
//
// Deliberately dumb: a shape it does not recognise is a fatal error (exit 1), never a silently dropped fact.
//
// usage: factx_x86 <repo root>        (Lean source on stdout)
package main

import (
	"fmt"
	"go/ast"
	"go/parser"
	"go/token"
	"os"
	"path/filepath"
	"sort"
	"strings"
)

func die(format string, a ...interface{}) {
	fmt.Fprintf(os.Stderr, "factx_x86: "+format+"\n", a...)
	os.Exit(1)
}

var fset = token.NewFileSet()

func parse(path string) *ast.File {
	f, err := parser.ParseFile(fset, path, nil, 0)
	if err != nil {
		die("cannot parse %s: %v", path, err)
	}
	return f
}

func exprString(e ast.Expr) string {
	switch x := e.(type) {
	case *ast.Ident:
		return x.Name
	case *ast.SelectorExpr:
		return exprString(x.X) + "." + x.Sel.Name
	case *ast.ParenExpr:
		return exprString(x.X)
	}
	return ""
}

// the function a `_F_x` variable stands for: the innermost pkg.Name / Name argument of its initialiser
func targetOf(e ast.Expr) string {
	for {
		switch x := e.(type) {
		case *ast.CallExpr:
			if len(x.Args) != 1 {
				return ""
			}
			e = x.Args[0]
		case *ast.ParenExpr:
			e = x.X
		default:
			return exprString(e)
		}
	}
}

func sortedKeys(m map[string]bool) []string {
	var r []string
	for k := range m {
		r = append(r, k)
	}
	sort.Strings(r)
	return r
}

func leanList(xs []string) string {
	q := make([]string, len(xs))
	for i, x := range xs {
		q[i] = fmt.Sprintf("%q", x)
	}
	return "[" + strings.Join(q, ", ") + "]"
}

func main() {
	if len(os.Args) != 2 {
		die("usage: factx_x86 <repo root>")
	}
	root := os.Args[1]

	// ---------------------------------------------------------------- IR opcodes
	opFile := parse(filepath.Join(root, "internal", "encoder", "ir", "op.go"))
	var ops []string
	for _, d := range opFile.Decls {
		g, ok := d.(*ast.GenDecl)
		if !ok || g.Tok != token.CONST {
			continue
		}
		for _, s := range g.Specs {
			vs := s.(*ast.ValueSpec)
			for _, n := range vs.Names {
				if strings.HasPrefix(n.Name, "OP_") {
					ops = append(ops, n.Name)
				}
			}
		}
	}
	if len(ops) < 40 {
		die("ir/op.go: only %d OP_ constants found", len(ops))
	}

	// ---------------------------------------------------------------- JIT
	xdir := filepath.Join(root, "internal", "encoder", "x86")
	var xfiles []*ast.File
	for _, n := range []string{"assembler_regabi_amd64.go", "stbus.go", "asm_stubs_amd64_go117.go", "asm_stubs_amd64_go121.go"} {
		xfiles = append(xfiles, parse(filepath.Join(xdir, n)))
	}
	fvars := map[string]string{} // _F_x -> target
	methods := map[string]*ast.FuncDecl{}
	var tab *ast.CompositeLit
	for _, f := range xfiles {
		for _, d := range f.Decls {
			switch x := d.(type) {
			case *ast.GenDecl:
				if x.Tok != token.VAR {
					continue
				}
				for _, s := range x.Specs {
					vs := s.(*ast.ValueSpec)
					for i, n := range vs.Names {
						if strings.HasPrefix(n.Name, "_F_") {
							if i >= len(vs.Values) {
								if _, ok := fvars[n.Name]; !ok {
									fvars[n.Name] = "" // assigned in an init function (below)
								}
								continue
							}
							t := targetOf(vs.Values[i])
							if t == "" {
								die("%s: initialiser shape not recognised", n.Name)
							}
							fvars[n.Name] = t
						}
						if n.Name == "_OpFuncTab" {
							cl, ok := vs.Values[i].(*ast.CompositeLit)
							if !ok {
								die("_OpFuncTab is not a composite literal")
							}
							tab = cl
						}
					}
				}
			case *ast.FuncDecl:
				if x.Recv == nil && x.Name.Name == "init" {
					ast.Inspect(x.Body, func(n ast.Node) bool {
						if as, ok := n.(*ast.AssignStmt); ok && len(as.Lhs) == 1 && len(as.Rhs) == 1 {
							if id, ok := as.Lhs[0].(*ast.Ident); ok && strings.HasPrefix(id.Name, "_F_") {
								t := targetOf(as.Rhs[0])
								if t == "" {
									die("%s: assignment shape not recognised", id.Name)
								}
								fvars[id.Name] = t
							}
						}
						return true
					})
				}
				if x.Recv != nil && len(x.Recv.List) == 1 {
					if st, ok := x.Recv.List[0].Type.(*ast.StarExpr); ok && exprString(st.X) == "Assembler" {
						methods[x.Name.Name] = x
					}
				}
			}
		}
	}
	if tab == nil {
		die("_OpFuncTab not found")
	}
	for k, v := range fvars {
		if v == "" {
			die("%s: declared without a value and never assigned in an init function", k)
		}
	}
	type facts struct{ calls, bits, subs map[string]bool }
	direct := map[string]*facts{}
	// shared labels: `self.Link(_LB_x)` makes the method the owner of the label
	labelOwner := map[string]string{}
	for name, fd := range methods {
		ast.Inspect(fd.Body, func(n ast.Node) bool {
			if ce, ok := n.(*ast.CallExpr); ok {
				if se, ok := ce.Fun.(*ast.SelectorExpr); ok && se.Sel.Name == "Link" && len(ce.Args) == 1 {
					if id, ok := ce.Args[0].(*ast.Ident); ok && strings.HasPrefix(id.Name, "_LB_") {
						if prev, dup := labelOwner[id.Name]; dup && prev != name {
							die("label %s linked by %s and %s", id.Name, prev, name)
						}
						labelOwner[id.Name] = name
					}
				}
			}
			return true
		})
	}
	for name, fd := range methods {
		fc := &facts{map[string]bool{}, map[string]bool{}, map[string]bool{}}
		recv := ""
		if len(fd.Recv.List[0].Names) == 1 {
			recv = fd.Recv.List[0].Names[0].Name
		}
		ast.Inspect(fd.Body, func(n ast.Node) bool {
			switch x := n.(type) {
			case *ast.Ident:
				if t, ok := fvars[x.Name]; ok {
					fc.calls[t] = true
				}
				if own, ok := labelOwner[x.Name]; ok && own != name {
					fc.subs[own] = true
				}
			case *ast.SelectorExpr:
				s := exprString(x)
				if strings.HasPrefix(s, "alg.Bit") {
					fc.bits[s] = true
				}
				if id, ok := x.X.(*ast.Ident); ok && recv != "" && id.Name == recv {
					if _, ok := methods[x.Sel.Name]; ok {
						fc.subs[x.Sel.Name] = true
					}
				}
			}
			return true
		})
		direct[name] = fc
	}
	closure := func(m string) (calls, bits []string) {
		seen := map[string]bool{}
		c, b := map[string]bool{}, map[string]bool{}
		var walk func(string)
		walk = func(n string) {
			if seen[n] {
				return
			}
			seen[n] = true
			f := direct[n]
			for k := range f.calls {
				c[k] = true
			}
			for k := range f.bits {
				b[k] = true
			}
			for k := range f.subs {
				walk(k)
			}
		}
		walk(m)
		return sortedKeys(c), sortedKeys(b)
	}
	jit := map[string][3]interface{}{}
	var jitOrder []string
	for _, el := range tab.Elts {
		kv, ok := el.(*ast.KeyValueExpr)
		if !ok {
			die("_OpFuncTab: element without key at %s", fset.Position(el.Pos()))
		}
		op := strings.TrimPrefix(exprString(kv.Key), "ir.")
		fn := exprString(kv.Value) // (*Assembler)._asm_OP_x  ->  "._asm_OP_x" after the paren/star: take the selector
		if se, ok := kv.Value.(*ast.SelectorExpr); ok {
			fn = se.Sel.Name
		}
		if _, ok := methods[fn]; !ok {
			die("_OpFuncTab[%s]: %q is not a method of *Assembler", op, fn)
		}
		c, b := closure(fn)
		jit[op] = [3]interface{}{fn, c, b}
		jitOrder = append(jitOrder, op)
	}

	// ---------------------------------------------------------------- VM
	vmFile := parse(filepath.Join(root, "internal", "encoder", "vm", "vm.go"))
	var exec *ast.FuncDecl
	for _, d := range vmFile.Decls {
		if fd, ok := d.(*ast.FuncDecl); ok && fd.Name.Name == "Execute" && fd.Recv == nil {
			exec = fd
		}
	}
	if exec == nil {
		die("vm.go: func Execute not found")
	}
	var sw *ast.SwitchStmt
	ast.Inspect(exec.Body, func(n ast.Node) bool {
		if s, ok := n.(*ast.SwitchStmt); ok && sw == nil && exprString(s.Tag) == "op" {
			sw = s
			return false
		}
		return true
	})
	if sw == nil {
		die("vm.go: `switch op` not found in Execute")
	}
	type vmFacts struct{ calls, bits []string }
	vm := map[string]vmFacts{}
	var vmOrder []string
	hasDefault := false
	for _, st := range sw.Body.List {
		cc := st.(*ast.CaseClause)
		if cc.List == nil {
			hasDefault = true
			continue
		}
		c, b := map[string]bool{}, map[string]bool{}
		for _, s := range cc.Body {
			ast.Inspect(s, func(n ast.Node) bool {
				switch x := n.(type) {
				case *ast.CallExpr:
					f := exprString(x.Fun)
					if f == "EncodeTypedPointer" || (strings.Contains(f, ".") && (strings.HasPrefix(f, "alg.") || strings.HasPrefix(f, "prim.") || strings.HasPrefix(f, "rt.") || strings.HasPrefix(f, "vars."))) {
						c[f] = true
					}
				case *ast.SelectorExpr:
					s := exprString(x)
					if strings.HasPrefix(s, "alg.Bit") {
						b[s] = true
					}
				}
				return true
			})
		}
		for _, e := range cc.List {
			op := strings.TrimPrefix(exprString(e), "ir.")
			if !strings.HasPrefix(op, "OP_") {
				die("vm.go: case label %q not recognised", exprString(e))
			}
			if _, dup := vm[op]; dup {
				die("vm.go: opcode %s handled twice", op)
			}
			vm[op] = vmFacts{sortedKeys(c), sortedKeys(b)}
			vmOrder = append(vmOrder, op)
		}
	}
	if !hasDefault {
		die("vm.go: the switch has no default clause (an unhandled opcode must panic)")
	}

	// ---------------------------------------------------------------- output
	fmt.Println("/- GENERATED by go/factx_x86 from the repository's source on every run. Do not edit. -/")
	fmt.Println("namespace SonicSpec.Gen")
	fmt.Println()
	fmt.Println("/-- internal/encoder/ir/op.go: the opcodes in declaration order -/")
	fmt.Printf("def irOps : List String := %s\n\n", leanList(ops))
	fmt.Println("/-- x86/assembler_regabi_amd64.go `_OpFuncTab`: opcode, the method it dispatches to, the subroutines that method (and the")
	fmt.Println("    *Assembler methods it calls) emits calls to, the option bits it tests -/")
	fmt.Println("def x86Dispatch : List (String × String × List String × List String) := [")
	for i, op := range jitOrder {
		e := jit[op]
		sep := ","
		if i == len(jitOrder)-1 {
			sep = ""
		}
		fmt.Printf("  (%q, %q, %s, %s)%s\n", op, e[0].(string), leanList(e[1].([]string)), leanList(e[2].([]string)), sep)
	}
	fmt.Println("]")
	fmt.Println()
	fmt.Println("/-- vm/vm.go `Execute`: opcode, the functions of other packages its case calls, the option bits it mentions -/")
	fmt.Println("def vmDispatch : List (String × List String × List String) := [")
	for i, op := range vmOrder {
		e := vm[op]
		sep := ","
		if i == len(vmOrder)-1 {
			sep = ""
		}
		fmt.Printf("  (%q, %s, %s)%s\n", op, leanList(e.calls), leanList(e.bits), sep)
	}
	fmt.Println("]")
	fmt.Println()
	fmt.Println("end SonicSpec.Gen")
}
