module factx_x86

go 1.18
