//go:build verif

package verifhook

import (
	"reflect"

	"github.com/bytedance/sonic/internal/decoder/jitdec"
)

type (
	DecoderInstr   = jitdec.VerifInstr
	DecoderField   = jitdec.VerifField
	DecoderProgram = jitdec.VerifProgram
)

// DecoderCompile returns the program the real JIT-decoder compiler emits for vt
// (internal/decoder/jitdec/verif_hook.go); maxInlineDepth 0 = the default compile options.
func DecoderCompile(vt reflect.Type, maxInlineDepth int) (DecoderProgram, error) {
	return jitdec.VerifCompile(vt, maxInlineDepth)
}
