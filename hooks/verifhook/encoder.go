//go:build verif

package verifhook

import (
	"reflect"

	"github.com/bytedance/sonic/internal/encoder"
)

type (
	EncoderInstr   = encoder.VerifInstr
	EncoderProgram = encoder.VerifProgram
)

// EncoderCompile returns the program the real encoder compiler emits for (vt, pv) under the given
// compile options (internal/encoder/verif_hook.go).
func EncoderCompile(vt reflect.Type, pv bool, maxInlineDepth int, encOnlyOmitNull bool) (EncoderProgram, error) {
	return encoder.VerifCompile(vt, pv, maxInlineDepth, encOnlyOmitNull)
}
