//go:build verif

// Package verifhook re-exports verification hooks of internal packages to the external
// correspondence harness (which cannot import `internal/...`).  Build tag `verif` only.
package verifhook

import (
	"github.com/bytedance/sonic/internal/caching"
)

type (
	CacheKey  = caching.VerifKey
	CacheSlot = caching.VerifSlot
	PMap      = caching.VerifPMap
	Cache     = caching.VerifCache
)

const (
	CacheLoadFactor   = caching.VerifLoadFactor
	CacheInitCapacity = caching.VerifInitCapacity
)

func NewCacheKey(id uint32, hash uint32) *CacheKey { return caching.VerifNewKey(id, hash) }
func NewPMap(capacity int) *PMap                   { return caching.VerifNewPMap(capacity) }
func NewCache(capacity int) *Cache                 { return caching.VerifNewCache(capacity) }
