//go:build verif

package encoder

// Verification hook (build tag `verif` only, add-only): the text of the encoder program the REAL
// compiler emits for a type, for the disassembly correspondence of properties C03/C12
// (/verif/lean/SonicSpec/Model/IrCompile.lean is compared with it instruction by instruction).

import (
	"fmt"
	"reflect"
	"strings"

	"github.com/bytedance/sonic/internal/encoder/ir"
	"github.com/bytedance/sonic/internal/encoder/vars"
	"github.com/bytedance/sonic/option"
)

// VerifInstr is one instruction of a compiled program: the text `ir.Instr.Disassemble` prints plus the
// operands a comparison needs in structured form (a type operand prints as a Go type name otherwise).
type VerifInstr struct {
	Op   string       // ir.Op.String()
	Code int          // numeric opcode
	Vi   int          // integer operand (jump target, byte, offset, length of the text, pv of OP_recurse)
	Type reflect.Type // type operand of OP_recurse / OP_map_iter / OP_slice_next / OP_unsupported / OP_marshal*
	Text string       // ir.Instr.Disassemble()
	Str  string       // the text operand of OP_text
}

// VerifProgram is the result of one compilation.
type VerifProgram struct {
	Disasm string // ir.Program.Disassemble()
	Instrs []VerifInstr
	UseVM  bool // vars.UseVM at the time of the compilation (marshaler operands differ)
}

func verifHasTypeOperand(op ir.Op) bool {
	switch op {
	case ir.OP_recurse, ir.OP_map_iter, ir.OP_slice_next, ir.OP_unsupported:
		return true
	}
	return false
}

func verifIsMarshal(op ir.Op) bool {
	switch op {
	case ir.OP_marshal, ir.OP_marshal_p, ir.OP_marshal_text, ir.OP_marshal_text_p:
		return true
	}
	return false
}

// VerifCompile runs the real compiler (the entry point of makeEncoderX86 / makeEncoderVM:
// NewCompiler().Compile(vt, pv), here with explicit compile options) and returns the program text.
// A compile-time panic that is not an error value ("type nesting too deep") is returned as an error.
func VerifCompile(vt reflect.Type, pv bool, maxInlineDepth int, encOnlyOmitNull bool) (res VerifProgram, err error) {
	defer func() {
		if r := recover(); r != nil {
			err = fmt.Errorf("panic: %v", r)
		}
	}()
	opts := option.DefaultCompileOptions()
	opts.MaxInlineDepth = maxInlineDepth
	opts.EncOnlyOmitNull = encOnlyOmitNull
	prog, cerr := NewCompiler().apply(opts).Compile(vt, pv)
	if cerr != nil {
		return res, cerr
	}
	res.UseVM = vars.UseVM
	safe := true
	for _, ins := range prog {
		vi := VerifInstr{Op: ins.Op().String(), Code: int(ins.Op()), Vi: ins.Vi()}
		switch {
		case verifHasTypeOperand(ins.Op()):
			vi.Type = ins.Vt()
			vi.Text = ins.Disassemble()
		case verifIsMarshal(ins.Op()):
			if vars.UseVM {
				// operand is a (type, itab) pair: Instr.Disassemble reads it correctly
				t, _ := ins.Vtab()
				vi.Type = t.Pack()
				vi.Text = ins.Disassemble()
			} else {
				// JIT form: the operand is the bare type (compiler.go addMarshalerOp), which
				// Instr.Disassemble would misread as a (type, itab) pair
				safe = false
				vi.Type = ins.Vt()
				vi.Text = fmt.Sprintf("%-18s%s", ins.Op().String(), vi.Type)
			}
		default:
			if ins.Op() == ir.OP_text {
				vi.Str = ins.Vs()
			}
			vi.Text = ins.Disassemble()
		}
		res.Instrs = append(res.Instrs, vi)
	}
	if safe {
		res.Disasm = prog.Disassemble()
	} else {
		res.Disasm = verifJoin(prog, res.Instrs)
	}
	return res, nil
}

// verifJoin lays the instruction texts out as ir.Program.Disassemble does (labels from the same rule),
// used only when the real routine cannot print a marshaler operand.
func verifJoin(prog ir.Program, ins []VerifInstr) string {
	real := ir.Program(make([]ir.Instr, 0, len(prog)))
	for _, i := range prog {
		if verifIsMarshal(i.Op()) {
			real = append(real, ir.NewInsOp(ir.OP_null))
		} else {
			real = append(real, i)
		}
	}
	lines := strings.Split(real.Disassemble(), "\n")
	k := 0
	for n, l := range lines {
		if strings.HasPrefix(l, "L_") && strings.HasSuffix(l, ":") {
			continue
		}
		if k < len(ins) && verifIsMarshal(prog[k].Op()) {
			lines[n] = "\t" + ins[k].Text
		}
		k++
	}
	return strings.Join(lines, "\n")
}
