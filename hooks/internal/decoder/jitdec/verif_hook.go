//go:build verif

package jitdec

// Verification hook (build tag `verif` only, add-only): the text of the decoder program the REAL
// compiler emits for a type, for the disassembly correspondence of properties C01/C11
// (/verif/lean/SonicSpec/Model/DirCompile.lean is compared with it instruction by instruction).

import (
	"fmt"
	"reflect"

	"github.com/bytedance/sonic/option"
)

// VerifField is one entry of the field table of an OP_struct_field instruction.
type VerifField struct {
	Name string
	ID   int
}

// VerifInstr is one instruction of a compiled program: the text `_Instr.disassemble` prints plus
// every operand in structured form (the text hides the operands of several opcodes, and a type
// operand prints as a Go type name).
type VerifInstr struct {
	Op     string       // _Op.String()
	Code   int          // numeric opcode
	Vi     int          // integer operand (jump target, offset, size, flags, number of switch labels)
	Vb     byte         // byte operand (the character of match_char / check_char / check_char_0 / check_empty)
	Type   reflect.Type // type operand (nil when the opcode has none)
	Labels []int        // jump table of OP_switch
	Fields []VerifField // field table of OP_struct_field, in slot order of the hash table
	Branch bool         // _Instr.isBranch()
	Text   string       // _Instr.disassemble()
}

// VerifProgram is the result of one compilation.
type VerifProgram struct {
	Disasm string // _Program.disassemble()
	Instrs []VerifInstr
}

func verifHasType(op _Op) bool {
	switch op {
	case _OP_dyn, _OP_deref,
		_OP_map_key_i8, _OP_map_key_i16, _OP_map_key_i32, _OP_map_key_i64,
		_OP_map_key_u8, _OP_map_key_u16, _OP_map_key_u32, _OP_map_key_u64,
		_OP_map_key_f32, _OP_map_key_f64, _OP_map_key_str, _OP_map_key_utext, _OP_map_key_utext_p,
		_OP_slice_init, _OP_slice_append,
		_OP_unmarshal, _OP_unmarshal_p, _OP_unmarshal_text, _OP_unmarshal_text_p,
		_OP_recurse, _OP_dismatch_err, _OP_unsupported:
		return true
	}
	return false
}

// VerifCompile runs the real compiler the way findOrCompile / makeDecoder do (pools.go:
// `newCompiler().compile(vt)`), here with an explicit MaxInlineDepth (0 = the default options, as
// makeDecoder; Pretouch passes its options through `apply`), and returns the program text.
// A compile-time panic comes back as an error (the compiler's own `rescue` does that already).
func VerifCompile(vt reflect.Type, maxInlineDepth int) (res VerifProgram, err error) {
	defer func() {
		if r := recover(); r != nil {
			err = fmt.Errorf("panic: %v", r)
		}
	}()
	c := newCompiler()
	if maxInlineDepth > 0 {
		opts := option.DefaultCompileOptions()
		opts.MaxInlineDepth = maxInlineDepth
		c = c.apply(opts)
	}
	prog, cerr := c.compile(vt)
	if cerr != nil {
		return res, cerr
	}
	for _, ins := range prog {
		vi := VerifInstr{Op: ins.op().String(), Code: int(ins.op()), Vi: ins.vi(), Vb: ins.vb(), Branch: ins.isBranch()}
		switch {
		case ins.op() == _OP_switch:
			vi.Labels = append([]int(nil), ins.vs()...)
		case ins.op() == _OP_struct_field:
			fm := ins.vf()
			for i := uint64(0); i < fm.N; i++ {
				if e := fm.At(i); e.Hash != 0 {
					vi.Fields = append(vi.Fields, VerifField{Name: e.Name, ID: e.ID})
				}
			}
		case verifHasType(ins.op()):
			vi.Type = ins.vt()
		}
		vi.Text = ins.disassemble()
		res.Instrs = append(res.Instrs, vi)
	}
	res.Disasm = prog.disassemble()
	return res, nil
}
