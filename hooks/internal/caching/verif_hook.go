//go:build verif

// Verification hooks (build tag `verif` only; nothing here is compiled into a normal build).
// They only EXPOSE what exists: the unexported open-addressing `_ProgramMap` and the RCU
// `ProgramCache`, driven with fabricated `*rt.GoType{Hash: h}` keys so that the harness can
// choose the hashes (collisions) itself, plus a dump of the table.

package caching

import (
	"unsafe"

	"github.com/bytedance/sonic/internal/rt"
)

// VerifKey is a fabricated type descriptor: identity = the pointer, hash = chosen by the caller.
// The descriptor is the first field, so a `*rt.GoType` found in a table leads back to its VerifKey.
type VerifKey struct {
	vt rt.GoType
	ID uint32
}

// VerifNewKey allocates a fresh key (a fresh pointer) with the given hash.
func VerifNewKey(id uint32, hash uint32) *VerifKey {
	return &VerifKey{ID: id, vt: rt.GoType{Hash: hash}}
}

func (k *VerifKey) Hash() uint32 { return k.vt.Hash }

// VerifSlot is one occupied bucket of a dumped table.
type VerifSlot struct {
	Index int
	ID    uint32 // VerifKey.ID of the key stored in the bucket
	Hash  uint32
	Val   interface{}
}

func verifNewMap(capacity int) *_ProgramMap {
	if capacity <= 0 {
		return newProgramMap()
	}
	return &_ProgramMap{n: 0, m: uint32(capacity) - 1, b: make([]_ProgramEntry, capacity)}
}

func verifDump(m *_ProgramMap) (n uint64, mask uint32, length int, slots []VerifSlot) {
	for i, e := range m.b {
		if e.vt != nil {
			slots = append(slots, VerifSlot{Index: i, ID: (*VerifKey)(unsafe.Pointer(e.vt)).ID, Hash: e.vt.Hash, Val: e.fn})
		}
	}
	return m.n, m.m, len(m.b), slots
}

// VerifPMap drives a bare _ProgramMap (single threaded).
type VerifPMap struct {
	m *_ProgramMap
}

// VerifNewPMap creates a table; capacity 0 means the production `newProgramMap()` (_InitCapacity),
// any other value must be a power of two.
func VerifNewPMap(capacity int) *VerifPMap { return &VerifPMap{m: verifNewMap(capacity)} }

func (p *VerifPMap) Add(k *VerifKey, val interface{}) { p.m = p.m.add(&k.vt, val) }
func (p *VerifPMap) Get(k *VerifKey) interface{}      { return p.m.get(&k.vt) }
func (p *VerifPMap) Rehash()                          { p.m = p.m.rehash() }
func (p *VerifPMap) Dump() (uint64, uint32, int, []VerifSlot) {
	return verifDump(p.m)
}

// Stats returns n, m and len(b) without walking the buckets.
func (p *VerifPMap) Stats() (uint64, uint32, int) { return p.m.n, p.m.m, len(p.m.b) }

// VerifLoadFactor / VerifInitCapacity export the two constants of pcache.go.
const (
	VerifLoadFactor   = _LoadFactor
	VerifInitCapacity = _InitCapacity
)

// VerifCache drives a ProgramCache (safe for concurrent use exactly as far as ProgramCache is:
// no synchronisation is added here).
type VerifCache struct {
	c *ProgramCache
}

// VerifNewCache creates a ProgramCache; capacity 0 = `CreateProgramCache()` as in production,
// otherwise the initial table has the given power-of-two capacity.
func VerifNewCache(capacity int) *VerifCache {
	if capacity <= 0 {
		return &VerifCache{c: CreateProgramCache()}
	}
	return &VerifCache{c: &ProgramCache{p: unsafe.Pointer(verifNewMap(capacity))}}
}

func (c *VerifCache) Get(k *VerifKey) interface{} { return c.c.Get(&k.vt) }

func (c *VerifCache) Compute(k *VerifKey, compute func() (interface{}, error)) (interface{}, error) {
	return c.c.Compute(&k.vt, func(*rt.GoType, ...interface{}) (interface{}, error) { return compute() })
}

func (c *VerifCache) Reset() { c.c.Reset() }

// Dump must not run concurrently with Compute.
func (c *VerifCache) Dump() (uint64, uint32, int, []VerifSlot) {
	return verifDump((*_ProgramMap)(c.c.p))
}
