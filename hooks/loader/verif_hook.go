//go:build verif

// Verification hook (build tag `verif` only; add-only file): exposes what already exists in
// loader/internal/rt to the correspondence harness, which cannot import an internal package.
// Nothing here is reachable from a normal build.

package loader

import (
	"github.com/bytedance/sonic/loader/internal/rt"
)

// VerifBuilderOp is one call on a rt.StackMapBuilder: AddField(Ptr) when N < 0,
// AddFields(N, Ptr) otherwise.
type VerifBuilderOp struct {
	N   int
	Ptr bool
}

// VerifStackMap runs the builder program, calls Build, and returns StackMap.MarshalBinary,
// the bit count, and every bit as rt.BitVec.Bit reads it.
func VerifStackMap(ops []VerifBuilderOp) (bin []byte, nbits int, bits []byte) {
	b := rt.StackMapBuilder{}
	for _, op := range ops {
		if op.N < 0 {
			b.AddField(op.Ptr)
		} else {
			b.AddFields(op.N, op.Ptr)
		}
	}
	sm := b.Build()
	bin, _ = sm.MarshalBinary()
	bin = append([]byte(nil), bin...)
	nbits = sm.BitmapLen()
	if sm.BitmapNums() != 1 {
		panic("verif: StackMapBuilder built more than one bitmap")
	}
	bv := sm.Get(0)
	for i := 0; i < nbits; i++ {
		bits = append(bits, bv.Bit(uintptr(i)))
	}
	return
}

// VerifLoadTables runs the real buildLoadFunc and marshals the tables it hands to Load.
// A nil table / map comes back as nil.
func VerifLoadTables(noPreempt bool, item LoadOneItem) (pcsp, unsafePoint, stackMapIndex, args, locals []byte) {
	fn := buildLoadFunc(noPreempt, item, uint32(len(item.Text)), 0)
	m := func(p *Pcdata) []byte {
		if p == nil {
			return nil
		}
		b, err := p.MarshalBinary()
		if err != nil {
			panic(err)
		}
		return b
	}
	pcsp, unsafePoint, stackMapIndex = m(fn.Pcsp), m(fn.PcUnsafePoint), m(fn.PcStackMapIndex)
	if fn.ArgsPointerMaps != nil {
		b, _ := fn.ArgsPointerMaps.MarshalBinary()
		args = append([]byte(nil), b...)
	}
	if fn.LocalsPointerMaps != nil {
		b, _ := fn.LocalsPointerMaps.MarshalBinary()
		locals = append([]byte(nil), b...)
	}
	return
}
