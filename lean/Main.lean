import SonicSpec.Driver.Dispatch
open SonicSpec

partial def loop (h : IO.FS.Stream) (out : IO.FS.Stream) : IO Unit := do
  let line ← h.getLine
  if line.isEmpty then return ()
  let line := (line.dropEndWhile (fun c => c == '\n' || c == '\r')).toString
  let parts := line.splitOn "\t"
  out.putStrLn (Driver.dispatch parts)
  loop h out

def main : IO Unit := do
  let out ← IO.getStdout
  loop (← IO.getStdin) out
  out.flush
