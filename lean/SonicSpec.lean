-- Root of the `SonicSpec` library: models, proofs and property theorems.
import SonicSpec.Model.Hex
