-- Root of the `SonicSpec` library: models, proofs and property theorems.
import SonicSpec.Model.Hex
import SonicSpec.Model.Str
import SonicSpec.Model.JsonTree
import SonicSpec.Model.GoTypes
import SonicSpec.Driver.Dispatch
import SonicSpec.Props.C20
import SonicSpec.Model.Num
import SonicSpec.Model.NumFmt
import SonicSpec.Model.NumSpec
import SonicSpec.Props.C19
import SonicSpec.Props.C10
import SonicSpec.Model.StrUtf8
import SonicSpec.Model.StrHtml
import SonicSpec.Model.StrSpec
import SonicSpec.Props.C06
import SonicSpec.Props.C05
import SonicSpec.Props.C13
