-- Root of the `SonicSpec` library. Deliberately imports only the executable side (models + driver);
-- proof and property modules are built as separate targets (see lakefile.toml `globs`).
import SonicSpec.Driver.Dispatch
