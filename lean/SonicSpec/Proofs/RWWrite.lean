/-
  C16 - preservation of the invariant by the writes of `assign` (l, p, release-store of t).
-/
import SonicSpec.Proofs.RWOps
namespace SonicSpec.RW

variable {pf : Bool}

theorem conflict_write {b : Acc} {i : Nat} {f : Fld} {atm : Bool} {sh : Sh}
    (h : conflict b (mkAcc i f true atm sh) = true) :
    b.f = f ∧ b.tid ≠ i ∧ (b.atomic = false ∨ atm = false) := by
  simp only [conflict, mkAcc, Bool.and_eq_true, beq_iff_eq, bne_iff_ne, ne_eq, Bool.or_true,
    Bool.not_eq_true', Bool.and_eq_false_iff] at h
  obtain ⟨⟨⟨h1, h2⟩, _⟩, h4⟩ := h
  exact ⟨h1, h2, h4⟩

/-- the holder of the write lock that saw `t` raw under that lock races with nobody -/
theorem writer_norace {s : State} {i : Nat} {th : Th} {f : Fld} {atm : Bool}
    (hG : Glob s) (hth : s.ths[i]? = some th) (hw : s.sh.w = some i) (ht : s.sh.t = .raw)
    (hf : f ≠ .m) (hatm : atm = false → f ≠ .t) :
    ∀ b ∈ s.sh.hist, conflict b (mkAcc i f true atm s.sh) = true → b.id ∈ th.hb := by
  intro b hb hcf
  obtain ⟨h1, h2, h3⟩ := conflict_write hcf
  cases hbw : b.wr
  · have hba : b.atomic = false := by
      rcases h3 with h3 | h3
      · exact h3
      · cases hx : b.atomic
        · rfl
        · have := hG.atomicT b hb hx
          rw [h1] at this
          exact absurd this (hatm h3)
    have hbm : b.f ≠ .m := by rw [h1]; exact hf
    have hh := (hG.holdHB i th hth).1 hw
    rcases hG.rdRel ht b hb hbw hba hbm with h | h | h | h
    · exact hh.1 _ h
    · exact hh.2 _ h
    · rw [hw] at h; injection h with h; exact absurd h.symm h2
    · rw [hG.excl i hw] at h; cases h
  · obtain ⟨h, _⟩ := hG.wrBy ht b hb hbw
    rw [hw] at h; injection h with h; exact absurd h.symm h2

theorem canWrite_info {s : State} {i : Nat} {th : Th} {a : Abs} (hok : ThOK i s.sh th a)
    (hc : a.canWrite = true) :
    a.k = .raw ∧ a.lk = true ∧ a.hW = true ∧ s.sh.w = some i ∧ s.sh.t = .raw ∧ th.tv = some (.raw, s.sh.tg) := by
  simp only [Abs.canWrite, Bool.and_eq_true, beq_iff_eq] at hc
  obtain ⟨⟨hk, hlk⟩, hW⟩ := hc
  have hkn := hok.know
  unfold KnowOK at hkn
  rw [hk] at hkn
  obtain ⟨g, h1, h2⟩ := hkn
  obtain ⟨h3, h4⟩ := h2 hlk
  exact ⟨hk, hlk, hW, hok.hW.mp hW, h3, by rw [h1, h4]⟩

/-- shared part of the two plain writes of `assign` -/
theorem glob_write {s : State} {i : Nat} {th th' : Th} {f : Fld} {sh' : Sh}
    (hG : Glob s) (hth : s.ths[i]? = some th) (hw : s.sh.w = some i) (ht : s.sh.t = .raw)
    (hf : f ≠ .m) (hft : f ≠ .t)
    (hhist : sh'.hist = mkAcc i f true false s.sh :: s.sh.hist)
    (hrace : sh'.race = (s.sh.race || races s.sh.hist th.hb (mkAcc i f true false s.sh)))
    (e_t : sh'.t = s.sh.t) (e_tg : sh'.tg = s.sh.tg) (e_m : sh'.m = s.sh.m) (e_w : sh'.w = s.sh.w)
    (e_r : sh'.r = s.sh.r) (e_relW : sh'.relW = s.sh.relW) (e_relR : sh'.relR = s.sh.relR)
    (hflag : sh'.wl = true ∨ sh'.wp = true ∨ sh'.wc = true)
    (hl : sh'.l = (if sh'.wl then 1 else 0)) (hp : sh'.p = (if sh'.wp then 1 else 0))
    (hhb : th'.hb = s.sh.hist.length :: th.hb) :
    Glob ⟨sh', s.ths.set i th'⟩ := by
  have hr := races_false_iff.mpr (writer_norace (atm := false) hG hth hw ht hf (fun _ => hft))
  constructor
  · show sh'.m = true
    rw [e_m]; exact hG.m
  · show sh'.race = false
    rw [hrace, hG.norace, hr]; rfl
  · show sh'.t ≠ .err
    rw [e_t]; exact hG.noerr
  · intro j hj
    simp only at hj ⊢
    rw [e_w] at hj; rw [e_r]; exact hG.excl j hj
  · intro hn
    simp only at hn
    rw [e_w, hw] at hn; cases hn
  · intro _
    simp only
    rw [e_tg]
    exact ⟨(hG.gRaw ht).1, hl, hp⟩
  · intro hp'
    simp only at hp'
    rw [e_t, ht] at hp'; cases hp'
  · intro hn
    simp only at hn
    rw [e_t] at hn; exact absurd ht hn
  · intro _ b hb hbw
    simp only at hb ⊢
    rw [hhist] at hb
    rw [e_w]
    rcases List.mem_cons.mp hb with rfl | hb
    · exact ⟨hw, hflag⟩
    · exact ⟨(hG.wrBy ht b hb hbw).1, hflag⟩
  · intro b hb hbw hbf
    simp only at hb
    rw [hhist] at hb
    rcases List.mem_cons.mp hb with rfl | hb
    · simp only [mkAcc] at hbf; exact absurd hbf hft
    · exact hG.wrAtomicT b hb hbw hbf
  · intro b hb hbw
    simp only at hb
    rw [hhist] at hb
    rcases List.mem_cons.mp hb with rfl | hb
    · simp only [mkAcc]; exact hf
    · exact hG.wrNotM b hb hbw
  · intro b hb hba
    simp only at hb
    rw [hhist] at hb
    rcases List.mem_cons.mp hb with rfl | hb
    · simp [mkAcc] at hba
    · exact hG.atomicT b hb hba
  · intro _ b hb hbw hba hbm
    simp only at hb ⊢
    rw [hhist] at hb
    rw [e_relR, e_relW, e_w, e_r]
    rcases List.mem_cons.mp hb with rfl | hb
    · simp [mkAcc] at hbw
    · exact hG.rdRel ht b hb hbw hba hbm
  · intro j thj hj
    simp only at hj ⊢
    rw [e_relR, e_relW, e_w, e_r]
    rw [getElem?_set_ite hth] at hj
    by_cases hij : i = j
    · subst hij
      simp only [if_true] at hj
      cases hj
      have := hG.holdHB i th hth
      rw [hhb]
      exact ⟨fun hw' => ⟨fun x hx => List.mem_cons_of_mem _ ((this.1 hw').1 x hx),
                          fun x hx => List.mem_cons_of_mem _ ((this.1 hw').2 x hx)⟩,
             fun hr' x hx => List.mem_cons_of_mem _ (this.2 hr' x hx)⟩
    · simp only [hij, if_false] at hj
      exact hG.holdHB j thj hj
  · intro b hb thj hj
    simp only at hb hj
    rw [hhist] at hb
    rw [getElem?_set_ite hth] at hj
    rcases List.mem_cons.mp hb with rfl | hb
    · simp only [mkAcc, if_true] at hj ⊢
      cases hj
      rw [hhb]; exact List.mem_cons_self
    · by_cases hij : i = b.tid
      · simp only [hij, if_true] at hj
        cases hj
        rw [hhb]
        exact List.mem_cons_of_mem _ (hG.own b hb th (hij ▸ hth))
      · simp only [hij, if_false] at hj
        exact hG.own b hb thj hj
  · show sh'.hist.Pairwise _
    rw [hhist]
    exact ordered_cons hG.ordered hth (by rw [hhb]; exact fun x hx => List.mem_cons_of_mem _ hx) rfl
      (fun b hb hc => by rw [hhb]; exact List.mem_cons_of_mem _ (writer_norace (atm := false) hG hth hw ht hf (fun _ => hft) b hb hc))
  · intro _ a ha
    simp only at ha
    rw [hhist] at ha
    rcases List.mem_cons.mp ha with rfl | ha
    · simp [mkAcc]
    · exact hG.rawNoStore ht a ha
  · show sh'.hist.Pairwise _
    rw [hhist]
    refine List.pairwise_cons.mpr ⟨fun b hb hst => ?_, hG.noWriteAfterStore⟩
    rw [hG.rawNoStore ht b hb] at hst; cases hst


theorem genOf_eq {th : Th} {v : TV} {g : Nat} (h : th.tv = some (v, g)) : genOf th = g := by
  unfold genOf; rw [h]

theorem inv_writeL {s : State} {i : Nat} {th : Th} {a : Abs} {K : Prog}
    (hI : Inv pf s) (hth : s.ths[i]? = some th) (hok : ThOK i s.sh th a)
    (hc : a.canWrite = true) (hwl : a.wl = false) (hK : safe pf { a with wl := true } K = true) :
    Inv pf ⟨(execOp i s.sh th .writeL K).1, s.ths.set i (execOp i s.sh th .writeL K).2⟩ := by
  have hG := hI.1
  obtain ⟨hk, hlk, hW, hw, ht, htv⟩ := canWrite_info hok hc
  have hg : genOf th = 0 := by rw [genOf_eq htv]; exact (hG.gRaw ht).1
  have hflags := hok.wlw hW
  simp only [execOp]
  apply inv_update hI hth
  · apply glob_write (f := .l) (sh' := { s.sh.record th.hb (mkAcc i .l true false s.sh) with l := genOf th + 1, wl := true }) hG hth hw ht (by decide) (by decide) rfl rfl rfl rfl rfl rfl rfl rfl rfl (Or.inl rfl)
    · simp only [Sh.record, hg]; rfl
    · simp only [Sh.record]
      exact (hG.gRaw ht).2.2
    · rfl
  · refine ⟨_, hK, ?_⟩
    refine { hW := hok.hW, hR := hok.hR, lkHeld := hok.lkHeld, wlw := ?_, wlH := fun _ => hW, wpH := hok.wpH, wcH := hok.wcH,
             nofault := hok.nofault, mread := hok.mread, lv := hok.lv, tvok := hok.tvok, know := ?_,
             view := viewOK_congr hok.view rfl rfl rfl }
    · intro _
      exact ⟨rfl, hflags.2.1, hflags.2.2⟩
    · unfold KnowOK
      simp only [hk]
      exact ⟨s.sh.tg, htv, fun _ => ⟨ht, rfl⟩⟩
  · intro j thj aj hji hj hokj
    exact hokj.frame_write hji hw (hG.excl i hw) ht rfl rfl

theorem inv_writeP {s : State} {i : Nat} {th : Th} {a : Abs} {K : Prog}
    (hI : Inv pf s) (hth : s.ths[i]? = some th) (hok : ThOK i s.sh th a)
    (hc : a.canWrite = true) (hwp : a.wp = false) (hK : safe pf { a with wp := true } K = true) :
    Inv pf ⟨(execOp i s.sh th .writeP K).1, s.ths.set i (execOp i s.sh th .writeP K).2⟩ := by
  have hG := hI.1
  obtain ⟨hk, hlk, hW, hw, ht, htv⟩ := canWrite_info hok hc
  have hg : genOf th = 0 := by rw [genOf_eq htv]; exact (hG.gRaw ht).1
  have hflags := hok.wlw hW
  simp only [execOp]
  apply inv_update hI hth
  · apply glob_write (f := .p) (sh' := { s.sh.record th.hb (mkAcc i .p true false s.sh) with p := genOf th + 1, wp := true }) hG hth hw ht (by decide) (by decide) rfl rfl rfl rfl rfl rfl rfl rfl rfl (Or.inr (Or.inl rfl))
    · simp only [Sh.record]
      exact (hG.gRaw ht).2.1
    · simp only [Sh.record, hg]; rfl
    · rfl
  · refine ⟨_, hK, ?_⟩
    refine { hW := hok.hW, hR := hok.hR, lkHeld := hok.lkHeld, wlw := ?_, wlH := hok.wlH, wpH := fun _ => hW, wcH := hok.wcH,
             nofault := hok.nofault, mread := hok.mread, lv := hok.lv, tvok := hok.tvok, know := ?_,
             view := viewOK_congr hok.view rfl rfl rfl }
    · intro _
      exact ⟨hflags.1, rfl, hflags.2.2⟩
    · unfold KnowOK
      simp only [hk]
      exact ⟨s.sh.tg, htv, fun _ => ⟨ht, rfl⟩⟩
  · intro j thj aj hji hj hokj
    exact hokj.frame_write hji hw (hG.excl i hw) ht rfl rfl


/-- the parser building the children (container, child slots) under the write lock, before assign -/
theorem inv_writeC {s : State} {i : Nat} {th : Th} {a : Abs} {K : Prog}
    (hI : Inv pf s) (hth : s.ths[i]? = some th) (hok : ThOK i s.sh th a)
    (hc : a.canWrite = true) (hK : safe pf { a with wc := true } K = true) :
    Inv pf ⟨(execOp i s.sh th .writeC K).1, s.ths.set i (execOp i s.sh th .writeC K).2⟩ := by
  have hG := hI.1
  obtain ⟨hk, hlk, hW, hw, ht, htv⟩ := canWrite_info hok hc
  have hflags := hok.wlw hW
  simp only [execOp]
  apply inv_update hI hth
  · apply glob_write (f := .c) (sh' := { s.sh.record th.hb (mkAcc i .c true false s.sh) with wc := true }) hG hth hw ht (by decide) (by decide) rfl rfl rfl rfl rfl rfl rfl rfl rfl (Or.inr (Or.inr rfl))
    · simp only [Sh.record]
      exact (hG.gRaw ht).2.1
    · simp only [Sh.record]
      exact (hG.gRaw ht).2.2
    · rfl
  · refine ⟨_, hK, ?_⟩
    refine { hW := hok.hW, hR := hok.hR, lkHeld := hok.lkHeld, wlw := ?_, wlH := hok.wlH, wpH := hok.wpH,
             wcH := fun _ => hW,
             nofault := hok.nofault, mread := hok.mread, lv := hok.lv, tvok := hok.tvok, know := ?_,
             view := viewOK_congr hok.view rfl rfl rfl }
    · intro _
      exact ⟨hflags.1, hflags.2.1, rfl⟩
    · unfold KnowOK
      simp only [hk]
      exact ⟨s.sh.tg, htv, fun _ => ⟨ht, rfl⟩⟩
  · intro j thj aj hji hj hokj
    exact hokj.frame_write hji hw (hG.excl i hw) ht rfl rfl

end SonicSpec.RW
