/-
  Encoder IR, compiler correctness (3): arrays (the unrolled element sequence of compileArray).
-/
import SonicSpec.Proofs.IrSlice
namespace SonicSpec.Ir
open SonicSpec SonicSpec.Go SonicSpec.Enc SonicSpec.Json
variable {o : EncOpts} {co : COpts}

theorem regs_load_eq (r : Regs) (c : Cur) : { ({ r with p := c } : Regs) with x := r.x, p := r.p, q := r.q } = r := by
  cases r; rfl

theorem drop_getElem? {α : Type} {xs ys : List α} {y : α} {i : Nat} (h : xs.drop i = y :: ys) : xs[i]? = some y ∧ xs.drop (i + 1) = ys := by
  constructor
  · have := congrArg List.head? h
    simpa [List.head?_drop] using this
  · have := congrArg List.tail h
    simpa [List.tail_drop] using this

/-- compileArray, the elements after the first: the cursor is back on the array before each -/
theorem arrRest_ok {t : GoType} {fpv addr : Bool} {P : Program} {sp : Nat} {pv : Bool} (size : Nat) {lv : Nat} {tab : List GoType} (hlv : libLeft tab ≤ lv)
    (r : Regs) (s : Stack) (xs : List GoVal) (hr : r.p.get = some (.arr xs)) (hroom : ∀ y ∈ xs, (r :: s).length + needV t y ≤ maxStack) :
    ∀ (k i pc : Nat) (b : Bytes) (ys : List GoVal), xs.drop i = ys → ys.length = k → (∀ y ∈ ys, CodeOK o co t y) →
      At P pc (arrRest (fun pc' => code co (libK co lv) tab pc' sp pv t) size k i pc) →
      (∀ js, encL o addr t ys = .ok js → ∀ res,
          Halts o co fpv P (pc + (arrRest (fun pc' => code co (libK co lv) tab pc' sp pv t) size k i pc).length) r (r :: s) (b ++ tailElems js) res →
          Halts o co fpv P pc r (r :: s) b res) ∧
      (∀ e, encL o addr t ys = .error e → e = .unsupportedValue ∧ Halts o co fpv P pc r (r :: s) b (.error (.enc e))) := by
  intro k
  induction k with
  | zero =>
    intro i pc b ys _ hlen _ _
    have : ys = [] := List.length_eq_zero_iff.mp hlen
    subst this
    constructor
    · intro js hjs res h
      simp only [encL] at hjs
      injection hjs with hjs; subst hjs
      exact halts_cast h (by simp [arrRest]) rfl rfl (by simp [tailElems])
    · intro e he; simp only [encL] at he; cases he
  | succ k ih =>
    intro i pc b ys hdrop hlen hall hat
    cases ys with
    | nil => simp at hlen
    | cons y ys =>
      obtain ⟨hget, hdrop'⟩ := drop_getElem? hdrop
      rw [arrRest] at hat ⊢
      generalize hc : code co (libK co lv) tab (pc + 2) sp pv t = c at hat ⊢
      have hA : At P pc [Instr.byte 44, Instr.index i (i * size)] := hat.left.left.left
      have hC : At P (pc + 2) c := At.right' hat.left.left (by simp)
      have hL : At P (pc + 2 + c.length) [Instr.load] := At.right' hat.left (by simp <;> omega)
      have hR := At.right' (q := pc + 2 + c.length + 1) hat (by simp <;> omega)
      obtain ⟨hyok, hyerr⟩ := hall y (by simp) lv tab hlv addr fpv P (pc + 2) sp pv { r with p := .val y } (r :: s) (b ++ [44]) (hc ▸ hC) rfl (hroom y (List.mem_of_getElem? hget))
      rw [hc] at hyok
      have hidx : step o (Instr.index i (i * size)) (pc + 1) r (r :: s) (b ++ [44]) =
          .next (pc + 1 + 1) { r with p := .val y } (r :: s) (b ++ [44]) := by
        simp only [step, hr, hget]
      have hload : ∀ bb, step o Instr.load (pc + 2 + c.length) { r with p := .val y } (r :: s) bb =
          .next (pc + 2 + c.length + 1) r (r :: s) bb := by
        intro bb
        simp only [step]
      constructor
      · intro js hjs res h
        simp only [encL, bind, Except.bind, pure, Except.pure] at hjs
        split at hjs
        · cases hjs
        · rename_i jy hjy
          split at hjs
          · cases hjs
          · rename_i jr hjr
            injection hjs with hjs; subst hjs
            refine halts_step (hA.get 0 (by omega) rfl) (by simp only [step]; rfl) ?_
            refine halts_step (hA.get 1 (by omega) rfl) hidx ?_
            refine halts_cast (hyok jy hjy res ?_) (by omega) rfl rfl rfl
            refine halts_step (hL.get 0 (by omega) rfl) (hload _) ?_
            refine (ih (i + 1) (pc + 2 + c.length + 1) (b ++ [44] ++ render jy) ys hdrop' (by simpa using hlen)
              (fun z hz => hall z (by simp [hz])) hR).1 jr hjr res ?_
            exact halts_cast h (by simp <;> omega) rfl rfl (by simp [tailElems])
      · intro e he
        simp only [encL, bind, Except.bind, pure, Except.pure] at he
        split at he
        · rename_i e' hjy
          injection he with he; subst he
          obtain ⟨h1, h2⟩ := hyerr _ hjy
          refine ⟨h1, ?_⟩
          refine halts_step (hA.get 0 (by omega) rfl) (by simp only [step]; rfl) ?_
          refine halts_step (hA.get 1 (by omega) rfl) hidx ?_
          exact halts_cast h2 (by omega) rfl rfl rfl
        · rename_i jy hjy
          split at he
          · rename_i e' hjr
            injection he with he; subst he
            obtain ⟨h1, h2⟩ := (ih (i + 1) (pc + 2 + c.length + 1) (b ++ [44] ++ render jy) ys hdrop' (by simpa using hlen)
              (fun z hz => hall z (by simp [hz])) hR).2 _ hjr
            refine ⟨h1, ?_⟩
            refine halts_step (hA.get 0 (by omega) rfl) (by simp only [step]; rfl) ?_
            refine halts_step (hA.get 1 (by omega) rfl) hidx ?_
            refine halts_cast (hyok jy hjy _ ?_) (by omega) rfl rfl rfl
            refine halts_step (hL.get 0 (by omega) rfl) (hload _) ?_
            exact h2
          · cases he


theorem codeOK_arr {t : GoType} (n : Nat) (xs : List GoVal) (hn : xs.length = n) (hall : ∀ x ∈ xs, CodeOK o co t x) :
    CodeOKn o co (.arr n t) (.arr xs) := by
  intro lv tab hlv hnh addr fpv P pc sp pv r s b hat hg hs
  rw [code, if_neg (by simp [hnh])] at hat ⊢
  simp only [needV] at hs
  have hlv' : libLeft (.arr n t :: tab) ≤ lv := Nat.le_trans (libLeft_cons_le _ _) hlv
  have hnl : ∀ y ∈ xs, needV t y ≤ needL t xs := needL_mem xs
  have hsave : ∀ q bb e, step o (.save e) q r s bb =
      .next (q + 1) (if e then { r with p := .elems xs } else r) (r :: s) bb := by
    intro q bb e
    simp only [step]
    rw [if_neg (by omega)]
    cases e <;> simp [hg]
  simp only [encV, hn, beq_self_eq_true, if_true]
  cases xs with
  | nil =>
    simp only [List.length_nil] at hn
    subst hn
    simp only [beq_self_eq_true, if_true, Nat.zero_sub, arrRest, List.append_nil, bne_self_eq_false] at hat ⊢
    constructor
    · intro j hj res h
      simp only [encL, Except.map] at hj
      injection hj with hj; subst hj
      refine halts_step (hat.get 0 (by omega) rfl) (by simp only [step]; rfl) ?_
      refine halts_step (hat.get 1 (by omega) rfl) (hsave _ _ _) ?_
      refine halts_step (hat.get 2 (by omega) rfl) (by simp only [step]; rfl) ?_
      refine halts_step (hat.get 3 (by omega) rfl) (by simp only [step]; rfl) ?_
      exact halts_cast h (by simp) rfl rfl (by simp [render, renderElems])
    · intro e he; simp only [encL, Except.map] at he; cases he
  | cons x xs =>
    simp only [List.length_cons] at hn
    subst hn
    have hne : (xs.length + 1 == 0) = false := by simp
    have hne' : (xs.length + 1 != 0) = true := by simp
    simp only [hne, hne', Bool.false_eq_true, if_false, Nat.add_sub_cancel] at hat ⊢
    generalize hc : code co (libK co lv) (.arr (xs.length + 1) t :: tab) (pc + 2) (sp + 1) pv t = c at hat ⊢
    have hA : At P pc [Instr.byte 91, Instr.save true] := hat.left.left.left
    have hC : At P (pc + 2) c := (At.right' hat.left.left (by simp)).left
    have hL : At P (pc + 2 + c.length) [Instr.load] := (At.right' hat.left.left (by simp)).right
    have hR := At.right' (q := pc + 2 + (c ++ [Instr.load]).length) hat.left (by simp <;> omega)
    have hE : At P (pc + 2 + (c ++ [Instr.load]).length + (arrRest (fun pc' => code co (libK co lv) (.arr (xs.length + 1) t :: tab) pc' (sp + 1) pv t) (tsize t) xs.length 1
        (pc + 2 + (c ++ [Instr.load]).length)).length) [Instr.drop, Instr.byte 93] := At.right' hat (by simp <;> omega)
    obtain ⟨hxok, hxerr⟩ := hall x (by simp) lv _ hlv' addr fpv P (pc + 2) (sp + 1) pv { r with p := .elems (x :: xs) } (r :: s) (b ++ [91])
      (hc ▸ hC) rfl (by have := hnl x (by simp); simp; omega)
    rw [hc] at hxok
    have hload : ∀ bb, step o Instr.load (pc + 2 + c.length) { r with p := .elems (x :: xs) } (r :: s) bb =
        .next (pc + 2 + c.length + 1) r (r :: s) bb := by
      intro bb
      simp only [step]
    constructor
    · intro j hj res h
      simp only [encL, bind, Except.bind, pure, Except.pure, Except.map] at hj
      split at hj
      · cases hj
      · rename_i js hjs
        injection hj with hj; subst hj
        split at hjs
        · cases hjs
        · rename_i jx hjx
          split at hjs
          · cases hjs
          · rename_i jr hjr
            injection hjs with hjs; subst hjs
            refine halts_step (hA.get 0 (by omega) rfl) (by simp only [step]; rfl) ?_
            refine halts_step (hA.get 1 (by omega) rfl) (hsave _ _ _) ?_
            refine halts_cast (hxok jx hjx res ?_) (by omega) (by simp) rfl rfl
            refine halts_step (hL.get 0 (by omega) rfl) (hload _) ?_
            refine halts_cast ((arrRest_ok (o := o) (co := co) (fpv := fpv) (addr := addr) (P := P) (sp := sp + 1) (pv := pv) (tsize t) hlv' r s (x :: xs) hg
              (fun y hy => by have := hnl y hy; simp; omega) xs.length 1 (pc + 2 + (c ++ [Instr.load]).length) (b ++ [91] ++ render jx) xs rfl rfl
              (fun z hz => hall z (by simp [hz])) hR).1 jr hjr res ?_) (by simp <;> omega) rfl rfl rfl
            refine halts_step (hE.get 0 (by omega) rfl) (by simp only [step]; rfl) ?_
            refine halts_step (hE.get 1 (by omega) rfl) (by simp only [step]; rfl) ?_
            exact halts_cast h (by simp <;> omega) rfl rfl (by simp [render, renderElems_cons])
    · intro e he
      simp only [encL, bind, Except.bind, pure, Except.pure, Except.map] at he
      split at he
      · rename_i e' hjs
        injection he with he; subst he
        split at hjs
        · rename_i e'' hjx
          injection hjs with hjs; subst hjs
          obtain ⟨h1, h2⟩ := hxerr _ hjx
          refine ⟨h1, ?_⟩
          refine halts_step (hA.get 0 (by omega) rfl) (by simp only [step]; rfl) ?_
          refine halts_step (hA.get 1 (by omega) rfl) (hsave _ _ _) ?_
          exact halts_cast h2 (by omega) (by simp) rfl rfl
        · rename_i jx hjx
          split at hjs
          · rename_i e'' hjr
            injection hjs with hjs; subst hjs
            obtain ⟨h1, h2⟩ := (arrRest_ok (o := o) (co := co) (fpv := fpv) (addr := addr) (P := P) (sp := sp + 1) (pv := pv) (tsize t) hlv' r s (x :: xs) hg
              (fun y hy => by have := hnl y hy; simp; omega) xs.length 1 (pc + 2 + (c ++ [Instr.load]).length) (b ++ [91] ++ render jx) xs rfl rfl
              (fun z hz => hall z (by simp [hz])) hR).2 _ hjr
            refine ⟨h1, ?_⟩
            refine halts_step (hA.get 0 (by omega) rfl) (by simp only [step]; rfl) ?_
            refine halts_step (hA.get 1 (by omega) rfl) (hsave _ _ _) ?_
            refine halts_cast (hxok jx hjx _ ?_) (by omega) (by simp) rfl rfl
            refine halts_step (hL.get 0 (by omega) rfl) (hload _) ?_
            exact halts_cast h2 (by simp <;> omega) rfl rfl rfl
          · cases hjs
      · cases he

end SonicSpec.Ir
