/-
  C15 - what skipIndex / skipKey find, stated on the abstraction.
-/
import SonicSpec.Proofs.AstLazy
set_option linter.unusedSimpArgs false
namespace SonicSpec.Ast

theorem repElems_getElem (st : List NodeM) (j : Nat) (x : NodeM) (hr : repElems st = true)
    (h : st[j]? = some x) (hl : x.live = true) : x.repOk = true :=
  (repElems_iff st).mp hr x (List.mem_of_getElem? h) hl

theorem repPairs_getElem (st : List PairM) (j : Nat) (p : PairM) (hr : repPairs st = true)
    (h : st[j]? = some p) (hl : pairLive p = true) : p.2.2.repOk = true :=
  (((repPairs_iff st).mp hr p (List.mem_of_getElem? h)).1 hl).1

theorem skipIndex_arr (l : Nat) (st : List NodeM) (i : Nat) :
    (NodeM.arr l st).skipIndex i =
      if l > i then (NodeM.arr l st, slotAt NodeM.live l st i) else (NodeM.arr l st, none) := rfl
theorem skipIndex_obj (l : Nat) (st : List PairM) (ix : Option Index) (i : Nat) :
    (NodeM.obj l st ix).skipIndex i =
      if l > i then (NodeM.obj l st ix, slotAt pairLive l st i) else (NodeM.obj l st ix, none) := rfl
theorem skipIndex_arrLazy (pre : List NodeM) (rest : List Tree) (i : Nat) :
    (NodeM.arrLazy pre rest).skipIndex i =
      if pre.length > i then (NodeM.arrLazy pre rest, some i) else skipIndexLazy pre rest i := rfl
theorem skipIndex_objLazy (pre : List PairM) (rest : List (Key × Tree)) (i : Nat) :
    (NodeM.objLazy pre rest).skipIndex i =
      if pre.length > i then (NodeM.objLazy pre rest, some i) else skipIndexPairLazy pre rest i := rfl

/-- `skipIndex` / `skipIndexPair`: the slot found is child number `index` of the abstraction -/
theorem skipIndex_spec (n : NodeM) (index : Nat) (hr : n.repOk = true) (hn : n.isRaw = false) :
    (n.skipIndex index).1.abs = n.abs ∧ (n.skipIndex index).1.repOk = true ∧
    (n.skipIndex index).1.isRaw = false ∧
    (match (n.skipIndex index).2 with
     | some j => FoundAt (n.skipIndex index).1 j index
     | none => n.abs.kidAt index = none) := by
  cases n with
  | arr l st =>
    have hr0 := hr
    simp only [NodeM.repOk, Bool.and_eq_true, decide_eq_true_eq] at hr
    by_cases hi : l > index
    · rw [skipIndex_arr, if_pos hi]
      obtain ⟨p, x, h1, h2, h3, h4, h5⟩ := slotAt_spec NodeM.live l st index hr.2 hi
      refine ⟨rfl, hr0, rfl, ?_⟩
      rw [h1]
      refine ⟨x, h2, h3, repElems_getElem st p x hr.1 h2 h3, ?_, h5⟩
      simp [NodeM.abs, Tree.kidAt, absElems_eq, h4]
    · rw [skipIndex_arr, if_neg hi]
      refine ⟨rfl, hr0, rfl, ?_⟩
      have : (absElems st).length = l := by rw [hr.2, absElems_eq]; simp [countLive]
      simp [NodeM.abs, Tree.kidAt]; omega
  | obj l st ix =>
    have hr0 := hr
    simp only [NodeM.repOk, Bool.and_eq_true, decide_eq_true_eq] at hr
    replace hr := hr.1
    by_cases hi : l > index
    · rw [skipIndex_obj, if_pos hi]
      obtain ⟨p, x, h1, h2, h3, h4, h5⟩ := slotAt_spec pairLive l st index hr.2 hi
      refine ⟨rfl, hr0, rfl, ?_⟩
      rw [h1]
      refine ⟨x.2.2, by simp [NodeM.childAt, h2], h3, repPairs_getElem st p x hr.1 h2 h3, ?_, h5⟩
      simp [NodeM.abs, Tree.kidAt, absPairs_eq, h4]
    · rw [skipIndex_obj, if_neg hi]
      refine ⟨rfl, hr0, rfl, ?_⟩
      have : (absPairs st).length = l := by rw [hr.2, absPairs_eq]; simp [countLive]
      simp [NodeM.abs, Tree.kidAt]; omega
  | arrLazy pre rest =>
    have hr0 := hr
    simp only [NodeM.repOk, Bool.and_eq_true] at hr
    obtain ⟨⟨hrp, hl⟩, _⟩ := hr
    have hall := (allLiveElems_iff pre).mp hl
    by_cases hi : pre.length > index
    · rw [skipIndex_arrLazy, if_pos hi]
      refine ⟨rfl, hr0, rfl, pre[index], by simp [NodeM.childAt, hi], hall _ (List.getElem_mem _),
        repElems_getElem pre index _ hrp (by simp [hi]) (hall _ (List.getElem_mem _)), ?_, ?_⟩
      · have : (absElems pre)[index]? = some (pre[index]).abs := by
          rw [absElems_eq, List.filter_eq_self.mpr hall]; simp [hi]
        have hlt : index < (absElems pre).length := by
          rw [absElems_eq, List.filter_eq_self.mpr hall]; simpa using hi
        simp [NodeM.abs, Tree.kidAt, List.getElem?_append_left hlt, this]
      · exact countLive_take_all NodeM.live pre hall index (by omega)
    · rw [skipIndex_arrLazy, if_neg hi]
      have := skipIndexLazy_spec rest pre index hrp hall (by omega)
      simp only [NodeM.abs, Tree.kidAt] at this ⊢
      exact this
  | objLazy pre rest =>
    have hr0 := hr
    simp only [NodeM.repOk, Bool.and_eq_true] at hr
    obtain ⟨⟨hrp, hl⟩, _⟩ := hr
    have hall := (allLivePairs_iff pre).mp hl
    by_cases hi : pre.length > index
    · rw [skipIndex_objLazy, if_pos hi]
      refine ⟨rfl, hr0, rfl, (pre[index]).2.2, by simp [NodeM.childAt, hi], hall _ (List.getElem_mem _),
        repPairs_getElem pre index _ hrp (by simp [hi]) (hall _ (List.getElem_mem _)), ?_, ?_⟩
      · have : (absPairs pre)[index]? = some ((pre[index]).2.1, (pre[index]).2.2.abs) := by
          rw [absPairs_eq, List.filter_eq_self.mpr hall]; simp [hi]
        have hlt : index < (absPairs pre).length := by
          rw [absPairs_length_all pre hall]; exact hi
        simp [NodeM.abs, Tree.kidAt, List.getElem?_append_left hlt, this]
      · exact countLive_take_all pairLive pre hall index (by omega)
    · rw [skipIndex_objLazy, if_neg hi]
      have := skipIndexPairLazy_spec rest pre index hrp hall (by omega)
      simp only [NodeM.abs, Tree.kidAt] at this ⊢
      obtain ⟨t1, t2, t3, t4⟩ := this
      refine ⟨t1, t2, t3, ?_⟩
      cases hq : (skipIndexPairLazy pre rest index).2 with
      | none => simp only [hq] at t4; simp [t4]
      | some j => simp only [hq] at t4; exact t4
  | raw v lock => simp [NodeM.isRaw] at hn
  | gone => simp [NodeM.repOk] at hr
  | _ => simp [NodeM.skipIndex, hr, NodeM.isRaw, NodeM.abs, Tree.kidAt]

theorem skipKey_obj (l : Nat) (st : List PairM) (ix : Option Index) (key : Key) :
    (NodeM.obj l st ix).skipKey key =
      if l > 0 then (NodeM.obj l st ix, pairsGet st ix key) else (NodeM.obj l st ix, Found.no) := rfl

theorem skipKey_objLazy (pre : List PairM) (rest : List (Key × Tree)) (key : Key) :
    (NodeM.objLazy pre rest).skipKey key =
      match (if pre.length > 0 then linearGet key pre else none) with
      | some i => (NodeM.objLazy pre rest, Found.at i)
      | none =>
        let r := skipKeyLazy pre rest key
        (r.1, match r.2 with | some i => Found.at i | none => Found.no) := rfl

theorem findKey_append_some {β : Type} (k : Key) (b : List (Key × β)) :
    ∀ (a : List (Key × β)) (i : Nat), findKey k a = some i → findKey k (a ++ b) = some i
  | [], i, h => by simp [findKey] at h
  | (k', v) :: r, i, h => by
    unfold findKey at h
    by_cases hk : k' = k
    · simp [hk] at h; subst h; simp [findKey, hk]
    · simp only [hk, if_false] at h
      cases hf : findKey k r with
      | none => simp [hf] at h
      | some j =>
        simp [hf] at h; subst h
        simp [findKey, hk, findKey_append_some k b r j hf]

/-- `skipKey`: the slot found holds the first live pair with that key, hash index or not -/
theorem skipKey_spec (n : NodeM) (key : Key) (hr : n.repOk = true) (hn : n.isRaw = false)
    (hk : n.kind = .obj) :
    (n.skipKey key).1.abs = n.abs ∧ (n.skipKey key).1.repOk = true ∧ (n.skipKey key).1.isRaw = false ∧
    (match (n.skipKey key).2 with
     | .at j => ∃ i kvs, FoundAt (n.skipKey key).1 j i ∧ n.abs = .obj kvs ∧ findKey key kvs = some i
     | .no => (∃ kvs, n.abs = .obj kvs ∧ findKey key kvs = none) ∧ ∃ l st ix, (n.skipKey key).1 = .obj l st ix) := by
  cases n with
  | obj l st ix =>
    have hr0 := hr
    simp only [NodeM.repOk, Bool.and_eq_true, decide_eq_true_eq] at hr
    obtain ⟨⟨hrp, hlen⟩, hix⟩ := hr
    rw [skipKey_obj]
    have hspec := firstLiveKey_findKey key st
    by_cases hl : l > 0
    · rw [if_pos hl]
      refine ⟨rfl, hr0, rfl, ?_⟩
      rw [pairsGet_spec st ix key hrp hix]
      cases hlg : firstLiveKey key st with
      | none =>
        simp only [hlg] at hspec
        exact ⟨⟨_, rfl, hspec⟩, _, _, _, rfl⟩
      | some p =>
        simp only [hlg] at hspec
        obtain ⟨q, h1, h2, h3, h4⟩ := hspec
        refine ⟨_, _, ⟨q.2.2, by simp [NodeM.childAt, h1], h2, repPairs_getElem st p q hrp h1 h2, ?_, rfl⟩, rfl, h4⟩
        have := absPairs_getElem st p q h1 h2
        simp [NodeM.abs, Tree.kidAt, NodeM.logIdx, this]
    · rw [if_neg hl]
      refine ⟨rfl, hr0, rfl, ⟨_, rfl, ?_⟩, _, _, _, rfl⟩
      have : absPairs st = [] := by
        have : (absPairs st).length = 0 := by
          rw [absPairs_eq, List.length_map]; unfold countLive at hlen; omega
        exact List.eq_nil_of_length_eq_zero this
      simp [this, findKey]
  | objLazy pre rest =>
    have hr0 := hr
    simp only [NodeM.repOk, Bool.and_eq_true] at hr
    obtain ⟨⟨hrp, hl⟩, _⟩ := hr
    have hall := (allLivePairs_iff pre).mp hl
    have hspec := firstLiveKey_findKey key pre
    rw [← linearGet_eq key pre hrp] at hspec
    rw [skipKey_objLazy]
    have hcases : (if pre.length > 0 then linearGet key pre else none) = linearGet key pre := by
      by_cases hp : pre.length > 0
      · rw [if_pos hp]
      · have : pre = [] := List.eq_nil_of_length_eq_zero (by omega)
        subst this; simp [linearGet]
    rw [hcases]
    cases hlg : linearGet key pre with
    | some p =>
      simp only [hlg] at hspec
      obtain ⟨q, h1, h2, h3, h4⟩ := hspec
      have hp : p < pre.length := by
        rcases Nat.lt_or_ge p pre.length with h | h
        · exact h
        · rw [List.getElem?_eq_none h] at h1; simp at h1
      have hidx := countLive_take_all pairLive pre hall p (by omega)
      rw [hidx] at h4
      refine ⟨rfl, hr0, rfl, p, _, ⟨q.2.2, by simp [NodeM.childAt, h1], h2, repPairs_getElem pre p q hrp h1 h2, ?_, ?_⟩,
        rfl, findKey_append_some key rest _ p h4⟩
      · have := absPairs_getElem pre p q h1 h2
        rw [hidx] at this
        have hlt : p < (absPairs pre).length := by rw [absPairs_length_all pre hall]; exact hp
        simp [NodeM.abs, Tree.kidAt, List.getElem?_append_left hlt, this]
      · simpa [NodeM.logIdx] using hidx
    | none =>
      simp only [hlg] at hspec
      obtain ⟨t1, t2, t3, t4⟩ := skipKeyLazy_spec rest pre key hrp hall hspec
      simp only [NodeM.abs]
      refine ⟨t1, t2, t3, ?_⟩
      cases hq : (skipKeyLazy pre rest key).2 with
      | none =>
        simp only [hq] at t4 ⊢
        exact ⟨⟨_, rfl, t4.1⟩, t4.2⟩
      | some j =>
        simp only [hq] at t4 ⊢
        obtain ⟨i, f1, f2⟩ := t4
        exact ⟨i, _, f1, rfl, f2⟩
  | raw v lock => simp [NodeM.isRaw] at hn
  | _ => simp [NodeM.kind] at hk

end SonicSpec.Ast
