/-
  Helper lemmas of the C18 work package, part 5: a sequence of setter calls on a fresh Encoder / Decoder,
  bit by bit.  Every setter is `w := (w ||| set) &&& ^clear`; the closed form of a whole sequence is proved
  once (for any masks), the regenerated tables only supply finite side conditions.
-/
import SonicSpec.Proofs.Opts
namespace SonicSpec.Opts
open SonicSpec

/-- one setter call with effective masks `m = (set, clear)` -/
def stepW (m : Nat × Nat) (w : Nat) : Nat := (w ||| m.1) &&& (all64 ^^^ m.2)

theorem all64_testBit (b : Nat) : all64.testBit b = decide (b < 64) := by
  unfold all64; exact Nat.testBit_two_pow_sub_one 64 b

theorem stepW_testBit (m : Nat × Nat) (w b : Nat) (hb : b < 64) :
    (stepW m w).testBit b = ((w.testBit b || m.1.testBit b) && !m.2.testBit b) := by
  simp [stepW, Nat.testBit_and, Nat.testBit_or, Nat.testBit_xor, all64_testBit, hb]

/-- bit `b` after the calls `steps`, started from `w`: it was set by some call (or was there) and not cleared since -/
def laterBit (b : Nat) : List (Nat × Nat) → Bool
  | [] => false
  | st :: r => (st.1.testBit b && !st.2.testBit b && r.all (fun x => !x.2.testBit b)) || laterBit b r

theorem foldl_stepW_testBit (b : Nat) (hb : b < 64) : ∀ (steps : List (Nat × Nat)) (w : Nat),
    (steps.foldl (fun w st => stepW st w) w).testBit b =
      ((w.testBit b && steps.all (fun x => !x.2.testBit b)) || laterBit b steps)
  | [], w => by simp [laterBit]
  | st :: r, w => by
    rw [List.foldl_cons, foldl_stepW_testBit b hb r, stepW_testBit st w b hb]
    simp only [laterBit, List.all_cons]
    cases w.testBit b <;> cases st.1.testBit b <;> cases st.2.testBit b <;> simp

theorem stepW_lt (m : Nat × Nat) (w : Nat) (h : m.2 < 2 ^ 64) : stepW m w < 2 ^ 64 := by
  unfold stepW
  apply Nat.lt_of_le_of_lt Nat.and_le_right
  exact Nat.xor_lt_two_pow (by unfold all64; omega) h

/-! ### the documented setter sequences on the regenerated tables -/

/-- a documented step: the Config field it carries over, and its row of `Gen.setters` -/
abbrev DStep := String × Setter
def sBool (e : DStep) : Bool := e.2.2.2.1
def sSetT (e : DStep) : Nat := e.2.2.2.2.1
def sClrT (e : DStep) : Nat := e.2.2.2.2.2.1
def sSetF (e : DStep) : Nat := e.2.2.2.2.2.2.1
def sClrF (e : DStep) : Nat := e.2.2.2.2.2.2.2

/-- (method, Config field): a setter with an argument is called with the field's value, one without is called
    when the field is on (that is how `encoder.Encoder` / `decoder.Decoder` are brought to a Config by hand) -/
def encSetterPairs : List (String × String) := [("SortKeys", "SortMapKeys"), ("SetEscapeHTML", "EscapeHTML"),
  ("SetValidateString", "ValidateString"), ("SetNoValidateJSONMarshaler", "NoValidateJSONMarshaler"),
  ("SetNoEncoderNewline", "NoEncoderNewline"), ("SetCompactMarshaler", "CompactMarshaler"),
  ("SetNoQuoteTextMarshaler", "NoQuoteTextMarshaler")]
def decSetterPairs : List (String × String) := [("UseInt64", "UseInt64"), ("UseNumber", "UseNumber"),
  ("UseUnicodeErrors", "UseUnicodeErrors"), ("DisallowUnknownFields", "DisallowUnknownFields"),
  ("CopyString", "CopyString"), ("ValidateString", "ValidateString")]

def resolve (recv : String) (pairs : List (String × String)) : List DStep :=
  pairs.filterMap fun p => (Gen.setters.find? (fun s => s.1 == recv && s.2.1 == p.1)).map fun s => (p.2, s)

/-- effective (set, clear) masks of one documented step under Config `c` -/
def stepMasks (c : Nat) (e : DStep) : Nat × Nat :=
  if fieldOn c e.1 then (sSetT e, sClrT e) else if sBool e then (sSetF e, sClrF e) else (0, 0)

/-- the options word of a fresh Encoder / Decoder after the documented steps -/
def runSteps (c : Nat) (es : List DStep) : Nat := es.foldl (fun w e => stepW (stepMasks c e) w) 0

/-- the bits of `word` that have a setter -/
def setterMask (es : List DStep) : Nat := es.foldl (fun acc e => if true then acc ||| sSetT e else acc) 0

/-- `applySetter` (what the correspondence runs against the real setters) is `stepW` on the row's masks -/
theorem applySetter_eq_stepW (recv meth : String) (arg : Bool) (w : Nat) (s : Setter)
    (h : Gen.setters.find? (fun s => s.1 == recv && s.2.1 == meth) = some s) :
    applySetter recv meth arg w =
      some (stepW (if arg then (s.2.2.2.1, s.2.2.2.2.1) else (s.2.2.2.2.2.1, s.2.2.2.2.2.2)) w) := by
  unfold applySetter applySetterIn
  rw [h]
  cases arg <;> rfl

/-- table side conditions (decided on the regenerated tables for the two sequences) -/
def orderedOk : List DStep → Bool
  | [] => true
  | e :: r => r.all (fun e' => (sSetT e &&& sClrF e' == 0) &&
      ((sSetT e &&& sClrT e' == 0) || (e.1 == "UseInt64" && e'.1 == "UseNumber"))) && orderedOk r

def tableOk (word : String) (es : List DStep) : Bool :=
  es.all (fun e => decide (sSetT e < 2 ^ 64) && decide (sClrT e < 2 ^ 64) && decide (sClrF e < 2 ^ 64) &&
    (sSetF e == 0) && (sSetT e &&& sClrT e == 0) &&
    Gen.frozeWires.any (fun w => wWord w == word && wField w == e.1 && wMask w == sSetT e)) && orderedOk es

theorem and_zero_bits {x y : Nat} (h : (x &&& y == 0) = true) (b : Nat) (hx : x.testBit b = true) : y.testBit b = false := by
  have h0 : x &&& y = 0 := by simpa using h
  have := congrArg (fun n => n.testBit b) h0
  simp only [Nat.testBit_and, hx, Bool.true_and, Nat.zero_testBit] at this
  exact this

/-- no later step clears a bit an earlier (switched-on) step has set - except UseNumber after UseInt64 -/
def Compat (c b : Nat) : List DStep → Prop
  | [] => True
  | e :: r => (fieldOn c e.1 = true → (sSetT e).testBit b = true →
      ∀ e' ∈ r, (stepMasks c e').2.testBit b = false) ∧ Compat c b r

theorem compat_of_ordered (c b : Nat) : ∀ es : List DStep,
    ((∃ e ∈ es, e.1 = "UseInt64") → ¬(fieldOn c "UseInt64" = true ∧ fieldOn c "UseNumber" = true)) →
    orderedOk es = true → Compat c b es
  | [], _, _ => trivial
  | e :: r, H', h => by
    simp only [orderedOk, Bool.and_eq_true, List.all_eq_true] at h
    refine ⟨?_, compat_of_ordered c b r (fun ⟨x, hx, hn⟩ => H' ⟨x, List.mem_cons_of_mem _ hx, hn⟩) h.2⟩
    have H : e.1 = "UseInt64" → ¬(fieldOn c "UseInt64" = true ∧ fieldOn c "UseNumber" = true) :=
      fun hn => H' ⟨e, List.mem_cons_self .., hn⟩
    intro hon hbit e' he'
    obtain ⟨hF, hT⟩ := h.1 e' he'
    unfold stepMasks
    by_cases hon' : fieldOn c e'.1 = true
    · simp only [hon', if_true]
      rcases Bool.or_eq_true _ _ |>.mp hT with hT | hT
      · exact and_zero_bits hT b hbit
      · exfalso
        simp only [Bool.and_eq_true, beq_iff_eq] at hT
        rw [hT.1] at hon; rw [hT.2] at hon'
        exact H hT.1 ⟨hon, hon'⟩
    · simp only [hon', Bool.false_eq_true, if_false]
      split
      · exact and_zero_bits hF b hbit
      · exact Nat.zero_testBit b

theorem laterBit_steps (c b : Nat) : ∀ es : List DStep,
    (∀ e ∈ es, sSetF e = 0 ∧ (sSetT e &&& sClrT e == 0) = true) → Compat c b es →
    laterBit b (es.map (stepMasks c)) = es.any (fun e => fieldOn c e.1 && (sSetT e).testBit b)
  | [], _, _ => rfl
  | e :: r, hes, hc => by
    have ih := laterBit_steps c b r (fun x hx => hes x (List.mem_cons_of_mem _ hx)) hc.2
    obtain ⟨hF0, hown⟩ := hes e (List.mem_cons_self ..)
    simp only [List.map_cons, laterBit, List.any_cons, ih]
    congr 1
    by_cases hon : fieldOn c e.1 = true
    · by_cases hbit : (sSetT e).testBit b = true
      · have h1 : (stepMasks c e) = (sSetT e, sClrT e) := by simp [stepMasks, hon]
        have h2 : (sClrT e).testBit b = false := and_zero_bits hown b hbit
        have h3 : (r.map (stepMasks c)).all (fun x => !x.2.testBit b) = true := by
          simp only [List.all_map, List.all_eq_true, Function.comp]
          intro x hx; simp [hc.1 hon hbit x hx]
        simp [h1, h2, h3, hon, hbit]
      · have h1 : (stepMasks c e) = (sSetT e, sClrT e) := by simp [stepMasks, hon]
        simp [h1, hon, hbit]
    · have h1 : (stepMasks c e).1 = 0 := by
        unfold stepMasks; simp only [hon, Bool.false_eq_true, if_false]; split <;> simp [hF0]
      simp [h1, hon]

theorem setterMask_testBit (es : List DStep) (b : Nat) :
    (setterMask es).testBit b = es.any (fun e => (sSetT e).testBit b) := by
  unfold setterMask
  rw [testBit_foldl_or (fun _ => true) sSetT b]
  simp

theorem owners_len (word : String) (hw : word = "encoderOpts" ∨ word = "decoderOpts") (b : Nat) :
    (owners word b).length ≤ 1 := by
  by_cases hb : b < 64
  · have h := List.all_eq_true.mp owners_le_one b (List.mem_range.mpr hb)
    simp only [Bool.and_eq_true, decide_eq_true_eq] at h
    rcases hw with rfl | rfl
    · exact h.1
    · exact h.2
  · rw [owners_high word b (Nat.le_of_not_lt hb)]; exact Nat.zero_le _

theorem any_const_and {α : Type} (k : Bool) (p : α → Bool) (l : List α) :
    l.any (fun x => k && p x) = (k && l.any p) := by
  induction l with
  | nil => simp
  | cons x xs ih => simp only [List.any_cons, ih]; cases k <;> simp

theorem any_congr_mem {α : Type} (p q : α → Bool) (l : List α) (h : ∀ x ∈ l, p x = q x) : l.any p = l.any q := by
  induction l with
  | nil => rfl
  | cons x xs ih =>
    simp only [List.any_cons, h x (List.mem_cons_self ..), ih (fun y hy => h y (List.mem_cons_of_mem _ hy))]

/-- the wire of a documented step is an owner of every bit of the step's set mask -/
theorem step_wire_mem (word : String) (es : List DStep) (htab : tableOk word es = true) (e : DStep) (he : e ∈ es)
    (b : Nat) (hbit : (sSetT e).testBit b = true) : ∃ w ∈ owners word b, wField w = e.1 := by
  simp only [tableOk, Bool.and_eq_true, List.all_eq_true] at htab
  have h := (htab.1 e he).2
  simp only [List.any_eq_true, Bool.and_eq_true, beq_iff_eq] at h
  obtain ⟨w, hwm, ⟨hword, hfield⟩, hmask⟩ := h
  refine ⟨w, ?_, hfield⟩
  unfold owners
  simp only [List.mem_filter, Bool.and_eq_true, beq_iff_eq]
  exact ⟨hwm, hword, by rw [hmask]; exact hbit⟩

theorem froze_masked_testBit (word : String) (hw : word = "encoderOpts" ∨ word = "decoderOpts") (c b : Nat)
    (es : List DStep) (htab : tableOk word es = true) :
    (frozeWord word c &&& setterMask es).testBit b = es.any (fun e => fieldOn c e.1 && (sSetT e).testBit b) := by
  rw [Nat.testBit_and, frozeWord_testBit, setterMask_testBit]
  have hlen := owners_len word hw b
  match hown : owners word b, hlen with
  | [], _ =>
    rw [any_of_filter_nil (fun w => wWord w == word && (wMask w).testBit b) (fun w => fieldOn c (wField w)) Gen.frozeWires hown]
    symm
    simp only [Bool.false_and]
    rw [List.any_eq_false]
    intro e he
    by_cases hbit : (sSetT e).testBit b = true
    · obtain ⟨w, hwm, _⟩ := step_wire_mem word es htab e he b hbit
      rw [hown] at hwm; cases hwm
    · simp [hbit]
  | [w0], _ =>
    rw [any_of_filter_single (fun w => wWord w == word && (wMask w).testBit b) (fun w => fieldOn c (wField w)) w0 Gen.frozeWires hown]
    rw [← any_const_and]
    apply any_congr_mem
    intro e he
    by_cases hbit : (sSetT e).testBit b = true
    · obtain ⟨w, hwm, hf⟩ := step_wire_mem word es htab e he b hbit
      rw [hown] at hwm
      simp only [List.mem_singleton] at hwm
      subst hwm
      rw [hf]
    · simp [hbit]
  | _ :: _ :: _, h => exact absurd h (by simp)

theorem foldl_stepW_lt (c : Nat) : ∀ (es : List DStep) (w : Nat),
    (∀ e ∈ es, sClrT e < 2 ^ 64 ∧ sClrF e < 2 ^ 64) → w < 2 ^ 64 →
    es.foldl (fun w e => stepW (stepMasks c e) w) w < 2 ^ 64
  | [], _, _, hw => hw
  | e :: r, w, h, _ => by
    rw [List.foldl_cons]
    apply foldl_stepW_lt c r _ (fun x hx => h x (List.mem_cons_of_mem _ hx))
    apply stepW_lt
    obtain ⟨h1, h2⟩ := h e (List.mem_cons_self ..)
    unfold stepMasks
    split
    · exact h1
    · split
      · exact h2
      · decide

/-- the documented setter sequence on a fresh object yields exactly the bits `Froze` gives to the switches
    that have a setter - for EVERY Config in which UseInt64 and UseNumber are not both on -/
theorem runSteps_eq_froze (word : String) (hw : word = "encoderOpts" ∨ word = "decoderOpts") (es : List DStep)
    (htab : tableOk word es = true) (c : Nat)
    (H : (∃ e ∈ es, e.1 = "UseInt64") → ¬(fieldOn c "UseInt64" = true ∧ fieldOn c "UseNumber" = true)) :
    runSteps c es = frozeWord word c &&& setterMask es := by
  have htab' := htab
  simp only [tableOk, Bool.and_eq_true, List.all_eq_true, decide_eq_true_eq, beq_iff_eq] at htab'
  obtain ⟨hall, hord⟩ := htab'
  apply Nat.eq_of_testBit_eq
  intro b
  rw [froze_masked_testBit word hw c b es htab]
  by_cases hb : b < 64
  · unfold runSteps
    rw [← List.foldl_map (f := stepMasks c) (g := fun w st => stepW st w), foldl_stepW_testBit b hb]
    simp only [Nat.zero_testBit, Bool.false_and, Bool.false_or]
    apply laterBit_steps c b es _ (compat_of_ordered c b es H hord)
    intro e he
    have := hall e he
    exact ⟨this.1.1.2, by simpa using this.1.2⟩
  · have hb' : 64 ≤ b := Nat.le_of_not_lt hb
    have hlt : runSteps c es < 2 ^ 64 :=
      foldl_stepW_lt c es 0 (fun e he => ⟨(hall e he).1.1.1.1.2, (hall e he).1.1.1.2⟩) (by decide)
    rw [Nat.testBit_lt_two_pow (Nat.lt_of_lt_of_le hlt (Nat.pow_le_pow_right (by decide) hb'))]
    symm
    rw [List.any_eq_false]
    intro e he
    have hs : sSetT e < 2 ^ 64 := (hall e he).1.1.1.1.1
    simp [Nat.testBit_lt_two_pow (Nat.lt_of_lt_of_le hs (Nat.pow_le_pow_right (by decide) hb'))]

/-- the side conditions hold on the regenerated tables, and every documented method exists there -/
theorem enc_table_ok : tableOk "encoderOpts" (resolve "Encoder" encSetterPairs) = true ∧
    (resolve "Encoder" encSetterPairs).length = encSetterPairs.length := by decide +kernel
theorem enc_no_int64 : ¬ ∃ e ∈ resolve "Encoder" encSetterPairs, e.1 = "UseInt64" := by decide +kernel
theorem dec_table_ok : tableOk "decoderOpts" (resolve "Decoder" decSetterPairs) = true ∧
    (resolve "Decoder" decSetterPairs).length = decSetterPairs.length := by decide +kernel

end SonicSpec.Opts
