/-
  The leaf writers of the encoding/json specification (Model/EncStd.lean) against those of the Enc model:
  the index loop of `appendString` is the piece-wise literal of `Enc.quoteLit`, core C's integer writer is
  `Enc.intDec`, encoding/base64's table walk is `Enc.b64`.
-/
import SonicSpec.Model.EncStd
import SonicSpec.Proofs.EncLeaf
namespace SonicSpec.EncStd
open SonicSpec SonicSpec.Enc

theorem escAscii_eq : ∀ b : UInt8, b < 128 → ∀ html : Bool,
    escAscii html b = if (htmlSafeSet b || (!html && safeSet b)) = true then [b] else escByte b := by
  apply forall_uint8
  decide +kernel

theorem seqLen_low {c : UInt8} (h : c < 128) (r : Bytes) : seqLen (c :: r) = 1 := by
  simp [seqLen, h]

/-- the loop of `appendString` writes, piece by piece, what `Enc.quotePiece` (with U+FFFD) says -/
theorem appendLoop_spec (html : Bool) : ∀ (f : Nat) (s pendR : Bytes), s.length ≤ f →
    appendLoop html f s pendR = pendR.reverse ++ (piecesF f s).flatMap (quotePiece html true) := by
  intro f
  induction f with
  | zero =>
    intro s pendR h
    cases s with
    | nil => simp [appendLoop, piecesF]
    | cons c r => simp at h
  | succ f ih =>
    intro s pendR h
    cases s with
    | nil => simp [appendLoop, piecesF]
    | cons c r =>
      have hr : r.length ≤ f := by simpa using h
      by_cases hc : c < 128
      · have h1 := seqLen_low hc r
        simp only [appendLoop, hc, if_true, piecesF, h1]
        have he := escAscii_eq c hc html
        by_cases hs : (htmlSafeSet c || (!html && safeSet c)) = true
        · simp only [hs, if_true] at he ⊢
          simp [ih r _ hr, quotePiece, he]
        · simp only [hs, if_false] at he ⊢
          simp [ih r _ hr, quotePiece, he]
      · simp only [appendLoop, hc, if_false, piecesF]
        by_cases h0 : seqLen (c :: r) = 0
        · simp [h0, ih r _ hr, quotePiece, uFFFD]
        · have h1 : seqLen (c :: r) ≠ 1 := fun hh => hc (seqLen_one_low hh)
          have hd : (r.drop (seqLen (c :: r) - 1)).length ≤ f := by
            simp only [List.length_drop]; omega
          have e0 : (seqLen (c :: r) == 0) = false := by simpa using h0
          have e1 : (seqLen (c :: r) == 1) = false := by simpa using h1
          simp only [e0, e1, if_false, Bool.false_eq_true]
          by_cases ha : List.take (seqLen (c :: r)) (c :: r) = [226, 128, 168]
          · have h8 : hexd ((168 : UInt8) &&& 15) = 56 := by decide
            simp [ha, ih _ _ hd, quotePiece, u2028, h8]
          · by_cases hb : List.take (seqLen (c :: r)) (c :: r) = [226, 128, 169]
            · have h9 : hexd ((169 : UInt8) &&& 15) = 57 := by decide
              simp [hb, ih _ _ hd, quotePiece, u2029, h9]
            · simp [ha, hb, ih _ _ hd, quotePiece]

/-- encoding/json's string writer is the literal of the Enc model (ValidateString on: U+FFFD for ill-formed bytes) -/
theorem appendString_eq (html : Bool) (s : Bytes) : appendString html s = quoteLit html true s := by
  unfold appendString quoteLit quoteBody pieces
  rw [appendLoop_spec html _ _ _ (Nat.le_refl _)]
  simp

/-! ### integers -/

theorem natDigitsAux_eq : ∀ (f n : Nat) (acc : Bytes), Num.natDigitsAux f n acc = natDecAux f n acc := by
  intro f
  induction f with
  | zero => intro n acc; rfl
  | succ f ih =>
    intro n acc
    simp only [Num.natDigitsAux, natDecAux]
    by_cases h : n < 10
    · have : n / 10 = 0 := by omega
      simp [h, this]
    · have : n / 10 ≠ 0 := by omega
      simp [h, this, ih]

theorem natDigits_eq (n : Nat) : Num.natDigits n = natDec n := natDigitsAux_eq _ _ _

theorem itoa_eq (i : Int) : Num.itoa i = intDec i := by
  simp only [Num.itoa, intDec, natDigits_eq]

/-! ### base64 -/

theorem alphabet_eq : ∀ i : Fin 64, alphabet.getD i.val 0 = b64c i.val := by decide

theorem enc64_eq (i : Nat) : enc64 i = b64c (i % 64) :=
  alphabet_eq ⟨i % 64, Nat.mod_lt _ (by decide)⟩

theorem base64_eq : ∀ (s : Bytes), base64 s = b64 s := by
  intro s
  induction s using b64.induct with
  | case1 a b c r ih =>
    have ha := a.toNat_lt; have hb := b.toNat_lt; have hc := c.toNat_lt
    simp only [base64, b64, enc64_eq, ih]
    have : (a.toNat * 65536 + b.toNat * 256 + c.toNat) / 262144 % 64 = (a.toNat * 65536 + b.toNat * 256 + c.toNat) / 262144 := by omega
    rw [this]
  | case2 a b =>
    have ha := a.toNat_lt; have hb := b.toNat_lt
    simp only [base64, b64, enc64_eq]
    have : (a.toNat * 65536 + b.toNat * 256) / 262144 % 64 = (a.toNat * 65536 + b.toNat * 256) / 262144 := by omega
    rw [this]
  | case3 a =>
    have ha := a.toNat_lt
    simp only [base64, b64, enc64_eq]
    have : (a.toNat * 65536) / 262144 % 64 = (a.toNat * 65536) / 262144 := by omega
    rw [this]
  | case4 => rfl

end SonicSpec.EncStd
