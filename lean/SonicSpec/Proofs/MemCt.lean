/-
  skip_container_fast: the padded / over-reading last block equals the scalar twin, provided
  memory protection is page granular (the over-read stays inside a page that holds input bytes).
-/
import SonicSpec.Model.MemScan
import SonicSpec.Proofs.Mem
import SonicSpec.Proofs.MemScan
namespace SonicSpec.Mem

/-- a 64-byte load that does not cross a page stays in the page of its first byte -/
theorem page_of_noCross (a i : Nat) (h : crossPage a 64 = false) (hi : i < 64) : page (a + i) = page a := by
  simp only [crossPage, decide_eq_false_iff_not, Nat.not_lt] at h
  simp only [page]
  omega

/-- the bytes of the input that are still to be scanned can be loaded -/
theorem loadW_input {m : Mem} {base len off : Nat} (hm : Mapped m base len) (hlt : off ≤ len) :
    ∃ xs, loadW (view m base) (len - off) off = some xs := by
  have := loadW_ne_none (rd := view m base) (len - off) off (fun i h1 h2 => hm i (by omega))
  cases h : loadW (view m base) (len - off) off with
  | none => exact absurd h this
  | some xs => exact ⟨xs, rfl⟩

/-- the block the last round works on: the remaining input bytes followed by 64 - nb bytes that are either
    zeroes (page-crossing case: private copy) or whatever lies behind the input in the same page -/
theorem ctTail_block {m : Mem} {base len off : Nat} (hg : PageGranular m) (hm : Mapped m base len)
    (hlt : off < len) (h64 : len - off ≤ 64) :
    ∃ xs ys, loadW (view m base) (len - off) off = some xs ∧
      (if crossPage (base + off) 64 then (loadW (view m base) (len - off) off).map (· ++ List.replicate (64 - (len - off)) 0)
       else loadW (view m base) 64 off) = some (xs ++ ys) := by
  obtain ⟨xs, hxs⟩ := loadW_input hm (Nat.le_of_lt hlt)
  cases hc : crossPage (base + off) 64 with
  | true =>
    exact ⟨xs, List.replicate (64 - (len - off)) 0, hxs, by simp [hxs]⟩
  | false =>
    have e : 64 = (len - off) + (64 - (len - off)) := by omega
    have hys : loadW (view m base) (64 - (len - off)) (off + (len - off)) ≠ none := by
      apply loadW_ne_none
      intro i h1 h2
      -- `base + i` lies in the page of `base + off`, which holds an input byte
      have hp : page (base + i) = page (base + off) := by
        have := page_of_noCross (base + off) (i - off) hc (by omega)
        have e2 : base + off + (i - off) = base + i := by omega
        rw [e2] at this
        exact this
      exact hg (base + off) (base + i) hp.symm (hm off hlt)
    cases hy : loadW (view m base) (64 - (len - off)) (off + (len - off)) with
    | none => exact absurd hy hys
    | some ys =>
      refine ⟨xs, ys, hxs, ?_⟩
      simp only [Bool.false_eq_true, if_false]
      rw [e, loadW_add, hxs, hy]

/-- the last round of skip_container_fast = the scalar twin on the remaining (< 64) bytes -/
theorem ctTail_eq_scalar {m : Mem} {base len : Nat} (lc rc : UInt8) (hg : PageGranular m) (hm : Mapped m base len)
    (st : CtSt) (off : Nat) (h64 : len - off ≤ 64) :
    ctTail base lc rc (view m base) len st off = ctScalar lc rc (view m base) len st off := by
  by_cases hlt : off < len
  · obtain ⟨xs, ys, hxs, hblk⟩ := ctTail_block (m := m) (base := base) hg hm hlt h64
    have hxl : xs.length = len - off := loadW_length _ _ _ hxs
    have hle : off + xs.length ≤ len := by omega
    have hl' : loadW (view m base) xs.length off = some xs := by rw [hxl]; exact hxs
    -- scalar side: walk over the remaining bytes, then end of input
    have hsc := scalarLoop_block (ctStepO lc rc) (fun _ _ => (none : Option Nat)) len xs st off hle hl'
    have hend : ∀ st', scalarLoop (ctStepO lc rc) (fun _ _ => (none : Option Nat)) (view m base) len st' (off + xs.length)
        = some none := by
      intro st'
      rw [scalarLoop, dif_neg (by omega)]
    -- vector side
    have hb : ctBlkO lc rc st off (xs ++ ys) = foldSteps (ctStepO lc rc) st off (xs ++ ys) := ctBlkO_eq_fold lc rc _ st off
    rw [foldSteps_append] at hb
    simp only [ctTail, ctScalar]
    rw [if_neg (by omega), hsc]
    simp only [hblk]
    cases hf : foldSteps (ctStepO lc rc) st off xs with
    | done r =>
      obtain ⟨p, hp, h1, h2⟩ := ctFold_done_bound lc rc xs st off r hf
      subst hp
      rw [hf] at hb
      simp only [ctBlkO] at hb
      cases hcb : ctBlk lc rc st off (xs ++ ys) with
      | done q =>
        rw [hcb] at hb
        simp only [Step.done.injEq, Option.some.injEq] at hb
        subst hb
        simp only
        rw [if_neg (by omega)]
      | cont s => rw [hcb] at hb; cases hb
    | cont st' =>
      rw [hf] at hb
      simp only at hb ⊢
      rw [hend st']
      simp only [ctBlkO] at hb
      cases hcb : ctBlk lc rc st off (xs ++ ys) with
      | done q =>
        rw [hcb] at hb
        simp only at hb
        obtain ⟨p, hp, h1, h2⟩ := ctFold_done_bound lc rc ys st' (off + xs.length) (some q) hb.symm
        simp only [Option.some.injEq] at hp
        subst hp
        simp only
        rw [if_pos (by omega)]
      | cont s => rfl
  · simp only [ctTail, ctScalar]
    rw [if_pos (by omega), scalarLoop, dif_neg hlt]

/-- two scanners with the same vector code whose scalar parts agree once less than `W` bytes remain
    give the same answer for the single width `W` -/
theorem run_single_tail_switch {σ ρ : Type} (S S' : Scan σ ρ) (hblk : S.blk = S'.blk) {rd : Rd} (len W : Nat)
    (htail : ∀ st off, ¬ (0 < W ∧ off + W ≤ len) → S.tail rd len st off = S'.tail rd len st off) :
    ∀ (n : Nat) (st : σ) (off : Nat), len - off ≤ n → S.run rd len [W] st off = S'.run rd len [W] st off
  | 0, st, off, hn => by
    rw [Scan.run.eq_2 S, Scan.run.eq_2 S']
    by_cases hc : 0 < W ∧ off + W ≤ len
    · omega
    · rw [dif_neg hc, dif_neg hc, Scan.run.eq_1, Scan.run.eq_1]
      exact htail st off hc
  | n + 1, st, off, hn => by
    rw [Scan.run.eq_2 S, Scan.run.eq_2 S']
    by_cases hc : 0 < W ∧ off + W ≤ len
    · rw [dif_pos hc, dif_pos hc, hblk]
      cases loadW rd W off with
      | none => rfl
      | some bs =>
        simp only
        cases S'.blk st off bs with
        | done r => rfl
        | cont st' => exact run_single_tail_switch S S' hblk len W htail n st' (off + W) (by omega)
    · rw [dif_neg hc, dif_neg hc, Scan.run.eq_1, Scan.run.eq_1]
      exact htail st off hc

/-- skip_container_fast on a mapped input in page-granular memory = its scalar twin
    (the over-read bytes never influence the result, no load leaves the pages that hold input bytes) -/
theorem skipContainerFast_eq_scalar' {m : Mem} {base len : Nat} (lc rc : UInt8) (hg : PageGranular m)
    (hm : Mapped m base len) (p : Nat) :
    skipContainerFast base lc rc (view m base) len p = ctScalar lc rc (view m base) len ⟨false, false, 0, 0⟩ p := by
  simp only [skipContainerFast]
  rw [run_single_tail_switch (ctFastScan base lc rc) (ctScalarScan lc rc) rfl len 64
        (fun st off hc => ctTail_eq_scalar lc rc hg hm st off (by omega)) (len - p) _ p (Nat.le_refl _)]
  exact run_eq_scalar (ctScalarScan lc rc) (step := ctStepO lc rc) (eof := fun _ _ => none) rfl
    (fun st off bs => ctBlkO_eq_fold lc rc bs st off) len [64] _ p (fun i hi => hm i hi)

end SonicSpec.Mem
