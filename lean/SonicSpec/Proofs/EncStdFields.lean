/-
  Field resolution: the counting rule of the encoding/json specification (`EncStd.typeFields`) keeps exactly the
  fields the Enc model keeps (`Enc.keepList`), field by field.
-/
import SonicSpec.Model.EncStd
namespace SonicSpec.EncStd
open SonicSpec SonicSpec.Go SonicSpec.Enc

/-- a field of the Enc model as the specification sees it (`omitzero` does not exist in Go 1.23) -/
def conv (f : Field) : SField := ⟨f.name, f.tagged, f.omitEmpty, f.quoted, f.typ⟩

def convL (l : List (Option Field)) : List (Option SField) := l.map (Option.map conv)

theorem sfieldsOf_eq : ∀ (fs : List (String × Option Bytes × GoType)), sfieldsOf fs = (fieldsOf fs).map convL := by
  intro fs
  induction fs with
  | nil => rfl
  | cons f r ih =>
    obtain ⟨n, tg, t⟩ := f
    simp only [sfieldsOf, fieldsOf, sfieldOf, ih]
    cases h1 : fieldOf n tg t <;> cases h2 : fieldsOf r <;> simp [convL, conv]
    rename_i a b
    cases a <;> rfl

def sel (name : Bytes) (g : Option Field) : Option Field :=
  match g with
  | some g => if g.name == name then some g else none
  | none => none

theorem countName_eq (name : Bytes) : ∀ (all : List (Option Field)),
    countName name (convL all) = ((all.filterMap (sel name)).length, ((all.filterMap (sel name)).filter (·.tagged)).length) := by
  intro all
  induction all with
  | nil => rfl
  | cons g r ih =>
    cases g with
    | none =>
      have hs : sel name none = none := rfl
      have ih' : countName name (List.map (Option.map conv) r) = _ := ih
      simp [convL, countName, List.filterMap_cons, hs, ih']
    | some g =>
      have ih' : countName name (List.map (Option.map conv) r) = _ := ih
      by_cases hn : (g.name == name) = true
      · by_cases ht : g.tagged = true
        · simp [convL, countName, sel, conv, hn, ht, ih']
        · simp [convL, countName, sel, conv, hn, ht, ih']
      · simp [convL, countName, sel, conv, hn, ih']

theorem countName_le (name : Bytes) : ∀ (l : List (Option SField)), (countName name l).2 ≤ (countName name l).1 := by
  intro l
  induction l with
  | nil => simp [countName]
  | cons g r ih =>
    cases g with
    | none => simpa [countName] using ih
    | some g =>
      simp only [countName]
      split
      · split <;> simp <;> omega
      · exact ih

theorem countName_mem (f : Field) : ∀ (all : List (Option Field)), some f ∈ all →
    1 ≤ (countName f.name (convL all)).1 ∧ (f.tagged = true → 1 ≤ (countName f.name (convL all)).2) ∧
    (f.tagged = false → (countName f.name (convL all)).2 + 1 ≤ (countName f.name (convL all)).1) := by
  intro all
  induction all with
  | nil => intro h; cases h
  | cons g r ih =>
    intro h
    have hle := countName_le f.name (convL r)
    rcases List.mem_cons.mp h with h | h
    · subst h
      simp only [convL, List.map_cons, Option.map_some, countName, conv, beq_self_eq_true, if_true]
      have hle' : (countName f.name (List.map (Option.map conv) r)).2 ≤ (countName f.name (List.map (Option.map conv) r)).1 := hle
      refine ⟨by omega, ?_, ?_⟩
      · intro ht; simp [ht]
      · intro ht; simp [ht]; omega
    · obtain ⟨i1, i2, i3⟩ := ih h
      cases g with
      | none => simpa [convL, countName] using ⟨i1, i2, i3⟩
      | some g =>
        have i1' : 1 ≤ (countName f.name (List.map (Option.map conv) r)).1 := i1
        have i2' : f.tagged = true → 1 ≤ (countName f.name (List.map (Option.map conv) r)).2 := i2
        have i3' : f.tagged = false → (countName f.name (List.map (Option.map conv) r)).2 + 1 ≤ (countName f.name (List.map (Option.map conv) r)).1 := i3
        simp only [convL, List.map_cons, Option.map_some, countName, conv]
        split
        · split
          · exact ⟨by simp <;> omega, fun ht => by have := i2' ht; simp <;> omega, fun ht => by have := i3' ht; simp <;> omega⟩
          · exact ⟨by simp <;> omega, fun ht => by have := i2' ht; simp <;> omega, fun ht => by have := i3' ht; simp <;> omega⟩
        · exact ⟨i1', i2', i3'⟩

/-- the counting rule and the Enc model's rule keep the same fields -/
theorem survives_eq (all : List (Option Field)) (f : Field) (hf : some f ∈ all) :
    survives (convL all) (conv f) = dominant all f := by
  obtain ⟨m1, m2, m3⟩ := countName_mem f all hf
  have hle := countName_le f.name (convL all)
  have hc := countName_eq f.name all
  have e1 : dominant all f = (if f.tagged then ((all.filterMap (sel f.name)).filter (·.tagged)).length == 1
      else ((all.filterMap (sel f.name)).filter (·.tagged)).length == 0 && (all.filterMap (sel f.name)).length == 1) := rfl
  rw [e1]
  unfold survives
  simp only [conv]
  rw [hc] at m1 m2 m3 hle
  simp only [hc] at *
  generalize (all.filterMap (sel f.name)).length = c at *
  generalize ((all.filterMap (sel f.name)).filter (·.tagged)).length = t at *
  cases ht : f.tagged
  · have := m3 ht
    simp only [Bool.false_and, Bool.or_false, Bool.false_eq_true, if_false]
    by_cases h1 : c = 1
    · have : t = 0 := by omega
      simp [h1, this]
    · simp [h1]
  · have := m2 ht
    simp only [Bool.true_and, if_true]
    by_cases h1 : t = 1
    · simp [h1]
    · have : c ≠ 1 := by omega
      simp [h1, this]

theorem typeFields_eq (fs : List (String × Option Bytes × GoType)) : typeFields fs = (keepList fs).map convL := by
  unfold typeFields keepList
  rw [sfieldsOf_eq]
  cases fieldsOf fs with
  | none => rfl
  | some all =>
    simp only [Option.map_some, convL, List.map_map]
    congr 1
    apply List.map_congr_left
    intro g hg
    cases g with
    | none => rfl
    | some f =>
      have := survives_eq all f hg
      simp only [convL] at this
      simp only [Function.comp, Option.map_some, this]
      split <;> rfl

end SonicSpec.EncStd
