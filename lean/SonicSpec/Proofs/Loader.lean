/-
  Helper lemmas for core J (loader tables): varint / zig-zag round trips, one `step` of the
  runtime reader undoes one written entry, the reader loop against `valueAt`, the skip rule of
  `MarshalBinary`, and the bitmap invariant of `StackMapBuilder`.  Core Lean only.
-/
import SonicSpec.Model.Loader
import SonicSpec.Proofs.U8
namespace SonicSpec.Loader
open SonicSpec
theorem pow_lt_of_mul_lt {x s : Nat} (hx : 0 < x) (h : x * 2 ^ s < 4294967296) : s < 32 := by
  have h1 : 2 ^ s ≤ x * 2 ^ s := Nat.le_mul_of_pos_left _ hx
  have h2 : 2 ^ s < 2 ^ 32 := by omega
  exact (Nat.pow_lt_pow_iff_right (by decide)).mp h2

theorem or_shift_eq (v d s : Nat) (hv : v < 2 ^ s) : v ||| (d <<< s) = v + d * 2 ^ s := by
  rw [Nat.shiftLeft_eq, Nat.or_comm, Nat.mul_comm d, ← Nat.two_pow_add_eq_or_of_lt hv]
  omega

theorem pow7_succ (f : Nat) : 2 ^ (7 * (f + 1)) = 128 * 2 ^ (7 * f) := by
  rw [Nat.mul_add, Nat.pow_add]; omega

theorem readvarintGo_putN : ∀ (fuel x v s : Nat) (rest : Bytes), x < 2 ^ (7 * (fuel + 1)) → v < 2 ^ s →
    v + x * 2 ^ s < 4294967296 →
    readvarintGo (putUvarintN fuel x ++ rest) v s = some (v + x * 2 ^ s, rest) := by
  intro fuel
  induction fuel with
  | zero =>
    intro x v s rest hx128 hv hlt
    have hx : x < 128 := by simpa using hx128
    have hb : (UInt8.ofNat x).toNat = x := by rw [UInt8.toNat_ofNat']; omega
    simp only [putUvarintN, List.cons_append, List.nil_append, readvarintGo, hb]
    have hx128' : x % 128 = x := by omega
    rw [hx128']
    simp only [hx, if_true]
    by_cases h0 : x = 0
    · subst h0
      simp
      omega
    · have hs : s < 32 := pow_lt_of_mul_lt (x := x) (s := s) (by omega) (by omega)
      have : s % 32 = s := by omega
      rw [this, or_shift_eq v x s hv]
      have : (v + x * 2 ^ s) % 4294967296 = v + x * 2 ^ s := by omega
      rw [this]
  | succ f ih =>
    intro x v s rest hxr hv hlt
    rw [putUvarintN]
    split
    · rename_i hx
      have hb : (UInt8.ofNat x).toNat = x := by rw [UInt8.toNat_ofNat']; omega
      simp only [List.cons_append, List.nil_append, readvarintGo, hb]
      have hx128 : x % 128 = x := by omega
      rw [hx128]
      simp only [hx, if_true]
      by_cases h0 : x = 0
      · subst h0
        simp
        omega
      · have hs : s < 32 := pow_lt_of_mul_lt (x := x) (s := s) (by omega) (by omega)
        have : s % 32 = s := by omega
        rw [this, or_shift_eq v x s hv]
        have : (v + x * 2 ^ s) % 4294967296 = v + x * 2 ^ s := by omega
        rw [this]
    · rename_i hx
      have hb : (UInt8.ofNat (x % 128 + 128)).toNat = x % 128 + 128 := by rw [UInt8.toNat_ofNat']; omega
      simp only [List.cons_append, readvarintGo, hb]
      have h1 : (x % 128 + 128) % 128 = x % 128 := by omega
      have h2 : ¬ (x % 128 + 128 < 128) := by omega
      rw [h1]
      simp only [h2, if_false]
      have hs : s < 32 := pow_lt_of_mul_lt (x := x) (s := s) (by omega) (by omega)
      have hs' : s % 32 = s := by omega
      rw [hs', or_shift_eq v (x % 128) s hv]
      have hp : 2 ^ (s + 7) = 2 ^ s * 128 := by rw [Nat.pow_add]
      have hsplit : x * 2 ^ s = (x / 128) * (2 ^ s * 128) + (x % 128) * 2 ^ s := by
        have : x = 128 * (x / 128) + x % 128 := by omega
        generalize x / 128 = q at *
        generalize x % 128 = r at *
        subst this
        grind
      have hr : (x % 128) * 2 ^ s ≤ 127 * 2 ^ s := Nat.mul_le_mul_right _ (by omega)
      have hmod : (v + x % 128 * 2 ^ s) % 4294967296 = v + x % 128 * 2 ^ s := by
        apply Nat.mod_eq_of_lt
        have : 0 ≤ (x / 128) * (2 ^ s * 128) := Nat.zero_le _
        omega
      rw [hmod]
      have hdiv : x / 128 < 2 ^ (7 * (f + 1)) := by
        have := pow7_succ (f + 1)
        omega
      have := ih (x / 128) (v + x % 128 * 2 ^ s) (s + 7) rest hdiv (by rw [hp]; omega) (by rw [hp]; omega)
      rw [this, hp]
      congr 2
      omega

theorem readvarintGo_put (x v s : Nat) (rest : Bytes) (hx : x < 4294967296) (hv : v < 2 ^ s)
    (hlt : v + x * 2 ^ s < 4294967296) :
    readvarintGo (putUvarint x ++ rest) v s = some (v + x * 2 ^ s, rest) := by
  have : (4294967296 : Nat) ≤ 2 ^ (7 * (9 + 1)) := by decide
  exact readvarintGo_putN 9 x v s rest (by omega) hv hlt

theorem putUvarint_unfold (x : Nat) : putUvarint x =
    if x < 128 then [UInt8.ofNat x] else UInt8.ofNat (x % 128 + 128) :: putUvarintN 8 (x / 128) := rfl

theorem readvarint_put (x : Nat) (rest : Bytes) (hx : x < 4294967296) :
    readvarint (putUvarint x ++ rest) = some (x, rest) := by
  have := readvarintGo_put x 0 0 rest hx (by decide) (by omega)
  simpa [readvarint] using this

theorem readFast_put (x : Nat) (rest : Bytes) (hx : x < 4294967296) :
    readFast (putUvarint x ++ rest) = some (x, rest) := by
  have hrv := readvarint_put x rest hx
  rw [putUvarint_unfold] at hrv ⊢
  split
  · rename_i h
    have hb : (UInt8.ofNat x).toNat = x := by rw [UInt8.toNat_ofNat']; omega
    simp [readFast, hb, h]
  · rename_i h
    have hb : (UInt8.ofNat (x % 128 + 128)).toNat = x % 128 + 128 := by rw [UInt8.toNat_ofNat']; omega
    have h2 : ¬ (x % 128 + 128 < 128) := by omega
    simp only [h, if_false] at hrv
    simp only [List.cons_append, readFast, hb, h2, if_false]
    exact hrv

theorem putUvarint_head (x : Nat) (hx : x ≠ 0) (rest : Bytes) :
    ∃ b tl, putUvarint x ++ rest = b :: tl ∧ b ≠ 0 := by
  rw [putUvarint_unfold]
  split
  · rename_i h
    refine ⟨UInt8.ofNat x, rest, rfl, ?_⟩
    intro h0
    have : (UInt8.ofNat x).toNat = 0 := by rw [h0]; rfl
    rw [UInt8.toNat_ofNat'] at this
    omega
  · refine ⟨_, _, rfl, ?_⟩
    intro h0
    have : (UInt8.ofNat (x % 128 + 128)).toNat = 0 := by rw [h0]; rfl
    rw [UInt8.toNat_ofNat'] at this
    omega

theorem putUvarint_length_pos (x : Nat) : 0 < (putUvarint x).length := by
  rw [putUvarint_unfold]; split <;> simp

theorem zigzag_ne_zero {x : Int} (h : x ≠ 0) : zigzag x ≠ 0 := by
  unfold zigzag; split <;> omega

theorem zigzag_lt {x : Int} (h : InInt32 x) : zigzag x < 4294967296 := by
  unfold InInt32 at h; unfold zigzag; split <;> omega

theorem unzig32_zigzag (x : Int) : unzig32 (zigzag x) = x := by
  unfold unzig32 zigzag
  split <;> split <;> omega

theorem wrap32_in (x : Int) : InInt32 (wrap32 x) := by
  unfold InInt32 wrap32; omega

theorem wrap32_id {x : Int} (h : InInt32 x) : wrap32 x = x := by
  unfold InInt32 at h; unfold wrap32; omega

theorem wrap32_sub_eq_zero {a b : Int} (ha : InInt32 a) (hb : InInt32 b) : wrap32 (b - a) = 0 ↔ b = a := by
  unfold InInt32 at ha hb; unfold wrap32; omega

theorem wrap32_add_sub {a b : Int} (_ha : InInt32 a) (hb : InInt32 b) : wrap32 (a + wrap32 (b - a)) = b := by
  unfold InInt32 at _ha hb; unfold wrap32; omega

/-- one written entry is read back by one `step` -/
theorem step_emit (dv : Int) (dp : Nat) (rest : Bytes) (pc : Nat) (val : Int) (first : Bool)
    (hdv : dv ≠ 0) (hdvr : InInt32 dv) (hdp : dp < 4294967296) :
    step (putVarint dv ++ (putUvarint dp ++ rest)) pc val first = .ok rest (pc + dp) (wrap32 (val + dv)) := by
  obtain ⟨b, tl, hbt, hb0⟩ := putUvarint_head (zigzag dv) (zigzag_ne_zero hdv) (putUvarint dp ++ rest)
  have h1 := readFast_put (zigzag dv) (putUvarint dp ++ rest) (zigzag_lt hdvr)
  have h2 := readFast_put dp rest hdp
  unfold putVarint
  rw [hbt] at h1 ⊢
  have : (b == 0) = false := by simpa using hb0
  simp only [step, this, Bool.false_and, h1, h2, unzig32_zigzag]
  simp


theorem marshalGo_cons_emit (v : Pcvalue) (rest : List Pcvalue) (sv : Int) (sp : Nat)
    (h1 : ¬ v.pc < sp) (h2 : wrap32 (v.val - sv) ≠ 0) (h3 : v.pc - sp ≠ 0) :
    marshalGo (v :: rest) sv sp =
      (marshalGo rest v.val v.pc).map (fun t => putVarint (wrap32 (v.val - sv)) ++ (putUvarint (v.pc - sp) ++ t)) := by
  have : (wrap32 (v.val - sv) == 0 || v.pc - sp == 0) = false := by simp [h2, h3]
  simp only [marshalGo, h1, if_false, this]
  simp

theorem marshalGo_cons_skip (v : Pcvalue) (rest : List Pcvalue) (sv : Int) (sp : Nat)
    (h1 : ¬ v.pc < sp) (h2 : wrap32 (v.val - sv) = 0 ∨ v.pc - sp = 0) :
    marshalGo (v :: rest) sv sp = marshalGo rest sv sp := by
  have : (wrap32 (v.val - sv) == 0 || v.pc - sp == 0) = true := by simpa using h2
  simp only [marshalGo, h1, if_false, this]
  simp

theorem loop_correct : ∀ (t : List Pcvalue) (sv : Int) (sp : Nat) (b : Bytes) (fuel : Nat),
    WF t sv sp → InInt32 sv → marshalGo t sv sp = some b → b.length ≤ fuel → ∀ target,
    (pcvalueLoop fuel b sp sv target).toOption = valueAt t target := by
  intro t
  induction t with
  | nil =>
    intro sv sp b fuel _ _ hm hf target
    simp only [marshalGo, Option.some.injEq] at hm
    subst hm
    cases fuel with
    | zero => simp at hf
    | succ f =>
      by_cases h0 : sp = 0
      · subst h0
        simp [pcvalueLoop, step, readFast, PcRes.toOption, valueAt]
      · have : (sp == 0) = false := by simpa using h0
        simp [pcvalueLoop, step, this, PcRes.toOption, valueAt]
  | cons v rest ih =>
    intro sv sp b fuel hwf hsv hm hf target
    obtain ⟨hpc, hpcr, hvr, hne, hrest⟩ := hwf
    have hdv : wrap32 (v.val - sv) ≠ 0 := by
      intro h; exact hne ((wrap32_sub_eq_zero hsv hvr).mp h)
    have hdp : v.pc - sp ≠ 0 := by omega
    have hnlt : ¬ (v.pc < sp) := by omega
    rw [marshalGo_cons_emit v rest sv sp hnlt hdv hdp] at hm
    cases hr : marshalGo rest v.val v.pc with
    | none => rw [hr] at hm; simp at hm
    | some b' =>
      rw [hr] at hm
      simp only [Option.map_some, Option.some.injEq] at hm
      subst hm
      have hl1 := putUvarint_length_pos (zigzag (wrap32 (v.val - sv)))
      have hl2 := putUvarint_length_pos (v.pc - sp)
      simp only [putVarint, List.length_append] at hf
      cases fuel with
      | zero => omega
      | succ f =>
        have hstep := step_emit (wrap32 (v.val - sv)) (v.pc - sp) b' sp sv (sp == 0) hdv (wrap32_in _) (by omega)
        have hpc' : sp + (v.pc - sp) = v.pc := by omega
        rw [hpc', wrap32_add_sub hsv hvr] at hstep
        simp only [pcvalueLoop, hstep, valueAt]
        split
        · rfl
        · exact ih v.val v.pc b' f hrest hvr hr (by omega) target

/-- the round trip for tables that satisfy the precondition -/
theorem decode_marshal_wf (t : List Pcvalue) (h : WellFormed t) (target : Nat) :
    ∃ b, marshalPcdata t = some b ∧ decodePcValue b target = valueAt t target := by
  have hne : ∀ (t : List Pcvalue) sv sp, WF t sv sp → InInt32 sv → ∃ b, marshalGo t sv sp = some b := by
    intro t
    induction t with
    | nil => intro sv sp _ _; exact ⟨[0], rfl⟩
    | cons v rest ih =>
      intro sv sp hwf hsv
      obtain ⟨hpc, hpcr, hvr, hne, hrest⟩ := hwf
      have hdv : wrap32 (v.val - sv) ≠ 0 := by
        intro h; exact hne ((wrap32_sub_eq_zero hsv hvr).mp h)
      have hdp : v.pc - sp ≠ 0 := by omega
      have hnlt : ¬ (v.pc < sp) := by omega
      obtain ⟨b', hb'⟩ := ih v.val v.pc hrest hvr
      exact ⟨_, by rw [marshalGo_cons_emit v rest sv sp hnlt hdv hdp, hb']; rfl⟩
  obtain ⟨b, hb⟩ := hne t (-1) 0 h (by unfold InInt32; omega)
  refine ⟨b, hb, ?_⟩
  exact loop_correct t (-1) 0 b (b.length + 1) h (by unfold InInt32; omega) hb (by omega) target


theorem ascending_mono : ∀ (t : List Pcvalue) (a b : Nat), Ascending t a → b ≤ a → Ascending t b := by
  intro t a b h hle
  cases t with
  | nil => trivial
  | cons v rest =>
    obtain ⟨h1, h2, h3, h4⟩ := h
    exact ⟨by omega, h2, h3, h4⟩

theorem emittedGo_cons_skip (v : Pcvalue) (rest : List Pcvalue) (sv : Int) (sp : Nat)
    (h2 : wrap32 (v.val - sv) = 0 ∨ v.pc - sp = 0) :
    emittedGo (v :: rest) sv sp = emittedGo rest sv sp := by
  have : (wrap32 (v.val - sv) == 0 || v.pc - sp == 0) = true := by simpa using h2
  simp only [emittedGo, this]
  simp

theorem emittedGo_cons_emit (v : Pcvalue) (rest : List Pcvalue) (sv : Int) (sp : Nat)
    (h2 : wrap32 (v.val - sv) ≠ 0) (h3 : v.pc - sp ≠ 0) :
    emittedGo (v :: rest) sv sp = v :: emittedGo rest v.val v.pc := by
  have : (wrap32 (v.val - sv) == 0 || v.pc - sp == 0) = false := by simp [h2, h3]
  simp only [emittedGo, this]
  simp

theorem marshalGo_emitted : ∀ (t : List Pcvalue) (sv : Int) (sp : Nat), Ascending t sp →
    marshalGo t sv sp = marshalGo (emittedGo t sv sp) sv sp := by
  intro t
  induction t with
  | nil => intro sv sp _; rfl
  | cons v rest ih =>
    intro sv sp h
    obtain ⟨h1, _, _, h4⟩ := h
    have hnlt : ¬ v.pc < sp := by omega
    by_cases hs : wrap32 (v.val - sv) = 0 ∨ v.pc - sp = 0
    · rw [marshalGo_cons_skip v rest sv sp hnlt hs, emittedGo_cons_skip v rest sv sp hs]
      exact ih sv sp (ascending_mono rest v.pc sp h4 h1)
    · have h2 : wrap32 (v.val - sv) ≠ 0 := fun h => hs (Or.inl h)
      have h3 : v.pc - sp ≠ 0 := fun h => hs (Or.inr h)
      rw [marshalGo_cons_emit v rest sv sp hnlt h2 h3, emittedGo_cons_emit v rest sv sp h2 h3,
        marshalGo_cons_emit v _ sv sp hnlt h2 h3, ih v.val v.pc h4]

theorem wf_emitted : ∀ (t : List Pcvalue) (sv : Int) (sp : Nat), Ascending t sp → InInt32 sv →
    WF (emittedGo t sv sp) sv sp := by
  intro t
  induction t with
  | nil => intro sv sp _ _; trivial
  | cons v rest ih =>
    intro sv sp h hsv
    obtain ⟨h1, hr, hv, h4⟩ := h
    by_cases hs : wrap32 (v.val - sv) = 0 ∨ v.pc - sp = 0
    · rw [emittedGo_cons_skip v rest sv sp hs]
      exact ih sv sp (ascending_mono rest v.pc sp h4 h1) hsv
    · have h2 : wrap32 (v.val - sv) ≠ 0 := fun h => hs (Or.inl h)
      have h3 : v.pc - sp ≠ 0 := fun h => hs (Or.inr h)
      rw [emittedGo_cons_emit v rest sv sp h2 h3]
      refine ⟨by omega, hr, hv, ?_, ih v.val v.pc h4 hv⟩
      intro heq
      exact h2 ((wrap32_sub_eq_zero hsv hv).mpr heq)

theorem emittedGo_of_wf : ∀ (t : List Pcvalue) (sv : Int) (sp : Nat), WF t sv sp → InInt32 sv →
    emittedGo t sv sp = t := by
  intro t
  induction t with
  | nil => intro _ _ _ _; rfl
  | cons v rest ih =>
    intro sv sp h hsv
    obtain ⟨hpc, _, hvr, hne, hrest⟩ := h
    have h2 : wrap32 (v.val - sv) ≠ 0 := fun h => hne ((wrap32_sub_eq_zero hsv hvr).mp h)
    rw [emittedGo_cons_emit v rest sv sp h2 (by omega), ih v.val v.pc hrest hvr]

theorem neg_one_in : InInt32 (-1) := by unfold InInt32; omega

/-- every table `MarshalBinary` accepts, skip rule included -/
theorem decode_marshal_any (t : List Pcvalue) (h : Ascending t 0) (target : Nat) :
    ∃ b, marshalPcdata t = some b ∧ decodePcValue b target = valueAt (emitted t) target := by
  have hwf : WellFormed (emitted t) := wf_emitted t (-1) 0 h neg_one_in
  obtain ⟨b, hb, hd⟩ := decode_marshal_wf (emitted t) hwf target
  refine ⟨b, ?_, hd⟩
  unfold marshalPcdata at hb ⊢
  rw [marshalGo_emitted t (-1) 0 h]
  exact hb


def bitOf (x : UInt8) (k : Nat) : Bool := (x >>> UInt8.ofNat k) &&& 1 == 1

def markNat (x k : Nat) (bv : Bool) : Nat := if bv then x ||| 2 ^ k else x &&& (255 - 2 ^ k)

theorem markByte_toNat : ∀ (x : UInt8) (k : Fin 8) (bv : Bool),
    (markByte x k.val bv).toNat = markNat x.toNat k.val bv := by
  apply forall_uint8
  decide +kernel

theorem bitOf_testBit : ∀ (x : UInt8) (k : Fin 8), bitOf x k.val = x.toNat.testBit k.val := by
  apply forall_uint8
  decide +kernel

theorem mask_testBit : ∀ (k j : Fin 8), j ≠ k → (255 - 2 ^ k.val).testBit j.val = true := by decide
theorem mask_testBit_same : ∀ (k : Fin 8), (255 - 2 ^ k.val).testBit k.val = false := by decide

theorem markNat_same (x k : Nat) (hk : k < 8) (bv : Bool) : (markNat x k bv).testBit k = bv := by
  unfold markNat
  cases bv with
  | true => simp [Nat.testBit_or]
  | false =>
    have := mask_testBit_same ⟨k, hk⟩
    simp only at this
    simp [Nat.testBit_and, this]

theorem markNat_other (x k j : Nat) (hk : k < 8) (hj : j < 8) (hne : j ≠ k) (bv : Bool) :
    (markNat x k bv).testBit j = x.testBit j := by
  unfold markNat
  cases bv with
  | true =>
    have : ¬ (k = j) := fun h => hne h.symm
    simp [Nat.testBit_or, this]
  | false =>
    have := mask_testBit ⟨k, hk⟩ ⟨j, hj⟩ (by simpa using hne)
    simp only at this
    simp [Nat.testBit_and, this]

theorem bitOf_mark_same (x : UInt8) (k : Nat) (hk : k < 8) (bv : Bool) : bitOf (markByte x k bv) k = bv := by
  rw [bitOf_testBit _ ⟨k, hk⟩, markByte_toNat x ⟨k, hk⟩ bv]
  exact markNat_same _ k hk bv

theorem bitOf_mark_other (x : UInt8) (k j : Nat) (hk : k < 8) (hj : j < 8) (hne : j ≠ k) (bv : Bool) :
    bitOf (markByte x k bv) j = bitOf x j := by
  rw [bitOf_testBit _ ⟨j, hj⟩, bitOf_testBit _ ⟨j, hj⟩, markByte_toNat x ⟨k, hk⟩ bv]
  exact markNat_other _ k j hk hj hne bv


theorem getBit_eq (b : Bytes) (i : Nat) : getBit b i = bitOf (b.getD (i / 8) 0) (i % 8) := rfl

/-- invariant of the builder: `n` bits recorded in `(n+7)/8` bytes, bit `i` is field `i` -/
def BInv (m : Bitmap) (fs : List Bool) : Prop :=
  m.n = fs.length ∧ m.b.length = (m.n + 7) / 8 ∧ ∀ i, i < m.n → getBit m.b i = fs.getD i false

theorem getD_set_same (l : Bytes) (i : Nat) (a : UInt8) (h : i < l.length) : (l.set i a).getD i 0 = a := by
  simp [List.getD_eq_getElem?_getD, h]

theorem getD_set_other (l : Bytes) (i j : Nat) (a : UInt8) (h : i ≠ j) : (l.set i a).getD j 0 = l.getD j 0 := by
  simp [List.getD_eq_getElem?_getD, h]

theorem getD_append_left (l : Bytes) (x : UInt8) (j : Nat) (h : j < l.length) : (l ++ [x]).getD j 0 = l.getD j 0 := by
  simp [List.getD_eq_getElem?_getD, List.getElem?_append_left h]

theorem binv_append (m : Bitmap) (fs : List Bool) (bv : Bool) (h : BInv m fs) :
    BInv (m.append bv) (fs ++ [bv]) := by
  obtain ⟨hn, hl, hbits⟩ := h
  -- the bitmap after `grow`
  have hgrow : ∃ b1 : Bytes, m.grow = { n := m.n, b := b1 } ∧ b1.length = (m.n + 8) / 8 ∧
      (∀ j, j < m.b.length → b1.getD j 0 = m.b.getD j 0) := by
    unfold Bitmap.grow
    split
    · rename_i hge
      refine ⟨m.b ++ [0], rfl, ?_, ?_⟩
      · simp only [List.length_append, List.length_cons, List.length_nil]; omega
      · intro j hj; exact getD_append_left m.b 0 j hj
    · rename_i hge
      exact ⟨m.b, rfl, by omega, fun _ _ => rfl⟩
  obtain ⟨b1, hg, hl1, hsame⟩ := hgrow
  have happ : m.append bv = { n := m.n + 1, b := b1.set (m.n / 8) (markByte (b1.getD (m.n / 8) 0) (m.n % 8) bv) } := by
    simp [Bitmap.append, Bitmap.mark, hg]
  rw [happ]
  refine ⟨by simp [hn], by simp only [List.length_set]; omega, ?_⟩
  intro i hi
  simp only at hi
  rw [getBit_eq]
  by_cases hin : i = m.n
  · subst hin
    rw [getD_set_same _ _ _ (by omega), bitOf_mark_same _ _ (by omega)]
    simp [List.getD_eq_getElem?_getD, hn]
  · have hilt : i < m.n := by omega
    have hfs : (fs ++ [bv]).getD i false = fs.getD i false := by
      simp [List.getD_eq_getElem?_getD, List.getElem?_append_left (by omega : i < fs.length)]
    rw [hfs, ← hbits i hilt, getBit_eq]
    by_cases hbyte : m.n / 8 = i / 8
    · rw [← hbyte, getD_set_same _ _ _ (by omega),
        bitOf_mark_other _ _ _ (by omega) (by omega) (by omega)]
      rw [hsame (m.n / 8) (by omega)]
    · rw [getD_set_other _ _ _ _ hbyte, hsame (i / 8) (by omega)]

theorem binv_addFields : ∀ (gs : List Bool) (m : Bitmap) (fs : List Bool), BInv m fs →
    BInv (addFields m gs) (fs ++ gs) := by
  intro gs
  induction gs with
  | nil => intro m fs h; simpa [addFields] using h
  | cons g rest ih =>
    intro m fs h
    have := ih (m.append g) (fs ++ [g]) (binv_append m fs g h)
    simpa [addFields, List.append_assoc] using this

theorem binv_empty : BInv { n := 0, b := [] } [] := ⟨rfl, rfl, fun _ h => absurd h (by simp)⟩

theorem binv_build (fields : List Bool) : BInv (buildBitmap fields) fields := by
  have := binv_addFields fields _ [] binv_empty
  simpa [buildBitmap] using this


theorem binv_runBuilder (ops : List (Nat × Bool)) :
    BInv (runBuilder ops) (ops.flatMap (fun op => List.replicate op.1 op.2)) := by
  have gen : ∀ (ops : List (Nat × Bool)) (m : Bitmap) (fs : List Bool), BInv m fs →
      BInv (ops.foldl (fun m op => addFields m (List.replicate op.1 op.2)) m)
        (fs ++ ops.flatMap (fun op => List.replicate op.1 op.2)) := by
    intro ops
    induction ops with
    | nil => intro m fs h; simpa using h
    | cons op rest ih =>
      intro m fs h
      have := ih _ _ (binv_addFields (List.replicate op.1 op.2) m fs h)
      simpa [List.append_assoc] using this
  have := gen ops _ [] binv_empty
  simpa [runBuilder] using this

/-- a target below the last pc of a table has a value -/
theorem valueAt_isSome_of_lt_last : ∀ (t : List Pcvalue) (e : Pcvalue) (pc : Nat),
    t.getLast? = some e → pc < e.pc → (valueAt t pc).isSome := by
  intro t
  induction t with
  | nil => intro e pc h; simp at h
  | cons v rest ih =>
    intro e pc h hpc
    unfold valueAt
    split
    · rfl
    · cases rest with
      | nil =>
        simp at h
        subst h
        omega
      | cons w rest' =>
        rw [List.getLast?_cons_cons] at h
        exact ih e pc h hpc

/-! ## `GetPcspTable` on the frame-code shape -/

theorem codeSize_cons (i : Ins) (l : List Ins) : codeSize (i :: l) = i.size + codeSize l := by
  simp [codeSize]

theorem codeSize_append (a b : List Ins) : codeSize (a ++ b) = codeSize a + codeSize b := by
  simp [codeSize, List.sum_append]

theorem getPcspGo_nosp : ∀ (l rest : List Ins) (pc : Nat) (d m : Int), NoSp l →
    getPcspGo (l ++ rest) pc d m = getPcspGo rest (pc + codeSize l) d m := by
  intro l
  induction l with
  | nil => intro rest pc d m _; simp [codeSize]
  | cons i l ih =>
    intro rest pc d m h
    have hi : i.eff = SpEffect.none := h i (by simp)
    have hl : NoSp l := fun j hj => h j (by simp [hj])
    simp only [List.cons_append, getPcspGo, hi]
    rw [ih rest (pc + i.size) d m hl, codeSize_cons]
    congr 1
    omega

theorem linearDelta_nosp : ∀ (l rest : List Ins) (pc target : Nat) (d : Int), NoSp l →
    pc + codeSize l ≤ target →
    linearDelta (l ++ rest) pc target d = linearDelta rest (pc + codeSize l) target d := by
  intro l
  induction l with
  | nil => intro rest pc target d _ _; simp [codeSize]
  | cons i l ih =>
    intro rest pc target d h hle
    have hi : i.eff = SpEffect.none := h i (by simp)
    have hl : NoSp l := fun j hj => h j (by simp [hj])
    rw [codeSize_cons] at hle
    have : ¬ (target < pc + i.size) := by omega
    simp only [List.cons_append, linearDelta, this, if_false, hi]
    rw [ih rest (pc + i.size) target d hl (by omega), codeSize_cons]
    congr 1
    omega

theorem linearDelta_before (rest : List Ins) (pc target : Nat) (d : Int) (h : target < pc) :
    linearDelta rest pc target d = d := by
  cases rest with
  | nil => rfl
  | cons i r =>
    have : target < pc + i.size := by omega
    simp [linearDelta, this]

theorem linearDelta_nosp_inside : ∀ (l rest : List Ins) (pc target : Nat) (d : Int), NoSp l →
    target < pc + codeSize l → linearDelta (l ++ rest) pc target d = d := by
  intro l
  induction l with
  | nil => intro rest pc target d _ h; simp [codeSize] at h; exact linearDelta_before rest pc target d h
  | cons i l ih =>
    intro rest pc target d h hlt
    have hi : i.eff = SpEffect.none := h i (by simp)
    have hl : NoSp l := fun j hj => h j (by simp [hj])
    rw [codeSize_cons] at hlt
    simp only [List.cons_append, linearDelta, hi]
    split
    · rfl
    · exact ih rest (pc + i.size) target d hl (by omega)

/-- the table `GetPcspTable` builds for the frame-code shape -/
theorem getPcspTable_frameCode (pre body tail : List Ins) (s1 s2 s3 : Nat) (n : Int)
    (hpre : NoSp pre) (hbody : NoSp body) :
    let a := codeSize pre + s1
    let b := a + codeSize body + s2
    let c := b + s3
    getPcspTable (frameCode pre s1 n body s2 s3 tail) =
      some (⟨a, 0⟩ :: ⟨b, n⟩ :: ⟨c, 0⟩ :: (if tail.isEmpty then [] else [⟨c + codeSize tail, max 0 n⟩])) := by
  intro a b c
  unfold getPcspTable frameCode
  rw [getPcspGo_nosp pre _ 0 0 0 hpre]
  simp only [getPcspGo]
  rw [getPcspGo_nosp body _ _ _ _ hbody]
  simp only [getPcspGo]
  simp [a, b, c]


/-- the four-entry table means exactly the regions -/
theorem valueAt_frameTable' (a b c e : Nat) (n : Int) (hn : 0 < n) (pc : Nat) :
    valueAt [⟨a, 0⟩, ⟨b, n⟩, ⟨c, 0⟩, ⟨e, max 0 n⟩] pc = regionDelta a b c e n pc := by
  have hm : max 0 n = n := by omega
  simp only [valueAt, regionDelta, hm]
  repeat' split
  all_goals first | rfl | omega

theorem wf_frameTable (a b c e : Nat) (n : Int) (h0 : 0 < a) (hab : a < b) (hbc : b < c) (hce : c < e)
    (he : e < 4294967296) (hn : 0 < n) (hn2 : n < 2147483648) :
    WellFormed [⟨a, 0⟩, ⟨b, n⟩, ⟨c, 0⟩, ⟨e, max 0 n⟩] := by
  have hm : max 0 n = n := by omega
  rw [hm]
  unfold WellFormed
  simp only [WF, InInt32]
  refine ⟨h0, by omega, by omega, by omega, hab, by omega, by omega, by omega, hbc, by omega, by omega, by omega, hce, he, by omega, by omega, trivial⟩


theorem valueAt_frameTable3 (a b c : Nat) (n : Int) (pc : Nat) :
    valueAt [⟨a, 0⟩, ⟨b, n⟩, ⟨c, 0⟩] pc = regionDelta a b c c n pc := by
  simp only [valueAt, regionDelta]
  repeat' split
  all_goals first | rfl | omega

theorem wf_frameTable3 (a b c : Nat) (n : Int) (h0 : 0 < a) (hab : a < b) (hbc : b < c)
    (he : c < 4294967296) (hn : 0 < n) (hn2 : n < 2147483648) :
    WellFormed [⟨a, 0⟩, ⟨b, n⟩, ⟨c, 0⟩] := by
  unfold WellFormed
  simp only [WF, InInt32]
  refine ⟨h0, by omega, by omega, by omega, hab, by omega, by omega, by omega, hbc, by omega, by omega, by omega, trivial⟩

/-- up to and including the RET, the regions are what falling through the code does to SP -/
theorem regionDelta_eq_linear (pre body tail : List Ins) (s1 s2 s3 : Nat) (n : Int)
    (hpre : NoSp pre) (hbody : NoSp body) (target : Nat) (e : Nat)
    (ht : target < codeSize pre + s1 + codeSize body + s2 + s3) :
    regionDelta (codeSize pre + s1) (codeSize pre + s1 + codeSize body + s2)
      (codeSize pre + s1 + codeSize body + s2 + s3) e n target =
    some (linearDelta (frameCode pre s1 n body s2 s3 tail) 0 target 0) := by
  unfold frameCode regionDelta
  by_cases h1 : target < codeSize pre
  · rw [linearDelta_nosp_inside pre _ 0 target 0 hpre (by omega)]
    have : target < codeSize pre + s1 := by omega
    simp [this]
  · rw [linearDelta_nosp pre _ 0 target 0 hpre (by omega)]
    by_cases h2 : target < codeSize pre + s1
    · simp [linearDelta, h2]
    · have h2' : ¬ (target < 0 + codeSize pre + s1) := by omega
      simp only [linearDelta, h2', h2, if_false]
      by_cases h3 : target < codeSize pre + s1 + codeSize body
      · rw [linearDelta_nosp_inside body _ _ target _ hbody (by omega)]
        have : target < codeSize pre + s1 + codeSize body + s2 := by omega
        simp [this]
      · rw [linearDelta_nosp body _ _ target _ hbody (by omega)]
        by_cases h4 : target < codeSize pre + s1 + codeSize body + s2
        · have h4' : target < 0 + codeSize pre + s1 + codeSize body + s2 := by omega
          simp [linearDelta, h4, h4']
        · have h4' : ¬ (target < 0 + codeSize pre + s1 + codeSize body + s2) := by omega
          have h5 : target < 0 + codeSize pre + s1 + codeSize body + s2 + s3 := by omega
          simp only [linearDelta, h4', h4, if_false, h5, ht, if_true]
          congr 1
          omega


end SonicSpec.Loader
