/-
  Lemmas for Model/ConcOptdec.lean: what a Pretouch round leaves in the cache.
-/
import SonicSpec.Model.ConcOptdec
set_option linter.unusedVariables false
namespace SonicSpec.Conc.Optdec

theorem lookup_pretouchType (m : Nat) (c : List (OTy × ODec)) (t' t : OTy) :
    lookup t (pretouchType m c t') =
      match lookup t c with
      | some d => some d
      | none => if t' = t then some (compileFresh m t) else none := by
  unfold pretouchType
  cases h' : lookup t' c with
  | some d' =>
    simp only
    cases h : lookup t c with
    | some d => rfl
    | none =>
      simp only
      have : t' ≠ t := by intro e; subst e; rw [h'] at h; cases h
      rw [if_neg this]
  | none =>
    simp only [lookup]
    by_cases e : t' = t
    · subst e
      simp only [if_true, h']
    · simp only [if_neg e]
      cases lookup t c <;> rfl

theorem lookup_pretouchRound (m : Nat) (ts : List OTy) (t : OTy) :
    ∀ c : List (OTy × ODec), lookup t (pretouchRound m c ts) =
      match lookup t c with
      | some d => some d
      | none => if t ∈ ts then some (compileFresh m t) else none := by
  induction ts with
  | nil => intro c; simp only [pretouchRound, List.foldl_nil, List.not_mem_nil, if_false]; cases lookup t c <;> rfl
  | cons a ts ih =>
    intro c
    have hs : pretouchRound m c (a :: ts) = pretouchRound m (pretouchType m c a) ts := rfl
    rw [hs, ih, lookup_pretouchType]
    cases lookup t c with
    | some d => rfl
    | none =>
      simp only
      by_cases e : a = t
      · subst e
        simp
      · simp only [if_neg e, List.mem_cons]
        have : (t = a ∨ t ∈ ts) ↔ t ∈ ts := ⟨fun h => h.elim (fun h => absurd h.symm e) id, Or.inr⟩
        simp only [this]

theorem lookup_pretouchRec (m : Nat) (subs : OTy → List OTy) (t : OTy) (d : ODec) :
    ∀ n c ts, lookup t (pretouchRec m subs n c ts) = some d → lookup t c = some d ∨ d = compileFresh m t := by
  intro n
  induction n with
  | zero =>
    intro c ts h
    simp only [pretouchRec] at h
    rw [lookup_pretouchRound] at h
    cases hc : lookup t c with
    | some d' => rw [hc] at h; exact Or.inl h
    | none =>
      rw [hc] at h
      simp only at h
      split at h
      · cases h; exact Or.inr rfl
      · cases h
  | succ n ih =>
    intro c ts h
    simp only [pretouchRec] at h
    rcases ih _ _ h with h1 | h1
    · rw [lookup_pretouchRound] at h1
      cases hc : lookup t c with
      | some d' => rw [hc] at h1; exact Or.inl h1
      | none =>
        rw [hc] at h1
        simp only at h1
        split at h1
        · cases h1; exact Or.inr rfl
        · cases h1
    · exact Or.inr h1

end SonicSpec.Conc.Optdec
