/-
  Helper lemmas for C19: the rounded exponent exceeds `tmax` exactly when the value is at least
  `(2^p - 1/2) * 2^tmax`, written without subtraction as  `2^(p+1) * X ≤ 2 * N + X`, `X = D * 2^tmax`.
-/
import SonicSpec.Proofs.NumDec
namespace SonicSpec.Num

theorem pow_succ_two (n : Nat) : 2 ^ (n + 1) = 2 * 2 ^ n := by rw [Nat.pow_succ, Nat.mul_comm]

theorem ovf_of_isRNE {p N D q t tmax : Nat} (hp : 1 ≤ p) (hD : 0 < D) (h : IsRNE p N D q t) :
    tmax < t ↔ 2 ^ (p + 1) * (D * 2 ^ tmax) ≤ 2 * N + D * 2 ^ tmax := by
  obtain ⟨q0, u, hup, hlo, hn1, hn2, htie, hnorm⟩ := h
  have hK : 2 ^ p = 2 * 2 ^ (p - 1) := by
    have : p = (p - 1) + 1 := by omega
    rw [this, pow_succ_two]; simp
  have hK2 : 2 ^ (p + 1) = 2 * 2 ^ p := pow_succ_two p
  have hH : 0 < 2 ^ (p - 1) := Nat.two_pow_pos _
  have hX : 0 < D * 2 ^ tmax := Nat.mul_pos hD (Nat.two_pow_pos _)
  have hDu : 0 < D * 2 ^ u := Nat.mul_pos hD (Nat.two_pow_pos _)
  -- monotonicity of D * 2^x
  have mono : ∀ a b : Nat, a ≤ b → D * 2 ^ a ≤ D * 2 ^ b := fun a b hab =>
    Nat.mul_le_mul_left D (Nat.pow_le_pow_right (by decide) hab)
  have step : ∀ a : Nat, D * 2 ^ (a + 1) = 2 * (D * 2 ^ a) := fun a => by
    rw [pow_succ_two]; ac_rfl
  rw [hK2]
  generalize hKdef : 2 ^ p = K at *
  generalize hHdef : 2 ^ (p - 1) = H at *
  rcases hnorm with ⟨rfl, rfl, hq⟩ | ⟨hq0, rfl, rfl⟩
  · -- no carry: t = u, q < K
    constructor
    · intro ht
      have h2 : D * 2 ^ (tmax + 1) ≤ D * 2 ^ t := mono _ _ ht
      rw [step] at h2
      have h3 := hlo (by omega)
      have h4 : H * (2 * (D * 2 ^ tmax)) ≤ H * (D * 2 ^ t) := Nat.mul_le_mul_left H h2
      have h5 : 2 * K * (D * 2 ^ tmax) = 2 * (H * (2 * (D * 2 ^ tmax))) := by rw [hK]; ac_rfl
      omega
    · intro hov
      apply Classical.byContradiction
      intro hnt
      have htle : t ≤ tmax := by omega
      have hDuX : D * 2 ^ t ≤ D * 2 ^ tmax := mono _ _ htle
      generalize D * 2 ^ t = Du at *
      generalize D * 2 ^ tmax = X at *
      have ha : q * Du ≤ q * X := Nat.mul_le_mul_left q hDuX
      have hb : (q + 1) * X ≤ K * X := Nat.mul_le_mul_right X (by omega)
      rw [Nat.add_mul, Nat.one_mul] at hb
      have hc : 2 * K * X = 2 * (K * X) := by ac_rfl
      by_cases hq2 : q + 2 ≤ K
      · have hb2 : (q + 2) * X ≤ K * X := Nat.mul_le_mul_right X hq2
        rw [Nat.add_mul] at hb2
        omega
      · have hqK : q + 1 = K := by omega
        have hodd : q % 2 = 1 := by omega
        have hnt1 : ¬ 2 * (N - q * Du) = Du := fun hh => by
          have := htie (Or.inl hh); omega
        omega
  · -- carry into the next binade: q0 = K, t = u + 1
    rw [hq0] at hn1 hn2 htie
    constructor
    · intro ht
      have hut : tmax ≤ u := by omega
      have hXDu : D * 2 ^ tmax ≤ D * 2 ^ u := mono _ _ hut
      generalize D * 2 ^ u = Du at *
      generalize D * 2 ^ tmax = X at *
      obtain ⟨δ, rfl⟩ := Nat.exists_eq_add_of_le hXDu
      have h1 : K * (X + δ) = K * X + K * δ := Nat.mul_add _ _ _
      have h2 : δ ≤ K * δ := Nat.le_mul_of_pos_left δ (by omega)
      have hc : 2 * K * X = 2 * (K * X) := by ac_rfl
      omega
    · intro hov
      apply Classical.byContradiction
      intro hnt
      have htle : u + 1 ≤ tmax := by omega
      have hDuX : D * 2 ^ (u + 1) ≤ D * 2 ^ tmax := mono _ _ htle
      rw [step] at hDuX
      generalize D * 2 ^ u = Du at *
      generalize D * 2 ^ tmax = X at *
      have h1 : K * (2 * Du) ≤ K * X := Nat.mul_le_mul_left K hDuX
      have h2 : K * (2 * Du) = 2 * (K * Du) := by ac_rfl
      have h3 : X ≤ K * X := Nat.le_mul_of_pos_left X (by omega)
      have hc : 2 * K * X = 2 * (K * X) := by ac_rfl
      omega

/-- the exponent guard `e > 400` is sound: such a literal is beyond the overflow threshold -/
theorem huge_overflows (f : Fmt) (hf : f.Ok) (m : Nat) (e : Int) (hm : m ≠ 0) (he : e > 400) :
    2 ^ (f.prec + 1) * ((scale m e).2 * 2 ^ f.tmax) ≤
      2 * ((scale m e).1 * 2 ^ f.bias) + (scale m e).2 * 2 ^ f.tmax := by
  have he0 : e ≥ 0 := by omega
  simp only [scale, if_pos he0, Nat.one_mul]
  have h1 : 10 ^ 401 ≤ 10 ^ e.toNat := Nat.pow_le_pow_right (by decide) (by omega)
  have h2 : 10 ^ e.toNat ≤ m * 10 ^ e.toNat := Nat.le_mul_of_pos_left _ (Nat.pos_of_ne_zero hm)
  have h3 : 10 ^ 401 * 2 ^ f.bias ≤ m * 10 ^ e.toNat * 2 ^ f.bias :=
    Nat.mul_le_mul_right _ (Nat.le_trans h1 h2)
  have h4 := Nat.le_trans hf.big h3
  clear h1 h2 h3
  generalize m * 10 ^ e.toNat * 2 ^ f.bias = B at *
  generalize 2 ^ f.tmax = C at *
  generalize 2 ^ (f.prec + 1) = A at *
  omega

/-- the shape of `roundDec` on a non-zero literal: beyond the guard `e > 400` it overflows; otherwise
    there is a correctly rounded canonical `(q, t)` and the result is `none` exactly when `t > tmax` -/
theorem roundDec_main (f : Fmt) (hf : f.Ok) (m : Nat) (e : Int) (hm : m ≠ 0) (he : ¬ e > 400) :
    ∃ q t, IsRNE f.prec ((scale m e).1 * 2 ^ f.bias) (scale m e).2 q t ∧ Canonical f.prec q t ∧
      roundDec f m e = (if t > f.tmax then none else some (q, t)) := by
  simp only [roundDec, if_neg hm, if_neg he]
  split
  · rename_i hg
    have he0 : ¬ e ≥ 0 := by omega
    refine ⟨0, 0, ?_, ⟨Nat.two_pow_pos _, fun h => absurd h (by decide)⟩, by simp⟩
    simp only [scale, if_neg he0]
    exact tiny_isRNE f hf m _ hg.2
  · have hN : (scale m e).1 * 2 ^ f.bias ≠ 0 :=
      Nat.ne_of_gt (Nat.mul_pos (Nat.pos_of_ne_zero (scale_num_ne_zero m e hm)) (Nat.two_pow_pos _))
    obtain ⟨h1, h2⟩ := roundNat_spec f.prec _ _ hN (scale_den_ne_zero m e) hf.prec_pos
    exact ⟨_, _, h1, h2, rfl⟩

/-- overflow of `roundDec`, exactly -/
theorem roundDec_none_iff (f : Fmt) (hf : f.Ok) (m : Nat) (e : Int) (hm : m ≠ 0) :
    roundDec f m e = none ↔
      2 ^ (f.prec + 1) * ((scale m e).2 * 2 ^ f.tmax) ≤
        2 * ((scale m e).1 * 2 ^ f.bias) + (scale m e).2 * 2 ^ f.tmax := by
  by_cases he : e > 400
  · have : roundDec f m e = none := by simp [roundDec, hm, he]
    simp only [this, true_iff]
    exact huge_overflows f hf m e hm he
  · obtain ⟨q, t, h1, _, h3⟩ := roundDec_main f hf m e hm he
    have hD : 0 < (scale m e).2 := Nat.pos_of_ne_zero (scale_den_ne_zero m e)
    rw [h3, ← ovf_of_isRNE hf.prec_pos hD h1]
    split <;> simp_all

end SonicSpec.Num
