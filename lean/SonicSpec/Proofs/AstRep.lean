/-
  C15 - abs / repOk as list statements.
-/
import SonicSpec.Proofs.AstList
set_option linter.unusedSimpArgs false
namespace SonicSpec.Ast
theorem absElems_eq : ∀ st : List NodeM, absElems st = (st.filter NodeM.live).map NodeM.abs
  | [] => by simp [absElems]
  | x :: xs => by
    unfold absElems
    by_cases h : x.live <;> simp [h, List.filter_cons, absElems_eq xs]

theorem absPairs_eq : ∀ st : List PairM,
    absPairs st = (st.filter pairLive).map (fun p => (p.2.1, p.2.2.abs))
  | [] => by simp [absPairs]
  | (h, k, v) :: xs => by
    unfold absPairs
    by_cases hv : v.live <;> simp [hv, List.filter_cons, pairLive, absPairs_eq xs]

theorem absElems_append (a b : List NodeM) : absElems (a ++ b) = absElems a ++ absElems b := by
  simp [absElems_eq]

theorem absPairs_append (a b : List PairM) : absPairs (a ++ b) = absPairs a ++ absPairs b := by
  simp [absPairs_eq]

theorem repElems_iff : ∀ st : List NodeM,
    repElems st = true ↔ ∀ x ∈ st, x.live = true → x.repOk = true
  | [] => by simp [repElems]
  | x :: xs => by
    unfold repElems
    rw [Bool.and_eq_true, repElems_iff xs]
    by_cases h : x.live <;> simp [h]

theorem repPairs_iff : ∀ st : List PairM,
    repPairs st = true ↔ ∀ p ∈ st, (pairLive p = true → p.2.2.repOk = true ∧ p.1 = some p.2.1) ∧
      (pairLive p = false → p.2.1 = [] ∧ p.1 = none)
  | [] => by simp [repPairs]
  | (h, k, v) :: xs => by
    unfold repPairs
    rw [Bool.and_eq_true, repPairs_iff xs]
    by_cases hv : v.live <;> simp [hv, pairLive, List.isEmpty_iff]

theorem allLiveElems_iff : ∀ st : List NodeM, allLiveElems st = true ↔ ∀ x ∈ st, x.live = true
  | [] => by simp [allLiveElems]
  | x :: xs => by
    unfold allLiveElems
    rw [Bool.and_eq_true, allLiveElems_iff xs]; simp

theorem allLivePairs_iff : ∀ st : List PairM, allLivePairs st = true ↔ ∀ p ∈ st, pairLive p = true
  | [] => by simp [allLivePairs]
  | (h, k, v) :: xs => by
    unfold allLivePairs
    rw [Bool.and_eq_true, allLivePairs_iff xs]; simp [pairLive]

theorem canonList_eq : ∀ xs : List Tree, canonList xs = xs.map Tree.canon
  | [] => by simp [canonList]
  | x :: xs => by simp [canonList, canonList_eq xs]

theorem canonPairs_eq : ∀ kvs : List (Key × Tree),
    canonPairs kvs = kvs.map (fun kv => canonStr kv.1 ++ 58 :: kv.2.canon)
  | [] => by simp [canonPairs]
  | (k, v) :: kvs => by simp [canonPairs, canonPairs_eq kvs]


theorem raw_elems_abs (rest : List Tree) :
    absElems (rest.map (fun v => NodeM.raw v false)) = rest := by
  induction rest with
  | nil => simp [absElems]
  | cons x xs ih => simp [absElems, NodeM.live, NodeM.abs, ih]

theorem raw_pairs_abs (rest : List (Key × Tree)) : absPairs (rest.map rawPair) = rest := by
  induction rest with
  | nil => simp [absPairs]
  | cons x xs ih =>
    obtain ⟨k, v⟩ := x
    simp [absPairs, rawPair, mkPair, NodeM.live, NodeM.abs, ih]

theorem countLive_append {α : Type} (live : α → Bool) (a b : List α) :
    countLive live (a ++ b) = countLive live a + countLive live b := by
  simp [countLive]

theorem countLive_all {α : Type} (live : α → Bool) (a : List α) (h : ∀ x ∈ a, live x = true) :
    countLive live a = a.length := by
  simp [countLive, List.filter_eq_self.mpr h]

theorem countLive_of_map {α β : Type} (la : α → Bool) (lb : β → Bool) (a : List α) (b : List β)
    (h : a.map la = b.map lb) : countLive la a = countLive lb b := by
  have e1 : countLive la a = ((a.map la).filter id).length := by
    rw [List.filter_map]; simp [countLive]
  have e2 : countLive lb b = ((b.map lb).filter id).length := by
    rw [List.filter_map]; simp [countLive]
  rw [e1, e2, h]

theorem repElems_append (a b : List NodeM) : repElems (a ++ b) = (repElems a && repElems b) := by
  induction a with
  | nil => simp [repElems]
  | cons x xs ih => simp [repElems, ih, Bool.and_assoc]

theorem repPairs_append (a b : List PairM) : repPairs (a ++ b) = (repPairs a && repPairs b) := by
  induction a with
  | nil => simp [repPairs]
  | cons x xs ih =>
    obtain ⟨h, k, v⟩ := x
    simp [repPairs, ih, Bool.and_assoc]

theorem repElems_raw (rest : List Tree) : repElems (rest.map (fun v => NodeM.raw v false)) = true := by
  induction rest with
  | nil => simp [repElems]
  | cons x xs ih => simp [repElems, NodeM.live, NodeM.repOk, ih]

theorem repPairs_raw (rest : List (Key × Tree)) : repPairs (rest.map rawPair) = true := by
  induction rest with
  | nil => simp [repPairs]
  | cons x xs ih =>
    obtain ⟨k, v⟩ := x
    simp [repPairs, rawPair, mkPair, NodeM.live, NodeM.repOk, ih]

theorem countLive_raw_elems (rest : List Tree) :
    countLive NodeM.live (rest.map (fun v => NodeM.raw v false)) = rest.length := by
  rw [countLive_all]; simp
  intro x hx; simp at hx; obtain ⟨v, _, rfl⟩ := hx; rfl

theorem countLive_raw_pairs (rest : List (Key × Tree)) :
    countLive pairLive (rest.map rawPair) = rest.length := by
  rw [countLive_all]; simp
  intro x hx; simp at hx; obtain ⟨k, v, _, rfl⟩ := hx; rfl

theorem canonList_append (a b : List Tree) : canonList (a ++ b) = canonList a ++ canonList b := by
  simp [canonList_eq]

theorem canonPairs_append (a b : List (Key × Tree)) : canonPairs (a ++ b) = canonPairs a ++ canonPairs b := by
  simp [canonPairs_eq]

end SonicSpec.Ast
