/-
  do_skip_number: the vector code of one round and the scalar code agree on WHETHER the number is
  malformed, and on everything else when it is not (they differ in the error position they report).
-/
import SonicSpec.Model.MemScan
import SonicSpec.Proofs.Mem
import SonicSpec.Proofs.U8
namespace SonicSpec.Mem

/-! ### masks -/

theorem second_none_of_ctz_none : ∀ (m : List Bool), ctz m = none → second m = none
  | [], _ => rfl
  | true :: r, h => by simp [ctz] at h
  | false :: r, h => by
    simp only [ctz, Option.map_eq_none_iff] at h
    simp [second, second_none_of_ctz_none r h]

/-- a slot (`di`, `ei`, `si`) survives the bytes `pre`: at most one hit, and none if it is taken already -/
def slotOK (k : UInt8 → Bool) (iv : Int) (pre : Bytes) : Prop :=
  second (pre.map k) = none ∧ (ctz (pre.map k) = none ∨ iv = -1)

/-- its value afterwards -/
def slotNew (k : UInt8 → Bool) (iv : Int) (off : Nat) (pre : Bytes) : Int :=
  if iv = -1 then
    (match ctz (pre.map k) with
     | some j => ((off + j : Nat) : Int)
     | none => -1)
  else iv

theorem slotOK_nil (k : UInt8 → Bool) (iv : Int) : slotOK k iv [] := by simp [slotOK, second, ctz]

theorem slotNew_nil (k : UInt8 → Bool) (iv : Int) (off : Nat) : slotNew k iv off [] = iv := by
  simp only [slotNew, List.map_nil, ctz]
  split <;> simp_all

theorem slotOK_miss (k : UInt8 → Bool) (iv : Int) (b : UInt8) (r : Bytes) (hb : k b = false) :
    slotOK k iv (b :: r) ↔ slotOK k iv r := by
  simp only [slotOK, List.map_cons, hb, second, ctz, Option.map_eq_none_iff]

theorem slotNew_miss (k : UInt8 → Bool) (iv : Int) (off : Nat) (b : UInt8) (r : Bytes) (hb : k b = false) :
    slotNew k iv off (b :: r) = slotNew k iv (off + 1) r := by
  simp only [slotNew, List.map_cons, hb, ctz]
  split
  · cases ctz (List.map k r) with
    | none => rfl
    | some j => simp only [Option.map_some]; congr 1; omega
  · rfl

theorem slotOK_hit_taken (k : UInt8 → Bool) (iv : Int) (b : UInt8) (r : Bytes) (hb : k b = true) (hiv : iv ≠ -1) :
    ¬ slotOK k iv (b :: r) := by
  simp [slotOK, hb, ctz, hiv]

theorem slotOK_hit_free (k : UInt8 → Bool) (off : Nat) (b : UInt8) (r : Bytes) (hb : k b = true) :
    slotOK k (-1) (b :: r) ↔ slotOK k (off : Int) r := by
  have hne : ((off : Int) = -1) = False := by simp
  simp only [slotOK, List.map_cons, hb, second, ctz, Option.map_eq_none_iff, hne, or_false, or_true, and_true]
  constructor
  · intro h; exact ⟨second_none_of_ctz_none _ h, h⟩
  · intro h; exact h.2

theorem slotNew_hit_free (k : UInt8 → Bool) (off : Nat) (b : UInt8) (r : Bytes) (hb : k b = true) :
    slotNew k (-1) off (b :: r) = (off : Int) ∧ slotNew k (off : Int) (off + 1) r = (off : Int) := by
  have hne : ¬ ((off : Int) = -1) := by omega
  simp [slotNew, hb, ctz, hne]

/-! ### byte classes -/

theorem numClass (b : UInt8) :
    (isDigit b, isDot b, isExp b, isSign b) ∈
      [(true, false, false, false), (false, true, false, false), (false, false, true, false),
       (false, false, false, true), (false, false, false, false)] := by
  revert b
  apply forall_uint8
  decide +kernel

/-! ### the scalar code over a run of number characters -/

theorem sidx_free (off : Nat) : sidx (-1) off = .inl (off : Int) := by simp [sidx]

theorem sidx_taken (iv : Int) (off : Nat) (h : iv ≠ -1) : sidx iv off = .inr (-(off + 1 : Int)) := by
  have : (iv == -1) = false := by simpa using h
  simp [sidx, this]

theorem numFold_pre : ∀ (pre : Bytes) (st : NumSt) (off : Nat), (∀ b ∈ pre, isNumCh b = true) →
    ((slotOK isDot st.di pre ∧ slotOK isExp st.ei pre ∧ slotOK isSign st.si pre) →
      foldSteps numStep st off pre =
        .cont ⟨slotNew isDot st.di off pre, slotNew isExp st.ei off pre, slotNew isSign st.si off pre⟩) ∧
    (¬ (slotOK isDot st.di pre ∧ slotOK isExp st.ei pre ∧ slotOK isSign st.si pre) →
      ∃ r, r < 0 ∧ foldSteps numStep st off pre = .done r)
  | [], st, off, _ => by
    constructor
    · intro _
      simp [foldSteps, slotNew_nil]
    · intro h
      exact absurd ⟨slotOK_nil _ _, slotOK_nil _ _, slotOK_nil _ _⟩ h
  | b :: r, st, off, hall => by
    have hr : ∀ c ∈ r, isNumCh c = true := fun c hc => hall c (List.mem_cons_of_mem _ hc)
    have hb : isNumCh b = true := hall b (List.mem_cons_self)
    have hcls := numClass b
    simp only [List.mem_cons, Prod.mk.injEq, List.not_mem_nil, or_false] at hcls
    rcases hcls with ⟨h1, h2, h3, h4⟩ | ⟨h1, h2, h3, h4⟩ | ⟨h1, h2, h3, h4⟩ | ⟨h1, h2, h3, h4⟩ | ⟨h1, h2, h3, h4⟩
    · -- digit
      have ih := numFold_pre r st (off + 1) hr
      simp only [foldSteps, numStep, h1, if_true]
      simp only [slotOK_miss _ _ b r h2, slotOK_miss _ _ b r h3, slotOK_miss _ _ b r h4,
        slotNew_miss _ _ off b r h2, slotNew_miss _ _ off b r h3, slotNew_miss _ _ off b r h4]
      exact ih
    · -- decimal point
      simp only [foldSteps, numStep, h1, h2, Bool.false_eq_true, if_false, if_true]
      by_cases hdi : st.di = -1
      · have ih := numFold_pre r { st with di := (off : Int) } (off + 1) hr
        simp only [hdi, sidx_free]
        simp only [slotOK_hit_free isDot off b r h2, slotOK_miss _ _ b r h3, slotOK_miss _ _ b r h4,
          (slotNew_hit_free isDot off b r h2).1, slotNew_miss _ _ off b r h3, slotNew_miss _ _ off b r h4]
        simp only [(slotNew_hit_free isDot off b r h2).2] at ih
        exact ih
      · simp only [sidx_taken st.di off hdi]
        constructor
        · intro h; exact absurd h.1 (slotOK_hit_taken isDot st.di b r h2 hdi)
        · intro _; exact ⟨_, by omega, rfl⟩
    · -- exponent letter
      simp only [foldSteps, numStep, h1, h2, h3, Bool.false_eq_true, if_false, if_true]
      by_cases hei : st.ei = -1
      · have ih := numFold_pre r { st with ei := (off : Int) } (off + 1) hr
        simp only [hei, sidx_free]
        simp only [slotOK_hit_free isExp off b r h3, slotOK_miss _ _ b r h2, slotOK_miss _ _ b r h4,
          (slotNew_hit_free isExp off b r h3).1, slotNew_miss _ _ off b r h2, slotNew_miss _ _ off b r h4]
        simp only [(slotNew_hit_free isExp off b r h3).2] at ih
        exact ih
      · simp only [sidx_taken st.ei off hei]
        constructor
        · intro h; exact absurd h.2.1 (slotOK_hit_taken isExp st.ei b r h3 hei)
        · intro _; exact ⟨_, by omega, rfl⟩
    · -- sign
      simp only [foldSteps, numStep, h1, h2, h3, h4, Bool.false_eq_true, if_false, if_true]
      by_cases hsi : st.si = -1
      · have ih := numFold_pre r { st with si := (off : Int) } (off + 1) hr
        simp only [hsi, sidx_free]
        simp only [slotOK_hit_free isSign off b r h4, slotOK_miss _ _ b r h2, slotOK_miss _ _ b r h3,
          (slotNew_hit_free isSign off b r h4).1, slotNew_miss _ _ off b r h2, slotNew_miss _ _ off b r h3]
        simp only [(slotNew_hit_free isSign off b r h4).2] at ih
        exact ih
      · simp only [sidx_taken st.si off hsi]
        constructor
        · intro h; exact absurd h.2.2 (slotOK_hit_taken isSign st.si b r h4 hsi)
        · intro _; exact ⟨_, by omega, rfl⟩
    · -- not a number character: excluded
      simp [isNumCh, h1, h2, h3, h4] at hb

end SonicSpec.Mem
