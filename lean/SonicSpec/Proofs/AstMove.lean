/-
  C15 - Move: MoveOne on the physical store against moveElem on the live slots.
-/
import SonicSpec.Proofs.AstStep2
set_option linter.unusedSimpArgs false
namespace SonicSpec.Ast
variable {α : Type}

/-! ### Move: `MoveOne` on the physical store against `moveElem` on the live slots -/

theorem filter_eraseIdx_live (live : α → Bool) :
    ∀ (st : List α) (p : Nat) (x : α), st[p]? = some x → live x = true →
      (st.eraseIdx p).filter live = (st.filter live).eraseIdx (countLive live (st.take p))
  | [], p, x, h, _ => by simp at h
  | z :: zs, 0, x, h, hx => by
    simp at h; subst h
    simp [List.filter_cons, hx, countLive]
  | z :: zs, p + 1, x, h, hx => by
    have h' : zs[p]? = some x := by simpa using h
    have ih := filter_eraseIdx_live live zs p x h' hx
    by_cases hz : live z
    · simp [List.filter_cons, hz, ih, countLive_cons]
      rw [Nat.add_comm]; simp
    · simp [List.filter_cons, hz, ih, countLive_cons]

theorem filter_insertIdx_live (live : α → Bool) (x : α) (hx : live x = true) :
    ∀ (ys : List α) (q : Nat), q ≤ ys.length →
      (ys.insertIdx q x).filter live = (ys.filter live).insertIdx (countLive live (ys.take q)) x
  | ys, 0, _ => by simp [List.filter_cons, hx, countLive]
  | [], q + 1, h => by simp at h
  | z :: zs, q + 1, h => by
    have ih := filter_insertIdx_live live x hx zs q (by simpa using h)
    by_cases hz : live z
    · simp [List.filter_cons, hz, ih, countLive_cons]
      rw [Nat.add_comm]; simp
    · simp [List.filter_cons, hz, ih, countLive_cons]

theorem take_eraseIdx_le : ∀ (st : List α) (p q : Nat), q ≤ p → (st.eraseIdx p).take q = st.take q
  | [], _, _, _ => by simp
  | _ :: _, _, 0, _ => by simp
  | z :: zs, 0, q + 1, h => by omega
  | z :: zs, p + 1, q + 1, h => by simp [take_eraseIdx_le zs p q (by omega)]

theorem take_eraseIdx_gt : ∀ (st : List α) (p q : Nat), p < q → (st.eraseIdx p).take q = (st.take (q + 1)).eraseIdx p
  | [], _, _, _ => by simp
  | z :: zs, 0, q, h => by simp
  | z :: zs, p + 1, 0, h => by omega
  | z :: zs, p + 1, q + 1, h => by simp [take_eraseIdx_gt zs p q (by omega)]

theorem countLive_take_succ (live : α → Bool) :
    ∀ (st : List α) (p : Nat) (x : α), st[p]? = some x → live x = true →
      countLive live (st.take (p + 1)) = countLive live (st.take p) + 1
  | [], p, x, h, _ => by simp at h
  | z :: zs, 0, x, h, hx => by
    simp at h; subst h; simp [countLive, List.filter_cons, hx]
  | z :: zs, p + 1, x, h, hx => by
    have h' : zs[p]? = some x := by simpa using h
    have ih := countLive_take_succ live zs p x h' hx
    simp only [List.take_succ_cons, countLive_cons, ih]; omega

theorem countLive_take_mono (live : α → Bool) (st : List α) (p q : Nat) (h : p ≤ q) :
    countLive live (st.take p) ≤ countLive live (st.take q) := by
  have : st.take q = st.take p ++ (st.drop p).take (q - p) := by
    rw [← List.take_add]; congr 1; omega
  rw [this, countLive_append]; omega

theorem filter_getElem_slot (live : α → Bool) :
    ∀ (st : List α) (p : Nat) (x : α), st[p]? = some x → live x = true →
      (st.filter live)[countLive live (st.take p)]? = some x
  | [], p, x, h, _ => by simp at h
  | z :: zs, 0, x, h, hx => by
    simp at h; subst h; simp [List.filter_cons, hx, countLive]
  | z :: zs, p + 1, x, h, hx => by
    have h' : zs[p]? = some x := by simpa using h
    have ih := filter_getElem_slot live zs p x h' hx
    by_cases hz : live z
    · simp [List.filter_cons, hz, List.take_succ_cons, countLive_cons]
      rw [Nat.add_comm]; simpa using ih
    · simp [List.filter_cons, hz, List.take_succ_cons, countLive_cons]; exact ih

theorem countLive_eraseIdx_live (live : α → Bool) (st : List α) (p : Nat) (x : α) (h : st[p]? = some x)
    (hx : live x = true) : countLive live (st.eraseIdx p) = countLive live st - 1 := by
  have hf := filter_eraseIdx_live live st p x h hx
  have hlt := countLive_take_lt live st p x h hx
  unfold countLive at hlt ⊢
  rw [hf, List.length_eraseIdx]; unfold countLive; rw [if_pos hlt]

/-- the move lemma: moving the live slot number `s` to the place of live slot number `d` in the
    physical store moves element `s` to position `d` among the live slots -/
theorem filter_moveElem (live : α → Bool) (st : List α) (d s pd ps : Nat) (xd xs : α)
    (hd : st[pd]? = some xd) (hdl : live xd = true) (hdc : countLive live (st.take pd) = d)
    (hs : st[ps]? = some xs) (hsl : live xs = true) (hsc : countLive live (st.take ps) = s) :
    (moveElem st pd ps).filter live = moveElem (st.filter live) d s := by
  have hpd : pd < st.length := by
    rcases Nat.lt_or_ge pd st.length with h | h
    · exact h
    · rw [List.getElem?_eq_none h] at hd; simp at hd
  have hps : ps < st.length := by
    rcases Nat.lt_or_ge ps st.length with h | h
    · exact h
    · rw [List.getElem?_eq_none h] at hs; simp at hs
  have hdl' := countLive_take_lt live st pd xd hd hdl
  have hsl' := countLive_take_lt live st ps xs hs hsl
  rw [hdc] at hdl'; rw [hsc] at hsl'
  have hfs : (st.filter live)[s]? = some xs := by
    rw [← hsc]; exact filter_getElem_slot live st ps xs hs hsl
  have hA := filter_eraseIdx_live live st ps xs hs hsl
  rw [hsc] at hA
  have hlen : (st.eraseIdx ps).length = st.length - 1 := by rw [List.length_eraseIdx, if_pos hps]
  have hB := filter_insertIdx_live live xs hsl (st.eraseIdx ps) pd (by omega)
  have hC : countLive live ((st.eraseIdx ps).take pd) = d := by
    by_cases hle : pd ≤ ps
    · rw [take_eraseIdx_le st ps pd hle, hdc]
    · have hgt : ps < pd := by omega
      rw [take_eraseIdx_gt st ps pd hgt]
      have h1 : (st.take (pd + 1))[ps]? = some xs := by
        rw [List.getElem?_take_of_lt (by omega)]; exact hs
      rw [countLive_eraseIdx_live live _ ps xs h1 hsl, countLive_take_succ live st pd xd hd hdl, hdc]
      omega
  unfold moveElem
  unfold countLive at hdl' hsl'
  rw [if_pos ⟨hps, hpd⟩, if_pos ⟨hsl', hdl'⟩]
  simp only [hs, hfs]
  rw [hB, hA, hC]

theorem map_moveElem {β : Type} (f : α → β) (xs : List α) (d s : Nat) :
    (moveElem xs d s).map f = moveElem (xs.map f) d s := by
  unfold moveElem
  by_cases h : s < xs.length ∧ d < xs.length
  · rw [if_pos h, if_pos (by simpa using h)]
    have hs : xs[s]? = some xs[s] := by simp [h.1]
    simp only [hs, List.getElem?_map, Option.map_some, map_insertIdx', map_eraseIdx']
  · rw [if_neg h, if_neg (by simpa using h)]

theorem mem_moveElem (xs : List α) (d s : Nat) (x : α) (h : x ∈ moveElem xs d s) : x ∈ xs := by
  unfold moveElem at h
  by_cases hc : s < xs.length ∧ d < xs.length
  · rw [if_pos hc] at h
    have hs : xs[s]? = some xs[s] := by simp [hc.1]
    simp only [hs] at h
    have hlen : d ≤ (xs.eraseIdx s).length := by rw [List.length_eraseIdx, if_pos hc.1]; omega
    rcases (List.mem_insertIdx hlen).mp h with h | h
    · rw [h]; exact List.getElem_mem _
    · exact List.mem_of_mem_eraseIdx h
  · rw [if_neg hc] at h; exact h

theorem length_moveElem (xs : List α) (d s : Nat) : (moveElem xs d s).length = xs.length := by
  unfold moveElem
  by_cases hc : s < xs.length ∧ d < xs.length
  · rw [if_pos hc]
    have hs : xs[s]? = some xs[s] := by simp [hc.1]
    simp only [hs]
    rw [List.length_insertIdx, List.length_eraseIdx, if_pos hc.1, if_pos (by omega)]; omega
  · rw [if_neg hc]

theorem move_other (t : Tree) (d s : Nat) (h1 : t.kind ≠ .arr) : t.stepHere (.move d s) = (.err .unsupported, t) := by
  cases t <;> simp [Tree.kind] at h1 <;> rfl

theorem moveElem_oob {α : Type} (xs : List α) (d s : Nat) (h : xs.length ≤ d ∨ xs.length ≤ s) :
    moveElem xs d s = xs := by
  unfold moveElem
  rw [if_neg (by omega)]

/-- closing step shared by the three situations of `Move` -/
theorem move_close (n : NodeM) (l : Nat) (st st' : List NodeM) (d s : Nat) (a1 : (NodeM.arr l st).abs = n.abs)
    (hr : repElems st = true) (hl : l = countLive NodeM.live st)
    (key : st'.filter NodeM.live = moveElem (st.filter NodeM.live) d s) (hmem : ∀ x ∈ st', x ∈ st) :
    Refines (Ret.ok, NodeM.arr l st') ((NodeM.arr l st).abs.stepHere (.move d s)) := by
  refine ⟨rfl, ?_, ?_⟩
  · simp only [NodeM.abs, Tree.stepHere]
    rw [absElems_eq, key, map_moveElem, ← absElems_eq]
  · simp only [NodeM.repOk, Bool.and_eq_true, decide_eq_true_eq]
    refine ⟨?_, ?_⟩
    · rw [repElems_iff]
      intro x hx hlx
      exact (repElems_iff st).mp hr x (hmem x hx) hlx
    · unfold countLive
      rw [key, length_moveElem]; exact hl

theorem here_move (n : NodeM) (d s : Nat) (hr : n.repOk = true) (hn : n.isRaw = false) :
    Refines (n.stepHere (.move d s)) (n.abs.stepHere (.move d s)) := by
  have hcr := checkRaw_of_not_raw n hn
  have hka := kind_abs n hr
  simp only [NodeM.stepHere, hcr]
  by_cases hk : n.kind = .arr
  · rw [if_neg (by simp [hk])]
    obtain ⟨a1, a2⟩ := skipAll_spec n hr
    obtain ⟨l, st, hshape⟩ := skipAll_arr_shape n hk hn
    rw [hshape] at a1 a2 ⊢
    simp only [NodeM.repOk, Bool.and_eq_true, decide_eq_true_eq] at a2
    rw [← a1]
    simp only
    by_cases hne : l ≠ st.length
    · rw [if_pos hne]
      have hflen : (st.filter NodeM.live).length = l := by rw [a2.2]; rfl
      cases hd : nthLive NodeM.live st d with
      | none =>
        simp only
        have := (nthLive_none NodeM.live st d).mp hd
        exact move_close n l st st d s a1 a2.1 a2.2
          (by rw [moveElem_oob _ _ _ (Or.inl (by rw [hflen, a2.2]; exact this))]) (fun x hx => hx)
      | some pd =>
        cases hs : nthLive NodeM.live st s with
        | none =>
          simp only
          have := (nthLive_none NodeM.live st s).mp hs
          exact move_close n l st st d s a1 a2.1 a2.2
            (by rw [moveElem_oob _ _ _ (Or.inr (by rw [hflen, a2.2]; exact this))]) (fun x hx => hx)
        | some ps =>
          simp only
          obtain ⟨xd, d2, d3, _, d5⟩ := nthLive_some NodeM.live st d pd hd
          obtain ⟨xs, s2, s3, _, s5⟩ := nthLive_some NodeM.live st s ps hs
          exact move_close n l st _ d s a1 a2.1 a2.2
            (filter_moveElem NodeM.live st d s pd ps xd xs d2 d3 d5 s2 s3 s5)
            (fun x hx => mem_moveElem st pd ps x hx)
    · have heq : l = st.length := by simpa using hne
      rw [if_neg hne]
      have hall := countLive_eq_length NodeM.live st (by omega)
      have hfe : st.filter NodeM.live = st := List.filter_eq_self.mpr hall
      exact move_close n l st _ d s a1 a2.1 a2.2
        (by rw [hfe]; exact List.filter_eq_self.mpr (fun x hx => hall x (mem_moveElem st d s x hx)))
        (fun x hx => mem_moveElem st d s x hx)
  · rw [if_pos (by simpa using hk), move_other _ _ _ (by rw [← hka]; exact hk)]
    exact ⟨rfl, rfl, hr⟩

end SonicSpec.Ast
