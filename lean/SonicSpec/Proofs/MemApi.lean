/-
  Reader-level bounds discipline of the composite routines (advance_ns, advance_string_default,
  skip_string_fast, do_skip_number): every load is guarded by the remaining length.
-/
import SonicSpec.Model.MemScan
import SonicSpec.Proofs.Mem
import SonicSpec.Proofs.MemScan
namespace SonicSpec.Mem

section
variable {rd rd' : Rd} (len : Nat)

/-! ### first byte of a class / lspace -/

theorem findSpecial_congr (special : UInt8 → Bool) (h : ∀ i, i < len → rd i = rd' i) (Ws : List Nat) (p : Nat) :
    findSpecial special Ws rd len p = findSpecial special Ws rd' len p :=
  run_congr_scalar (findScan special) rfl len h Ws () p

theorem findSpecial_ne_none (special : UInt8 → Bool) (h : ∀ i, i < len → rd i ≠ none) (Ws : List Nat) (p : Nat) :
    findSpecial special Ws rd len p ≠ none :=
  run_ne_none_scalar (findScan special) rfl len h Ws () p

theorem findSpecial_eq_scalar (special : UInt8 → Bool) (h : ∀ i, i < len → rd i ≠ none) (Ws : List Nat) (p : Nat) :
    findSpecial special Ws rd len p = findSpecial special [] rd len p := by
  simp only [findSpecial]
  rw [run_eq_scalar (findScan special) rfl (fun st off bs => findBlk_eq_fold special bs st off) len Ws () p h]
  rw [Scan.run.eq_1]
  rfl

/-! ### advance_ns -/

theorem nsTry_congr (h : ∀ i, i < len → rd i = rd' i) (vi : Nat) (k k' : Nat → Option (UInt8 × Nat))
    (hk : ∀ v, k v = k' v) : nsTry rd len vi k = nsTry rd' len vi k' := by
  simp only [nsTry]
  by_cases hlt : vi < len
  · simp only [if_pos hlt, ← h vi hlt, hk]
  · simp only [if_neg hlt, hk]

theorem nsTry_ne_none (h : ∀ i, i < len → rd i ≠ none) (vi : Nat) (k : Nat → Option (UInt8 × Nat))
    (hk : ∀ v, k v ≠ none) : nsTry rd len vi k ≠ none := by
  simp only [nsTry]
  by_cases hlt : vi < len
  · simp only [if_pos hlt]
    cases hb : rd vi with
    | none => exact absurd hb (h vi hlt)
    | some b =>
      simp only
      split
      · simp
      · exact hk _
  · simp only [if_neg hlt]
    exact hk _

theorem advanceNs_congr (h : ∀ i, i < len → rd i = rd' i) (Ws : List Nat) (p : Nat) :
    advanceNs Ws rd len p = advanceNs Ws rd' len p := by
  simp only [advanceNs]
  refine nsTry_congr len h _ _ _ (fun v1 => nsTry_congr len h _ _ _ (fun v2 => nsTry_congr len h _ _ _
    (fun v3 => nsTry_congr len h _ _ _ (fun v4 => ?_))))
  by_cases h4 : v4 ≥ len
  · simp only [if_pos h4]
  · simp only [if_neg h4, lspace, findSpecial_congr len _ h Ws v4]
    cases findSpecial (fun c => !isSpace c) Ws rd' len v4 with
    | none => rfl
    | some vi =>
      simp only
      by_cases hv : vi ≥ len
      · simp only [if_pos hv]
      · simp only [if_neg hv, h vi (by omega)]

theorem advanceNs_ne_none (h : ∀ i, i < len → rd i ≠ none) (Ws : List Nat) (p : Nat) :
    advanceNs Ws rd len p ≠ none := by
  simp only [advanceNs]
  refine nsTry_ne_none len h _ _ (fun v1 => nsTry_ne_none len h _ _ (fun v2 => nsTry_ne_none len h _ _
    (fun v3 => nsTry_ne_none len h _ _ (fun v4 => ?_))))
  by_cases h4 : v4 ≥ len
  · simp only [if_pos h4]; simp
  · simp only [if_neg h4, lspace]
    cases hl : findSpecial (fun c => !isSpace c) Ws rd len v4 with
    | none => exact absurd hl (findSpecial_ne_none len _ h Ws v4)
    | some vi =>
      simp only
      by_cases hv : vi ≥ len
      · simp only [if_pos hv]; simp
      · simp only [if_neg hv]
        cases hb : rd vi with
        | none => exact absurd hb (h vi (by omega))
        | some b => simp

/-! ### advance_string_default, skip_string_fast -/

theorem advStr_congr (h : ∀ i, i < len → rd i = rd' i) (ch0 : UInt8) (Ws : List Nat) (p : Nat) :
    advStr ch0 Ws rd len p = advStr ch0 Ws rd' len p := by
  simp only [advStr]
  split
  · rfl
  · exact run_congr_scalar strScan rfl len h Ws _ p

theorem advStr_ne_none (h : ∀ i, i < len → rd i ≠ none) (ch0 : UInt8) (Ws : List Nat) (p : Nat) :
    advStr ch0 Ws rd len p ≠ none := by
  simp only [advStr]
  split
  · simp
  · exact run_ne_none_scalar strScan rfl len h Ws _ p

/-- the position found by advance_string_default does not depend on the block widths, as long as the
    uninitialised `ch` does not happen to hold a quote -/
theorem advStr_pos_eq_scalar (h : ∀ i, i < len → rd i ≠ none) (ch0 : UInt8) (hch : ch0 ≠ 34) (Ws : List Nat) (p : Nat) :
    (advStr ch0 Ws rd len p).map StrRes.pos = (advStr ch0 [] rd len p).map StrRes.pos := by
  simp only [advStr]
  split
  · rfl
  · have := run_eq_tail_proj strScan StrRes.pos (rd := rd) len (fun st => st.ch ≠ 34)
      (fun st off bs st' hi hb => by rw [strBlk_ch st st' off bs hb]; exact hi)
      (fun st off bs hi hle hl => by
        rw [strScan_blk_tail len st off bs hi hle hl]
        cases strScan.blk st off bs <;> rfl)
      Ws ⟨false, none, ch0⟩ p hch h
    rw [this, Scan.run.eq_1]

theorem skipStringFast_congr (h : ∀ i, i < len → rd i = rd' i) (Ws : List Nat) (p : Nat) :
    skipStringFast Ws rd len p = skipStringFast Ws rd' len p :=
  run_congr_scalar sfScan rfl len h Ws false p

theorem skipStringFast_ne_none (h : ∀ i, i < len → rd i ≠ none) (Ws : List Nat) (p : Nat) :
    skipStringFast Ws rd len p ≠ none :=
  run_ne_none_scalar sfScan rfl len h Ws false p

theorem skipStringFast_eq_scalar (h : ∀ i, i < len → rd i ≠ none) (Ws : List Nat) (p : Nat) :
    skipStringFast Ws rd len p = skipStringFast [] rd len p := by
  simp only [skipStringFast]
  rw [run_eq_scalar sfScan rfl (fun st off bs => sfBlk_eq_fold bs st off) len Ws false p h, Scan.run.eq_1]
  rfl

/-! ### do_skip_number -/

theorem doSkipNumber_congr (h : ∀ i, i < len → rd i = rd' i) (Ws : List Nat) :
    doSkipNumber Ws rd len = doSkipNumber Ws rd' len := by
  simp only [doSkipNumber]
  by_cases h0 : len = 0
  · simp only [if_pos h0]
  · simp only [if_neg h0, ← h 0 (by omega)]
    cases rd 0 with
    | none => rfl
    | some c0 =>
      simp only
      by_cases h1 : len = 1
      · simp only [if_pos h1, run_congr_scalar numScan rfl len h Ws _ 0]
      · simp only [if_neg h1, ← h 1 (by omega), run_congr_scalar numScan rfl len h Ws _ 0]

theorem doSkipNumber_ne_none (h : ∀ i, i < len → rd i ≠ none) (Ws : List Nat) :
    doSkipNumber Ws rd len ≠ none := by
  simp only [doSkipNumber]
  by_cases h0 : len = 0
  · simp only [if_pos h0]; simp
  · simp only [if_neg h0]
    cases hb : rd 0 with
    | none => exact absurd hb (h 0 (by omega))
    | some c0 =>
      simp only
      have hrun := run_ne_none_scalar numScan rfl len h Ws ⟨-1, -1, -1⟩ 0
      by_cases hz : (c0 == 48) = true
      · simp only [hz, if_true]
        by_cases h1 : len = 1
        · simp only [if_pos h1]; simp
        · simp only [if_neg h1]
          cases hb1 : rd 1 with
          | none => exact absurd hb1 (h 1 (by omega))
          | some c1 =>
            simp only
            cases (c1 != 46 && c1 != 101 && c1 != 69)
            · exact hrun
            · simp
      · simp only [hz]
        exact hrun

end

end SonicSpec.Mem
