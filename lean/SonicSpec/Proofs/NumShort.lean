/-
  Helper lemmas for C19: no decimal with fewer digits than the result of the digit search rounds back.
-/
import SonicSpec.Proofs.NumShift
namespace SonicSpec.Num

/-- a decimal between one that rounds to the finite float `(q, t)` and the float itself rounds to it too -/
theorem roundDec_between (f : Fmt) (hf : f.Ok) (q t : Nat) (hc : Canonical f.prec q t) (ht : t ≤ f.tmax)
    (m1 : Nat) (e1 : Int) (hm1 : m1 ≠ 0) (h1 : roundDec f m1 e1 = some (q, t))
    (m2 : Nat) (e2 : Int) (hm2 : m2 ≠ 0) (he2 : e2 ≤ 400)
    (hb : ((scale m1 e1).1 * 2 ^ f.bias * (scale m2 e2).2 ≤ (scale m2 e2).1 * 2 ^ f.bias * (scale m1 e1).2 ∧
            (scale m2 e2).1 * 2 ^ f.bias * 1 ≤ q * 2 ^ t * (scale m2 e2).2) ∨
          (q * 2 ^ t * (scale m2 e2).2 ≤ (scale m2 e2).1 * 2 ^ f.bias * 1 ∧
            (scale m2 e2).1 * 2 ^ f.bias * (scale m1 e1).2 ≤ (scale m1 e1).1 * 2 ^ f.bias * (scale m2 e2).2)) :
    roundDec f m2 e2 = some (q, t) := by
  obtain ⟨r1, _, _⟩ := roundDec_spec f hf m1 e1 hm1 q t h1
  have rv := isRNE_exact hc
  obtain ⟨q2, t2, s1, s2, s3⟩ := roundDec_main f hf m2 e2 hm2 (by omega)
  have hD1 : 0 < (scale m1 e1).2 := Nat.pos_of_ne_zero (scale_den_ne_zero _ _)
  have hD2 : 0 < (scale m2 e2).2 := Nat.pos_of_ne_zero (scale_den_ne_zero _ _)
  have heq : q2 = q ∧ t2 = t := by
    rcases hb with ⟨a, b⟩ | ⟨a, b⟩
    · exact IsRNE.between hf.prec_pos hD1 hD2 (by decide) a b r1 rv s1 hc s2
    · exact IsRNE.between hf.prec_pos (by decide) hD2 hD1 a b rv r1 s1 hc s2
  obtain ⟨rfl, rfl⟩ := heq
  rw [s3, if_neg (by omega)]

/-- the decimal exponent of a finite float is small -/
theorem E_le_400 (f : Fmt) (hf : f.Ok) (q t : Nat) (hc : Canonical f.prec q t) (ht : t ≤ f.tmax) (E : Int)
    (h : pow10Le E (q * 2 ^ t) (2 ^ f.bias) = true) : E ≤ 400 := by
  apply Classical.byContradiction
  intro hE
  have hE0 : E ≥ 0 := by omega
  simp only [pow10Le, if_pos hE0, decide_eq_true_eq] at h
  have h1 : 10 ^ 401 ≤ 10 ^ E.toNat := Nat.pow_le_pow_right (by decide) (by omega)
  have h2 : 10 ^ 401 * 2 ^ f.bias ≤ 10 ^ E.toNat * 2 ^ f.bias := Nat.mul_le_mul_right _ h1
  have h3 : q * 2 ^ t < 2 ^ f.prec * 2 ^ f.tmax := by
    have a : q * 2 ^ t < 2 ^ f.prec * 2 ^ t := Nat.mul_lt_mul_of_pos_right hc.1 (Nat.two_pow_pos _)
    have b : 2 ^ f.prec * 2 ^ t ≤ 2 ^ f.prec * 2 ^ f.tmax :=
      Nat.mul_le_mul_left _ (Nat.pow_le_pow_right (by decide) ht)
    omega
  have h4 := hf.big
  have h5 : 2 ^ f.prec * 2 ^ f.tmax ≤ 2 ^ (f.prec + 1) * 2 ^ f.tmax :=
    Nat.mul_le_mul_right _ (Nat.pow_le_pow_right (by decide) (by omega))
  have h6 := Nat.le_trans h4 h2
  clear h1 h2 h4
  omega

/-- a decimal with fewer than `k + 1` digits is not strictly between the two `k`-digit neighbours of a
    value in the decade `10^E` (grid `10^(E-k+1)`), all over the denominator `10^s` -/
theorem grid_gap (d' a lo b k : Nat) (hd : d' < 10 ^ k) (hlo : 10 ^ (k - 1) ≤ lo) (hk : 1 ≤ k) :
    d' * 10 ^ a ≤ lo * 10 ^ b ∨ (lo + 1) * 10 ^ b ≤ d' * 10 ^ a := by
  by_cases hab : b ≤ a
  · obtain ⟨c, rfl⟩ := Nat.exists_eq_add_of_le hab
    rw [Nat.pow_add]
    have e : d' * (10 ^ b * 10 ^ c) = (d' * 10 ^ c) * 10 ^ b := by ac_rfl
    rw [e]
    by_cases h : d' * 10 ^ c ≤ lo
    · exact Or.inl (Nat.mul_le_mul_right _ h)
    · exact Or.inr (Nat.mul_le_mul_right _ (by omega))
  · left
    have h1 : a + 1 ≤ b := by omega
    have h2 : d' * 10 ^ a ≤ 10 ^ k * 10 ^ a := Nat.mul_le_mul_right _ (Nat.le_of_lt hd)
    have h3 : 10 ^ (k - 1) * 10 ^ b ≤ lo * 10 ^ b := Nat.mul_le_mul_right _ hlo
    have h4 : 10 ^ k * 10 ^ a ≤ 10 ^ (k - 1) * 10 ^ b := by
      rw [← Nat.pow_add, ← Nat.pow_add]
      exact Nat.pow_le_pow_right (by decide) (by omega)
    omega

/-- the core of "shortest": if neither `k`-digit neighbour of the finite float `(q, t)` rounds back,
    no decimal with at most `k` digits does -/
theorem no_shorter (f : Fmt) (hf : f.Ok) (q t : Nat) (hc : Canonical f.prec q t) (ht : t ≤ f.tmax)
    (E : Int)
    (hE1 : pow10Le E (q * 2 ^ t) (2 ^ f.bias) = true) (hE2 : pow10Le (E + 1) (q * 2 ^ t) (2 ^ f.bias) = false)
    (k : Nat) (hk : 1 ≤ k)
    (hfail : ∀ c ∈ candidates (q * 2 ^ t) (2 ^ f.bias) E k, roundDec f c.1 c.2 ≠ some (q, t))
    (d' : Nat) (j' : Int) (hd0 : d' ≠ 0) (hd : d' < 10 ^ k) : roundDec f d' j' ≠ some (q, t) := by
  intro hr
  have hB : 0 < 2 ^ f.bias := Nat.two_pow_pos _
  -- the two neighbours
  let j : Int := E - (k : Int) + 1
  have hjdef : j = E - (k : Int) + 1 := rfl
  let lo := floorScaled (q * 2 ^ t) (2 ^ f.bias) j
  have hlodef : lo = floorScaled (q * 2 ^ t) (2 ^ f.bias) j := rfl
  have hmem : ∀ x, x = lo ∨ x = lo + 1 → (x, j) ∈ candidates (q * 2 ^ t) (2 ^ f.bias) E k := by
    intro x hx
    simp only [candidates]
    rw [← hjdef, ← hlodef]
    split
    · rcases hx with rfl | rfl <;> simp
    · rcases hx with rfl | rfl <;> simp
    · split <;> rcases hx with rfl | rfl <;> simp
  -- common denominator
  let s : Nat := (-j').toNat + (-j).toNat
  have hs1 : 0 ≤ j' + s := by omega
  have hs2 : 0 ≤ j + s := by omega
  have hs3 : 0 ≤ E + s := by omega
  have hs4 : 0 ≤ E + 1 + s := by omega
  obtain ⟨f1, f2⟩ := shift_floor (q * 2 ^ t) (2 ^ f.bias) j s hB hs2
  have p1 := (shift_pow10Le E (q * 2 ^ t) (2 ^ f.bias) s hs3).1 hE1
  have p2 := (shift_pow10Le (E + 1) (q * 2 ^ t) (2 ^ f.bias) s hs4).2 hE2
  rw [← hlodef] at f1 f2
  have hEb : (E + s).toNat = (k - 1) + (j + s).toNat := by omega
  have hEb2 : (E + 1 + s).toNat = k + (j + s).toNat := by omega
  rw [hEb, Nat.pow_add] at p1
  rw [hEb2, Nat.pow_add] at p2
  -- 10^(k-1) ≤ lo
  have hlo : 10 ^ (k - 1) ≤ lo := by
    apply Classical.byContradiction
    intro hcon
    have h1 : (lo + 1) * 10 ^ (j + s).toNat * 2 ^ f.bias ≤ 10 ^ (k - 1) * 10 ^ (j + s).toNat * 2 ^ f.bias :=
      Nat.mul_le_mul_right _ (Nat.mul_le_mul_right _ (by omega))
    omega
  have hlo0 : lo ≠ 0 := by
    have := pow10_pos (k - 1)
    omega
  have hj400 : j ≤ 400 := by
    have := E_le_400 f hf q t hc ht E hE1
    omega
  have hm1 : d' ≠ 0 := hd0
  rcases grid_gap d' (j' + s).toNat lo (j + s).toNat k hd hlo hk with hg | hg
  · -- d' * 10^j' ≤ lo * 10^j ≤ value
    have := roundDec_between f hf q t hc ht d' j' hm1 hr lo j hlo0 hj400 (Or.inl
      ⟨dec_le_of_shift d' j' lo j s (2 ^ f.bias) hs1 hs2 hg,
       dec_le_val_of_shift lo j s (2 ^ f.bias) (q * 2 ^ t) hs2 f1⟩)
    exact hfail (lo, j) (hmem lo (Or.inl rfl)) this
  · have := roundDec_between f hf q t hc ht d' j' hm1 hr (lo + 1) j (by omega) hj400 (Or.inr
      ⟨val_le_dec_of_shift (lo + 1) j s (2 ^ f.bias) (q * 2 ^ t) hs2 (Nat.le_of_lt f2),
       dec_le_of_shift (lo + 1) j d' j' s (2 ^ f.bias) hs2 hs1 hg⟩)
    exact hfail (lo + 1, j) (hmem (lo + 1) (Or.inr rfl)) this

theorem stripZeros_spec_le : ∀ (fuel d : Nat) (j : Int), (stripZeros fuel d j).1 ≤ d
  | 0, d, j => by simp [stripZeros]
  | fuel + 1, d, j => by
    simp only [stripZeros]
    split
    · have := stripZeros_spec_le fuel (d / 10) (j + 1)
      omega
    · exact Nat.le_refl _

/-- every `k`-digit candidate is at most `10^k` (the upper neighbour of `99..9`) -/
theorem cand_le (N D : Nat) (hD : 0 < D) (E : Int) (hE2 : pow10Le (E + 1) N D = false) (k : Nat) (hk : 1 ≤ k)
    (c : Nat × Int) (hc : c ∈ candidates N D E k) : c.1 ≤ 10 ^ k := by
  obtain ⟨h1, h2⟩ := candidates_mem N D E k c hc
  let j : Int := E - (k : Int) + 1
  let s : Nat := (-j).toNat
  have hs2 : 0 ≤ j + s := by omega
  have hs4 : 0 ≤ E + 1 + s := by omega
  obtain ⟨f1, _⟩ := shift_floor N D j s hD hs2
  have p2 := (shift_pow10Le (E + 1) N D s hs4).2 hE2
  have hEb2 : (E + 1 + s).toNat = k + (j + s).toNat := by omega
  rw [hEb2, Nat.pow_add] at p2
  have hlt : floorScaled N D j < 10 ^ k := by
    apply Classical.byContradiction
    intro hcon
    have h3 : 10 ^ k * 10 ^ (j + s).toNat * D ≤ floorScaled N D j * 10 ^ (j + s).toNat * D :=
      Nat.mul_le_mul_right _ (Nat.mul_le_mul_right _ (by omega))
    omega
  have hj : j = E - (k : Int) + 1 := rfl
  rw [← hj] at h2
  rcases h2 with h | h <;> rw [h] <;> omega

theorem stripZeros_lt (fuel d : Nat) (j : Int) (hd : d ≠ 0) (h10 : d % 10 = 0) :
    (stripZeros (fuel + 1) d j).1 < d := by
  simp only [stripZeros, if_pos (And.intro hd h10)]
  have hd10 : d / 10 ≠ 0 := by omega
  have := (stripZeros_spec_le fuel (d / 10) (j + 1))
  omega

end SonicSpec.Num
