/-
  C14 helper lemmas, part 4: the Preorder traverser is the strict parser followed by `flatten`.
-/
import SonicSpec.Proofs.SearchBasic
namespace SonicSpec.Search
open SonicSpec SonicSpec.Json

theorem travVal_zero (s : Bytes) : travVal 0 s = none := by unfold travVal; rfl
theorem travElems_zero (s : Bytes) : travElems 0 s = none := by unfold travElems; rfl
theorem travMembers_zero (s : Bytes) : travMembers 0 s = none := by unfold travMembers; rfl

/-- the traverser is the strict parser followed by `flatten`: same acceptance, same rest, and the
    callbacks are the flattening of the tree -/
theorem trav_eq_parse : ∀ n,
    (∀ s, travVal n s = (parseVal n s).map fun (v, r) => (flatten v, r)) ∧
    (∀ s, travElems n s = (parseElems n s).map fun (xs, r) => (flattenElems xs ++ [Event.arrEnd], r)) ∧
    (∀ s, travMembers n s = (parseMembers n s).map fun (kvs, r) => (flattenMembers kvs ++ [Event.objEnd], r)) := by
  intro n
  induction n with
  | zero =>
    refine ⟨?_, ?_, ?_⟩
    · intro s; rw [travVal_zero, parseVal_zero]; rfl
    · intro s; rw [travElems_zero, parseElems_zero]; rfl
    · intro s; rw [travMembers_zero, parseMembers_zero]; rfl
  | succ n ih =>
    obtain ⟨ihv, ihe, ihm⟩ := ih
    refine ⟨?_, ?_, ?_⟩
    · intro s
      unfold travVal parseVal
      split
      · simp [flatten]
      · simp [flatten]
      · simp [flatten]
      · rename_i r; cases hcs : scanString r <;> simp [flatten, hcs]
      · rename_i r
        simp only []
        split
        · rename_i t heq; simp [heq, flatten, flattenElems]
        · rename_i hne
          split
          · rename_i t heq; exact absurd heq (hne t)
          · rw [ihe]; cases hcs : parseElems n (skipWs r) <;> simp [flatten, hcs]
      · rename_i r
        simp only []
        split
        · rename_i t heq; simp [heq, flatten, flattenMembers]
        · rename_i hne
          split
          · rename_i t heq; exact absurd heq (hne t)
          · rw [ihm]; cases hcs : parseMembers n (skipWs r) <;> simp [flatten, hcs]
      · cases hcs : scanNumber s <;> simp [flatten, hcs]
    · intro s
      unfold travElems parseElems
      rw [ihv]
      cases parseVal n s with
      | none => simp
      | some x =>
        obtain ⟨v, r⟩ := x
        simp only [Option.map_some]
        split
        · rename_i t heq
          simp only [heq]
          rw [ihe]; cases hcs : parseElems n (skipWs t) <;> simp [flattenElems, hcs]
        · rename_i t heq; simp [heq, flattenElems]
        · rename_i h1 h2
          split
          · rename_i t heq; exact absurd heq (h1 t)
          · rename_i t heq; exact absurd heq (h2 t)
          · rfl
    · intro s
      unfold travMembers parseMembers
      split
      · rename_i r
        simp only []
        cases hk : scanString r with
        | none => simp
        | some kr =>
          obtain ⟨k, r1⟩ := kr
          simp only
          split
          · rename_i r2 h58
            simp only [h58]
            rw [ihv]
            cases parseVal n (skipWs r2) with
            | none => simp
            | some x =>
              obtain ⟨v, r3⟩ := x
              simp only [Option.map_some]
              split
              · rename_i t heq
                simp only [heq]
                rw [ihm]; cases hcs : parseMembers n (skipWs t) <;> simp [flattenMembers, hcs]
              · rename_i t heq; simp [heq, flattenMembers]
              · rename_i h1 h2
                split
                · rename_i t heq; exact absurd heq (h1 t)
                · rename_i t heq; exact absurd heq (h2 t)
                · rfl
          · rename_i hne
            split
            · rename_i r2 h58; exact absurd h58 (hne r2)
            · rfl
      · rename_i hne
        split
        · rename_i r; exact absurd rfl (hne r)
        · rfl

end SonicSpec.Search
