/-
  Per-routine lemmas: the vector code of one block does what the scalar code does on the same bytes.
-/
import SonicSpec.Model.MemScan
import SonicSpec.Proofs.Mem
namespace SonicSpec.Mem

/-! ### first byte of a class -/

theorem findBlk_eq_fold (special : UInt8 → Bool) : ∀ (bs : Bytes) (u : Unit) (off : Nat),
    findBlk special u off bs = foldSteps (findStep special) u off bs
  | [], _, _ => by simp [findBlk, foldSteps, ctz]
  | b :: bs, u, off => by
    have ih := findBlk_eq_fold special bs () (off + 1)
    simp only [findBlk, foldSteps, findStep, List.map_cons] at ih ⊢
    cases hb : special b with
    | true => simp [ctz]
    | false =>
      simp only [ctz, Bool.false_eq_true, if_false]
      rw [← ih]
      cases ctz (List.map special bs) with
      | none => rfl
      | some i => simp only [Option.map_some]; congr 1; omega

/-! ### escape carry -/

theorem escMask_cons (cr : Bool) (b : UInt8) (bs : Bytes) :
    escMask cr (b :: bs) = (cr :: (escMask (!cr && b == 92) bs).1, (escMask (!cr && b == 92) bs).2) := rfl

theorem sfBlk_eq_fold : ∀ (bs : Bytes) (cr : Bool) (off : Nat),
    sfBlk cr off bs = foldSteps sfStep cr off bs
  | [], cr, off => by simp [sfBlk, foldSteps, escMask, ctz]
  | b :: bs, cr, off => by
    simp only [sfBlk, escMask_cons, List.zipWith_cons_cons, foldSteps, sfStep]
    cases cr with
    | true =>
      have ih := sfBlk_eq_fold bs false (off + 1)
      simp only [sfBlk] at ih
      simp only [Bool.not_true, Bool.and_false, Bool.false_and, ctz, if_true]
      rw [← ih]
      cases ctz (List.zipWith (fun b esc => b == 34 && !esc) bs (escMask false bs).1) with
      | none => rfl
      | some i => simp only [Option.map_some]; congr 2; omega
    | false =>
      simp only [Bool.not_false, Bool.true_and, Bool.and_true, Bool.false_eq_true, if_false]
      by_cases h92 : b = 92
      · subst h92
        have ih := sfBlk_eq_fold bs true (off + 1)
        simp only [sfBlk] at ih
        have e1 : ((92 : UInt8) == 92) = true := by decide
        have e2 : ((92 : UInt8) == 34) = false := by decide
        simp only [e1, e2, ctz, if_true]
        rw [← ih]
        cases ctz (List.zipWith (fun b esc => b == 34 && !esc) bs (escMask true bs).1) with
        | none => rfl
        | some i => simp only [Option.map_some]; congr 2; omega
      · have e1 : (b == 92) = false := by simpa using h92
        simp only [e1, Bool.false_eq_true, if_false]
        by_cases h34 : b = 34
        · subst h34
          have e2 : ((34 : UInt8) == 34) = true := by decide
          simp [ctz]
        · have e2 : (b == 34) = false := by simpa using h34
          have ih := sfBlk_eq_fold bs false (off + 1)
          simp only [sfBlk] at ih
          simp only [e2, ctz, Bool.false_eq_true, if_false]
          rw [← ih]
          cases ctz (List.zipWith (fun b esc => b == 34 && !esc) bs (escMask false bs).1) with
          | none => rfl
          | some i => simp only [Option.map_some]; congr 2; omega

/-! ### string end (advance_string_default): the position does not depend on the widths -/

/-- the round of advance_string_default is the round of skip_string_fast plus the `ep` bookkeeping -/
theorem strBlk_sf (st : StrSt) (off : Nat) (bs : Bytes) :
    ∃ ep', strBlk st off bs =
      (match sfBlk st.cr off bs with
       | .done q => .done (.found (q.getD 0) ep')
       | .cont c => .cont { cr := c, ep := ep', ch := st.ch }) := by
  simp only [strBlk, sfBlk]
  cases ctz (List.zipWith (fun b esc => b == 34 && !esc) bs (escMask st.cr bs).1) with
  | none => exact ⟨_, rfl⟩
  | some i => exact ⟨_, rfl⟩

/-- the scalar tail of advance_string_default and the one of skip_string_fast walk in step -/
theorem strFold_sim : ∀ (bs : Bytes) (st : StrSt) (off : Nat), st.ch ≠ 34 →
    (match foldSteps strStep st off bs, foldSteps sfStep st.cr off bs with
     | .done r, .done q => ∃ e ep, r = .found e ep ∧ q = some e
     | .cont st', .cont c => st'.cr = c ∧ st'.ch ≠ 34
     | _, _ => False)
  | [], st, off, h => by simp [foldSteps, h]
  | b :: bs, st, off, h => by
    simp only [foldSteps, strStep, sfStep]
    cases hcr : st.cr with
    | true =>
      simp only [if_true]
      have := strFold_sim bs { st with cr := false } (off + 1) h
      simpa using this
    | false =>
      simp only [Bool.false_eq_true, if_false]
      by_cases h34 : b = 34
      · subst h34
        simp
      · have e34 : (b == 34) = false := by simpa using h34
        by_cases h92 : b = 92
        · subst h92
          have := strFold_sim bs { cr := true, ep := epSet st.ep off, ch := 92 } (off + 1) (by simp)
          simpa [e34] using this
        · have e92 : (b == 92) = false := by simpa using h92
          have := strFold_sim bs { st with ch := b } (off + 1) h34
          simp only [e34, e92, Bool.false_eq_true, if_false]
          simpa [hcr] using this

/-- what the uninitialised-`ch` test can see: once `ch` is not a quote, its value (and `ep`) do not matter
    for the position -/
theorem strTail_pos_congr (rd : Rd) (len : Nat) (st₁ : StrSt) (off : Nat) :
    ∀ st₂ : StrSt, st₁.cr = st₂.cr → st₁.ch ≠ 34 → st₂.ch ≠ 34 →
      (scalarLoop strStep strEof rd len st₁ off).map StrRes.pos =
      (scalarLoop strStep strEof rd len st₂ off).map StrRes.pos := by
  fun_induction scalarLoop strStep strEof rd len st₁ off with
  | case1 st₁ off hlt hb =>
    intro st₂ _ _ _
    conv => rhs; rw [scalarLoop, dif_pos hlt, hb]
  | case2 st₁ off hlt b hb r hs =>
    intro st₂ hc h1 h2
    conv => rhs; rw [scalarLoop, dif_pos hlt, hb]
    simp only [strStep] at hs ⊢
    rw [← hc]
    cases hcr : st₁.cr with
    | true => simp [hcr] at hs
    | false =>
      simp only [hcr, Bool.false_eq_true, if_false] at hs ⊢
      by_cases h34 : b = 34
      · subst h34
        simp only [show ((34 : UInt8) == 34) = true by decide, if_true] at hs ⊢
        cases hs
        simp [StrRes.pos]
      · have e34 : (b == 34) = false := by simpa using h34
        simp only [e34, Bool.false_eq_true, if_false] at hs
        split at hs <;> cases hs
  | case3 st₁ off hlt b hb st' hs ih =>
    intro st₂ hc h1 h2
    conv => rhs; rw [scalarLoop, dif_pos hlt, hb]
    simp only [strStep] at hs ⊢
    rw [← hc]
    cases hcr : st₁.cr with
    | true =>
      simp only [hcr, if_true] at hs ⊢
      cases hs
      exact ih { st₂ with cr := false } rfl h1 h2
    | false =>
      simp only [hcr, Bool.false_eq_true, if_false] at hs ⊢
      by_cases h34 : b = 34
      · subst h34
        simp at hs
      · have e34 : (b == 34) = false := by simpa using h34
        simp only [e34, Bool.false_eq_true, if_false] at hs ⊢
        by_cases h92 : b = 92
        · subst h92
          simp only [show ((92 : UInt8) == 92) = true by decide, if_true] at hs ⊢
          cases hs
          exact ih _ rfl (by simp) (by simp)
        · have e92 : (b == 92) = false := by simpa using h92
          simp only [e92, Bool.false_eq_true, if_false] at hs ⊢
          cases hs
          exact ih _ rfl h34 h34
  | case4 st₁ off hlt =>
    intro st₂ hc h1 h2
    conv => rhs; rw [scalarLoop, dif_neg hlt]
    have e1 : (st₁.ch == 34) = false := by simpa using h1
    have e2 : (st₂.ch == 34) = false := by simpa using h2
    simp only [strEof, ← hc, e1, e2, Option.map_some]
    cases st₁.cr <;> rfl

/-- one round of advance_string_default against its scalar tail, as far as the position goes -/
theorem strScan_blk_tail {rd : Rd} (len : Nat) (st : StrSt) (off : Nat) (bs : Bytes) (hch : st.ch ≠ 34)
    (hle : off + bs.length ≤ len) (hl : loadW rd bs.length off = some bs) :
    (strScan.tail rd len st off).map StrRes.pos =
      (match strScan.blk st off bs with
       | .done r => some r.pos
       | .cont st' => (strScan.tail rd len st' (off + bs.length)).map StrRes.pos) := by
  show (scalarLoop strStep strEof rd len st off).map StrRes.pos = _
  rw [scalarLoop_block strStep strEof len bs st off hle hl]
  obtain ⟨ep', hb⟩ := strBlk_sf st off bs
  have hsim := strFold_sim bs st off hch
  show _ = (match strBlk st off bs with
       | .done r => some r.pos
       | .cont st' => (scalarLoop strStep strEof rd len st' (off + bs.length)).map StrRes.pos)
  rw [hb, sfBlk_eq_fold]
  cases h1 : foldSteps strStep st off bs with
  | done r =>
    cases h2 : foldSteps sfStep st.cr off bs with
    | done q =>
      rw [h1, h2] at hsim
      obtain ⟨e, ep, hr, hq⟩ := hsim
      subst hr hq
      simp [StrRes.pos]
    | cont c => rw [h1, h2] at hsim; exact absurd hsim id
  | cont st'' =>
    cases h2 : foldSteps sfStep st.cr off bs with
    | done q => rw [h1, h2] at hsim; exact absurd hsim id
    | cont c =>
      rw [h1, h2] at hsim
      simp only at hsim ⊢
      exact strTail_pos_congr rd len st'' (off + bs.length) _ hsim.1 hsim.2 hch

/-! ### bracket counting -/

theorem prefixXor_cons (c q : Bool) (r : List Bool) :
    prefixXor c (q :: r) = (xor c q :: (prefixXor (xor c q) r).1, (prefixXor (xor c q) r).2) := rfl

/-- the block code of skip_container_fast, one byte peeled off = the scalar step -/
theorem ctBlk_cons (lc rc : UInt8) (st : CtSt) (off : Nat) (b : UInt8) (bs : Bytes) :
    ctBlk lc rc st off (b :: bs) =
      (match ctStep lc rc st off b with
       | .done p => .done p
       | .cont st' => ctBlk lc rc st' (off + 1) bs) := by
  obtain ⟨inq, cr, l, r⟩ := st
  simp only [ctBlk, ctStep, escMask_cons, List.zipWith_cons_cons, prefixXor_cons, braceWalk]
  cases cr <;> cases inq <;> cases h34 : (b == 34) <;> cases hl : (b == lc) <;> cases hr : (b == rc) <;>
    by_cases hle : l ≤ r <;> simp [hle]

theorem ctBlkO_eq_fold (lc rc : UInt8) : ∀ (bs : Bytes) (st : CtSt) (off : Nat),
    ctBlkO lc rc st off bs = foldSteps (ctStepO lc rc) st off bs
  | [], st, off => by
    simp [ctBlkO, ctBlk, foldSteps, escMask, prefixXor, braceWalk]
  | b :: bs, st, off => by
    have ih := ctBlkO_eq_fold lc rc bs
    simp only [ctBlkO, foldSteps, ctStepO, ctBlk_cons] at ih ⊢
    cases hs : ctStep lc rc st off b with
    | done p => rfl
    | cont st' => exact ih st' (off + 1)

theorem ctStep_done (lc rc : UInt8) (st : CtSt) (off : Nat) (b : UInt8) (p : Nat)
    (h : ctStep lc rc st off b = .done p) : p = off + 1 := by
  obtain ⟨inq, cr, l, r⟩ := st
  simp only [ctStep] at h
  cases cr <;> cases inq <;> cases h34 : (b == 34) <;> cases hr : (b == rc) <;>
    by_cases hle : l ≤ r <;> simp [h34, hr, hle] at h <;> omega

/-- a closing brace reported by the scalar step lies just behind the byte that was looked at -/
theorem ctFold_done_bound (lc rc : UInt8) : ∀ (bs : Bytes) (st : CtSt) (off : Nat) (r : Option Nat),
    foldSteps (ctStepO lc rc) st off bs = .done r → ∃ p, r = some p ∧ off < p ∧ p ≤ off + bs.length
  | [], st, off, r, h => by simp [foldSteps] at h
  | b :: bs, st, off, r, h => by
    simp only [foldSteps, ctStepO] at h
    cases hs : ctStep lc rc st off b with
    | done p =>
      rw [hs] at h
      simp only at h
      cases h
      have := ctStep_done lc rc st off b p hs
      exact ⟨p, rfl, by omega, by simp only [List.length_cons]; omega⟩
    | cont st' =>
      rw [hs] at h
      simp only at h
      obtain ⟨p, h1, h2, h3⟩ := ctFold_done_bound lc rc bs st' (off + 1) r h
      exact ⟨p, h1, by omega, by simp only [List.length_cons]; omega⟩

theorem strBlk_ch (st st' : StrSt) (off : Nat) (bs : Bytes) (h : strBlk st off bs = .cont st') : st'.ch = st.ch := by
  simp only [strBlk] at h
  split at h
  · cases h
  · cases h; rfl

end SonicSpec.Mem
