/-
  Decoder IR: the structural skipper does not depend on its fuel once the fuel covers the input
  (`2 * length + 3`), and what it leaves is never longer than what it got.
-/
import SonicSpec.Proofs.DirTab
import SonicSpec.Proofs.BindStream
import SonicSpec.Proofs.EncJsonNum
import SonicSpec.Proofs.EncJsonStr
namespace SonicSpec.Dir
open SonicSpec SonicSpec.Go SonicSpec.Json SonicSpec.Bind SonicSpec.Stream

theorem scanNumber_len {s l r : Bytes} (h : scanNumber s = some (l, r)) : r.length ≤ s.length := by
  have := (Enc.scanNumber_sound h).2
  rw [this]; simp

theorem scanString_len {s b t : Bytes} (h : scanString s = some (b, t)) : t.length < s.length := by
  have := (Enc.scanString_sound s b t h).2
  rw [this]; simp; omega

theorem skipStringB_len : ∀ (r b t : Bytes), skipStringB r = some (b, t) → t.length < r.length
  | [], _, _, h => by simp [skipStringB] at h
  | c :: r, b, t, h => by
    by_cases h34 : c = 34
    · subst h34
      simp only [skipStringB] at h
      injection h with h; injection h with _ h2; subst h2; simp
    · by_cases h92 : c = 92
      · subst h92
        cases r with
        | nil => simp [skipStringB] at h
        | cons e r =>
          simp only [skipStringB] at h
          cases hr : skipStringB r with
          | none => simp [hr] at h
          | some p =>
            obtain ⟨b', t'⟩ := p
            simp only [hr, Option.map_some] at h
            injection h with h; injection h with _ h2; subst h2
            have := skipStringB_len r b' t' hr
            simp; omega
      · rw [skipStringB_cons c r h34 h92] at h
        cases hr : skipStringB r with
        | none => simp [hr] at h
        | some p =>
          obtain ⟨b', t'⟩ := p
          simp only [hr, Option.map_some] at h
          injection h with h; injection h with _ h2; subst h2
          have := skipStringB_len r b' t' hr
          simp; omega

theorem skipStr_len {strict : Bool} {r b t : Bytes} (h : skipStr strict r = some (b, t)) : t.length < r.length := by
  unfold skipStr at h
  split at h
  · exact scanString_len h
  · exact skipStringB_len r b t h

/-- more than enough fuel for any input of this length -/
def skipFuelV (s : Bytes) : Nat := 2 * s.length + 2
def skipFuelE (s : Bytes) : Nat := 2 * s.length + 3

theorem skip_fuel (strict : Bool) : ∀ n : Nat,
    (∀ s r m, skipVal strict n s = some r → skipFuelV s ≤ m → skipVal strict m s = some r ∧ r.length ≤ s.length) ∧
    (∀ s r m, skipElems strict n s = some r → skipFuelE s ≤ m → skipElems strict m s = some r ∧ r.length ≤ s.length) ∧
    (∀ s r m, skipMembers strict n s = some r → skipFuelE s ≤ m → skipMembers strict m s = some r ∧ r.length ≤ s.length) := by
  intro n
  induction n with
  | zero =>
    refine ⟨?_, ?_, ?_⟩ <;> intro s r m h <;> simp [skipVal, skipElems, skipMembers] at h
  | succ n ih =>
    obtain ⟨ihV, ihE, ihM⟩ := ih
    refine ⟨?_, ?_, ?_⟩
    · intro s r m h hm
      unfold skipFuelV at hm
      obtain ⟨m, rfl⟩ : ∃ k, m = k + 1 := ⟨m - 1, by omega⟩
      unfold skipVal at h
      split at h
      · cases h; rw [skipVal]; exact ⟨rfl, by simp; omega⟩
      · cases h; rw [skipVal]; exact ⟨rfl, by simp; omega⟩
      · cases h; rw [skipVal]; exact ⟨rfl, by simp; omega⟩
      · rename_i r0
        cases hs : skipStr strict r0 with
        | none => simp [hs] at h
        | some p =>
          obtain ⟨b, t⟩ := p
          simp only [hs, Option.map_some] at h
          cases h
          have := skipStr_len hs
          rw [skipVal]; simp only [hs, Option.map_some]; exact ⟨trivial, by simp; omega⟩
      · rename_i r0
        have hw := skipWs_length_le r0
        split at h
        · rename_i t ht
          cases h
          rw [skipVal]; simp only [ht]
          refine ⟨trivial, ?_⟩
          have : r.length < (skipWs r0).length := by rw [ht]; simp
          simp; omega
        · rename_i r' hr'
          rw [skipVal]
          have := ihE _ _ m h (by unfold skipFuelE; simp at hm; omega)
          split
          · rename_i t' ht'; exact absurd ht' (hr' t')
          · exact ⟨this.1, by simp; omega⟩
      · rename_i r0
        have hw := skipWs_length_le r0
        split at h
        · rename_i t ht
          cases h
          rw [skipVal]; simp only [ht]
          refine ⟨trivial, ?_⟩
          have : r.length < (skipWs r0).length := by rw [ht]; simp
          simp; omega
        · rename_i r' hr'
          rw [skipVal]
          have := ihM _ _ m h (by unfold skipFuelE; simp at hm; omega)
          split
          · rename_i t' ht'; exact absurd ht' (hr' t')
          · exact ⟨this.1, by simp; omega⟩
      · cases hn : scanNumber s with
        | none => simp [hn] at h
        | some p =>
          obtain ⟨l, t⟩ := p
          simp only [hn, Option.map_some] at h
          cases h
          have hl := scanNumber_len hn
          rw [skipVal]
          · simp only [hn, Option.map_some]; exact ⟨trivial, hl⟩
          all_goals (intro r' hc; subst hc; simp_all)
    · intro s r m h hm
      unfold skipFuelE at hm
      obtain ⟨m, rfl⟩ : ∃ k, m = k + 1 := ⟨m - 1, by omega⟩
      unfold skipElems at h
      rw [skipElems]
      cases hv : skipVal strict n s with
      | none => simp [hv] at h
      | some r1 =>
        simp only [hv] at h
        have h1 := ihV _ _ m hv (by unfold skipFuelV; omega)
        simp only [h1.1]
        have hw := skipWs_length_le r1
        split at h
        · rename_i t ht
          have hw2 := skipWs_length_le t
          have : t.length < (skipWs r1).length := by rw [ht]; simp
          have h2 := ihE _ _ m h (by unfold skipFuelE; omega)
          simp only [ht, h2.1]
          exact ⟨trivial, by omega⟩
        · rename_i t ht
          cases h
          have : r.length < (skipWs r1).length := by rw [ht]; simp
          simp only [ht]
          exact ⟨trivial, by omega⟩
        · cases h
    · intro s r m h hm
      unfold skipFuelE at hm
      obtain ⟨m, rfl⟩ : ∃ k, m = k + 1 := ⟨m - 1, by omega⟩
      unfold skipMembers at h
      split at h
      · rename_i r0
        cases hs : skipStr strict r0 with
        | none => simp [hs] at h
        | some p =>
          obtain ⟨k, r1⟩ := p
          simp only [hs] at h
          have hl1 := skipStr_len hs
          have hw1 := skipWs_length_le r1
          split at h
          · rename_i r2 hr2
            have hl2 : r2.length < (skipWs r1).length := by rw [hr2]; simp
            have hw2 := skipWs_length_le r2
            cases hv : skipVal strict n (skipWs r2) with
            | none => simp [hv] at h
            | some r3 =>
              simp only [hv] at h
              have h1 := ihV _ _ m hv (by unfold skipFuelV; simp at hm; omega)
              have hw3 := skipWs_length_le r3
              rw [skipMembers]
              simp only [hs, hr2, h1.1]
              split at h
              · rename_i t ht
                have hw4 := skipWs_length_le t
                have : t.length < (skipWs r3).length := by rw [ht]; simp
                have h2 := ihM _ _ m h (by unfold skipFuelE; simp at hm; omega)
                simp only [ht, h2.1]
                exact ⟨trivial, by simp; omega⟩
              · rename_i t ht
                cases h
                have : r.length < (skipWs r3).length := by rw [ht]; simp
                simp only [ht]
                exact ⟨trivial, by simp; omega⟩
              · cases h
          · cases h
      · cases h

/-- whatever the skipper accepts with some fuel, the machine's skipper accepts (it gets `skipFuel`) -/
theorem skipVal_exec {strict : Bool} {n : Nat} {s r : Bytes} (h : skipVal strict n s = some r) :
    skipVal strict (skipFuel s) s = some r ∧ r.length ≤ s.length :=
  (skip_fuel strict n).1 s r _ h (by unfold skipFuelV skipFuel; omega)

theorem skipElems_exec {strict : Bool} {n : Nat} {s r : Bytes} {m : Nat} (h : skipElems strict n s = some r) (hm : skipFuel s ≤ m) :
    skipElems strict m s = some r ∧ r.length ≤ s.length :=
  (skip_fuel strict n).2.1 s r _ h (by unfold skipFuelE; unfold skipFuel at hm; omega)

theorem skipMembers_exec {strict : Bool} {n : Nat} {s r : Bytes} (h : skipMembers strict n s = some r) :
    skipMembers strict (skipFuel s) s = some r ∧ r.length ≤ s.length :=
  (skip_fuel strict n).2.2 s r _ h (by unfold skipFuelE skipFuel; omega)

end SonicSpec.Dir
