/-
  Encoder IR, compiler correctness: map keys - the text of an integer key needs no escape, the key's code
  (compileMapBodyKey) writes the member name the specification writes.
-/
import SonicSpec.Proofs.IrStruct
import SonicSpec.Proofs.EncLeaf
import SonicSpec.Proofs.U8
namespace SonicSpec.Ir
open SonicSpec SonicSpec.Go SonicSpec.Enc SonicSpec.Json
variable {o : EncOpts} {co : COpts}

/-- digits and the minus sign -/
def plainByte (c : UInt8) : Bool := isDigit c || c == 45

theorem plainByte_spec : ∀ c : UInt8, plainByte c = true → c < 128 ∧ escAscii true c = [c] ∧ escAscii false c = [c] := by
  apply forall_uint8
  decide +kernel

theorem piecesF_plain : ∀ (s : Bytes) (f : Nat), s.length ≤ f → (∀ c ∈ s, plainByte c = true) → piecesF f s = s.map Piece.ascii := by
  intro s
  induction s with
  | nil => intro f _ _; cases f <;> rfl
  | cons c r ih =>
    intro f hf hall
    cases f with
    | zero => simp at hf
    | succ f =>
      have hc := (plainByte_spec c (hall c (by simp))).1
      have h1 : seqLen (c :: r) = 1 := by simp [seqLen, hc]
      simp only [piecesF, h1]
      simp only [Nat.reduceBEq, Bool.false_eq_true, if_false, BEq.rfl, if_true, List.map_cons]
      rw [ih f (by simpa using hf) (fun x hx => hall x (by simp [hx]))]

theorem quoteBody_plain (html fix : Bool) (s : Bytes) (h : ∀ c ∈ s, plainByte c = true) : quoteBody html fix s = s := by
  unfold quoteBody pieces
  rw [piecesF_plain s s.length (Nat.le_refl _) h]
  induction s with
  | nil => rfl
  | cons c r ih =>
    have hc := plainByte_spec c (h c (by simp))
    simp only [List.map_cons, List.flatMap_cons, quotePiece]
    rw [ih (fun x hx => h x (by simp [hx]))]
    cases html
    · rw [hc.2.2]; rfl
    · rw [hc.2.1]; rfl

theorem natDec_plain (n : Nat) : ∀ c ∈ natDec n, plainByte c = true := by
  intro c hc
  have := natDecAux_digits (n + 1) n [] (fun _ h => by cases h) c hc
  simp [plainByte, this]

theorem intDec_plain (i : Int) : ∀ c ∈ intDec i, plainByte c = true := by
  intro c hc
  unfold intDec at hc
  split at hc
  · rcases List.mem_cons.mp hc with h | h
    · subst h; decide
    · exact natDec_plain _ c h
  · exact natDec_plain _ c hc

end SonicSpec.Ir
