/-
  C17 helper lemmas, part 8 (wave 4): the stream decoder as it is in /repo HEAD (`Patched.decode
  Repairs.head`) on streams without top-level scalars: it computes the specification, whatever the
  chunking and wherever the reader fails.  Core Lean only.
-/
import SonicSpec.Proofs.IOGrammar
import SonicSpec.Proofs.IOPatched
set_option linter.unusedSimpArgs false
set_option linter.unusedVariables false
namespace SonicSpec.IO
theorem failWith_head (st : DState) (e : RErr) :
    Patched.failWith Repairs.head st e = setErr st (truncTerm e) := by
  cases e <;> simp [Patched.failWith, Repairs.head, truncTerm, RErr.toTerminal]

theorem delim_not_num : ∀ c : UInt8, isDelimStart c = true → isNumStart c = false ∧ (c == 0) = false := by
  apply forall_uint8; decide +kernel

theorem numTouchesEnd_delim (buf : Bytes) (s : Nat) (c : UInt8) (r0 : Bytes) (hc : isDelimStart c = true)
    (hp : buf.drop s = c :: r0) : Patched.numTouchesEnd buf (0 + s) = false := by
  simp [Patched.numTouchesEnd, hp, (delim_not_num c hc).1]

theorem nulAt_delim (buf : Bytes) (s : Nat) (c : UInt8) (r0 : Bytes) (hc : isDelimStart c = true)
    (hp : buf.drop s = c :: r0) : Patched.nulAt buf s = false := by
  simp [Patched.nulAt, hp, (delim_not_num c hc).2]

/-- `endSkip` of HEAD on a string/array/object -/
theorem endSkip_delim (st : DState) (s : Nat) (e : RErr) (c : UInt8) (r0 : Bytes)
    (hc : isDelimStart c = true) (hp : st.buf.drop s = c :: r0) :
    Patched.endSkip Repairs.head st s e =
      match Fixed.frame (c :: r0) with
      | some x => .ok st 0 x [] e
      | none => .failed (setErr { st with scanp := st.buf.length } (truncTerm e)) [] e := by
  unfold Patched.endSkip
  rw [hp, skipOneFast_delim c r0 hc]
  cases Fixed.frame (c :: r0) with
  | some x => rfl
  | none =>
    simp only [nulAt_delim st.buf s c r0 hc hp, Bool.and_false, Bool.false_eq_true, if_false, failWith_head]

/-- HEAD's `try_skip` loop on a string/array/object: it finds exactly the lexical frame if the
    stream holds one, whatever the chunking, and otherwise gives up with the terminal condition
    of a truncated value (syntax error at EOF, the reader's own error otherwise) -/
theorem Patched.frameLoop_delim (s : Nat) (c : UInt8) (r : Bytes) (hc : isDelimStart c = true) (sc : Script) :
    ∀ (st : DState) (reskip : Bool) (f : RErr),
    s ≤ st.buf.length → (∃ r0, st.buf.drop s = c :: r0) →
    st.buf.drop s ++ concat sc = c :: r →
    (reskip = true ∨ Fixed.frame (st.buf.drop s) = none) →
    match Fixed.frame (c :: r) with
    | some x => ∃ st2 sc2 f2, Patched.frameLoop Repairs.head st s reskip sc f = .ok st2 0 x sc2 f2 ∧
        st2.err = st.err ∧ st2.scanned = st.scanned ∧ s ≤ st2.buf.length ∧
        st2.buf.drop s ++ concat sc2 = c :: r ∧ x ≤ (st2.buf.drop s).length ∧
        termOf sc2 f2 = termOf sc f
    | none => ∃ st2 sc2 f2, Patched.frameLoop Repairs.head st s reskip sc f = .failed st2 sc2 f2 ∧
        st2.err = some (truncTerm (termOf sc f)) := by
  induction sc with
  | nil =>
    intro st reskip f hs ⟨r0, hp⟩ hD hre
    simp only [concat, List.append_nil] at hD
    have hr0 : r0 = r := by rw [hD] at hp; simpa using hp.symm
    subst hr0
    unfold Patched.frameLoop
    cases reskip with
    | true =>
      simp only [if_true]
      rw [endSkip_delim st s f c r0 hc hp]
      cases hx : Fixed.frame (c :: r0) with
      | some x =>
        have ⟨_, h2, _⟩ := frame_stable _ [] x hx
        exact ⟨st, [], f, rfl, rfl, rfl, hs, by simp [concat, hp], by rw [hp]; exact h2, rfl⟩
      | none => exact ⟨_, [], f, rfl, by simp [setErr, termOf]⟩
    | false =>
      have hnone : Fixed.frame (c :: r0) = none := by
        rcases hre with h | h
        · cases h
        · rw [hp] at h; exact h
      simp only [Bool.false_eq_true, if_false, hnone, failWith_head]
      exact ⟨_, [], f, rfl, by simp [setErr, termOf]⟩
  | cons hd rest ih =>
    intro st reskip f hs ⟨r0, hp⟩ hD hre
    obtain ⟨d, oe⟩ := hd
    have hdrop : (st.buf ++ d).drop s = st.buf.drop s ++ d := List.drop_append_of_le_length hs
    -- the skip (if attempted) on what is buffered
    have hsk : (if reskip = true then skipOneFast (st.buf.drop s) else SkipRes.eof) =
        (if reskip = true then (match Fixed.frame (c :: r0) with | some x => SkipRes.ok 0 x | none => .eof) else .eof) := by
      rw [hp, skipOneFast_delim c r0 hc]
      first | rfl | (cases Fixed.frame (c :: r0) <;> rfl) | (cases reskip <;> cases Fixed.frame (c :: r0) <;> rfl)
    have hne : (SkipRes.eof == SkipRes.inval) = false := by decide
    unfold Patched.frameLoop
    rw [hsk]
    by_cases hcase : reskip = true ∧ ∃ x', Fixed.frame (c :: r0) = some x'
    · obtain ⟨rfl, x', hf⟩ := hcase
      have ⟨h1, h2, _⟩ := frame_stable _ (d ++ concat ((d, oe) :: rest) |>.drop d.length) x' hf
      have hst : Fixed.frame (c :: r) = some x' := by
        have ⟨g1, _, _⟩ := frame_stable _ (concat ((d, oe) :: rest)) x' hf
        rw [← hp, hD] at g1; exact g1
      rw [hst]
      simp only [if_true, hf, numTouchesEnd_delim st.buf s c r0 hc hp, Bool.and_false, Bool.false_eq_true, if_false]
      have ⟨_, hle, _⟩ := frame_stable _ [] x' hf
      exact ⟨st, _, f, rfl, rfl, rfl, hs, hD, by rw [hp]; exact hle, rfl⟩
    · have hnone : Fixed.frame (c :: r0) = none := by
        cases hf : Fixed.frame (c :: r0) with
        | none => rfl
        | some x' =>
          rcases hre with h | h
          · exact absurd ⟨h, x', hf⟩ hcase
          · rw [hp, hf] at h; cases h
      have hres : (if reskip = true then (match Fixed.frame (c :: r0) with | some x => SkipRes.ok 0 x | none => SkipRes.eof) else SkipRes.eof) = SkipRes.eof := by
        rw [hnone]; cases reskip <;> rfl
      rw [hres]
      simp only [nulAt_delim st.buf s c r0 hc hp, hne, Bool.and_false, Bool.false_eq_true, if_false, Bool.or_false]
      cases oe with
      | none =>
        simp only
        have hD' : (st.buf.drop s ++ d) ++ concat rest = c :: r := by
          rw [List.append_assoc]; simpa [concat] using hD
        cases hsc : scan { append st d with scanp := st.buf.length } with
        | some p =>
          obtain ⟨c', st2⟩ := p
          have ⟨e1, _⟩ := scan_some _ c' st2 hsc
          simp only
          have hb : st2.buf = st.buf ++ d := by rw [e1]; simp [append]
          have := ih st2 true f (by rw [hb]; simp; omega) ⟨r0 ++ d, by rw [hb, hdrop, hp]; rfl⟩
            (by rw [hb, hdrop]; exact hD') (Or.inl rfl)
          cases hx : Fixed.frame (c :: r) with
          | some x =>
            rw [hx] at this
            obtain ⟨st3, sc3, f3, g0, g1, g2, g3, g4, g5, g6⟩ := this
            refine ⟨st3, sc3, f3, g0, ?_, ?_, g3, g4, g5, by simpa [termOf] using g6⟩
            · rw [g1, e1]; simp [append]
            · rw [g2, e1]; simp [append]
          | none =>
            rw [hx] at this
            obtain ⟨st3, sc3, f3, g0, g1⟩ := this
            exact ⟨st3, sc3, f3, g0, by simpa [termOf] using g1⟩
        | none =>
          simp only
          have hws := (scan_none _).mp hsc
          rw [scan_at_end] at hws
          have hfn : Fixed.frame ((st.buf ++ d).drop s) = none := by
            rw [hdrop, hp]
            exact frame_none_append_ws c r0 d hc hnone hws
          have := ih { append st d with scanp := st.buf.length } false f
            (by simp [append]; omega) ⟨r0 ++ d, by simp only [append]; rw [hdrop, hp]; rfl⟩
            (by simp only [append]; rw [hdrop]; exact hD') (Or.inr (by simpa [append] using hfn))
          cases hx : Fixed.frame (c :: r) with
          | some x =>
            rw [hx] at this
            obtain ⟨st3, sc3, f3, g0, g1, g2, g3, g4, g5, g6⟩ := this
            exact ⟨st3, sc3, f3, g0, by rw [g1]; simp [append], by rw [g2]; simp [append], g3, g4, g5,
              by simpa [termOf] using g6⟩
          | none =>
            rw [hx] at this
            obtain ⟨st3, sc3, f3, g0, g1⟩ := this
            exact ⟨st3, sc3, f3, g0, by simpa [termOf] using g1⟩
      | some e =>
        simp only
        have hD' : st.buf.drop s ++ d = c :: r := by simpa [concat] using hD
        cases hsc : scan { append st d with scanp := st.buf.length } with
        | some p =>
          obtain ⟨c', st2⟩ := p
          have ⟨e1, _⟩ := scan_some _ c' st2 hsc
          simp only
          have hb : st2.buf = st.buf ++ d := by rw [e1]; simp [append]
          have hp2 : st2.buf.drop s = c :: r := by rw [hb, hdrop]; exact hD'
          rw [endSkip_delim st2 s e c r hc hp2]
          cases hx : Fixed.frame (c :: r) with
          | some x =>
            have ⟨_, h2, _⟩ := frame_stable _ [] x hx
            refine ⟨st2, [], e, rfl, ?_, ?_, by rw [hb]; simp; omega, by simp [concat, hp2], by rw [hp2]; exact h2, by simp [termOf]⟩
            · rw [e1]; simp [append]
            · rw [e1]; simp [append]
          | none => exact ⟨_, [], e, rfl, by simp [setErr, termOf]⟩
        | none =>
          have hws := (scan_none _).mp hsc
          rw [scan_at_end] at hws
          have hfn := frame_none_append_ws c r0 d hc hnone hws
          rw [← hp, hD'] at hfn
          rw [hfn]
          simp only [failWith_head]
          exact ⟨_, [], e, rfl, by simp [setErr, termOf]⟩

theorem invalid_facts : ∀ c : UInt8, Fixed.kindOf c = .invalid →
    (c == 91) = false ∧ (c == 123) = false ∧ (c == 34) = false ∧ isNumStart c = false ∧
    (c == 116 || c == 110) = false ∧ (c == 102) = false := by
  apply forall_uint8; decide +kernel

theorem skipOneFast_invalid (c : UInt8) (r0 : Bytes) (hk : Fixed.kindOf c = .invalid) (hsp : isSpace c = false) :
    skipOneFast (c :: r0) = if c == 0 then .eof else .inval := by
  have ⟨h1, h2, h3, h4, h5, h6⟩ := invalid_facts c hk
  simp only [skipOneFast, wsLen, hsp, Bool.false_eq_true, if_false, List.drop_zero, h1, h2, h3, h4, h5, h6]

/-- HEAD's `try_skip` loop at a byte that cannot start a value: a syntax error at once, no Read -/
theorem Patched.frameLoop_invalid (st : DState) (s : Nat) (sc : Script) (f : RErr) (c : UInt8) (r0 : Bytes)
    (hk : Fixed.kindOf c = .invalid) (hsp : isSpace c = false) (hp : st.buf.drop s = c :: r0) :
    ∃ sc' f', Patched.frameLoop Repairs.head st s true sc f = .failed (setErr st .syntaxError) sc' f' := by
  have hsk := skipOneFast_invalid c r0 hk hsp
  cases sc with
  | nil =>
    unfold Patched.frameLoop Patched.endSkip
    simp only [if_true, hp, hsk]
    by_cases h0 : (c == 0) = true
    · simp [h0, Patched.nulAt, hp, Repairs.head]
    · simp [h0, Repairs.head]
  | cons hd rest =>
    obtain ⟨d, oe⟩ := hd
    unfold Patched.frameLoop
    simp only [if_true, hp, hsk]
    by_cases h0 : (c == 0) = true
    · simp [h0, Patched.nulAt, hp, Repairs.head]
    · simp [h0, Repairs.head]


section generic
variable {V : Type} (dec : Bytes → Option (V × Nat))

/-- the inner decoder consumes at least one byte and never more than the frame it was given -/
def DecWithin : Prop := ∀ f v n, dec f = some (v, n) → 0 < n ∧ n ≤ f.length

/-- the rest of the stream (behind the white space) is empty or starts with `[`, `{`, `"` or with
    a byte that can start no value -/
def NoScalarHead (D : Bytes) : Prop :=
  D = [] ∨ ∃ c r, D = c :: r ∧ (isDelimStart c = true ∨ Fixed.kindOf c = .invalid)

/-- no top-level number or literal is met while the specification reads `data` (at most `n` values) -/
def NoTopScalars (term : RErr) : Nat → Bytes → Prop
  | 0, _ => True
  | n + 1, data => NoScalarHead (dropWs data) ∧
      ∀ v rest, specStep dec false term data = .val v rest → NoTopScalars term n rest

theorem closer_invalid : ∀ c : UInt8, (c == 93 || c == 125) = true → Fixed.kindOf c = .invalid := by
  apply forall_uint8; decide +kernel

/-- one `Decode` of HEAD is one step of the specification when no scalar starts here -/
theorem Patched.decode_head_noscalar (hdec : DecWithin dec) (st : DState) (sc : Script) (f : RErr)
    (h0 : st.scanp = 0) (he : st.err = none) (hns : NoScalarHead (dropWs (st.buf ++ concat sc))) :
    match specStep dec false (termOf sc f) (st.buf ++ concat sc) with
    | .done t => ∃ st' sc' f', Patched.decode dec Repairs.head st sc f = (.error t, st', sc', f')
    | .val v rest => ∃ st' sc' f', Patched.decode dec Repairs.head st sc f = (.value v, st', sc', f') ∧
        st'.scanp = 0 ∧ st'.err = none ∧ dropWs (st'.buf ++ concat sc') = dropWs rest ∧
        termOf sc' f' = termOf sc f := by
  have hp := peek_spec sc st f
  have hpend : pending st = st.buf := by simp [pending, h0]
  rw [hpend] at hp
  unfold Patched.decode specStep
  rw [he]
  simp only
  rcases hpk : peek st sc f with ⟨oc, st1, sc1, f1⟩
  rw [hpk] at hp
  cases oc with
  | none =>
    simp only at hp ⊢
    obtain ⟨h1, h2⟩ := hp
    rw [h1, h2]
    simp [specStepCore]
  | some c =>
    simp only at hp ⊢
    obtain ⟨h1, h2, ⟨r0, h3⟩, h4, _⟩ := hp
    have hD : dropWs (st.buf ++ concat sc) = c :: (r0 ++ concat sc1) := by rw [← h2, h3]; rfl
    have hsp : isSpace c = false := dropWs_head _ _ _ hD
    have hs : st1.scanp ≤ st1.buf.length := by
      have : (pending st1).length = st1.buf.length - st1.scanp := by simp [pending]
      rw [h3] at this; simp at this; omega
    rw [hD]
    simp only [specStepCore]
    rcases hns with hnil | ⟨c', r', hD', hkind⟩
    · rw [hD] at hnil; cases hnil
    · rw [hD] at hD'
      have hcc : c' = c := by simp at hD'; exact hD'.1.symm
      subst hcc
      by_cases hk : Fixed.kindOf c' = .invalid
      · simp only [hk, if_true]
        by_cases hcl : (c' == 93 || c' == 125) = true
        · simp [hcl, Repairs.head]
        · simp only [hcl, Bool.false_eq_true, if_false]
          obtain ⟨sc', f', hfl⟩ := Patched.frameLoop_invalid st1 st1.scanp sc1 f1 c' r0 hk hsp h3
          rw [hfl]
          simp [setErr]
      · have hc : isDelimStart c' = true := by
          rcases hkind with h | h
          · exact h
          · exact absurd h hk
        have hcl : (c' == 93 || c' == 125) = false := (isDelimStart_kind c' hc).2
        have hnum : (Fixed.kindOf c' == Fixed.Kind.number) = false := by rw [delimStart_kind c' hc]; rfl
        simp only [hk, if_false, hcl, Bool.false_eq_true, hnum]
        have hfl := Patched.frameLoop_delim st1.scanp c' (r0 ++ concat sc1) hc sc1 st1 true f1 hs ⟨r0, h3⟩
          (by have : st1.buf.drop st1.scanp = c' :: r0 := h3
              rw [this]; rfl) (Or.inl rfl)
        cases hx : Fixed.frame (c' :: (r0 ++ concat sc1)) with
        | none =>
          rw [hx] at hfl
          obtain ⟨st2, sc2, f2, g0, g1⟩ := hfl
          rw [g0]
          simp only [specFrame, hx]
          cases ht : termOf sc f with
          | eof => rw [h4, ht] at g1; simp [g1, truncTerm]
          | fail cc => rw [h4, ht] at g1; simp [g1, truncTerm]
        | some x =>
          rw [hx] at hfl
          obtain ⟨st2, sc2, f2, g0, g1, g2, g3, g4, g5, g6⟩ := hfl
          rw [g0]
          simp only [specFrame, hx, Nat.zero_add, Nat.add_sub_cancel]
          have htake : (st2.buf.drop st1.scanp).take x = (c' :: (r0 ++ concat sc1)).take x := by
            rw [← g4, List.take_append_of_le_length g5]
          rw [htake]
          cases hd : dec ((c' :: (r0 ++ concat sc1)).take x) with
          | none => simp
          | some p =>
            obtain ⟨v, n⟩ := p
            have ⟨hn1, hn2⟩ := hdec _ v n hd
            have hnx : n ≤ x := by
              have : ((c' :: (r0 ++ concat sc1)).take x).length ≤ x := by
                rw [List.length_take]; exact Nat.min_le_left _ _
              omega
            have hg : ¬(n = 0 ∨ x < n) := by omega
            simp only [hg, if_false]
            have hmin : min n x = n := Nat.min_eq_left hnx
            refine ⟨_, _, _, rfl, ?_⟩
            simp only [Repairs.head, if_true, hmin]
            have hfin := finish_spec { st2 with scanp := st1.scanp + n } (concat sc2)
            obtain ⟨q1, q2, q3, _⟩ := hfin
            refine ⟨q1, by rw [q2]; simp [g1, h1, he], ?_, by rw [g6, h4]⟩
            rw [q3]
            have : pending { st2 with scanp := st1.scanp + n } = (st2.buf.drop st1.scanp).drop n := by
              simp [pending, List.drop_drop]
            rw [this, ← g4, List.drop_append_of_le_length (by omega)]

theorem Patched.run_head_noscalar (hdec : DecWithin dec) (fuel : Nat) :
    ∀ (st : DState) (sc : Script) (f : RErr) (data : Bytes),
    st.scanp = 0 → st.err = none → dropWs (st.buf ++ concat sc) = dropWs data →
    NoTopScalars dec (termOf sc f) fuel data →
    run (Patched.decode dec Repairs.head) fuel st sc f = decodeAllFuel dec false (termOf sc f) fuel data := by
  induction fuel with
  | zero => intro st sc f data _ _ _ _; rfl
  | succ fuel ih =>
    intro st sc f data h0 he hd hsafe
    obtain ⟨hhead, hnext⟩ := hsafe
    unfold run decodeAllFuel
    have hcong := specStep_congr dec false (termOf sc f) _ _ hd
    have := Patched.decode_head_noscalar dec hdec st sc f h0 he (by rw [hd]; exact hhead)
    rw [hcong] at this
    cases hs : specStep dec false (termOf sc f) data with
    | done t =>
      rw [hs] at this; simp only at this
      obtain ⟨st', sc', f', heq⟩ := this
      rw [heq]
    | val v rest =>
      rw [hs] at this; simp only at this
      obtain ⟨st', sc', f', heq, q1, q2, q3, q4⟩ := this
      rw [heq]
      simp only
      rw [ih st' sc' f' rest q1 q2 q3 (by rw [q4]; exact hnext v rest hs), q4]

/-- on a stream without top-level scalars HEAD computes the specification -/
theorem Patched.outputs_head_noscalar (hdec : DecWithin dec) (sc : Script) (f : RErr)
    (h : NoTopScalars dec (termOf sc f) ((concat sc).length + 1) (concat sc)) :
    Patched.outputs dec Repairs.head sc f = decodeAllStop dec (concat sc) (termOf sc f) := by
  unfold Patched.outputs decodeAllStop
  exact Patched.run_head_noscalar dec hdec _ {} sc f (concat sc) rfl rfl (by simp) h

end generic

/-- the strict one-value decoder consumes at least one byte and stays inside its frame -/
theorem decJson_within : DecWithin decJson := by
  intro f v n h
  unfold decJson at h
  cases hp : Json.parseVal (f.length + 1) f with
  | none => rw [hp] at h; simp at h
  | some q =>
    obtain ⟨j, rest⟩ := q
    rw [hp] at h
    simp only [Option.some.injEq, Prod.mk.injEq] at h
    obtain ⟨_, hn⟩ := h
    obtain ⟨k, t, hsplit, hval⟩ := (Json.parse_sound _).1 _ _ _ hp
    obtain ⟨ch, t', ht, _⟩ := Json.val_head hval
    have : f.length = t.length + rest.length := by rw [hsplit]; simp
    have : 0 < t.length := by rw [ht]; simp
    omega

end SonicSpec.IO
