/-
  quote over memory: every native call writes the images of the input it consumed (whatever the block
  widths and the output budget), the unchecked fast path consumes everything, and the Go loop therefore
  returns `flatMap tab` of the input - `Str.quoteBody` for the single-quote table.
-/
import SonicSpec.Proofs.MemStrFind
import SonicSpec.Proofs.U8
namespace SonicSpec.Mem
open SonicSpec.Str

theorem flatMap_plain (tab : UInt8 → Bytes) (special : UInt8 → Bool) (htab : ∀ c, special c = false → tab c = [c]) :
    ∀ l : Bytes, (∀ c ∈ l, special c = false) → l.flatMap tab = l
  | [], _ => rfl
  | a :: l, h => by
    rw [List.flatMap_cons, htab a (h a List.mem_cons_self),
      flatMap_plain tab special htab l (fun c hc => h c (List.mem_cons_of_mem _ hc))]
    rfl

/-- the bytes a search copied are ordinary -/
theorem slice_run_plain (special : UInt8 → Bool) (s : Bytes) (p q : Nat) (h1 : p ≤ q) (h2 : q ≤ p + runLen special s p) :
    ∀ c ∈ slice s p q, special c = false := by
  intro c hc
  apply runLen_plain special s p c
  rw [← slice_append s p q (p + runLen special s p) h1 h2]
  exact List.mem_append_left _ hc

theorem slice_cons (s : Bytes) (p q : Nat) (hp : p < s.length) (hq : p < q) :
    slice s p q = s[p] :: slice s (p + 1) q := by
  rw [← slice_append s p (p + 1) q (by omega) (by omega), slice_succ s p hp]
  rfl

theorem quoteSpecial_tabs : ∀ c : UInt8, quoteSpecial c = false → quoteByte c = [c] ∧ quoteByteD c = [c] := by
  apply forall_uint8
  decide +kernel

/-- one budgeted native call (quote.c main loop) -/
theorem quoteRun_spec (tab : UInt8 → Bytes) (htab : ∀ c, quoteSpecial c = false → tab c = [c])
    {rd : Rd} {s : Bytes} (h : Holds rd s) (Ws : List Nat) :
    ∀ (fuel : Nat) (esc : Bool) (p nd : Nat) (out : Bytes), p ≤ s.length →
      ∃ r, quoteRun Ws tab rd s.length fuel esc p nd out = some r ∧ p ≤ r.consumed ∧ r.consumed ≤ s.length ∧
        r.out = out ++ (slice s p r.consumed).flatMap tab ∧ (r.done = true → r.consumed = s.length)
  | 0, esc, p, nd, out, hp => ⟨⟨out, p, false⟩, rfl, Nat.le_refl _, hp, by simp [slice_self], by intro hc; cases hc⟩
  | fuel + 1, esc, p, nd, out, hp => by
    simp only [quoteRun]
    by_cases hpl : p = s.length
    · simp only [hpl, if_true]
      exact ⟨_, rfl, Nat.le_refl _, Nat.le_refl _, by simp [slice_self], fun _ => rfl⟩
    · have hlt : p < s.length := by omega
      simp only [hpl, if_false]
      cases esc with
      | true =>
        simp only [if_true, h.get p hlt]
        by_cases h0 : (quoteImg tab s[p]).length = 0
        · simp only [h0, if_true]
          exact quoteRun_spec tab htab h Ws fuel false p nd out hp
        · simp only [h0, if_false]
          by_cases hgt : (quoteImg tab s[p]).length > nd
          · simp only [hgt, if_true]
            exact ⟨_, rfl, Nat.le_refl _, hp, by simp [slice_self], by intro hc; cases hc⟩
          · simp only [hgt, if_false]
            obtain ⟨r, hr, h1, h2, h3, h4⟩ := quoteRun_spec tab htab h Ws fuel true (p + 1)
              (nd - (quoteImg tab s[p]).length) (out ++ quoteImg tab s[p]) (by omega)
            refine ⟨r, hr, by omega, h2, ?_, h4⟩
            have himg : quoteImg tab s[p] = tab s[p] := by
              simp only [quoteImg] at h0 ⊢
              split
              · rfl
              · rename_i hns; simp [quoteImg, hns] at h0
            rw [h3, slice_cons s p r.consumed hlt (by omega), List.flatMap_cons, himg, List.append_assoc]
      | false =>
        simp only [Bool.false_eq_true, if_false]
        cases hb : budgetFind quoteSpecial Ws rd s.length p nd with
        | none => exact absurd hb (budgetFind_ne_none quoteSpecial h Ws p nd)
        | some x =>
          obtain ⟨q, ok⟩ := x
          obtain ⟨hq, _, _⟩ := budgetFind_spec quoteSpecial h Ws p nd q ok hp hb
          have hle := runLen_le quoteSpecial s p
          have hq1 : p ≤ q := by omega
          have hq2 : q ≤ p + runLen quoteSpecial s p := by omega
          have hq3 : q ≤ s.length := by
            have : max p s.length = s.length := by omega
            omega
          have hplain := flatMap_plain tab quoteSpecial htab (slice s p q) (slice_run_plain quoteSpecial s p q hq1 hq2)
          simp only [h.load p q hq1 hq3]
          cases ok with
          | true =>
            simp only [if_true]
            obtain ⟨r, hr, h1, h2, h3, h4⟩ := quoteRun_spec tab htab h Ws fuel true q (nd - (q - p)) (out ++ slice s p q) hq3
            refine ⟨r, hr, by omega, h2, ?_, h4⟩
            rw [h3, ← slice_append s p q r.consumed hq1 h1, List.flatMap_append, hplain, List.append_assoc]
          | false =>
            simp only [Bool.false_eq_true, if_false]
            exact ⟨_, rfl, hq1, hq3, by simp [hplain], by intro hc; cases hc⟩

/-- fuel the unchecked path needs from `(esc, p)` on -/
def unsafeNeed (s : Bytes) (esc : Bool) (p : Nat) : Nat :=
  2 * (s.length - p) + (if esc then 1 else if (s[p]?.map quoteSpecial) = some false then 0 else 2)

/-- memcchr_quote_unsafe consumes everything -/
theorem quoteUnsafe_spec (tab : UInt8 → Bytes) (htab : ∀ c, quoteSpecial c = false → tab c = [c])
    {rd : Rd} {s : Bytes} (h : Holds rd s) (Ws : List Nat) :
    ∀ (fuel : Nat) (esc : Bool) (p : Nat) (out : Bytes), p ≤ s.length → unsafeNeed s esc p ≤ fuel →
      quoteUnsafe Ws tab rd s.length fuel esc p out = some (out ++ (s.drop p).flatMap tab)
  | 0, esc, p, out, hp, hf => by
    exfalso
    cases esc with
    | true => simp [unsafeNeed] at hf
    | false =>
      by_cases hlt : p < s.length
      · simp only [unsafeNeed, Bool.false_eq_true, if_false] at hf
        split at hf <;> omega
      · have hn : s[p]? = none := by simp; omega
        simp [unsafeNeed, hn] at hf
  | fuel + 1, esc, p, out, hp, hf => by
    simp only [quoteUnsafe]
    by_cases hpl : p = s.length
    · simp [hpl]
    · have hlt : p < s.length := by omega
      simp only [hpl, if_false]
      cases esc with
      | true =>
        simp only [if_true, h.get p hlt]
        simp only [unsafeNeed, if_true] at hf
        cases hsp : quoteSpecial s[p] with
        | true =>
          simp only [if_true]
          rw [quoteUnsafe_spec tab htab h Ws fuel true (p + 1) (out ++ tab s[p]) (by omega)
            (by simp only [unsafeNeed, if_true]; omega)]
          rw [List.drop_eq_getElem_cons hlt, List.flatMap_cons, List.append_assoc]
        | false =>
          simp only [Bool.false_eq_true, if_false]
          exact quoteUnsafe_spec tab htab h Ws fuel false p out hp (by
            simp only [unsafeNeed, Bool.false_eq_true, if_false, List.getElem?_eq_getElem hlt, Option.map_some, hsp,
              if_true]
            omega)
      | false =>
        simp only [Bool.false_eq_true, if_false, h.find quoteSpecial Ws p]
        have hle := runLen_le quoteSpecial s p
        have hq3 : p + runLen quoteSpecial s p ≤ s.length := by
          have : max p s.length = s.length := by omega
          omega
        have hplain := flatMap_plain tab quoteSpecial htab _ (runLen_plain quoteSpecial s p)
        have hload := h.load p (p + runLen quoteSpecial s p) (by omega) hq3
        rw [Nat.add_sub_cancel_left] at hload
        simp only [Nat.add_sub_cancel_left, hload]
        have hneed : unsafeNeed s true (p + runLen quoteSpecial s p) ≤ fuel := by
          simp only [unsafeNeed, Bool.false_eq_true, if_false, if_true, List.getElem?_eq_getElem hlt, Option.map_some] at hf ⊢
          cases hsp : quoteSpecial s[p] with
          | true => simp only [hsp] at hf; simp at hf; omega
          | false =>
            have : 1 ≤ runLen quoteSpecial s p := by
              rw [runLen_at quoteSpecial s p hlt, hsp]; simp
            simp only [hsp, if_true] at hf
            omega
        rw [quoteUnsafe_spec tab htab h Ws fuel true _ _ hq3 hneed,
          drop_eq_slice_append s p (p + runLen quoteSpecial s p) (by omega), List.flatMap_append, hplain,
          List.append_assoc]

/-- `quote(sp, nb, dp, &dn, flags)`: what one native call returns -/
theorem quoteNative_spec (w : StrWidths) (tab : UInt8 → Bytes) (htab : ∀ c, quoteSpecial c = false → tab c = [c])
    {rd : Rd} {s : Bytes} (h : Holds rd s) (p room : Nat) (hp : p ≤ s.length) :
    ∃ r, quoteNative w tab rd s.length p room = some r ∧ p ≤ r.consumed ∧ r.consumed ≤ s.length ∧
      r.out = (slice s p r.consumed).flatMap tab ∧ (r.done = true → r.consumed = s.length) ∧
      (room ≥ (s.length - p) * 8 → r.done = true) := by
  simp only [quoteNative]
  by_cases hroom : room ≥ (s.length - p) * 8
  · simp only [hroom, if_true]
    rw [quoteUnsafe_spec tab htab h w.fast _ false p [] hp (by simp only [unsafeNeed, Bool.false_eq_true, if_false]; split <;> omega)]
    refine ⟨_, rfl, hp, Nat.le_refl _, ?_, fun _ => rfl, fun _ => rfl⟩
    simp [slice_drop s p s.length (Nat.le_refl _)]
  · simp only [hroom, if_false]
    obtain ⟨r, hr, h1, h2, h3, h4⟩ := quoteRun_spec tab htab h w.find (2 * (s.length - p) + 2) false p room [] hp
    exact ⟨r, hr, h1, h2, by simpa using h3, h4, by intro hc; first | exact hc.elim | exact absurd hc hroom⟩

/-- spec.go:76: whatever room the successive calls get, the loop returns the images of the whole input -/
theorem quoteGo_spec (w : StrWidths) (tab : UInt8 → Bytes) (htab : ∀ c, quoteSpecial c = false → tab c = [c])
    {rd : Rd} {s : Bytes} (h : Holds rd s) :
    ∀ (rooms : List Nat) (p : Nat) (buf : Bytes), p ≤ s.length →
      quoteGo w tab rd s.length rooms p buf = some (buf ++ (s.drop p).flatMap tab)
  | [], p, buf, hp => by
    obtain ⟨r, hr, h1, h2, h3, h4, h5⟩ := quoteNative_spec w tab htab h p ((s.length - p) * 8) hp
    simp only [quoteGo, hr, Option.map_some]
    have := h4 (h5 (Nat.le_refl _))
    rw [h3, this, slice_drop s p s.length (Nat.le_refl _)]
  | room :: rooms, p, buf, hp => by
    obtain ⟨r, hr, h1, h2, h3, h4, _⟩ := quoteNative_spec w tab htab h p room hp
    simp only [quoteGo, hr]
    by_cases hd : r.done = true
    · simp only [hd, if_true]
      rw [h3, h4 hd, slice_drop s p s.length (Nat.le_refl _)]
    · have hd' : r.done = false := by simpa using hd
      simp only [hd', Bool.false_eq_true, if_false]
      rw [quoteGo_spec w tab htab h rooms r.consumed (buf ++ r.out) h2, h3,
        drop_eq_slice_append s p r.consumed h1, List.flatMap_append, List.append_assoc]

end SonicSpec.Mem
