/-
  Helper lemmas about the leaves of the Marshal specification: decimal integers and float
  literals are JSON numbers (`NumShape`), quoted strings / base64 / number text are string bodies
  (`StrOK`).
-/
import SonicSpec.Model.Enc
import SonicSpec.Proofs.EncJsonTree
import SonicSpec.Proofs.U8
namespace SonicSpec.Enc
open SonicSpec SonicSpec.Json

/-! ### bytes -/

theorem NumChar.plain {c : UInt8} (h : NumChar c) : Plain c := by
  rcases h with h | h | h | h | h | h
  · rw [isDigit_iff] at h
    refine ⟨?_, ?_, ?_⟩
    · intro hh
      have := UInt8.lt_iff_toNat_lt.mp hh
      have := UInt8.le_iff_toNat_le.mp h.1
      simp at *; omega
    · intro hh; subst hh; exact absurd h (by decide)
    · intro hh; subst hh; exact absurd h (by decide)
  all_goals (subst h; exact ⟨by decide, by decide, by decide⟩)

theorem digitByte {k : Nat} (h : k < 10) :
    isDigit (UInt8.ofNat (48 + k)) = true ∧ (UInt8.ofNat (48 + k) = 48 → k = 0) := by
  have : k = 0 ∨ k = 1 ∨ k = 2 ∨ k = 3 ∨ k = 4 ∨ k = 5 ∨ k = 6 ∨ k = 7 ∨ k = 8 ∨ k = 9 := by omega
  rcases this with h | h | h | h | h | h | h | h | h | h <;> subst h <;> decide

/-! ### decimal integers -/

/-- nonempty digit string without a superfluous leading zero -/
def DigitsLit (ds : Bytes) : Prop :=
  AllDigits ds ∧ ∃ c t, ds = c :: t ∧ (c = 48 → t = [])

theorem natDecAux_digits : ∀ (f n : Nat) (acc : Bytes), AllDigits acc → AllDigits (natDecAux f n acc) := by
  intro f
  induction f with
  | zero => intro n acc h; simpa [natDecAux] using h
  | succ f ih =>
    intro n acc h
    have hd := (digitByte (Nat.mod_lt n (by decide : 10 > 0))).1
    have h' : AllDigits (UInt8.ofNat (48 + n % 10) :: acc) := by
      intro c hc
      rcases List.mem_cons.mp hc with hc | hc
      · rw [hc]; exact hd
      · exact h c hc
    simp only [natDecAux]
    split
    · exact h'
    · exact ih _ _ h'

theorem natDecAux_head : ∀ (f n : Nat) (acc : Bytes), 1 ≤ n → n < 10 ^ f →
    ∃ c t, natDecAux f n acc = c :: t ∧ c ≠ 48 := by
  intro f
  induction f with
  | zero => intro n acc h1 h2; simp at h2; omega
  | succ f ih =>
    intro n acc h1 h2
    simp only [natDecAux]
    by_cases hq : n / 10 = 0
    · have hn : n < 10 := by omega
      have hm : n % 10 = n := Nat.mod_eq_of_lt hn
      simp only [hq, beq_self_eq_true, if_true]
      refine ⟨_, _, rfl, ?_⟩
      intro hh
      have := (digitByte (Nat.mod_lt n (by decide : 10 > 0))).2 hh
      omega
    · have : (n / 10 == 0) = false := by simpa using hq
      simp only [this]
      apply ih
      · omega
      · have : 10 ^ (f + 1) = 10 ^ f * 10 := Nat.pow_succ 10 f
        omega

theorem natDec_lit (n : Nat) : DigitsLit (natDec n) := by
  refine ⟨natDecAux_digits _ _ _ (by intro c hc; simp at hc), ?_⟩
  by_cases h0 : n = 0
  · subst h0; exact ⟨48, [], by decide, fun _ => rfl⟩
  · have hlt : n < 10 ^ (n + 1) := by
      have := @Nat.lt_pow_self (n + 1) 10 (by decide)
      omega
    obtain ⟨c, t, h1, h2⟩ := natDecAux_head (n + 1) n [] (by omega) hlt
    exact ⟨c, t, h1, fun hh => absurd hh h2⟩

theorem DigitsLit.intPart {ds : Bytes} (h : DigitsLit ds) : IntPart ds := by
  obtain ⟨hall, c, t, hc, hz⟩ := h
  subst hc
  by_cases h48 : c = 48
  · left; rw [hz h48, h48]
  · right
    exact ⟨c, t, rfl, hall c (by simp), h48, fun x hx => hall x (by simp [hx])⟩

/-- number literal without sign -/
def NumShape0 (l : Bytes) : Prop :=
  ∃ ip fp ep, l = ip ++ fp ++ ep ∧ IntPart ip ∧ FracPart fp ∧ ExpPart ep

theorem NumShape0.pos {l : Bytes} (h : NumShape0 l) : NumShape l := by
  obtain ⟨ip, fp, ep, hl, a, b, c⟩ := h
  exact ⟨[], ip, fp, ep, by simpa using hl, Or.inl rfl, a, b, c⟩

theorem NumShape0.neg {l : Bytes} (h : NumShape0 l) : NumShape (45 :: l) := by
  obtain ⟨ip, fp, ep, hl, a, b, c⟩ := h
  exact ⟨[45], ip, fp, ep, by simp [hl], Or.inr rfl, a, b, c⟩

theorem natDec_shape0 (n : Nat) : NumShape0 (natDec n) :=
  ⟨natDec n, [], [], by simp, (natDec_lit n).intPart, Or.inl rfl, Or.inl rfl⟩

theorem natDec_shape (n : Nat) : NumShape (natDec n) := (natDec_shape0 n).pos

theorem intDec_shape (i : Int) : NumShape (intDec i) := by
  unfold intDec
  split
  · exact (natDec_shape0 _).neg
  · exact natDec_shape _

theorem validNumber_shape {s : Bytes} (h : validNumber s = true) : NumShape s := by
  unfold validNumber at h
  split at h
  · rename_i l heq
    obtain ⟨h1, h2⟩ := scanNumber_sound heq
    simp at h2
    rw [h2]; exact h1
  · simp at h

theorem numberLit_shape {s l : Bytes} (h : numberLit s = .ok l) : NumShape l := by
  unfold numberLit at h
  split at h
  · injection h with h; subst h
    exact ⟨[], [48], [], [], rfl, Or.inl rfl, Or.inl rfl, Or.inl rfl, Or.inl rfl⟩
  · split at h
    · rename_i hv
      injection h with h; subst h
      exact validNumber_shape hv
    · cases h


/-! ### string bodies -/

/-- decidable description of an output chunk of the string writer: one plain byte, a two-byte escape,
    or a `\uXXXX` escape -/
def chunkShape (ch : Bytes) : Bool :=
  match ch with
  | [c] => !(c < 32) && c != 92 && c != 34
  | [92, e] => e == 34 || e == 92 || e == 47 || e == 98 || e == 102 || e == 110 || e == 114 || e == 116
  | [92, 117, a, b, c, d] => isHex a && isHex b && isHex c && isHex d
  | _ => false

theorem chunk_ok {ch : Bytes} (h : chunkShape ch = true) {tail : Bytes} (ht : StrOK tail) : StrOK (ch ++ tail) := by
  unfold chunkShape at h
  split at h
  · rename_i c
    simp only [Bool.and_eq_true, Bool.not_eq_true', decide_eq_false_iff_not, bne_iff_ne, ne_eq] at h
    exact StrOK_plain ⟨h.1.1, h.1.2, h.2⟩ ht
  · exact StrOK_esc2 h ht
  · exact StrOK_u h ht
  · cases h

theorem escAscii_chunk : ∀ c : UInt8, c < 128 → ∀ html : Bool, chunkShape (escAscii html c) = true := by
  apply forall_uint8
  decide +kernel

theorem highByte_chunk : ∀ c : UInt8, ¬ c < 128 → chunkShape [c] = true := by
  apply forall_uint8
  decide +kernel

theorem highByte_plain {c : UInt8} (h : ¬ c < 128) : Plain c := by
  have := highByte_chunk c h
  simp only [chunkShape, Bool.and_eq_true, Bool.not_eq_true', decide_eq_false_iff_not, bne_iff_ne, ne_eq] at this
  exact ⟨this.1.1, this.1.2, this.2⟩

/-- what `pieces` can produce: ASCII bytes below 128, multi-byte sequences and rejected bytes at or above 128 -/
def PieceOK : Piece → Prop
  | .ascii c => c < 128
  | .multi bs => ∀ b ∈ bs, ¬ b < 128
  | .bad c => ¬ c < 128

theorem isCont_high {c : UInt8} (h : isCont c = true) : ¬ c < 128 := by
  revert c
  apply forall_uint8
  decide +kernel

theorem seqLen_zero_high {c : UInt8} {r : Bytes} (h : seqLen (c :: r) = 0) : ¬ c < 128 := by
  intro hc
  simp [seqLen, hc] at h

theorem seqLen_one_low {c : UInt8} {r : Bytes} (h : seqLen (c :: r) = 1) : c < 128 := by
  by_cases hc : c < 128
  · exact hc
  · exfalso
    unfold seqLen at h
    simp only [hc, if_false] at h
    repeat' split at h
    all_goals simp at h

theorem seqLen_eq2 {c : UInt8} {r : Bytes} (h : seqLen (c :: r) = 2) : ∃ c1 t, r = c1 :: t ∧ isCont c1 = true := by
  unfold seqLen at h
  repeat' split at h
  all_goals simp_all
  all_goals (split at h <;> simp at h)

theorem seqLen_eq3 {c : UInt8} {r : Bytes} (h : seqLen (c :: r) = 3) :
    ∃ c1 c2 t, r = c1 :: c2 :: t ∧ (128 : UInt8) ≤ c1 ∧ isCont c2 = true := by
  unfold seqLen at h
  repeat' split at h
  all_goals simp_all
  all_goals first
    | (split at h <;> simp at h; done)
    | (refine ⟨_, _, ⟨rfl, rfl⟩, ?_, h.2.2⟩; exact UInt8.le_trans (by decide) h.1)

theorem seqLen_eq4 {c : UInt8} {r : Bytes} (h : seqLen (c :: r) = 4) :
    ∃ c1 c2 c3 t, r = c1 :: c2 :: c3 :: t ∧ (128 : UInt8) ≤ c1 ∧ isCont c2 = true ∧ isCont c3 = true := by
  unfold seqLen at h
  repeat' split at h
  all_goals simp_all
  all_goals first
    | (split at h <;> simp at h; done)
    | (refine ⟨_, _, _, ⟨rfl, rfl, rfl⟩, ?_, h.2.2.1, h.2.2.2⟩; exact UInt8.le_trans (by decide) h.1)

theorem seqLen_le4 (s : Bytes) : seqLen s ≤ 4 := by
  unfold seqLen
  repeat' split
  all_goals first
    | omega
    | (simp only []; split <;> omega)

theorem ge128_high {c : UInt8} (h : (128 : UInt8) ≤ c) : ¬ c < 128 := UInt8.not_lt.mpr h

theorem seqLen_multi_high {c : UInt8} {r : Bytes} (h2 : 2 ≤ seqLen (c :: r)) :
    ∀ b ∈ (c :: r).take (seqLen (c :: r)), ¬ b < 128 := by
  have hc : ¬ c < 128 := by
    intro hc
    simp [seqLen, hc] at h2
  have h4 := seqLen_le4 (c :: r)
  have : seqLen (c :: r) = 2 ∨ seqLen (c :: r) = 3 ∨ seqLen (c :: r) = 4 := by omega
  rcases this with h | h | h
  · obtain ⟨c1, t, hr, h1⟩ := seqLen_eq2 h
    rw [h, hr]
    intro b hb
    simp at hb
    rcases hb with hb | hb
    · subst hb; exact hc
    · subst hb; exact isCont_high h1
  · obtain ⟨c1, c2, t, hr, h1, h2'⟩ := seqLen_eq3 h
    rw [h, hr]
    intro b hb
    simp at hb
    rcases hb with hb | hb | hb
    · subst hb; exact hc
    · subst hb; exact ge128_high h1
    · subst hb; exact isCont_high h2'
  · obtain ⟨c1, c2, c3, t, hr, h1, h2', h3⟩ := seqLen_eq4 h
    rw [h, hr]
    intro b hb
    simp at hb
    rcases hb with hb | hb | hb | hb
    · subst hb; exact hc
    · subst hb; exact ge128_high h1
    · subst hb; exact isCont_high h2'
    · subst hb; exact isCont_high h3

theorem piecesF_ok : ∀ (f : Nat) (s : Bytes), ∀ p ∈ piecesF f s, PieceOK p := by
  intro f
  induction f with
  | zero => intro s p hp; simp [piecesF] at hp
  | succ f ih =>
    intro s p hp
    cases s with
    | nil => simp [piecesF] at hp
    | cons c r =>
      simp only [piecesF] at hp
      split at hp
      · rename_i h0
        rcases List.mem_cons.mp hp with h | h
        · subst h; exact seqLen_zero_high (by simpa using h0)
        · exact ih _ _ h
      · split at hp
        · rename_i h1
          rcases List.mem_cons.mp hp with h | h
          · subst h; exact seqLen_one_low (by simpa using h1)
          · exact ih _ _ h
        · rename_i h0 h1
          rcases List.mem_cons.mp hp with h | h
          · subst h
            have : 2 ≤ seqLen (c :: r) := by
              have a : seqLen (c :: r) ≠ 0 := by simpa using h0
              have b : seqLen (c :: r) ≠ 1 := by simpa using h1
              omega
            exact seqLen_multi_high this
          · exact ih _ _ h

theorem pieces_ok (s : Bytes) : ∀ p ∈ pieces s, PieceOK p := piecesF_ok _ _

theorem quotePiece_ok (html fix : Bool) {p : Piece} (hp : PieceOK p) {tail : Bytes} (ht : StrOK tail) :
    StrOK (quotePiece html fix p ++ tail) := by
  cases p with
  | ascii c => exact chunk_ok (escAscii_chunk c hp html) ht
  | multi bs =>
    simp only [quotePiece]
    split
    · exact chunk_ok (by decide) ht
    · split
      · exact chunk_ok (by decide) ht
      · exact StrOK_append_plain (fun c hc => highByte_plain (hp c hc)) ht
  | bad c =>
    simp only [quotePiece]
    split
    · exact chunk_ok (by decide) ht
    · exact chunk_ok (highByte_chunk c hp) ht

theorem flatMap_quote_ok (html fix : Bool) : ∀ (ps : List Piece), (∀ p ∈ ps, PieceOK p) →
    StrOK (ps.flatMap (quotePiece html fix)) := by
  intro ps
  induction ps with
  | nil => intro _; exact StrOK_nil
  | cons p r ih =>
    intro h
    simp only [List.flatMap_cons]
    exact quotePiece_ok html fix (h p (by simp)) (ih (fun q hq => h q (by simp [hq])))

/-- every string body the writer produces is a string body the strict scanner reads back -/
theorem quoteBody_ok (html fix : Bool) (s : Bytes) : StrOK (quoteBody html fix s) :=
  flatMap_quote_ok html fix _ (pieces_ok s)

theorem plain_ok {b : Bytes} (h : ∀ c ∈ b, Plain c) : StrOK b := by
  have := StrOK_append_plain h StrOK_nil
  simpa using this

theorem numShape_strOK {l : Bytes} (h : NumShape l) : StrOK l :=
  plain_ok fun c hc => (h.chars c hc).plain

theorem b64c_plain (n : Nat) : Plain (b64c n) := by
  unfold b64c
  have key : ∀ k : Nat, 43 ≤ k → k ≤ 122 → k ≠ 92 → Plain (UInt8.ofNat k) := by
    intro k h1 h2 h3
    refine ⟨?_, ?_, ?_⟩
    · intro hh
      have := UInt8.lt_iff_toNat_lt.mp hh
      rw [UInt8.toNat_ofNat'] at this
      simp at this; omega
    · intro hh
      have := congrArg UInt8.toNat hh
      rw [UInt8.toNat_ofNat'] at this
      simp at this; omega
    · intro hh
      have := congrArg UInt8.toNat hh
      rw [UInt8.toNat_ofNat'] at this
      simp at this; omega
  split
  · exact key _ (by omega) (by omega) (by omega)
  · split
    · exact key _ (by omega) (by omega) (by omega)
    · split
      · exact key _ (by omega) (by omega) (by omega)
      · split
        · exact ⟨by decide, by decide, by decide⟩
        · exact ⟨by decide, by decide, by decide⟩

theorem b64_plain : ∀ (s : Bytes), ∀ c ∈ b64 s, Plain c := by
  intro s
  induction s using b64.induct with
  | case1 a b c r ih =>
    intro x hx
    simp only [b64, List.mem_cons] at hx
    rcases hx with hx | hx | hx | hx | hx
    · subst hx; exact b64c_plain _
    · subst hx; exact b64c_plain _
    · subst hx; exact b64c_plain _
    · subst hx; exact b64c_plain _
    · exact ih x hx
  | case2 a b =>
    intro x hx
    simp only [b64, List.mem_cons, List.not_mem_nil, or_false] at hx
    rcases hx with hx | hx | hx | hx
    · subst hx; exact b64c_plain _
    · subst hx; exact b64c_plain _
    · subst hx; exact b64c_plain _
    · subst hx; exact ⟨by decide, by decide, by decide⟩
  | case3 a =>
    intro x hx
    simp only [b64, List.mem_cons, List.not_mem_nil, or_false] at hx
    rcases hx with hx | hx | hx | hx
    · subst hx; exact b64c_plain _
    · subst hx; exact b64c_plain _
    · subst hx; exact ⟨by decide, by decide, by decide⟩
    · subst hx; exact ⟨by decide, by decide, by decide⟩
  | case4 => intro x hx; simp [b64] at hx

theorem b64_ok (s : Bytes) : StrOK (b64 s) := plain_ok (b64_plain s)

end SonicSpec.Enc
