/-
  Generic lemmas about partial memories, block loads, the scalar loop and `Scan.run`
  (helper lemmas for Props/C05.lean and Props/C13.lean).
-/
import SonicSpec.Model.Mem
namespace SonicSpec.Mem

/-! ### block loads -/

theorem loadW_congr {rd rd' : Rd} : ∀ (W off : Nat),
    (∀ i, off ≤ i → i < off + W → rd i = rd' i) → loadW rd W off = loadW rd' W off
  | 0, _, _ => rfl
  | W + 1, off, h => by
    have h0 : rd off = rd' off := h off (Nat.le_refl _) (by omega)
    have ih := loadW_congr (rd := rd) (rd' := rd') W (off + 1) (fun i h1 h2 => h i (by omega) (by omega))
    simp only [loadW, h0, ih]

theorem loadW_ne_none {rd : Rd} : ∀ (W off : Nat),
    (∀ i, off ≤ i → i < off + W → rd i ≠ none) → loadW rd W off ≠ none
  | 0, _, _ => by simp [loadW]
  | W + 1, off, h => by
    have h0 := h off (Nat.le_refl _) (by omega)
    have ih := loadW_ne_none (rd := rd) W (off + 1) (fun i h1 h2 => h i (by omega) (by omega))
    simp only [loadW]
    cases hb : rd off with
    | none => exact absurd hb h0
    | some b =>
      cases hr : loadW rd W (off + 1) with
      | none => exact absurd hr ih
      | some r => simp

theorem loadW_length {rd : Rd} : ∀ (W off : Nat) (bs : Bytes), loadW rd W off = some bs → bs.length = W
  | 0, _, bs, h => by simp [loadW] at h; simp [← h]
  | W + 1, off, bs, h => by
    simp only [loadW] at h
    cases hb : rd off with
    | none => simp [hb] at h
    | some b =>
      cases hr : loadW rd W (off + 1) with
      | none => simp [hb, hr] at h
      | some r =>
        simp [hb, hr] at h
        have := loadW_length W (off + 1) r hr
        simp [← h, this]

/-- the head of a successful load -/
theorem loadW_succ_some {rd : Rd} {W off : Nat} {bs : Bytes} (h : loadW rd (W + 1) off = some bs) :
    ∃ b r, rd off = some b ∧ loadW rd W (off + 1) = some r ∧ bs = b :: r := by
  simp only [loadW] at h
  cases hb : rd off with
  | none => simp [hb] at h
  | some b =>
    cases hr : loadW rd W (off + 1) with
    | none => simp [hb, hr] at h
    | some r =>
      simp [hb, hr] at h
      exact ⟨b, r, rfl, rfl, h.symm⟩

/-- one load of `a + b` bytes = a load of `a` bytes followed by a load of `b` bytes
    (one 32-byte AVX2 load = two 16-byte SSE loads, as far as faults and content go) -/
theorem loadW_add {rd : Rd} : ∀ (a b off : Nat),
    loadW rd (a + b) off =
      (match loadW rd a off, loadW rd b (off + a) with
       | some x, some y => some (x ++ y)
       | _, _ => none)
  | 0, b, off => by
    simp only [Nat.zero_add, loadW, Nat.add_zero]
    cases loadW rd b off <;> simp
  | a + 1, b, off => by
    have ih := loadW_add (rd := rd) a b (off + 1)
    have e : a + 1 + b = (a + b) + 1 := by omega
    rw [e]
    simp only [loadW, ih]
    have e2 : off + 1 + a = off + (a + 1) := by omega
    rw [e2]
    cases rd off <;> cases loadW rd a (off + 1) <;> cases loadW rd b (off + (a + 1)) <;> simp

/-- a list seen as a memory: loading inside the list gives the slice -/
theorem loadW_ofList (s : Bytes) : ∀ (W off : Nat), off + W ≤ s.length →
    loadW (ofList s) W off = some ((s.drop off).take W)
  | 0, _, _ => by simp [loadW]
  | W + 1, off, h => by
    have ih := loadW_ofList s W (off + 1) (by omega)
    have hlt : off < s.length := by omega
    simp only [loadW, ih, ofList, List.getElem?_eq_getElem hlt]
    rw [List.drop_eq_getElem_cons hlt, List.take_succ_cons]

/-! ### the scalar loop -/

section scalar
variable {σ ρ : Type} (step : σ → Nat → UInt8 → Step σ ρ) (eof : σ → Nat → ρ)

/-- the scalar loop only looks at `buf[off .. len)` -/
theorem scalarLoop_congr {rd rd' : Rd} (len : Nat) (h : ∀ i, i < len → rd i = rd' i) (st : σ) (off : Nat) :
    scalarLoop step eof rd len st off = scalarLoop step eof rd' len st off := by
  fun_induction scalarLoop step eof rd len st off with
  | case1 st off hlt hb =>
    conv => rhs; rw [scalarLoop, dif_pos hlt, ← h off hlt, hb]
  | case2 st off hlt b hb r hs =>
    conv => rhs; rw [scalarLoop, dif_pos hlt, ← h off hlt, hb]; simp only [hs]
  | case3 st off hlt b hb st' hs ih =>
    conv => rhs; rw [scalarLoop, dif_pos hlt, ← h off hlt, hb]; simp only [hs]
    exact ih
  | case4 st off hlt =>
    conv => rhs; rw [scalarLoop, dif_neg hlt]

/-- every load of the scalar loop is inside the input: it cannot fault on a mapped input -/
theorem scalarLoop_ne_none {rd : Rd} (len : Nat) (h : ∀ i, i < len → rd i ≠ none) (st : σ) (off : Nat) :
    scalarLoop step eof rd len st off ≠ none := by
  fun_induction scalarLoop step eof rd len st off with
  | case1 st off hlt hb => exact absurd hb (h off hlt)
  | case2 st off hlt b hb r hs => simp
  | case3 st off hlt b hb st' hs ih => exact ih
  | case4 st off hlt => simp

/-- running the scalar loop across a block that a vector load would have fetched -/
theorem scalarLoop_block {rd : Rd} (len : Nat) : ∀ (bs : Bytes) (st : σ) (off : Nat),
    off + bs.length ≤ len → loadW rd bs.length off = some bs →
    scalarLoop step eof rd len st off =
      (match foldSteps step st off bs with
       | .done r => some r
       | .cont st' => scalarLoop step eof rd len st' (off + bs.length))
  | [], st, off, _, _ => by simp [foldSteps]
  | b :: bs, st, off, hle, hl => by
    simp only [List.length_cons] at hle hl
    obtain ⟨b', r, hb, hr, hbs⟩ := loadW_succ_some hl
    cases hbs
    have hlt : off < len := by omega
    rw [scalarLoop, dif_pos hlt, hb]
    simp only [foldSteps]
    cases hs : step st off b with
    | done r => simp
    | cont st' =>
      simp only
      rw [scalarLoop_block len bs st' (off + 1) (by omega) hr]
      have e : off + 1 + bs.length = off + (bs.length + 1) := by omega
      rw [e]
      rfl

/-- the scalar code over two consecutive blocks -/
theorem foldSteps_append : ∀ (xs ys : Bytes) (st : σ) (off : Nat),
    foldSteps step st off (xs ++ ys) =
      (match foldSteps step st off xs with
       | .done r => .done r
       | .cont st' => foldSteps step st' (off + xs.length) ys)
  | [], ys, st, off => by simp [foldSteps]
  | x :: xs, ys, st, off => by
    simp only [List.cons_append, foldSteps]
    cases step st off x with
    | done r => rfl
    | cont st' =>
      simp only
      rw [foldSteps_append xs ys st' (off + 1)]
      have e : off + 1 + xs.length = off + (xs.length + 1) := by omega
      simp only [List.length_cons, e]

end scalar

/-! ### `Scan.run` -/

section run
variable {σ ρ : Type} (S : Scan σ ρ)

/-- the result of the block rounds depends on `buf[0 .. len)` only, if that holds for the scalar code -/
theorem run_congr {rd rd' : Rd} (len : Nat) (h : ∀ i, i < len → rd i = rd' i)
    (htail : ∀ st off, S.tail rd len st off = S.tail rd' len st off) :
    ∀ (Ws : List Nat) (st : σ) (off : Nat), S.run rd len Ws st off = S.run rd' len Ws st off := by
  intro Ws st off
  fun_induction Scan.run S rd len Ws st off with
  | case1 st off => conv => rhs; rw [Scan.run]
                    exact htail st off
  | case2 W Ws st off hc hl =>
    have e : loadW rd' W off = none := by
      rw [← loadW_congr W off (fun i h1 h2 => h i (by omega))]; exact hl
    conv => rhs; rw [Scan.run, dif_pos hc, e]
  | case3 W Ws st off hc bs hl r hb =>
    have e : loadW rd' W off = some bs := by
      rw [← loadW_congr W off (fun i h1 h2 => h i (by omega))]; exact hl
    conv => rhs; rw [Scan.run, dif_pos hc, e]; simp only [hb]
  | case4 W Ws st off hc bs hl st' hb ih =>
    have e : loadW rd' W off = some bs := by
      rw [← loadW_congr W off (fun i h1 h2 => h i (by omega))]; exact hl
    conv => rhs; rw [Scan.run, dif_pos hc, e]; simp only [hb]
    exact ih
  | case5 W Ws st off hc ih =>
    conv => rhs; rw [Scan.run, dif_neg hc]
    exact ih

/-- no block load leaves the input: on a mapped input the rounds cannot fault, if the scalar code cannot -/
theorem run_ne_none {rd : Rd} (len : Nat) (h : ∀ i, i < len → rd i ≠ none)
    (htail : ∀ st off, S.tail rd len st off ≠ none) :
    ∀ (Ws : List Nat) (st : σ) (off : Nat), S.run rd len Ws st off ≠ none := by
  intro Ws st off
  fun_induction Scan.run S rd len Ws st off with
  | case1 st off => exact htail st off
  | case2 W Ws st off hc hl =>
    exact absurd hl (loadW_ne_none W off (fun i h1 h2 => h i (by omega)))
  | case3 W Ws st off hc bs hl r hb => simp
  | case4 W Ws st off hc bs hl st' hb ih => exact ih
  | case5 W Ws st off hc ih => exact ih

/-- block widths are irrelevant: if the vector code on a block does what the scalar code does on the
    same bytes (for the states that can occur, `Inv`; as far as the observation `f` of the result goes),
    every list of widths gives the scalar answer -/
theorem run_eq_tail_proj {τ : Type} (f : ρ → τ) {rd : Rd} (len : Nat) (Inv : σ → Prop)
    (hinv : ∀ st off bs st', Inv st → S.blk st off bs = .cont st' → Inv st')
    (hblk : ∀ st off bs, Inv st → off + bs.length ≤ len → loadW rd bs.length off = some bs →
      (S.tail rd len st off).map f =
        (match S.blk st off bs with
         | .done r => some (f r)
         | .cont st' => (S.tail rd len st' (off + bs.length)).map f)) :
    ∀ (Ws : List Nat) (st : σ) (off : Nat), Inv st → (∀ i, i < len → rd i ≠ none) →
      (S.run rd len Ws st off).map f = (S.tail rd len st off).map f := by
  intro Ws st off
  fun_induction Scan.run S rd len Ws st off with
  | case1 st off => intros; rfl
  | case2 W Ws st off hc hl =>
    intro _ hm
    exact absurd hl (loadW_ne_none W off (fun i h1 h2 => hm i (by omega)))
  | case3 W Ws st off hc bs hl r hb =>
    intro hi _
    have hlen := loadW_length W off bs hl
    have := hblk st off bs hi (by omega) (by rw [hlen]; exact hl)
    rw [this, hb]
    rfl
  | case4 W Ws st off hc bs hl st' hb ih =>
    intro hi hm
    have hlen := loadW_length W off bs hl
    have := hblk st off bs hi (by omega) (by rw [hlen]; exact hl)
    rw [this, hb]
    simp only
    rw [hlen]
    exact ih (hinv st off bs st' hi hb) hm
  | case5 W Ws st off hc ih => exact ih

theorem run_eq_tail {rd : Rd} (len : Nat) (Inv : σ → Prop)
    (hinv : ∀ st off bs st', Inv st → S.blk st off bs = .cont st' → Inv st')
    (hblk : ∀ st off bs, Inv st → off + bs.length ≤ len → loadW rd bs.length off = some bs →
      S.tail rd len st off =
        (match S.blk st off bs with
         | .done r => some r
         | .cont st' => S.tail rd len st' (off + bs.length))) :
    ∀ (Ws : List Nat) (st : σ) (off : Nat), Inv st → (∀ i, i < len → rd i ≠ none) →
      S.run rd len Ws st off = S.tail rd len st off := by
  intro Ws st off hi hm
  have h := run_eq_tail_proj S (fun r => r) len Inv hinv
    (by
      intro st off bs h1 h2 h3
      rw [hblk st off bs h1 h2 h3]
      cases S.blk st off bs <;> simp)
    Ws st off hi hm
  simpa using h

/-- a scanner whose scalar code is a `scalarLoop` and whose vector code is that loop run over the block -/
theorem run_eq_scalar {step : σ → Nat → UInt8 → Step σ ρ} {eof : σ → Nat → ρ}
    (htail : S.tail = scalarLoop step eof)
    (hblk : ∀ st off bs, S.blk st off bs = foldSteps step st off bs)
    {rd : Rd} (len : Nat) (Ws : List Nat) (st : σ) (off : Nat) (hm : ∀ i, i < len → rd i ≠ none) :
    S.run rd len Ws st off = scalarLoop step eof rd len st off := by
  have := run_eq_tail S (rd := rd) len (fun _ => True) (fun _ _ _ _ _ _ => trivial)
    (by
      intro st off bs _ h2 h3
      rw [htail, scalarLoop_block step eof len bs st off h2 h3, hblk])
    Ws st off trivial hm
  rw [this, htail]

theorem run_congr_scalar {step : σ → Nat → UInt8 → Step σ ρ} {eof : σ → Nat → ρ}
    (htail : S.tail = scalarLoop step eof)
    {rd rd' : Rd} (len : Nat) (h : ∀ i, i < len → rd i = rd' i) (Ws : List Nat) (st : σ) (off : Nat) :
    S.run rd len Ws st off = S.run rd' len Ws st off :=
  run_congr S len h (by intro st off; rw [htail]; exact scalarLoop_congr step eof len h st off) Ws st off

theorem run_ne_none_scalar {step : σ → Nat → UInt8 → Step σ ρ} {eof : σ → Nat → ρ}
    (htail : S.tail = scalarLoop step eof)
    {rd : Rd} (len : Nat) (h : ∀ i, i < len → rd i ≠ none) (Ws : List Nat) (st : σ) (off : Nat) :
    S.run rd len Ws st off ≠ none :=
  run_ne_none S len h (by intro st off; rw [htail]; exact scalarLoop_ne_none step eof len h st off) Ws st off

end run

end SonicSpec.Mem
