/-
  The way back for the carried sub-universe: decimal integers parse back to themselves, and
  `decV T (encV … T v)` returns `v` (up to nil-vs-empty under NoNullSliceOrMap) for booleans,
  integers of every width, valid-UTF-8 strings, pointers, slices and arrays.
-/
import SonicSpec.Model.EncDec
import SonicSpec.Proofs.EncCompatInt
import SonicSpec.Proofs.EncUnq
import SonicSpec.Proofs.EncWF
import SonicSpec.Proofs.EncOrder
namespace SonicSpec.Enc
open SonicSpec SonicSpec.Json SonicSpec.Go

theorem digitsVal_append : ∀ (a b : Bytes) (acc : Nat),
    digitsVal (a ++ b) acc = (digitsVal a acc).bind (digitsVal b) := by
  intro a
  induction a with
  | nil => intro b acc; simp [digitsVal]
  | cons c r ih =>
    intro b acc
    simp only [List.cons_append, digitsVal]
    split
    · exact ih b _
    · rfl

theorem dig_val (n : Nat) : digitsVal [Compat.dig n] 0 = some (n % 10) ∧
    ∀ acc, digitsVal [Compat.dig n] acc = some (acc * 10 + n % 10) := by
  have hlt : n % 10 < 10 := Nat.mod_lt _ (by decide)
  have key : ∀ acc, digitsVal [Compat.dig n] acc = some (acc * 10 + n % 10) := by
    intro acc
    have hd := (digitByte hlt).1
    have hd' : (Compat.dig n ≥ 48 && Compat.dig n ≤ 57) = true := by
      simpa [isDigit, Compat.dig] using hd
    have hv : (Compat.dig n).toNat - 48 = n % 10 := by
      unfold Compat.dig
      rw [UInt8.toNat_ofNat']
      have : (48 + n % 10 % 10) % 2 ^ 8 = 48 + n % 10 := by omega
      omega
    simp only [digitsVal, hd', if_true, hv]
  exact ⟨by simpa using key 0, key⟩

theorem digitsVal_natDec : ∀ (n : Nat), digitsVal (natDec n) 0 = some n := by
  intro n
  induction n using Nat.strongRecOn with
  | _ n ih =>
    by_cases h : n < 10
    · rw [Compat.natDec_small n h]
      have := (dig_val n).1
      rw [Nat.mod_eq_of_lt h] at this
      exact this
    · rw [Compat.natDec_step n (by omega), digitsVal_append, ih (n / 10) (by omega)]
      simp only [Option.bind]
      rw [(dig_val n).2]
      congr 1
      omega

theorem natDec_head_ne45 (n : Nat) : ∀ r, natDec n ≠ 45 :: r := by
  intro r h
  have hd := (natDec_lit n).1 45 (by rw [h]; simp)
  exact absurd hd (by decide)

theorem natDec_ne_nil (n : Nat) : natDec n ≠ [] := by
  obtain ⟨_, c, t, h, _⟩ := natDec_lit n
  rw [h]; simp

theorem parseIntLit_natDec (n : Nat) : parseIntLit (natDec n) = some (n : Int) := by
  unfold parseIntLit
  split
  · rename_i r heq; exact absurd heq (natDec_head_ne45 n r)
  · have : (natDec n).isEmpty = false := by
      cases h : natDec n with
      | nil => exact absurd h (natDec_ne_nil n)
      | cons _ _ => rfl
    simp [this, digitsVal_natDec]

theorem parseIntLit_intDec (i : Int) : parseIntLit (intDec i) = some i := by
  unfold intDec
  split
  · rename_i hneg
    have : (natDec i.natAbs).isEmpty = false := by
      cases h : natDec i.natAbs with
      | nil => exact absurd h (natDec_ne_nil _)
      | cons _ _ => rfl
    simp only [parseIntLit, this, Bool.false_eq_true, if_false, digitsVal_natDec, Option.map]
    show some (-(↑i.natAbs : Int)) = some i
    congr 1
    omega
  · rename_i hpos
    rw [parseIntLit_natDec]
    congr 1
    omega


theorem b64v_b64c : ∀ i : Fin 64, b64v (b64c i.val) = some i.val := by decide

theorem b64v_c {n : Nat} (h : n < 64) : b64v (b64c n) = some n := b64v_b64c ⟨n, h⟩

theorem b64c_ne61 : ∀ i : Fin 64, b64c i.val ≠ 61 := by decide

theorem b64dec_b64 : ∀ (s : Bytes), b64dec (b64 s) = some s := by
  intro s
  induction s using b64.induct with
  | case1 a b c r ih =>
    have ha := a.toNat_lt; have hb := b.toNat_lt; have hc := c.toNat_lt
    simp only [b64]
    generalize hn : a.toNat * 65536 + b.toNat * 256 + c.toNat = n
    have h0 : n / 262144 < 64 := by omega
    have h1 : n / 4096 % 64 < 64 := by omega
    have h2 : n / 64 % 64 < 64 := by omega
    have h3 : n % 64 < 64 := by omega
    have n2 : b64c (n / 64 % 64) ≠ 61 := b64c_ne61 ⟨_, h2⟩
    have n3 : b64c (n % 64) ≠ 61 := b64c_ne61 ⟨_, h3⟩
    unfold b64dec
    split
    · rename_i heq; cases heq
    · rename_i heq; injection heq with _ heq; injection heq with _ heq; injection heq with e _; exact absurd e n2
    · rename_i heq; injection heq with _ heq; injection heq with _ heq; injection heq with _ heq; injection heq with e _; exact absurd e n3
    · rename_i a' b' c' d' r' _ _ heq
      injection heq with e0 heq; injection heq with e1 heq; injection heq with e2 heq; injection heq with e3 e4
      subst e0; subst e1; subst e2; subst e3; subst e4
      simp only [b64v_c h0, b64v_c h1, b64v_c h2, b64v_c h3, ih]
      have e : ((n / 262144 * 64 + n / 4096 % 64) * 64 + n / 64 % 64) * 64 + n % 64 = n := by omega
      rw [e]
      have ea : n / 65536 = a.toNat := by omega
      have eb : n / 256 % 256 = b.toNat := by omega
      have ec : n % 256 = c.toNat := by omega
      rw [ea, eb, ec]
      simp
    · rename_i hx; exact (hx _ _ _ _ _ rfl).elim
  | case2 a b =>
    have ha := a.toNat_lt; have hb := b.toNat_lt
    simp only [b64]
    generalize hn : a.toNat * 65536 + b.toNat * 256 = n
    have h0 : n / 262144 < 64 := by omega
    have h1 : n / 4096 % 64 < 64 := by omega
    have h2 : n / 64 % 64 < 64 := by omega
    have n2 : b64c (n / 64 % 64) ≠ 61 := b64c_ne61 ⟨_, h2⟩
    unfold b64dec
    split
    · rename_i heq; cases heq
    · rename_i heq; injection heq with _ heq; injection heq with _ heq; injection heq with e _; exact absurd e n2
    · rename_i a' b' c' heq
      injection heq with e0 heq; injection heq with e1 heq; injection heq with e2 _
      subst e0; subst e1; subst e2
      simp only [b64v_c h0, b64v_c h1, b64v_c h2]
      have ea : ((n / 262144 * 64 + n / 4096 % 64) * 64 + n / 64 % 64) / 1024 = a.toNat := by omega
      have eb : ((n / 262144 * 64 + n / 4096 % 64) * 64 + n / 64 % 64) / 4 % 256 = b.toNat := by omega
      rw [ea, eb]
      simp
    · simp_all
    · rename_i hx; exact (hx _ _ _ _ _ rfl).elim
  | case3 a =>
    have ha := a.toNat_lt
    simp only [b64]
    generalize hn : a.toNat * 65536 = n
    have h0 : n / 262144 < 64 := by omega
    have h1 : n / 4096 % 64 < 64 := by omega
    unfold b64dec
    split
    · rename_i heq; cases heq
    · rename_i a' b' heq
      injection heq with e0 heq; injection heq with e1 _
      subst e0; subst e1
      simp only [b64v_c h0, b64v_c h1]
      have ea : (n / 262144 * 64 + n / 4096 % 64) / 16 = a.toNat := by omega
      rw [ea]
      simp
    all_goals first
      | (simp_all; done)
      | (simp_all; rename_i hx heq; exact absurd (heq.2.2.2.1.symm.trans heq.2.2.1) hx)
  | case4 => simp [b64, b64dec]


/-- the value does not encode as `null` (a nil anything, or a pointer chain ending in one) -/
def nn : GoVal → Bool
  | .nil => false
  | .ptr w => nn w
  | _ => true

/-- member names are valid UTF-8 and pairwise different (`seen` = names met so far) -/
def namesOK : List (Option Field) → List Bytes → Bool
  | [], _ => true
  | some f :: r, seen => validUtf8 f.name && !seen.contains f.name && namesOK r (f.name :: seen)
  | none :: _, _ => false

/-- map entries listed in bytewise non-decreasing key order (the order of the wire syntax, and the order
    SortMapKeys produces: the statement then needs no permutation) -/
def keysSortedFrom : Option Bytes → List (GoVal × GoVal) → Bool
  | _, [] => true
  | none, (.str k, _) :: r => keysSortedFrom (some k) r
  | some p, (.str k, _) :: r => bytesLe p k && keysSortedFrom (some k) r
  | _, _ => false

mutual
/-- the sub-universe `roundtrip_partial` carries: booleans, integers in range, valid-UTF-8 strings,
    finite floats, pointers (to something that is not written as null), slices (not of bytes), arrays,
    string-keyed maps listed in key order, plain structs -/
def rtOK : GoType → GoVal → Bool
  | .bool, .bool _ => true
  | .int k, .int n => intInRange k n
  | .uint k, .uint n => natInRange k n
  | .str, .str s => validUtf8 s
  | .bytes, .nil => true
  | .bytes, .bytes _ => true
  | .f64, .f64 b => (fmtF64 b).isSome          -- finite (NaN and the infinities have no literal)
  | .f32, .f32 b => (fmtF32 b).isSome
  | .map .str _, .nil => true
  | .map .str t, .map kvs => keysSortedFrom none kvs && rtOKM t kvs
  | .ptr _, .nil => true
  | .ptr t, .ptr v => rtOK t v && nn v
  | .sl t, .nil => !isU8 t
  | .sl t, .sl xs => !isU8 t && rtOKL t xs
  | .arr n t, .arr xs => xs.length == n && rtOKL t xs
  | .st fs, .st vs =>
    match keepList fs with
    | some ks => ks.length == vs.length && namesOK ks [] && rtOKF ks vs
    | none => false
  | _, _ => false
def rtOKL : GoType → List GoVal → Bool
  | _, [] => true
  | t, x :: xs => rtOK t x && rtOKL t xs
/-- string keys of valid UTF-8, values carried -/
def rtOKM : GoType → List (GoVal × GoVal) → Bool
  | _, [] => true
  | t, (.str k, v) :: r => validUtf8 k && rtOK t v && rtOKM t r
  | _, _ => false
/-- every declared field is kept, not `,string`, not left out (`omitempty` / `omitzero` only on values that are
    not empty / not zero) and its value is carried -/
def rtOKF : List (Option Field) → List GoVal → Bool
  | [], [] => true
  | some f :: fs, v :: vs =>
    !f.quoted && !(f.omitEmpty && isEmptyV f.typ v) && !(f.omitZero && isZeroV v) && rtOK f.typ v && rtOKF fs vs
  | _, _ => false
end

/-- members `ms` are the kept fields `ks` in order, each value decoding to the corresponding element of `vs'` -/
inductive FieldDec (o : EncOpts) : List (Option Field) → List (Bytes × JVal) → List GoVal → Prop
  | nil : FieldDec o [] [] []
  | cons {f : Field} {j : JVal} {v' : GoVal} {ks : List (Option Field)} {ms : List (Bytes × JVal)} {vs' : List GoVal} :
      f.quoted = false → decV f.typ j = .ok v' → FieldDec o ks ms vs' →
      FieldDec o (some f :: ks) ((nameKey o f.name, j) :: ms) (v' :: vs')

theorem findField_skip (name : Bytes) : ∀ (pre : List (Option Field)) (rest : List (Option Field)) (i : Nat),
    (∀ g, some g ∈ pre → g.name ≠ name) →
    findField name (pre ++ rest) i = findField name rest (i + pre.length) := by
  intro pre
  induction pre with
  | nil => intro rest i _; simp
  | cons p r ih =>
    intro rest i h
    cases p with
    | none =>
      simp only [List.cons_append, findField]
      rw [ih rest (i + 1) (fun g hg => h g (by simp [hg]))]
      simp only [List.length_cons]
      congr 1; omega
    | some g =>
      have hg : g.name ≠ name := h g (by simp)
      have : (g.name == name) = false := by simpa using hg
      simp only [List.cons_append, findField, this, Bool.false_eq_true, if_false]
      rw [ih rest (i + 1) (fun g' hg' => h g' (by simp [hg']))]
      simp only [List.length_cons]
      congr 1; omega

theorem namesOK_notin : ∀ (ks : List (Option Field)) (seen : List Bytes), namesOK ks seen = true →
    ∀ g, some g ∈ ks → g.name ∉ seen := by
  intro ks
  induction ks with
  | nil => intro seen _ g hg; cases hg
  | cons k r ih =>
    intro seen h g hg
    cases k with
    | none => simp [namesOK] at h
    | some f =>
      simp only [namesOK, Bool.and_eq_true, Bool.not_eq_true'] at h
      rcases List.mem_cons.mp hg with hg | hg
      · injection hg with hg; subst hg
        intro hm
        have : seen.contains g.name = true := by simpa using hm
        rw [this] at h; cases h.1.2
      · intro hm
        exact ih (f.name :: seen) h.2 g hg (by simp [hm])

/-- decoding the members of the remaining fields onto `dpre ++ zs` fills exactly the remaining positions -/
theorem decF_fill (o : EncOpts) : ∀ (ks : List (Option Field)) (ms : List (Bytes × JVal)) (vs' : List GoVal),
    FieldDec o ks ms vs' → ∀ (seen : List Bytes), namesOK ks seen = true →
    ∀ (pre : List (Option Field)) (dpre zs : List GoVal), dpre.length = pre.length → zs.length = ks.length →
    (∀ g, some g ∈ pre → g.name ∈ seen) →
    decF (pre ++ ks) ms (dpre ++ zs) = .ok (dpre ++ vs') := by
  intro ks ms vs' hfd
  induction hfd with
  | nil =>
    intro seen _ pre dpre zs _ hz _
    have : zs = [] := by cases zs <;> simp_all
    subst this
    simp [decF]
  | @cons f j v' ks ms vs' hq hd _ ih =>
    intro seen hn pre dpre zs hl hz hseen
    simp only [namesOK, Bool.and_eq_true, Bool.not_eq_true'] at hn
    obtain ⟨⟨hvalid, hnot⟩, hrest⟩ := hn
    cases zs with
    | nil => simp at hz
    | cons z zs' =>
      have hu : unq (nameKey o f.name) = some f.name := by
        unfold nameKey
        cases hf : o.validateString
        · exact unq_quoteBody_raw _ _
        · rw [unq_quoteBody_fixed, coerce_valid hvalid]
      have hpre : ∀ g, some g ∈ pre → g.name ≠ f.name := by
        intro g hg hh
        have := hseen g hg
        rw [hh] at this
        have hc : seen.contains f.name = true := by simpa using this
        rw [hc] at hnot; cases hnot
      have hfind : findField f.name (pre ++ some f :: ks) 0 = some (pre.length, f) := by
        rw [findField_skip f.name pre _ 0 hpre]
        simp [findField]
      simp only [decF, hu, hfind, hq, Bool.false_eq_true, if_false, hd, bind, Except.bind]
      have hset : setAt (dpre ++ z :: zs') pre.length v' = (dpre ++ [v']) ++ zs' := by
        unfold setAt
        rw [← hl]
        simp
      rw [hset]
      have key := ih (f.name :: seen) hrest (pre ++ [some f]) (dpre ++ [v']) zs' (by simp [hl]) (by simpa using hz)
        (by
          intro g hg
          rcases List.mem_append.mp hg with hg | hg
          · exact List.mem_cons_of_mem _ (hseen g hg)
          · simp at hg; subst hg; simp)
      simpa using key

/-- entries `es` (key text, tree) decode value by value into `kvs'`, keys untouched -/
inductive EntryDec (o : EncOpts) (t : GoType) : List (Bytes × JVal) → List (GoVal × GoVal) → Prop
  | nil : EntryDec o t [] []
  | cons {k : Bytes} {j : JVal} {v' : GoVal} {es : List (Bytes × JVal)} {kvs' : List (GoVal × GoVal)} :
      validUtf8 k = true → decV t j = .ok v' → EntryDec o t es kvs' →
      EntryDec o t ((k, j) :: es) ((.str k, v') :: kvs')

/-- the key texts of `es` are the string keys of `kvs`, in order -/
def KeysOf : List (GoVal × GoVal) → List (Bytes × JVal) → Prop
  | [], [] => True
  | (.str k, _) :: r, (k', _) :: es => k = k' ∧ KeysOf r es
  | _, _ => False

theorem keysSorted_sortedKV : ∀ (kvs : List (GoVal × GoVal)) (es : List (Bytes × JVal)) (p : Option Bytes),
    KeysOf kvs es → keysSortedFrom p kvs = true →
    SortedKV es ∧ (∀ q, p = some q → ∀ e ∈ es, bytesLe q e.1 = true) := by
  intro kvs
  induction kvs with
  | nil =>
    intro es p hk _
    cases es with
    | nil => exact ⟨by simp [SortedKV], fun _ _ e he => by cases he⟩
    | cons _ _ => simp [KeysOf] at hk
  | cons kv r ih =>
    intro es p hk hs
    obtain ⟨kk, v⟩ := kv
    cases es with
    | nil => cases kk <;> simp [KeysOf] at hk
    | cons e es' =>
      obtain ⟨k', j⟩ := e
      cases kk with
      | str k =>
        simp only [KeysOf] at hk
        obtain ⟨hkk, hrest⟩ := hk
        subst hkk
        have hs' : keysSortedFrom (some k) r = true := by
          cases p with
          | none => simpa [keysSortedFrom] using hs
          | some q => simp only [keysSortedFrom, Bool.and_eq_true] at hs; exact hs.2
        obtain ⟨i1, i2⟩ := ih es' (some k) hrest hs'
        refine ⟨?_, ?_⟩
        · simp only [SortedKV, List.pairwise_cons]
          exact ⟨fun x hx => i2 k rfl x hx, i1⟩
        · intro q hq x hx
          subst hq
          simp only [keysSortedFrom, Bool.and_eq_true] at hs
          rcases List.mem_cons.mp hx with hx | hx
          · subst hx; exact hs.1
          · exact bytesLe_trans _ _ _ hs.1 (i2 k rfl x hx)
      | _ => simp [KeysOf] at hk

theorem sortKV_of_sorted : ∀ (es : List (Bytes × JVal)), SortedKV es → sortKV es = es := by
  intro es
  induction es with
  | nil => intro _; rfl
  | cons e r ih =>
    intro h
    simp only [SortedKV, List.pairwise_cons] at h
    simp only [sortKV, ih h.2]
    cases r with
    | nil => rfl
    | cons f r' =>
      simp only [insertKV]
      have : bytesLe e.1 f.1 = true := h.1 f (by simp)
      simp [this]

/-- decoding the quoted members of string-keyed entries gives back the entries -/
theorem decM_entries (o : EncOpts) (t : GoType) : ∀ (es : List (Bytes × JVal)) (kvs' : List (GoVal × GoVal)),
    EntryDec o t es kvs' → ∀ ms, keyBodies o .str es = .ok ms → decM .str t ms = .ok kvs' := by
  intro es kvs' h
  induction h with
  | nil => intro ms hm; simp [keyBodies] at hm; subst hm; simp [decM]
  | @cons k j v' es kvs' hv hd _ ih =>
    intro ms hm
    simp only [keyBodies] at hm
    obtain ⟨b, h1, h2⟩ := except_bind_ok hm
    obtain ⟨rs, h3, h4⟩ := except_bind_ok h2
    injection h4 with h4; subst h4
    have hb : b = quoteBody o.escapeHTML o.validateString k := by
      simp [keyBody, isTextKey] at h1
      exact h1.symm
    have hu : unq b = some k := by
      rw [hb]
      cases hf : o.validateString
      · exact unq_quoteBody_raw _ _
      · rw [unq_quoteBody_fixed, coerce_valid hv]
    simp [decM, hu, keyOfText, hd, ih rs h3, bind, Except.bind, pure, Except.pure]

theorem zeroFields_length : ∀ (fs : List (String × Option Bytes × GoType)), (zeroFields fs).length = fs.length := by
  intro fs
  induction fs with
  | nil => simp [zeroFields]
  | cons f r ih => obtain ⟨a, b, c⟩ := f; simp [zeroFields, ih]

theorem fieldsOf_length : ∀ (fs : List (String × Option Bytes × GoType)) (l : List (Option Field)),
    fieldsOf fs = some l → l.length = fs.length := by
  intro fs
  induction fs with
  | nil => intro l h; simp [fieldsOf] at h; subst h; rfl
  | cons f r ih =>
    intro l h
    obtain ⟨a, b, c⟩ := f
    simp only [fieldsOf] at h
    split at h
    · rename_i x xs _ hr
      injection h with h; subst h
      simp [ih xs hr]
    · cases h

theorem keepList_length {fs : List (String × Option Bytes × GoType)} {ks : List (Option Field)}
    (h : keepList fs = some ks) : ks.length = fs.length := by
  unfold keepList at h
  cases hf : fieldsOf fs with
  | none => simp [hf] at h
  | some all =>
    simp [hf] at h
    subst h
    simp [fieldsOf_length fs all hf]

theorem decV_ptr_nonnull {t : GoType} {j : JVal} (h : j ≠ .null) : decV (.ptr t) j = (decV t j).map .ptr := by
  cases j <;> first | (exact absurd rfl h) | (simp [decV])

theorem decV_sl_arr {t : GoType} (hu : isU8 t = false) (js : List JVal) :
    decV (.sl t) (.arr js) = (decL t js).map .sl := by
  cases t <;> first | (simp [decV]; done) | skip
  rename_i bits
  by_cases hb : bits = 8
  · subst hb; simp [isU8] at hu
  · rw [decV]
    intro hh
    injection hh with hh
    exact absurd hh hb

theorem roundtrip_all (o : EncOpts) :
    (∀ (addr : Bool) (T : GoType) (v : GoVal), ∀ j, rtOK T v = true → encV o addr T v = .ok j →
        ∃ v', decV T j = .ok v' ∧ eqv o.noNullSliceOrMap v v' = true ∧ (nn v = true → j ≠ .null)) ∧
    (∀ (addr : Bool) (ks : List (Option Field)) (vs : List GoVal), ∀ ms, rtOKF ks vs = true → encF o addr ks vs = .ok ms →
        ∃ vs', FieldDec o ks ms vs' ∧ eqvL o.noNullSliceOrMap vs vs' = true) ∧
    (∀ (k t : GoType) (kvs : List (GoVal × GoVal)), ∀ es, k = .str → rtOKM t kvs = true → encM o k t kvs = .ok es →
        ∃ kvs', EntryDec o t es kvs' ∧ eqvE o.noNullSliceOrMap kvs kvs' = true ∧ KeysOf kvs es) ∧
    (∀ (addr : Bool) (t : GoType) (xs : List GoVal), ∀ js, rtOKL t xs = true → encL o addr t xs = .ok js →
        ∃ vs', decL t js = .ok vs' ∧ eqvL o.noNullSliceOrMap xs vs' = true ∧ js.length = xs.length) := by
  apply encV.mutual_induct o
    (motive_1 := fun addr T v => ∀ j, rtOK T v = true → encV o addr T v = .ok j →
        ∃ v', decV T j = .ok v' ∧ eqv o.noNullSliceOrMap v v' = true ∧ (nn v = true → j ≠ .null))
    (motive_2 := fun addr ks vs => ∀ ms, rtOKF ks vs = true → encF o addr ks vs = .ok ms →
        ∃ vs', FieldDec o ks ms vs' ∧ eqvL o.noNullSliceOrMap vs vs' = true)
    (motive_3 := fun k t kvs => ∀ es, k = .str → rtOKM t kvs = true → encM o k t kvs = .ok es →
        ∃ kvs', EntryDec o t es kvs' ∧ eqvE o.noNullSliceOrMap kvs kvs' = true ∧ KeysOf kvs es)
    (motive_4 := fun addr t xs => ∀ js, rtOKL t xs = true → encL o addr t xs = .ok js →
        ∃ vs', decL t js = .ok vs' ∧ eqvL o.noNullSliceOrMap xs vs' = true ∧ js.length = xs.length)
  case case1 =>
    intro addr b j _ h
    simp only [encV] at h; injection h with h; subst h
    exact ⟨.bool b, by simp [decV], by simp [eqv], fun _ hh => by cases hh⟩
  case case2 =>
    intro addr bits n j hrt h
    simp only [encV] at h; injection h with h; subst h
    simp only [rtOK] at hrt
    exact ⟨.int n, by simp [decV, parseIntLit_intDec, hrt], by simp [eqv], fun _ hh => by cases hh⟩
  case case3 =>
    intro addr bits n j hrt h
    simp only [encV] at h; injection h with h; subst h
    simp only [rtOK] at hrt
    refine ⟨.uint n, ?_, by simp [eqv], fun _ hh => by cases hh⟩
    simp only [decV, parseIntLit_natDec]
    simp [hrt]
  case case4 =>
    intro addr b j hrt h
    simp only [rtOK] at hrt
    cases hf : fmtF64 b with
    | none => rw [hf] at hrt; cases hrt
    | some l =>
      have hshape := numFmtF64_shape hf
      have hne : (l == nullLit) = false := by
        obtain ⟨c, tl, hl, hc⟩ := hshape.head
        subst hl
        rcases hc with hc | hc
        · subst hc; simp [nullLit]
        · have : c ≠ 110 := by intro hh; subst hh; exact absurd hc (by decide)
          simp [nullLit, this]
      simp only [encV, hf, floatLit, Except.map, hne, Bool.false_eq_true, if_false] at h
      injection h with h; subst h
      have hrt2 : Num.toF64Bits l = .ok b := by
        have := Num.fmtBits_roundtrip Num.f64 Num.thresh64 b.toNat l hf
        simp [Num.toF64Bits, this, Except.map]
      exact ⟨.f64 b, by simp [decV, hrt2], by simp [eqv], fun _ hh => by cases hh⟩
  case case5 =>
    intro addr b j hrt h
    simp only [rtOK] at hrt
    cases hf : fmtF32 b with
    | none => rw [hf] at hrt; cases hrt
    | some l =>
      have hshape := numFmtF32_shape hf
      have hne : (l == nullLit) = false := by
        obtain ⟨c, tl, hl, hc⟩ := hshape.head
        subst hl
        rcases hc with hc | hc
        · subst hc; simp [nullLit]
        · have : c ≠ 110 := by intro hh; subst hh; exact absurd hc (by decide)
          simp [nullLit, this]
      simp only [encV, hf, floatLit, Except.map, hne, Bool.false_eq_true, if_false] at h
      injection h with h; subst h
      have hrt2 : Num.toF32Bits l = .ok b := by
        have := Num.fmtBits_roundtrip Num.f32 Num.thresh32 b.toNat l hf
        simp [Num.toF32Bits, this, Except.map]
      exact ⟨.f32 b, by simp [decV, hrt2], by simp [eqv], fun _ hh => by cases hh⟩
  case case22 =>
    intro addr k t hk j hrt h
    simp only [encV, hk, if_true] at h
    injection h with h; subst h
    cases k <;> first | (simp [rtOK] at hrt; done) | skip
    unfold nilMap
    split
    · rename_i hn
      exact ⟨.map [], by simp [decV, decM, Except.map], by simp [eqv, hn], fun hh => by simp [nn] at hh⟩
    · exact ⟨.nil, by simp [decV], by simp [eqv], fun hh => by simp [nn] at hh⟩
  case case24 =>
    intro addr k t kvs hk ih j hrt h
    cases k <;> first | (simp [rtOK] at hrt; done) | skip
    simp only [rtOK, Bool.and_eq_true] at hrt
    simp only [encV, hk, if_true] at h
    obtain ⟨es, h1, h2⟩ := except_bind_ok h
    obtain ⟨ms, h3, h4⟩ := except_map_ok h2
    subst h4
    obtain ⟨kvs', e1, e2, e3⟩ := ih es rfl hrt.2 h1
    have hsorted := (keysSorted_sortedKV kvs es none e3 hrt.1).1
    have hsame : (if o.sortMapKeys = true then sortKV es else es) = es := by
      split
      · exact sortKV_of_sorted es hsorted
      · rfl
    rw [hsame] at h3
    have hdec := decM_entries o t es kvs' e1 ms h3
    exact ⟨.map kvs', by simp [decV, hdec, Except.map], by simpa [eqv] using e2, fun _ hh => by cases hh⟩
  case case52 =>
    intro k t es _ _ h
    simp only [encM] at h
    injection h with h; subst h
    exact ⟨[], EntryDec.nil, by simp [eqvE], trivial⟩
  case case53 =>
    intro k t a b r hk es _ _ h
    simp only [encM, hk] at h
    cases h
  case case54 =>
    intro k t a b r ks hk ih2 ih1 es hkt hrt h
    subst hkt
    cases a <;> first | (simp [rtOKM] at hrt; done) | skip
    rename_i key
    simp only [rtOKM, Bool.and_eq_true] at hrt
    simp only [keyText] at hk
    injection hk with hk; subst hk
    simp only [encM, keyText] at h
    obtain ⟨j, h1, h2⟩ := except_bind_ok h
    obtain ⟨rs, h3, h4⟩ := except_bind_ok h2
    injection h4 with h4; subst h4
    obtain ⟨v', b1, b2, _⟩ := ih2 j hrt.1.2 h1
    obtain ⟨kvs', c1, c2, c3⟩ := ih1 rs rfl hrt.2 h3
    exact ⟨(.str key, v') :: kvs', EntryDec.cons hrt.1.1 b1 c1, by simp [eqvE, eqv, b2, c2], ⟨rfl, c3⟩⟩
  case case6 =>
    intro addr s j hrt h
    simp only [encV] at h; injection h with h; subst h
    simp only [rtOK] at hrt
    refine ⟨.str s, ?_, by simp [eqv], fun _ hh => by cases hh⟩
    have hu : unq (quoteBody o.escapeHTML o.validateString s) = some s := by
      cases hf : o.validateString
      · exact unq_quoteBody_raw _ s
      · rw [unq_quoteBody_fixed, coerce_valid hrt]
    simp [strVal, decV, hu]
  case case8 =>
    intro addr j _ h
    simp only [encV] at h; injection h with h; subst h
    unfold nilSlice
    split
    · rename_i hn
      exact ⟨.bytes [], by simp [decV], by simp [eqv, hn], fun hh => by simp [nn] at hh⟩
    · exact ⟨.nil, by simp [decV], by simp [eqv], fun hh => by simp [nn] at hh⟩
  case case9 =>
    intro addr b j _ h
    simp only [encV] at h; injection h with h; subst h
    have hu : unq (b64 b) = some (b64 b) := by
      have := unqS_plain_append (b64_plain b) []
      simpa [unq, unqS, flushHi] using this
    exact ⟨.bytes b, by simp [decV, hu, b64dec_b64], by simp [eqv], fun _ hh => by cases hh⟩
  case case14 =>
    intro addr t j _ h
    simp only [encV] at h; injection h with h; subst h
    exact ⟨.nil, by simp [decV], by simp [eqv], fun hh => by simp [nn] at hh⟩
  case case15 =>
    intro addr t v ih j hrt h
    simp only [encV] at h
    simp only [rtOK, Bool.and_eq_true] at hrt
    obtain ⟨v', h1, h2, h3⟩ := ih j hrt.1 h
    have hne := h3 hrt.2
    refine ⟨.ptr v', ?_, by simpa [eqv] using h2, fun _ => hne⟩
    rw [decV_ptr_nonnull hne, h1]; rfl
  case case16 =>
    intro addr t j hrt h
    simp only [encV] at h; injection h with h; subst h
    simp only [rtOK, Bool.not_eq_true'] at hrt
    unfold nilSlice
    split
    · rename_i hn
      refine ⟨.sl [], ?_, by simp [eqv, hn], fun hh => by simp [nn] at hh⟩
      rw [decV_sl_arr hrt]; simp [decL, Except.map]
    · exact ⟨.nil, by simp [decV], by simp [eqv], fun hh => by simp [nn] at hh⟩
  case case17 =>
    intro addr t xs hu l _ j hrt _
    simp only [rtOK, Bool.and_eq_true, Bool.not_eq_true'] at hrt
    rw [hu] at hrt; cases hrt.1
  case case18 =>
    intro addr t xs hu _ j hrt _
    simp only [rtOK, Bool.and_eq_true, Bool.not_eq_true'] at hrt
    rw [hu] at hrt; cases hrt.1
  case case19 =>
    intro addr t xs hu ih j hrt h
    simp only [encV, hu] at h
    simp only [rtOK, Bool.and_eq_true, Bool.not_eq_true'] at hrt
    obtain ⟨js, h1, h2⟩ := except_map_ok h
    subst h2
    obtain ⟨vs', a1, a2, _⟩ := ih js hrt.2 h1
    refine ⟨.sl vs', ?_, by simpa [eqv] using a2, fun _ hh => by cases hh⟩
    rw [decV_sl_arr hrt.1, a1]; rfl
  case case20 =>
    intro addr n t xs hl ih j hrt h
    simp only [encV, hl, if_true] at h
    simp only [rtOK, Bool.and_eq_true] at hrt
    obtain ⟨js, h1, h2⟩ := except_map_ok h
    subst h2
    obtain ⟨vs', a1, a2, a3⟩ := ih js hrt.2 h1
    refine ⟨.arr vs', ?_, by simpa [eqv] using a2, fun _ hh => by cases hh⟩
    have : (js.length == n) = true := by rw [a3]; exact hl
    simp [decV, this, a1, Except.map]
  case case26 =>
    intro addr fs vs ks hk hl ih j hrt h
    simp only [encV, hk, hl, if_true] at h
    simp only [rtOK, hk, Bool.and_eq_true] at hrt
    obtain ⟨ms, h1, h2⟩ := except_map_ok h
    subst h2
    obtain ⟨vs', f1, f2⟩ := ih ms hrt.2 h1
    refine ⟨.st vs', ?_, by simpa [eqv] using f2, fun _ hh => by cases hh⟩
    have hlen : (zeroFields fs).length = ks.length := by
      rw [zeroFields_length, keepList_length hk]
    have := decF_fill o ks ms vs' f1 [] hrt.1.2 [] [] (zeroFields fs) rfl hlen (fun g hg => by cases hg)
    simp only [List.nil_append] at this
    simp [decV, hk, this, Except.map]
  case case45 =>
    intro addr fs head vs _ ms hrt _
    simp [rtOKF] at hrt
  case case46 =>
    intro addr f fs v vs hc _ ms hrt _
    simp only [rtOKF, Bool.and_eq_true, Bool.not_eq_true'] at hrt
    rw [hrt.1.1.1.2, hrt.1.1.2] at hc
    simp at hc
  case case47 =>
    intro addr f fs v vs _ hq _ ms hrt _
    simp only [rtOKF, Bool.and_eq_true, Bool.not_eq_true'] at hrt
    rw [hrt.1.1.1.1] at hq
    cases hq
  case case48 =>
    intro addr f fs v vs hc hq ih2 ih1 ms hrt h
    simp only [rtOKF, Bool.and_eq_true, Bool.not_eq_true'] at hrt
    simp only [encF, hc, hq, Bool.false_eq_true, if_false] at h
    obtain ⟨j, h1, h2⟩ := except_bind_ok h
    obtain ⟨rs, h3, h4⟩ := except_bind_ok h2
    injection h4 with h4; subst h4
    obtain ⟨v', b1, b2, _⟩ := ih1 j hrt.1.2 h1
    obtain ⟨vs', c1, c2⟩ := ih2 rs hrt.2 h3
    exact ⟨v' :: vs', FieldDec.cons hrt.1.1.1.1 b1 c1, by simp [eqvL, b2, c2]⟩
  case case49 =>
    intro vs addr ks hx1 hx2 ms hrt h
    cases ks with
    | nil =>
      cases vs with
      | nil =>
        simp only [encF] at h; injection h with h; subst h
        exact ⟨[], FieldDec.nil, by simp [eqvL]⟩
      | cons _ _ => simp [rtOKF] at hrt
    | cons k r =>
      cases vs with
      | nil => cases k <;> simp [rtOKF] at hrt
      | cons v vs' =>
        cases k with
        | none => exact (hx1 r v vs' rfl rfl).elim
        | some f => exact (hx2 f r v vs' rfl rfl).elim
  case case50 =>
    intro addr t js _ h
    simp only [encL] at h; injection h with h; subst h
    exact ⟨[], by simp [decL], by simp [eqvL], rfl⟩
  case case51 =>
    intro addr t v r ih2 ih1 js hrt h
    simp only [encL] at h
    simp only [rtOKL, Bool.and_eq_true] at hrt
    obtain ⟨j, h1, h2⟩ := except_bind_ok h
    obtain ⟨rs, h3, h4⟩ := except_bind_ok h2
    injection h4 with h4; subst h4
    obtain ⟨v', b1, b2, _⟩ := ih2 j hrt.1 h1
    obtain ⟨vs', c1, c2, c3⟩ := ih1 rs hrt.2 h3
    refine ⟨v' :: vs', ?_, by simp [eqvL, b2, c2], by simp [c3]⟩
    simp [decL, b1, c1, bind, Except.bind, pure, Except.pure]
  all_goals first
    | (intros; trivial)
    | (intros; rename_i h; simp only [encV, encM, *] at h; cases h; done)
    | (intros; rename_i hrt _; simp [rtOK] at hrt; done)
    | (intros; rename_i hrt _ ; exact absurd hrt (by simp [rtOK]))

end SonicSpec.Enc
