/-
  C17 helper lemmas, part 5 (wave 2): more about the shipped stream decoder - it never ends a
  failing stream cleanly; it computes the specification whenever every top-level scalar is framed
  whole at the first attempt.  Core Lean only.
-/
import SonicSpec.Proofs.IOShipped
import SonicSpec.Proofs.U8
set_option linter.unusedSimpArgs false
namespace SonicSpec.IO
def Faithful.LoopTerm (T : RErr) : Faithful.Framed → Prop
  | .ok _ _ _ sc2 f2 => termOf sc2 f2 = T
  | .failed _ _ _ => True

theorem Faithful.frameLoop_termOf (s : Nat) (sc : Script) : ∀ (st : DState) (reskip : Bool) (f : RErr),
    Faithful.LoopTerm (termOf sc f) (Faithful.frameLoop st s reskip sc f) := by
  induction sc with
  | nil =>
    intro st reskip f
    unfold Faithful.frameLoop
    split
    · simp [Faithful.LoopTerm]
    · simp [Faithful.LoopTerm]
  | cons hd rest ih =>
    intro st reskip f
    obtain ⟨d, oe⟩ := hd
    unfold Faithful.frameLoop
    split
    · simp [Faithful.LoopTerm]
    · cases oe with
      | none =>
        simp only [termOf]
        split
        · exact ih _ true f
        · exact ih _ false f
      | some e =>
        simp only [termOf]
        split
        · split <;> simp [Faithful.LoopTerm, termOf]
        · simp [Faithful.LoopTerm]

section generic
variable {V : Type} (dec : Bytes → Option (V × Nat))

/-- what one `Decode` of the shipped decoder can return -/
def Faithful.ResOk (T : RErr) : DecodeRes V × DState × Script × RErr → Prop
  | (.error t, _, _, _) => t = T.toTerminal ∨ t = .syntaxError
  | (.nothing, _, _, _) => True
  | (.value _, st', sc', f') => st'.err = none ∧ termOf sc' f' = T

theorem Faithful.decode_cases (st : DState) (sc : Script) (f : RErr) (he : st.err = none) :
    Faithful.ResOk (termOf sc f) (Faithful.decode dec st sc f) := by
  unfold Faithful.decode
  rw [he]
  simp only
  have hp := peek_spec sc st f
  rcases hpk : peek st sc f with ⟨oc, st1, sc1, f1⟩
  rw [hpk] at hp
  cases oc with
  | none =>
    simp only at hp ⊢
    rw [hp.2]; simp [Faithful.ResOk]
  | some c =>
    simp only at hp ⊢
    obtain ⟨h1, _, _, h4, _⟩ := hp
    split
    · trivial
    · have hfl := Faithful.frameLoop_spec st1.scanp sc1 st1 true f1
      have hft := Faithful.frameLoop_termOf st1.scanp sc1 st1 true f1
      cases hfr : Faithful.frameLoop st1 st1.scanp true sc1 f1 with
      | failed st2 sc2 f2 =>
        rw [hfr] at hfl; simp only [Faithful.LoopOk] at hfl ⊢
        rw [hfl, h4]; simp [Faithful.ResOk]
      | ok st2 y x sc2 f2 =>
        rw [hfr] at hfl hft; simp only [Faithful.LoopOk, Faithful.LoopTerm] at hfl hft ⊢
        split
        · simp [Faithful.ResOk]
        · simp only [Faithful.ResOk]
          have hfin := finish_spec { st2 with scanp := x + (y + st1.scanp) } []
          refine ⟨?_, by rw [hft, h4]⟩
          rw [hfin.2.1]; simp [hfl.2.1, h1, he]

theorem Faithful.run_stop (n : Nat) : ∀ (st : DState) (sc : Script) (f : RErr), st.err = none →
    (run (Faithful.decode dec) n st sc f).2 = .more ∨
    (run (Faithful.decode dec) n st sc f).2 = .noProgress ∨
    (run (Faithful.decode dec) n st sc f).2 = .term (termOf sc f).toTerminal ∨
    (run (Faithful.decode dec) n st sc f).2 = .term .syntaxError := by
  induction n with
  | zero => intro st sc f _; simp [run]
  | succ n ih =>
    intro st sc f he
    have hc := Faithful.decode_cases dec st sc f he
    unfold run
    rcases hd : Faithful.decode dec st sc f with ⟨res, st', sc', f'⟩
    rw [hd] at hc
    cases res with
    | nothing => simp
    | error t =>
      simp only [Faithful.ResOk] at hc ⊢
      rcases hc with rfl | rfl <;> simp
    | value v =>
      simp only [Faithful.ResOk] at hc ⊢
      have := ih st' sc' f' hc.1
      rw [hc.2] at this
      rcases hr : run (Faithful.decode dec) n st' sc' f' with ⟨vs, s⟩
      rw [hr] at this
      simpa using this

end generic

/-- the shipped `try_skip` loop on a value that is complete in the stream and whose kind the native
    skip frames like `Fixed.frame` (`hskip`) and cannot be completed by white space (`hws`): it finds
    exactly the lexical frame, whatever the chunking -/
theorem Faithful.frameLoop_framable (s : Nat) (c : UInt8) (r : Bytes) (x : Nat)
    (hSk : ∀ r', skipOneFast (c :: r') = match Fixed.frame (c :: r') with
      | some x => .ok 0 x
      | none => .eof)
    (hWs : ∀ r0 d t, c :: r0 ++ d ++ t = c :: r → Fixed.frame (c :: r0) = none →
      wsLen d = d.length → Fixed.frame (c :: r0 ++ d) = none)
    (hx : Fixed.frame (c :: r) = some x) (sc : Script) :
    ∀ (st : DState) (reskip : Bool) (f : RErr),
    s ≤ st.buf.length → (∃ r0, st.buf.drop s = c :: r0) →
    st.buf.drop s ++ concat sc = c :: r →
    (reskip = true ∨ Fixed.frame (st.buf.drop s) = none) →
    ∃ st2 sc2 f2, Faithful.frameLoop st s reskip sc f = .ok st2 0 x sc2 f2 ∧
      st2.err = st.err ∧ st2.scanned = st.scanned ∧ s ≤ st2.buf.length ∧
      st2.buf.drop s ++ concat sc2 = c :: r ∧ x ≤ (st2.buf.drop s).length ∧
      termOf sc2 f2 = termOf sc f := by
  induction sc with
  | nil =>
    intro st reskip f hs ⟨r0, hp⟩ hD hre
    simp only [concat, List.append_nil] at hD
    rw [hD] at hp
    have hfr : Fixed.frame (st.buf.drop s) = some x := by rw [hD]; exact hx
    rcases hre with rfl | hnone
    · unfold Faithful.frameLoop
      have := hSk r
      rw [hx] at this
      simp only [if_true, hD, this]
      have ⟨_, h2, _⟩ := frame_stable _ [] x hx
      exact ⟨st, [], f, rfl, rfl, rfl, hs, by simp [concat, hD], by rw [hD]; exact h2, rfl⟩
    · rw [hfr] at hnone; cases hnone
  | cons hd rest ih =>
    intro st reskip f hs ⟨r0, hp⟩ hD hre
    obtain ⟨d, oe⟩ := hd
    -- either the skip succeeds now, or the buffered prefix has no complete frame yet
    have key : (reskip = true ∧ ∃ x', Fixed.frame (st.buf.drop s) = some x') ∨
        Fixed.frame (st.buf.drop s) = none := by
      cases hf : Fixed.frame (st.buf.drop s) with
      | none => exact Or.inr rfl
      | some x' =>
        rcases hre with rfl | hnone
        · exact Or.inl ⟨rfl, x', rfl⟩
        · rw [hf] at hnone; cases hnone
    rcases key with ⟨rfl, x', hf⟩ | hnone
    · -- frame complete in the buffer: stability gives x' = x
      have ⟨h1, h2, _⟩ := frame_stable _ (concat ((d, oe) :: rest)) x' hf
      rw [hD, hx] at h1
      have hxx : x = x' := by simpa using h1
      subst hxx
      unfold Faithful.frameLoop
      have := hSk r0
      rw [← hp, hf] at this
      simp only [if_true, this]
      exact ⟨st, _, f, rfl, rfl, rfl, hs, hD, h2, rfl⟩
    · -- not complete: the skip (if attempted) reports end of input, more is read
      have hskip : (if reskip = true then skipOneFast (st.buf.drop s) else SkipRes.eof) = SkipRes.eof := by
        cases reskip with
        | false => rfl
        | true =>
          have := hSk r0
          rw [← hp, hnone] at this
          simpa using this
      have hdrop : (st.buf ++ d).drop s = st.buf.drop s ++ d := List.drop_append_of_le_length hs
      unfold Faithful.frameLoop
      rw [hskip]
      cases oe with
      | none =>
        simp only
        have hD' : (st.buf.drop s ++ d) ++ concat rest = c :: r := by
          rw [List.append_assoc]; simpa [concat] using hD
        cases hsc : scan { append st d with scanp := st.buf.length } with
        | some p =>
          obtain ⟨c', st2⟩ := p
          have ⟨e1, _⟩ := scan_some _ c' st2 hsc
          simp only
          have hb : st2.buf = st.buf ++ d := by rw [e1]; simp [append]
          have := ih st2 true f (by rw [hb]; simp; omega) ⟨r0 ++ d, by rw [hb, hdrop, hp]; rfl⟩
            (by rw [hb, hdrop]; exact hD') (Or.inl rfl)
          obtain ⟨st3, sc3, f3, g0, g1, g2, g3, g4, g5, g6⟩ := this
          refine ⟨st3, sc3, f3, g0, ?_, ?_, g3, g4, g5, by simpa [termOf] using g6⟩
          · rw [g1, e1]; simp [append]
          · rw [g2, e1]; simp [append]
        | none =>
          simp only
          have hws := (scan_none _).mp hsc
          rw [scan_at_end] at hws
          have hfn : Fixed.frame ((st.buf ++ d).drop s) = none := by
            rw [hdrop, hp]; rw [hp] at hnone
            exact hWs r0 d (concat rest) (by rw [← hp]; exact hD') hnone hws
          have := ih { append st d with scanp := st.buf.length } false f
            (by simp [append]; omega) ⟨r0 ++ d, by simp only [append]; rw [hdrop, hp]; rfl⟩
            (by simp only [append]; rw [hdrop]; exact hD') (Or.inr (by simpa [append] using hfn))
          obtain ⟨st3, sc3, f3, g0, g1, g2, g3, g4, g5, g6⟩ := this
          exact ⟨st3, sc3, f3, g0, by rw [g1]; simp [append], by rw [g2]; simp [append], g3, g4, g5,
            by simpa [termOf] using g6⟩
      | some e =>
        simp only
        have hD' : st.buf.drop s ++ d = c :: r := by simpa [concat] using hD
        cases hsc : scan { append st d with scanp := st.buf.length } with
        | some p =>
          obtain ⟨c', st2⟩ := p
          have ⟨e1, _⟩ := scan_some _ c' st2 hsc
          simp only
          have hb : st2.buf = st.buf ++ d := by rw [e1]; simp [append]
          have hsk := hSk r
          rw [hx] at hsk
          rw [hb, hdrop, hD', hsk]
          simp only
          have ⟨_, h2, _⟩ := frame_stable _ [] x hx
          refine ⟨st2, [], e, rfl, ?_, ?_, by rw [hb]; simp; omega, by rw [hb, hdrop]; simpa [concat] using hD',
            by rw [hb, hdrop, hD']; exact h2, by simp [termOf]⟩
          · rw [e1]; simp [append]
          · rw [e1]; simp [append]
        | none =>
          have hws := (scan_none _).mp hsc
          rw [scan_at_end] at hws
          rw [hp] at hnone
          have := hWs r0 d [] (by rw [List.append_nil, ← hp]; exact hD') hnone hws
          rw [← hp, hD', hx] at this
          cases this





/-- `t`, `n`, `f` -/
def isLiteralStart (c : UInt8) : Bool := c == 116 || c == 110 || c == 102

theorem numStart_facts : ∀ c : UInt8, isNumStart c = true →
    Fixed.kindOf c = .number ∧ (c == 93 || c == 125) = false := by
  apply forall_uint8
  decide +kernel

theorem literalStart_facts : ∀ c : UInt8, isLiteralStart c = true →
    Fixed.kindOf c = .delimited ∧ (c == 93 || c == 125) = false ∧ isSpace c = false ∧
    (c == 91) = false ∧ (c == 123) = false ∧ (c == 34) = false ∧ isNumStart c = false ∧ (c == 0) = false := by
  apply forall_uint8
  decide +kernel

theorem delimStart_kind : ∀ c : UInt8, isDelimStart c = true → Fixed.kindOf c = .delimited := by
  apply forall_uint8
  decide +kernel

/-- on a literal the native skip and the lexical frame agree -/
theorem skipOneFast_lit (c : UInt8) (r : Bytes) (hc : isLiteralStart c = true) :
    skipOneFast (c :: r) = match Fixed.frame (c :: r) with
      | some x => .ok 0 x
      | none => .eof := by
  have ⟨_, _, h3, h4, h5, h6, h7, h8⟩ := literalStart_facts c hc
  simp only [skipOneFast, Fixed.frame, wsLen, h3, Bool.false_eq_true, if_false, List.drop_zero, h4, h5, h6, h7]
  simp only [isLiteralStart, Bool.or_eq_true] at hc
  by_cases htn : (c == 116 || c == 110) = true
  · simp only [htn, if_true]
    split <;> simp
  · have hf : (c == 102) = true := by
      simp only [Bool.or_eq_true] at htn
      rcases hc with (h | h) | h
      · exact absurd (Or.inl h) htn
      · exact absurd (Or.inr h) htn
      · exact h
    simp only [htn, Bool.false_eq_true, if_false, hf, if_true]
    split <;> simp

theorem frame_lit (c : UInt8) (r : Bytes) (hc : isLiteralStart c = true) (x : Nat)
    (h : Fixed.frame (c :: r) = some x) : (x = 4 ∨ x = 5) ∧ x ≤ (c :: r).length := by
  have ⟨_, _, _, h4, h5, h6, h7, _⟩ := literalStart_facts c hc
  simp only [Fixed.frame, h4, h5, h6, h7, Bool.false_eq_true, if_false] at h
  split at h
  · split at h
    · simp at h; subst h; simp; omega
    · simp at h
  · split at h
    · split at h
      · simp at h; subst h; simp; omega
      · simp at h
    · simp at h

/-- length of the literal that starts with `c` -/
def litLen (c : UInt8) : Nat := if c == 102 then 5 else 4

theorem frame_lit_eq (c : UInt8) (r : Bytes) (hc : isLiteralStart c = true) :
    Fixed.frame (c :: r) = if litLen c ≤ (c :: r).length then some (litLen c) else none := by
  have ⟨_, _, _, h4, h5, h6, h7, _⟩ := literalStart_facts c hc
  simp only [Fixed.frame, h4, h5, h6, h7, Bool.false_eq_true, if_false, litLen, List.length_cons]
  simp only [isLiteralStart, Bool.or_eq_true] at hc
  by_cases htn : (c == 116 || c == 110) = true
  · have hf : (c == 102) = false := by
      simp only [Bool.or_eq_true, beq_iff_eq] at htn
      rcases htn with h | h <;> subst h <;> decide
    simp only [htn, if_true, hf, Bool.false_eq_true, if_false]
    by_cases h3 : 3 ≤ r.length
    · simp [h3]
    · simp [h3]
  · have hf : (c == 102) = true := by
      simp only [Bool.or_eq_true] at htn
      rcases hc with (h | h) | h
      · exact absurd (Or.inl h) htn
      · exact absurd (Or.inr h) htn
      · exact h
    simp only [htn, Bool.false_eq_true, if_false, hf, if_true]
    by_cases h4' : 4 ≤ r.length
    · simp [h4']
    · simp [h4']

/-- white space cannot complete a literal none of whose bytes is a space -/
theorem frame_lit_none_append_ws (c : UInt8) (r : Bytes) (hc : isLiteralStart c = true) (x : Nat)
    (hx : Fixed.frame (c :: r) = some x) (hns : ∀ b ∈ (c :: r).take x, isSpace b = false) :
    ∀ r0 d t, c :: r0 ++ d ++ t = c :: r → Fixed.frame (c :: r0) = none →
      wsLen d = d.length → Fixed.frame (c :: r0 ++ d) = none := by
  intro r0 d t heq hnone hws
  rw [frame_lit_eq c r hc] at hx
  rw [frame_lit_eq c r0 hc] at hnone
  have hx' : x = litLen c ∧ litLen c ≤ (c :: r).length := by
    split at hx
    · simp at hx; exact ⟨hx.symm, by assumption⟩
    · simp at hx
  have hshort : (c :: r0).length < litLen c := by
    split at hnone
    · simp at hnone
    · omega
  cases d with
  | nil =>
    rw [List.append_nil, frame_lit_eq c r0 hc]
    exact hnone
  | cons e d' =>
    have ⟨he, _⟩ := allWs_cons e d' hws
    exfalso
    have hmem : e ∈ (c :: r).take x := by
      rw [← heq, hx'.1]
      have : c :: r0 ++ e :: d' ++ t = (c :: r0) ++ (e :: (d' ++ t)) := by simp
      rw [this, List.take_append]
      apply List.mem_append_right
      have hpos : 0 < litLen c - (c :: r0).length := by omega
      cases hk : litLen c - (c :: r0).length with
      | zero => omega
      | succ k => simp
    have := hns e hmem
    rw [he] at this
    cases this



section generic
variable {V : Type} (dec : Bytes → Option (V × Nat))

/-- the condition under which one `Decode` call of the shipped decoder does what the specification
    says: the rest of the stream is white space only, or starts with a complete value that the
    inner decoder accepts and consumes entirely and that is
    * a string, array or object, or
    * a literal `true`/`false`/`null` (no white space inside its frame), or
    * a number that the FIRST framing attempt - the native skip on what is buffered when the call
      starts looking - frames exactly: no cut inside or directly after the number (its digits do not
      touch the end of the buffer unless the stream ends there), and nothing behind it is dragged
      into the frame (fewer than 16 bytes buffered behind its first byte, see `skipOneFast_number_whole`) -/
def Faithful.StepSafe (st : DState) (sc : Script) (f : RErr) : Prop :=
  dropWs (st.buf ++ concat sc) = [] ∨
  ∃ c r x v, dropWs (st.buf ++ concat sc) = c :: r ∧ dec ((c :: r).take x) = some (v, x) ∧
    ((isDelimStart c = true ∧ Fixed.frame (c :: r) = some x) ∨
     (isLiteralStart c = true ∧ Fixed.frame (c :: r) = some x ∧ ∀ b ∈ (c :: r).take x, isSpace b = false) ∨
     (isNumStart c = true ∧ specFrame false true (termOf sc f) (c :: r) = some x ∧ 0 < x ∧
      ∀ c' st1 sc1 f1, peek st sc f = (some c', st1, sc1, f1) →
        skipOneFast (pending st1) = .ok 0 x ∧ x ≤ (pending st1).length))

/-- every `Decode` call of a run (at most `n` calls) satisfies `StepSafe` -/
def Faithful.RunSafe : Nat → DState → Script → RErr → Prop
  | 0, _, _, _ => True
  | n + 1, st, sc, f => Faithful.StepSafe dec st sc f ∧
      ∀ v st' sc' f', Faithful.decode dec st sc f = (.value v, st', sc', f') →
        Faithful.RunSafe n st' sc' f'

theorem Faithful.frameLoop_first_ok (st : DState) (s : Nat) (sc : Script) (f : RErr) (y x : Nat)
    (h : skipOneFast (st.buf.drop s) = .ok y x) :
    Faithful.frameLoop st s true sc f = .ok st y x sc f := by
  cases sc with
  | nil => unfold Faithful.frameLoop; simp [h]
  | cons hd rest => obtain ⟨d, oe⟩ := hd; unfold Faithful.frameLoop; simp [h]

/-- one `Decode` of the shipped decoder under `StepSafe` is one step of the specification -/
theorem Faithful.decode_safe (st : DState) (sc : Script) (f : RErr) (h0 : st.scanp = 0)
    (he : st.err = none) (hs : Faithful.StepSafe dec st sc f) :
    match specStep dec false (termOf sc f) (st.buf ++ concat sc) with
    | .done t => ∃ st' sc' f', Faithful.decode dec st sc f = (.error t, st', sc', f')
    | .val v rest => ∃ st' sc' f', Faithful.decode dec st sc f = (.value v, st', sc', f') ∧
        st'.scanp = 0 ∧ st'.err = none ∧ dropWs (st'.buf ++ concat sc') = dropWs rest ∧
        termOf sc' f' = termOf sc f := by
  rcases hs with hnil | ⟨c, r, x, v, hd, hdec, hkind⟩
  · rw [specStep_end dec _ _ hnil]
    exact Faithful.decode_end dec st sc f h0 he hnil
  · -- the specification's step
    have hspec : specStep dec false (termOf sc f) (st.buf ++ concat sc) = .val v ((c :: r).drop x) := by
      rcases hkind with ⟨hc, hx⟩ | ⟨hc, hx, _⟩ | ⟨hc, hx, hpos, _⟩
      · exact specStep_delim dec _ _ c r x v hd hc hx hdec
      · have ⟨hk, _⟩ := literalStart_facts c hc
        have ⟨_, _, hpos⟩ := frame_stable _ [] x hx
        have hne : ¬(x = 0 ∨ x < x) := by omega
        simp only [specStep, hd, specStepCore, hk, specFrame, hx, hdec, hne]
        simp
      · have ⟨hk, _⟩ := numStart_facts c hc
        have hne : ¬(x = 0 ∨ x < x) := by omega
        simp only [specStep, hd, specStepCore, hk]
        simp only [reduceCtorEq, if_false, beq_self_eq_true]
        rw [hx]
        simp only [hdec, hne, if_false]
    rw [hspec]
    simp only
    -- the decoder's step
    have hp := peek_spec sc st f
    have hpend : pending st = st.buf := by simp [pending, h0]
    rw [hpend] at hp
    have hcl : (c == 93 || c == 125) = false := by
      rcases hkind with ⟨hc, _⟩ | ⟨hc, _⟩ | ⟨hc, _⟩
      · exact (isDelimStart_kind c hc).2
      · exact (literalStart_facts c hc).2.1
      · exact (numStart_facts c hc).2
    unfold Faithful.decode
    rw [he]
    simp only
    rcases hpk : peek st sc f with ⟨oc, st1, sc1, f1⟩
    rw [hpk] at hp
    cases oc with
    | none => simp only at hp; rw [hd] at hp; simp at hp
    | some c' =>
      simp only at hp ⊢
      obtain ⟨h1, h2, ⟨r0, h3⟩, h4, _⟩ := hp
      rw [hd] at h2
      have hcc : c' = c := by rw [h3] at h2; simp at h2; exact h2.1
      subst hcc
      simp only [hcl, Bool.false_eq_true, if_false]
      have hs' : st1.scanp ≤ st1.buf.length := by
        have : (pending st1).length = st1.buf.length - st1.scanp := by simp [pending]
        rw [h3] at this; simp at this; omega
      have hfl : ∃ st2 sc2 f2, Faithful.frameLoop st1 st1.scanp true sc1 f1 = .ok st2 0 x sc2 f2 ∧
          st2.err = st1.err ∧ st2.scanned = st1.scanned ∧ st1.scanp ≤ st2.buf.length ∧
          st2.buf.drop st1.scanp ++ concat sc2 = c' :: r ∧ x ≤ (st2.buf.drop st1.scanp).length ∧
          termOf sc2 f2 = termOf sc1 f1 := by
        rcases hkind with ⟨hc, hx⟩ | ⟨hc, hx, hns⟩ | ⟨hc, _, _, hfirst⟩
        · exact Faithful.frameLoop_framable st1.scanp c' r x (fun r' => skipOneFast_delim c' r' hc)
            (fun r0 d _ _ hn hw => frame_none_append_ws c' r0 d hc hn hw) hx sc1 st1 true f1 hs'
            ⟨r0, h3⟩ h2 (Or.inl rfl)
        · exact Faithful.frameLoop_framable st1.scanp c' r x (fun r' => skipOneFast_lit c' r' hc)
            (frame_lit_none_append_ws c' r hc x hx hns) hx sc1 st1 true f1 hs' ⟨r0, h3⟩ h2 (Or.inl rfl)
        · have ⟨g1, g2⟩ := hfirst c' st1 sc1 f1 hpk
          exact ⟨st1, sc1, f1, Faithful.frameLoop_first_ok st1 st1.scanp sc1 f1 0 x g1, rfl, rfl, hs', h2, g2, rfl⟩
      obtain ⟨st2, sc2, f2, g0, g1, g2, g3, g4, g5, g6⟩ := hfl
      rw [g0]
      simp only [Nat.zero_add, Nat.add_sub_cancel]
      have htake : (st2.buf.drop st1.scanp).take x = (c' :: r).take x := by
        rw [← g4, List.take_append_of_le_length g5]
      rw [htake, hdec]
      simp only
      refine ⟨_, _, _, rfl, ?_⟩
      have hfin := finish_spec { st2 with scanp := x + st1.scanp } (concat sc2)
      obtain ⟨q1, q2, q3, _⟩ := hfin
      refine ⟨q1, by rw [q2]; simp [g1, h1, he], ?_, by rw [g6, h4]⟩
      rw [q3]
      have : pending { st2 with scanp := x + st1.scanp } = (st2.buf.drop st1.scanp).drop x := by
        simp [pending, List.drop_drop, Nat.add_comm]
      rw [this, ← g4, List.drop_append_of_le_length g5]

theorem Faithful.run_eq_safe (fuel : Nat) : ∀ (st : DState) (sc : Script) (f : RErr),
    st.scanp = 0 → st.err = none → Faithful.RunSafe dec fuel st sc f →
    run (Faithful.decode dec) fuel st sc f =
      decodeAllFuel dec false (termOf sc f) fuel (st.buf ++ concat sc) := by
  induction fuel with
  | zero => intro st sc f _ _ _; rfl
  | succ fuel ih =>
    intro st sc f h0 he hsafe
    obtain ⟨hstep, hnext⟩ := hsafe
    have := Faithful.decode_safe dec st sc f h0 he hstep
    unfold run decodeAllFuel
    cases hs : specStep dec false (termOf sc f) (st.buf ++ concat sc) with
    | done t =>
      rw [hs] at this; simp only at this
      obtain ⟨st', sc', f', heq⟩ := this
      rw [heq]
    | val v rest =>
      rw [hs] at this; simp only at this
      obtain ⟨st', sc', f', heq, q1, q2, q3, q4⟩ := this
      rw [heq]
      simp only
      rw [ih st' sc' f' q1 q2 (hnext v st' sc' f' heq), q4]
      -- the specification only looks at the data behind the leading white space
      have : ∀ n a b, dropWs a = dropWs b →
          decodeAllFuel dec false (termOf sc f) n a = decodeAllFuel dec false (termOf sc f) n b := by
        intro n a b hab
        cases n with
        | zero => rfl
        | succ n => unfold decodeAllFuel; rw [specStep_congr dec false _ a b hab]
      rw [this fuel _ _ q3]

/-- under `RunSafe` the shipped decoder computes the specification -/
theorem Faithful.outputs_eq_safe (sc : Script) (f : RErr)
    (h : Faithful.RunSafe dec ((concat sc).length + 1) {} sc f) :
    Faithful.outputs dec sc f = decodeAllStop dec (concat sc) (termOf sc f) := by
  unfold Faithful.outputs decodeAllStop
  have := Faithful.run_eq_safe dec _ {} sc f rfl rfl h
  simpa using this

end generic



theorem numChar_not_stop : ∀ b : UInt8, isNumChar b = true → (isStruct b || isSpace b) = false := by
  apply forall_uint8
  decide +kernel

theorem numStart_not_space : ∀ c : UInt8, isNumStart c = true →
    isSpace c = false ∧ (c == 91) = false ∧ (c == 123) = false ∧ (c == 34) = false ∧ isNumChar c = true := by
  apply forall_uint8
  decide +kernel

theorem findIdx_numRun (l : Bytes) (e : UInt8) (t : Bytes)
    (h : l.drop (numRun l) = e :: t) (he : (isStruct e || isSpace e) = true) :
    findIdx (fun c => isStruct c || isSpace c) l = some (numRun l) := by
  induction l with
  | nil => simp [numRun] at h
  | cons b l ih =>
    rw [numRun] at h ⊢
    by_cases hb : isNumChar b = true
    · simp only [hb, if_true, List.drop_succ_cons] at h ⊢
      rw [findIdx]
      simp only [numChar_not_stop b hb, Bool.false_eq_true, if_false, ih h, Option.map_some]
    · simp only [hb, Bool.false_eq_true, if_false, List.drop_zero, List.cons.injEq] at h ⊢
      obtain ⟨rfl, _⟩ := h
      rw [findIdx]; simp [he]

/-- a sufficient condition, in plain terms, for the number clause of `Faithful.StepSafe`: the
    buffer holds at most 16 bytes from the first byte of the number on, the digits of the number
    end inside the buffer, and the byte behind them is white space or one of `}` `]` `,` -/
theorem skipOneFast_number_whole (c : UInt8) (r' : Bytes) (e : UInt8) (t : Bytes)
    (hc : isNumStart c = true) (hlen : (c :: r').length ≤ 16)
    (hnext : (c :: r').drop (numRun (c :: r')) = e :: t) (he : (isStruct e || isSpace e) = true) :
    skipOneFast (c :: r') = .ok 0 (numRun (c :: r')) := by
  have ⟨h1, h2, h3, h4, h5⟩ := numStart_not_space c hc
  have hrun : numRun (c :: r') = numRun r' + 1 := by rw [numRun]; simp [h5]
  rw [hrun] at hnext ⊢
  simp only [List.drop_succ_cons] at hnext
  have hk : r'.length / 16 * 16 = 0 := by
    simp only [List.length_cons] at hlen
    have : r'.length / 16 = 0 := Nat.div_eq_of_lt (by omega)
    rw [this]
  have hsn : skipNumberFast r' = numRun r' := by
    unfold skipNumberFast
    simp only [hk, List.take_zero, findIdx, List.drop_zero, findIdx_numRun r' e t hnext he, Nat.zero_add]
  simp only [skipOneFast, wsLen, h1, Bool.false_eq_true, if_false, List.drop_zero, h2, h3, h4, hc, if_true, hsn]
  congr 1
  omega


end SonicSpec.IO
