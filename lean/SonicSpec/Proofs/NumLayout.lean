/-
  Helper lemmas for C19: the two layouts of encoding/json (`%e` with cleaned exponent, `%f`) of a digit
  string parse back (`parseDec`) to the decimal they denote.
-/
import SonicSpec.Proofs.NumInt
import SonicSpec.Proofs.NumTotal
namespace SonicSpec.Num

theorem isDigit_48 : isDigit 48 = true := by decide
theorem digitVal_48 : digitVal 48 = 0 := by decide

theorem allDigits_zeros (n : Nat) : AllDigits (zeros n) := by
  intro c hc
  simp only [zeros, List.mem_replicate] at hc
  rw [hc.2]; decide

theorem digitsValFrom_zeros (acc n : Nat) : digitsValFrom acc (zeros n) = acc * 10 ^ n := by
  induction n generalizing acc with
  | zero => simp [zeros, digitsValFrom]
  | succ n ih =>
    have : zeros (n + 1) = 48 :: zeros n := by simp [zeros, List.replicate_succ]
    rw [this]
    simp only [digitsValFrom, List.foldl_cons, digitVal_48, Nat.add_zero]
    have := ih (acc * 10)
    simp only [digitsValFrom] at this
    rw [this, Nat.pow_succ]; ac_rfl

theorem allDigits_append {a b : Bytes} (ha : AllDigits a) (hb : AllDigits b) : AllDigits (a ++ b) := by
  intro c hc
  rcases List.mem_append.mp hc with h | h
  · exact ha c h
  · exact hb c h

/-- `takeDigits` on a digit string followed by something that does not start with a digit -/
theorem takeDigits_prefix (ds : Bytes) (hd : AllDigits ds) (rest : Bytes)
    (hrest : ∀ c r, rest = c :: r → isDigit c = false) (acc n : Nat) :
    takeDigits (ds ++ rest) acc n = (digitsValFrom acc ds, n + ds.length, rest) := by
  induction ds generalizing acc n with
  | nil =>
    cases rest with
    | nil => simp [takeDigits, digitsValFrom]
    | cons c r =>
      have := hrest c r rfl
      simp [takeDigits, this, digitsValFrom]
  | cons c r ih =>
    have hc : isDigit c = true := hd c (List.mem_cons_self ..)
    have hr : AllDigits r := fun x hx => hd x (List.mem_cons_of_mem _ hx)
    simp only [List.cons_append, takeDigits, if_pos hc]
    rw [ih hr]
    simp only [digitsValFrom, List.foldl_cons, List.length_cons]
    congr 2
    omega

/-- the exponent digits written by `fmtE` -/
theorem parseExpDigits_signed (x : Int) :
    parseExpDigits ((if x < 0 then 45 else 43) :: natDigits x.natAbs) = some x := by
  obtain ⟨h1, h2, h3, _⟩ := natDigits_spec x.natAbs
  have htd := takeDigits_all (natDigits x.natAbs) h2 0 0
  have hlen : (natDigits x.natAbs).length ≠ 0 := by
    intro h; exact h1 (List.eq_nil_of_length_eq_zero h)
  by_cases hx : x < 0
  · simp only [if_pos hx, parseExpDigits, htd, ← digitsVal_eq, h3]
    simp [hlen]; omega
  · simp only [if_neg hx, parseExpDigits, htd, ← digitsVal_eq, h3]
    simp [hlen]; omega

theorem parseExp_exponent (neg : Bool) (m nfrac : Nat) (hasFrac : Bool) (x : Int) :
    parseExp neg m nfrac hasFrac ([101, if x < 0 then 45 else 43] ++ natDigits x.natAbs) =
      some { neg := neg, m := m, e := x - (nfrac : Int), isInt := false } := by
  have := parseExpDigits_signed x
  simp only [List.cons_append, List.nil_append, parseExp]
  simp [this]

theorem parseExp_nil (neg : Bool) (m nfrac : Nat) (hasFrac : Bool) :
    parseExp neg m nfrac hasFrac [] = some { neg := neg, m := m, e := - (nfrac : Int), isInt := !hasFrac } := rfl

/-- digit strings of a positive number start with a non-zero digit -/
theorem natDigits_head (d : Nat) (hd : d ≠ 0) :
    ∃ c r, natDigits d = c :: r ∧ (c == 48) = false ∧ (49 ≤ c && c ≤ 57) = true ∧ AllDigits r := by
  obtain ⟨h1, h2, h3, h4⟩ := natDigits_spec d
  cases hds : natDigits d with
  | nil => exact absurd hds h1
  | cons c r =>
    rw [hds] at h2 h3 h4
    have hc : isDigit c = true := h2 c (List.mem_cons_self ..)
    have hne : c ≠ 48 := by
      rintro rfl
      have hl := h4 rfl
      have : r = [] := by simpa using hl
      subst this
      simp [digitsVal, digitVal] at h3
      exact hd h3.symm
    refine ⟨c, r, rfl, by simpa using hne, ?_, fun x hx => h2 x (List.mem_cons_of_mem _ hx)⟩
    rcases (isDigit_iff c).mp hc with h | ⟨a, b⟩
    · exact absurd h hne
    · simp [a, b]

theorem parseInt1_nonzero_head (neg : Bool) (c : UInt8) (r : Bytes) (h1 : (c == 48) = false)
    (h2 : (49 ≤ c && c ≤ 57) = true) :
    parseInt1 neg (c :: r) = parseFrac neg (takeDigits (c :: r) 0 0).1 (takeDigits (c :: r) 0 0).2.2 := by
  simp only [parseInt1, h1, h2, Bool.false_eq_true, if_false, if_true]

theorem parseFrac_dot (neg : Bool) (m : Nat) (r : Bytes) :
    parseFrac neg m (46 :: r) =
      if (takeDigits r m 0).2.1 == 0 then none
      else parseExp neg (takeDigits r m 0).1 (takeDigits r m 0).2.1 true (takeDigits r m 0).2.2 := rfl

theorem parseFrac_nodot (neg : Bool) (m : Nat) (s : Bytes) (h : ∀ r, s ≠ 46 :: r) :
    parseFrac neg m s = parseExp neg m 0 false s := by
  unfold parseFrac
  split
  · rename_i r
    exact absurd rfl (h r)
  · rfl

theorem not_digit_101 : ∀ c r, (101 :: (r : Bytes)) = c :: r' → isDigit c = false := by
  intro c r h
  simp only [List.cons.injEq] at h
  rw [← h.1]; decide

theorem not_digit_46 : ∀ c r, (46 :: (r : Bytes)) = c :: r' → isDigit c = false := by
  intro c r h
  simp only [List.cons.injEq] at h
  rw [← h.1]; decide

/-- `%e` layout: `d[.ddd]e±x` denotes `d * 10^(dp - len)` where `x = dp - 1` -/
theorem parse_fmtE (neg : Bool) (d : Nat) (hd : d ≠ 0) (dp : Int) :
    parseInt1 neg (fmtE (natDigits d) dp) =
      some { neg := neg, m := d, e := dp - ((natDigits d).length : Int), isInt := false } := by
  obtain ⟨c, r, hds, hc1, hc2, hr⟩ := natDigits_head d hd
  have hval := (natDigits_spec d).2.2.1
  rw [hds] at hval ⊢
  have hcd : AllDigits [c] := by
    intro x hx
    simp only [List.mem_singleton] at hx
    subst hx
    have := (natDigits_spec d).2.1
    rw [hds] at this
    exact this x (List.mem_cons_self ..)
  cases r with
  | nil =>
    have ht : fmtE [c] dp = [c] ++ ([101, if dp - 1 < 0 then 45 else 43] ++ natDigits (dp - 1).natAbs) := by
      simp [fmtE]
    rw [ht]
    simp only [List.singleton_append]
    rw [parseInt1_nonzero_head neg c _ hc1 hc2]
    have htd := takeDigits_prefix [c] hcd ([101, if dp - 1 < 0 then 45 else 43] ++ natDigits (dp - 1).natAbs)
      (by intro c' r' h; simp only [List.cons_append, List.nil_append, List.cons.injEq] at h; rw [← h.1]; decide) 0 0
    simp only [List.singleton_append] at htd
    rw [htd]
    simp only
    rw [parseFrac_nodot _ _ _ (by intro r' h; simp at h), parseExp_exponent]
    simp only [Option.some.injEq, Dec.mk.injEq, true_and, and_true]
    exact ⟨hval, by simp⟩
  | cons c2 r2 =>
    have ht : fmtE (c :: c2 :: r2) dp =
        [c] ++ (46 :: ((c2 :: r2) ++ ([101, if dp - 1 < 0 then 45 else 43] ++ natDigits (dp - 1).natAbs))) := by
      simp [fmtE]
    rw [ht]
    simp only [List.singleton_append]
    rw [parseInt1_nonzero_head neg c _ hc1 hc2]
    have htd := takeDigits_prefix [c] hcd
      (46 :: ((c2 :: r2) ++ ([101, if dp - 1 < 0 then 45 else 43] ++ natDigits (dp - 1).natAbs)))
      (by intro c' r' h; simp only [List.cons.injEq] at h; rw [← h.1]; decide) 0 0
    simp only [List.singleton_append] at htd
    rw [htd]
    simp only
    rw [parseFrac_dot]
    have htd2 := takeDigits_prefix (c2 :: r2) hr ([101, if dp - 1 < 0 then 45 else 43] ++ natDigits (dp - 1).natAbs)
      (by intro c' r' h; simp only [List.cons_append, List.nil_append, List.cons.injEq] at h; rw [← h.1]; decide)
      (digitsValFrom 0 [c]) 0
    rw [htd2]
    simp only [Nat.zero_add, List.length_cons]
    rw [if_neg (by simp), parseExp_exponent]
    simp only [Option.some.injEq, Dec.mk.injEq, true_and, and_true]
    refine ⟨?_, by first | omega | (simp only [List.length_cons]; omega) | (simp; omega)⟩
    rw [← hval, digitsVal_eq]
    simp [digitsValFrom]

/-- `%f` layout: plain decimal; denotes `d * 10^(dp - len)` (as an integer literal when `dp ≥ len`) -/
theorem parse_fmtF (neg : Bool) (d : Nat) (hd : d ≠ 0) (dp : Int) :
    ∃ m e isI, parseInt1 neg (fmtF (natDigits d) dp) = some { neg := neg, m := m, e := e, isInt := isI } ∧
      ((m = d ∧ e = dp - ((natDigits d).length : Int)) ∨
       (0 ≤ dp - ((natDigits d).length : Int) ∧ m = d * 10 ^ (dp - ((natDigits d).length : Int)).toNat ∧ e = 0)) := by
  obtain ⟨hne, hall, hval, _⟩ := natDigits_spec d
  obtain ⟨c, r, hds, hc1, hc2, hr⟩ := natDigits_head d hd
  have hL : 1 ≤ (natDigits d).length := by rw [hds]; simp
  generalize hdsdef : natDigits d = ds at *
  simp only [fmtF]
  split
  · -- 0.000ddd
    rename_i hdp
    refine ⟨d, dp - (ds.length : Int), false, ?_, Or.inl ⟨rfl, rfl⟩⟩
    have ht : [48, 46] ++ zeros (-dp).toNat ++ ds = 48 :: 46 :: (zeros (-dp).toNat ++ ds) := by simp
    rw [ht]
    have h0 : parseInt1 neg (48 :: 46 :: (zeros (-dp).toNat ++ ds)) =
        parseFrac neg 0 (46 :: (zeros (-dp).toNat ++ ds)) := by simp [parseInt1]
    rw [h0, parseFrac_dot, takeDigits_all _ (allDigits_append (allDigits_zeros _) hall) 0 0]
    simp only [Nat.zero_add, List.length_append]
    rw [if_neg (by simp only [beq_iff_eq]; omega), parseExp_nil]
    simp only [Option.some.injEq, Dec.mk.injEq, true_and, Bool.not_true, and_true]
    refine ⟨?_, ?_⟩
    · rw [digitsValFrom_append, digitsValFrom_zeros, Nat.zero_mul, ← digitsVal_eq, hval]
    · simp only [zeros, List.length_replicate]; omega
  · split
    · -- ddd000
      rename_i hdp hge
      have hk : 0 ≤ dp - (ds.length : Int) := by omega
      refine ⟨d * 10 ^ (dp - (ds.length : Int)).toNat, 0, true, ?_, Or.inr ⟨hk, rfl, rfl⟩⟩
      have hne' : ds ++ zeros (dp.toNat - ds.length) ≠ [] := by
        intro h; exact hne (List.append_eq_nil_iff.mp h).1
      have hall' := allDigits_append hall (allDigits_zeros (dp.toNat - ds.length))
      have hz : (ds ++ zeros (dp.toNat - ds.length)).head? = some 48 →
          (ds ++ zeros (dp.toNat - ds.length)).length = 1 := by
        rw [hds]
        simp only [List.cons_append, List.head?_cons, Option.some.injEq]
        intro h
        simp [h] at hc1
      rw [parseInt1_of_digits neg _ hne' hall' hz]
      simp only [Option.some.injEq, Dec.mk.injEq, true_and, and_true]
      rw [digitsVal_eq, digitsValFrom_append, digitsValFrom_zeros, ← digitsVal_eq, hval]
      congr 2
      omega
    · -- dd.ddd
      rename_i hdp hlt
      refine ⟨d, dp - (ds.length : Int), false, ?_, Or.inl ⟨rfl, rfl⟩⟩
      have ha1 : 0 < dp.toNat := by omega
      have ha2 : dp.toNat < ds.length := by omega
      have hda : ((dp.toNat : Nat) : Int) = dp := by omega
      generalize dp.toNat = a at *
      have htake : ds.take a = c :: r.take (a - 1) := by
        rw [hds]
        obtain ⟨a', rfl⟩ : ∃ a', a = a' + 1 := ⟨a - 1, by omega⟩
        simp
      have halltake : AllDigits (ds.take a) := fun x hx => hall x (List.mem_of_mem_take hx)
      have halldrop : AllDigits (ds.drop a) := fun x hx => hall x (List.mem_of_mem_drop hx)
      have ht : ds.take a ++ [46] ++ ds.drop a = c :: (r.take (a - 1) ++ 46 :: ds.drop a) := by
        rw [htake]; simp
      rw [ht, parseInt1_nonzero_head neg c _ hc1 hc2]
      have htd := takeDigits_prefix (ds.take a) halltake (46 :: ds.drop a)
        (by intro c' r' h; simp only [List.cons.injEq] at h; rw [← h.1]; decide) 0 0
      rw [htake] at htd
      simp only [List.cons_append] at htd
      rw [htd]
      simp only
      rw [parseFrac_dot, takeDigits_all _ halldrop]
      simp only [Nat.zero_add, List.length_drop]
      rw [if_neg (by simp only [beq_iff_eq]; omega), parseExp_nil]
      simp only [Option.some.injEq, Dec.mk.injEq, true_and, Bool.not_true, and_true]
      refine ⟨?_, by omega⟩
      rw [← htake, ← digitsValFrom_append, List.take_append_drop, ← digitsVal_eq, hval]

end SonicSpec.Num
