/-
  C06 helper lemmas, part 3: every public call of the heap model keeps the ownership invariant,
  never faults under the contracts, and returns the bytes its specification names.
-/
import SonicSpec.Proofs.OwnHeap
namespace SonicSpec.Own
open SonicSpec

structure Ctx.OK (c : Ctx) : Prop where
  env : c.env.OK
  nat : c.nat.OK

theorem Ran.held {st st' : State} {id id' : Nat} {b : Buf} {sb : SBuf} (hr : Ran st st' id id' b sb)
    (ho : b.owner = .internal) : Held st' id' := by
  refine ⟨_, hr.cell, ?_⟩
  simp only [ho, ite_self]

theorem Ran.bytesOf {st st' : State} {id id' : Nat} {b : Buf} {sb : SBuf} (hr : Ran st st' id id' b sb) :
    st'.bytesOf id' = sb.mem.take sb.len := bytesOf_cell hr.cell

theorem held_bytes_frame {st st' : State} {j : Nat} (h : st'.heap[j]? = st.heap[j]?) :
    (Held st j → Held st' j) ∧ st'.bytesOf j = st.bytesOf j := by
  refine ⟨?_, ?_⟩
  · rintro ⟨b, hb, ho⟩; exact ⟨b, by rw [h]; exact hb, ho⟩
  · simp only [State.bytesOf, h]

/-- acquire an array from a pool (or a fresh one) and run an appending computation on it -/
theorem acquire_run {st : State} (h : Inv st) (env : Env) (k : PoolKind) (dflt pick : Nat)
    {f : SBuf → Except Fault (SBuf × Bool)} {x : Bytes} {err : Bool}
    (hf : ∀ b : SBuf, b.len = 0 → b.gen = 0 → ∃ sb, f b = .ok (sb, err) ∧ Ext b sb x) :
    ∃ st1 id1, (st.acquire env k dflt pick).1.runOn (st.acquire env k dflt pick).2 none f = .ok (st1, id1, err) ∧
      Inv st1 ∧ Held st1 id1 ∧ st1.bytesOf id1 = x ∧ st1.results = st.results ∧ st1.inputs = st.inputs ∧
      (∀ j, Held st j → Held st1 j ∧ j ≠ id1 ∧ st1.bytesOf j = st.bytesOf j) := by
  have ha := acquire_ok h env k dflt pick
  obtain ⟨mem, hcell⟩ := ha.cell
  obtain ⟨sb, hfs, hx⟩ := hf { mem := mem, len := 0, gen := 0 } rfl rfl
  obtain ⟨st1, id1, hrun, hr⟩ := runOn_ok ha.inv hcell (lent := none) (Or.inl rfl) hfs hx
  refine ⟨st1, id1, hrun, hr.inv, hr.held rfl, ?_, by rw [hr.results, ha.results], by rw [hr.inputs, ha.inputs], ?_⟩
  · rw [hr.bytesOf]
    have := hx.bytes
    simpa [SBuf.bytes] using this
  · intro j hj
    have hja : j ≠ (st.acquire env k dflt pick).2 := by
      intro e; rw [e] at hj; exact ha.notHeld hj
    have hj1 : j ≠ id1 := by
      intro e
      by_cases e2 : id1 = (st.acquire env k dflt pick).2
      · exact hja (e.trans e2)
      · have := hr.fresh e2
        rw [← e, ha.frame j hja] at this
        obtain ⟨b, hb, _⟩ := hj
        rw [hb] at this; cases this
    have hfr : st1.heap[j]? = st.heap[j]? := by rw [hr.frame j hj1, ha.frame j hja]
    exact ⟨(held_bytes_frame hfr).1 hj, hj1, (held_bytes_frame hfr).2⟩

theorem stepOK_of_eq {st st' : State} (hi : Inv st') (hr : st'.results = st.results) : StepOK st st' :=
  ⟨hi, [], by rw [hr]; rfl⟩

theorem StepOK.chain {st st1 st' : State} (h : StepOK st1 st') (hr : st1.results = st.results) : StepOK st st' := by
  obtain ⟨new, hn⟩ := h.mono
  exact ⟨h.inv, new, by rw [hn, hr]⟩

/-! ### slice-level EncodeInto -/

/-- the text EncodeInto appends -/
def finishText (o : Opts) (toks : List Tok) : Bytes :=
  if hasBad toks = false ∧ o.escapeHTML = true then htmlEscape (renderToks toks) else renderToks toks

theorem truncate_ext {b b1 : SBuf} {x : Bytes} (h : Ext b b1 x) (hwf : b.WF) :
    Ext b { b1 with len := b.len } [] := by
  have hl := h.len
  have hw := h.wf
  unfold SBuf.WF at hw hwf
  refine ⟨by simp only [SBuf.WF]; omega, ?_, by simp, h.gen_le, h.same⟩
  have hb := h.bytes
  simp only [SBuf.bytes] at hb ⊢
  have : (b1.mem.take b1.len).take b.len = (b.mem.take b.len ++ x).take b.len := by rw [hb]
  rw [List.take_take, List.take_left' (by simp [List.length_take]; omega)] at this
  have hmin : min b.len b1.len = b.len := by omega
  rw [hmin] at this
  simp only [List.append_nil]; exact this

theorem encodeInto_ok {env : Env} (henv : env.OK) {n : Natives} (hn : n.OK) (impl : StrImpl) (o : Opts)
    (b : SBuf) (hwf : b.WF) (v : Val) :
    ∃ sb, encodeInto env n impl o b v = .ok (sb, hasBad (compile v)) ∧ Ext b sb (finishText o (compile v)) := by
  obtain ⟨b1, e1, x1⟩ := encodeToks_ok henv (strEnc_ok henv hn impl) (compile v) b hwf
  by_cases hb : hasBad (compile v) = true
  · rw [hb] at e1
    have e : encodeInto env n impl o b v = .ok (b1, true) := by
      unfold encodeInto; rw [e1]
    rw [hb]
    refine ⟨b1, e, ?_⟩
    simp only [finishText, hb, Bool.true_eq_false, false_and, if_false]; exact x1
  · have hb : hasBad (compile v) = false := by simpa using hb
    rw [hb] at e1
    rw [hb]
    by_cases ho : o.escapeHTML = true
    · have hwf0 : SBuf.WF { mem := [], len := 0, gen := 0 } := by simp [SBuf.WF]
      obtain ⟨t, e2, x2⟩ := htmlEscapeLoop_ok henv hn.html { mem := [], len := 0, gen := 0 } hwf0 (b1.bytes.drop b.len)
      have htr := truncate_ext x1 hwf
      obtain ⟨b2, e3, x3⟩ := SBuf.emit_ok henv htr.wf t.bytes
      have e : encodeInto env n impl o b v = .ok (b2, false) := by
        unfold encodeInto; rw [e1]; simp only [ho, if_true, e2, e3]
      refine ⟨b2, e, ?_⟩
      have htail : b1.bytes.drop b.len = renderToks (compile v) := by
        rw [x1.bytes, List.drop_left' (SBuf.bytes_length hwf)]
      have ht : t.bytes = htmlEscape (renderToks (compile v)) := by
        have := x2.bytes
        rw [htail] at this
        simpa [SBuf.bytes] using this
      simp only [finishText, hb, ho, and_self, if_true]
      have := htr.trans x3
      rw [ht] at this
      simpa using this
    · have ho : o.escapeHTML = false := by simpa using ho
      have e : encodeInto env n impl o b v = .ok (b1, false) := by
        unfold encodeInto; rw [e1]; simp only [ho, Bool.false_eq_true, if_false]
      refine ⟨b1, e, ?_⟩
      simp only [finishText, hb, ho, Bool.false_eq_true, and_false, if_false]; exact x1

/-- (kept under its old name for EncodeIndented, which starts from an empty slice) -/
theorem encodeInto_empty {env : Env} (henv : env.OK) {n : Natives} (hn : n.OK) (impl : StrImpl) (o : Opts)
    (b : SBuf) (hl : b.len = 0) (v : Val) :
    ∃ sb, encodeInto env n impl o b v = .ok (sb, hasBad (compile v)) ∧
      Ext b sb (if hasBad (compile v) = false ∧ o.escapeHTML = true
                then htmlEscape (renderToks (compile v)) else renderToks (compile v)) :=
  encodeInto_ok henv hn impl o b (by simp [SBuf.WF, hl]) v

/-! ### Encode -/

/-- what Marshal returns for a value -/
def specEncode (o : Opts) (v : Val) : Option Bytes :=
  match render v with
  | none => none
  | some t => some (if o.escapeHTML then htmlEscape t else t)

def Ret.matches (r : Ret) (spec : Option Bytes) : Prop :=
  match spec with
  | Option.none => r = .err
  | Option.some t => ∃ id, r = .bytes id t

theorem render_none {v : Val} (h : hasBad (compile v) = true) : render v = none := by
  simp [render, h]

theorem render_some {v : Val} (h : hasBad (compile v) = false) : render v = some (renderToks (compile v)) := by
  simp [render, h]

theorem opEncode_ok {c : Ctx} (hc : c.OK) {st : State} (h : Inv st) (o : Opts) (v : Val) (p1 p2 : Nat) :
    ∃ st' ret, opEncode c st o v p1 p2 = .ok (st', ret) ∧ StepOK st st' ∧ ret.matches (specEncode o v) := by
  obtain ⟨st1, id1, hrun, hi1, hh1, hb1, hr1, hin1, _⟩ :=
    acquire_run h c.env .encBytes c.P.encDefault p1
      (f := encodeToks c.env (strEnc c.env c.nat .jit) (compile v)) (x := renderToks (compile v))
      (err := hasBad (compile v))
      (fun b hl _ => encodeToks_ok hc.env (strEnc_ok hc.env hc.nat .jit) (compile v) b (by simp [SBuf.WF, hl]))
  rcases Bool.eq_false_or_eq_true (hasBad (compile v)) with hbad | hbad
  · -- the encoder returned an error: FreeBytes(buf)
    rw [hbad] at hrun
    have hrel := release_ok hi1 c.P .encBytes hh1
    refine ⟨State.release c.P st1 .encBytes id1, .err, by unfold opEncode; simp only [hrun], stepOK_of_eq hrel.inv (by rw [hrel.results, hr1]), ?_⟩
    simp only [specEncode, render_none hbad, Ret.matches]
  · rw [hbad] at hrun
    rcases Bool.eq_false_or_eq_true o.escapeHTML with ho | ho
    · obtain ⟨st2, id2, hrun2, hi2, hh2, hb2, hr2, _, hfr2⟩ :=
        acquire_run hi1 c.env .encBytes c.P.encDefault p2
          (f := fun sb => (htmlEscapeLoop c.env c.nat.html sb ((st1.acquire c.env .encBytes c.P.encDefault p2).1.bytesOf id1)).map (·, false))
          (x := htmlEscape ((st1.acquire c.env .encBytes c.P.encDefault p2).1.bytesOf id1)) (err := false)
          (fun b hl _ => by
            obtain ⟨sb, e, x⟩ := htmlEscapeLoop_ok hc.env hc.nat.html b (by simp [SBuf.WF, hl]) ((st1.acquire c.env .encBytes c.P.encDefault p2).1.bytesOf id1)
            exact ⟨sb, by simp [e, Except.map], x⟩)
      obtain ⟨hh1', hne, _⟩ := hfr2 id1 hh1
      have hrel := release_ok hi2 c.P .encBytes hh1'
      have hfr : (State.release c.P st2 .encBytes id1).heap[id2]? = st2.heap[id2]? := hrel.frame id2 (Ne.symm hne)
      obtain ⟨hs, rid, hret, _⟩ := finishPooled_ok hrel.inv c.P .encBytes ((held_bytes_frame hfr).1 hh2)
      refine ⟨(finishPooled c.P (State.release c.P st2 .encBytes id1) .encBytes id2).1, (finishPooled c.P (State.release c.P st2 .encBytes id1) .encBytes id2).2, by unfold opEncode; simp only [hrun, ho, if_true, hrun2], hs.chain (by rw [hrel.results, hr2, hr1]), ?_⟩
      simp only [specEncode, render_some hbad, ho, Ret.matches, if_true]
      refine ⟨rid, ?_⟩
      rw [hret, (held_bytes_frame hfr).2, hb2]
      have hsrc : (st1.acquire c.env .encBytes c.P.encDefault p2).1.bytesOf id1 = renderToks (compile v) := by
        have ha := acquire_ok hi1 c.env .encBytes c.P.encDefault p2
        have hja : id1 ≠ (st1.acquire c.env .encBytes c.P.encDefault p2).2 := by
          intro e; rw [e] at hh1; exact ha.notHeld hh1
        rw [(held_bytes_frame (ha.frame id1 hja)).2, hb1]
      rw [hsrc]
    · obtain ⟨hs, rid, hret, _⟩ := finishPooled_ok hi1 c.P .encBytes hh1
      refine ⟨(finishPooled c.P st1 .encBytes id1).1, (finishPooled c.P st1 .encBytes id1).2, by unfold opEncode; simp only [hrun, ho, Bool.false_eq_true, if_false], hs.chain hr1, ?_⟩
      simp only [specEncode, render_some hbad, ho, Ret.matches, Bool.false_eq_true, if_false]
      exact ⟨rid, by rw [hret, hb1]⟩

/-! ### Node.MarshalJSON / Raw -/

def specNode (st : State) : NodeRep → Option (Option Bytes)
  | .raw id =>
    match st.heap[id]? with
    | some b => if b.owner = .caller ∧ id ∉ st.inputs then some (some (b.mem.take b.len)) else none
    | none => none
  | .loaded v => some (render v)

theorem opNode_ok {c : Ctx} (hc : c.OK) {st : State} (h : Inv st) (n : NodeRep) (p : Nat) :
    ∃ st' ret, opNode c st n p = .ok (st', ret) ∧ StepOK st st' ∧
      (∀ s, specNode st n = some s → ret.matches s) := by
  cases n with
  | raw id =>
    cases hb : st.heap[id]? with
    | none =>
      exact ⟨st, .nothing, by unfold opNode; simp only [hb], stepOK_of_eq h rfl, by simp [specNode, hb]⟩
    | some b =>
      by_cases hcnd : b.owner = .caller ∧ id ∉ st.inputs
      · have hg := give_ok h hb (Or.inr hcnd) (off := 0) (n := b.len) (by omega)
        obtain ⟨r, hr, _⟩ := hg.results
        refine ⟨st.give id 0 b.len, .bytes id (b.mem.take b.len), by unfold opNode; simp only [hb, hcnd, not_false_eq_true, and_self, if_true],
          ⟨hg.inv, [r], by rw [hr]; rfl⟩, ?_⟩
        intro s hs
        simp only [specNode, hb, hcnd, not_false_eq_true, and_self, if_true, Option.some.injEq] at hs
        subst hs
        exact ⟨id, rfl⟩
      · exact ⟨st, .nothing, by unfold opNode; simp only [hb, hcnd, if_false], stepOK_of_eq h rfl,
          by simp [specNode, hb, hcnd]⟩
  | loaded v =>
    obtain ⟨st1, id1, hrun, hi1, hh1, hb1, hr1, _, _⟩ :=
      acquire_run h c.env .astBytes c.P.astDefault p
        (f := encodeToks c.env (strEnc c.env c.nat .alg) (compile v)) (x := renderToks (compile v))
        (err := hasBad (compile v))
        (fun b hl _ => encodeToks_ok hc.env (strEnc_ok hc.env hc.nat .alg) (compile v) b (by simp [SBuf.WF, hl]))
    rcases Bool.eq_false_or_eq_true (hasBad (compile v)) with hbad | hbad
    · rw [hbad] at hrun
      have hrel := release_ok hi1 c.P .astBytes hh1
      refine ⟨State.release c.P st1 .astBytes id1, .err, by unfold opNode; simp only [hrun], stepOK_of_eq hrel.inv (by rw [hrel.results, hr1]), ?_⟩
      intro s hs'
      simp only [specNode, Option.some.injEq] at hs'
      subst hs'
      simp only [render_none hbad, Ret.matches]
    · rw [hbad] at hrun
      obtain ⟨hs, rid, hret, _⟩ := finishPooled_ok hi1 c.P .astBytes hh1
      refine ⟨(finishPooled c.P st1 .astBytes id1).1, (finishPooled c.P st1 .astBytes id1).2, by unfold opNode; simp only [hrun], hs.chain hr1, ?_⟩
      intro s hs'
      simp only [specNode, Option.some.injEq] at hs'
      subst hs'
      simp only [render_some hbad, Ret.matches]
      exact ⟨rid, by rw [hret, hb1]⟩

/-! ### EncodeIndented -/

def specIndent (o : Opts) (v : Val) (pre ind : Bytes) : Option Bytes :=
  match render v with
  | none => none
  | some _ => some (indentText o pre ind v)

theorem opIndent_ok {c : Ctx} (hc : c.OK) {st : State} (h : Inv st) (o : Opts) (v : Val) (pre ind : Bytes)
    (p1 p2 : Nat) :
    ∃ st' ret, opIndent c st o v pre ind p1 p2 = .ok (st', ret) ∧ StepOK st st' ∧
      ret.matches (specIndent o v pre ind) := by
  obtain ⟨st1, id1, hrun, hi1, hh1, _, hr1, _, _⟩ :=
    acquire_run h c.env .encBytes c.P.encDefault p1
      (f := (encodeInto c.env c.nat .jit o · v)) (err := hasBad (compile v))
      (fun b hl _ => encodeInto_empty hc.env hc.nat .jit o b hl v)
  rcases Bool.eq_false_or_eq_true (hasBad (compile v)) with hbad | hbad
  · rw [hbad] at hrun
    have hrel := release_ok hi1 c.P .encBytes hh1
    refine ⟨State.release c.P st1 .encBytes id1, .err, by unfold opIndent; simp only [hrun], stepOK_of_eq hrel.inv (by rw [hrel.results, hr1]), ?_⟩
    simp only [specIndent, render_none hbad, Ret.matches]
  · rw [hbad] at hrun
    obtain ⟨st2, id2, hrun2, hi2, hh2, hb2, hr2, _, hfr2⟩ :=
      acquire_run hi1 c.env .encBuffer c.P.encDefault p2
        (f := fun sb => (sb.emit c.env (indentText o pre ind v)).map (·, false))
        (x := indentText o pre ind v) (err := false)
        (fun b hl _ => by
          obtain ⟨sb, e, x⟩ := SBuf.emit_ok hc.env (b := b) (by simp [SBuf.WF, hl]) (indentText o pre ind v)
          exact ⟨sb, by simp [e, Except.map], x⟩)
    obtain ⟨hh1', hne, _⟩ := hfr2 id1 hh1
    have hrel := release_ok hi2 c.P .encBytes hh1'
    have hfr : (State.release c.P st2 .encBytes id1).heap[id2]? = st2.heap[id2]? := hrel.frame id2 (Ne.symm hne)
    obtain ⟨hs, rid, hret, _⟩ := finishPooled_ok hrel.inv c.P .encBuffer ((held_bytes_frame hfr).1 hh2)
    refine ⟨(finishPooled c.P (State.release c.P st2 .encBytes id1) .encBuffer id2).1, (finishPooled c.P (State.release c.P st2 .encBytes id1) .encBuffer id2).2, by unfold opIndent; simp only [hrun, hrun2], hs.chain (by rw [hrel.results, hr2, hr1]), ?_⟩
    simp only [specIndent, render_some hbad, Ret.matches]
    exact ⟨rid, by rw [hret, (held_bytes_frame hfr).2, hb2]⟩

end SonicSpec.Own
