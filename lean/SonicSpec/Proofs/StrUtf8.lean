/-
  Helper lemmas for C20, UTF-8 part: `seqLen` (the transliterated valid_utf8_4byte) against the
  encoder of scalar values.
-/
import SonicSpec.Model.StrUtf8
import SonicSpec.Proofs.U8
namespace SonicSpec.Str

/-! ### shape of the bytes when `seqLen` answers n -/

theorem seqLen_one (b0 : UInt8) (t : Bytes) (h : b0.toNat < 128) : seqLen (b0 :: t) = 1 := by
  simp only [seqLen, UInt8.lt_iff_toNat_lt, UInt8.toNat_ofNat]
  simp [h]

theorem seqLen_two (b0 b1 : UInt8) (t : Bytes) (h0 : 194 ≤ b0.toNat) (h0' : b0.toNat < 224)
    (h1 : 128 ≤ b1.toNat) (h1' : b1.toNat < 192) : seqLen (b0 :: b1 :: t) = 2 := by
  simp only [seqLen, isCont, UInt8.lt_iff_toNat_lt, UInt8.le_iff_toNat_le, UInt8.toNat_ofNat,
    Bool.and_eq_true, decide_eq_true_eq]
  repeat' split
  all_goals omega

theorem seqLen_three (b0 b1 b2 : UInt8) (t : Bytes) (h0 : 224 ≤ b0.toNat) (h0' : b0.toNat < 240)
    (h1 : 128 ≤ b1.toNat) (h1' : b1.toNat < 192) (h2 : 128 ≤ b2.toNat) (h2' : b2.toNat < 192)
    (ha : b0.toNat = 224 → 160 ≤ b1.toNat) (hb : b0.toNat = 237 → b1.toNat < 160) :
    seqLen (b0 :: b1 :: b2 :: t) = 3 := by
  simp only [seqLen, isCont, UInt8.lt_iff_toNat_lt, UInt8.le_iff_toNat_le, UInt8.toNat_ofNat,
    Bool.and_eq_true, decide_eq_true_eq, Bool.not_eq_true', Bool.and_eq_false_iff, beq_eq_false_iff_ne, ne_eq,
    decide_eq_false_iff_not, ← UInt8.toNat_inj]
  repeat' split
  all_goals omega

theorem seqLen_four (b0 b1 b2 b3 : UInt8) (t : Bytes) (h0 : 240 ≤ b0.toNat) (h0' : b0.toNat < 245)
    (h1 : 128 ≤ b1.toNat) (h1' : b1.toNat < 192) (h2 : 128 ≤ b2.toNat) (h2' : b2.toNat < 192)
    (h3 : 128 ≤ b3.toNat) (h3' : b3.toNat < 192)
    (ha : b0.toNat = 240 → 144 ≤ b1.toNat) (hb : b0.toNat = 244 → b1.toNat < 144) :
    seqLen (b0 :: b1 :: b2 :: b3 :: t) = 4 := by
  simp only [seqLen, isCont, UInt8.lt_iff_toNat_lt, UInt8.le_iff_toNat_le, UInt8.toNat_ofNat,
    Bool.and_eq_true, decide_eq_true_eq, Bool.not_eq_true', Bool.and_eq_false_iff, beq_eq_false_iff_ne, ne_eq,
    decide_eq_false_iff_not, ← UInt8.toNat_inj]
  repeat' split
  all_goals omega

/-- what the bytes look like when a well-formed sequence is recognised (Table 3-7 of the Unicode standard) -/
inductive WF : Bytes → Nat → Prop
  | one (b0 t) : b0.toNat < 128 → WF (b0 :: t) 1
  | two (b0 b1 t) : 194 ≤ b0.toNat → b0.toNat < 224 → 128 ≤ b1.toNat → b1.toNat < 192 → WF (b0 :: b1 :: t) 2
  | three (b0 b1 b2 t) : 224 ≤ b0.toNat → b0.toNat < 240 → 128 ≤ b1.toNat → b1.toNat < 192 →
      128 ≤ b2.toNat → b2.toNat < 192 → (b0.toNat = 224 → 160 ≤ b1.toNat) → (b0.toNat = 237 → b1.toNat < 160) →
      WF (b0 :: b1 :: b2 :: t) 3
  | four (b0 b1 b2 b3 t) : 240 ≤ b0.toNat → b0.toNat < 245 → 128 ≤ b1.toNat → b1.toNat < 192 →
      128 ≤ b2.toNat → b2.toNat < 192 → 128 ≤ b3.toNat → b3.toNat < 192 →
      (b0.toNat = 240 → 144 ≤ b1.toNat) → (b0.toNat = 244 → b1.toNat < 144) →
      WF (b0 :: b1 :: b2 :: b3 :: t) 4

theorem seqLen_of_WF {s : Bytes} {n : Nat} (h : WF s n) : seqLen s = n := by
  cases h with
  | one b0 t h => exact seqLen_one b0 t h
  | two b0 b1 t a b c d => exact seqLen_two b0 b1 t a b c d
  | three b0 b1 b2 t a b c d e f g h => exact seqLen_three b0 b1 b2 t a b c d e f g h
  | four b0 b1 b2 b3 t a b c d e f g h i j => exact seqLen_four b0 b1 b2 b3 t a b c d e f g h i j

theorem WF_of_seqLen (s : Bytes) (h : seqLen s ≠ 0) : WF s (seqLen s) := by
  unfold seqLen at h ⊢
  split at h
  · exact absurd rfl h
  · rename_i b0 t
    split
    · rename_i h0
      exact WF.one b0 t (by simpa [UInt8.lt_iff_toNat_lt] using h0)
    · rename_i h0
      simp only [↓reduceIte, h0] at h
      split
      · rename_i h1
        simp only [h1, ↓reduceIte] at h
        split
        · rename_i b1 t'
          split
          · rename_i hc
            simp only [isCont, UInt8.lt_iff_toNat_lt, UInt8.le_iff_toNat_le, UInt8.toNat_ofNat,
              Bool.and_eq_true, decide_eq_true_eq] at h0 h1 hc
            exact WF.two b0 b1 t' (by omega) (by omega) (by omega) (by omega)
          · rename_i hc; simp only [hc, ↓reduceIte, Bool.false_eq_true, ne_eq, not_true_eq_false] at h
        · simp at h
      · rename_i h1
        simp only [h1, ↓reduceIte] at h
        split
        · rename_i h2
          simp only [h2, ↓reduceIte] at h
          split
          · rename_i b1 b2 t'
            split
            · rename_i hc
              simp only [isCont, UInt8.lt_iff_toNat_lt, UInt8.le_iff_toNat_le, UInt8.toNat_ofNat,
                Bool.and_eq_true, decide_eq_true_eq, Bool.not_eq_true', Bool.and_eq_false_iff, beq_eq_false_iff_ne, ne_eq,
                decide_eq_false_iff_not, ← UInt8.toNat_inj, Bool.not_eq_eq_eq_not, Bool.not_true] at h0 h1 h2 hc
              exact WF.three b0 b1 b2 t' (by omega) (by omega) (by omega) (by omega) (by omega) (by omega)
                (by omega) (by omega)
            · rename_i hc; simp only [hc, ↓reduceIte, Bool.false_eq_true, ne_eq, not_true_eq_false] at h
          · simp at h
        · rename_i h2
          simp only [h2, ↓reduceIte] at h
          split
          · rename_i h3
            simp only [h3, ↓reduceIte] at h
            split
            · rename_i b1 b2 b3 t'
              split
              · rename_i hc
                simp only [isCont, UInt8.lt_iff_toNat_lt, UInt8.le_iff_toNat_le, UInt8.toNat_ofNat,
                  Bool.and_eq_true, decide_eq_true_eq, Bool.not_eq_true', Bool.and_eq_false_iff, beq_eq_false_iff_ne, ne_eq,
                  decide_eq_false_iff_not, ← UInt8.toNat_inj, Bool.not_eq_eq_eq_not, Bool.not_true] at h0 h1 h2 h3 hc
                exact WF.four b0 b1 b2 b3 t' (by omega) (by omega) (by omega) (by omega) (by omega) (by omega)
                  (by omega) (by omega) (by omega) (by omega)
              · rename_i hc; simp only [hc, ↓reduceIte, Bool.false_eq_true, ne_eq, not_true_eq_false] at h
            · simp at h
          · rename_i h3; simp [h3] at h


/-! ### encoder of scalar values against the recogniser -/

theorem ofNat_toNat_small (n : Nat) (h : n < 256) : (UInt8.ofNat n).toNat = n := by
  rw [UInt8.toNat_ofNat']; omega

theorem WF_encodeScalar (c : Nat) (t : Bytes) (h : isScalar c = true) :
    WF (encodeScalar c ++ t) (encodeScalar c).length := by
  simp only [isScalar, Bool.or_eq_true, Bool.and_eq_true, decide_eq_true_eq] at h
  unfold encodeScalar
  split
  · rename_i h1
    exact WF.one _ t (by rw [ofNat_toNat_small c (by omega)]; exact h1)
  split
  · rename_i h1 h2
    refine WF.two _ _ t ?_ ?_ ?_ ?_ <;> rw [ofNat_toNat_small _ (by omega)] <;> omega
  split
  · rename_i h1 h2 h3
    refine WF.three _ _ _ t ?_ ?_ ?_ ?_ ?_ ?_ ?_ ?_
    all_goals (repeat rw [ofNat_toNat_small _ (by omega)])
    all_goals omega
  · rename_i h1 h2 h3
    refine WF.four _ _ _ _ t ?_ ?_ ?_ ?_ ?_ ?_ ?_ ?_ ?_ ?_
    all_goals (repeat rw [ofNat_toNat_small _ (by omega)])
    all_goals omega

theorem ofNat_of_eq (n : Nat) (b : UInt8) (h : n = b.toNat) : UInt8.ofNat n = b := by
  rw [h, UInt8.ofNat_toNat]

theorem encode_decodeHead {s : Bytes} {n : Nat} (h : WF s n) :
    encodeScalar (decodeHead s) = s.take n ∧ isScalar (decodeHead s) = true := by
  cases h with
  | one b0 t h0 =>
    have e : decodeHead (b0 :: t) = b0.toNat := by
      unfold decodeHead
      simp only [UInt8.lt_iff_toNat_lt, UInt8.toNat_ofNat, h0, ↓reduceIte]
    rw [e]
    constructor
    · simp only [encodeScalar, h0, ↓reduceIte, List.take_succ_cons, List.take_zero, UInt8.ofNat_toNat]
    · simp only [isScalar, Bool.or_eq_true, decide_eq_true_eq]; omega
  | two b0 b1 t a b c d =>
    have e : decodeHead (b0 :: b1 :: t) = (b0.toNat - 192) * 64 + (b1.toNat - 128) := by
      have x1 : ¬ b0.toNat < 128 := by omega
      unfold decodeHead
      simp only [UInt8.lt_iff_toNat_lt, UInt8.toNat_ofNat, x1, b, ↓reduceIte]
    rw [e]
    constructor
    · have x1 : ¬ ((b0.toNat - 192) * 64 + (b1.toNat - 128) < 128) := by omega
      have x2 : (b0.toNat - 192) * 64 + (b1.toNat - 128) < 2048 := by omega
      simp only [encodeScalar, x1, x2, ↓reduceIte, List.take_succ_cons, List.take_zero]
      rw [ofNat_of_eq _ b0 (by omega), ofNat_of_eq _ b1 (by omega)]
    · simp only [isScalar, Bool.or_eq_true, decide_eq_true_eq]; omega
  | three b0 b1 b2 t a b c d e' f g h' =>
    have e : decodeHead (b0 :: b1 :: b2 :: t) = (b0.toNat - 224) * 4096 + (b1.toNat - 128) * 64 + (b2.toNat - 128) := by
      have x1 : ¬ b0.toNat < 128 := by omega
      have x2 : ¬ b0.toNat < 224 := by omega
      unfold decodeHead
      simp only [UInt8.lt_iff_toNat_lt, UInt8.toNat_ofNat, x1, x2, b, ↓reduceIte]
    rw [e]
    constructor
    · have x1 : ¬ ((b0.toNat - 224) * 4096 + (b1.toNat - 128) * 64 + (b2.toNat - 128) < 128) := by omega
      have x2 : ¬ ((b0.toNat - 224) * 4096 + (b1.toNat - 128) * 64 + (b2.toNat - 128) < 2048) := by omega
      have x3 : (b0.toNat - 224) * 4096 + (b1.toNat - 128) * 64 + (b2.toNat - 128) < 65536 := by omega
      simp only [encodeScalar, x1, x2, x3, ↓reduceIte, List.take_succ_cons, List.take_zero]
      rw [ofNat_of_eq _ b0 (by omega), ofNat_of_eq _ b1 (by omega), ofNat_of_eq _ b2 (by omega)]
    · simp only [isScalar, Bool.or_eq_true, Bool.and_eq_true, decide_eq_true_eq]; omega
  | four b0 b1 b2 b3 t a b c d e' f g h' i j =>
    have e : decodeHead (b0 :: b1 :: b2 :: b3 :: t) =
        (b0.toNat - 240) * 262144 + (b1.toNat - 128) * 4096 + (b2.toNat - 128) * 64 + (b3.toNat - 128) := by
      have x1 : ¬ b0.toNat < 128 := by omega
      have x2 : ¬ b0.toNat < 224 := by omega
      have x3 : ¬ b0.toNat < 240 := by omega
      unfold decodeHead
      simp only [UInt8.lt_iff_toNat_lt, UInt8.toNat_ofNat, x1, x2, x3, ↓reduceIte]
    rw [e]
    constructor
    · have x1 : ¬ ((b0.toNat - 240) * 262144 + (b1.toNat - 128) * 4096 + (b2.toNat - 128) * 64 + (b3.toNat - 128) < 128) := by omega
      have x2 : ¬ ((b0.toNat - 240) * 262144 + (b1.toNat - 128) * 4096 + (b2.toNat - 128) * 64 + (b3.toNat - 128) < 2048) := by omega
      have x3 : ¬ ((b0.toNat - 240) * 262144 + (b1.toNat - 128) * 4096 + (b2.toNat - 128) * 64 + (b3.toNat - 128) < 65536) := by omega
      simp only [encodeScalar, x1, x2, x3, ↓reduceIte, List.take_succ_cons, List.take_zero]
      rw [ofNat_of_eq _ b0 (by omega), ofNat_of_eq _ b1 (by omega), ofNat_of_eq _ b2 (by omega), ofNat_of_eq _ b3 (by omega)]
    · simp only [isScalar, Bool.or_eq_true, Bool.and_eq_true, decide_eq_true_eq]; omega

/-! ### validate / correctWith -/

theorem validate_nil : validate [] = true := by rw [validate]

theorem validate_cons (b : UInt8) (t : Bytes) :
    validate (b :: t) = if seqLen (b :: t) == 0 then false else validate ((b :: t).drop (seqLen (b :: t))) := by
  rw [validate]

theorem correctWith_nil (repl : Bytes) : correctWith repl [] = [] := by rw [correctWith]

theorem correctWith_cons (repl : Bytes) (b : UInt8) (t : Bytes) :
    correctWith repl (b :: t) = if seqLen (b :: t) == 0 then repl ++ correctWith repl t
      else (b :: t).take (seqLen (b :: t)) ++ correctWith repl ((b :: t).drop (seqLen (b :: t))) := by
  rw [correctWith]

theorem encodeScalar_ne_nil (c : Nat) : encodeScalar c ≠ [] := by
  unfold encodeScalar
  repeat' split
  all_goals simp

theorem encodeAll_cons (c : Nat) (cps : List Nat) : encodeAll (c :: cps) = encodeScalar c ++ encodeAll cps := by
  simp [encodeAll]

/-- a scalar value in front: recognised, and skipped as a whole -/
theorem seqLen_encode_append (c : Nat) (t : Bytes) (h : isScalar c = true) :
    seqLen (encodeScalar c ++ t) = (encodeScalar c).length :=
  seqLen_of_WF (WF_encodeScalar c t h)

theorem validate_encode_append (c : Nat) (t : Bytes) (h : isScalar c = true) :
    validate (encodeScalar c ++ t) = validate t := by
  have hl := seqLen_encode_append c t h
  cases hE : encodeScalar c with
  | nil => exact absurd hE (encodeScalar_ne_nil c)
  | cons b r =>
    rw [hE] at hl
    rw [List.cons_append] at hl ⊢
    rw [validate_cons, hl]
    simp

theorem correctWith_encode_append (repl : Bytes) (c : Nat) (t : Bytes) (h : isScalar c = true) :
    correctWith repl (encodeScalar c ++ t) = encodeScalar c ++ correctWith repl t := by
  have hl := seqLen_encode_append c t h
  cases hE : encodeScalar c with
  | nil => exact absurd hE (encodeScalar_ne_nil c)
  | cons b r =>
    rw [hE] at hl
    rw [List.cons_append] at hl ⊢
    rw [correctWith_cons, hl]
    simp

theorem validate_encodeAll (cps : List Nat) (h : ∀ c ∈ cps, isScalar c = true) : validate (encodeAll cps) = true := by
  induction cps with
  | nil => simp [encodeAll, validate_nil]
  | cons c cps ih =>
    rw [encodeAll_cons, validate_encode_append c _ (h c (by simp))]
    exact ih (fun c' hc' => h c' (by simp [hc']))

theorem correctWith_encodeAll (repl : Bytes) (cps : List Nat) (h : ∀ c ∈ cps, isScalar c = true) :
    correctWith repl (encodeAll cps) = encodeAll cps := by
  induction cps with
  | nil => simp [encodeAll, correctWith_nil]
  | cons c cps ih =>
    rw [encodeAll_cons, correctWith_encode_append repl c _ (h c (by simp))]
    rw [ih (fun c' hc' => h c' (by simp [hc']))]

/-- the head sequence recognised by `seqLen` is the encoding of a scalar value -/
theorem take_seqLen_eq_encode (s : Bytes) (h : seqLen s ≠ 0) :
    s.take (seqLen s) = encodeScalar (decodeHead s) ∧ isScalar (decodeHead s) = true := by
  have := encode_decodeHead (WF_of_seqLen s h)
  exact ⟨this.1.symm, this.2⟩

theorem exists_of_validate (s : Bytes) (h : validate s = true) :
    ∃ cps : List Nat, (∀ c ∈ cps, isScalar c = true) ∧ encodeAll cps = s := by
  fun_induction validate s with
  | case1 => exact ⟨[], by simp, by simp [encodeAll]⟩
  | case2 b t hz => cases h
  | case3 b t hz ih =>
    have hne : seqLen (b :: t) ≠ 0 := by simpa using hz
    obtain ⟨cps, hs, he⟩ := ih h
    have ht := take_seqLen_eq_encode (b :: t) hne
    refine ⟨decodeHead (b :: t) :: cps, ?_, ?_⟩
    · intro c hc
      rcases List.mem_cons.mp hc with rfl | hc
      · exact ht.2
      · exact hs c hc
    · rw [encodeAll_cons, he, ← ht.1, List.take_append_drop]

/-- the bytes produced by `correctWith` with a well-formed replacement are well-formed: they are an encoding -/
theorem exists_of_correctWith (repl : Bytes) (rc : List Nat) (hr : ∀ c ∈ rc, isScalar c = true) (hre : encodeAll rc = repl)
    (s : Bytes) : ∃ cps : List Nat, (∀ c ∈ cps, isScalar c = true) ∧ encodeAll cps = correctWith repl s := by
  fun_induction correctWith repl s with
  | case1 => exact ⟨[], by simp, by simp [encodeAll]⟩
  | case2 b t hz ih =>
    obtain ⟨cps, hs, he⟩ := ih
    refine ⟨rc ++ cps, ?_, ?_⟩
    · intro c hc
      rcases List.mem_append.mp hc with hc | hc
      · exact hr c hc
      · exact hs c hc
    · simp only [encodeAll, List.flatMap_append] at *
      rw [hre, he]
  | case3 b t hz ih =>
    have hne : seqLen (b :: t) ≠ 0 := by simpa using hz
    obtain ⟨cps, hs, he⟩ := ih
    have ht := take_seqLen_eq_encode (b :: t) hne
    refine ⟨decodeHead (b :: t) :: cps, ?_, ?_⟩
    · intro c hc
      rcases List.mem_cons.mp hc with rfl | hc
      · exact ht.2
      · exact hs c hc
    · rw [encodeAll_cons, he, ← ht.1]

theorem correctWith_id_of_validate (repl s : Bytes) (h : validate s = true) : correctWith repl s = s := by
  obtain ⟨cps, hs, he⟩ := exists_of_validate s h
  rw [← he]
  exact correctWith_encodeAll repl cps hs

/-! ### utf8.go:30: the position list of bounded capacity does not change the result -/

theorem correctCall_spec (repl : Bytes) (k : Nat) (s : Bytes) :
    (correctCall repl k s).1 ++ correctWith repl (correctCall repl k s).2 = correctWith repl s := by
  fun_induction correctCall repl k s with
  | case1 => simp [correctWith_nil]
  | case2 b t hz => simp
  | case3 b t hz k o r heq ih =>
    rw [heq] at ih
    simp only at ih ⊢
    rw [List.append_assoc, ih, correctWith_cons, if_pos hz]
  | case4 k b t hz o r heq ih =>
    rw [heq] at ih
    simp only at ih ⊢
    rw [List.append_assoc, ih, correctWith_cons, if_neg hz]

theorem correctCall_progress' (repl : Bytes) (k : Nat) (s : Bytes) (hk : 0 < k) (hs : s ≠ []) :
    (correctCall repl k s).2.length < s.length := by
  fun_induction correctCall repl k s with
  | case1 => exact absurd rfl hs
  | case2 b t hz => omega
  | case3 b t hz k o r heq ih =>
    have := correctCall_rest_le repl k t
    rw [heq] at this
    simp only [List.length_cons] at *
    omega
  | case4 k b t hz o r heq ih =>
    have hne : seqLen (b :: t) ≠ 0 := by simpa using hz
    have h1 := correctCall_rest_le repl k ((b :: t).drop (seqLen (b :: t)))
    have h2 := seqLen_le (b :: t)
    rw [heq] at h1
    simp only [List.length_drop, List.length_cons] at *
    omega

theorem correctCall_progress (repl : Bytes) (k : Nat) (b : UInt8) (t : Bytes) (hk : 0 < k) :
    (correctCall repl k (b :: t)).2.length < (b :: t).length :=
  correctCall_progress' repl k (b :: t) hk (by simp)

theorem correctChunked_eq_correctWith (repl : Bytes) (k : Nat) (hk : 0 < k) (fuel : Nat) (s : Bytes)
    (hf : s.length < fuel) : correctChunked repl k fuel s = correctWith repl s := by
  induction fuel generalizing s with
  | zero => omega
  | succ fuel ih =>
    match s with
    | [] => rw [correctChunked, correctWith_nil]
    | b :: t =>
      have e : correctChunked repl k (fuel + 1) (b :: t) =
          (match correctCall repl k (b :: t) with
           | (o, r) => o ++ correctChunked repl k fuel r) := by
        rw [correctChunked]
        intro h; cases h
      rw [e]
      have hp := correctCall_progress repl k b t hk
      have hs := correctCall_spec repl k (b :: t)
      split
      rename_i o r heq
      rw [heq] at hp hs
      simp only at hp hs
      rw [ih r (by simp only [List.length_cons] at *; omega), hs]

end SonicSpec.Str
