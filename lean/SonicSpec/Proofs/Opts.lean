/-
  Helper lemmas of the C18 work package (core Lean only so far; nothing from Mathlib is needed here).
  1. bit-level: the options word of `froze` bit by bit, in terms of the wires that own the bit;
  2. the linear template model of the encoder switches: congruence and mapping lemmas.
-/
import SonicSpec.Model.Opts
import SonicSpec.Generated.Opts
namespace SonicSpec.Opts
open SonicSpec SonicSpec.Json

/-! ### 0. the model of `Config.Froze` on the regenerated tables -/

/-- position of a field of `sonic.Config` (declaration order, regenerated) -/
abbrev fieldIdx (f : String) : Option Nat := fieldIdxIn Gen.configFields f
/-- a Config is a natural number: bit `i` is field `i` of `Gen.configFields` -/
abbrev fieldOn (c : Nat) (f : String) : Bool := fieldOnIn Gen.configFields c f
/-- one options word of `Config.Froze`, read off `Gen.frozeWires` -/
abbrev frozeWord (word : String) (c : Nat) : Nat := frozeWith Gen.configFields Gen.frozeWires word c
/-- `Config.Froze`: (encoder options, decoder options) -/
abbrev froze (c : Nat) : Nat × Nat := frozeIn Gen.configFields Gen.frozeWires c
/-- the field (by position) whose wire owns bit `b` of `word`, if exactly one does -/
abbrev ownerIdx (word : String) (b : Nat) : Option Nat := ownerIdxIn Gen.configFields Gen.frozeWires word b
/-- a setter method of `Gen.setters` applied to an options word -/
abbrev applySetter (recv meth : String) (arg : Bool) (w : Nat) : Option Nat := applySetterIn Gen.setters recv meth arg w

/-! ### 1. option words bit by bit -/

theorem testBit_foldl_or {α : Type} (p : α → Bool) (m : α → Nat) (b : Nat) :
    ∀ (ws : List α) (a0 : Nat),
      (ws.foldl (fun acc w => if p w then acc ||| m w else acc) a0).testBit b =
        (a0.testBit b || ws.any (fun w => p w && (m w).testBit b)) := by
  intro ws
  induction ws with
  | nil => intro a0; simp
  | cons w ws ih =>
    intro a0
    simp only [List.foldl_cons, List.any_cons]
    rw [ih]
    cases hp : p w <;> simp [Nat.testBit_or, Bool.or_assoc]

theorem any_of_filter_nil {α : Type} (q r : α → Bool) :
    ∀ l : List α, l.filter q = [] → l.any (fun x => q x && r x) = false := by
  intro l h
  induction l with
  | nil => rfl
  | cons x xs ih =>
    rw [List.filter_cons] at h
    cases hq : q x
    · rw [hq] at h
      simp only [Bool.false_eq_true, if_false] at h
      simp only [List.any_cons, hq, Bool.false_and, Bool.false_or]
      exact ih h
    · rw [hq] at h
      simp only [if_true] at h
      exact absurd h (List.cons_ne_nil _ _)

theorem any_of_filter_single {α : Type} (q r : α → Bool) (w : α) :
    ∀ l : List α, l.filter q = [w] → l.any (fun x => q x && r x) = r w := by
  intro l h
  induction l with
  | nil => exact absurd h.symm (List.cons_ne_nil _ _)
  | cons x xs ih =>
    rw [List.filter_cons] at h
    cases hq : q x
    · rw [hq] at h
      simp only [Bool.false_eq_true, if_false] at h
      simp only [List.any_cons, hq, Bool.false_and, Bool.false_or]
      exact ih h
    · rw [hq] at h
      simp only [if_true] at h
      injection h with h1 h2
      subst h1
      simp only [List.any_cons, hq, Bool.true_and, any_of_filter_nil q r xs h2, Bool.or_false]

theorem fieldOn_flip (c s : Nat) (f : String) :
    fieldOn (flipSwitch c s) f = (fieldOn c f ^^ (fieldIdx f == some s)) := by
  unfold fieldOn fieldOnIn fieldIdx flipSwitch
  cases h : fieldIdxIn Gen.configFields f with
  | none => simp
  | some i =>
    simp only [Nat.testBit_xor, Nat.one_shiftLeft, Nat.testBit_two_pow]
    by_cases hs : s = i
    · subst hs; simp
    · have h2 : ¬ i = s := fun h => hs h.symm
      have h3 : (some i == some s) = false := by simp [h2]
      simp [hs, h3]

/-- owners of bit `b` of `word` among the wires -/
def owners (word : String) (b : Nat) : List Wire :=
  Gen.frozeWires.filter (fun w => wWord w == word && (wMask w).testBit b)

theorem frozeWord_testBit (word : String) (c b : Nat) :
    (frozeWord word c).testBit b =
      Gen.frozeWires.any (fun w => (wWord w == word && (wMask w).testBit b) && fieldOn c (wField w)) := by
  unfold frozeWord frozeWith
  rw [testBit_foldl_or (fun w => wWord w == word && fieldOnIn Gen.configFields c (wField w)) wMask b]
  simp only [Nat.zero_testBit, Bool.false_or]
  congr 1
  funext w
  show (_ && fieldOnIn Gen.configFields c (wField w) && _) = (_ && _ && fieldOnIn Gen.configFields c (wField w))
  cases wWord w == word <;> cases fieldOnIn Gen.configFields c (wField w) <;> cases (wMask w).testBit b <;> rfl

/-- table fact: no bit of either word is owned by two wires, and every mask fits in 64 bits -/
theorem owners_le_one : (List.range 64).all (fun b =>
    decide ((owners "encoderOpts" b).length ≤ 1) && decide ((owners "decoderOpts" b).length ≤ 1)) = true := by
  decide +kernel

theorem masks_lt : Gen.frozeWires.all (fun w => decide (wMask w < 2 ^ 64)) = true := by decide +kernel

theorem owners_high (word : String) (b : Nat) (hb : 64 ≤ b) : owners word b = [] := by
  unfold owners
  rw [List.filter_eq_nil_iff]
  intro w hw
  have h := List.all_eq_true.mp masks_lt w hw
  have hlt : wMask w < 2 ^ 64 := of_decide_eq_true h
  have : wMask w < 2 ^ b := Nat.lt_of_lt_of_le hlt (Nat.pow_le_pow_right (by decide) hb)
  simp [Nat.testBit_lt_two_pow this]

theorem froze_pointwise_word (word : String) (hw : word = "encoderOpts" ∨ word = "decoderOpts") (c s b : Nat) :
    (frozeWord word (flipSwitch c s)).testBit b = ((frozeWord word c).testBit b ^^ (ownerIdx word b == some s)) := by
  have hlen : (owners word b).length ≤ 1 := by
    by_cases hb : b < 64
    · have h := List.all_eq_true.mp owners_le_one b (List.mem_range.mpr hb)
      simp only [Bool.and_eq_true, decide_eq_true_eq] at h
      rcases hw with rfl | rfl
      · exact h.1
      · exact h.2
    · rw [owners_high word b (Nat.le_of_not_lt hb)]; exact Nat.zero_le _
  rw [frozeWord_testBit, frozeWord_testBit]
  unfold ownerIdx ownerIdxIn
  change _ = (_ ^^ ((match owners word b with | [w] => fieldIdx (wField w) | _ => none) == some s))
  match hown : owners word b, hlen with
  | [], _ =>
    have h1 := any_of_filter_nil (fun w => wWord w == word && (wMask w).testBit b) (fun w => fieldOn (flipSwitch c s) (wField w)) Gen.frozeWires hown
    have h2 := any_of_filter_nil (fun w => wWord w == word && (wMask w).testBit b) (fun w => fieldOn c (wField w)) Gen.frozeWires hown
    rw [h1, h2]; rfl
  | [w], _ =>
    have h1 := any_of_filter_single (fun w => wWord w == word && (wMask w).testBit b) (fun w => fieldOn (flipSwitch c s) (wField w)) w Gen.frozeWires hown
    have h2 := any_of_filter_single (fun w => wWord w == word && (wMask w).testBit b) (fun w => fieldOn c (wField w)) w Gen.frozeWires hown
    rw [h1, h2, fieldOn_flip]
  | _ :: _ :: _, h => exact absurd h (by simp)


/-! ### 2. template model of the encoder switches -/

/-- two option sets that agree on the switches `encSeg` reads give the same plain output -/
def sameSegOpts (o p : EncOpts) : Prop :=
  o.compact = p.compact ∧ o.noQuote = p.noQuote ∧ o.noNull = p.noNull ∧ o.noValidateJM = p.noValidateJM ∧ o.nullNaN = p.nullNaN

theorem encSeg_congr {o p : EncOpts} (h : sameSegOpts o p) (s : Seg) : encSeg o s = encSeg p s := by
  obtain ⟨h1, h2, h3, h4, h5⟩ := h
  cases s <;> simp only [encSeg, h1, h2, h3, h4, h5]

theorem encPlain_congr {o p : EncOpts} (h : sameSegOpts o p) (segs : List Seg) : encPlain o segs = encPlain p segs := by
  induction segs with
  | nil => rfl
  | cons s r ih => simp only [encPlain, encSeg_congr h s, ih]

/-- mapping the segments first: if `f` turns every segment into one that `p` encodes as `o` encodes the original -/
theorem encPlain_map {o p : EncOpts} (f : Seg → Seg) (h : ∀ s, encSeg o s = encSeg p (f s)) (segs : List Seg) :
    encPlain o segs = encPlain p (segs.map f) := by
  induction segs with
  | nil => rfl
  | cons s r ih => simp only [List.map_cons, encPlain, h s, ih]

theorem encode_map {o p : EncOpts} (f : Seg → Seg) (h : ∀ s, encSeg o s = encSeg p (f s))
    (hh : o.html = p.html) (hv : o.validate = p.validate) (segs : List Seg) :
    encode o segs = encode p (segs.map f) := by
  simp only [encode, encPlain_map f h segs, hh, hv]

theorem encPlain_id_of {o p : EncOpts} (segs : List Seg) (h : ∀ s ∈ segs, encSeg o s = encSeg p s) :
    encPlain o segs = encPlain p segs := by
  induction segs with
  | nil => rfl
  | cons s r ih =>
    simp only [encPlain, h s (List.mem_cons_self ..)]
    rw [ih (fun x hx => h x (List.mem_cons_of_mem _ hx))]


end SonicSpec.Opts
