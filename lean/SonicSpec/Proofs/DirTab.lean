/-
  Decoder IR: `_Compiler.tab` never hits inside an unnamed type - a type is strictly bigger than its parts, the
  table holds the types being compiled (all of which contain the current one), and `typeEq` relates types of equal
  size only.  So on the sub-universe compileOne is `lspace` + compileOps and leaves the table as it found it.
-/
import SonicSpec.Proofs.DirPath
namespace SonicSpec.Dir
open SonicSpec SonicSpec.Go SonicSpec.Bind

mutual
/-- structural size of a type -/
def tsz : GoType → Nat
  | .sl t => tsz t + 1
  | .ptr t => tsz t + 1
  | .arr _ t => tsz t + 1
  | .map k t => tsz k + tsz t + 1
  | .st fs => tszF fs + 1
  | _ => 0
def tszF : List (String × Option Bytes × GoType) → Nat
  | [] => 0
  | (_, _, t) :: r => tsz t + tszF r + 1
end

mutual
theorem typeEq_tsz : ∀ (T U : GoType), typeEq T U = true → tsz T = tsz U
  | .bool, U, h => by cases U <;> simp_all [typeEq, tsz]
  | .int _, U, h => by cases U <;> simp_all [typeEq, tsz]
  | .uint _, U, h => by cases U <;> simp_all [typeEq, tsz]
  | .f32, U, h => by cases U <;> simp_all [typeEq, tsz]
  | .f64, U, h => by cases U <;> simp_all [typeEq, tsz]
  | .str, U, h => by cases U <;> simp_all [typeEq, tsz]
  | .num, U, h => by cases U <;> simp_all [typeEq, tsz]
  | .bytes, U, h => by cases U <;> simp_all [typeEq, tsz]
  | .raw, U, h => by cases U <;> simp_all [typeEq, tsz]
  | .any, U, h => by cases U <;> simp_all [typeEq, tsz]
  | .lib _, U, h => by cases U <;> simp_all [typeEq, tsz]
  | .sl a, U, h => by
    cases U with
    | sl b => simp only [typeEq] at h; simp only [tsz]; rw [typeEq_tsz a b h]
    | _ => simp [typeEq] at h
  | .ptr a, U, h => by
    cases U with
    | ptr b => simp only [typeEq] at h; simp only [tsz]; rw [typeEq_tsz a b h]
    | _ => simp [typeEq] at h
  | .arr n a, U, h => by
    cases U with
    | arr m b =>
      simp only [typeEq, Bool.and_eq_true] at h; simp only [tsz]; rw [typeEq_tsz a b h.2]
    | _ => simp [typeEq] at h
  | .map k a, U, h => by
    cases U with
    | map l b =>
      simp only [typeEq, Bool.and_eq_true] at h; simp only [tsz]; rw [typeEq_tsz k l h.1, typeEq_tsz a b h.2]
    | _ => simp [typeEq] at h
  | .st fs, U, h => by
    cases U with
    | st gs => simp only [typeEq] at h; simp only [tsz]; rw [fieldsEq_tsz fs gs h]
    | _ => simp [typeEq] at h
theorem fieldsEq_tsz : ∀ (fs gs : List (String × Option Bytes × GoType)), fieldsEq fs gs = true → tszF fs = tszF gs
  | [], [], _ => rfl
  | [], _ :: _, h => by simp [fieldsEq] at h
  | _ :: _, [], h => by simp [fieldsEq] at h
  | (n, tg, t) :: fs, (m, ug, u) :: gs, h => by
    simp only [fieldsEq, Bool.and_eq_true] at h
    simp only [tszF]
    rw [typeEq_tsz t u h.1.2, fieldsEq_tsz fs gs h.2]
end

mutual
theorem typeEq_refl : ∀ (T : GoType), typeEq T T = true
  | .bool | .f32 | .f64 | .str | .num | .bytes | .raw | .any => by simp [typeEq]
  | .int _ | .uint _ | .lib _ => by simp [typeEq]
  | .sl a => by simp only [typeEq]; exact typeEq_refl a
  | .ptr a => by simp only [typeEq]; exact typeEq_refl a
  | .arr n a => by simp only [typeEq, Bool.and_eq_true]; exact ⟨by simp, typeEq_refl a⟩
  | .map k a => by simp only [typeEq, Bool.and_eq_true]; exact ⟨typeEq_refl k, typeEq_refl a⟩
  | .st fs => by simp only [typeEq]; exact fieldsEq_refl fs
theorem fieldsEq_refl : ∀ (fs : List (String × Option Bytes × GoType)), fieldsEq fs fs = true
  | [] => rfl
  | (n, tg, t) :: fs => by
    simp only [fieldsEq, Bool.and_eq_true]
    exact ⟨⟨⟨by simp, by simp⟩, typeEq_refl t⟩, fieldsEq_refl fs⟩
end

/-- every type in the table is strictly bigger than `T` -/
def Above (tab : Tab) (T : GoType) : Prop := ∀ U ∈ tab, tsz T < tsz U

theorem above_tabHas {tab : Tab} {T : GoType} (h : Above tab T) : tabHas tab T = false := by
  unfold tabHas
  rw [List.any_eq_false]
  intro U hU hq
  have := typeEq_tsz T U (by simpa using hq)
  have := h U hU
  omega

theorem above_tabDel {tab : Tab} {T : GoType} (h : Above tab T) : tabDel (T :: tab) T = tab := by
  unfold tabDel
  rw [List.filter_cons, typeEq_refl]
  simp only [Bool.not_true, Bool.false_eq_true, if_false]
  rw [List.filter_eq_self]
  intro U hU
  cases hq : typeEq T U with
  | false => rfl
  | true =>
    have := typeEq_tsz T U hq
    have := h U hU
    omega

theorem above_cons {tab : Tab} {T t : GoType} (h : Above tab T) (ht : tsz t < tsz T) : Above (T :: tab) t := by
  intro U hU
  cases hU with
  | head => exact ht
  | tail _ hU => have := h U hU; omega

theorem above_nil (T : GoType) : Above [] T := by intro U hU; cases hU

theorem tsz_field {fs : List (String × Option Bytes × GoType)} {n : String} {tg : Option Bytes} {t : GoType}
    (h : (n, tg, t) ∈ fs) : tsz t < tsz (.st fs) := by
  simp only [tsz]
  induction fs with
  | nil => cases h
  | cons f fs ih =>
    obtain ⟨m, ug, u⟩ := f
    cases h with
    | head => simp only [tszF]; omega
    | tail _ h => have := ih h; simp only [tszF]; omega

theorem noMarsh {T : GoType} (h : Sub T = true) (pc flags : Nat) : marshalerCode pc T flags = none := by
  have h1 : implJ (.ptr T) = false := by
    cases T <;> simp_all [Sub, implJ]
  have h2 : implJ T = false := by
    cases T with
    | ptr t => cases t <;> simp_all [Sub, implJ]
    | _ => simp_all [Sub, implJ]
  have h3 : implT (.ptr T) = false := by
    cases T <;> simp_all [Sub, implT]
  have h4 : implT T = false := by
    cases T with
    | ptr t => cases t <;> simp_all [Sub, implT]
    | _ => simp_all [Sub, implT]
  simp [marshalerCode, h1, h2, h3, h4]

theorem fieldWhole_sub {T : GoType} (h : Sub T = true) (lib : LibCode) (sp : Nat) (d : Tab → Nat → Program × Tab) : fieldWhole lib sp T d = d := by
  cases T <;> first | rfl | simp [Sub] at h

theorem wrapOne_sub {T : GoType} (h : Sub T = true) {tab : Tab} (ha : Above tab T) (pc : Nat) (body : Tab → Nat → Program × Tab) :
    wrapOne tab pc T body = (.lspace :: (body (T :: tab) (pc + 1)).1, tabDel (body (T :: tab) (pc + 1)).2 T) := by
  unfold wrapOne
  rw [above_tabHas ha, noMarsh h]
  rfl


def notPtr : GoType → Bool
  | .ptr _ | .lib _ => false      -- a named type may be of pointer kind
  | _ => true

/-- a non-pointer type reached by compilePtr's walk: the dereference, then the type's code in place -/
theorem ops_down (co : COpts) (lib : LibCode) {T : GoType} (hT : notPtr T = true) (tab : Tab) (pc sp : Nat) (hh : tabHas tab T = false) :
    ops co lib true tab pc sp T =
      (.deref T :: .lspace :: (ops co lib false (T :: tab) (pc + 2) sp T).1, tabDel (ops co lib false (T :: tab) (pc + 2) sp T).2 T) := by
  cases T with
  | ptr t => simp [notPtr] at hT
  | lib n => simp [notPtr] at hT
  | _ => rw [ops, ops]; simp only [fin, hh]; rfl

theorem down_of_false (co : COpts) (lib : LibCode) {T : GoType} (hT : notPtr T = true)
    (h1 : ∀ tab pc sp, (∀ U ∈ tab, tsz T ≤ tsz U) → (ops co lib false tab pc sp T).2 = tab) :
    ∀ tab pc sp, Above tab T → (ops co lib true tab pc sp T).2 = tab := by
  intro tab pc sp ha
  rw [ops_down co lib hT tab pc sp (above_tabHas ha)]
  simp only
  rw [h1 (T :: tab) (pc + 2) sp (by
    intro U hU
    cases hU with
    | head => exact Nat.le_refl _
    | tail _ h => exact Nat.le_of_lt (ha U h))]
  exact above_tabDel ha

/-- the element compiler (compileOne of a smaller type) returns the table it got -/
theorem elem_tab (co : COpts) (lib : LibCode) {t : GoType} (hs : Sub t = true) (sp' : Nat)
    (ih : ∀ tab pc sp, (∀ U ∈ tab, tsz t ≤ tsz U) → (ops co lib false tab pc sp t).2 = tab)
    {tb : Tab} (ha : Above tb t) (p : Nat) :
    (wrapOne tb p t fun tb'' p'' => ops co lib false tb'' p'' sp' t).2 = tb := by
  rw [wrapOne_sub hs ha]
  simp only
  rw [ih (t :: tb) (p + 1) sp' (by
    intro U hU
    cases hU with
    | head => exact Nat.le_refl _
    | tail _ h => exact Nat.le_of_lt (ha U h))]
  exact above_tabDel ha

theorem sliceBody_tab (tab : Tab) (pc : Nat) (et : GoType) (elem : Tab → Nat → Program × Tab)
    (he : ∀ p, (elem tab p).2 = tab) : (sliceBody tab pc et elem).2 = tab := by
  simp only [sliceBody, he]

theorem sliceList_tab (tab : Tab) (pc : Nat) (T et : GoType) (elem : Tab → Nat → Program × Tab)
    (he : ∀ p, (elem tab p).2 = tab) : (sliceList tab pc T et elem).2 = tab := by
  simp only [sliceList]
  exact sliceBody_tab tab _ et elem he

theorem arrCodes_tab (elem : Tab → Nat → Program × Tab) (tab : Tab) (he : ∀ p, (elem tab p).2 = tab) :
    ∀ (n pc : Nat), (arrCodes elem n tab pc).2 = tab
  | 0, _ => rfl
  | n + 1, pc => by
    simp only [arrCodes, he]
    exact arrCodes_tab elem tab he n _

theorem arrCode_tab (tab : Tab) (pc n : Nat) (t : GoType) (elem : Tab → Nat → Program × Tab)
    (he : ∀ p, (elem tab p).2 = tab) : (arrCode tab pc n t elem).2 = tab := by
  simp only [arrCode]
  exact arrCodes_tab elem tab he n _

theorem tsz_le_above {tab : Tab} {T t : GoType} (h : ∀ U ∈ tab, tsz T ≤ tsz U) (ht : tsz t < tsz T) : Above tab t := by
  intro U hU
  have := h U hU
  omega

theorem libStr_sub {t : GoType} (h : Sub t = true) : libStr t = false := by
  cases t with
  | ptr t' => cases t' <;> simp_all [libStr, Sub]
  | _ => simp_all [libStr, Sub]

mutual
theorem ops_tab (co : COpts) (lib : LibCode) : ∀ (T : GoType), Sub T = true →
    (∀ tab pc sp, (∀ U ∈ tab, tsz T ≤ tsz U) → (ops co lib false tab pc sp T).2 = tab) ∧
    (∀ tab pc sp, Above tab T → (ops co lib true tab pc sp T).2 = tab)
  | .bool, _ => by
    have h1 : ∀ tab pc sp, (∀ U ∈ tab, tsz GoType.bool ≤ tsz U) → (ops co lib false tab pc sp .bool).2 = tab := by
      intro tab pc sp _; rw [ops]; rfl
    exact ⟨h1, down_of_false co lib rfl h1⟩
  | .int b, _ => by
    have h1 : ∀ tab pc sp, (∀ U ∈ tab, tsz (GoType.int b) ≤ tsz U) → (ops co lib false tab pc sp (.int b)).2 = tab := by
      intro tab pc sp _; rw [ops]; rfl
    exact ⟨h1, down_of_false co lib rfl h1⟩
  | .uint b, _ => by
    have h1 : ∀ tab pc sp, (∀ U ∈ tab, tsz (GoType.uint b) ≤ tsz U) → (ops co lib false tab pc sp (.uint b)).2 = tab := by
      intro tab pc sp _; rw [ops]; rfl
    exact ⟨h1, down_of_false co lib rfl h1⟩
  | .str, _ => by
    have h1 : ∀ tab pc sp, (∀ U ∈ tab, tsz GoType.str ≤ tsz U) → (ops co lib false tab pc sp .str).2 = tab := by
      intro tab pc sp _; rw [ops]; rfl
    exact ⟨h1, down_of_false co lib rfl h1⟩
  | .f32, _ => by
    have h1 : ∀ tab pc sp, (∀ U ∈ tab, tsz GoType.f32 ≤ tsz U) → (ops co lib false tab pc sp .f32).2 = tab := by
      intro tab pc sp _; rw [ops]; rfl
    exact ⟨h1, down_of_false co lib rfl h1⟩
  | .f64, _ => by
    have h1 : ∀ tab pc sp, (∀ U ∈ tab, tsz GoType.f64 ≤ tsz U) → (ops co lib false tab pc sp .f64).2 = tab := by
      intro tab pc sp _; rw [ops]; rfl
    exact ⟨h1, down_of_false co lib rfl h1⟩
  | .any, _ => by
    have h1 : ∀ tab pc sp, (∀ U ∈ tab, tsz GoType.any ≤ tsz U) → (ops co lib false tab pc sp .any).2 = tab := by
      intro tab pc sp _; rw [ops]; rfl
    exact ⟨h1, down_of_false co lib rfl h1⟩
  | .sl t, hs => by
    simp only [Sub, Bool.and_eq_true] at hs
    have iht := (ops_tab co lib t hs.2).1
    have h1 : ∀ tab pc sp, (∀ U ∈ tab, tsz (GoType.sl t) ≤ tsz U) → (ops co lib false tab pc sp (.sl t)).2 = tab := by
      intro tab pc sp hle
      have ha : Above tab t := tsz_le_above hle (by simp [tsz])
      rw [ops]
      simp only [fin, Bool.not_false, if_true]
      have he := fun p => elem_tab co lib hs.2 (sp + 1) iht ha p
      split
      · simp [notU8] at hs
      · exact sliceList_tab tab pc _ t _ he
    exact ⟨h1, down_of_false co lib rfl h1⟩
  | .arr n t, hs => by
    simp only [Sub] at hs
    have iht := (ops_tab co lib t hs).1
    have h1 : ∀ tab pc sp, (∀ U ∈ tab, tsz (GoType.arr n t) ≤ tsz U) → (ops co lib false tab pc sp (.arr n t)).2 = tab := by
      intro tab pc sp hle
      have ha : Above tab t := tsz_le_above hle (by simp [tsz])
      rw [ops]
      simp only [fin, Bool.not_false, if_true]
      exact arrCode_tab tab pc n t _ (fun p => elem_tab co lib hs (sp + 1) iht ha p)
    exact ⟨h1, down_of_false co lib rfl h1⟩
  | .ptr t, hs => by
    simp only [Sub] at hs
    have iht := (ops_tab co lib t hs).2
    have hm : ∀ pc, marshalerCode pc (.ptr t) 0 = none := fun pc => noMarsh (T := .ptr t) (by simpa [Sub] using hs) pc 0
    constructor
    · intro tab pc sp hle
      rw [ops]
      simp only [hm, Bool.false_eq_true, if_false]
      exact iht tab (pc + 1) sp (tsz_le_above hle (by simp [tsz]))
    · intro tab pc sp ha
      rw [ops]
      simp only [hm, if_true]
      exact iht tab (pc + 1) sp (fun U hU => by have := ha U hU; simp [tsz] at this; omega)
  | .st fs, hs => by
    simp only [Sub, Bool.and_eq_true] at hs
    have h1 : ∀ tab pc sp, (∀ U ∈ tab, tsz (GoType.st fs) ≤ tsz U) → (ops co lib false tab pc sp (.st fs)).2 = tab := by
      intro tab pc sp hle
      rw [ops]
      simp only [fin, Bool.not_false, if_true]
      split
      · rfl
      · split
        · rfl
        · simp only
          exact fieldBlocks_tab co lib fs hs.1 tab (fun n tg t hm => tsz_le_above hle (tsz_field hm)) _ _ _ (resolveFields fs) _ _
            (fun f hf => by simpa using List.all_eq_true.mp hs.2 f hf)
    exact ⟨h1, down_of_false co lib rfl h1⟩
  | .num, h | .bytes, h | .raw, h | .map _ _, h | .lib _, h => by simp [Sub] at h
theorem fieldBlocks_tab (co : COpts) (lib : LibCode) : ∀ (fs : List (String × Option Bytes × GoType)), SubF fs = true →
    ∀ (tab : Tab), (∀ n tg t, (n, tg, t) ∈ fs → Above tab t) →
    ∀ (pc y0 sp : Nat) (rs : List Field) (i : Nat) (offs : List Nat),
      (∀ f ∈ rs, f.quoted = false) →
      (fieldBlocks co lib tab pc y0 sp rs i fs offs).2.2 = tab
  | [], _, tab, _, pc, y0, sp, rs, i, offs, _ => by simp [fieldBlocks]
  | (n, tg, t) :: fs, hs, tab, ha, pc, y0, sp, rs, i, offs, hq => by
    simp only [SubF, Bool.and_eq_true] at hs
    cases offs with
    | nil => simp [fieldBlocks]
    | cons off offs =>
      have hrec := fun pc' => fieldBlocks_tab co lib fs hs.2 tab (fun n' tg' t' hm => ha n' tg' t' (List.mem_cons_of_mem _ hm)) pc' y0 sp rs (i + 1) offs hq
      simp only [fieldBlocks, fieldWhole_sub hs.1]
      cases hf : List.find? (fun f => f.idx == i) rs with
      | none => simp only; exact hrec pc
      | some f =>
        have hqf : f.quoted = false := hq f (List.mem_of_find?_eq_some hf)
        have hlib : libStr t = false := libStr_sub hs.1
        simp only [isQuoted, hqf, hlib, Bool.false_and, Bool.or_false, Bool.false_eq_true, if_false]
        have iht := (ops_tab co lib t hs.1).1
        have he := elem_tab co lib hs.1 (sp + 1) iht (ha n tg t (List.mem_cons_self)) (pc + 1)
        rw [he]
        exact hrec _
end

end SonicSpec.Dir
