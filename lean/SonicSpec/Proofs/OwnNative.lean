/-
  C06 helper lemmas: the reference natives of the driver meet the contract `NativeOK`
  (so the theorems quantified over "any native meeting the contract" are not vacuous).
-/
import SonicSpec.Proofs.Own
import SonicSpec.Proofs.U8
namespace SonicSpec.Own
open SonicSpec

theorem quoteByte_len (c : UInt8) : (Str.quoteByte c).length ≤ 6 ∧ 1 ≤ (Str.quoteByte c).length := by
  revert c
  apply forall_uint8
  decide +kernel

theorem htmlByte_len (c : UInt8) : (htmlByte c).length ≤ 6 ∧ 1 ≤ (htmlByte c).length := by
  unfold htmlByte
  split
  · simp
  · split
    · simp
    · split <;> simp

theorem quoteBody_cons (c : UInt8) (r : Bytes) : Str.quoteBody (c :: r) = Str.quoteByte c ++ Str.quoteBody r := by
  simp [Str.quoteBody]

theorem quoteBody_append (a b : Bytes) : Str.quoteBody (a ++ b) = Str.quoteBody a ++ Str.quoteBody b := by
  simp [Str.quoteBody]

theorem quoteGreedy_spec : ∀ (s : Bytes) (dn k : Nat),
    (quoteGreedy s dn k).2.1.length ≤ dn ∧ (quoteGreedy s dn k).1 ≤ s.length ∧
    (quoteGreedy s dn k).2.1 = Str.quoteBody (s.take (quoteGreedy s dn k).1) ∧
    ((quoteGreedy s dn k).2.2 = true → (quoteGreedy s dn k).1 = s.length) ∧
    (s ≠ [] → (quoteGreedy s dn k).1 = 0 → k = 0 ∨ dn < 6) := by
  intro s
  induction s with
  | nil => intro dn k; simp [quoteGreedy, Str.quoteBody]
  | cons c r ih =>
    intro dn k
    cases k with
    | zero => simp [quoteGreedy, Str.quoteBody]
    | succ k =>
      by_cases hfit : (Str.quoteByte c).length ≤ dn
      · obtain ⟨h1, h2, h3, h4, _⟩ := ih (dn - (Str.quoteByte c).length) k
        simp only [quoteGreedy, hfit, if_true]
        refine ⟨?_, ?_, ?_, ?_, ?_⟩
        · simp only [List.length_append]; omega
        · simp only [List.length_cons]; omega
        · simp only [List.take_succ_cons, quoteBody_cons]; rw [← h3]
        · intro hd; simp only [List.length_cons]; rw [h4 hd]
        · intro _ h0; omega
      · simp only [quoteGreedy, hfit, if_false]
        refine ⟨by simp, by simp, by simp [Str.quoteBody], by simp, ?_⟩
        intro _ _
        right
        have := (quoteByte_len c).1
        omega

theorem mkNative_ok {spec : Bytes → Bytes} {g : Bytes → Nat → Nat → Nat × Bytes × Bool}
    (hspec : ∀ (s : Bytes) (dn k : Nat),
      (g s dn k).2.1.length ≤ dn ∧ (g s dn k).1 ≤ s.length ∧
      (g s dn k).2.1 = spec (s.take (g s dn k).1) ∧
      spec (s.take (g s dn k).1) ++ spec (s.drop (g s dn k).1) = spec s ∧
      ((g s dn k).2.2 = true → (g s dn k).1 = s.length) ∧
      (s ≠ [] → (g s dn k).1 = 0 → k = 0 ∨ dn < 6))
    (units : Nat) (hu : 0 < units) (z : Option UInt8) : NativeOK spec 6 (mkNative g units z) := by
  refine ⟨?_, ?_, ?_, ?_, ?_, ?_⟩
  · intro s dn
    obtain ⟨h1, _⟩ := hspec s dn units
    simp only [mkNative]
    cases z with
    | none => simpa using h1
    | some x => simp only [List.length_append, List.length_replicate]; omega
  · intro s dn
    simp only [mkNative, List.length_append]; omega
  · intro s dn
    obtain ⟨_, _, h3, _⟩ := hspec s dn units
    simp only [mkNative]
    rw [List.take_left' rfl]; exact h3
  · intro s dn
    obtain ⟨_, _, _, h4, _⟩ := hspec s dn units
    simpa [mkNative] using h4
  · intro s dn hd
    obtain ⟨_, _, _, _, h5, _⟩ := hspec s dn units
    simp only [mkNative] at hd ⊢
    rw [h5 hd]; exact Nat.le_refl _
  · intro s dn hne _ h0
    obtain ⟨_, _, _, _, _, h6⟩ := hspec s dn units
    simp only [mkNative] at h0
    rcases h6 hne h0 with h | h
    · omega
    · exact h

/-- a reference `native.Quote` meeting the contract exists, for every unit budget and with or
    without scribbling over the rest of the offered space -/
theorem refQuote_ok (units : Nat) (hu : 0 < units) (z : Option UInt8) :
    NativeOK Str.quoteBody 6 (mkNative quoteGreedy units z) := by
  apply mkNative_ok _ units hu z
  intro s dn k
  obtain ⟨h1, h2, h3, h4, h5⟩ := quoteGreedy_spec s dn k
  refine ⟨h1, h2, h3, ?_, h4, h5⟩
  rw [← quoteBody_append, List.take_append_drop]

/-! ### HTML escape -/

theorem htmlEscape_cons_plain {c : UInt8} {x : Bytes}
    (h1 : ∀ y, c :: x ≠ 226 :: 128 :: 168 :: y) (h2 : ∀ y, c :: x ≠ 226 :: 128 :: 169 :: y) :
    htmlEscape (c :: x) = htmlByte c ++ htmlEscape x := by
  rw [htmlEscape.eq_def]
  split
  · rename_i r heq; exact absurd heq (h1 r)
  · rename_i r heq; exact absurd heq (h2 r)
  · rename_i c' r' _ _ heq; cases heq; rfl
  · rename_i heq; cases heq

theorem take_cons2 {a b : UInt8} {r y : Bytes} {k : Nat} (h : r.take k = a :: b :: y) :
    ∃ y', r = a :: b :: y' := by
  match r, k with
  | [], _ => simp at h
  | _ :: _, 0 => simp at h
  | [_], k + 1 => simp at h
  | x :: x' :: r', 1 => simp at h
  | x :: x' :: r', k + 2 =>
    simp only [List.take_succ_cons, List.cons.injEq] at h
    obtain ⟨rfl, rfl, _⟩ := h
    exact ⟨r', rfl⟩

theorem htmlGreedy_spec : ∀ (s : Bytes) (dn k : Nat),
    (htmlGreedy s dn k).2.1.length ≤ dn ∧ (htmlGreedy s dn k).1 ≤ s.length ∧
    (htmlGreedy s dn k).2.1 = htmlEscape (s.take (htmlGreedy s dn k).1) ∧
    htmlEscape (s.take (htmlGreedy s dn k).1) ++ htmlEscape (s.drop (htmlGreedy s dn k).1) = htmlEscape s ∧
    ((htmlGreedy s dn k).2.2 = true → (htmlGreedy s dn k).1 = s.length) ∧
    (s ≠ [] → (htmlGreedy s dn k).1 = 0 → k = 0 ∨ dn < 6) := by
  intro s dn k
  fun_induction htmlGreedy s dn k with
  | case1 dn k => simp [htmlEscape]
  | case2 c r dn => simp [htmlEscape]
  | case3 r dn k hfit t ih =>
    have ht : t = htmlGreedy r (dn - 6) k := rfl
    rw [← ht] at ih
    obtain ⟨h1, h2, h3, h4, h5, _⟩ := ih
    refine ⟨?_, ?_, ?_, ?_, ?_, ?_⟩
    · simp only [List.length_append, esc2028, List.length_cons, List.length_nil]; omega
    · simp only [List.length_cons]; omega
    · simp only [List.take_succ_cons, htmlEscape, esc2028]; rw [← h3]
    · simp only [List.take_succ_cons, List.drop_succ_cons, htmlEscape, List.append_assoc]; rw [h4]
    · intro hd; simp only [List.length_cons]; rw [h5 hd]
    · intro _ h0; omega
  | case4 r dn k hfit =>
    refine ⟨by simp, by simp, by simp [htmlEscape], by simp [htmlEscape], by simp, ?_⟩
    intro _ _; right; omega
  | case5 r dn k hfit t ih =>
    have ht : t = htmlGreedy r (dn - 6) k := rfl
    rw [← ht] at ih
    obtain ⟨h1, h2, h3, h4, h5, _⟩ := ih
    refine ⟨?_, ?_, ?_, ?_, ?_, ?_⟩
    · simp only [List.length_append, esc2029, List.length_cons, List.length_nil]; omega
    · simp only [List.length_cons]; omega
    · simp only [List.take_succ_cons, htmlEscape, esc2029]; rw [← h3]
    · simp only [List.take_succ_cons, List.drop_succ_cons, htmlEscape, List.append_assoc]; rw [h4]
    · intro hd; simp only [List.length_cons]; rw [h5 hd]
    · intro _ h0; omega
  | case6 r dn k hfit =>
    refine ⟨by simp, by simp, by simp [htmlEscape], by simp [htmlEscape], by simp, ?_⟩
    intro _ _; right; omega
  | case7 c r dn k hn1 hn2 hfit t ih =>
    have ht : t = htmlGreedy r (dn - (htmlByte c).length) k := rfl
    rw [← ht] at ih
    obtain ⟨h1, h2, h3, h4, h5, _⟩ := ih
    have p1 : ∀ y, c :: r ≠ 226 :: 128 :: 168 :: y := fun y e => by cases e; exact hn1 y rfl rfl
    have p2 : ∀ y, c :: r ≠ 226 :: 128 :: 169 :: y := fun y e => by cases e; exact hn2 y rfl rfl
    have q1 : ∀ y, c :: r.take t.1 ≠ 226 :: 128 :: 168 :: y := by
      intro y e
      simp only [List.cons.injEq] at e
      obtain ⟨rfl, e⟩ := e
      obtain ⟨y', rfl⟩ := take_cons2 e
      exact p1 y' rfl
    have q2 : ∀ y, c :: r.take t.1 ≠ 226 :: 128 :: 169 :: y := by
      intro y e
      simp only [List.cons.injEq] at e
      obtain ⟨rfl, e⟩ := e
      obtain ⟨y', rfl⟩ := take_cons2 e
      exact p2 y' rfl
    refine ⟨?_, ?_, ?_, ?_, ?_, ?_⟩
    · simp only [List.length_append]; omega
    · simp only [List.length_cons]; omega
    · simp only [List.take_succ_cons]; rw [htmlEscape_cons_plain q1 q2, ← h3]
    · simp only [List.take_succ_cons, List.drop_succ_cons]
      rw [htmlEscape_cons_plain q1 q2, htmlEscape_cons_plain p1 p2, List.append_assoc, h4]
    · intro hd; simp only [List.length_cons]; rw [h5 hd]
    · intro _ h0; omega
  | case8 c r dn k hn1 hn2 hfit =>
    refine ⟨by simp, by simp, by simp [htmlEscape], by simp [htmlEscape], by simp, ?_⟩
    intro _ _; right
    have := (htmlByte_len c).1
    omega

theorem refHtml_ok (units : Nat) (hu : 0 < units) (z : Option UInt8) :
    NativeOK htmlEscape 6 (mkNative htmlGreedy units z) :=
  mkNative_ok htmlGreedy_spec units hu z

end SonicSpec.Own
