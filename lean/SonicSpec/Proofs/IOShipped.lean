/-
  C17 helper lemmas, part 4: the shipped stream decoder on streams of self-delimiting values
  (strings, arrays, objects): there it computes the specification.  Core Lean only.
-/
import SonicSpec.Proofs.IO
set_option linter.unusedSimpArgs false
namespace SonicSpec.IO

theorem allWs_cons (e : UInt8) (d : Bytes) (h : wsLen (e :: d) = (e :: d).length) :
    isSpace e = true ∧ wsLen d = d.length := by
  rw [wsLen] at h
  by_cases he : isSpace e = true
  · simp only [he, if_true, List.length_cons] at h; exact ⟨he, by omega⟩
  · simp [he] at h

theorem isSpace_ne (e : UInt8) (h : isSpace e = true) : (e == 34) = false ∧ (e == 92) = false := by
  simp only [isSpace, Bool.or_eq_true, beq_iff_eq] at h
  rcases h with ((h | h) | h) | h <;> subst h <;> decide

theorem skipString_ws (d : Bytes) (h : wsLen d = d.length) : skipString d = none := by
  induction d with
  | nil => simp [skipString]
  | cons e d ih =>
    have ⟨he, hd⟩ := allWs_cons e d h
    have ⟨h1, h2⟩ := isSpace_ne e he
    rw [skipString.eq_def]; simp [h1, h2, ih hd]

theorem skipString_none_ws (p d : Bytes) (hp : skipString p = none) (h : wsLen d = d.length) :
    skipString (p ++ d) = none := by
  induction p using skipString.induct with
  | case1 => simpa using skipString_ws d h
  | case2 c r hc => rw [skipString.eq_def] at hp; simp [hc] at hp
  | case3 c hc1 hc2 =>
    cases d with
    | nil => simpa using hp
    | cons e d' =>
      have ⟨_, hd⟩ := allWs_cons e d' h
      rw [List.cons_append, List.nil_append, skipString.eq_def]; simp [hc1, hc2, skipString_ws d' hd]
  | case4 c hc1 hc2 x r ih =>
    rw [skipString.eq_def] at hp; simp [hc1, hc2] at hp
    rw [List.cons_append, List.cons_append, skipString.eq_def]; simp [hc1, hc2, ih hp]
  | case5 c r hc1 hc2 ih =>
    rw [skipString.eq_def] at hp; simp [hc1, hc2] at hp
    rw [List.cons_append, skipString.eq_def]; simp [hc1, hc2, ih hp]

theorem isSpace_ne' (e c : UInt8) (h : isSpace e = true) (hc : isSpace c = false) : (e == c) = false := by
  cases hec : (e == c) with
  | false => rfl
  | true => have : e = c := by simpa using hec
            subst this; rw [h] at hc; cases hc

theorem skipContainer_ws (lc rc : UInt8) (hlc : isSpace lc = false) (hrc : isSpace rc = false)
    (d : Bytes) (h : wsLen d = d.length) : ∀ (dd : Nat) (q : Bool), skipContainer lc rc d dd q = none := by
  induction d with
  | nil => intro dd q; simp [skipContainer]
  | cons e d ih =>
    intro dd q
    have ⟨he, hd⟩ := allWs_cons e d h
    have ⟨h1, h2⟩ := isSpace_ne e he
    have h3 := isSpace_ne' e rc he hrc
    have h4 := isSpace_ne' e lc he hlc
    rw [skipContainer.eq_def]
    simp only [h1, h2, h3, h4, Bool.false_eq_true, if_false, ih hd]
    cases q <;> simp

theorem skipContainer_none_ws (lc rc : UInt8) (hlc : isSpace lc = false) (hrc : isSpace rc = false)
    (p d : Bytes) (dd : Nat) (q : Bool) (hp : skipContainer lc rc p dd q = none)
    (h : wsLen d = d.length) : skipContainer lc rc (p ++ d) dd q = none := by
  induction p, dd, q using skipContainer.induct lc rc with
  | case1 dd q => simpa using skipContainer_ws lc rc hlc hrc d h dd q
  | case2 c dd q h92 =>
    cases d with
    | nil => simpa using hp
    | cons e d' =>
      have ⟨he, hd⟩ := allWs_cons e d' h
      have ⟨h1, h2⟩ := isSpace_ne e he
      rw [List.cons_append, List.nil_append, skipContainer.eq_def]
      simp [h92, h1, h2, skipContainer_ws lc rc hlc hrc (e :: d') h dd q]
  | case3 c dd q h92 x r hx ih =>
    rw [skipContainer.eq_def] at hp; simp [h92, hx] at hp
    rw [List.cons_append, List.cons_append, skipContainer.eq_def]; simp [h92, hx, ih hp]
  | case4 c dd q h92 x r hx ih =>
    rw [skipContainer.eq_def] at hp; simp [h92, hx] at hp
    rw [List.cons_append, List.cons_append, skipContainer.eq_def]
    have := ih hp
    rw [List.cons_append] at this
    simp [h92, hx, this]
  | case5 c r dd q h92 h34 ih =>
    rw [skipContainer.eq_def] at hp; simp [h92, h34] at hp
    rw [List.cons_append, skipContainer.eq_def]; simp [h92, h34, ih hp]
  | case6 c r dd h92 h34 ih =>
    rw [skipContainer.eq_def] at hp; simp [h92, h34] at hp
    rw [List.cons_append, skipContainer.eq_def]; simp [h92, h34, ih hp]
  | case7 c r q h92 h34 hq hrc' =>
    have hq' : q = false := by simpa using hq
    subst hq'
    rw [skipContainer.eq_def] at hp; simp [h92, h34, hrc'] at hp
  | case8 c r q h92 h34 hq hrc' d' ih =>
    have hq' : q = false := by simpa using hq
    subst hq'
    rw [skipContainer.eq_def] at hp; simp [h92, h34, hrc'] at hp
    rw [List.cons_append, skipContainer.eq_def]; simp [h92, h34, hrc', ih hp]
  | case9 c r dd q h92 h34 hq hrc' hlc' ih =>
    have hq' : q = false := by simpa using hq
    subst hq'
    rw [skipContainer.eq_def] at hp; simp [h92, h34, hrc', hlc'] at hp
    rw [List.cons_append, skipContainer.eq_def]; simp [h92, h34, hrc', hlc', ih hp]
  | case10 c r dd q h92 h34 hq hrc' hlc' ih =>
    have hq' : q = false := by simpa using hq
    subst hq'
    rw [skipContainer.eq_def] at hp; simp [h92, h34, hrc', hlc'] at hp
    rw [List.cons_append, skipContainer.eq_def]; simp [h92, h34, hrc', hlc', ih hp]

/-- appending white space cannot complete a string, array or object -/
theorem frame_none_append_ws (c : UInt8) (r d : Bytes) (hc : isDelimStart c = true)
    (hp : Fixed.frame (c :: r) = none) (h : wsLen d = d.length) : Fixed.frame (c :: r ++ d) = none := by
  simp only [isDelimStart, Bool.or_eq_true, beq_iff_eq] at hc
  simp only [Fixed.frame, List.cons_append] at hp ⊢
  rcases hc with (rfl | rfl) | rfl
  · simp only [beq_self_eq_true, if_true, Option.map_eq_none_iff] at hp ⊢
    exact skipContainer_none_ws 91 93 (by decide) (by decide) r d 0 false hp h
  · have : ((123 : UInt8) == 91) = false := by decide
    simp only [this, Bool.false_eq_true, if_false, beq_self_eq_true, if_true, Option.map_eq_none_iff] at hp ⊢
    exact skipContainer_none_ws 123 125 (by decide) (by decide) r d 0 false hp h
  · have h1 : ((34 : UInt8) == 91) = false := by decide
    have h2 : ((34 : UInt8) == 123) = false := by decide
    simp only [h1, h2, Bool.false_eq_true, if_false, beq_self_eq_true, if_true, Option.map_eq_none_iff] at hp ⊢
    exact skipString_none_ws r d hp h

/-- on a string, array or object the native skip and the lexical frame agree -/
theorem skipOneFast_delim (c : UInt8) (r : Bytes) (hc : isDelimStart c = true) :
    skipOneFast (c :: r) = match Fixed.frame (c :: r) with
      | some x => .ok 0 x
      | none => .eof := by
  simp only [isDelimStart, Bool.or_eq_true, beq_iff_eq] at hc
  rcases hc with (rfl | rfl) | rfl
  · simp only [skipOneFast, Fixed.frame, wsLen]
    have : isSpace 91 = false := by decide
    simp only [this, Bool.false_eq_true, if_false, List.drop_zero, beq_self_eq_true, if_true]
    cases skipContainer 91 93 r 0 false <;> simp; omega
  · simp only [skipOneFast, Fixed.frame, wsLen]
    have : isSpace 123 = false := by decide
    have h1 : ((123 : UInt8) == 91) = false := by decide
    simp only [this, h1, Bool.false_eq_true, if_false, List.drop_zero, beq_self_eq_true, if_true]
    cases skipContainer 123 125 r 0 false <;> simp; omega
  · simp only [skipOneFast, Fixed.frame, wsLen]
    have : isSpace 34 = false := by decide
    have h1 : ((34 : UInt8) == 91) = false := by decide
    have h2 : ((34 : UInt8) == 123) = false := by decide
    simp only [this, h1, h2, Bool.false_eq_true, if_false, List.drop_zero, beq_self_eq_true, if_true]
    cases skipString r <;> simp; omega



theorem scan_at_end (st : DState) (d : Bytes) :
    pending { append st d with scanp := st.buf.length } = d := by
  simp [pending, append]

/-- the shipped `try_skip` loop on a string/array/object that is complete in the stream: it finds
    exactly the lexical frame, whatever the chunking -/
theorem Faithful.frameLoop_delim (s : Nat) (c : UInt8) (r : Bytes) (x : Nat)
    (hc : isDelimStart c = true) (hx : Fixed.frame (c :: r) = some x) (sc : Script) :
    ∀ (st : DState) (reskip : Bool) (f : RErr),
    s ≤ st.buf.length → (∃ r0, st.buf.drop s = c :: r0) →
    st.buf.drop s ++ concat sc = c :: r →
    (reskip = true ∨ Fixed.frame (st.buf.drop s) = none) →
    ∃ st2 sc2 f2, Faithful.frameLoop st s reskip sc f = .ok st2 0 x sc2 f2 ∧
      st2.err = st.err ∧ st2.scanned = st.scanned ∧ s ≤ st2.buf.length ∧
      st2.buf.drop s ++ concat sc2 = c :: r ∧ x ≤ (st2.buf.drop s).length ∧
      termOf sc2 f2 = termOf sc f := by
  induction sc with
  | nil =>
    intro st reskip f hs ⟨r0, hp⟩ hD hre
    simp only [concat, List.append_nil] at hD
    rw [hD] at hp
    have hfr : Fixed.frame (st.buf.drop s) = some x := by rw [hD]; exact hx
    rcases hre with rfl | hnone
    · unfold Faithful.frameLoop
      have := skipOneFast_delim c r hc
      rw [hx] at this
      simp only [if_true, hD, this]
      have ⟨_, h2, _⟩ := frame_stable _ [] x hx
      exact ⟨st, [], f, rfl, rfl, rfl, hs, by simp [concat, hD], by rw [hD]; exact h2, rfl⟩
    · rw [hfr] at hnone; cases hnone
  | cons hd rest ih =>
    intro st reskip f hs ⟨r0, hp⟩ hD hre
    obtain ⟨d, oe⟩ := hd
    -- either the skip succeeds now, or the buffered prefix has no complete frame yet
    have key : (reskip = true ∧ ∃ x', Fixed.frame (st.buf.drop s) = some x') ∨
        Fixed.frame (st.buf.drop s) = none := by
      cases hf : Fixed.frame (st.buf.drop s) with
      | none => exact Or.inr rfl
      | some x' =>
        rcases hre with rfl | hnone
        · exact Or.inl ⟨rfl, x', rfl⟩
        · rw [hf] at hnone; cases hnone
    rcases key with ⟨rfl, x', hf⟩ | hnone
    · -- frame complete in the buffer: stability gives x' = x
      have ⟨h1, h2, _⟩ := frame_stable _ (concat ((d, oe) :: rest)) x' hf
      rw [hD, hx] at h1
      have hxx : x = x' := by simpa using h1
      subst hxx
      unfold Faithful.frameLoop
      have := skipOneFast_delim c r0 hc
      rw [← hp, hf] at this
      simp only [if_true, this]
      exact ⟨st, _, f, rfl, rfl, rfl, hs, hD, h2, rfl⟩
    · -- not complete: the skip (if attempted) reports end of input, more is read
      have hskip : (if reskip = true then skipOneFast (st.buf.drop s) else SkipRes.eof) = SkipRes.eof := by
        cases reskip with
        | false => rfl
        | true =>
          have := skipOneFast_delim c r0 hc
          rw [← hp, hnone] at this
          simpa using this
      have hdrop : (st.buf ++ d).drop s = st.buf.drop s ++ d := List.drop_append_of_le_length hs
      unfold Faithful.frameLoop
      rw [hskip]
      cases oe with
      | none =>
        simp only
        have hD' : (st.buf.drop s ++ d) ++ concat rest = c :: r := by
          rw [List.append_assoc]; simpa [concat] using hD
        cases hsc : scan { append st d with scanp := st.buf.length } with
        | some p =>
          obtain ⟨c', st2⟩ := p
          have ⟨e1, _⟩ := scan_some _ c' st2 hsc
          simp only
          have hb : st2.buf = st.buf ++ d := by rw [e1]; simp [append]
          have := ih st2 true f (by rw [hb]; simp; omega) ⟨r0 ++ d, by rw [hb, hdrop, hp]; rfl⟩
            (by rw [hb, hdrop]; exact hD') (Or.inl rfl)
          obtain ⟨st3, sc3, f3, g0, g1, g2, g3, g4, g5, g6⟩ := this
          refine ⟨st3, sc3, f3, g0, ?_, ?_, g3, g4, g5, by simpa [termOf] using g6⟩
          · rw [g1, e1]; simp [append]
          · rw [g2, e1]; simp [append]
        | none =>
          simp only
          have hws := (scan_none _).mp hsc
          rw [scan_at_end] at hws
          have hfn : Fixed.frame ((st.buf ++ d).drop s) = none := by
            rw [hdrop, hp]; rw [hp] at hnone
            exact frame_none_append_ws c r0 d hc hnone hws
          have := ih { append st d with scanp := st.buf.length } false f
            (by simp [append]; omega) ⟨r0 ++ d, by simp only [append]; rw [hdrop, hp]; rfl⟩
            (by simp only [append]; rw [hdrop]; exact hD') (Or.inr (by simpa [append] using hfn))
          obtain ⟨st3, sc3, f3, g0, g1, g2, g3, g4, g5, g6⟩ := this
          exact ⟨st3, sc3, f3, g0, by rw [g1]; simp [append], by rw [g2]; simp [append], g3, g4, g5,
            by simpa [termOf] using g6⟩
      | some e =>
        simp only
        have hD' : st.buf.drop s ++ d = c :: r := by simpa [concat] using hD
        cases hsc : scan { append st d with scanp := st.buf.length } with
        | some p =>
          obtain ⟨c', st2⟩ := p
          have ⟨e1, _⟩ := scan_some _ c' st2 hsc
          simp only
          have hb : st2.buf = st.buf ++ d := by rw [e1]; simp [append]
          have hsk := skipOneFast_delim c r hc
          rw [hx] at hsk
          rw [hb, hdrop, hD', hsk]
          simp only
          have ⟨_, h2, _⟩ := frame_stable _ [] x hx
          refine ⟨st2, [], e, rfl, ?_, ?_, by rw [hb]; simp; omega, by rw [hb, hdrop]; simpa [concat] using hD',
            by rw [hb, hdrop, hD']; exact h2, by simp [termOf]⟩
          · rw [e1]; simp [append]
          · rw [e1]; simp [append]
        | none =>
          have hws := (scan_none _).mp hsc
          rw [scan_at_end] at hws
          rw [hp] at hnone
          have := frame_none_append_ws c r0 d hc hnone hws
          rw [← hp, hD', hx] at this
          cases this



section generic
variable {V : Type} (dec : Bytes → Option (V × Nat))

theorem isDelimStart_kind (c : UInt8) (hc : isDelimStart c = true) :
    Fixed.kindOf c ≠ .invalid ∧ (c == 93 || c == 125) = false := by
  simp only [isDelimStart, Bool.or_eq_true, beq_iff_eq] at hc
  rcases hc with (rfl | rfl) | rfl <;> decide

theorem specStep_end (t : RErr) (data : Bytes) (hd : dropWs data = []) :
    specStep dec false t data = .done t.toTerminal := by
  simp [specStep, hd, specStepCore]

theorem specStep_delim (t : RErr) (data : Bytes) (c : UInt8) (r : Bytes) (x : Nat) (v : V)
    (hd : dropWs data = c :: r) (hc : isDelimStart c = true) (hx : Fixed.frame (c :: r) = some x)
    (hdec : dec ((c :: r).take x) = some (v, x)) :
    specStep dec false t data = .val v ((c :: r).drop x) := by
  have ⟨hk, _⟩ := isDelimStart_kind c hc
  have ⟨_, _, hpos⟩ := frame_stable _ [] x hx
  simp only [specStep, hd, specStepCore, hk, if_false, specFrame, hx, hdec]
  have : ¬(x = 0 ∨ x < x) := by omega
  simp only [this, if_false]

theorem Faithful.decode_end (st : DState) (sc : Script) (f : RErr) (h0 : st.scanp = 0)
    (he : st.err = none) (hd : dropWs (st.buf ++ concat sc) = []) :
    ∃ st' sc' f', Faithful.decode dec st sc f = (.error (termOf sc f).toTerminal, st', sc', f') := by
  have hp := peek_spec sc st f
  have hpend : pending st = st.buf := by simp [pending, h0]
  rw [hpend] at hp
  unfold Faithful.decode
  rw [he]
  simp only
  rcases hpk : peek st sc f with ⟨oc, st1, sc1, f1⟩
  rw [hpk] at hp
  cases oc with
  | none =>
    simp only at hp ⊢
    rw [hp.2]
    exact ⟨_, _, _, rfl⟩
  | some c =>
    simp only at hp
    obtain ⟨_, h2, ⟨r, h3⟩, _, _⟩ := hp
    rw [hd, h3] at h2
    simp at h2

theorem Faithful.decode_delim (st : DState) (sc : Script) (f : RErr) (h0 : st.scanp = 0)
    (he : st.err = none) (c : UInt8) (r : Bytes) (x : Nat) (v : V)
    (hd : dropWs (st.buf ++ concat sc) = c :: r) (hc : isDelimStart c = true)
    (hx : Fixed.frame (c :: r) = some x) (hdec : dec ((c :: r).take x) = some (v, x)) :
    ∃ st' sc' f', Faithful.decode dec st sc f = (.value v, st', sc', f') ∧ st'.scanp = 0 ∧
      st'.err = none ∧ dropWs (st'.buf ++ concat sc') = dropWs ((c :: r).drop x) ∧
      termOf sc' f' = termOf sc f := by
  have hp := peek_spec sc st f
  have hpend : pending st = st.buf := by simp [pending, h0]
  rw [hpend] at hp
  unfold Faithful.decode
  rw [he]
  simp only
  rcases hpk : peek st sc f with ⟨oc, st1, sc1, f1⟩
  rw [hpk] at hp
  cases oc with
  | none =>
    simp only at hp
    rw [hd] at hp; simp at hp
  | some c' =>
    simp only at hp ⊢
    obtain ⟨h1, h2, ⟨r0, h3⟩, h4, _⟩ := hp
    rw [hd] at h2
    have hcc : c' = c := by rw [h3] at h2; simp at h2; exact h2.1
    subst hcc
    have ⟨_, hcl⟩ := isDelimStart_kind c' hc
    simp only [hcl, Bool.false_eq_true, if_false]
    have hs : st1.scanp ≤ st1.buf.length := by
      have : (pending st1).length = st1.buf.length - st1.scanp := by simp [pending]
      rw [h3] at this; simp at this; omega
    have hfl := Faithful.frameLoop_delim st1.scanp c' r x hc hx sc1 st1 true f1 hs ⟨r0, h3⟩ h2 (Or.inl rfl)
    obtain ⟨st2, sc2, f2, g0, g1, g2, g3, g4, g5, g6⟩ := hfl
    rw [g0]
    simp only [Nat.zero_add, Nat.add_sub_cancel]
    have htake : (st2.buf.drop st1.scanp).take x = (c' :: r).take x := by
      rw [← g4, List.take_append_of_le_length g5]
    rw [htake, hdec]
    simp only
    refine ⟨_, _, _, rfl, ?_⟩
    have hfin := finish_spec { st2 with scanp := x + st1.scanp } (concat sc2)
    obtain ⟨q1, q2, q3, _⟩ := hfin
    refine ⟨q1, by rw [q2]; simp [g1, h1, he], ?_, by rw [g6, h4]⟩
    rw [q3]
    have : pending { st2 with scanp := x + st1.scanp } = (st2.buf.drop st1.scanp).drop x := by
      simp [pending, List.drop_drop, Nat.add_comm]
    rw [this, ← g4, List.drop_append_of_le_length g5]

theorem Faithful.run_eq_delim (fuel : Nat) : ∀ (n : Nat) (st : DState) (sc : Script) (f : RErr) (data : Bytes),
    st.scanp = 0 → st.err = none → dropWs (st.buf ++ concat sc) = dropWs data →
    SelfDelimited dec n data →
    run (Faithful.decode dec) fuel st sc f = decodeAllFuel dec false (termOf sc f) fuel data := by
  induction fuel with
  | zero => intro n st sc f data _ _ _ _; rfl
  | succ fuel ih =>
    intro n st sc f data h0 he hd hsd
    unfold run decodeAllFuel
    have hend : dropWs data = [] →
        (match Faithful.decode dec st sc f with
          | (.value v, st', sc', f') =>
            let (vs, t) := run (Faithful.decode dec) fuel st' sc' f'
            (v :: vs, t)
          | (.nothing, _, _, _) => ([], Stop.noProgress)
          | (.error t, _, _, _) => ([], Stop.term t)) =
        (match specStep dec false (termOf sc f) data with
          | .done t => ([], Stop.term t)
          | .val v rest =>
            let (vs, t) := decodeAllFuel dec false (termOf sc f) fuel rest
            (v :: vs, t)) := by
      intro hnil
      have ⟨st', sc', f', heq⟩ := Faithful.decode_end dec st sc f h0 he (by rw [hd, hnil])
      rw [heq, specStep_end dec _ data hnil]
    cases n with
    | zero => exact hend hsd
    | succ n =>
      rcases hsd with hnil | ⟨c, r, x, v, h1, h2, h3, h4, h5⟩
      · exact hend hnil
      · have ⟨st', sc', f', heq, q1, q2, q3, q4⟩ :=
          Faithful.decode_delim dec st sc f h0 he c r x v (by rw [hd, h1]) h2 h3 h4
        rw [heq, specStep_delim dec _ data c r x v h1 h2 h3 h4]
        simp only
        rw [ih n st' sc' f' _ q1 q2 q3 h5, q4]

/-- on streams of self-delimiting values the shipped decoder computes the specification,
    whatever the chunking -/
theorem Faithful.outputs_eq_delim (sc : Script) (f : RErr) (n : Nat)
    (h : SelfDelimited dec n (concat sc)) :
    Faithful.outputs dec sc f = decodeAllStop dec (concat sc) (termOf sc f) := by
  unfold Faithful.outputs decodeAllStop
  exact Faithful.run_eq_delim dec _ n {} sc f (concat sc) rfl rfl (by simp) h

end generic

end SonicSpec.IO
