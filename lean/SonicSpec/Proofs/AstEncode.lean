/-
  C15 - abs / repOk as list statements, and the encoder of NodeM prints the canonical text of abs.
-/
import SonicSpec.Proofs.AstList
set_option linter.unusedSimpArgs false
namespace SonicSpec.Ast
theorem absElems_eq : ∀ st : List NodeM, absElems st = (st.filter NodeM.live).map NodeM.abs
  | [] => by simp [absElems]
  | x :: xs => by
    unfold absElems
    by_cases h : x.live <;> simp [h, List.filter_cons, absElems_eq xs]

theorem absPairs_eq : ∀ st : List PairM,
    absPairs st = (st.filter pairLive).map (fun p => (p.2.1, p.2.2.abs))
  | [] => by simp [absPairs]
  | (h, k, v) :: xs => by
    unfold absPairs
    by_cases hv : v.live <;> simp [hv, List.filter_cons, pairLive, absPairs_eq xs]

theorem absElems_append (a b : List NodeM) : absElems (a ++ b) = absElems a ++ absElems b := by
  simp [absElems_eq]

theorem absPairs_append (a b : List PairM) : absPairs (a ++ b) = absPairs a ++ absPairs b := by
  simp [absPairs_eq]

theorem repElems_iff : ∀ st : List NodeM,
    repElems st = true ↔ ∀ x ∈ st, x.live = true → x.repOk = true
  | [] => by simp [repElems]
  | x :: xs => by
    unfold repElems
    rw [Bool.and_eq_true, repElems_iff xs]
    by_cases h : x.live <;> simp [h]

theorem repPairs_iff : ∀ st : List PairM,
    repPairs st = true ↔ ∀ p ∈ st, (pairLive p = true → p.2.2.repOk = true) ∧ (pairLive p = false → p.2.1 = [])
  | [] => by simp [repPairs]
  | (h, k, v) :: xs => by
    unfold repPairs
    rw [Bool.and_eq_true, repPairs_iff xs]
    by_cases hv : v.live <;> simp [hv, pairLive, List.isEmpty_iff]

theorem allLiveElems_iff : ∀ st : List NodeM, allLiveElems st = true ↔ ∀ x ∈ st, x.live = true
  | [] => by simp [allLiveElems]
  | x :: xs => by
    unfold allLiveElems
    rw [Bool.and_eq_true, allLiveElems_iff xs]; simp

theorem allLivePairs_iff : ∀ st : List PairM, allLivePairs st = true ↔ ∀ p ∈ st, pairLive p = true
  | [] => by simp [allLivePairs]
  | (h, k, v) :: xs => by
    unfold allLivePairs
    rw [Bool.and_eq_true, allLivePairs_iff xs]; simp [pairLive]

theorem canonList_eq : ∀ xs : List Tree, canonList xs = xs.map Tree.canon
  | [] => by simp [canonList]
  | x :: xs => by simp [canonList, canonList_eq xs]

theorem canonPairs_eq : ∀ kvs : List (Key × Tree),
    canonPairs kvs = kvs.map (fun kv => canonStr kv.1 ++ 58 :: kv.2.canon)
  | [] => by simp [canonPairs]
  | (k, v) :: kvs => by simp [canonPairs, canonPairs_eq kvs]


theorem encode_live : ∀ n : NodeM, n.live = true → n.encode.2.live = true := by
  intro n h
  cases n <;> simp [NodeM.encode, NodeM.live, mkObject] at h ⊢

theorem raw_elems_abs (rest : List Tree) :
    absElems (rest.map (fun v => NodeM.raw v false)) = rest := by
  induction rest with
  | nil => simp [absElems]
  | cons x xs ih => simp [absElems, NodeM.live, NodeM.abs, ih]

theorem raw_pairs_abs (rest : List (Key × Tree)) : absPairs (rest.map rawPair) = rest := by
  induction rest with
  | nil => simp [absPairs]
  | cons x xs ih =>
    obtain ⟨k, v⟩ := x
    simp [absPairs, rawPair, mkPair, NodeM.live, NodeM.abs, ih]

theorem countLive_append {α : Type} (live : α → Bool) (a b : List α) :
    countLive live (a ++ b) = countLive live a + countLive live b := by
  simp [countLive]

theorem countLive_all {α : Type} (live : α → Bool) (a : List α) (h : ∀ x ∈ a, live x = true) :
    countLive live a = a.length := by
  simp [countLive, List.filter_eq_self.mpr h]

theorem countLive_of_map {α β : Type} (la : α → Bool) (lb : β → Bool) (a : List α) (b : List β)
    (h : a.map la = b.map lb) : countLive la a = countLive lb b := by
  have e1 : countLive la a = ((a.map la).filter id).length := by
    rw [List.filter_map]; simp [countLive]
  have e2 : countLive lb b = ((b.map lb).filter id).length := by
    rw [List.filter_map]; simp [countLive]
  rw [e1, e2, h]

theorem repElems_append (a b : List NodeM) : repElems (a ++ b) = (repElems a && repElems b) := by
  induction a with
  | nil => simp [repElems]
  | cons x xs ih => simp [repElems, ih, Bool.and_assoc]

theorem repPairs_append (a b : List PairM) : repPairs (a ++ b) = (repPairs a && repPairs b) := by
  induction a with
  | nil => simp [repPairs]
  | cons x xs ih =>
    obtain ⟨h, k, v⟩ := x
    simp [repPairs, ih, Bool.and_assoc]

theorem repElems_raw (rest : List Tree) : repElems (rest.map (fun v => NodeM.raw v false)) = true := by
  induction rest with
  | nil => simp [repElems]
  | cons x xs ih => simp [repElems, NodeM.live, NodeM.repOk, ih]

theorem repPairs_raw (rest : List (Key × Tree)) : repPairs (rest.map rawPair) = true := by
  induction rest with
  | nil => simp [repPairs]
  | cons x xs ih =>
    obtain ⟨k, v⟩ := x
    simp [repPairs, rawPair, mkPair, NodeM.live, NodeM.repOk, ih]

theorem countLive_raw_elems (rest : List Tree) :
    countLive NodeM.live (rest.map (fun v => NodeM.raw v false)) = rest.length := by
  rw [countLive_all]; simp
  intro x hx; simp at hx; obtain ⟨v, _, rfl⟩ := hx; rfl

theorem countLive_raw_pairs (rest : List (Key × Tree)) :
    countLive pairLive (rest.map rawPair) = rest.length := by
  rw [countLive_all]; simp
  intro x hx; simp at hx; obtain ⟨k, v, _, rfl⟩ := hx; rfl

theorem canonList_append (a b : List Tree) : canonList (a ++ b) = canonList a ++ canonList b := by
  simp [canonList_eq]

theorem canonPairs_append (a b : List (Key × Tree)) : canonPairs (a ++ b) = canonPairs a ++ canonPairs b := by
  simp [canonPairs_eq]

mutual
theorem encode_spec : ∀ n : NodeM, n.repOk = true →
    n.encode.1 = n.abs.canon ∧ n.encode.2.abs = n.abs ∧ n.encode.2.repOk = true
  | .gone, h => by simp [NodeM.repOk] at h
  | .null, _ => by simp [NodeM.encode, NodeM.abs, NodeM.repOk]
  | .bool b, _ => by simp [NodeM.encode, NodeM.abs, NodeM.repOk]
  | .num l, _ => by simp [NodeM.encode, NodeM.abs, NodeM.repOk, Tree.canon]
  | .str s, _ => by simp [NodeM.encode, NodeM.abs, NodeM.repOk, Tree.canon]
  | .raw v lock, _ => by simp [NodeM.encode, NodeM.abs, NodeM.repOk]
  | .arr l st, h => by
    simp only [NodeM.repOk, Bool.and_eq_true, decide_eq_true_eq] at h
    obtain ⟨h1, h2, h3, h4⟩ := encodeElems_spec st h.1
    simp only [NodeM.encode, NodeM.abs, NodeM.repOk, Tree.canon, h1, h2, h3, Bool.true_and,
      decide_eq_true_eq, true_and]
    rw [h.2]; exact (countLive_of_map _ _ _ _ h4).symm
  | .arrLazy pre rest, h => by
    simp only [NodeM.repOk, Bool.and_eq_true] at h
    obtain ⟨⟨hr, hl⟩, _⟩ := h
    obtain ⟨h1, h2, h3, h4⟩ := encodeElems_spec pre hr
    have hall := (allLiveElems_iff pre).mp hl
    have hc : countLive NodeM.live (encodeElems pre).2 = pre.length := by
      rw [countLive_of_map _ NodeM.live _ pre h4, countLive_all _ _ hall]
    simp only [NodeM.encode, NodeM.abs, NodeM.repOk, Tree.canon, h1, canonList_append, canonList_eq rest,
      absElems_append, h2, raw_elems_abs, repElems_append, h3, repElems_raw, countLive_append, hc,
      countLive_raw_elems, Bool.true_and, decide_true, and_self]
  | .obj l st ix, h => by
    simp only [NodeM.repOk, Bool.and_eq_true, decide_eq_true_eq] at h
    obtain ⟨h1, h2, h3, h4⟩ := encodePairs_spec st h.1
    simp only [NodeM.encode, NodeM.abs, NodeM.repOk, Tree.canon, h1, h2, h3, Bool.true_and,
      decide_eq_true_eq, true_and]
    rw [h.2]; exact (countLive_of_map _ _ _ _ h4).symm
  | .objLazy pre rest, h => by
    simp only [NodeM.repOk, Bool.and_eq_true] at h
    obtain ⟨⟨hr, hl⟩, _⟩ := h
    obtain ⟨h1, h2, h3, h4⟩ := encodePairs_spec pre hr
    have hall := (allLivePairs_iff pre).mp hl
    have hc : countLive pairLive (encodePairs pre).2 = pre.length := by
      rw [countLive_of_map _ pairLive _ pre h4, countLive_all _ _ hall]
    have hlen : (encodePairs pre).2.length = pre.length := by
      have := congrArg List.length h4; simpa using this
    simp only [NodeM.encode, mkObject, NodeM.abs, NodeM.repOk, Tree.canon, h1, canonPairs_append,
      canonPairs_eq rest, absPairs_append, h2, raw_pairs_abs, repPairs_append, h3, repPairs_raw,
      countLive_append, hc, countLive_raw_pairs, Bool.true_and, List.length_append, List.length_map,
      hlen, decide_true, and_self]
theorem encodeElems_spec : ∀ st : List NodeM, repElems st = true →
    (encodeElems st).1 = canonList (absElems st) ∧ absElems (encodeElems st).2 = absElems st ∧
    repElems (encodeElems st).2 = true ∧ (encodeElems st).2.map NodeM.live = st.map NodeM.live
  | [], _ => by simp [encodeElems, absElems, canonList, repElems]
  | x :: xs, h => by
    unfold repElems at h
    rw [Bool.and_eq_true] at h
    obtain ⟨h1, h2, h3, h4⟩ := encodeElems_spec xs h.2
    by_cases hx : x.live
    · have hr : x.repOk = true := by simpa [hx] using h.1
      obtain ⟨e1, e2, e3⟩ := encode_spec x hr
      have el := encode_live x hx
      simp [encodeElems, hx, absElems, canonList, repElems, el, e1, e2, e3, h1, h2, h3, h4]
    · have hx' : x.live = false := by simpa using hx
      simp [encodeElems, hx', absElems, canonList, repElems, h1, h2, h3, h4]
theorem encodePairs_spec : ∀ st : List PairM, repPairs st = true →
    (encodePairs st).1 = canonPairs (absPairs st) ∧ absPairs (encodePairs st).2 = absPairs st ∧
    repPairs (encodePairs st).2 = true ∧ (encodePairs st).2.map pairLive = st.map pairLive
  | [], _ => by simp [encodePairs, absPairs, canonPairs, repPairs]
  | (hh, k, v) :: xs, h => by
    unfold repPairs at h
    rw [Bool.and_eq_true] at h
    obtain ⟨h1, h2, h3, h4⟩ := encodePairs_spec xs h.2
    by_cases hx : v.live
    · have hr : v.repOk = true := by simpa [hx] using h.1
      obtain ⟨e1, e2, e3⟩ := encode_spec v hr
      have el := encode_live v hx
      simp [encodePairs, hx, absPairs, canonPairs, repPairs, pairLive, el, e1, e2, e3, h1, h2, h3, h4]
    · have hx' : v.live = false := by simpa using hx
      have hk : k.isEmpty = true := by simpa [hx'] using h.1
      simp [encodePairs, hx', absPairs, canonPairs, repPairs, pairLive, hk, h1, h2, h3, h4]
end

end SonicSpec.Ast
