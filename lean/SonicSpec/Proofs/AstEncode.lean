/-
  C15 - the encoder of NodeM prints the canonical text of abs.
-/
import SonicSpec.Proofs.AstIndex
set_option linter.unusedSimpArgs false
namespace SonicSpec.Ast

theorem encode_live : ∀ n : NodeM, n.live = true → n.encode.2.live = true := by
  intro n h
  cases n <;> simp [NodeM.encode, NodeM.live, mkObject] at h ⊢

mutual
theorem encode_spec : ∀ n : NodeM, n.repOk = true →
    n.encode.1 = n.abs.canon ∧ n.encode.2.abs = n.abs ∧ n.encode.2.repOk = true
  | .gone, h => by simp [NodeM.repOk] at h
  | .null, _ => by simp [NodeM.encode, NodeM.abs, NodeM.repOk]
  | .bool b, _ => by simp [NodeM.encode, NodeM.abs, NodeM.repOk]
  | .num l, _ => by simp [NodeM.encode, NodeM.abs, NodeM.repOk, Tree.canon]
  | .str s, _ => by simp [NodeM.encode, NodeM.abs, NodeM.repOk, Tree.canon]
  | .raw v lock, _ => by simp [NodeM.encode, NodeM.abs, NodeM.repOk]
  | .arr l st, h => by
    simp only [NodeM.repOk, Bool.and_eq_true, decide_eq_true_eq] at h
    obtain ⟨h1, h2, h3, h4⟩ := encodeElems_spec st h.1
    simp only [NodeM.encode, NodeM.abs, NodeM.repOk, Tree.canon, h1, h2, h3, Bool.true_and,
      decide_eq_true_eq, true_and]
    rw [h.2]; exact (countLive_of_map _ _ _ _ h4).symm
  | .arrLazy pre rest, h => by
    simp only [NodeM.repOk, Bool.and_eq_true] at h
    obtain ⟨⟨hr, hl⟩, _⟩ := h
    obtain ⟨h1, h2, h3, h4⟩ := encodeElems_spec pre hr
    have hall := (allLiveElems_iff pre).mp hl
    have hc : countLive NodeM.live (encodeElems pre).2 = pre.length := by
      rw [countLive_of_map _ NodeM.live _ pre h4, countLive_all _ _ hall]
    simp only [NodeM.encode, NodeM.abs, NodeM.repOk, Tree.canon, h1, canonList_append, canonList_eq rest,
      absElems_append, h2, raw_elems_abs, repElems_append, h3, repElems_raw, countLive_append, hc,
      countLive_raw_elems, Bool.true_and, decide_true, and_self]
  | .obj l st ix, h => by
    simp only [NodeM.repOk, Bool.and_eq_true, decide_eq_true_eq] at h
    obtain ⟨⟨hr, hl⟩, hix⟩ := h
    obtain ⟨h1, h2, h3, h4⟩ := encodePairs_spec st hr
    have hix' : ixOk (encodePairs st).2 ix = true := by rw [ixOk_congr _ _ ix h4]; exact hix
    simp only [NodeM.encode, NodeM.abs, NodeM.repOk, Tree.canon, h1, h2, h3, hix', Bool.true_and, Bool.and_true,
      decide_eq_true_eq, true_and]
    rw [hl]; exact (countLive_of_map _ _ _ _ (skel_live _ _ h4)).symm
  | .objLazy pre rest, h => by
    simp only [NodeM.repOk, Bool.and_eq_true] at h
    obtain ⟨⟨hr, hl⟩, _⟩ := h
    obtain ⟨h1, h2, h3, h4⟩ := encodePairs_spec pre hr
    have hall := (allLivePairs_iff pre).mp hl
    have hall' := allLive_of_map _ _ (skel_live _ _ h4) hall
    have hr' : repPairs ((encodePairs pre).2 ++ rest.map rawPair) = true := by
      simp [repPairs_append, h3, repPairs_raw]
    have hl' : ∀ p ∈ (encodePairs pre).2 ++ rest.map rawPair, pairLive p = true := by
      intro p hp
      rcases List.mem_append.mp hp with hp | hp
      · exact hall' p hp
      · simp at hp; obtain ⟨k, v, _, rfl⟩ := hp; rfl
    obtain ⟨m1, m2⟩ := mkObject_spec _ hr' hl'
    simp only [NodeM.encode, m1, m2, NodeM.abs, Tree.canon, h1, canonPairs_append, canonPairs_eq rest,
      absPairs_append, h2, raw_pairs_abs, and_self]
theorem encodeElems_spec : ∀ st : List NodeM, repElems st = true →
    (encodeElems st).1 = canonList (absElems st) ∧ absElems (encodeElems st).2 = absElems st ∧
    repElems (encodeElems st).2 = true ∧ (encodeElems st).2.map NodeM.live = st.map NodeM.live
  | [], _ => by simp [encodeElems, absElems, canonList, repElems]
  | x :: xs, h => by
    unfold repElems at h
    rw [Bool.and_eq_true] at h
    obtain ⟨h1, h2, h3, h4⟩ := encodeElems_spec xs h.2
    by_cases hx : x.live
    · have hr : x.repOk = true := by simpa [hx] using h.1
      obtain ⟨e1, e2, e3⟩ := encode_spec x hr
      have el := encode_live x hx
      simp [encodeElems, hx, absElems, canonList, repElems, el, e1, e2, e3, h1, h2, h3, h4]
    · have hx' : x.live = false := by simpa using hx
      simp [encodeElems, hx', absElems, canonList, repElems, h1, h2, h3, h4]
theorem encodePairs_spec : ∀ st : List PairM, repPairs st = true →
    (encodePairs st).1 = canonPairs (absPairs st) ∧ absPairs (encodePairs st).2 = absPairs st ∧
    repPairs (encodePairs st).2 = true ∧ (encodePairs st).2.map skelOf = st.map skelOf
  | [], _ => by simp [encodePairs, absPairs, canonPairs, repPairs]
  | (hh, k, v) :: xs, h => by
    unfold repPairs at h
    rw [Bool.and_eq_true] at h
    obtain ⟨h1, h2, h3, h4⟩ := encodePairs_spec xs h.2
    by_cases hx : v.live
    · have hr : v.repOk = true ∧ hh = some k := by simpa [hx] using h.1
      obtain ⟨e1, e2, e3⟩ := encode_spec v hr.1
      have el := encode_live v hx
      simp [encodePairs, hx, absPairs, canonPairs, repPairs, pairLive, skelOf, el, e1, e2, e3, hr.2, h1, h2, h3, h4]
    · have hx' : v.live = false := by simpa using hx
      have hk : k.isEmpty = true ∧ hh.isNone = true := by simpa [hx'] using h.1
      simp [encodePairs, hx', absPairs, canonPairs, repPairs, pairLive, skelOf, hk.1, hk.2, h1, h2, h3, h4]
end

end SonicSpec.Ast
