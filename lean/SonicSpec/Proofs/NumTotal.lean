/-
  Helper lemmas for C19: with `2^p < 10^(k-1)` the nearer `k`-digit neighbour of a finite float rounds
  back to it (the classical bound: the decimal grid is finer than the binary one), so the digit search
  succeeds: 17 digits for binary64, 9 for binary32.
-/
import SonicSpec.Proofs.NumShort
namespace SonicSpec.Num

/-- a rational `Z / S` within half a grid step `G` of the float `q * 2^t`, where `2^p * G` is below the
    float's value, rounds to it -/
theorem near_isRNE (p q t S G Z : Nat) (hp : 1 ≤ p) (hc : Canonical p q t) (hS : 0 < S)
    (hG1 : 2 ^ p * G < q * (S * 2 ^ t))
    (hZ1 : 2 * Z ≤ 2 * (q * (S * 2 ^ t)) + G) (hZ2 : 2 * (q * (S * 2 ^ t)) ≤ 2 * Z + G) :
    IsRNE p Z S q t := by
  have hK := two_pow_eq_double p hp
  have hH : 0 < 2 ^ (p - 1) := Nat.two_pow_pos _
  obtain ⟨hqK, hqH⟩ := hc
  have hU : 0 < S * 2 ^ t := Nat.mul_pos hS (Nat.two_pow_pos _)
  -- G < U
  have hq1 : (q + 1) * (S * 2 ^ t) ≤ 2 ^ p * (S * 2 ^ t) := Nat.mul_le_mul_right _ (by omega)
  rw [Nat.add_mul, Nat.one_mul] at hq1
  have hGU : G < S * 2 ^ t := by
    apply Nat.lt_of_mul_lt_mul_left (a := 2 ^ p)
    omega
  by_cases hcase : t = 0 ∨ 2 ^ (p - 1) * (S * 2 ^ t) ≤ Z
  · refine ⟨q, t, ?_, ?_, ?_, ?_, ?_, Or.inl ⟨rfl, rfl, hqK⟩⟩
    · generalize S * 2 ^ t = U at *
      generalize q * U = V at *
      generalize 2 ^ p * U = KU at *
      omega
    · intro ht
      rcases hcase with h | h
      · omega
      · exact h
    · generalize S * 2 ^ t = U at *; omega
    · generalize S * 2 ^ t = U at *; omega
    · generalize S * 2 ^ t = U at *
      intro h; omega
  · have ht : 0 < t := by omega
    have hZlt : Z < 2 ^ (p - 1) * (S * 2 ^ t) := by omega
    have hqH' := hqH ht
    -- q = 2^(p-1)
    have hqeq : q = 2 ^ (p - 1) := by
      apply Classical.byContradiction
      intro hne
      have h1 : (2 ^ (p - 1) + 1) * (S * 2 ^ t) ≤ q * (S * 2 ^ t) := Nat.mul_le_mul_right _ (by omega)
      rw [Nat.add_mul, Nat.one_mul] at h1
      omega
    obtain ⟨t', rfl⟩ : ∃ t', t = t' + 1 := ⟨t - 1, by omega⟩
    have eU : S * 2 ^ (t' + 1) = 2 * (S * 2 ^ t') := by rw [pow_succ_two]; ac_rfl
    rw [eU] at hG1 hZ1 hZ2 hGU hZlt
    rw [hqeq] at hG1 hZ1 hZ2
    rw [hK] at hG1
    have hUw : 0 < S * 2 ^ t' := Nat.mul_pos hS (Nat.two_pow_pos _)
    -- 2^(p-1) * (2 * Uw) = 2^p * Uw
    have eKU : 2 ^ (p - 1) * (2 * (S * 2 ^ t')) = 2 ^ p * (S * 2 ^ t') := by rw [hK]; ac_rfl
    -- G < Uw : from 2H * G < H * (2 Uw)
    have hGw : G < S * 2 ^ t' := by
      apply Nat.lt_of_mul_lt_mul_left (a := 2 * 2 ^ (p - 1))
      have : 2 * 2 ^ (p - 1) * (S * 2 ^ t') = 2 ^ (p - 1) * (2 * (S * 2 ^ t')) := by ac_rfl
      omega
    have hHU : S * 2 ^ t' ≤ 2 ^ (p - 1) * (S * 2 ^ t') := Nat.le_mul_of_pos_left _ hH
    refine ⟨2 ^ p, t', ?_, ?_, ?_, ?_, ?_, Or.inr ⟨rfl, hqeq, rfl⟩⟩
    · rw [← eKU]; exact hZlt
    · intro _
      have e4 : 2 ^ (p - 1) * (2 * (S * 2 ^ t')) = 2 * (2 ^ (p - 1) * (S * 2 ^ t')) := by ac_rfl
      generalize S * 2 ^ t' = Uw at *
      generalize 2 ^ (p - 1) * Uw = HU at *
      omega
    · rw [← eKU]
      generalize S * 2 ^ t' = Uw at *
      generalize 2 ^ (p - 1) * (2 * Uw) = V at *
      omega
    · rw [← eKU]
      generalize S * 2 ^ t' = Uw at *
      generalize 2 ^ (p - 1) * (2 * Uw) = V at *
      omega
    · rw [← eKU]
      generalize S * 2 ^ t' = Uw at *
      generalize 2 ^ (p - 1) * (2 * Uw) = V at *
      intro h; omega

/-- with `2^p < 10^(k-1)` one of the two `k`-digit neighbours of a finite non-zero float rounds back -/
theorem nearest_rounds (f : Fmt) (hf : f.Ok) (q t : Nat) (hc : Canonical f.prec q t) (ht : t ≤ f.tmax)
    (E : Int)
    (hE1 : pow10Le E (q * 2 ^ t) (2 ^ f.bias) = true)
    (k : Nat) (hk : 1 ≤ k) (hkp : 2 ^ f.prec < 10 ^ (k - 1)) :
    ∃ c ∈ candidates (q * 2 ^ t) (2 ^ f.bias) E k, roundDec f c.1 c.2 = some (q, t) := by
  have hB : 0 < 2 ^ f.bias := Nat.two_pow_pos _
  let j : Int := E - (k : Int) + 1
  have hjdef : j = E - (k : Int) + 1 := rfl
  let lo := floorScaled (q * 2 ^ t) (2 ^ f.bias) j
  have hlodef : lo = floorScaled (q * 2 ^ t) (2 ^ f.bias) j := rfl
  have hmem : ∀ x, x = lo ∨ x = lo + 1 → (x, j) ∈ candidates (q * 2 ^ t) (2 ^ f.bias) E k := by
    intro x hx
    simp only [candidates]
    rw [← hjdef, ← hlodef]
    split
    · rcases hx with rfl | rfl <;> simp
    · rcases hx with rfl | rfl <;> simp
    · split <;> rcases hx with rfl | rfl <;> simp
  let s : Nat := (-j).toNat
  have hs2 : 0 ≤ j + s := by omega
  have hs3 : 0 ≤ E + s := by omega
  obtain ⟨f1, f2⟩ := shift_floor (q * 2 ^ t) (2 ^ f.bias) j s hB hs2
  have p1 := (shift_pow10Le E (q * 2 ^ t) (2 ^ f.bias) s hs3).1 hE1
  rw [← hlodef] at f1 f2
  have hEb : (E + s).toNat = (k - 1) + (j + s).toNat := by omega
  rw [hEb, Nat.pow_add] at p1
  have hj400 : j ≤ 400 := by
    have := E_le_400 f hf q t hc ht E hE1
    omega
  -- names: G = 10^b * B (grid), V = q * 2^t * 10^s
  have eV : q * 2 ^ t * 10 ^ s = q * (10 ^ s * 2 ^ t) := by ac_rfl
  have eG : ∀ x : Nat, x * 10 ^ (j + s).toNat * 2 ^ f.bias = x * (10 ^ (j + s).toNat * 2 ^ f.bias) := fun x => by ac_rfl
  rw [eV] at f1 f2 p1
  rw [eG] at f1 f2 p1
  have hlo : 10 ^ (k - 1) ≤ lo := by
    apply Classical.byContradiction
    intro hcon
    have h1 : (lo + 1) * (10 ^ (j + s).toNat * 2 ^ f.bias) ≤ 10 ^ (k - 1) * (10 ^ (j + s).toNat * 2 ^ f.bias) :=
      Nat.mul_le_mul_right _ (by omega)
    omega
  have hKG : 2 ^ f.prec * (10 ^ (j + s).toNat * 2 ^ f.bias) < q * (10 ^ s * 2 ^ t) := by
    have hGpos : 0 < 10 ^ (j + s).toNat * 2 ^ f.bias := Nat.mul_pos (pow10_pos _) hB
    have := Nat.mul_lt_mul_of_pos_right hkp hGpos
    omega
  -- choose the nearer neighbour
  have key : ∀ C, (C = lo ∨ C = lo + 1) → C ≠ 0 →
      2 * (C * (10 ^ (j + s).toNat * 2 ^ f.bias)) ≤ 2 * (q * (10 ^ s * 2 ^ t)) + 10 ^ (j + s).toNat * 2 ^ f.bias →
      2 * (q * (10 ^ s * 2 ^ t)) ≤ 2 * (C * (10 ^ (j + s).toNat * 2 ^ f.bias)) + 10 ^ (j + s).toNat * 2 ^ f.bias →
      ∃ c ∈ candidates (q * 2 ^ t) (2 ^ f.bias) E k, roundDec f c.1 c.2 = some (q, t) := by
    intro C hC hC0 z1 z2
    have hr := near_isRNE f.prec q t (10 ^ s) (10 ^ (j + s).toNat * 2 ^ f.bias)
      (C * (10 ^ (j + s).toNat * 2 ^ f.bias)) hf.prec_pos hc (pow10_pos s) hKG z1 z2
    have hsc := scale_shift C j s hs2
    have := roundDec_complete f hf C j hC0 q t hc ht _ _ (pow10_pos s) (by
      have e : (scale C j).1 * 2 ^ f.bias * 10 ^ s = (scale C j).1 * 10 ^ s * 2 ^ f.bias := by ac_rfl
      rw [e, hsc]; ac_rfl) hr
    exact ⟨(C, j), hmem C hC, this⟩
  have e1 : (lo + 1) * (10 ^ (j + s).toNat * 2 ^ f.bias) =
      lo * (10 ^ (j + s).toNat * 2 ^ f.bias) + 10 ^ (j + s).toNat * 2 ^ f.bias := by
    rw [Nat.add_mul, Nat.one_mul]
  have hp10 := pow10_pos (k - 1)
  by_cases hnear : 2 * (q * (10 ^ s * 2 ^ t)) ≤
      2 * (lo * (10 ^ (j + s).toNat * 2 ^ f.bias)) + 10 ^ (j + s).toNat * 2 ^ f.bias
  · exact key lo (Or.inl rfl) (by omega) (by omega) hnear
  · exact key (lo + 1) (Or.inr rfl) (by omega) (by rw [e1]; omega) (by rw [e1]; omega)

end SonicSpec.Num

namespace SonicSpec.Num

theorem numDigitsAux_spec : ∀ (fuel n : Nat), n ≤ fuel → 1 ≤ n →
    10 ^ (numDigitsAux fuel n - 1) ≤ n ∧ n < 10 ^ numDigitsAux fuel n ∧ 1 ≤ numDigitsAux fuel n
  | 0, n, h, h1 => by omega
  | fuel + 1, n, h, h1 => by
    simp only [numDigitsAux]
    by_cases hn : n < 10
    · simp only [if_pos hn]; omega
    · simp only [if_neg hn]
      obtain ⟨a, b, c⟩ := numDigitsAux_spec fuel (n / 10) (by omega) (by omega)
      generalize numDigitsAux fuel (n / 10) = L at *
      have e1 : 1 + L - 1 = (L - 1) + 1 := by omega
      have e2 : 1 + L = L + 1 := by omega
      rw [e1, e2, Nat.pow_succ, Nat.pow_succ]
      refine ⟨?_, ?_, by omega⟩ <;> omega

theorem numDigits_spec (n : Nat) (h : 1 ≤ n) :
    10 ^ (numDigits n - 1) ≤ n ∧ n < 10 ^ numDigits n ∧ 1 ≤ numDigits n :=
  numDigitsAux_spec n n (Nat.le_refl _) h

/-- `floorLog10` is the decimal exponent: `10^E ≤ N / D < 10^(E+1)` -/
theorem floorLog10_spec (N D : Nat) (hN : 0 < N) (hD : 0 < D) :
    pow10Le (floorLog10 N D) N D = true ∧ pow10Le (floorLog10 N D + 1) N D = false := by
  simp only [floorLog10]
  split
  · rename_i hle
    have h1 : 1 ≤ N / D := (Nat.le_div_iff_mul_le hD).mpr (by omega)
    obtain ⟨a, b, c⟩ := numDigits_spec (N / D) h1
    generalize numDigits (N / D) = L at *
    have a' : 10 ^ (L - 1) * D ≤ N := (Nat.le_div_iff_mul_le hD).mp a
    have b' : N < 10 ^ L * D := (Nat.div_lt_iff_lt_mul hD).mp b
    have e1 : ((L : Int) - 1).toNat = L - 1 := by omega
    have e2 : ((L : Int) - 1 + 1).toNat = L := by omega
    have g1 : (L : Int) - 1 ≥ 0 := by omega
    have g2 : (L : Int) - 1 + 1 ≥ 0 := by omega
    simp only [pow10Le, if_pos g1, if_pos g2, e1, e2, decide_eq_true_eq, decide_eq_false_iff_not]
    omega
  · rename_i hlt
    have hND : N < D := by omega
    have h1 : 1 ≤ (D - 1) / N := (Nat.le_div_iff_mul_le hN).mpr (by omega)
    obtain ⟨a, b, c⟩ := numDigits_spec ((D - 1) / N) h1
    generalize numDigits ((D - 1) / N) = L at *
    have a' : 10 ^ (L - 1) * N ≤ D - 1 := (Nat.le_div_iff_mul_le hN).mp a
    have b' : D - 1 < 10 ^ L * N := (Nat.div_lt_iff_lt_mul hN).mp b
    have g1 : ¬ (-(L : Int) ≥ 0) := by omega
    have e1 : (- -(L : Int)).toNat = L := by omega
    simp only [pow10Le, if_neg g1, e1, decide_eq_true_eq]
    refine ⟨by rw [Nat.mul_comm]; omega, ?_⟩
    by_cases hL : L = 1
    · have g2 : (-(L : Int) + 1 ≥ 0) := by omega
      have e2 : (-(L : Int) + 1).toNat = 0 := by omega
      simp only [if_pos g2, e2, Nat.pow_zero, Nat.one_mul, decide_eq_false_iff_not]
      omega
    · have g2 : ¬ (-(L : Int) + 1 ≥ 0) := by omega
      have e2 : (-(-(L : Int) + 1)).toNat = L - 1 := by omega
      simp only [if_neg g2, e2, decide_eq_false_iff_not]
      rw [Nat.mul_comm]; omega

/-- the search succeeds as soon as some digit count in its range has a candidate that rounds back -/
theorem searchDigits_isSome (f : Fmt) (q t N D : Nat) (E : Int) :
    ∀ (fuel k k0 : Nat), k ≤ k0 → k0 < k + fuel →
      (∃ c ∈ candidates N D E k0, roundsTo f q t c.1 c.2 = true) →
      ∃ c, searchDigits f q t N D E fuel k = some c
  | 0, k, k0, h1, h2, _ => by omega
  | fuel + 1, k, k0, h1, h2, h3 => by
    simp only [searchDigits]
    split
    · exact ⟨_, rfl⟩
    · rename_i hnone
      by_cases hk : k0 = k
      · subst hk
        obtain ⟨c, hc, hr⟩ := h3
        have := List.find?_eq_none.mp hnone c hc
        simp [hr] at this
      · exact searchDigits_isSome f q t N D E fuel (k + 1) k0 (by omega) (by omega) h3

/-- the digit search never fails on a finite non-zero float when `2^p < 10^16` (17 digits suffice) -/
theorem shortest_isSome (f : Fmt) (hf : f.Ok) (q t : Nat) (hc : Canonical f.prec q t) (ht : t ≤ f.tmax)
    (hq : q ≠ 0) (hp16 : 2 ^ f.prec < 10 ^ 16) : ∃ c, shortest f q t = some c := by
  have hN : 0 < q * 2 ^ t := Nat.mul_pos (Nat.pos_of_ne_zero hq) (Nat.two_pow_pos _)
  obtain ⟨e1, e2⟩ := floorLog10_spec (q * 2 ^ t) (2 ^ f.bias) hN (Nat.two_pow_pos _)
  simp only [shortest, e1, e2, Bool.not_false, Bool.and_self, if_true]
  obtain ⟨c, hc1, hc2⟩ := nearest_rounds f hf q t hc ht _ e1 17 (by decide) hp16
  exact searchDigits_isSome f q t _ _ _ 17 1 17 (by decide) (by decide) ⟨c, hc1, by simp [roundsTo, hc2]⟩

end SonicSpec.Num
