/-
  html_escape over memory: a native call writes the escaping of what it consumed (any block widths, any
  output budget), finishes when the budget is at least six times the input plus one, and the Go loop
  returns `dst ++ Str.htmlEscape src`.
-/
import SonicSpec.Proofs.MemStrFind
import SonicSpec.Proofs.MemStrQuote
import SonicSpec.Proofs.StrHtml
namespace SonicSpec.Mem
open SonicSpec.Str

theorem htmlEscape_ne226 (c : UInt8) (t : Bytes) (hc : c ≠ 226) :
    htmlEscape (c :: t) = htmlByte c ++ htmlEscape t := by
  have e : (c == 226) = false := by simpa using hc
  match t with
  | [] => exact htmlEscape_short c [] (by intro x y t' h; cases h)
  | [x] => exact htmlEscape_short c [x] (by intro x' y t' h; cases h)
  | x :: y :: t' => exact htmlEscape_other c x y t' (by simp [e]) (by simp [e])

theorem htmlSpecial_cases : ∀ c : UInt8,
    (htmlSpecial c = false → c ≠ 226 ∧ htmlByte c = [c]) ∧
    (htmlSpecial c = true → c ≠ 226 → htmlImg c = htmlByte c ∧ (htmlImg c).length = 6) := by
  apply forall_uint8
  decide +kernel

theorem htmlEscape_plain : ∀ (l t : Bytes), (∀ c ∈ l, htmlSpecial c = false) → htmlEscape (l ++ t) = l ++ htmlEscape t
  | [], t, _ => rfl
  | a :: l, t, h => by
    have ha := (htmlSpecial_cases a).1 (h a List.mem_cons_self)
    rw [List.cons_append, htmlEscape_ne226 a _ ha.1, ha.2,
      htmlEscape_plain l t (fun c hc => h c (List.mem_cons_of_mem _ hc))]
    rfl

/-- the token at a special byte -/
theorem htmlTok_spec {rd : Rd} {s : Bytes} (h : Holds rd s) (q : Nat) (hq : q < s.length)
    (hsp : htmlSpecial s[q] = true) :
    ∃ k img, htmlTok rd s.length q = some (k, img) ∧ 1 ≤ k ∧ q + k ≤ s.length ∧ img.length ≤ 6 ∧
      htmlEscape (s.drop q) = img ++ htmlEscape (s.drop (q + k)) := by
  simp only [htmlTok, h.get q hq]
  rw [List.drop_eq_getElem_cons hq]
  by_cases hc : s[q] = 226
  · simp only [hc, beq_self_eq_true, if_true]
    by_cases h3 : q + 3 ≤ s.length
    · have h1 : q + 1 < s.length := by omega
      have h2 : q + 2 < s.length := by omega
      simp only [h3, if_true, h.get (q + 1) h1, h.get (q + 2) h2]
      rw [List.drop_eq_getElem_cons h1, List.drop_eq_getElem_cons h2]
      have e3 : q + 1 + 1 + 1 = q + 3 := by omega
      by_cases hx : (s[q + 1] == 128 && (s[q + 2] == 168 || s[q + 2] == 169)) = true
      · simp only [hx, if_true]
        refine ⟨3, _, rfl, by omega, h3, ?_, ?_⟩
        · simp only [Bool.and_eq_true, Bool.or_eq_true, beq_iff_eq] at hx
          rcases hx.2 with hy | hy <;> simp [hy, htmlImg, htmlLS, htmlPS]
        · simp only [Bool.and_eq_true, Bool.or_eq_true, beq_iff_eq] at hx
          rcases hx.2 with hy | hy
          · rw [htmlEscape_ls _ _ _ _ (by simp [hx.1, hy])]
            simp [hy, htmlImg, e3]
          · rw [htmlEscape_ps _ _ _ _ (by simp [hy]) (by simp [hx.1, hy])]
            simp [hy, htmlImg, e3]
      · simp only [hx, Bool.false_eq_true, if_false]
        refine ⟨1, _, rfl, by omega, by omega, by simp, ?_⟩
        have hx' : ¬ (s[q + 1] = 128 ∧ (s[q + 2] = 168 ∨ s[q + 2] = 169)) := by
          simpa [Bool.and_eq_true, Bool.or_eq_true, beq_iff_eq] using hx
        rw [htmlEscape_other _ _ _ _ (by
            simp only [Bool.and_eq_true, beq_iff_eq, not_and]; intro a h2'; exact hx' ⟨a.2, Or.inl h2'⟩) (by
            simp only [Bool.and_eq_true, beq_iff_eq, not_and]; intro a h2'; exact hx' ⟨a.2, Or.inr h2'⟩)]
        have e4 : q + 2 + 1 = q + 1 + 1 + 1 := by omega
        rw [e4, ← List.drop_eq_getElem_cons (by omega : q + 1 + 1 < s.length), ← List.drop_eq_getElem_cons h1]
        rfl
    · simp only [h3, if_false]
      refine ⟨1, _, rfl, by omega, by omega, by simp, ?_⟩
      rw [htmlEscape_short 226 _ (by
        intro x y t' ht
        have := congrArg List.length ht
        simp only [List.length_drop, List.length_cons] at this
        omega)]
      rfl
  · have e : (s[q] == 226) = false := by simpa using hc
    simp only [e, Bool.false_eq_true, if_false]
    have hi := (htmlSpecial_cases s[q]).2 hsp hc
    refine ⟨1, _, rfl, by omega, by omega, by omega, ?_⟩
    rw [htmlEscape_ne226 _ _ hc, hi.1]

/-- html_escape.c, one native call -/
theorem htmlRun_spec {rd : Rd} {s : Bytes} (h : Holds rd s) (Ws : List Nat) :
    ∀ (fuel p nd : Nat) (out : Bytes), p ≤ s.length →
      ∃ r, htmlRun Ws rd s.length fuel p nd out = some r ∧ p ≤ r.consumed ∧ r.consumed ≤ s.length ∧
        r.out ++ htmlEscape (s.drop r.consumed) = out ++ htmlEscape (s.drop p) ∧
        (r.done = true → r.consumed = s.length) ∧
        (s.length - p + 1 ≤ fuel → 6 * (s.length - p) + 1 ≤ nd → r.done = true)
  | 0, p, nd, out, hp => by
    refine ⟨⟨out, p, false⟩, rfl, Nat.le_refl _, hp, rfl, ?_, ?_⟩
    · intro hc; cases hc
    · intro hc; omega
  | fuel + 1, p, nd, out, hp => by
    simp only [htmlRun]
    by_cases hpl : p ≥ s.length
    · simp only [hpl, if_true]
      refine ⟨_, rfl, Nat.le_refl _, hp, rfl, ?_, fun _ _ => rfl⟩
      intro _
      show p = s.length
      omega
    · have hlt : p < s.length := by omega
      simp only [hpl, if_false]
      by_cases hnd : nd = 0
      · simp only [hnd, if_true]
        refine ⟨_, rfl, Nat.le_refl _, hp, rfl, ?_, ?_⟩
        · intro hc; cases hc
        · intro _ hc; omega
      · simp only [hnd, if_false]
        cases hb : budgetFind htmlSpecial Ws rd s.length p nd with
        | none => exact absurd hb (budgetFind_ne_none htmlSpecial h Ws p nd)
        | some x =>
          obtain ⟨q, ok⟩ := x
          obtain ⟨hq, hok1, hok2⟩ := budgetFind_spec htmlSpecial h Ws p nd q ok hp hb
          have hle := runLen_le htmlSpecial s p
          have hq1 : p ≤ q := by omega
          have hq2 : q ≤ p + runLen htmlSpecial s p := by omega
          have hq3 : q ≤ s.length := by
            have : max p s.length = s.length := by omega
            omega
          have hplain := slice_run_plain htmlSpecial s p q hq1 hq2
          have hesc : htmlEscape (s.drop p) = slice s p q ++ htmlEscape (s.drop q) := by
            rw [drop_eq_slice_append s p q hq1, htmlEscape_plain _ _ hplain]
          simp only [h.load p q hq1 hq3]
          cases ok with
          | false =>
            simp only [Bool.not_false, if_true]
            refine ⟨_, rfl, hq1, hq3, by simp [hesc], ?_, ?_⟩
            · intro hc; cases hc
            intro _ hbig
            have := hok2 rfl
            have : runLen htmlSpecial s p ≤ s.length - p := by
              have : max p s.length = s.length := by omega
              omega
            omega
          | true =>
            have hrun := hok1 rfl
            have hqe : q = p + runLen htmlSpecial s p := by omega
            simp only [Bool.not_true, Bool.false_eq_true, if_false]
            by_cases hql : q ≥ s.length
            · simp only [hql, if_true]
              refine ⟨_, rfl, hq1, hq3, by simp [hesc], ?_, fun _ _ => rfl⟩
              intro _
              show q = s.length
              omega
            · have hqlt : q < s.length := by omega
              simp only [hql, if_false]
              have hsp : htmlSpecial s[q] = true := by
                rcases runLen_stop htmlSpecial s p hp with he | ⟨h1, h2⟩
                · omega
                · simpa [hqe] using h2
              obtain ⟨k, img, htok, hk1, hk2, hk3, hk4⟩ := htmlTok_spec h q hqlt hsp
              simp only [htok]
              by_cases hroom : nd - (q - p) < img.length
              · simp only [hroom, if_true]
                refine ⟨_, rfl, hq1, hq3, by simp [hesc], ?_, ?_⟩
                · intro hc; cases hc
                intro _ hbig
                omega
              · simp only [hroom, if_false]
                obtain ⟨r, hr, h1, h2, h3, h4, h5⟩ := htmlRun_spec h Ws fuel (q + k) (nd - (q - p) - img.length)
                  (out ++ slice s p q ++ img) hk2
                refine ⟨r, hr, by omega, h2, ?_, h4, ?_⟩
                · rw [h3, hesc, hk4]
                  simp [List.append_assoc]
                · intro hf hbig
                  exact h5 (by omega) (by omega)

theorem htmlNative_spec (w : StrWidths) {rd : Rd} {s : Bytes} (h : Holds rd s) (p room : Nat) (hp : p ≤ s.length) :
    ∃ r, htmlNative w rd s.length p room = some r ∧ p ≤ r.consumed ∧ r.consumed ≤ s.length ∧
      r.out ++ htmlEscape (s.drop r.consumed) = htmlEscape (s.drop p) ∧
      (r.done = true → r.consumed = s.length) ∧ (6 * (s.length - p) + 1 ≤ room → r.done = true) := by
  obtain ⟨r, hr, h1, h2, h3, h4, h5⟩ := htmlRun_spec h w.find (s.length - p + 1) p room [] hp
  exact ⟨r, hr, h1, h2, by simpa using h3, h4, h5 (Nat.le_refl _)⟩

/-- spec.go:136: whatever room the successive calls get -/
theorem htmlGo_spec (w : StrWidths) {rd : Rd} {s : Bytes} (h : Holds rd s) :
    ∀ (rooms : List Nat) (p : Nat) (buf : Bytes), p ≤ s.length →
      htmlGo w rd s.length rooms p buf = some (buf ++ htmlEscape (s.drop p))
  | [], p, buf, hp => by
    obtain ⟨r, hr, h1, h2, h3, h4, h5⟩ := htmlNative_spec w h p ((s.length - p) * 6 + 1) hp
    simp only [htmlGo, hr, Option.map_some]
    have hd := h4 (h5 (by omega))
    rw [hd] at h3
    simp only [List.drop_length, htmlEscape_nil, List.append_nil] at h3
    rw [h3]
  | room :: rooms, p, buf, hp => by
    obtain ⟨r, hr, h1, h2, h3, h4, _⟩ := htmlNative_spec w h p room hp
    simp only [htmlGo, hr]
    by_cases hd : r.done = true
    · simp only [hd, if_true]
      have := h4 hd
      rw [this] at h3
      simp only [List.drop_length, htmlEscape_nil, List.append_nil] at h3
      rw [h3]
    · have hd' : r.done = false := by simpa using hd
      simp only [hd', Bool.false_eq_true, if_false]
      rw [htmlGo_spec w h rooms r.consumed (buf ++ r.out) h2, List.append_assoc, h3]

end SonicSpec.Mem
