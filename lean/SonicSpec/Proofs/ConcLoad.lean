/-
  Lemmas for Model/ConcLoad.lean: name-based map-back of `loader.Load`, history machine.
-/
import SonicSpec.Model.ConcLoad
set_option linter.unusedSectionVars false
set_option linter.unusedVariables false
namespace SonicSpec.Conc
open PreFix

theorem foldl_find_none (text : Nat) (s : String) (l : List Func) (acc : Option Nat)
    (h : ∀ f ∈ l, f.name ≠ s) :
    l.foldl (fun out f => if f.name = s then some (text + f.entryOff) else out) acc = acc := by
  induction l generalizing acc with
  | nil => rfl
  | cons a l ih =>
    simp only [List.foldl_cons]
    rw [if_neg (h a (List.mem_cons_self ..))]
    exact ih acc (fun f hf => h f (List.mem_cons_of_mem _ hf))

theorem foldl_find_some (text : Nat) (l : List Func) (hn : (l.map (·.name)).Nodup)
    (f : Func) (hf : f ∈ l) (acc : Option Nat) :
    l.foldl (fun out g => if g.name = f.name then some (text + g.entryOff) else out) acc
      = some (text + f.entryOff) := by
  induction l generalizing acc with
  | nil => cases hf
  | cons a l ih =>
    simp only [List.map_cons, List.nodup_cons] at hn
    simp only [List.foldl_cons]
    rcases List.mem_cons.1 hf with hfa | hfl
    · subst hfa
      rw [if_pos rfl]
      apply foldl_find_none
      intro g hg hgn
      apply hn.1
      rw [← hgn]
      exact List.mem_map.2 ⟨g, hg, rfl⟩
    · have hne : a.name ≠ f.name := by
        intro he
        apply hn.1
        rw [he]
        exact List.mem_map.2 ⟨f, hfl, rfl⟩
      rw [if_neg hne]
      exact ih hn.2 hfl acc

/-- with pairwise different names, looking a member up by its name finds its own entry, whatever the
    order of `funcs` -/
theorem findEntry_of_mem (text : Nat) (funcs : List Func) (hn : (funcs.map (·.name)).Nodup)
    (f : Func) (hf : f ∈ funcs) : findEntry text funcs f.name = some (text + f.entryOff) :=
  foldl_find_some text funcs hn f hf none

theorem insertByEntry_perm (f : Func) (l : List Func) : (insertByEntry f l).Perm (f :: l) := by
  induction l with
  | nil => exact List.Perm.refl _
  | cons g r ih =>
    unfold insertByEntry
    split
    · exact List.Perm.refl _
    · exact ((List.Perm.cons g ih).trans (List.Perm.swap f g r))

theorem sortByEntry_perm (l : List Func) : (sortByEntry l).Perm l := by
  induction l with
  | nil => exact List.Perm.refl _
  | cons f r ih =>
    unfold sortByEntry
    exact (insertByEntry_perm f _).trans (List.Perm.cons f ih)

theorem mapBack_perm (text : Nat) (funcs funcs' : List Func) (hp : funcs'.Perm funcs)
    (hn : (funcs.map (·.name)).Nodup) :
    mapBack text (funcs.map (·.name)) funcs' = funcs.map (fun f => some (text + f.entryOff)) := by
  have hn' : (funcs'.map (·.name)).Nodup := ((hp.map (·.name)).nodup_iff).2 hn
  unfold mapBack
  rw [List.map_map]
  apply List.map_congr_left
  intro f hf
  exact findEntry_of_mem text funcs' hn' f ((hp.mem_iff).2 hf)

theorem layout_length (items : List Item) (off : Nat) : (layout items off).length = items.length := by
  induction items generalizing off with
  | nil => rfl
  | cons a r ih => simp [layout, ih]

theorem layout_names (items : List Item) (off : Nat) :
    (layout items off).map (·.name) = items.map (·.name) := by
  induction items generalizing off with
  | nil => rfl
  | cons a r ih => simp [layout, ih]

/-! ### history machine keyed by type only (pre-fix model) -/
section Hist
variable {τ χ π : Type} [DecidableEq τ]

theorem PreFix.assoc_runHist (compile : τ → χ → π) (t : τ) (h : List (τ × χ)) :
    ∀ c : List (τ × π), assoc t (PreFix.runHist compile c h) =
      match assoc t c with
      | some p => some p
      | none => (firstCtx t h).map (compile t) := by
  induction h with
  | nil =>
    intro c
    simp only [runHist, List.foldl_nil, firstCtx, Option.map_none]
    cases assoc t c <;> rfl
  | cons r h ih =>
    intro c
    obtain ⟨t', x⟩ := r
    have hstep : runHist compile c ((t', x) :: h) = runHist compile (serve compile c (t', x)).2 h := rfl
    rw [hstep, ih]
    unfold serve
    simp only
    cases hc : assoc t' c with
    | some p0 =>
      simp only
      cases hct : assoc t c with
      | some p => rfl
      | none =>
        simp only
        have hne : t' ≠ t := by
          intro he; subst he; rw [hc] at hct; cases hct
        simp only [firstCtx, if_neg hne]
    | none =>
      simp only [assoc]
      by_cases he : t' = t
      · subst he
        simp only [if_true, hc, firstCtx, Option.map_some]
      · simp only [if_neg he, firstCtx]

/-- the program that serves `(t, x)` after history `h` is the one compiled for the context of the
    FIRST request for `t` (in `h`, else the request itself) -/
theorem PreFix.servedAfter_eq (compile : τ → χ → π) (h : List (τ × χ)) (t : τ) (x : χ) :
    PreFix.servedAfter compile h (t, x) = compile t ((PreFix.firstCtx t h).getD x) := by
  unfold servedAfter serve
  simp only
  have := PreFix.assoc_runHist compile t h ([] : List (τ × π))
  simp only [assoc] at this
  rw [this]
  cases firstCtx t h <;> rfl

end Hist

/-! ### the code as it is now -/

theorem layout_offs (items : List Item) (off : Nat) :
    (layout items off).map (·.entryOff) = offsets (items.map (·.size)) off := by
  induction items generalizing off with
  | nil => rfl
  | cons a r ih => simp [layout, offsets, ih]

theorem layout_entries (text : Nat) (items : List Item) (off : Nat) :
    (layout items off).map (fun f => text + f.entryOff) =
      (offsets (items.map (·.size)) off).map (fun o => text + o) := by
  induction items generalizing off with
  | nil => rfl
  | cons a r ih => simp [layout, offsets, ih]

section HistNow
variable {τ χ π : Type} [DecidableEq τ] [DecidableEq χ]

/-- every cached program is the one compiled for the request it is stored under -/
def CacheSound (compile : τ → χ → π) (c : List ((τ × χ) × π)) : Prop :=
  ∀ r p, assoc r c = some p → p = compile r.1 r.2

theorem serve_sound (compile : τ → χ → π) (c : List ((τ × χ) × π)) (hc : CacheSound compile c) (r : τ × χ) :
    (serve compile c r).1 = compile r.1 r.2 ∧ CacheSound compile (serve compile c r).2 := by
  unfold serve
  cases ha : assoc r c with
  | some p => exact ⟨hc r p ha, hc⟩
  | none =>
    refine ⟨rfl, ?_⟩
    intro r' p hp
    simp only [assoc] at hp
    by_cases he : r = r'
    · subst he
      simp only [if_true, Option.some.injEq] at hp
      exact hp.symm
    · simp only [if_neg he] at hp
      exact hc r' p hp

theorem runHist_sound (compile : τ → χ → π) (h : List (τ × χ)) :
    ∀ c, CacheSound compile c → CacheSound compile (runHist compile c h) := by
  induction h with
  | nil => intro c hc; exact hc
  | cons r h ih =>
    intro c hc
    exact ih _ (serve_sound compile c hc r).2

theorem servedAfter_eq (compile : τ → χ → π) (h : List (τ × χ)) (r : τ × χ) :
    servedAfter compile h r = compile r.1 r.2 := by
  unfold servedAfter
  have hs : CacheSound compile (runHist compile ([] : List ((τ × χ) × π)) h) :=
    runHist_sound compile h [] (by intro r p hp; simp [assoc] at hp)
  exact (serve_sound compile _ hs r).1

end HistNow
end SonicSpec.Conc
