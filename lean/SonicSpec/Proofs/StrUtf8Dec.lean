/-
  Helper lemmas for C20, UTF-8 part II: decoder and encoder are inverse to each other, the validator accepts
  exactly the decodable strings, and what `correctWith` promises for an arbitrary replacement.
-/
import SonicSpec.Model.StrUtf8
import SonicSpec.Proofs.U8
import SonicSpec.Proofs.StrUtf8
namespace SonicSpec.Str

theorem decodeAll_nil : decodeAll [] = some [] := by rw [decodeAll]

theorem decodeAll_cons (b : UInt8) (t : Bytes) :
    decodeAll (b :: t) = if seqLen (b :: t) == 0 then none
      else (decodeAll ((b :: t).drop (seqLen (b :: t)))).map (decodeHead (b :: t) :: ·) := by
  rw [decodeAll]

/-- decoding the encoding of a scalar value gives the value back -/
theorem decodeHead_encodeScalar (c : Nat) (t : Bytes) (h : isScalar c = true) :
    decodeHead (encodeScalar c ++ t) = c := by
  simp only [isScalar, Bool.or_eq_true, Bool.and_eq_true, decide_eq_true_eq] at h
  unfold encodeScalar
  split
  · rename_i h1
    unfold decodeHead
    have : (UInt8.ofNat c).toNat = c := ofNat_toNat_small c (by omega)
    simp only [List.cons_append, List.nil_append, UInt8.lt_iff_toNat_lt, UInt8.toNat_ofNat, this, h1, ↓reduceIte]
  split
  · rename_i h1 h2
    unfold decodeHead
    have a : (UInt8.ofNat (192 + c / 64)).toNat = 192 + c / 64 := ofNat_toNat_small _ (by omega)
    have b : (UInt8.ofNat (128 + c % 64)).toNat = 128 + c % 64 := ofNat_toNat_small _ (by omega)
    have x1 : ¬ (192 + c / 64 < 128) := by omega
    have x2 : 192 + c / 64 < 224 := by omega
    simp only [List.cons_append, List.nil_append, UInt8.lt_iff_toNat_lt, UInt8.toNat_ofNat, a, b, x1, x2, ↓reduceIte]
    omega
  split
  · rename_i h1 h2 h3
    unfold decodeHead
    have a : (UInt8.ofNat (224 + c / 4096)).toNat = 224 + c / 4096 := ofNat_toNat_small _ (by omega)
    have b : (UInt8.ofNat (128 + c / 64 % 64)).toNat = 128 + c / 64 % 64 := ofNat_toNat_small _ (by omega)
    have d : (UInt8.ofNat (128 + c % 64)).toNat = 128 + c % 64 := ofNat_toNat_small _ (by omega)
    have x1 : ¬ (224 + c / 4096 < 128) := by omega
    have x2 : ¬ (224 + c / 4096 < 224) := by omega
    have x3 : 224 + c / 4096 < 240 := by omega
    simp only [List.cons_append, List.nil_append, UInt8.lt_iff_toNat_lt, UInt8.toNat_ofNat, a, b, d, x1, x2, x3, ↓reduceIte]
    omega
  · rename_i h1 h2 h3
    unfold decodeHead
    have a : (UInt8.ofNat (240 + c / 262144)).toNat = 240 + c / 262144 := ofNat_toNat_small _ (by omega)
    have b : (UInt8.ofNat (128 + c / 4096 % 64)).toNat = 128 + c / 4096 % 64 := ofNat_toNat_small _ (by omega)
    have d : (UInt8.ofNat (128 + c / 64 % 64)).toNat = 128 + c / 64 % 64 := ofNat_toNat_small _ (by omega)
    have e : (UInt8.ofNat (128 + c % 64)).toNat = 128 + c % 64 := ofNat_toNat_small _ (by omega)
    have x1 : ¬ (240 + c / 262144 < 128) := by omega
    have x2 : ¬ (240 + c / 262144 < 224) := by omega
    have x3 : ¬ (240 + c / 262144 < 240) := by omega
    simp only [List.cons_append, List.nil_append, UInt8.lt_iff_toNat_lt, UInt8.toNat_ofNat, a, b, d, e, x1, x2, x3, ↓reduceIte]
    omega

theorem decodeAll_encode_append (c : Nat) (t : Bytes) (h : isScalar c = true) :
    decodeAll (encodeScalar c ++ t) = (decodeAll t).map (c :: ·) := by
  have hl := seqLen_encode_append c t h
  have hd := decodeHead_encodeScalar c t h
  cases hE : encodeScalar c with
  | nil => exact absurd hE (encodeScalar_ne_nil c)
  | cons b r =>
    rw [hE] at hl hd
    rw [List.cons_append] at hl hd ⊢
    rw [decodeAll_cons, hl, hd]
    simp

/-- decode ∘ encode = id on sequences of scalar values -/
theorem decodeAll_encodeAll' (cps : List Nat) (h : ∀ c ∈ cps, isScalar c = true) :
    decodeAll (encodeAll cps) = some cps := by
  induction cps with
  | nil => simp [encodeAll, decodeAll_nil]
  | cons c cps ih =>
    rw [encodeAll_cons, decodeAll_encode_append c _ (h c (by simp)), ih (fun c' hc' => h c' (by simp [hc']))]
    rfl

/-- encode ∘ decode = id wherever the decoder succeeds, and it only yields scalar values -/
theorem encodeAll_decodeAll' (s : Bytes) (cps : List Nat) (h : decodeAll s = some cps) :
    encodeAll cps = s ∧ ∀ c ∈ cps, isScalar c = true := by
  fun_induction decodeAll s generalizing cps with
  | case1 => cases h; exact ⟨by simp [encodeAll], by simp⟩
  | case2 b t hz => cases h
  | case3 b t hz ih =>
    have hne : seqLen (b :: t) ≠ 0 := by simpa using hz
    cases hd : decodeAll ((b :: t).drop (seqLen (b :: t))) with
    | none => rw [hd] at h; cases h
    | some cps' =>
      rw [hd] at h
      simp only [Option.map_some, Option.some.injEq] at h
      subst h
      obtain ⟨he, hs⟩ := ih cps' hd
      have ht := take_seqLen_eq_encode (b :: t) hne
      constructor
      · rw [encodeAll_cons, he, ← ht.1, List.take_append_drop]
      · intro c hc
        rcases List.mem_cons.mp hc with rfl | hc
        · exact ht.2
        · exact hs c hc

/-- the validator accepts exactly the strings the decoder decodes -/
theorem validate_eq_isSome_decodeAll (s : Bytes) : validate s = (decodeAll s).isSome := by
  fun_induction validate s with
  | case1 => rw [decodeAll_nil]; rfl
  | case2 b t hz => rw [decodeAll_cons, if_pos hz]; rfl
  | case3 b t hz ih =>
    rw [decodeAll_cons, if_neg hz, ih]
    cases decodeAll ((b :: t).drop (seqLen (b :: t))) <;> rfl

/-! ### `correctWith` with an arbitrary replacement -/

/-- `z` is empty or starts with a byte that is not a continuation byte -/
def startOK : Bytes → Bool
  | [] => true
  | b :: _ => !isCont b

theorem isCont_iff (b : UInt8) : isCont b = true ↔ 128 ≤ b.toNat ∧ b.toNat < 192 := by
  simp only [isCont, Bool.and_eq_true, decide_eq_true_eq, UInt8.le_iff_toNat_le, UInt8.lt_iff_toNat_lt, UInt8.toNat_ofNat]

theorem WF_head_not_cont {b : UInt8} {t : Bytes} {n : Nat} (h : WF (b :: t) n) : isCont b = false := by
  cases hb : isCont b with
  | false => rfl
  | true =>
    have := (isCont_iff b).mp hb
    cases h <;> omega

/-- a recognised sequence does not reach into a part that starts with a non-continuation byte -/
theorem WF_no_cross {x z : Bytes} {n : Nat} (h : WF (x ++ z) n) (hx : x ≠ []) (hz : startOK z = true) :
    n ≤ x.length ∧ WF x n := by
  have key : ∀ (b : UInt8) (t : Bytes), z = b :: t → 128 ≤ b.toNat → b.toNat < 192 → False := by
    intro b t e h1 h2
    subst e
    have : isCont b = true := (isCont_iff b).mpr ⟨h1, h2⟩
    simp [startOK, this] at hz
  match x, hx with
  | [a], _ =>
    cases h with
    | one b0 t h0 => exact ⟨by simp, WF.one _ _ h0⟩
    | two b0 b1 t _ _ c d => exact (key b1 t rfl c d).elim
    | three b0 b1 b2 t _ _ c d _ _ _ _ => exact (key b1 (b2 :: t) rfl c d).elim
    | four b0 b1 b2 b3 t _ _ c d _ _ _ _ _ _ => exact (key b1 (b2 :: b3 :: t) rfl c d).elim
  | [a, b], _ =>
    cases h with
    | one b0 t h0 => exact ⟨by simp, WF.one _ _ h0⟩
    | two b0 b1 t p q c d => exact ⟨by simp, WF.two _ _ _ p q c d⟩
    | three b0 b1 b2 t _ _ _ _ e f _ _ => exact (key b2 t rfl e f).elim
    | four b0 b1 b2 b3 t _ _ _ _ e f _ _ _ _ => exact (key b2 (b3 :: t) rfl e f).elim
  | [a, b, c], _ =>
    cases h with
    | one b0 t h0 => exact ⟨by simp, WF.one _ _ h0⟩
    | two b0 b1 t p q c d => exact ⟨by simp, WF.two _ _ _ p q c d⟩
    | three b0 b1 b2 t p q c d e f g h' => exact ⟨by simp, WF.three _ _ _ _ p q c d e f g h'⟩
    | four b0 b1 b2 b3 t _ _ _ _ _ _ g h' _ _ => exact (key b3 t rfl g h').elim
  | a :: b :: c :: d :: x', _ =>
    cases h with
    | one b0 t h0 => exact ⟨by simp, WF.one _ _ h0⟩
    | two b0 b1 t p q c d => exact ⟨by simp, WF.two _ _ _ p q c d⟩
    | three b0 b1 b2 t p q c d e f g h' => exact ⟨by simp, WF.three _ _ _ _ p q c d e f g h'⟩
    | four b0 b1 b2 b3 t p q c d e f g h' i j => exact ⟨by simp, WF.four _ _ _ _ _ p q c d e f g h' i j⟩

theorem validate_true_cons {b : UInt8} {t : Bytes} (h : validate (b :: t) = true) :
    seqLen (b :: t) ≠ 0 ∧ validate ((b :: t).drop (seqLen (b :: t))) = true := by
  rw [validate_cons] at h
  by_cases hz : (seqLen (b :: t) == 0) = true
  · rw [if_pos hz] at h; cases h
  · rw [if_neg hz] at h; exact ⟨by simpa using hz, h⟩

/-- well-formedness splits at a boundary where the second part does not start with a continuation byte -/
theorem validate_split : ∀ (n : Nat) (x z : Bytes), x.length ≤ n → validate (x ++ z) = true → startOK z = true →
    validate x = true ∧ validate z = true := by
  intro n
  induction n with
  | zero =>
    intro x z hl h _
    match x, hl with
    | [], _ => exact ⟨validate_nil, by simpa using h⟩
  | succ n ih =>
    intro x z hl h hz
    match x with
    | [] => exact ⟨validate_nil, by simpa using h⟩
    | b :: x' =>
      rw [List.cons_append] at h
      obtain ⟨hne, hv⟩ := validate_true_cons h
      have W := WF_of_seqLen _ hne
      rw [← List.cons_append] at W
      obtain ⟨hle, Wx⟩ := WF_no_cross W (by simp) hz
      have hsx := seqLen_of_WF Wx
      rw [← List.cons_append, List.drop_append_of_le_length hle] at hv
      have hpos : 0 < seqLen (b :: x' ++ z) := Nat.pos_of_ne_zero hne
      have hshort : ((b :: x').drop (seqLen (b :: x' ++ z))).length ≤ n := by
        simp only [List.length_drop, List.length_cons] at *
        omega
      obtain ⟨h1, h2⟩ := ih _ z hshort hv hz
      refine ⟨?_, h2⟩
      rw [validate_cons, hsx]
      have : (seqLen (b :: x' ++ z) == 0) = false := by simpa using hne
      rw [this]
      simpa using h1

theorem startOK_correctWith (repl : Bytes) (hr : startOK repl = true) (s : Bytes) :
    startOK (correctWith repl s) = true := by
  fun_induction correctWith repl s with
  | case1 => rfl
  | case2 b t hz ih =>
    match repl, hr with
    | [], _ => simpa using ih
    | r :: repl', hr => simpa [startOK] using hr
  | case3 b t hz ih =>
    have hne : seqLen (b :: t) ≠ 0 := by simpa using hz
    have W := WF_of_seqLen _ hne
    have hb := WF_head_not_cont W
    have hpos : 0 < seqLen (b :: t) := Nat.pos_of_ne_zero hne
    cases hn : seqLen (b :: t) with
    | zero => omega
    | succ k => simp [startOK, hb]

/-- what is promised for an arbitrary replacement: the result is well-formed exactly when the input was
    (then nothing is replaced) or the replacement is -/
theorem correctWith_valid_imp (repl s : Bytes) (h : validate (correctWith repl s) = true) :
    validate s = true ∨ validate repl = true := by
  fun_induction correctWith repl s with
  | case1 => exact Or.inl validate_nil
  | case2 b t hz ih =>
    right
    match hrp : repl with
    | [] => exact validate_nil
    | r :: repl' =>
      -- the replacement starts the output, so its first byte starts a sequence
      have hne := (validate_true_cons (by simpa using h)).1
      have W := WF_of_seqLen _ hne
      have hr : startOK (r :: repl') = true := by simp [startOK, WF_head_not_cont W]
      have hz' := startOK_correctWith (r :: repl') hr t
      exact (validate_split _ _ _ (Nat.le_refl _) h hz').1
  | case3 b t hz ih =>
    have hne : seqLen (b :: t) ≠ 0 := by simpa using hz
    have ht := take_seqLen_eq_encode (b :: t) hne
    rw [ht.1, validate_encode_append _ _ ht.2] at h
    rcases ih h with h1 | h1
    · left
      rw [validate_cons, if_neg hz]
      exact h1
    · exact Or.inr h1

end SonicSpec.Str
