/-
  C14 helper lemmas, part 2: the bracket/quote counting skipper agrees with the strict grammar
  on valid input (`scan_valid`, `skipFast_of_parse`).
-/
import SonicSpec.Proofs.SearchBasic
namespace SonicSpec.Search
open SonicSpec SonicSpec.Json

theorem numChar_neutral {lc rc : UInt8} (hp : IsPair lc rc) : ∀ c : UInt8, isNumChar c = true → Neutral lc rc c := by
  unfold Neutral
  rcases hp with ⟨rfl, rfl⟩ | ⟨rfl, rfl⟩ <;> (apply forall_uint8; decide +kernel)

theorem pairScan_open_close {lc rc : UInt8} (hp : IsPair lc rc) (o c : UInt8) (ho : (o = 91 ∧ c = 93) ∨ (o = 123 ∧ c = 125))
    (d : Nat) (hd : d ≥ 1) (t r : Bytes) (h : ∀ d', d' ≥ 1 → pairScan lc rc d' false t = pairScan lc rc d' false (c :: r)) :
    pairScan lc rc d false (o :: t) = pairScan lc rc d false r := by
  rcases hp with ⟨rfl, rfl⟩ | ⟨rfl, rfl⟩ <;> rcases ho with ⟨rfl, rfl⟩ | ⟨rfl, rfl⟩
  · rw [pairScan.eq_def]; simp
    rw [h (d + 1) (by omega), pairScan.eq_def]; simp; omega
  · rw [pairScan.eq_def]; simp
    rw [h d hd, pairScan.eq_def]; simp
  · rw [pairScan.eq_def]; simp
    rw [h d hd, pairScan.eq_def]; simp
  · rw [pairScan.eq_def]; simp
    rw [h (d + 1) (by omega), pairScan.eq_def]; simp; omega

/-- inside quotes the container scan follows a strictly valid string body to its closing quote -/
theorem pairScan_string (lc rc : UInt8) (d : Nat) (s : Bytes) :
    ∀ {b r : Bytes}, scanString s = some (b, r) → pairScan lc rc d true s = pairScan lc rc d false r := by
  fun_induction scanString s with
  | case1 => intro b r h; cases h
  | case2 r => intro b r' h; simp at h; obtain ⟨rfl, rfl⟩ := h; rw [pairScan_quote]; rfl
  | case3 a b c d' r hx ih =>
    intro b' r' h
    simp only [Option.map_eq_some_iff] at h
    obtain ⟨⟨b0, t0⟩, h0, h1⟩ := h
    simp only [Bool.and_eq_true] at hx
    obtain ⟨⟨⟨ha, hb⟩, hc⟩, hd⟩ := hx
    rw [pairScan_esc, pairScan_inq (hex_plain a ha).1 (hex_plain a ha).2, pairScan_inq (hex_plain b hb).1 (hex_plain b hb).2,
      pairScan_inq (hex_plain c hc).1 (hex_plain c hc).2, pairScan_inq (hex_plain d' hd).1 (hex_plain d' hd).2, ih h0]
    cases h1; rfl
  | case4 => intro b r h; cases h
  | case5 e r _ he ih =>
    intro b' r' h
    simp only [Option.map_eq_some_iff] at h
    obtain ⟨⟨b0, t0⟩, h0, h1⟩ := h
    rw [pairScan_esc, ih h0]; cases h1; rfl
  | case6 => intro b r h; cases h
  | case7 => intro b r h; cases h
  | case8 c r h34 _ _ hc ih =>
    intro b' r' h
    simp only [Option.map_eq_some_iff] at h
    obtain ⟨⟨b0, t0⟩, h0, h1⟩ := h
    have h92 : c ≠ 92 := by intro h; simp [h] at hc
    rw [pairScan_inq h92 (fun h => h34 h), ih h0]; cases h1; rfl


theorem punct_neutral {lc rc : UInt8} (hp : IsPair lc rc) :
    ∀ c ∈ ([110, 117, 108, 116, 114, 101, 102, 97, 115, 44, 58] : List UInt8), Neutral lc rc c := by
  unfold Neutral
  rcases hp with ⟨rfl, rfl⟩ | ⟨rfl, rfl⟩ <;> decide

/-- what scanning a complete value / element list / member list does to the container scan -/
def ScanVal (lc rc : UInt8) (s r : Bytes) : Prop :=
  ∀ d, d ≥ 1 → pairScan lc rc d false s = pairScan lc rc d false r

theorem ScanVal.trans {lc rc : UInt8} {a b c : Bytes} (h1 : ScanVal lc rc a b) (h2 : ScanVal lc rc b c) : ScanVal lc rc a c :=
  fun d hd => (h1 d hd).trans (h2 d hd)

theorem ScanVal.ws {lc rc : UInt8} (hp : IsPair lc rc) (s : Bytes) : ScanVal lc rc s (skipWs s) :=
  fun d _ => (pairScan_skipWs hp d false s).symm

theorem ScanVal.neutral {lc rc c : UInt8} (h : Neutral lc rc c) (r : Bytes) : ScanVal lc rc (c :: r) r :=
  fun d _ => pairScan_cons_neutral h d false r

/-- KEY LEMMA (all of it): on the text of a strictly valid value, element list or member list the
    bracket/quote counting scan ends in the state it started in (an element list is worth its
    closing `]`, a member list its closing `}`) -/
theorem scan_valid {lc rc : UInt8} (hp : IsPair lc rc) : ∀ n,
    (∀ s v r, parseVal n s = some (v, r) → ScanVal lc rc s r) ∧
    (∀ s xs r, parseElems n s = some (xs, r) → ScanVal lc rc s (93 :: r)) ∧
    (∀ s kvs r, parseMembers n s = some (kvs, r) → ScanVal lc rc s (125 :: r)) := by
  intro n
  induction n with
  | zero =>
    refine ⟨?_, ?_, ?_⟩
    · intro s v r h; rw [parseVal_zero] at h; cases h
    · intro s v r h; rw [parseElems_zero] at h; cases h
    · intro s v r h; rw [parseMembers_zero] at h; cases h
  | succ n ih =>
    obtain ⟨ihv, ihe, ihm⟩ := ih
    have pn := punct_neutral hp
    refine ⟨?_, ?_, ?_⟩
    · intro s v r h
      cases parseVal_inv h with
      | null hs _ =>
        subst hs; intro d _
        exact pairScan_append_neutral [110, 117, 108, 108] (fun c hc => pn c (by revert c; decide)) d false r
      | tru hs _ =>
        subst hs; intro d _
        exact pairScan_append_neutral [116, 114, 117, 101] (fun c hc => pn c (by revert c; decide)) d false r
      | fls hs _ =>
        subst hs; intro d _
        exact pairScan_append_neutral [102, 97, 108, 115, 101] (fun c hc => pn c (by revert c; decide)) d false r
      | str t b hs hb _ =>
        subst hs; intro d _
        rw [pairScan_quote]; exact pairScan_string lc rc d t hb
      | arr0 t hs h0 _ =>
        subst hs; intro d hd
        exact pairScan_open_close hp 91 93 (.inl ⟨rfl, rfl⟩) d hd t r (fun d' hd' => by rw [← pairScan_skipWs hp, h0])
      | arr t xs hs _ he _ =>
        subst hs; intro d hd
        exact pairScan_open_close hp 91 93 (.inl ⟨rfl, rfl⟩) d hd t r
          (fun d' hd' => by rw [← pairScan_skipWs hp]; exact ihe _ _ _ he d' hd')
      | obj0 t hs h0 _ =>
        subst hs; intro d hd
        exact pairScan_open_close hp 123 125 (.inr ⟨rfl, rfl⟩) d hd t r (fun d' hd' => by rw [← pairScan_skipWs hp, h0])
      | obj t kvs hs _ hm _ =>
        subst hs; intro d hd
        exact pairScan_open_close hp 123 125 (.inr ⟨rfl, rfl⟩) d hd t r
          (fun d' hd' => by rw [← pairScan_skipWs hp]; exact ihm _ _ _ hm d' hd')
      | num l hl _ =>
        obtain ⟨hs, hall, _⟩ := scanNumber_spec hl
        subst hs; intro d _
        exact pairScan_append_neutral l (fun c hc => numChar_neutral hp c (hall c hc)) d false r
    · intro s xs r h
      obtain ⟨v, r1, hv, hrest⟩ := parseElems_inv h
      refine (ihv _ _ _ hv).trans ((ScanVal.ws hp r1).trans ?_)
      rcases hrest with ⟨t, xs', hc, he, _⟩ | ⟨hc, _⟩
      · rw [hc]
        exact (ScanVal.neutral (pn 44 (by decide)) t).trans ((ScanVal.ws hp t).trans (ihe _ _ _ he))
      · rw [hc]; exact fun _ _ => rfl
    · intro s kvs r h
      obtain ⟨t, k, r1, r2, v, r3, hs, hk, h58, hv, hrest⟩ := parseMembers_inv h
      subst hs
      have hkey : ScanVal lc rc (34 :: t) r1 := fun d _ => by rw [pairScan_quote]; exact pairScan_string lc rc d t hk
      refine hkey.trans ((ScanVal.ws hp r1).trans ?_)
      rw [h58]
      refine (ScanVal.neutral (pn 58 (by decide)) r2).trans ((ScanVal.ws hp r2).trans ((ihv _ _ _ hv).trans ((ScanVal.ws hp r3).trans ?_)))
      rcases hrest with ⟨t', kvs', hc, hm, _⟩ | ⟨hc, _⟩
      · rw [hc]
        exact (ScanVal.neutral (pn 44 (by decide)) t').trans ((ScanVal.ws hp t').trans (ihm _ _ _ hm))
      · rw [hc]; exact fun _ _ => rfl

/-! ## the whole fast skipper -/

/-- what may follow a value inside a valid document: end of input, white space, `,` `]` `}` -/
def NumFollow (r : Bytes) : Prop := r = [] ∨ ∃ c t, r = c :: t ∧ isNumStop c = true

theorem numChar_not_stop : ∀ c : UInt8, isNumChar c = true → isNumStop c = false := by
  apply forall_uint8; decide +kernel

theorem numEnd_append (l : Bytes) (hl : AllNum l) {r : Bytes} (hr : NumFollow r) : numEnd (l ++ r) = r := by
  induction l with
  | nil =>
    rcases hr with rfl | ⟨c, t, rfl, hc⟩
    · rfl
    · simp [numEnd, hc]
  | cons c l ih =>
    have hc := numChar_not_stop c (hl c (by simp))
    rw [List.cons_append, numEnd]
    simp only [hc]
    exact ih (fun x hx => hl x (by simp [hx]))

theorem numStart_kind : ∀ c : UInt8, (c = 45 ∨ isDigit c = true) →
    c ≠ 91 ∧ c ≠ 123 ∧ c ≠ 34 ∧ c ≠ 116 ∧ c ≠ 110 ∧ c ≠ 102 := by
  apply forall_uint8; decide +kernel

theorem pairScan_close_one (lc rc : UInt8) (hp : IsPair lc rc) (r : Bytes) : pairScan lc rc 1 false (rc :: r) = some r := by
  rcases hp with ⟨rfl, rfl⟩ | ⟨rfl, rfl⟩ <;> (rw [pairScan.eq_def]; simp)

/-- `skipFast_eq_skip_on_valid`, in the form used by the search proofs: where the strict parser
    reads a value (and what follows may follow a value), the fast skipper stops at the same place -/
theorem skipFast_of_parse {n : Nat} {s : Bytes} {v : JVal} {r : Bytes}
    (h : parseVal n (skipWs s) = some (v, r)) (hf : NumFollow r) : skipFast s = some (skipWs s, r) := by
  cases n with
  | zero => rw [parseVal_zero] at h; cases h
  | succ n =>
    unfold skipFast
    cases parseVal_inv h with
    | null hs _ => rw [hs]; simp
    | tru hs _ => rw [hs]; simp
    | fls hs _ => rw [hs]; simp
    | str t b hs hb _ => rw [hs]; simp [strEnd_of_scanString t hb]
    | arr0 t hs h0 _ =>
      rw [hs]
      have : pairScan 91 93 1 false t = some r := by
        rw [← pairScan_skipWs (.inl ⟨rfl, rfl⟩), h0]; exact pairScan_close_one 91 93 (.inl ⟨rfl, rfl⟩) r
      simp [this]
    | arr t xs hs _ he _ =>
      rw [hs]
      have : pairScan 91 93 1 false t = some r := by
        rw [← pairScan_skipWs (.inl ⟨rfl, rfl⟩), (scan_valid (.inl ⟨rfl, rfl⟩) n).2.1 _ _ _ he 1 (Nat.le_refl 1)]
        exact pairScan_close_one 91 93 (.inl ⟨rfl, rfl⟩) r
      simp [this]
    | obj0 t hs h0 _ =>
      rw [hs]
      have : pairScan 123 125 1 false t = some r := by
        rw [← pairScan_skipWs (.inr ⟨rfl, rfl⟩), h0]; exact pairScan_close_one 123 125 (.inr ⟨rfl, rfl⟩) r
      simp [this]
    | obj t kvs hs _ hm _ =>
      rw [hs]
      have : pairScan 123 125 1 false t = some r := by
        rw [← pairScan_skipWs (.inr ⟨rfl, rfl⟩), (scan_valid (.inr ⟨rfl, rfl⟩) n).2.2 _ _ _ hm 1 (Nat.le_refl 1)]
        exact pairScan_close_one 123 125 (.inr ⟨rfl, rfl⟩) r
      simp [this]
    | num l hl _ =>
      obtain ⟨hs, hall, c0, l', hl0, hc0⟩ := scanNumber_spec hl
      subst hl0
      rw [hs]
      obtain ⟨h1, h2, h3, h4, h5, h6⟩ := numStart_kind c0 hc0
      have hne : numEnd (l' ++ r) = r := numEnd_append l' (fun x hx => hall x (by simp [hx])) hf
      have hcd : (c0 == 45 || isDigit c0) = true := by
        rcases hc0 with rfl | hd
        · rfl
        · simp [hd]
      simp [h1, h2, h3, h4, h5, h6, hcd, hne]

/-! ## fuel -/

/-- more fuel never changes a successful parse -/
theorem parse_mono : ∀ n,
    (∀ s x, parseVal n s = some x → parseVal (n + 1) s = some x) ∧
    (∀ s x, parseElems n s = some x → parseElems (n + 1) s = some x) ∧
    (∀ s x, parseMembers n s = some x → parseMembers (n + 1) s = some x) := by
  intro n
  induction n with
  | zero =>
    refine ⟨?_, ?_, ?_⟩
    · intro s x h; rw [parseVal_zero] at h; cases h
    · intro s x h; rw [parseElems_zero] at h; cases h
    · intro s x h; rw [parseMembers_zero] at h; cases h
  | succ n ih =>
    obtain ⟨ihv, ihe, ihm⟩ := ih
    refine ⟨?_, ?_, ?_⟩
    · intro s x h
      unfold parseVal at h ⊢
      split at h
      · exact h
      · exact h
      · exact h
      · exact h
      · split at h
        · exact h
        · simp only [Option.map_eq_some_iff] at h
          obtain ⟨⟨xs, t'⟩, h0, h1⟩ := h
          rw [ihe _ _ h0]; simpa using h1
      · split at h
        · exact h
        · simp only [Option.map_eq_some_iff] at h
          obtain ⟨⟨xs, t'⟩, h0, h1⟩ := h
          rw [ihm _ _ h0]; simpa using h1
      · exact h
    · intro s x h
      unfold parseElems at h ⊢
      split at h
      · cases h
      · rename_i v r hv
        rw [ihv _ _ hv]
        simp only
        split at h
        · simp only [Option.map_eq_some_iff] at h ⊢
          obtain ⟨⟨xs, t'⟩, h0, h1⟩ := h
          exact ⟨(xs, t'), ihe _ _ h0, h1⟩
        · exact h
        · cases h
    · intro s x h
      unfold parseMembers at h ⊢
      split at h
      · split at h
        · cases h
        · rename_i k r1 hk
          split at h
          · rename_i r2 h58
            split at h
            · cases h
            · rename_i v r3 hv
              rw [ihv _ _ hv]
              simp only
              split at h
              · simp only [Option.map_eq_some_iff] at h ⊢
                obtain ⟨⟨xs, t'⟩, h0, h1⟩ := h
                exact ⟨(xs, t'), ihm _ _ h0, h1⟩
              · exact h
              · cases h
          · cases h
      · cases h

theorem parseVal_mono {n m : Nat} (hle : n ≤ m) {s : Bytes} {x : JVal × Bytes} (h : parseVal n s = some x) :
    parseVal m s = some x := by
  induction hle with
  | refl => exact h
  | step _ ih => exact (parse_mono _).1 _ _ ih

end SonicSpec.Search
