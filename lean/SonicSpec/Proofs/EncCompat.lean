/-
  The Go fallbacks of internal/encoder/alg/spec_compat.go (Model/EncCompat.lean) against the
  specification's formatting functions.
-/
import SonicSpec.Model.EncCompat
import SonicSpec.Proofs.EncUnq
namespace SonicSpec.Enc.Compat
open SonicSpec SonicSpec.Enc

/-- per-piece description of what `Compat.quote` writes -/
def compatPiece : Piece → Bytes
  | .ascii c => if safeSet c then [c] else 92 :: escTail c
  | .multi bs =>
    if bs == [226, 128, 168] || bs == [226, 128, 169] then [92, 117, 50, 48, 50, hexDigit (bs.getLastD 0 &&& 15)] else bs
  | .bad c => [c]

theorem seqLen_low {c : UInt8} (h : c < 128) (r : Bytes) : seqLen (c :: r) = 1 := by
  simp [seqLen, h]

theorem quoteLoop_spec : ∀ (f : Nat) (s pend e : Bytes), s.length ≤ f →
    quoteLoop f s pend e = e ++ pend ++ (piecesF f s).flatMap compatPiece := by
  intro f
  induction f with
  | zero =>
    intro s pend e h
    cases s with
    | nil => simp [quoteLoop, piecesF]
    | cons c r => simp at h
  | succ f ih =>
    intro s pend e h
    cases s with
    | nil => simp [quoteLoop, piecesF]
    | cons c r =>
      have hr : r.length ≤ f := by simpa using h
      by_cases hc : c < 128
      · have h1 := seqLen_low hc r
        simp only [quoteLoop, hc, if_true, piecesF, h1]
        by_cases hs : safeSet c = true
        · simp [hs, ih r _ _ hr, compatPiece]
        · simp [hs, ih r _ _ hr, compatPiece]
      · simp only [quoteLoop, hc, if_false, piecesF]
        by_cases h0 : seqLen (c :: r) = 0
        · simp [h0, ih r _ _ hr, compatPiece]
        · have h1 : seqLen (c :: r) ≠ 1 := fun hh => hc (seqLen_one_low hh)
          have hd : (r.drop (seqLen (c :: r) - 1)).length ≤ f := by
            simp only [List.length_drop]; omega
          have e0 : (seqLen (c :: r) == 0) = false := by simpa using h0
          have e1 : (seqLen (c :: r) == 1) = false := by simpa using h1
          simp only [e0, e1, if_false, Bool.false_eq_true]
          by_cases hsep : (List.take (seqLen (c :: r)) (c :: r) == [226, 128, 168] ||
              List.take (seqLen (c :: r)) (c :: r) == [226, 128, 169]) = true
          · simp [hsep, ih _ _ _ hd, compatPiece]
          · simp [hsep, ih _ _ _ hd, compatPiece]

/-- `Quote(nil, s, false)` of spec_compat.go writes, piece by piece, what `compatPiece` says -/
theorem quote_eq (s : Bytes) : quote s = 34 :: ((pieces s).flatMap compatPiece ++ [34]) := by
  unfold quote
  cases s with
  | nil => simp [pieces, piecesF]
  | cons c r =>
    simp only [List.isEmpty_cons, Bool.false_eq_true, if_false]
    rw [quoteLoop_spec _ _ _ _ (Nat.le_refl _)]
    simp [pieces]

theorem compat_ascii_den : ∀ c : UInt8, c < 128 → chunkDen (compatPiece (.ascii c)) = some [c] := by
  apply forall_uint8
  decide +kernel

theorem unq_compatPiece {p : Piece} (hp : PieceOK p) (rest : Bytes) :
    unqS none (compatPiece p ++ rest) = (unqS none rest).map (p.bytes ++ ·) := by
  cases p with
  | ascii c => exact unq_chunk (compat_ascii_den c hp) rest
  | multi bs =>
    simp only [compatPiece, Piece.bytes]
    split
    · rename_i h
      simp only [Bool.or_eq_true, beq_iff_eq] at h
      rcases h with h | h <;> (subst h; exact unq_chunk (by decide) rest)
    · exact unqS_plain_append (fun c hc => highByte_plain (hp c hc)) rest
  | bad c => exact unqS_plain (highByte_plain hp) rest

theorem unq_compat (s : Bytes) : unq ((pieces s).flatMap compatPiece) = some s := by
  unfold unq
  have : ∀ (ps : List Piece), (∀ p ∈ ps, PieceOK p) →
      unqS none (ps.flatMap compatPiece) = some (ps.flatMap Piece.bytes) := by
    intro ps
    induction ps with
    | nil => intro _; simp [unqS, flushHi]
    | cons p r ih =>
      intro h
      simp only [List.flatMap_cons]
      rw [unq_compatPiece (h p (by simp)), ih (fun q hq => h q (by simp [hq]))]
      rfl
  rw [this _ (pieces_ok s), pieces_bytes]

end SonicSpec.Enc.Compat
