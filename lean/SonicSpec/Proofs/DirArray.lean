/-
  Decoder IR: compileArray - the unrolled element loop (one code copy per element, `_OP_array_skip` behind the last,
  `_OP_array_clear` for the elements the document does not give).
-/
import SonicSpec.Proofs.DirStructTop
namespace SonicSpec.Dir
open SonicSpec SonicSpec.Go SonicSpec.Json SonicSpec.Bind SonicSpec.Stream

variable {o : DecOpts} {co : COpts}

/-- the elements beyond a fixed array's length are only skipped -/
theorem de_skip (o : DecOpts) (t : GoType) (curs : List GoVal) : ∀ (n : Nat) (s : Bytes),
    decodeElems o n t s curs (some 0) =
      match skipElems o.validateString n s with
      | some r => .ok ([], none, r)
      | none => .error .syntax
  | 0, s => by rw [decodeElems, skipElems]
  | n + 1, s => by
    rw [decodeElems, skipElems]
    have : ((some 0 : Option Nat) == some 0) = true := rfl
    simp only [this, if_true]
    cases skipVal o.validateString n s with
    | none => rfl
    | some r =>
      simp only
      split
      · rename_i r' heq; rw [de_skip o t curs n (skipWs r')]
      · rfl
      · rfl

theorem de_lim_succ (o : DecOpts) (n : Nat) (t : GoType) (s : Bytes) (curs : List GoVal) (m : Nat) :
    decodeElems o (n + 1) t s curs (some (m + 1)) =
      match decodeVal o n t s (curs.headD (zeroOf t)) with
      | .error e => .error e
      | .ok (v, e, r) =>
        match skipWs r with
        | 44 :: r' =>
          match decodeElems o n t (skipWs r') curs.tail (some m) with
          | .error e' => .error e'
          | .ok (vs, e', r'') => .ok (v :: vs, merge e e', r'')
        | 93 :: r' => .ok ([v], e, r')
        | _ => .error .syntax := by
  rw [decodeElems]
  have : ((some (m + 1) : Option Nat) == some 0) = false := by
    show (decide ((some (m + 1) : Option Nat) = some 0)) = false
    simp
  simp only [this, Bool.false_eq_true, if_false, Option.map_some, Nat.add_sub_cancel]
  repeat' (first | rfl | split)

/-- the loop of compileArray (unrolled): `m` element codes left, the next element is number `done.length` -/
def ArrOK (o : DecOpts) (co : COpts) (n : Nat) : Prop :=
  ∀ (t : GoType) (s0 : Bytes) (curs vs : List GoVal) (e : Option DErr) (r : Bytes) (m : Nat),
    Sub t = true → WTs t curs = true → curs.length = m →
    decodeElems o n t (skipWs s0) curs (some m) = .ok (vs, e, r) →
    WTs t vs = true ∧ vs.length ≤ m ∧
    ∀ (lib : LibCode) (tab : Tab) (P : Program) (sp size clearAt NN a : Nat) (clr : Instr),
      Above tab t → (clr = .arrayClear (NN * tsize t) NN t ∨ clr = .arrayClearP (NN * tsize t) NN t) →
      ∀ (done : List GoVal), done.length + m = NN →
      At P a (arrJoin size clearAt (arrCodes (fun tb p => one co lib tb p sp t) m tab a).1 (done.length + 1) ++ [.arraySkip, .goto (clearAt + 1)]) →
      P[clearAt]? = some clr →
      ∀ (σ : St) (p : Path) (stk : List Frame),
        σ.inp = s0 → (m ≠ 0 → σ.vp = p ++ [.child done.length]) → σ.stack = { vp := p, n := 0 } :: stk → getAt σ.root p = some (.arr (done ++ curs)) →
        ∀ R : Out → Prop, (e ≠ none → Tol R) →
          (∀ σ' : St, σ'.inp = r → σ'.root = setAt σ.root p (.arr (done ++ vs ++ List.replicate (m - vs.length) (zeroOf t))) →
            σ'.stack = σ.stack → σ'.et = merge σ.et e → Ends o co none R P (clearAt + 1) σ') →
          Ends o co none R P a σ

theorem arrOK_zero : ArrOK o co 0 := by
  intro t s0 curs vs e r m _ _ _ h
  rw [de_zero] at h; cases h

theorem getAt_arr_child {root : GoVal} {p : Path} {xs : List GoVal} {i : Nat} {x : GoVal} (hg : getAt root p = some (.arr xs)) (hx : xs[i]? = some x) :
    getAt root (p ++ [.child i]) = some x := by
  rw [getAt_append, hg]
  simp only [Option.bind, getAt_cons, child1, hx, getAt_nil]

theorem setAt_arr_child {root : GoVal} {p : Path} {xs : List GoVal} {i : Nat} {x v : GoVal} (hg : getAt root p = some (.arr xs)) (hx : xs[i]? = some x) :
    setAt root (p ++ [.child i]) v = setAt root p (.arr (xs.set i v)) := by
  rw [setAt_append _ _ _ _ _ hg, setAt_cons]
  simp only [child1, hx, put1, setAt_nil]

/-- `_OP_array_clear(_p)`: the elements from `k` on become zero values -/
theorem e_arrayClear {P : Program} {R : Out → Prop} {pc : Nat} {σ : St} {clr : Instr} {NN : Nat} {t : GoType} {p : Path} {k : Nat} {stk : List Frame}
    {xs : List GoVal}
    (hclr : clr = .arrayClear (NN * tsize t) NN t ∨ clr = .arrayClearP (NN * tsize t) NN t)
    (hf : P[pc]? = some clr) (hst : σ.stack = { vp := p, n := 0 } :: stk) (hvp : σ.vp = p ++ [.child k]) (hg : getAt σ.root p = some (.arr xs))
    (kk : Ends o co none R P (pc + 1) { σ with root := setAt σ.root p (.arr (xs.take k ++ List.replicate (NN - k) (zeroOf t))) }) :
    Ends o co none R P pc σ := by
  rcases hclr with h | h <;> subst h
  · exact ends_step hf (by simp only [step, hst, hvp, List.drop_left, hg]) kk
  · exact ends_step hf (by simp only [step, hst, hvp, List.drop_left, hg]) kk

theorem arrOK_succ (n : Nat) (hv : ValOK o co n) (ih : ArrOK o co n) : ArrOK o co (n + 1) := by
  intro t s0 curs vs e r m hs hwc hlen h
  cases m with
  | zero =>
    -- no element code left: `_OP_array_skip`
    rw [de_skip] at h
    cases hsk : skipElems o.validateString (n + 1) (skipWs s0) with
    | none => rw [hsk] at h; cases h
    | some r' =>
      rw [hsk] at h
      injection h with h; injection h with h1 h2; injection h2 with h2 h3
      subst h1; subst h2; subst h3
      refine ⟨rfl, Nat.le_refl _, ?_⟩
      intro lib tab P sp size clearAt NN a clr _ _ done hNN hat _ σ p stk hi hvp hst hg R _ k
      simp only [arrCodes, arrJoin, List.nil_append] at hat
      have hx := (skipElems_exec (m := skipFuel σ.inp) hsk (by
        unfold skipFuel; have := skipWs_length_le s0; rw [hi]; omega)).1
      refine ends_step (hat.get 0 rfl) (pc' := a + 1) (s' := { σ with inp := r' }) (by rw [hi] at hx; simp only [step, hi, hx]) ?_
      refine e_goto (hat.get 1 rfl) ?_
      refine k _ rfl ?_ rfl (merge_none_right' _).symm
      simp only [List.append_nil, List.length_nil, Nat.sub_self, List.replicate_zero]
      have : curs = [] := List.eq_nil_of_length_eq_zero hlen
      subst this
      simp only [List.append_nil] at hg ⊢
      exact (setAt_same _ _ _ hg).symm
  | succ m =>
    rw [de_lim_succ] at h
    cases hd : decodeVal o n t (skipWs s0) (curs.headD (zeroOf t)) with
    | error x => rw [hd] at h; cases h
    | ok q =>
      obtain ⟨v, e1, r1⟩ := q
      rw [hd] at h
      simp only at h
      have hv1 := hv t s0 (curs.headD (zeroOf t)) v e1 r1 hs (headD_wt hs hwc) hd
      obtain ⟨c0, cs, hcurs⟩ : ∃ c0 cs, curs = c0 :: cs := by
        cases curs with
        | nil => simp at hlen
        | cons c0 cs => exact ⟨c0, cs, rfl⟩
      subst hcurs
      simp only [List.headD_cons, List.tail_cons] at h hd hv1
      have hlen' : cs.length = m := by simpa using hlen
      cases hw : skipWs r1 with
      | nil => rw [hw] at h; cases h
      | cons b r' =>
        rw [hw] at h
        -- the code of this element and what follows it
        have hcodes : ∀ (lib : LibCode) (tab : Tab) (sp a : Nat), Above tab t →
            (arrCodes (fun tb p => one co lib tb p sp t) (m + 1) tab a).1 =
              (one co lib tab a sp t).1 :: (arrCodes (fun tb p => one co lib tb p sp t) m tab (a + (one co lib tab a sp t).1.length + 5)).1 := by
          intro lib tab sp a ha
          simp only [arrCodes, one_tab hs lib ha]
        by_cases h44 : b = 44
        · subst h44
          simp only at h
          cases hd2 : decodeElems o n t (skipWs r') cs (some m) with
          | error x => rw [hd2] at h; cases h
          | ok q2 =>
            obtain ⟨vs', e', r''⟩ := q2
            rw [hd2] at h
            simp only at h
            injection h with h; injection h with h1 h2; injection h2 with h2 h3
            subst h1; subst h2; subst h3
            have ih2 := ih t r' cs vs' e' r'' m hs (tail_wt hwc) hlen' hd2
            refine ⟨by simp only [WTs, Bool.and_eq_true]; exact ⟨hv1.1, ih2.1⟩, by simp; exact ih2.2.1, ?_⟩
            intro lib tab P sp size clearAt NN a clr ha hclr done hNN hat hcl σ p stk hi hvp hst hg R ht k
            rw [hcodes lib tab sp a ha] at hat
            simp only [arrJoin] at hat
            generalize hc : (one co lib tab a sp t).1 = c at hat
            have hvp := hvp (by omega)
            have hg1 : getAt σ.root σ.vp = some c0 := by
              rw [hvp]; exact getAt_arr_child hg (by simp)
            have hatc : At P a (one co lib tab a sp t).1 := by rw [hc]; exact hat.left.left.left
            refine hv1.2 lib tab P a sp ha hatc σ hi hg1 R (fun hne => ht (merge_ne_none_left hne)) ?_
            intro σ2 hp
            rw [hc]
            have hmid : At P (a + c.length) [Instr.load, Instr.index [done.length + 1] ((done.length + 1) * size), Instr.lspace, Instr.checkChar clearAt 93, Instr.matchChar 44] :=
              hat.left.left.right
            refine e_load (hmid.get 0 rfl) (f := { vp := p, n := 0 }) (rest := stk) (by rw [hp.2.2.1, hst]) ?_
            refine e_index (hmid.get 1 rfl) ?_
            simp only [List.map_cons, List.map_nil]
            refine e_lspace (hmid.get 2 rfl) (c := 44) (r := r') (by simp only; rw [hp.1]; exact hw) ?_
            refine e_checkChar_miss (hmid.get 3 rfl) (b := 44) (r := r') rfl (by decide) ?_
            refine e_matchChar (hmid.get 4 rfl) (c := 44) (r := r') rfl ?_
            have hroot2 : σ2.root = setAt σ.root p (.arr ((done ++ [v]) ++ cs)) := by
              rw [hp.2.1, hvp, setAt_arr_child hg (x := c0) (by simp)]; simp
            have hrest : At P (a + c.length + 5)
                (arrJoin size clearAt (arrCodes (fun tb p => one co lib tb p sp t) m tab (a + c.length + 5)).1 ((done ++ [v]).length + 1) ++
                  [Instr.arraySkip, Instr.goto (clearAt + 1)]) := by
              have e1 : (c ++ [Instr.load, Instr.index [done.length + 1] ((done.length + 1) * size), Instr.lspace, Instr.checkChar clearAt 93, Instr.matchChar 44] ++
                  arrJoin size clearAt (arrCodes (fun tb p => one co lib tb p sp t) m tab (a + c.length + 5)).1 (done.length + 1 + 1) ++
                  [Instr.arraySkip, Instr.goto (clearAt + 1)] : Program) =
                  (c ++ [Instr.load, Instr.index [done.length + 1] ((done.length + 1) * size), Instr.lspace, Instr.checkChar clearAt 93, Instr.matchChar 44]) ++
                  (arrJoin size clearAt (arrCodes (fun tb p => one co lib tb p sp t) m tab (a + c.length + 5)).1 (done.length + 1 + 1) ++
                  [Instr.arraySkip, Instr.goto (clearAt + 1)]) := by simp
              have hat2 := e1 ▸ hat
              have := hat2.right' (q := a + c.length + 5) (by simp; omega)
              simpa using this
            refine ih2.2.2 lib tab P sp size clearAt NN (a + c.length + 5) clr ha hclr (done ++ [v]) (by simp; omega) hrest hcl
              _ p stk rfl (fun _ => by simp) (by simp only; rw [hp.2.2.1, hst]) (by simp only; rw [hroot2]; exact getAt_setAt_self _ _ _ _ hg) R
              (fun hne => ht (merge_ne_none_right hne)) ?_
            intro σ' h'i h'r h's h'e
            refine k σ' h'i ?_ ?_ ?_
            · rw [h'r]; simp only; rw [hroot2, setAt_setAt _ _ _ _ _ hg]
              congr 2
              simp
            · rw [h's]; simp only; rw [hp.2.2.1]
            · rw [h'e]; simp only; rw [hp.2.2.2, merge_assoc]
        · by_cases h93 : b = 93
          · subst h93
            simp only at h
            injection h with h; injection h with h1 h2; injection h2 with h2 h3
            subst h1; subst h2; subst h3
            refine ⟨by simp only [WTs, Bool.and_eq_true]; exact ⟨hv1.1, trivial⟩, by simp, ?_⟩
            intro lib tab P sp size clearAt NN a clr ha hclr done hNN hat hcl σ p stk hi hvp hst hg R ht k
            rw [hcodes lib tab sp a ha] at hat
            simp only [arrJoin] at hat
            generalize hc : (one co lib tab a sp t).1 = c at hat
            have hvp := hvp (by omega)
            have hg1 : getAt σ.root σ.vp = some c0 := by
              rw [hvp]; exact getAt_arr_child hg (by simp)
            have hatc : At P a (one co lib tab a sp t).1 := by rw [hc]; exact hat.left.left.left
            refine hv1.2 lib tab P a sp ha hatc σ hi hg1 R ht ?_
            intro σ2 hp
            rw [hc]
            have hmid : At P (a + c.length) [Instr.load, Instr.index [done.length + 1] ((done.length + 1) * size), Instr.lspace, Instr.checkChar clearAt 93, Instr.matchChar 44] :=
              hat.left.left.right
            refine e_load (hmid.get 0 rfl) (f := { vp := p, n := 0 }) (rest := stk) (by rw [hp.2.2.1, hst]) ?_
            refine e_index (hmid.get 1 rfl) ?_
            simp only [List.map_cons, List.map_nil]
            refine e_lspace (hmid.get 2 rfl) (c := 93) (r := r') (by simp only; rw [hp.1]; exact hw) ?_
            refine e_checkChar_hit (hmid.get 3 rfl) (c := 93) (r := r') rfl ?_
            have hroot2 : σ2.root = setAt σ.root p (.arr (done ++ v :: cs)) := by
              rw [hp.2.1, hvp, setAt_arr_child hg (x := c0) (by simp)]; simp
            refine e_arrayClear hclr hcl (p := p) (k := done.length + 1) (stk := stk) (xs := done ++ v :: cs) (by simp only; rw [hp.2.2.1, hst]) rfl
              (by simp only; rw [hroot2]; exact getAt_setAt_self _ _ _ _ hg) ?_
            refine k _ rfl ?_ (by simp only; exact hp.2.2.1) (by simp only; exact hp.2.2.2)
            simp only
            rw [hroot2, setAt_setAt _ _ _ _ _ hg]
            congr 2
            have : NN - (done.length + 1) = m + 1 - 1 := by omega
            rw [this]
            simp [List.take_append, List.take_of_length_le]
          · exfalso
            revert h
            split
            · rename_i heq; injection heq with hb _; exact absurd hb h44
            · rename_i heq; injection heq with hb _; exact absurd hb h93
            · intro h; cases h

theorem arrJoin_length (size clearAt : Nat) : ∀ (cs : List Program) (i : Nat),
    (arrJoin size clearAt cs i).length = (cs.map fun c => c.length + 5).sum
  | [], _ => rfl
  | c :: r, i => by simp [arrJoin, arrJoin_length size clearAt r (i + 1)]; omega

theorem e_arrayClear0 {P : Program} {R : Out → Prop} {pc : Nat} {σ : St} {clr : Instr} {t : GoType} {p : Path} {stk : List Frame}
    {xs : List GoVal}
    (hclr : clr = .arrayClear (0 * tsize t) 0 t ∨ clr = .arrayClearP (0 * tsize t) 0 t)
    (hf : P[pc]? = some clr) (hst : σ.stack = { vp := p, n := 0 } :: stk) (hvp : σ.vp = p) (hg : getAt σ.root p = some (.arr xs))
    (kk : Ends o co none R P (pc + 1) { σ with root := setAt σ.root p (.arr (xs.take 0 ++ List.replicate (0 - 0) (zeroOf t))) }) :
    Ends o co none R P pc σ := by
  rcases hclr with h | h <;> subst h
  · exact ends_step hf (by simp only [step, hst, hvp, List.drop_length, hg]) kk
  · exact ends_step hf (by simp only [step, hst, hvp, List.drop_length, hg]) kk

theorem e_drop_arr {P : Program} {R : Out → Prop} {pc : Nat} {σ : St} {p : Path} {k' : Nat} {stk : List Frame} {xs : List GoVal}
    (hf : P[pc]? = some .drop) (hst : σ.stack = { vp := p, n := k' } :: stk) (hg : getAt σ.root p = some (.arr xs))
    (k : Ends o co none R P (pc + 1) { σ with stack := stk, vp := p }) : Ends o co none R P pc σ :=
  ends_step hf (by simp only [step, hst, hg]) k

theorem wt_arr {N : Nat} {t : GoType} {cur : GoVal} (h : WT (.arr N t) cur = true) :
    ∃ xs, cur = .arr xs ∧ xs.length = N ∧ WTs t xs = true := by
  cases cur <;> simp_all [WT]

theorem de_ne (o : DecOpts) (n : Nat) (t : GoType) (hs : Sub t = true) (curs : List GoVal) (lim : Option Nat) (vs : List GoVal) (e : Option DErr) (r : Bytes)
    (h : decodeElems o n t [] curs lim = .ok (vs, e, r)) : False := by
  cases n with
  | zero => rw [de_zero] at h; cases h
  | succ n =>
    rw [decodeElems] at h
    split at h
    · rw [skipVal_nil] at h; cases h
    · rw [decodeVal_nil o n t hs] at h; cases h

/-- compileArray -/
theorem opsOK_arr (n : Nat) (ih : ArrOK o co n) (N : Nat) (t : GoType) (hst : Sub (.arr N t) = true) : OpsOK o co (n + 1) (.arr N t) := by
  have hs : Sub t = true := by simpa [Sub] using hst
  intro s cur v e r hwt _ h
  obtain ⟨xs, hcur, hxl, hxw⟩ := wt_arr hwt
  subst hcur
  -- the code
  have hcode : ∀ (lib : LibCode) (tab : Tab) (pc sp : Nat),
      (ops co lib false tab pc sp (.arr N t)).1 = (arrCode tab pc N t fun tb p => one co lib tb p (sp + 1) t).1 := by
    intro lib tab pc sp
    rw [ops]
    simp only [fin, Bool.not_false, if_true]
    rfl
  have hshape : ∀ (lib : LibCode) (tab : Tab) (pc sp : Nat), ∃ (J : Program) (clr : Instr),
      J = arrJoin (tsize t) (pc + 8 + J.length + 2) (arrCodes (fun tb p => one co lib tb p (sp + 1) t) N tab (pc + 8)).1 1 ∧
      (clr = .arrayClear (N * tsize t) N t ∨ clr = .arrayClearP (N * tsize t) N t) ∧
      (arrCode tab pc N t fun tb p => one co lib tb p (sp + 1) t).1 =
        [.isNull (pc + 8 + J.length + 2 + 2)] ++ chk (pc + 1) (.arr N t) 91 (pc + 8 + J.length + 2 + 2) ++
          [.save (N != 0), .lspace, .checkChar (pc + 8 + J.length + 2) 93] ++ J ++ [.arraySkip, .goto (pc + 8 + J.length + 2 + 1), clr, .drop] := by
    intro lib tab pc sp
    refine ⟨arrJoin (tsize t) (pc + 8 + ((arrCodes (fun tb p => one co lib tb p (sp + 1) t) N tab (pc + 8)).1.map fun c => c.length + 5).sum + 2)
      (arrCodes (fun tb p => one co lib tb p (sp + 1) t) N tab (pc + 8)).1 1,
      if hasPtr t then .arrayClearP (N * tsize t) N t else .arrayClear (N * tsize t) N t, ?_, ?_, ?_⟩
    · rw [arrJoin_length]
    · split
      · exact Or.inr rfl
      · exact Or.inl rfl
    · simp only [arrCode, arrJoin_length]
  -- positions inside the code
  have hend : ∀ (pc : Nat) (T : GoType) (J : Program) (clr : Instr), pc + 8 + J.length + 2 + 2 =
      pc + ([Instr.isNull (pc + 8 + J.length + 2 + 2)] ++ chk (pc + 1) T 91 (pc + 8 + J.length + 2 + 2) ++
        [Instr.save (N != 0), Instr.lspace, Instr.checkChar (pc + 8 + J.length + 2) 93] ++ J ++
        [Instr.arraySkip, Instr.goto (pc + 8 + J.length + 2 + 1), clr, Instr.drop]).length := by
    intro pc T J clr; simp [chk]; omega
  cases hn : isNullLit s with
  | some r0 =>
    rw [dv_null o n _ s r0 _ hn] at h
    injection h with h; injection h with h1 h2; injection h2 with h2 h3
    subst h1; subst h2; subst h3
    refine ⟨hwt, ?_⟩
    intro lib tab P pc sp _ hat σ hi hg
    obtain ⟨J, clr, _, _, hsh⟩ := hshape lib tab pc sp
    rw [hcode, hsh] at hat ⊢
    intro R _ k
    refine e_isNull_hit (hat.left.left.left.left.get 0 rfl) (by rw [hi]; exact hn) ?_
    rw [hend pc (.arr N t) J clr]
    exact k _ (post_same hg)
  | none =>
    rw [dv_arr o n N t s _ hn] at h
    cases htk : tok s with
    | arr r0 =>
      rw [htk] at h
      simp only [curElems] at h
      have hs0 := tok_arr_of htk
      cases hw : skipWs r0 with
      | nil =>
        rw [hw] at h
        simp only at h
        cases hd : decodeElems o n t [] xs (some N) with
        | error x => rw [hd] at h; cases h
        | ok q => obtain ⟨a1, a2, a3⟩ := q; exact (de_ne o n t hs xs _ a1 a2 a3 hd).elim
      | cons b r1 =>
        rw [hw] at h
        by_cases h93 : b = 93
        · subst h93
          simp only at h
          injection h with h; injection h with h1 h2; injection h2 with h2 h3
          subst h1; subst h2; subst h3
          refine ⟨by simp only [WT, List.length_replicate, beq_self_eq_true, Bool.true_and]; exact wts_replicate t _ (wt_zero t hs) N, ?_⟩
          intro lib tab P pc sp _ hat σ hi hg
          obtain ⟨J, clr, _, hclr, hsh⟩ := hshape lib tab pc sp
          rw [hcode, hsh] at hat ⊢
          intro R _ k
          refine e_isNull_miss (hat.left.left.left.left.get 0 rfl) (by rw [hi]; exact hn) ?_
          have hchk : At P (pc + 1) (chk (pc + 1) (.arr N t) 91 (pc + 8 + J.length + 2 + 2)) := by
            have := hat.left.left.left.right (a := [Instr.isNull (pc + 8 + J.length + 2 + 2)])
            simpa using this
          refine e_chk_hit hchk (c := 91) (r := r0) (by rw [hi]; exact hs0) ?_
          have h3 : At P (pc + 5) [Instr.save (N != 0), Instr.lspace, Instr.checkChar (pc + 8 + J.length + 2) 93] :=
            hat.left.left.right' (by simp [chk])
          have htl : At P (pc + 8 + J.length) [Instr.arraySkip, Instr.goto (pc + 8 + J.length + 2 + 1), clr, Instr.drop] :=
            hat.right' (by simp [chk]; omega)
          refine e_save (h3.get 0 rfl) ?_
          refine e_lspace (h3.get 1 rfl) (c := 93) (r := r1) hw ?_
          refine e_checkChar_hit (h3.get 2 rfl) (c := 93) (r := r1) rfl ?_
          by_cases hN : N = 0
          · subst hN
            have hxs : xs = [] := List.eq_nil_of_length_eq_zero hxl
            subst hxs
            refine e_arrayClear0 hclr (htl.get 2 rfl) (p := σ.vp) (stk := σ.stack) (xs := []) rfl (by simp) (by simp only; exact hg) ?_
            refine e_drop_arr (htl.get 3 rfl) (p := σ.vp) (k' := 0) (stk := σ.stack) (xs := []) rfl (by simp only [List.take_nil, Nat.sub_self, List.replicate_zero, List.append_nil]; exact getAt_setAt_self _ _ _ _ hg) ?_
            have := hend pc (.arr 0 t) J clr
            rw [show pc + 8 + J.length + 2 + 1 + 1 = pc + 8 + J.length + 2 + 2 from rfl, this]
            refine k _ ⟨rfl, ?_, rfl, (merge_none_right' _).symm⟩
            simp
          · have hNb : (N != 0) = true := by simpa using hN
            refine e_arrayClear hclr (htl.get 2 rfl) (p := σ.vp) (k := 0) (stk := σ.stack) (xs := xs) rfl (by simp [hNb]) (by simp only; exact hg) ?_
            refine e_drop_arr (htl.get 3 rfl) (p := σ.vp) (k' := 0) (stk := σ.stack) (xs := List.replicate N (zeroOf t)) rfl
              (by simp only; simpa using getAt_setAt_self _ _ _ _ hg) ?_
            have := hend pc (.arr N t) J clr
            rw [show pc + 8 + J.length + 2 + 1 + 1 = pc + 8 + J.length + 2 + 2 from rfl, this]
            refine k _ ⟨rfl, ?_, rfl, (merge_none_right' _).symm⟩
            simp
        · have h' : (match decodeElems o n t (b :: r1) xs (some N) with
              | .error e => (.error e : Res GoVal)
              | .ok (vs, e, t') => .ok (.arr (vs ++ List.replicate (N - vs.length) (zeroOf t)), e, t')) = .ok (v, e, r) := by
            revert h
            split
            · rename_i heq; injection heq with hb _; exact absurd hb h93
            · intro h; exact h
          cases hd : decodeElems o n t (b :: r1) xs (some N) with
          | error x => rw [hd] at h'; cases h'
          | ok q =>
            obtain ⟨vs, e', t'⟩ := q
            rw [hd] at h'
            simp only at h'
            injection h' with h'; injection h' with h1 h2; injection h2 with h2 h3
            subst h1; subst h2; subst h3
            have hidem : skipWs (b :: r1) = b :: r1 := by rw [← hw]; exact skipWs_idem r0
            have ihe := ih t (b :: r1) xs vs e' t' N hs hxw hxl (by rw [hidem]; exact hd)
            refine ⟨?_, ?_⟩
            · simp only [WT, Bool.and_eq_true, List.length_append, List.length_replicate, beq_iff_eq]
              refine ⟨by have := ihe.2.1; omega, ?_⟩
              rw [wts_append]
              exact ⟨ihe.1, wts_replicate t _ (wt_zero t hs) _⟩
            intro lib tab P pc sp hle hat σ hi hg
            have ha : Above tab t := tsz_le_above hle (by simp [tsz])
            obtain ⟨J, clr, hJ, hclr, hsh⟩ := hshape lib tab pc sp
            rw [hcode, hsh] at hat ⊢
            intro R ht k
            refine e_isNull_miss (hat.left.left.left.left.get 0 rfl) (by rw [hi]; exact hn) ?_
            have hchk : At P (pc + 1) (chk (pc + 1) (.arr N t) 91 (pc + 8 + J.length + 2 + 2)) := by
              have := hat.left.left.left.right (a := [Instr.isNull (pc + 8 + J.length + 2 + 2)])
              simpa using this
            refine e_chk_hit hchk (c := 91) (r := r0) (by rw [hi]; exact hs0) ?_
            have h3 : At P (pc + 5) [Instr.save (N != 0), Instr.lspace, Instr.checkChar (pc + 8 + J.length + 2) 93] :=
              hat.left.left.right' (by simp [chk])
            have htl : At P (pc + 8 + J.length) [Instr.arraySkip, Instr.goto (pc + 8 + J.length + 2 + 1), clr, Instr.drop] :=
              hat.right' (by simp [chk]; omega)
            have hJat : At P (pc + 8) (J ++ [Instr.arraySkip, Instr.goto (pc + 8 + J.length + 2 + 1)]) := by
              have e1 : ([Instr.isNull (pc + 8 + J.length + 2 + 2)] ++ chk (pc + 1) (.arr N t) 91 (pc + 8 + J.length + 2 + 2) ++
                  [Instr.save (N != 0), Instr.lspace, Instr.checkChar (pc + 8 + J.length + 2) 93] ++ J ++
                  [Instr.arraySkip, Instr.goto (pc + 8 + J.length + 2 + 1), clr, Instr.drop] : Program) =
                  ([Instr.isNull (pc + 8 + J.length + 2 + 2)] ++ chk (pc + 1) (.arr N t) 91 (pc + 8 + J.length + 2 + 2) ++
                  [Instr.save (N != 0), Instr.lspace, Instr.checkChar (pc + 8 + J.length + 2) 93]) ++ (J ++
                  [Instr.arraySkip, Instr.goto (pc + 8 + J.length + 2 + 1)]) ++ [clr, Instr.drop] := by simp
              have hat2 := e1 ▸ hat
              exact hat2.mid' (by simp [chk])
            refine e_save (h3.get 0 rfl) ?_
            refine e_lspace (h3.get 1 rfl) (c := b) (r := r1) hw ?_
            refine e_checkChar_miss (h3.get 2 rfl) (b := b) (r := r1) rfl h93 ?_
            have hJat' : At P (pc + 8) (arrJoin (tsize t) (pc + 8 + J.length + 2) (arrCodes (fun tb p => one co lib tb p (sp + 1) t) N tab (pc + 8)).1 (([] : List GoVal).length + 1) ++
                [Instr.arraySkip, Instr.goto (pc + 8 + J.length + 2 + 1)]) := by
              simp only [List.length_nil, Nat.zero_add]
              rw [← hJ]; exact hJat
            refine ihe.2.2 lib tab P (sp + 1) (tsize t) (pc + 8 + J.length + 2) N (pc + 8) clr ha hclr [] (by simp) hJat' (htl.get 2 rfl)
              _ σ.vp σ.stack (by rfl) (fun hN => by
                have hNb : (N != 0) = true := by simpa using hN
                simp [hNb]) (by rfl) (by simp only [List.nil_append]; exact hg) R ht ?_
            intro σ' h'i h'r h's h'e
            have hg' : getAt σ'.root σ.vp = some (.arr (vs ++ List.replicate (N - vs.length) (zeroOf t))) := by
              rw [h'r]; simp only [List.nil_append]; exact getAt_setAt_self _ _ _ _ hg
            refine e_drop_arr (htl.get 3 rfl) (p := σ.vp) (k' := 0) (stk := σ.stack) (by rw [h's]) hg' ?_
            have := hend pc (.arr N t) J clr
            rw [show pc + 8 + J.length + 2 + 1 + 1 = pc + 8 + J.length + 2 + 2 from rfl, this]
            refine k _ ⟨h'i, ?_, rfl, ?_⟩
            · simp only; rw [h'r]; simp
            · simp only; rw [h'e]
    | str r0 | obj r0 | lit | other =>
      rw [htk] at h
      simp only at h
      obtain ⟨hsk, hv, he⟩ := skipMismatch_ok h
      simp only [wrapPtr, peel] at hv
      subst hv; subst he
      refine ⟨hwt, ?_⟩
      intro lib tab P pc sp _ hat σ hi hg
      obtain ⟨J, clr, _, _, hsh⟩ := hshape lib tab pc sp
      rw [hcode, hsh] at hat ⊢
      intro R ht k
      refine e_isNull_miss (hat.left.left.left.left.get 0 rfl) (by rw [hi]; exact hn) ?_
      have hchk : At P (pc + 1) (chk (pc + 1) (.arr N t) 91 (pc + 8 + J.length + 2 + 2)) := by
        have := hat.left.left.left.right (a := [Instr.isNull (pc + 8 + J.length + 2 + 2)])
        simpa using this
      have hx := (skipVal_exec hsk).1
      cases hs1 : s with
      | nil => rw [hs1, skipVal_nil] at hsk; cases hsk
      | cons c s' =>
        have hne : c ≠ 91 := tok_ne_arr hs1 (fun r0 h0 => by rw [htk] at h0; cases h0)
        refine e_chk_miss hchk (by rw [hi]; exact hs1) hne (by rw [hi]; exact hx) ?_
        rw [hend pc (.arr N t) J clr]
        exact k _ (by rw [hi]; exact ⟨rfl, (setAt_same _ _ _ hg).symm, rfl, rfl⟩)

end SonicSpec.Dir
