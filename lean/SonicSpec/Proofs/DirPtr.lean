/-
  Decoder IR: compileOne (`lspace` + compileOps) and compilePtr (the walk down the pointers) around the code of a
  non-pointer type.
-/
import SonicSpec.Proofs.DirScalar
namespace SonicSpec.Dir
open SonicSpec SonicSpec.Go SonicSpec.Json SonicSpec.Bind SonicSpec.Stream

variable {o : DecOpts} {co : COpts}

/-- compileOne of a type of the sub-universe: the specification's successful result is what the code does -/
def ValOK (o : DecOpts) (co : COpts) (n : Nat) : Prop :=
  ∀ (T : GoType) (s0 : Bytes) (cur v : GoVal) (e : Option DErr) (r : Bytes),
    Sub T = true → WT T cur = true → decodeVal o n T (skipWs s0) cur = .ok (v, e, r) →
    WT T v = true ∧
    ∀ (lib : LibCode) (tab : Tab) (P : Program) (pc sp : Nat), Above tab T →
      At P pc (one co lib tab pc sp T).1 →
      ∀ σ : St, σ.inp = s0 → getAt σ.root σ.vp = some cur →
      Sim o co P pc (one co lib tab pc sp T).1 σ v e r

/-- compilePtr's walk from a pointer holding `cur0` down to the value of type `t` -/
def DownOK (o : DecOpts) (co : COpts) (n : Nat) (t : GoType) : Prop :=
  ∀ (s : Bytes) (cur0 v : GoVal) (e : Option DErr) (r : Bytes),
    WT (.ptr t) cur0 = true → skipWs s = s → isNullLit s = none →
    decodeVal o n t s (derefCur t cur0) = .ok (v, e, r) →
    WT t v = true ∧
    ∀ (lib : LibCode) (tab : Tab) (P : Program) (pc sp : Nat), Above tab t →
      At P pc (ops co lib true tab pc sp t).1 →
      ∀ σ : St, σ.inp = s → getAt σ.root σ.vp = some cur0 →
      Sim o co P pc (ops co lib true tab pc sp t).1 σ (.ptr v) e r

theorem skipWs_idem (s : Bytes) : skipWs (skipWs s) = skipWs s := by
  induction s with
  | nil => rfl
  | cons c r ih =>
    by_cases h : isSpace c = true
    · simp only [skipWs, h, if_true]; exact ih
    · simp only [skipWs, h, Bool.false_eq_true, if_false]

theorem sim_len {P : Program} {pc : Nat} {c c' : Program} {σ : St} {v : GoVal} {e : Option DErr} {r : Bytes}
    (h : c'.length = c.length) (hs : Sim o co P pc c σ v e r) : Sim o co P pc c' σ v e r := by
  intro R ht k
  rw [h] at k
  exact hs R ht k

/-- `_OP_deref`: behind the pointer (allocated when nil) -/
theorem e_deref {P : Program} {R : Out → Prop} {pc : Nat} {σ : St} {t : GoType} {cur0 : GoVal}
    (hf : P[pc]? = some (.deref t)) (hg : getAt σ.root σ.vp = some cur0) (hwt : WT (.ptr t) cur0 = true)
    (k : ∀ σ1 : St, σ1.inp = σ.inp → σ1.vp = σ.vp ++ [.deref] → σ1.root = setAt σ.root σ.vp (.ptr (derefCur t cur0)) →
      σ1.stack = σ.stack → σ1.et = σ.et → Ends o co none R P (pc + 1) σ1) : Ends o co none R P pc σ := by
  cases cur0 with
  | nil =>
    refine ends_step hf (pc' := pc + 1) (s' := { (σ.put (.ptr (zeroOf t))) with vp := σ.vp ++ [.deref] }) (by simp only [step, hg]) ?_
    exact k _ rfl rfl rfl rfl rfl
  | ptr w =>
    refine ends_step hf (pc' := pc + 1) (s' := { σ with vp := σ.vp ++ [.deref] }) (by simp only [step, hg]) ?_
    exact k _ rfl rfl (setAt_same _ _ _ hg).symm rfl rfl
  | _ => simp [WT] at hwt

theorem getAt_deref {root : GoVal} {p : Path} {c : GoVal} (hg : ∃ x, getAt root p = some x) :
    getAt (setAt root p (.ptr c)) (p ++ [.deref]) = some c := by
  obtain ⟨x, hx⟩ := hg
  rw [getAt_setAt_below root p [.deref] x _ hx]
  rfl

theorem setAt_deref {root : GoVal} {p : Path} {c v : GoVal} (hg : ∃ x, getAt root p = some x) :
    setAt (setAt root p (.ptr c)) (p ++ [.deref]) v = setAt root p (.ptr v) := by
  obtain ⟨x, hx⟩ := hg
  rw [setAt_setAt_below root p [.deref] x _ _ hx]
  rfl

/-- the bottom of the walk: the dereference, `lspace`, the code of the non-pointer type in place -/
theorem down_base (n : Nat) {t : GoType} (hs : Sub t = true) (hnp : notPtr t = true) (hops : OpsOK o co n t) : DownOK o co n t := by
  intro s cur0 v e r hwt hws hn h
  have hwtc : WT t (derefCur t cur0) = true := wt_derefCur hs hwt
  have hb := hops s (derefCur t cur0) v e r hwtc hws h
  refine ⟨hb.1, ?_⟩
  intro lib tab P pc sp ha hat σ hi hg
  rw [ops_down co lib hnp tab pc sp (above_tabHas ha)] at hat ⊢
  simp only at hat ⊢
  intro R ht k
  refine e_deref (hat.get 0 rfl) hg hwt ?_
  intro σ1 h1i h1v h1r h1s h1e
  have hne : s ≠ [] := by
    intro h0; subst h0
    rw [decodeVal_nil o n t hs] at h; cases h
  obtain ⟨c0, s', hs'⟩ : ∃ c0 s', s = c0 :: s' := by
    cases s with
    | nil => exact absurd rfl hne
    | cons c0 s' => exact ⟨c0, s', rfl⟩
  refine e_lspace (hat.get 1 rfl) (c := c0) (r := s') (by rw [h1i, hi, hws, hs']) ?_
  have hg1 : getAt σ1.root σ1.vp = some (derefCur t cur0) := by
    rw [h1r, h1v]; exact getAt_deref ⟨_, hg⟩
  have hle : ∀ U ∈ t :: tab, tsz t ≤ tsz U := by
    intro U hU
    cases hU with
    | head => exact Nat.le_refl _
    | tail _ hU => exact Nat.le_of_lt (ha U hU)
  have hat' : At P (pc + 1 + 1) (ops co lib false (t :: tab) (pc + 2) sp t).1 := hat.tail.tail
  refine hb.2 lib (t :: tab) P (pc + 1 + 1) sp hle hat' { σ1 with inp := c0 :: s' } (by simp only; exact hs'.symm) hg1 R ht ?_
  intro σ' hp
  have : pc + 1 + 1 + (ops co lib false (t :: tab) (pc + 2) sp t).1.length =
      pc + (Instr.deref t :: Instr.lspace :: (ops co lib false (t :: tab) (pc + 2) sp t).1).length := by
    simp only [List.length_cons]; omega
  rw [this]
  refine k σ' ⟨hp.1, ?_, by rw [hp.2.2.1]; exact h1s, by rw [hp.2.2.2]; simp only; rw [h1e]⟩
  rw [hp.2.1]
  simp only
  rw [h1r, h1v]
  exact setAt_deref ⟨_, hg⟩

theorem downOK_of_ops (n : Nat) (hops : ∀ B, Sub B = true → notPtr B = true → OpsOK o co n B) :
    ∀ (t : GoType), Sub t = true → DownOK o co n t
  | .ptr t', hs => by
    simp only [Sub] at hs
    intro s cur0 v e r hwt hws hn h
    cases n with
    | zero => rw [dv_zero] at h; cases h
    | succ n =>
      rw [decodeVal_ptr o n t' hs s _ hn] at h
      cases hd : decodeVal o (n + 1) t' s (derefCur t' (derefCur (.ptr t') cur0)) with
      | error x => rw [hd] at h; cases h
      | ok p =>
        obtain ⟨v', e', r'⟩ := p
        rw [hd] at h
        simp only [wrapRes] at h
        injection h with h; injection h with h1 h2; injection h2 with h2 h3
        subst h1; subst h2; subst h3
        have hwt1 : WT (.ptr t') (derefCur (.ptr t') cur0) = true := wt_derefCur (t := .ptr t') (by simpa [Sub] using hs) hwt
        have ih := downOK_of_ops (n + 1) hops t' hs s (derefCur (.ptr t') cur0) v' e' r' hwt1 hws hn hd
        refine ⟨by simpa [WT] using ih.1, ?_⟩
        intro lib tab P pc sp ha hat σ hi hg
        have hm : marshalerCode (pc + 1) (.ptr t') 0 = none := noMarsh (T := .ptr t') (by simpa [Sub] using hs) _ 0
        have hcode : (ops co lib true tab pc sp (.ptr t')).1 = .deref (.ptr t') :: (ops co lib true tab (pc + 1) sp t').1 := by
          rw [ops]; simp only [hm, if_true]
        rw [hcode] at hat ⊢
        intro R ht k
        refine e_deref (hat.get 0 rfl) hg hwt ?_
        intro σ1 h1i h1v h1r h1s h1e
        have ha' : Above tab t' := fun U hU => by have := ha U hU; simp [tsz] at this; omega
        have hat' : At P (pc + 1) (ops co lib true tab (pc + 1) sp t').1 := hat.tail
        have hg1 : getAt σ1.root σ1.vp = some (derefCur (.ptr t') cur0) := by
          rw [h1r, h1v]; exact getAt_deref ⟨_, hg⟩
        refine ih.2 lib tab P (pc + 1) sp ha' hat' σ1 (by rw [h1i, hi]) hg1 R ht ?_
        intro σ' hp
        have : pc + 1 + (ops co lib true tab (pc + 1) sp t').1.length = pc + (Instr.deref (.ptr t') :: (ops co lib true tab (pc + 1) sp t').1).length := by
          simp only [List.length_cons]; omega
        rw [this]
        refine k σ' ⟨hp.1, ?_, by rw [hp.2.2.1, h1s], by rw [hp.2.2.2, h1e]⟩
        rw [hp.2.1, h1r, h1v]
        exact setAt_deref ⟨_, hg⟩
  | .bool, hs => down_base n hs rfl (hops _ hs rfl)
  | .int w, hs => down_base n hs rfl (hops _ hs rfl)
  | .uint w, hs => down_base n hs rfl (hops _ hs rfl)
  | .str, hs => down_base n hs rfl (hops _ hs rfl)
  | .f32, hs => down_base n hs rfl (hops _ hs rfl)
  | .f64, hs => down_base n hs rfl (hops _ hs rfl)
  | .any, hs => down_base n hs rfl (hops _ hs rfl)
  | .sl t', hs => down_base n hs rfl (hops _ hs rfl)
  | .arr k t', hs => down_base n hs rfl (hops _ hs rfl)
  | .st fs, hs => down_base n hs rfl (hops _ hs rfl)
  | .num, h | .bytes, h | .raw, h | .map _ _, h | .lib _, h => by simp [Sub] at h

theorem one_code {T : GoType} (hs : Sub T = true) (lib : LibCode) {tab : Tab} (ha : Above tab T) (pc sp : Nat) :
    (one co lib tab pc sp T).1 = .lspace :: (ops co lib false (T :: tab) (pc + 1) sp T).1 := by
  unfold one
  rw [wrapOne_sub hs ha]

theorem le_cons_self {tab : Tab} {T : GoType} (ha : Above tab T) : ∀ U ∈ T :: tab, tsz T ≤ tsz U := by
  intro U hU
  cases hU with
  | head => exact Nat.le_refl _
  | tail _ hU => exact Nat.le_of_lt (ha U hU)

/-- compileOne from compileOps -/
theorem valOK_of_ops (n : Nat) (hops : ∀ B, Sub B = true → notPtr B = true → OpsOK o co n B) : ValOK o co n := by
  intro T s0 cur v e r hs hwt h
  have hne : skipWs s0 ≠ [] := by
    intro h0; rw [h0, decodeVal_nil o n T hs] at h; cases h
  obtain ⟨c0, s', hs'⟩ : ∃ c0 s', skipWs s0 = c0 :: s' := by
    cases hq : skipWs s0 with
    | nil => exact absurd hq hne
    | cons c0 s' => exact ⟨c0, s', rfl⟩
  by_cases hnp : notPtr T = true
  · have hb := hops T hs hnp (skipWs s0) cur v e r hwt (skipWs_idem s0) h
    refine ⟨hb.1, ?_⟩
    intro lib tab P pc sp ha hat σ hi hg
    rw [one_code hs lib ha] at hat ⊢
    intro R ht k
    refine e_lspace (hat.get 0 rfl) (c := c0) (r := s') (by rw [hi]; exact hs') ?_
    refine hb.2 lib (T :: tab) P (pc + 1) sp (le_cons_self ha) hat.tail { σ with inp := c0 :: s' } (by simp only; exact hs'.symm) hg R ht ?_
    intro σ' hp
    have : pc + 1 + (ops co lib false (T :: tab) (pc + 1) sp T).1.length =
        pc + (Instr.lspace :: (ops co lib false (T :: tab) (pc + 1) sp T).1).length := by
      simp only [List.length_cons]; omega
    rw [this]
    exact k σ' hp
  · cases T with
    | ptr t =>
      simp only [Sub] at hs
      have hsp : Sub (.ptr t) = true := by simpa [Sub] using hs
      cases n with
      | zero => rw [dv_zero] at h; cases h
      | succ n =>
        cases hn : isNullLit (skipWs s0) with
        | some r0 =>
          rw [dv_null o n _ _ r0 cur hn] at h
          injection h with h; injection h with h1 h2; injection h2 with h2 h3
          subst h1; subst h2; subst h3
          refine ⟨rfl, ?_⟩
          intro lib tab P pc sp ha hat σ hi hg
          rw [one_code hsp lib ha] at hat ⊢
          have hm : marshalerCode (pc + 1 + 1) (.ptr t) 0 = none := noMarsh hsp _ 0
          have hcode : (ops co lib false (.ptr t :: tab) (pc + 1) sp (.ptr t)).1 =
              [.isNull (pc + 1 + 1 + (ops co lib true (.ptr t :: tab) (pc + 1 + 1) sp t).1.length + 1)] ++
                (ops co lib true (.ptr t :: tab) (pc + 1 + 1) sp t).1 ++
                [.goto (pc + 1 + 1 + (ops co lib true (.ptr t :: tab) (pc + 1 + 1) sp t).1.length + 1 + 1), .nil1] := by
            rw [ops]; simp only [hm, Bool.false_eq_true, if_false]
          rw [hcode] at hat ⊢
          intro R ht k
          refine e_lspace (hat.get 0 rfl) (c := c0) (r := s') (by rw [hi]; exact hs') ?_
          refine e_isNull_hit (hat.get 1 rfl) (r := r0) (by simp only; rw [← hs']; exact hn) ?_
          have htl : At P (pc + 1 + 1 + (ops co lib true (.ptr t :: tab) (pc + 1 + 1) sp t).1.length)
              [Instr.goto (pc + 1 + 1 + (ops co lib true (.ptr t :: tab) (pc + 1 + 1) sp t).1.length + 1 + 1), Instr.nil1] :=
            hat.tail.right' (a := [Instr.isNull _] ++ (ops co lib true (.ptr t :: tab) (pc + 1 + 1) sp t).1) (by simp; omega)
          have hnil : P[pc + 1 + 1 + (ops co lib true (.ptr t :: tab) (pc + 1 + 1) sp t).1.length + 1]? = some Instr.nil1 := htl.get 1 rfl
          refine e_nil1 hnil ?_
          have hl : pc + 1 + 1 + (ops co lib true (.ptr t :: tab) (pc + 1 + 1) sp t).1.length + 1 + 1 =
              pc + (Instr.lspace :: ([Instr.isNull (pc + 1 + 1 + (ops co lib true (.ptr t :: tab) (pc + 1 + 1) sp t).1.length + 1)] ++
                (ops co lib true (.ptr t :: tab) (pc + 1 + 1) sp t).1 ++
                [Instr.goto (pc + 1 + 1 + (ops co lib true (.ptr t :: tab) (pc + 1 + 1) sp t).1.length + 1 + 1), Instr.nil1])).length := by
            simp; omega
          rw [hl]
          exact k _ ⟨rfl, rfl, rfl, (merge_none_right' _).symm⟩
        | none =>
          rw [decodeVal_ptr o n t hs _ _ hn] at h
          cases hd : decodeVal o (n + 1) t (skipWs s0) (derefCur t cur) with
          | error x => rw [hd] at h; cases h
          | ok p =>
            obtain ⟨v', e', r'⟩ := p
            rw [hd] at h
            simp only [wrapRes] at h
            injection h with h; injection h with h1 h2; injection h2 with h2 h3
            subst h1; subst h2; subst h3
            have hdown := downOK_of_ops (n + 1) hops t hs (skipWs s0) cur v' e' r' hwt (skipWs_idem s0) hn hd
            refine ⟨by simpa [WT] using hdown.1, ?_⟩
            intro lib tab P pc sp ha hat σ hi hg
            rw [one_code hsp lib ha] at hat ⊢
            have hm : marshalerCode (pc + 1 + 1) (.ptr t) 0 = none := noMarsh hsp _ 0
            have hcode : (ops co lib false (.ptr t :: tab) (pc + 1) sp (.ptr t)).1 =
                [.isNull (pc + 1 + 1 + (ops co lib true (.ptr t :: tab) (pc + 1 + 1) sp t).1.length + 1)] ++
                  (ops co lib true (.ptr t :: tab) (pc + 1 + 1) sp t).1 ++
                  [.goto (pc + 1 + 1 + (ops co lib true (.ptr t :: tab) (pc + 1 + 1) sp t).1.length + 1 + 1), .nil1] := by
              rw [ops]; simp only [hm, Bool.false_eq_true, if_false]
            rw [hcode] at hat ⊢
            intro R ht k
            refine e_lspace (hat.get 0 rfl) (c := c0) (r := s') (by rw [hi]; exact hs') ?_
            refine e_isNull_miss (hat.get 1 rfl) (by simp only; rw [← hs']; exact hn) ?_
            have hat2 : At P (pc + 1 + 1) (ops co lib true (.ptr t :: tab) (pc + 1 + 1) sp t).1 := by
              have := hat.tail
              have := this.mid (a := [Instr.isNull _]) (b := (ops co lib true (.ptr t :: tab) (pc + 1 + 1) sp t).1) (c := [Instr.goto _, Instr.nil1])
              simpa using this
            have ha2 : Above (.ptr t :: tab) t := above_cons ha (by simp [tsz])
            refine hdown.2 lib (.ptr t :: tab) P (pc + 1 + 1) sp ha2 hat2 { σ with inp := c0 :: s' } (by simp only; exact hs'.symm) hg R ht ?_
            intro σ' hp
            have htl : At P (pc + 1 + 1 + (ops co lib true (.ptr t :: tab) (pc + 1 + 1) sp t).1.length)
                [Instr.goto (pc + 1 + 1 + (ops co lib true (.ptr t :: tab) (pc + 1 + 1) sp t).1.length + 1 + 1), Instr.nil1] :=
              hat.tail.right' (a := [Instr.isNull _] ++ (ops co lib true (.ptr t :: tab) (pc + 1 + 1) sp t).1) (by simp; omega)
            have hgoto : P[pc + 1 + 1 + (ops co lib true (.ptr t :: tab) (pc + 1 + 1) sp t).1.length]? =
                some (Instr.goto (pc + 1 + 1 + (ops co lib true (.ptr t :: tab) (pc + 1 + 1) sp t).1.length + 1 + 1)) := htl.get 0 rfl
            refine e_goto hgoto ?_
            have hl : pc + 1 + 1 + (ops co lib true (.ptr t :: tab) (pc + 1 + 1) sp t).1.length + 1 + 1 =
                pc + (Instr.lspace :: ([Instr.isNull (pc + 1 + 1 + (ops co lib true (.ptr t :: tab) (pc + 1 + 1) sp t).1.length + 1)] ++
                  (ops co lib true (.ptr t :: tab) (pc + 1 + 1) sp t).1 ++
                  [Instr.goto (pc + 1 + 1 + (ops co lib true (.ptr t :: tab) (pc + 1 + 1) sp t).1.length + 1 + 1), Instr.nil1])).length := by
              simp; omega
            rw [hl]
            exact k σ' hp
    | lib n => simp [Sub] at hs
    | _ => simp [notPtr] at hnp

end SonicSpec.Dir
