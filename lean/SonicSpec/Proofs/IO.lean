/-
  C17 helper lemmas, part 2: the decoder state operations (`scan`, `slide`, `append`, `finish`,
  `peek`) in terms of the bytes still pending, and the refinement of the repaired decoder to the
  specification.  Core Lean only.
-/
import SonicSpec.Proofs.IOBasic
set_option linter.unusedSimpArgs false
namespace SonicSpec.IO

/-- buffered bytes the decoder has not consumed yet -/
def pending (st : DState) : Bytes := st.buf.drop st.scanp

theorem scan_none (st : DState) : scan st = none ↔ wsLen (pending st) = (pending st).length := by
  unfold scan pending
  cases h : firstNS (List.drop st.scanp st.buf) st.scanp with
  | none => simp [(firstNS_none _ _).mp h]
  | some p =>
    obtain ⟨c, j⟩ := p
    have ⟨_, h2, _⟩ := firstNS_some _ _ _ _ h
    constructor
    · intro h'; cases h'
    · intro h'; omega

theorem scan_some (st : DState) (c : UInt8) (st' : DState) (h : scan st = some (c, st')) :
    st' = { st with scanp := st.scanp + wsLen (pending st) } ∧
    wsLen (pending st) < (pending st).length ∧
    (∃ r, dropWs (pending st) = c :: r) ∧ pending st' = dropWs (pending st) := by
  unfold scan at h
  cases h1 : firstNS (List.drop st.scanp st.buf) st.scanp with
  | none => simp [h1] at h
  | some p =>
    obtain ⟨c', j⟩ := p
    simp only [h1, Option.some.injEq, Prod.mk.injEq] at h
    obtain ⟨rfl, rfl⟩ := h
    have ⟨e1, e2, e3⟩ := firstNS_some _ _ _ _ h1
    subst e1
    refine ⟨rfl, e2, e3, ?_⟩
    simp [pending, dropWs, List.drop_drop]

theorem pending_slide (st : DState) : pending (slide st) = pending st := by
  unfold slide pending
  split <;> simp

theorem slide_scanp (st : DState) : (slide st).scanp = 0 := by
  unfold slide; split
  · rfl
  · rename_i h; simp at h; exact h

theorem slide_err (st : DState) : (slide st).err = st.err := by
  unfold slide; split <;> rfl

theorem slide_offset (st : DState) : (slide st).offset = st.offset := by
  unfold slide DState.offset; split
  · simp
  · rfl

theorem pending_append_slide (st : DState) (d : Bytes) :
    pending (append (slide st) d) = pending st ++ d := by
  have h0 := slide_scanp st
  have hp := pending_slide st
  unfold pending at hp ⊢
  simp only [append, h0, List.drop_zero] at hp ⊢
  rw [hp]

theorem append_slide_scanp (st : DState) (d : Bytes) : (append (slide st) d).scanp = 0 := by
  simp [append, slide_scanp]

theorem append_slide_err (st : DState) (d : Bytes) : (append (slide st) d).err = st.err := by
  simp [append, slide_err]

theorem append_slide_offset (st : DState) (d : Bytes) : (append (slide st) d).offset = st.offset := by
  have := slide_offset st
  simpa [append, DState.offset] using this

/-- `peek` in terms of the bytes that are still to come -/
theorem peek_spec (sc : Script) : ∀ (st : DState) (f : RErr),
    match peek st sc f with
    | (some c, st', sc', f') =>
      st'.err = st.err ∧ pending st' ++ concat sc' = dropWs (pending st ++ concat sc) ∧
      (∃ r, pending st' = c :: r) ∧ termOf sc' f' = termOf sc f ∧ st.offset ≤ st'.offset
    | (none, st', _, _) =>
      dropWs (pending st ++ concat sc) = [] ∧ st'.err = some (termOf sc f).toTerminal := by
  induction sc with
  | nil =>
    intro st f
    unfold peek
    cases hs : scan st with
    | some p =>
      obtain ⟨c, st'⟩ := p
      have ⟨e1, e2, ⟨r, e3⟩, e4⟩ := scan_some st c st' hs
      simp only [concat, List.append_nil, termOf]
      refine ⟨by rw [e1], e4, ⟨r, by rw [e4, e3]⟩, by first | rfl | trivial, ?_⟩
      rw [e1]; simp [DState.offset]
    | none =>
      have := (scan_none st).mp hs
      simp only [concat, List.append_nil, termOf, setErr]
      exact ⟨(dropWs_nil_iff _).mpr this, by first | rfl | trivial⟩
  | cons hd rest ih =>
    intro st f
    obtain ⟨d, oe⟩ := hd
    unfold peek
    cases hs : scan st with
    | some p =>
      obtain ⟨c, st'⟩ := p
      have ⟨e1, e2, ⟨r, e3⟩, e4⟩ := scan_some st c st' hs
      simp only
      refine ⟨by rw [e1], ?_, ⟨r, by rw [e4, e3]⟩, by first | rfl | trivial, ?_⟩
      · rw [e4, dropWs_append_lt _ _ e2]
      · rw [e1]; simp [DState.offset]
    | none =>
      have hws := (scan_none st).mp hs
      cases oe with
      | none =>
        simp only
        have := ih (append (slide st) d) f
        rw [pending_append_slide, append_slide_err, append_slide_offset] at this
        simp only [concat, termOf]
        rw [← List.append_assoc]
        exact this
      | some e =>
        simp only
        cases hs1 : scan (append (slide st) d) with
        | some p =>
          obtain ⟨c, st'⟩ := p
          have ⟨e1, e2, ⟨r, e3⟩, e4⟩ := scan_some _ c st' hs1
          rw [pending_append_slide] at e2 e3 e4
          simp only [concat, List.append_nil, termOf]
          refine ⟨?_, e4, ⟨r, by rw [e4, e3]⟩, trivial, ?_⟩
          · rw [e1]; simp [append_slide_err]
          · rw [e1]; have := append_slide_offset st d; simp [DState.offset] at this ⊢; omega
        | none =>
          have h2 := (scan_none _).mp hs1
          rw [pending_append_slide] at h2
          simp only [concat, termOf, setErr]
          exact ⟨(dropWs_nil_iff _).mpr h2, by first | rfl | trivial⟩


theorem drop_append_buf (st : DState) (d : Bytes) (s : Nat) (hs : s ≤ st.buf.length) :
    (append st d).buf.drop s = st.buf.drop s ++ d := by
  simp [append, List.drop_append_of_le_length hs]

theorem Fixed.atEnd_spec (st : DState) (s : Nat) (isNum : Bool) (e : RErr) :
    match Fixed.atEnd st s isNum e with
    | .ok st2 x sc2 f2 =>
      st2 = st ∧ sc2 = [] ∧ f2 = e ∧ x = (st.buf.drop s).length ∧
      (Fixed.frame (st.buf.drop s) = none → specFrame false isNum e (st.buf.drop s) = some x)
    | .failed st2 sc2 f2 =>
      sc2 = [] ∧ f2 = e ∧ st2.err = some (truncTerm e) ∧
      (Fixed.frame (st.buf.drop s) = none → specFrame false isNum e (st.buf.drop s) = none) := by
  unfold Fixed.atEnd
  cases e with
  | fail c => simp [setErr, truncTerm, specFrame]; intro h; simp [h]
  | eof =>
    cases isNum with
    | true => simp [specFrame]; intro h; simp [h]
    | false => simp [setErr, truncTerm, specFrame]; intro h; simp [h]

/-- the repaired framing loop finds exactly the extent the specification assigns to the next value -/
theorem Fixed.frameLoop_spec (isNum : Bool) (s : Nat) (sc : Script) : ∀ (st : DState) (f : RErr),
    s ≤ st.buf.length →
    match Fixed.frameLoop st s isNum sc f with
    | .ok st2 x sc2 f2 =>
      st2.err = st.err ∧ st2.scanp = st.scanp ∧ st2.scanned = st.scanned ∧ s ≤ st2.buf.length ∧
      st2.buf.drop s ++ concat sc2 = st.buf.drop s ++ concat sc ∧ x ≤ (st2.buf.drop s).length ∧
      termOf sc2 f2 = termOf sc f ∧
      specFrame false isNum (termOf sc f) (st.buf.drop s ++ concat sc) = some x
    | .failed st2 _ _ =>
      st2.err = some (truncTerm (termOf sc f)) ∧
      specFrame false isNum (termOf sc f) (st.buf.drop s ++ concat sc) = none := by
  induction sc with
  | nil =>
    intro st f hs
    unfold Fixed.frameLoop
    cases hf : Fixed.frame (st.buf.drop s) with
    | some x =>
      have ⟨h1, h2, _⟩ := frame_stable _ (concat []) x hf
      simp only [concat, List.append_nil, termOf] at h1 ⊢
      exact ⟨(by first | rfl | trivial), (by first | rfl | trivial), (by first | rfl | trivial), hs, (by first | rfl | trivial), h2, (by first | rfl | trivial), by simp [specFrame, hf]⟩
    | none =>
      simp only [concat, List.append_nil, termOf]
      have := Fixed.atEnd_spec st s isNum f
      cases ha : Fixed.atEnd st s isNum f with
      | ok st2 x sc2 f2 =>
        rw [ha] at this; simp only at this ⊢
        obtain ⟨rfl, rfl, rfl, rfl, h5⟩ := this
        exact ⟨(by first | rfl | trivial), (by first | rfl | trivial), (by first | rfl | trivial), hs, by simp [concat], Nat.le_refl _, (by first | rfl | trivial), h5 hf⟩
      | failed st2 sc2 f2 =>
        rw [ha] at this; simp only at this ⊢
        obtain ⟨rfl, rfl, h3, h4⟩ := this
        exact ⟨h3, h4 hf⟩
  | cons hd rest ih =>
    intro st f hs
    obtain ⟨d, oe⟩ := hd
    unfold Fixed.frameLoop
    cases hf : Fixed.frame (st.buf.drop s) with
    | some x =>
      have ⟨h1, h2, _⟩ := frame_stable _ (concat ((d, oe) :: rest)) x hf
      simp only
      exact ⟨(by first | rfl | trivial), (by first | rfl | trivial), (by first | rfl | trivial), hs, (by first | rfl | trivial), h2, (by first | rfl | trivial), by simp [specFrame, h1]⟩
    | none =>
      cases oe with
      | none =>
        simp only
        have hs' : s ≤ (append st d).buf.length := by simp [append]; omega
        have := ih (append st d) f hs'
        rw [drop_append_buf st d s hs] at this
        simp only [concat, termOf]
        rw [← List.append_assoc]
        exact this
      | some e =>
        simp only
        have hs' : s ≤ (append st d).buf.length := by simp [append]; omega
        have hd := drop_append_buf st d s hs
        simp only [concat, termOf]
        cases hf1 : Fixed.frame ((append st d).buf.drop s) with
        | some x =>
          simp only
          have ⟨h1, h2, _⟩ := frame_stable _ [] x hf1
          rw [hd] at hf1 h2
          exact ⟨(by first | rfl | trivial), (by first | rfl | trivial), (by first | rfl | trivial), hs', by simp [concat, hd], by rw [hd]; exact h2, by simp [termOf], by simp [specFrame, hf1]⟩
        | none =>
          simp only
          have := Fixed.atEnd_spec (append st d) s isNum e
          cases ha : Fixed.atEnd (append st d) s isNum e with
          | ok st2 x sc2 f2 =>
            rw [ha] at this; simp only at this ⊢
            obtain ⟨rfl, rfl, rfl, rfl, h5⟩ := this
            have := h5 hf1
            rw [hd] at this
            exact ⟨(by first | rfl | trivial), (by first | rfl | trivial), (by first | rfl | trivial), hs', by simp [concat, hd], Nat.le_refl _, by simp [termOf], by rw [hd]; exact this⟩
          | failed st2 sc2 f2 =>
            rw [ha] at this; simp only at this ⊢
            obtain ⟨rfl, rfl, h3, h4⟩ := this
            have := h4 hf1
            rw [hd] at this
            exact ⟨h3, this⟩



theorem finish_spec (st : DState) (X : Bytes) :
    (finish st).scanp = 0 ∧ (finish st).err = st.err ∧
    dropWs ((finish st).buf ++ X) = dropWs (pending st ++ X) ∧ st.offset ≤ (finish st).offset := by
  unfold finish
  cases hs : scan st with
  | none =>
    have h := (scan_none st).mp hs
    simp only [List.nil_append]
    refine ⟨by first | rfl | trivial, by first | rfl | trivial, ?_, ?_⟩
    · rw [dropWs_append_all _ _ h]
    · simp [DState.offset]
  | some p =>
    obtain ⟨c, st'⟩ := p
    have ⟨e1, e2, ⟨r, e3⟩, e4⟩ := scan_some st c st' hs
    simp only
    refine ⟨by first | rfl | trivial, by rw [e1], ?_, ?_⟩
    · have : st'.buf.drop st'.scanp = pending st' := rfl
      rw [this, e4, dropWs_append_lt _ _ e2, e3]
      have hc := dropWs_head _ _ _ e3
      simp only [List.cons_append]
      rw [dropWs_of_head _ _ hc]
    · rw [e1]; simp [DState.offset]

section generic
variable {V : Type} (dec : Bytes → Option (V × Nat))

/-- one `Decode` of the repaired decoder is one step of the specification -/
theorem Fixed.decode_spec (st : DState) (sc : Script) (f : RErr) (h0 : st.scanp = 0) (he : st.err = none) :
    match specStep dec false (termOf sc f) (st.buf ++ concat sc) with
    | .done t => ∃ st' sc' f', Fixed.decode dec st sc f = (.error t, st', sc', f')
    | .val v rest => ∃ st' sc' f', Fixed.decode dec st sc f = (.value v, st', sc', f') ∧
        st'.scanp = 0 ∧ st'.err = none ∧ dropWs (st'.buf ++ concat sc') = dropWs rest ∧
        termOf sc' f' = termOf sc f ∧ st.offset < st'.offset := by
  have hp := peek_spec sc st f
  have hpend : pending st = st.buf := by simp [pending, h0]
  rw [hpend] at hp
  unfold Fixed.decode specStep
  rw [he]
  simp only
  rcases hpk : peek st sc f with ⟨oc, st1, sc1, f1⟩
  rw [hpk] at hp
  cases oc with
  | none =>
    simp only at hp ⊢
    obtain ⟨h1, h2⟩ := hp
    rw [h1, h2]
    simp [specStepCore]
  | some c =>
    simp only at hp ⊢
    obtain ⟨h1, h2, ⟨r, h3⟩, h4, h5⟩ := hp
    rw [← h2, h3]
    simp only [List.cons_append, specStepCore]
    by_cases hk : Fixed.kindOf c = .invalid
    · simp [hk]
    · simp only [hk, if_false]
      have hs : st1.scanp ≤ st1.buf.length := by
        have : (pending st1).length = st1.buf.length - st1.scanp := by simp [pending]
        rw [h3] at this; simp at this; omega
      have hfl := Fixed.frameLoop_spec (Fixed.kindOf c == .number) st1.scanp sc1 st1 f1 hs
      have hpd : st1.buf.drop st1.scanp = c :: r := h3
      rw [hpd, h4] at hfl
      simp only [List.cons_append] at hfl
      cases hfr : Fixed.frameLoop st1 st1.scanp (Fixed.kindOf c == .number) sc1 f1 with
      | failed st2 sc2 f2 =>
        rw [hfr] at hfl; simp only at hfl ⊢
        obtain ⟨g1, g2⟩ := hfl
        rw [g2, g1]
        simp
      | ok st2 x sc2 f2 =>
        rw [hfr] at hfl; simp only at hfl ⊢
        obtain ⟨g1, g2, g3, g4, g5, g6, g7, g8⟩ := hfl
        rw [g8]
        simp only
        have htake : (c :: (r ++ concat sc1)).take x = (st2.buf.drop st1.scanp).take x := by
          rw [← g5, List.take_append_of_le_length g6]
        rw [htake]
        cases hd : dec ((st2.buf.drop st1.scanp).take x) with
        | none => simp
        | some p =>
          obtain ⟨v, n⟩ := p
          simp only
          by_cases hg : n = 0 ∨ x < n
          · simp [hg]
          · simp only [hg, if_false]
            have hn : 0 < n ∧ n ≤ x := by omega
            refine ⟨_, _, _, rfl, ?_⟩
            have hfin := finish_spec { st2 with scanp := st1.scanp + n } (concat sc2)
            obtain ⟨q1, q2, q3, q4⟩ := hfin
            refine ⟨q1, by rw [q2]; simp [g1, h1, he], ?_, by rw [g7], ?_⟩
            · rw [q3]
              have : pending { st2 with scanp := st1.scanp + n } = (st2.buf.drop st1.scanp).drop n := by
                simp [pending, List.drop_drop]
              rw [this, ← g5, List.drop_append_of_le_length (by omega)]
            · simp [DState.offset] at q4 h5 ⊢
              omega

end generic

section generic
variable {V : Type} (dec : Bytes → Option (V × Nat))

theorem specStep_congr (l : Bool) (t : RErr) (a b : Bytes) (h : dropWs a = dropWs b) :
    specStep dec l t a = specStep dec l t b := by
  unfold specStep; rw [h]

theorem dropWs_length_le (d : Bytes) : (dropWs d).length ≤ d.length := by
  simp [dropWs]

/-- a step that yields a value consumes at least one byte -/
theorem specStepCore_val (l : Bool) (t : RErr) (rest0 : Bytes) (v : V) (rest : Bytes)
    (h : specStepCore dec l t rest0 = .val v rest) : rest.length < rest0.length := by
  unfold specStepCore at h
  cases rest0 with
  | nil => simp at h
  | cons c r =>
    simp only at h
    split at h
    · simp at h
    · split at h
      · simp at h
      · split at h
        · simp at h
        · rename_i x _ v' m _
          split at h
          · simp at h
          · rename_i hg
            simp only [SpecStep.val.injEq] at h
            obtain ⟨_, rfl⟩ := h
            simp only [List.length_drop, List.length_cons]
            omega

theorem decodeAllFuel_ne_more (l : Bool) (t : RErr) (n : Nat) : ∀ data : Bytes,
    (dropWs data).length < n → (decodeAllFuel dec l t n data).2 ≠ .more := by
  induction n with
  | zero => intro data h; omega
  | succ n ih =>
    intro data h
    unfold decodeAllFuel
    cases hs : specStep dec l t data with
    | done t' => simp
    | val v rest =>
      simp only
      have := specStepCore_val dec l t (dropWs data) v rest hs
      have := dropWs_length_le rest
      exact ih rest (by omega)

theorem Fixed.run_eq (n : Nat) : ∀ (st : DState) (sc : Script) (f : RErr) (data : Bytes),
    st.scanp = 0 → st.err = none → dropWs (st.buf ++ concat sc) = dropWs data →
    run (Fixed.decode dec) n st sc f = decodeAllFuel dec false (termOf sc f) n data := by
  induction n with
  | zero => intro st sc f data _ _ _; rfl
  | succ n ih =>
    intro st sc f data h0 he hd
    unfold run decodeAllFuel
    rw [← specStep_congr dec false (termOf sc f) _ _ hd]
    have := Fixed.decode_spec dec st sc f h0 he
    cases hs : specStep dec false (termOf sc f) (st.buf ++ concat sc) with
    | done t =>
      rw [hs] at this; simp only at this
      obtain ⟨st', sc', f', heq⟩ := this
      rw [heq]
    | val v rest =>
      rw [hs] at this; simp only at this
      obtain ⟨st', sc', f', heq, q1, q2, q3, q4, _⟩ := this
      rw [heq]
      simp only
      rw [ih st' sc' f' rest q1 q2 q3, q4]

/-- the repaired decoder computes the specification, whatever the chunking -/
theorem Fixed.outputs_eq (sc : Script) (f : RErr) :
    Fixed.outputs dec sc f = decodeAllStop dec (concat sc) (termOf sc f) := by
  unfold Fixed.outputs decodeAllStop
  exact Fixed.run_eq dec _ {} sc f (concat sc) rfl rfl (by simp)

end generic

section generic
variable {V : Type} (dec : Bytes → Option (V × Nat))

theorem truncTerm_ne_eof (t : RErr) : truncTerm t ≠ .eof := by cases t <;> simp [truncTerm]

/-- the specification ends a stream cleanly only at its real end -/
theorem specStepCore_done_eof (l : Bool) (t : RErr) (rest : Bytes)
    (h : specStepCore dec l t rest = .done .eof) : rest = [] ∧ t = .eof := by
  unfold specStepCore at h
  cases rest with
  | nil =>
    simp only [SpecStep.done.injEq] at h
    cases t <;> simp [RErr.toTerminal] at h ⊢
  | cons c r =>
    simp only at h
    split at h
    · simp at h
    · split at h
      · simp only [SpecStep.done.injEq] at h; exact absurd h (truncTerm_ne_eof t)
      · split at h
        · simp at h
        · split at h <;> simp at h

theorem specStepCore_done_fail (l : Bool) (c : Nat) (rest : Bytes) (t' : Terminal)
    (h : specStepCore dec l (.fail c) rest = .done t') :
    (t' = .readerErr c ∨ t' = .syntaxError) ∧ (rest = [] → t' = .readerErr c) := by
  unfold specStepCore at h
  cases rest with
  | nil =>
    simp only [SpecStep.done.injEq, RErr.toTerminal] at h
    subst h; simp
  | cons a r =>
    simp only at h
    split at h
    · simp at h; subst h; simp
    · split at h
      · simp only [SpecStep.done.injEq, truncTerm] at h; subst h; simp
      · split at h
        · simp at h; subst h; simp
        · split at h
          · simp at h; subst h; simp
          · simp at h

theorem decodeAllFuel_eof (l : Bool) (t : RErr) (n : Nat) : ∀ (data : Bytes) (vs : List V),
    decodeAllFuel dec l t n data = (vs, .term .eof) →
    t = .eof ∧ dropWs (specRemainder dec l t n data) = [] := by
  induction n with
  | zero => intro data vs h; simp [decodeAllFuel] at h
  | succ n ih =>
    intro data vs h
    unfold decodeAllFuel at h
    unfold specRemainder
    cases hs : specStep dec l t data with
    | done t' =>
      rw [hs] at h; simp only [Prod.mk.injEq, Stop.term.injEq] at h
      obtain ⟨_, rfl⟩ := h
      have := specStepCore_done_eof dec l t (dropWs data) hs
      exact ⟨this.2, this.1⟩
    | val v rest =>
      rw [hs] at h; simp only at h
      cases hr : decodeAllFuel dec l t n rest with
      | mk vs' s' =>
        rw [hr] at h; simp only [Prod.mk.injEq] at h
        obtain ⟨_, rfl⟩ := h
        exact ih rest vs' hr

theorem decodeAllFuel_fail (l : Bool) (c : Nat) (n : Nat) : ∀ (data : Bytes) (vs : List V) (s : Stop),
    decodeAllFuel dec l (.fail c) n data = (vs, s) →
    (s = .more ∨ s = .term (.readerErr c) ∨ s = .term .syntaxError) ∧
    (dropWs (specRemainder dec l (.fail c) n data) = [] → s = .more ∨ s = .term (.readerErr c)) := by
  induction n with
  | zero => intro data vs s h; simp [decodeAllFuel] at h; simp [h.2]
  | succ n ih =>
    intro data vs s h
    unfold decodeAllFuel at h
    unfold specRemainder
    cases hs : specStep dec l (.fail c) data with
    | done t' =>
      rw [hs] at h; simp only [Prod.mk.injEq] at h
      obtain ⟨_, rfl⟩ := h
      have ⟨h1, h2⟩ := specStepCore_done_fail dec l c (dropWs data) t' hs
      simp only
      constructor
      · rcases h1 with rfl | rfl <;> simp
      · intro he; right; rw [h2 he]
    | val v rest =>
      rw [hs] at h; simp only at h
      cases hr : decodeAllFuel dec l (.fail c) n rest with
      | mk vs' s' =>
        rw [hr] at h; simp only [Prod.mk.injEq] at h
        obtain ⟨_, rfl⟩ := h
        exact ih rest vs' s' hr

theorem specRemainder_suffix (l : Bool) (t : RErr) (n : Nat) : ∀ data : Bytes,
    specRemainder dec l t n data <:+ data := by
  induction n with
  | zero => intro data; exact List.suffix_refl _
  | succ n ih =>
    intro data
    unfold specRemainder
    cases hs : specStep dec l t data with
    | done t' => exact List.suffix_refl _
    | val v rest =>
      simp only
      refine List.IsSuffix.trans (ih rest) ?_
      -- rest is a suffix of dropWs data, which is a suffix of data
      have h1 : rest <:+ dropWs data := by
        unfold specStep specStepCore at hs
        cases hd : dropWs data with
        | nil => rw [hd] at hs; simp at hs
        | cons a r =>
          rw [hd] at hs; simp only at hs
          split at hs
          · simp at hs
          · split at hs
            · simp at hs
            · split at hs
              · simp at hs
              · split at hs
                · simp at hs
                · simp only [SpecStep.val.injEq] at hs
                  obtain ⟨_, rfl⟩ := hs
                  exact List.drop_suffix _ _
      exact List.IsSuffix.trans h1 (List.drop_suffix _ _)

/-- `Decode` of the repaired decoder on a state between two calls: never "nothing", and a value
    means the input offset moved forward -/
theorem Fixed.decode_progress_aux (st : DState) (sc : Script) (f : RErr) (h0 : st.scanp = 0) :
    (∀ st' sc' f', Fixed.decode dec st sc f ≠ (.nothing, st', sc', f')) ∧
    (∀ v st' sc' f', Fixed.decode dec st sc f = (.value v, st', sc', f') →
      st.offset < st'.offset ∧ st'.scanp = 0) := by
  cases he : st.err with
  | some t =>
    unfold Fixed.decode; rw [he]; simp
  | none =>
    have := Fixed.decode_spec dec st sc f h0 he
    cases hs : specStep dec false (termOf sc f) (st.buf ++ concat sc) with
    | done t =>
      rw [hs] at this; simp only at this
      obtain ⟨st1, sc1, f1, heq⟩ := this
      rw [heq]; simp
    | val v rest =>
      rw [hs] at this; simp only at this
      obtain ⟨st1, sc1, f1, heq, q1, _, _, _, q5⟩ := this
      rw [heq]; simp
      intro v' st' sc' f' _ h2 _ _
      subst h2
      exact ⟨q5, q1⟩

end generic


theorem skipOneFast_ok_pos (src : Bytes) (y x : Nat) (h : skipOneFast src = .ok y x) : y < x := by
  unfold skipOneFast at h
  simp only at h
  split at h
  · simp at h
  · repeat' split at h
    all_goals (first | (simp only [SkipRes.ok.injEq] at h; omega) | simp at h)

/-- what the shipped `try_skip` loop guarantees about its outcome -/
def Faithful.LoopOk (st0 : DState) (T : Terminal) : Faithful.Framed → Prop
  | .ok st2 y x _ _ => st2.scanned = st0.scanned ∧ st2.err = st0.err ∧ y < x
  | .failed st2 _ _ => st2.err = some T

theorem Faithful.LoopOk_mono (st0 st1 : DState) (T : Terminal) (r : Faithful.Framed)
    (h1 : st1.scanned = st0.scanned) (h2 : st1.err = st0.err) (h : Faithful.LoopOk st1 T r) :
    Faithful.LoopOk st0 T r := by
  cases r with
  | ok st2 y x sc f => simp only [Faithful.LoopOk] at h ⊢; rw [← h1, ← h2]; exact h
  | failed st2 sc f => exact h

/-- the shipped `try_skip` loop: it never touches `scanned`, a frame is never empty, and when it
    gives up the recorded error is the reader's own terminal error - never a syntax error -/
theorem Faithful.frameLoop_spec (s : Nat) (sc : Script) : ∀ (st : DState) (reskip : Bool) (f : RErr),
    Faithful.LoopOk st (termOf sc f).toTerminal (Faithful.frameLoop st s reskip sc f) := by
  induction sc with
  | nil =>
    intro st reskip f
    unfold Faithful.frameLoop
    split
    · rename_i y x hsk
      cases reskip with
      | true => simp only [if_true] at hsk; exact ⟨rfl, rfl, skipOneFast_ok_pos _ _ _ hsk⟩
      | false => simp at hsk
    · simp [Faithful.LoopOk, setErr, termOf]
  | cons hd rest ih =>
    intro st reskip f
    obtain ⟨d, oe⟩ := hd
    unfold Faithful.frameLoop
    split
    · rename_i y x hsk
      cases reskip with
      | true => simp only [if_true] at hsk; exact ⟨rfl, rfl, skipOneFast_ok_pos _ _ _ hsk⟩
      | false => simp at hsk
    · cases oe with
      | none =>
        simp only [termOf]
        split
        · rename_i c st2 hs
          have ⟨e1, _⟩ := scan_some _ c st2 hs
          refine Faithful.LoopOk_mono st st2 _ _ ?_ ?_ (ih st2 true f)
          · rw [e1]; simp [append]
          · rw [e1]; simp [append]
        · exact Faithful.LoopOk_mono st _ _ _ (by simp [append]) (by simp [append]) (ih _ false f)
      | some e =>
        simp only [termOf]
        split
        · rename_i c st2 hs
          have ⟨e1, _⟩ := scan_some _ c st2 hs
          split
          · rename_i y x hsk
            refine ⟨?_, ?_, skipOneFast_ok_pos _ _ _ hsk⟩
            · rw [e1]; simp [append]
            · rw [e1]; simp [append]
          · simp [Faithful.LoopOk, setErr]
        · simp [Faithful.LoopOk, setErr]

section generic
variable {V : Type} (dec : Bytes → Option (V × Nat))

/-- partial `decode_progress` for the shipped decoder: a call that returns a VALUE moved the
    input offset forward (what fails is the call that returns nil without a value) -/
theorem Faithful.decode_value_progress (st : DState) (sc : Script) (f : RErr) (v : V)
    (st' : DState) (sc' : Script) (f' : RErr)
    (h : Faithful.decode dec st sc f = (.value v, st', sc', f')) : st.offset < st'.offset := by
  unfold Faithful.decode at h
  cases he : st.err with
  | some t => rw [he] at h; simp at h
  | none =>
    rw [he] at h; simp only at h
    have hp := peek_spec sc st f
    rcases hpk : peek st sc f with ⟨oc, st1, sc1, f1⟩
    rw [hpk] at hp h
    cases oc with
    | none => simp only at h; split at h <;> simp at h
    | some c =>
      simp only at hp h
      obtain ⟨_, _, _, _, h5⟩ := hp
      split at h
      · simp at h
      · have hfl := Faithful.frameLoop_spec st1.scanp sc1 st1 true f1
        cases hfr : Faithful.frameLoop st1 st1.scanp true sc1 f1 with
        | failed st2 sc2 f2 => rw [hfr] at h; simp only at h; split at h <;> simp at h
        | ok st2 y x sc2 f2 =>
          rw [hfr] at hfl h; simp only at hfl h
          obtain ⟨g1, _, g3⟩ := hfl
          split at h
          · simp at h
          · simp only [Prod.mk.injEq, DecodeRes.value.injEq] at h
            obtain ⟨_, rfl, _, _⟩ := h
            have hfin := finish_spec { st2 with scanp := x + (y + st1.scanp) } []
            obtain ⟨_, _, _, q4⟩ := hfin
            simp [DState.offset] at q4 h5 ⊢
            omega

end generic

end SonicSpec.IO
