/-
  C16 - the invariant is preserved by every step of every schedule; consequences.
-/
import SonicSpec.Proofs.RWLock
namespace SonicSpec.RW

variable {pf : Bool}

theorem ThOK.congr_local {i : Nat} {sh : Sh} {th th' : Th} {a : Abs} (h : ThOK i sh th a)
    (h1 : th'.tv = th.tv) (h2 : th'.lg = th.lg) (h3 : th'.pg = th.pg) (h4 : th'.mv = th.mv)
    (h5 : th'.lockv = th.lockv) (h6 : th'.hb = th.hb) (h7 : th'.fault = th.fault) : ThOK i sh th' a :=
  { hW := h.hW, hR := h.hR, lkHeld := h.lkHeld, wlw := h.wlw, wlH := h.wlH, wpH := h.wpH, wcH := h.wcH,
    nofault := (by rw [h7]; exact h.nofault), mread := (by rw [h4]; exact h.mread), tvok := (by rw [h1]; exact h.tvok),
    lv := (by rw [h5]; exact h.lv),
    know := h.know.transfer rfl (fun x => x) rfl rfl rfl h1 (by rw [h6]; exact fun x hx => hx),
    view := viewOK_congr h.view h1 h2 h3 }

theorem ThOK.refine_k {i : Nat} {sh : Sh} {th : Th} {a : Abs} {k' : Know} (h : ThOK i sh th a)
    (hk : KnowOK sh th { a with k := k' }) : ThOK i sh th { a with k := k' } :=
  { hW := h.hW, hR := h.hR, lkHeld := h.lkHeld, wlw := h.wlw, wlH := h.wlH, wpH := h.wpH, wcH := h.wcH,
    nofault := h.nofault, mread := h.mread, lv := h.lv, know := hk, view := h.view, tvok := h.tvok }

/-- one operation -/
theorem inv_execOp {s : State} {i : Nat} {th : Th} {a a' : Abs} {o : Op} {K : Prog}
    (hI : Inv pf s) (hth : s.ths[i]? = some th) (hok : ThOK i s.sh th a)
    (habs : absOp a o = some a') (hK : safe pf a' K = true) :
    Inv pf ⟨(execOp i s.sh th o K).1, s.ths.set i (execOp i s.sh th o K).2⟩ := by
  have hG := hI.1
  cases o with
  | loadT => exact inv_loadT hI hth hok habs hK
  | storeT =>
    simp only [absOp] at habs
    split at habs
    next hc =>
      cases habs
      simp only [Bool.and_eq_true] at hc
      exact inv_storeT hI hth hok hc.1.1 hc.1.2 hc.2 hK
    next => cases habs
  | readT =>
    simp only [absOp] at habs
    split at habs
    next hc =>
      cases habs
      simp only [execOp]
      exact inv_plain_read (f := .t) (th' := { th with prog := K, hb := (mkAcc i .t false false s.sh).id :: th.hb }) hI hth hok hc hK rfl rfl rfl rfl rfl (viewOK_congr hok.view rfl rfl rfl)
    next => cases habs
  | readL =>
    simp only [absOp] at habs
    split at habs
    next hc =>
      cases habs
      simp only [execOp]
      apply inv_plain_read (f := .l) (th' := { th with prog := K, lg := some s.sh.l, hb := (mkAcc i .l false false s.sh).id :: th.hb }) hI hth hok hc hK rfl rfl rfl rfl rfl
      obtain ⟨v, g, htv, hl, _⟩ := read_vals hG hok hc
      obtain ⟨_, h2, h3, h4⟩ := viewOK_inv hok.view htv
      exact viewOK_of (v := v) (g := g) htv (Or.inr (by simp [hl])) h2 h3 h4
    next => cases habs
  | readP =>
    simp only [absOp] at habs
    split at habs
    next hc =>
      cases habs
      simp only [execOp]
      apply inv_plain_read (f := .p) (th' := { th with prog := K, pg := some s.sh.p, hb := (mkAcc i .p false false s.sh).id :: th.hb }) hI hth hok hc hK rfl rfl rfl rfl rfl
      obtain ⟨v, g, htv, _, hp⟩ := read_vals hG hok hc
      obtain ⟨h1, _, h3, h4⟩ := viewOK_inv hok.view htv
      exact viewOK_of (v := v) (g := g) htv h1 (Or.inr (by simp [hp])) h3 h4
    next => cases habs
  | readM =>
    simp only [absOp] at habs
    cases habs
    exact inv_readM hI hth hok hK
  | readC =>
    simp only [absOp] at habs
    split at habs
    next hc =>
      cases habs
      simp only [execOp]
      exact inv_plain_read (f := .c) (th' := { th with prog := K, hb := (mkAcc i .c false false s.sh).id :: th.hb }) hI hth hok hc hK rfl rfl rfl rfl rfl (viewOK_congr hok.view rfl rfl rfl)
    next => cases habs
  | writeC =>
    simp only [absOp] at habs
    split at habs
    next hc =>
      cases habs
      exact inv_writeC hI hth hok hc hK
    next => cases habs
  | writeL =>
    simp only [absOp] at habs
    split at habs
    next hc =>
      cases habs
      simp only [Bool.and_eq_true, Bool.not_eq_true'] at hc
      exact inv_writeL hI hth hok hc.1 hc.2 hK
    next => cases habs
  | writeP =>
    simp only [absOp] at habs
    split at habs
    next hc =>
      cases habs
      simp only [Bool.and_eq_true, Bool.not_eq_true'] at hc
      exact inv_writeP hI hth hok hc.1 hc.2 hK
    next => cases habs
  | writeAll => simp only [absOp] at habs; cases habs
  | acqW =>
    simp only [absOp] at habs
    split at habs
    next hc =>
      cases habs
      simp only [Bool.and_eq_true, Bool.not_eq_true'] at hc
      exact inv_acqW hI hth hok hc.1 hc.2 hK
    next => cases habs
  | acqR =>
    simp only [absOp] at habs
    split at habs
    next hc =>
      cases habs
      simp only [Bool.and_eq_true, Bool.not_eq_true'] at hc
      exact inv_acqR hI hth hok hc.1 hc.2 hK
    next => cases habs
  | relW =>
    simp only [absOp] at habs
    split at habs
    next hc =>
      cases habs
      simp only [Bool.and_eq_true, Bool.not_eq_true'] at hc
      exact inv_relW hI hth hok hc.1.1.1 hc.1.1.2 hc.1.2 hc.2 hK
    next => cases habs
  | relR =>
    simp only [absOp] at habs
    split at habs
    next hc =>
      cases habs
      exact inv_relR hI hth hok hc hK
    next => cases habs
  | setLockVar =>
    simp only [absOp] at habs
    cases habs
    exact inv_setLockVar hI hth hok hK

/-- a thread-local step that only changes `prog`/`orc` and possibly refines the abstract state -/
theorem inv_local {s : State} {i : Nat} {th : Th} {a' : Abs} {P : Prog} {orc : List Bool}
    (hI : Inv pf s) (hth : s.ths[i]? = some th) (hok : ThOK i s.sh th a') (hs : safe pf a' P = true) :
    Inv pf ⟨s.sh, s.ths.set i { th with prog := P, orc := orc }⟩ := by
  apply inv_update hI hth
  · exact glob_local hI.1 hth rfl
  · exact ⟨a', hs, hok.congr_local rfl rfl rfl rfl rfl rfl rfl⟩
  · intro j thj aj _ _ h; exact h

theorem know_cases {sh : Sh} {th : Th} {a : Abs} (h : KnowOK sh th a) (hk : a.k ≠ .none) :
    ∃ v g, th.tv = some (v, g) := by
  unfold KnowOK at h
  cases hka : a.k <;> rw [hka] at h <;> simp only at h
  · exact absurd hka hk
  · obtain ⟨v, g, h1, _⟩ := h; exact ⟨v, g, h1⟩
  · obtain ⟨g, h1, _⟩ := h; exact ⟨_, g, h1⟩
  · obtain ⟨v, g, h1, _⟩ := h; exact ⟨v, g, h1⟩

/-- refinement of the abstract knowledge by a test on the loaded type word:
    if the test says "not raw" (`nr`), the thread knows non-raw; otherwise nothing changes -/
theorem refine_nonraw {i : Nat} {sh : Sh} {th : Th} {a : Abs} {v : TV} {g : Nat}
    (hok : ThOK i sh th a) (htv : th.tv = some (v, g)) (hv : v ≠ .raw) (hk : a.k = .unk ∨ a.k = .nonraw) :
    ThOK i sh th { a with k := .nonraw } := by
  apply hok.refine_k
  have h := hok.know
  unfold KnowOK at h ⊢
  simp only
  rcases hk with hk | hk <;> rw [hk] at h <;> simp only at h
  · obtain ⟨v', g', h1, _, h3⟩ := h
    rw [htv] at h1; injection h1 with h1; injection h1 with e1 e2
    subst e1; subst e2
    exact ⟨v, g, htv, hv, h3 hv⟩
  · exact h

theorem inv_br_true {s : State} {i : Nat} {th : Th} {a' : Abs} {c : Cond} {x y : Prog}
    (hI : Inv pf s) (hth : s.ths[i]? = some th) (he : (evalCond pf th c).1 = true)
    (hok : ThOK i s.sh th a') (hs : safe pf a' x = true) :
    Inv pf ⟨s.sh, s.ths.set i { th with prog := if (evalCond pf th c).1 then x else y,
                                         orc := (evalCond pf th c).2 }⟩ := by
  rw [he]; simp only [if_true]; exact inv_local hI hth hok hs

theorem inv_br_false {s : State} {i : Nat} {th : Th} {a' : Abs} {c : Cond} {x y : Prog}
    (hI : Inv pf s) (hth : s.ths[i]? = some th) (he : (evalCond pf th c).1 = false)
    (hok : ThOK i s.sh th a') (hs : safe pf a' y = true) :
    Inv pf ⟨s.sh, s.ths.set i { th with prog := if (evalCond pf th c).1 then x else y,
                                         orc := (evalCond pf th c).2 }⟩ := by
  rw [he]; simp only [Bool.false_eq_true, if_false]; exact inv_local hI hth hok hs

theorem inv_br_both {s : State} {i : Nat} {th : Th} {a : Abs} {c : Cond} {x y : Prog}
    (hI : Inv pf s) (hth : s.ths[i]? = some th) (hok : ThOK i s.sh th a)
    (hx : safe pf a x = true) (hy : safe pf a y = true) :
    Inv pf ⟨s.sh, s.ths.set i { th with prog := if (evalCond pf th c).1 then x else y,
                                         orc := (evalCond pf th c).2 }⟩ := by
  rcases Bool.eq_false_or_eq_true (evalCond pf th c).1 with he | he
  · exact inv_br_true hI hth he hok hx
  · exact inv_br_false hI hth he hok hy

theorem inv_br {s : State} {i : Nat} {th : Th} {a : Abs} {c : Cond} {x y : Prog}
    (hI : Inv pf s) (hth : s.ths[i]? = some th) (hok : ThOK i s.sh th a)
    (hs : safe pf a (.br c x y) = true) :
    Inv pf ⟨s.sh, s.ths.set i { th with prog := if (evalCond pf th c).1 then x else y,
                                         orc := (evalCond pf th c).2 }⟩ := by
  cases c with
  | raw =>
    simp only [safe] at hs
    have hkn := hok.know
    unfold KnowOK at hkn
    cases hka : a.k <;> rw [hka] at hs hkn <;> simp only at hs hkn
    · cases hs
    · obtain ⟨v, g, h1, h2, h3⟩ := hkn
      simp only [Bool.and_eq_true] at hs
      cases v
      · -- raw
        apply inv_br_true hI hth (by simp [evalCond, h1]) (a' := { a with k := .raw }) _ hs.1
        apply hok.refine_k
        unfold KnowOK
        exact ⟨g, h1, h2 rfl⟩
      · exact inv_br_false hI hth (by simp [evalCond, h1]) (refine_nonraw hok h1 (by decide) (Or.inl hka)) hs.2
      · exact inv_br_false hI hth (by simp [evalCond, h1]) (refine_nonraw hok h1 (by decide) (Or.inl hka)) hs.2
    · obtain ⟨g, h1, _⟩ := hkn
      exact inv_br_true hI hth (by simp [evalCond, h1]) hok hs
    · obtain ⟨v, g, h1, h2, _⟩ := hkn
      cases v
      · exact absurd rfl h2
      · exact inv_br_false hI hth (by simp [evalCond, h1]) hok hs
      · exact inv_br_false hI hth (by simp [evalCond, h1]) hok hs
  | tErr =>
    simp only [safe] at hs
    have hkn := hok.know
    unfold KnowOK at hkn
    cases hka : a.k <;> rw [hka] at hs hkn <;> simp only at hs hkn
    · cases hs
    · obtain ⟨v, g, h1, h2, h3⟩ := hkn
      simp only [Bool.and_eq_true] at hs
      cases v
      · exact inv_br_false hI hth (by simp [evalCond, h1]) hok hs.2
      · exact inv_br_false hI hth (by simp [evalCond, h1]) hok hs.2
      · exact inv_br_true hI hth (by simp [evalCond, h1]) (refine_nonraw hok h1 (by decide) (Or.inl hka)) hs.1
    · obtain ⟨g, h1, _⟩ := hkn
      exact inv_br_false hI hth (by simp [evalCond, h1]) hok hs
    · simp only [Bool.and_eq_true] at hs
      exact inv_br_both hI hth hok hs.1 hs.2
  | tAny =>
    simp only [safe] at hs
    have hkn := hok.know
    unfold KnowOK at hkn
    cases hka : a.k <;> rw [hka] at hs hkn <;> simp only at hs hkn
    · cases hs
    · obtain ⟨v, g, h1, h2, h3⟩ := hkn
      simp only [Bool.and_eq_true] at hs
      cases v
      · exact inv_br_false hI hth (by simp [evalCond, h1]) hok hs.2
      · rcases Bool.eq_false_or_eq_true (evalCond pf th .tAny).1 with he | he
        · exact inv_br_true hI hth he (refine_nonraw hok h1 (by decide) (Or.inl hka)) hs.1
        · exact inv_br_false hI hth he hok hs.2
      · exact inv_br_false hI hth (by simp [evalCond, h1]) hok hs.2
    · obtain ⟨g, h1, _⟩ := hkn
      exact inv_br_false hI hth (by simp [evalCond, h1]) hok hs
    · simp only [Bool.and_eq_true] at hs
      exact inv_br_both hI hth hok hs.1 hs.2
  | mNonNil =>
    simp only [safe] at hs
    split at hs
    next hm => exact inv_br_true hI hth (by simp [evalCond, hok.mread hm]) hok hs
    next => cases hs
  | lockVar =>
    simp only [safe] at hs
    split at hs
    next hl => exact inv_br_true hI hth (by simp [evalCond, hok.lv hl]) hok hs
    next =>
      simp only [Bool.and_eq_true] at hs
      exact inv_br_both hI hth hok hs.1 hs.2
  | parseErr =>
    simp only [safe] at hs
    cases pf
    · exact inv_br_false hI hth (by simp [evalCond]) hok (by simpa using hs)
    · exact inv_br_true hI hth (by simp [evalCond]) hok (by simpa using hs)
  | selfNil => simp only [safe, Bool.and_eq_true] at hs; exact inv_br_both hI hth hok hs.1 hs.2
  | lazy => simp only [safe, Bool.and_eq_true] at hs; exact inv_br_both hI hth hok hs.1 hs.2
  | param => simp only [safe, Bool.and_eq_true] at hs; exact inv_br_both hI hth hok hs.1 hs.2
  | pNoLazy => simp only [safe, Bool.and_eq_true] at hs; exact inv_br_both hI hth hok hs.1 hs.2
  | pLoadOnce => simp only [safe, Bool.and_eq_true] at hs; exact inv_br_both hI hth hok hs.1 hs.2
  | pSkipValue => simp only [safe, Bool.and_eq_true] at hs; exact inv_br_both hI hth hok hs.1 hs.2
  | «opaque» => simp only [safe, Bool.and_eq_true] at hs; exact inv_br_both hI hth hok hs.1 hs.2

end SonicSpec.RW
