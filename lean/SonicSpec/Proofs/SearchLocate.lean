/-
  C14 helper lemmas, part 3: the byte-level path searcher against `locateR` on the tree.
-/
import SonicSpec.Proofs.SearchSkip
import SonicSpec.Proofs.SearchKey
namespace SonicSpec.Search
open SonicSpec SonicSpec.Json

/-! ## keys -/

theorem codeUnits_plain : ∀ (b : Bytes), hasBackslash b = false → codeUnits b = b.map CU.b := by
  intro b
  induction b with
  | nil => intro _; rfl
  | cons c r ih =>
    intro h
    simp only [hasBackslash, Bool.or_eq_false_iff, beq_eq_false_iff_ne] at h
    rw [codeUnits.eq_def]
    split
    · rename_i heq; cases heq
    · rename_i heq; cases (List.cons.inj heq).1; simp at h
    · rename_i heq; cases (List.cons.inj heq).1; simp at h
    · rename_i c' r' _ _ heq
      obtain ⟨rfl, rfl⟩ := List.cons.inj heq
      rw [ih h.2]; rfl

theorem encodeUnits_plain (b : Bytes) : encodeUnits none (b.map CU.b) = b := by
  induction b with
  | nil => rfl
  | cons c r ih => simp [encodeUnits, ih]

theorem unescapeKey_plain {b : Bytes} (h : hasBackslash b = false) : unescapeKey b = b := by
  unfold unescapeKey; rw [codeUnits_plain b h, encodeUnits_plain]

/-- `matchKey_eq_decode_compare`: on a key literal whose escapes `unescape` can decode, the native
    comparison (memcmp fast path, or the piecewise loop) decides "decoded literal = wanted key" -/
theorem matchKey_eq {body k : Bytes} (h : keyWF (body.length + 1) body = true) :
    matchKey body k = if unescapeKey body = k then KeyCmp.eq else KeyCmp.ne := by
  unfold matchKey
  by_cases hb : hasBackslash body = true
  · simp only [hb, if_true]; exact matchLoop_eq _ body k h
  · have h' : hasBackslash body = false := by simpa using hb
    simp only [h', unescapeKey_plain h']
    by_cases e : body = k <;> simp [e]

/-! ## the two search loops -/

theorem isNumStop_of_space {c : UInt8} (h : isSpace c = true) : isNumStop c = true := by
  simp [isNumStop, h]

theorem numFollow_of_skipWs {r : Bytes} {c : UInt8} {t : Bytes} (h : skipWs r = c :: t) (hc : isNumStop c = true) :
    NumFollow r := by
  cases r with
  | nil => simp [skipWs] at h
  | cons a r' =>
    by_cases ha : isSpace a = true
    · exact .inr ⟨a, r', rfl, isNumStop_of_space ha⟩
    · have ha' : isSpace a = false := by simpa using ha
      rw [skipWs_cons_of_not_space ha'] at h
      injection h with h1 h2
      subst h1
      exact .inr ⟨a, r', rfl, hc⟩

theorem numFollow_of_skipWs_nil {r : Bytes} (h : skipWs r = []) : NumFollow r := by
  cases r with
  | nil => exact .inl rfl
  | cons a r' =>
    by_cases ha : isSpace a = true
    · exact .inr ⟨a, r', rfl, isNumStop_of_space ha⟩
    · have ha' : isSpace a = false := by simpa using ha
      rw [skipWs_cons_of_not_space ha'] at h
      cases h

/-- the value `w` is what the strict parser reads at position `pos` (after white space), leaving `rest` -/
def At (F : Nat) (w : JVal) (pos rest : Bytes) : Prop :=
  ∃ m, m ≤ F ∧ parseVal m (skipWs pos) = some (w, rest) ∧ NumFollow rest ∧ keysWF w = true

/-- `skip_in_obj` against `lookupKey` -/
theorem searchObj_members (F : Nat) (k : Bytes) : ∀ n, n ≤ F → ∀ (fuel : Nat), n ≤ fuel →
    ∀ (pos : Bytes) (kvs : List (Bytes × JVal)) (r : Bytes), parseMembers n (skipWs pos) = some (kvs, r) →
    keysWFMembers kvs = true →
    match lookupKey k kvs with
    | some w => ∃ p, searchObj k fuel pos = .found p ∧ ∃ rest, At F w p rest
    | none => searchObj k fuel pos = .notFound := by
  intro n
  induction n with
  | zero => intro _ fuel _ pos kvs r h; rw [parseMembers_zero] at h; cases h
  | succ n ih =>
    intro hF fuel hfuel pos kvs r h hwf
    obtain ⟨t, kb, r1, r2, v, r3, hs, hk, h58, hv, hrest⟩ := parseMembers_inv h
    obtain ⟨fuel', rfl⟩ : ∃ f, fuel = f + 1 := ⟨fuel - 1, by omega⟩
    have hfollow : NumFollow r3 := by
      rcases hrest with ⟨t', _, hc, _, _⟩ | ⟨hc, _⟩
      · exact numFollow_of_skipWs hc (by decide)
      · exact numFollow_of_skipWs hc (by decide)
    have hskip := skipFast_of_parse hv hfollow
    have hstr := strEnd_of_scanString t hk
    have hwf3 : keyWF (kb.length + 1) kb = true ∧ keysWF v = true ∧
        (∀ kvs', kvs = (kb, v) :: kvs' → keysWFMembers kvs' = true) := by
      rcases hrest with ⟨t', kvs', _, _, rfl⟩ | ⟨_, rfl⟩
      · simp only [keysWFMembers, Bool.and_eq_true] at hwf
        exact ⟨hwf.1.1, hwf.1.2, fun _ e => by cases e; exact hwf.2⟩
      · simp only [keysWFMembers, Bool.and_eq_true] at hwf
        exact ⟨hwf.1.1, hwf.1.2, fun _ e => by cases e; rfl⟩
    obtain ⟨hkwf, hvwf, hrestwf⟩ := hwf3
    have hmk := matchKey_eq (k := k) hkwf
    rw [searchObj]
    simp only [hs, hstr, h58]
    by_cases hkey : unescapeKey kb = k
    · rw [if_pos hkey] at hmk
      rcases hrest with ⟨t', kvs', hc, hmem, rfl⟩ | ⟨hc, rfl⟩ <;>
      · simp only [lookupKey, hkey, if_true]
        simp [hmk]
        exact ⟨r3, n, by omega, hv, hfollow, hvwf⟩
    · rw [if_neg hkey] at hmk
      rcases hrest with ⟨t', kvs', hc, hmem, rfl⟩ | ⟨hc, rfl⟩
      · simp only [lookupKey, hkey, if_false]
        have := ih (by omega) fuel' (by omega) t' kvs' r hmem (hrestwf _ rfl)
        simp [hmk, hskip, hc]
        exact this
      · simp only [lookupKey, hkey, if_false]
        simp [hmk, hskip, hc]

theorem parseVal_nil (n : Nat) : parseVal n [] = none := by
  cases n with
  | zero => exact parseVal_zero _
  | succ n => unfold parseVal; simp [scanNumber]

/-- `skip_in_arr` against list indexing -/
theorem searchArr_elems (F : Nat) : ∀ n, n ≤ F → ∀ (i : Nat) (pos : Bytes) (xs : List JVal) (r : Bytes),
    parseElems n (skipWs pos) = some (xs, r) → keysWFElems xs = true →
    match xs[i]? with
    | some w => ∃ p, searchArr i pos = .found p ∧ ∃ rest, At F w p rest
    | none => searchArr i pos = .notFound := by
  intro n
  induction n with
  | zero => intro _ i pos xs r h; rw [parseElems_zero] at h; cases h
  | succ n ih =>
    intro hF i pos xs r h hwf
    obtain ⟨v, r1, hv, hrest⟩ := parseElems_inv h
    have hfollow : NumFollow r1 := by
      rcases hrest with ⟨t', _, hc, _, _⟩ | ⟨hc, _⟩
      · exact numFollow_of_skipWs hc (by decide)
      · exact numFollow_of_skipWs hc (by decide)
    have hwf2 : keysWF v = true ∧ (∀ xs', xs = v :: xs' → keysWFElems xs' = true) := by
      rcases hrest with ⟨_, _, _, _, rfl⟩ | ⟨_, rfl⟩
      · simp only [keysWFElems, Bool.and_eq_true] at hwf
        exact ⟨hwf.1, fun _ e => by cases e; exact hwf.2⟩
      · simp only [keysWFElems, Bool.and_eq_true] at hwf
        exact ⟨hwf.1, fun _ e => by cases e; rfl⟩
    cases i with
    | zero =>
      have hx : xs[0]? = some v := by
        rcases hrest with ⟨_, _, _, _, rfl⟩ | ⟨_, rfl⟩ <;> rfl
      simp only [hx, searchArr]
      exact ⟨pos, rfl, r1, n, by omega, hv, hfollow, hwf2.1⟩
    | succ i =>
      have hskip := skipFast_of_parse hv hfollow
      rw [searchArr]
      rcases hrest with ⟨t', xs', hc, hel, rfl⟩ | ⟨hc, rfl⟩
      · have := ih (by omega) i t' xs' r hel (hwf2.2 _ rfl)
        simp [hskip, hc]
        exact this
      · simp [hskip, hc]

/-! ## the path searcher -/

/-- the searcher's answer agrees with the specification's: same error class, and a found value
    is delimited exactly as the strict parser delimits it -/
def Agrees (F : Nat) (spec : Res JVal) (impl : Res (Bytes × Bytes)) : Prop :=
  match spec with
  | .found w => ∃ st rest, impl = .found (st, rest) ∧ ∃ m, m ≤ F ∧ parseVal m st = some (w, rest) ∧ NumFollow rest
  | .notFound => impl = .notFound
  | .inval => impl = .inval
  | .eof => impl = .eof
  | .badPath => impl = .badPath

theorem parseElems_nil (n : Nat) : parseElems n [] = none := by
  cases n with
  | zero => exact parseElems_zero _
  | succ n => unfold parseElems; simp [parseVal_nil]

theorem getByPath_locate (F : Nat) : ∀ (p : Path) (v : JVal) (pos rest : Bytes), At F v pos rest → ∀ val : Bool,
    Agrees F (locateR v p) (getByPath val F p pos) ∧ getByPath val F p pos = getByPath true F p pos := by
  intro p
  induction p with
  | nil =>
    intro v pos rest ⟨m, hm, hp, hf, hw⟩ val
    have e : ∀ b : Bool, getByPath b F [] pos = .found (skipWs pos, rest) := by
      intro b
      cases b
      · simp [getByPath, skipFast_of_parse hp hf]
      · simp [getByPath, skipStrict, parseVal_mono hm hp]
    refine ⟨?_, by rw [e, e]⟩
    simp only [locateR, Agrees]
    exact ⟨skipWs pos, rest, e val, m, hm, hp, hf⟩
  | cons e p' ih =>
    intro v pos rest ⟨m, hm, hp, hf, hw⟩ val
    cases m with
    | zero => rw [parseVal_zero] at hp; cases hp
    | succ n =>
    obtain ⟨F', rfl⟩ : ∃ f, F = f + 1 := ⟨F - 1, by omega⟩
    cases e with
    | key k =>
      cases parseVal_inv hp with
      | null hs hv => subst hv; simp [locateR, Agrees, getByPath, hs]
      | tru hs hv => subst hv; simp [locateR, Agrees, getByPath, hs]
      | fls hs hv => subst hv; simp [locateR, Agrees, getByPath, hs]
      | str t b hs _ hv => subst hv; simp [locateR, Agrees, getByPath, hs]
      | arr0 t hs _ hv => subst hv; simp [locateR, Agrees, getByPath, hs]
      | arr t xs hs _ _ hv => subst hv; simp [locateR, Agrees, getByPath, hs]
      | num l hl hv =>
        subst hv
        obtain ⟨hs, _, c0, l', hl0, hc0⟩ := scanNumber_spec hl
        subst hl0
        have := (numStart_kind c0 hc0).2.1
        simp [locateR, Agrees, getByPath, hs, this]
      | obj0 t hs h0 hv =>
        subst hv
        simp [locateR, lookupKey, Agrees, getByPath, hs]
        rw [searchObj]; simp [h0]
      | obj t kvs hs _ hmem hv =>
        subst hv
        have hA := searchObj_members (F' + 1) k n (by omega) (F' + 1) (by omega) t kvs rest hmem (by simpa [keysWF] using hw)
        simp only [locateR]
        cases hlk : lookupKey k kvs with
        | none =>
          rw [hlk] at hA
          simp [Agrees, getByPath, hs, hA]
        | some w =>
          rw [hlk] at hA
          obtain ⟨p, hfound, rest2, hAt2⟩ := hA
          have := ih w p rest2 hAt2
          simp only [getByPath, hs, hfound]
          simpa using this val
    | idx i =>
      cases parseVal_inv hp with
      | null hs hv => subst hv; simp [locateR, Agrees, getByPath, hs]
      | tru hs hv => subst hv; simp [locateR, Agrees, getByPath, hs]
      | fls hs hv => subst hv; simp [locateR, Agrees, getByPath, hs]
      | str t b hs _ hv => subst hv; simp [locateR, Agrees, getByPath, hs]
      | obj0 t hs _ hv => subst hv; simp [locateR, Agrees, getByPath, hs]
      | obj t xs hs _ _ hv => subst hv; simp [locateR, Agrees, getByPath, hs]
      | num l hl hv =>
        subst hv
        obtain ⟨hs, _, c0, l', hl0, hc0⟩ := scanNumber_spec hl
        subst hl0
        have := (numStart_kind c0 hc0).1
        simp [locateR, Agrees, getByPath, hs, this]
      | arr0 t hs h0 hv =>
        subst hv
        by_cases hi : i < 0
        · simp [locateR, Agrees, getByPath, hs, hi]
        · simp [locateR, Agrees, getByPath, hs, hi, h0]
      | arr t xs hs hne hel hv =>
        subst hv
        by_cases hi : i < 0
        · simp [locateR, Agrees, getByPath, hs, hi]
        · have hB := searchArr_elems (F' + 1) n (by omega) i.toNat (skipWs t) xs rest (by rw [skipWs_idem]; exact hel) (by simpa [keysWF] using hw)
          cases hsk : skipWs t with
          | nil => rw [hsk, parseElems_nil] at hel; cases hel
          | cons c' t' =>
            have hc' : c' ≠ 93 := fun e => hne t' (by rw [hsk, e])
            rw [hsk] at hB
            simp only [locateR, hi, if_false]
            cases hx : xs[i.toNat]? with
            | none =>
              rw [hx] at hB
              simp [Agrees, getByPath, hs, hi, hsk, hc', hB]
            | some w =>
              rw [hx] at hB
              obtain ⟨p, hfound, rest2, hAt2⟩ := hB
              have := ih w p rest2 hAt2
              simp only [getByPath, hs, hsk, hfound]
              simpa [hi, hc'] using this val

/-! ## suffixes: the raw slice -/

/-- `r` is what is left of `s` after removing a prefix -/
def Suffix (s r : Bytes) : Prop := ∃ pre, s = pre ++ r

theorem Suffix.refl (s : Bytes) : Suffix s s := ⟨[], rfl⟩
theorem Suffix.trans {a b c : Bytes} (h1 : Suffix a b) (h2 : Suffix b c) : Suffix a c := by
  obtain ⟨p, rfl⟩ := h1; obtain ⟨q, rfl⟩ := h2; exact ⟨p ++ q, by simp⟩
theorem Suffix.cons (c : UInt8) {a b : Bytes} (h : Suffix a b) : Suffix (c :: a) b := by
  obtain ⟨p, rfl⟩ := h; exact ⟨c :: p, rfl⟩

theorem skipWs_suffix (s : Bytes) : Suffix s (skipWs s) := by
  induction s with
  | nil => exact ⟨[], rfl⟩
  | cons c r ih =>
    by_cases hc : isSpace c = true
    · rw [skipWs_cons_of_space hc]; exact ih.cons c
    · rw [skipWs_cons_of_not_space (by simpa using hc)]; exact Suffix.refl _

theorem suffix_of_skipWs_eq {s : Bytes} {c : UInt8} {t : Bytes} (h : skipWs s = c :: t) : Suffix s t := by
  have := skipWs_suffix s
  rw [h] at this
  exact this.trans ⟨[c], rfl⟩

/-- the end-of-string scan splits its input at the closing quote -/
theorem strEnd_split (s : Bytes) : ∀ {b r : Bytes}, strEnd s = some (b, r) → s = b ++ 34 :: r := by
  fun_induction strEnd s with
  | case1 => intro b r h; cases h
  | case2 c hc => intro b r h; cases h
  | case3 c hc e r' ih =>
    intro b r h
    simp only [Option.map_eq_some_iff] at h
    obtain ⟨⟨b0, t0⟩, h0, h1⟩ := h
    cases h1
    have hc' : c = 92 := by simpa using hc
    rw [ih h0, hc']; rfl
  | case4 c r' _ hq =>
    intro b r h
    cases h
    have : c = 34 := by simpa using hq
    rw [this]; rfl
  | case5 c r' _ _ ih =>
    intro b r h
    simp only [Option.map_eq_some_iff] at h
    obtain ⟨⟨b0, t0⟩, h0, h1⟩ := h
    cases h1
    rw [ih h0]; rfl

theorem scanString_suffix {s b r : Bytes} (h : scanString s = some (b, r)) : Suffix s r :=
  ⟨b ++ [34], by rw [strEnd_split s (strEnd_of_scanString s h)]; simp⟩

/-- whatever the strict parser leaves is a suffix of its input -/
theorem parse_suffix : ∀ n,
    (∀ s v r, parseVal n s = some (v, r) → Suffix s r) ∧
    (∀ s xs r, parseElems n s = some (xs, r) → Suffix s r) ∧
    (∀ s kvs r, parseMembers n s = some (kvs, r) → Suffix s r) := by
  intro n
  induction n with
  | zero =>
    refine ⟨?_, ?_, ?_⟩
    · intro s v r h; rw [parseVal_zero] at h; cases h
    · intro s v r h; rw [parseElems_zero] at h; cases h
    · intro s v r h; rw [parseMembers_zero] at h; cases h
  | succ n ih =>
    obtain ⟨ihv, ihe, ihm⟩ := ih
    refine ⟨?_, ?_, ?_⟩
    · intro s v r h
      cases parseVal_inv h with
      | null hs _ => exact ⟨[110, 117, 108, 108], hs⟩
      | tru hs _ => exact ⟨[116, 114, 117, 101], hs⟩
      | fls hs _ => exact ⟨[102, 97, 108, 115, 101], hs⟩
      | str t b hs hb _ => rw [hs]; exact (scanString_suffix hb).cons 34
      | arr0 t hs h0 _ => rw [hs]; exact (suffix_of_skipWs_eq h0).cons 91
      | arr t xs hs _ he _ => rw [hs]; exact ((skipWs_suffix t).trans (ihe _ _ _ he)).cons 91
      | obj0 t hs h0 _ => rw [hs]; exact (suffix_of_skipWs_eq h0).cons 123
      | obj t kvs hs _ hm _ => rw [hs]; exact ((skipWs_suffix t).trans (ihm _ _ _ hm)).cons 123
      | num l hl _ => exact ⟨l, (scanNumber_spec hl).1⟩
    · intro s xs r h
      obtain ⟨v, r1, hv, hrest⟩ := parseElems_inv h
      refine (ihv _ _ _ hv).trans ?_
      rcases hrest with ⟨t, xs', hc, he, _⟩ | ⟨hc, _⟩
      · exact (suffix_of_skipWs_eq hc).trans ((skipWs_suffix t).trans (ihe _ _ _ he))
      · exact suffix_of_skipWs_eq hc
    · intro s kvs r h
      obtain ⟨t, k, r1, r2, v, r3, hs, hk, h58, hv, hrest⟩ := parseMembers_inv h
      rw [hs]
      refine ((scanString_suffix hk).cons 34).trans ((suffix_of_skipWs_eq h58).trans ((skipWs_suffix r2).trans ((ihv _ _ _ hv).trans ?_)))
      rcases hrest with ⟨t', kvs', hc, hm, _⟩ | ⟨hc, _⟩
      · exact (suffix_of_skipWs_eq hc).trans ((skipWs_suffix t').trans (ihm _ _ _ hm))
      · exact suffix_of_skipWs_eq hc

theorem rawOf_append (pre rest : Bytes) : rawOf (pre ++ rest, rest) = pre := by
  simp [rawOf]

end SonicSpec.Search
