/-
  Helper lemmas for C19: integer literals (`parseDec` on `-? (0 | [1-9][0-9]*)`) and `itoa`.
-/
import SonicSpec.Model.Num
import SonicSpec.Model.NumFmt
import SonicSpec.Model.NumSpec
namespace SonicSpec.Num

def digitsValFrom (acc : Nat) (ds : Bytes) : Nat := ds.foldl (fun a c => a * 10 + digitVal c) acc

theorem digitsVal_eq (ds : Bytes) : digitsVal ds = digitsValFrom 0 ds := rfl

theorem digitsValFrom_append (acc : Nat) (a b : Bytes) :
    digitsValFrom acc (a ++ b) = digitsValFrom (digitsValFrom acc a) b := by
  simp [digitsValFrom, List.foldl_append]

/-- `takeDigits` splits the input into its longest digit prefix and the rest -/
theorem takeDigits_spec : ∀ (s : Bytes) (acc n : Nat),
    ∃ ds, s = ds ++ (takeDigits s acc n).2.2 ∧ AllDigits ds ∧
      (takeDigits s acc n).1 = digitsValFrom acc ds ∧ (takeDigits s acc n).2.1 = n + ds.length ∧
      (∀ c r, (takeDigits s acc n).2.2 = c :: r → isDigit c = false)
  | [], acc, n => ⟨[], by simp [takeDigits, AllDigits, digitsValFrom]⟩
  | c :: r, acc, n => by
    by_cases hc : isDigit c = true
    · obtain ⟨ds, h1, h2, h3, h4, h5⟩ := takeDigits_spec r (acc * 10 + digitVal c) (n + 1)
      refine ⟨c :: ds, ?_, ?_, ?_, ?_, ?_⟩
      · simp only [takeDigits, if_pos hc, List.cons_append]; rw [← h1]
      · intro x hx
        rcases List.mem_cons.mp hx with rfl | hx
        · exact hc
        · exact h2 x hx
      · simp only [takeDigits, if_pos hc]; rw [h3]; rfl
      · simp only [takeDigits, if_pos hc]; rw [h4]; simp only [List.length_cons]; omega
      · simp only [takeDigits, if_pos hc]; exact h5
    · refine ⟨[], ?_, ?_, ?_, ?_, ?_⟩
      · simp [takeDigits, hc]
      · intro x hx; cases hx
      · simp [takeDigits, hc, digitsValFrom]
      · simp [takeDigits, hc]
      · intro c' r' h
        simp only [takeDigits, if_neg hc] at h
        cases h
        simpa using hc

/-- on a string of digits `takeDigits` consumes everything -/
theorem takeDigits_all (ds : Bytes) (h : AllDigits ds) (acc n : Nat) :
    takeDigits ds acc n = (digitsValFrom acc ds, n + ds.length, []) := by
  induction ds generalizing acc n with
  | nil => simp [takeDigits, digitsValFrom]
  | cons c r ih =>
    have hc : isDigit c = true := h c (List.mem_cons_self ..)
    have hr : AllDigits r := fun x hx => h x (List.mem_cons_of_mem _ hx)
    simp only [takeDigits, if_pos hc]
    rw [ih hr]
    simp only [digitsValFrom, List.foldl_cons, List.length_cons]
    congr 2
    omega

/-! ### what `parseDec` accepts as an integer literal -/

theorem parseExp_isInt {neg : Bool} {m nfrac : Nat} {hasFrac : Bool} {s : Bytes} {d : Dec}
    (h : parseExp neg m nfrac hasFrac s = some d) (hi : d.isInt = true) :
    s = [] ∧ hasFrac = false ∧ d = { neg := neg, m := m, e := - (nfrac : Int), isInt := true } := by
  cases s with
  | nil =>
    simp only [parseExp, Option.some.injEq] at h
    subst h
    simp only [Bool.not_eq_true'] at hi
    simp [hi]
  | cons c r =>
    simp only [parseExp] at h
    split at h
    · split at h
      · cases h
      · simp only [Option.some.injEq] at h
        subst h
        cases hi
    · cases h

theorem parseFrac_isInt {neg : Bool} {m : Nat} {s : Bytes} {d : Dec}
    (h : parseFrac neg m s = some d) (hi : d.isInt = true) :
    s = [] ∧ d = { neg := neg, m := m, e := 0, isInt := true } := by
  unfold parseFrac at h
  split at h
  · simp only at h
    split at h
    · cases h
    · have := parseExp_isInt h hi
      simp at this
  · have := parseExp_isInt h hi
    simpa using this

theorem isDigit_iff (c : UInt8) : isDigit c = true ↔ (c = 48 ∨ (49 ≤ c ∧ c ≤ 57)) := by
  simp only [isDigit, Bool.and_eq_true, decide_eq_true_eq]
  constructor
  · intro ⟨h1, h2⟩
    have : 48 ≤ c.toNat := by simpa [UInt8.le_iff_toNat_le] using h1
    have : c.toNat ≤ 57 := by simpa [UInt8.le_iff_toNat_le] using h2
    by_cases h : c = 48
    · exact Or.inl h
    · right
      have hne : c.toNat ≠ 48 := fun hh => h (UInt8.toNat_inj.mp (by simpa using hh))
      constructor
      · simp [UInt8.le_iff_toNat_le]; omega
      · exact h2
  · rintro (rfl | ⟨h1, h2⟩)
    · decide
    · refine ⟨?_, h2⟩
      have : 49 ≤ c.toNat := by simpa [UInt8.le_iff_toNat_le] using h1
      simp [UInt8.le_iff_toNat_le]; omega

/-- the shape and value of what `parseInt1` accepts as an integer literal -/
theorem parseInt1_isInt (neg : Bool) (s : Bytes) (d : Dec)
    (h : parseInt1 neg s = some d) (hi : d.isInt = true) :
    s ≠ [] ∧ AllDigits s ∧ (s.head? = some 48 → s.length = 1) ∧
      d = { neg := neg, m := digitsVal s, e := 0, isInt := true } := by
  cases s with
  | nil => simp [parseInt1] at h
  | cons c r =>
    simp only [parseInt1] at h
    split at h
    · rename_i hc
      have hc : c = 48 := by simpa using hc
      obtain ⟨hr, hd⟩ := parseFrac_isInt h hi
      subst hr hc
      refine ⟨by simp, ?_, by simp, ?_⟩
      · intro x hx
        simp only [List.mem_singleton] at hx
        subst hx; decide
      · rw [hd]; rfl
    · split at h
      · rename_i hc0 hc
        obtain ⟨hr, hd⟩ := parseFrac_isInt h hi
        obtain ⟨ds, h1, h2, h3, _, _⟩ := takeDigits_spec (c :: r) 0 0
        rw [hr] at h1
        simp only [List.append_nil] at h1
        refine ⟨by simp, h1 ▸ h2, ?_, ?_⟩
        · intro hh
          simp only [List.head?_cons, Option.some.injEq] at hh
          simp [hh] at hc0
        · rw [hd, h3, ← h1, digitsVal_eq]
      · cases h

theorem parseInt1_of_digits (neg : Bool) (ds : Bytes) (hne : ds ≠ []) (hd : AllDigits ds)
    (hz : ds.head? = some 48 → ds.length = 1) :
    parseInt1 neg ds = some { neg := neg, m := digitsVal ds, e := 0, isInt := true } := by
  cases ds with
  | nil => exact absurd rfl hne
  | cons c r =>
    have hc : isDigit c = true := hd c (List.mem_cons_self ..)
    simp only [parseInt1]
    by_cases h48 : c = 48
    · subst h48
      have : r = [] := by
        have := hz (by simp)
        simpa using this
      subst this
      simp [parseFrac, parseExp, digitsVal, digitVal]
    · have hc' : (c == 48) = false := by simpa using h48
      have hrange : (49 ≤ c && c ≤ 57) = true := by
        rcases (isDigit_iff c).mp hc with h | ⟨h1, h2⟩
        · exact absurd h h48
        · simp [h1, h2]
      simp only [hc', hrange, Bool.false_eq_true, if_false, if_true]
      rw [takeDigits_all (c :: r) hd 0 0]
      simp [parseFrac, parseExp, digitsVal_eq]

/-- `parseDec` yields an integer literal exactly on `-? (0 | [1-9][0-9]*)`, with its value -/
theorem parseDec_isInt_iff (lit : Bytes) (neg : Bool) (m : Nat) :
    (∃ d, parseDec lit = some d ∧ d.isInt = true ∧ d.neg = neg ∧ d.m = m) ↔
    (∃ ds, lit = (if neg then [45] else []) ++ ds ∧ ds ≠ [] ∧ AllDigits ds ∧
      (ds.head? = some 48 → ds.length = 1) ∧ m = digitsVal ds) := by
  constructor
  · rintro ⟨d, h, hi, hn, hm⟩
    unfold parseDec at h
    split at h
    · rename_i r
      obtain ⟨h1, h2, h3, h4⟩ := parseInt1_isInt true r d h hi
      subst h4
      simp only at hn hm
      subst hn hm
      exact ⟨r, by simp, h1, h2, h3, rfl⟩
    · rename_i hnot
      obtain ⟨h1, h2, h3, h4⟩ := parseInt1_isInt false lit d h hi
      subst h4
      simp only at hn hm
      subst hn hm
      exact ⟨lit, by simp, h1, h2, h3, rfl⟩
  · rintro ⟨ds, rfl, hne, hd, hz, rfl⟩
    cases neg with
    | true =>
      refine ⟨{ neg := true, m := digitsVal ds, e := 0, isInt := true }, ?_, rfl, rfl, rfl⟩
      simp only [if_true, List.singleton_append, parseDec]
      exact parseInt1_of_digits true ds hne hd hz
    | false =>
      refine ⟨{ neg := false, m := digitsVal ds, e := 0, isInt := true }, ?_, rfl, rfl, rfl⟩
      simp only [Bool.false_eq_true, if_false, List.nil_append]
      cases ds with
      | nil => exact absurd rfl hne
      | cons c r =>
        have hc : isDigit c = true := hd c (List.mem_cons_self ..)
        have h45 : c ≠ 45 := by
          rintro rfl
          exact absurd hc (by decide)
        unfold parseDec
        split
        · rename_i heq
          simp only [List.cons.injEq] at heq
          exact absurd heq.1 h45
        · exact parseInt1_of_digits false (c :: r) hne hd hz

/-! ### `itoa` -/

theorem digit_byte (k : Nat) (hk : k < 10) :
    isDigit (UInt8.ofNat (48 + k)) = true ∧ digitVal (UInt8.ofNat (48 + k)) = k ∧
      (UInt8.ofNat (48 + k) = 48 → k = 0) := by
  revert k
  decide

theorem digitsValFrom_snoc (acc : Nat) (ds : Bytes) (c : UInt8) :
    digitsValFrom acc (ds ++ [c]) = digitsValFrom acc ds * 10 + digitVal c := by
  simp [digitsValFrom, List.foldl_append]

/-- the digit string of `n`: non-empty, only digits, value `n`, no leading zero except for `0` itself -/
theorem natDigitsAux_spec : ∀ (fuel n : Nat) (acc : Bytes), n < fuel →
    ∃ ds, natDigitsAux fuel n acc = ds ++ acc ∧ ds ≠ [] ∧ AllDigits ds ∧ digitsVal ds = n ∧
      (ds.head? = some 48 → ds.length = 1)
  | 0, n, acc, h => absurd h (Nat.not_lt_zero _)
  | fuel + 1, n, acc, h => by
    obtain ⟨hd1, hd2, hd3⟩ := digit_byte (n % 10) (Nat.mod_lt _ (by decide))
    simp only [natDigitsAux]
    by_cases hn : n < 10
    · simp only [if_pos hn]
      have hmod : n % 10 = n := Nat.mod_eq_of_lt hn
      refine ⟨[UInt8.ofNat (48 + n % 10)], rfl, by simp, ?_, ?_, by simp⟩
      · intro x hx
        simp only [List.mem_singleton] at hx
        subst hx; exact hd1
      · show 0 * 10 + digitVal (UInt8.ofNat (48 + n % 10)) = n
        rw [hd2]; omega
    · simp only [if_neg hn]
      obtain ⟨ds, h1, h2, h3, h4, h5⟩ :=
        natDigitsAux_spec fuel (n / 10) (UInt8.ofNat (48 + n % 10) :: acc) (by omega)
      refine ⟨ds ++ [UInt8.ofNat (48 + n % 10)], by rw [h1]; simp, by simp, ?_, ?_, ?_⟩
      · intro x hx
        rcases List.mem_append.mp hx with hx | hx
        · exact h3 x hx
        · simp only [List.mem_singleton] at hx
          subst hx; exact hd1
      · rw [digitsVal_eq, digitsValFrom_snoc, ← digitsVal_eq, h4, hd2]
        omega
      · intro hh
        have hds : ds.head? = some 48 := by
          cases ds with
          | nil => exact absurd rfl h2
          | cons a b => simpa using hh
        have hl := h5 hds
        -- ds = [48] has value 0, but n / 10 ≥ 1
        cases ds with
        | nil => exact absurd rfl h2
        | cons a b =>
          have hb : b = [] := by simpa using hl
          subst hb
          simp only [List.head?_cons, Option.some.injEq] at hds
          subst hds
          simp [digitsVal, digitVal] at h4
          omega

theorem natDigits_spec (n : Nat) :
    natDigits n ≠ [] ∧ AllDigits (natDigits n) ∧ digitsVal (natDigits n) = n ∧
      ((natDigits n).head? = some 48 → (natDigits n).length = 1) := by
  obtain ⟨ds, h1, h2, h3, h4, h5⟩ := natDigitsAux_spec (n + 1) n [] (Nat.lt_succ_self n)
  simp only [List.append_nil] at h1
  simp only [natDigits, h1]
  exact ⟨h2, h3, h4, h5⟩

end SonicSpec.Num
