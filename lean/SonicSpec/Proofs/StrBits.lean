/-
  Helper lemmas for C20: the bit masks of native/utf8.h (Model/StrStd.lean) decide the same well-formedness
  table as `seqLen` (Model/StrUtf8.lean).  Every byte is treated separately (256 cases at a time): first the
  lead byte is classified, then the second byte is checked under the class.
-/
import SonicSpec.Model.StrUtf8
import SonicSpec.Model.StrStd
import SonicSpec.Proofs.U8
namespace SonicSpec.Str

/-- range forms used by `seqLen` -/
def r2 (b0 : UInt8) : Bool := 194 ≤ b0 && b0 < 224
def r3 (b0 b1 : UInt8) : Bool :=
  (224 ≤ b0 && b0 < 240) && isCont b1 && !(b0 == 224 && b1 < 160) && !(b0 == 237 && 160 ≤ b1)
def r4 (b0 b1 : UInt8) : Bool :=
  (240 ≤ b0 && b0 < 245) && isCont b1 && !(b0 == 240 && b1 < 144) && !(b0 == 244 && 144 ≤ b1)

/-- the parts of the masks that look at the first two bytes -/
def core3 (b0 b1 : UInt8) : Bool :=
  (b0 &&& 240 == 224) && (b1 &&& 192 == 128) && ((b0 &&& 15 != 0) || (b1 &&& 32 != 0)) &&
    !((b0 &&& 15 == 13) && (b1 &&& 32 == 32))
def core4 (b0 b1 : UInt8) : Bool :=
  (b0 &&& 248 == 240) && (b1 &&& 192 == 128) && ((b0 &&& 7 != 0) || (b1 &&& 48 != 0)) &&
    ((b0 &&& 4 == 0) || ((b0 &&& 3 == 0) && (b1 &&& 48 == 0)))

theorem cont_bits : ∀ b : UInt8, (b &&& 192 == 128) = isCont b := by
  apply forall_uint8; decide +kernel

theorem lead2_bits : ∀ b0 : UInt8, ((b0 &&& 224 == 192) && (b0 &&& 30 != 0)) = r2 b0 := by
  apply forall_uint8; decide +kernel

theorem seq2_eq (b0 b1 : UInt8) : seq2Bits b0 b1 = (r2 b0 && isCont b1) := by
  unfold seq2Bits
  rw [← lead2_bits, ← cont_bits]
  cases (b0 &&& 224 == 192) <;> cases (b1 &&& 192 == 128) <;> cases (b0 &&& 30 != 0) <;> rfl

/-! three-byte class: lead byte E0, ED, another E_, or none -/

theorem lead3_class : ∀ b0 : UInt8,
    b0 = 224 ∨ b0 = 237 ∨
    ((b0 &&& 240 == 224) = true ∧ (b0 &&& 15 != 0) = true ∧ (b0 &&& 15 == 13) = false ∧
      (decide (224 ≤ b0) && decide (b0 < 240)) = true ∧ (b0 == 224) = false ∧ (b0 == 237) = false) ∨
    ((b0 &&& 240 == 224) = false ∧ (decide (224 ≤ b0) && decide (b0 < 240)) = false) := by
  apply forall_uint8; decide +kernel

theorem core3_E0 : ∀ b1 : UInt8, core3 224 b1 = r3 224 b1 := by
  apply forall_uint8; decide +kernel
theorem core3_ED : ∀ b1 : UInt8, core3 237 b1 = r3 237 b1 := by
  apply forall_uint8; decide +kernel

theorem core3_eq (b0 b1 : UInt8) : core3 b0 b1 = r3 b0 b1 := by
  rcases lead3_class b0 with rfl | rfl | ⟨h1, h2, h3, h4, h5, h6⟩ | ⟨h1, h2⟩
  · exact core3_E0 b1
  · exact core3_ED b1
  · unfold core3 r3
    rw [h1, h2, h3, h4, h5, h6, cont_bits]
    simp
  · unfold core3 r3
    rw [h1, h2]
    simp

theorem seq3_eq (b0 b1 b2 : UInt8) : seq3Bits b0 b1 b2 = (r3 b0 b1 && isCont b2) := by
  rw [← core3_eq, ← cont_bits b2]
  unfold seq3Bits core3
  cases (b0 &&& 240 == 224) <;> cases (b1 &&& 192 == 128) <;> cases (b2 &&& 192 == 128) <;> simp

/-! four-byte class: lead byte F0, F1..F3, F4, F5..F7, or none -/

theorem lead4_class : ∀ b0 : UInt8,
    b0 = 240 ∨ b0 = 244 ∨
    ((b0 &&& 248 == 240) = true ∧ (b0 &&& 7 != 0) = true ∧ (b0 &&& 4 == 0) = true ∧
      (decide (240 ≤ b0) && decide (b0 < 245)) = true ∧ (b0 == 240) = false ∧ (b0 == 244) = false) ∨
    ((b0 &&& 248 == 240) = true ∧ (b0 &&& 4 == 0) = false ∧ (b0 &&& 3 == 0) = false ∧
      (decide (240 ≤ b0) && decide (b0 < 245)) = false) ∨
    ((b0 &&& 248 == 240) = false ∧ (decide (240 ≤ b0) && decide (b0 < 245)) = false) := by
  apply forall_uint8; decide +kernel

theorem core4_F0 : ∀ b1 : UInt8, core4 240 b1 = r4 240 b1 := by
  apply forall_uint8; decide +kernel
theorem core4_F4 : ∀ b1 : UInt8, core4 244 b1 = r4 244 b1 := by
  apply forall_uint8; decide +kernel

theorem core4_eq (b0 b1 : UInt8) : core4 b0 b1 = r4 b0 b1 := by
  rcases lead4_class b0 with rfl | rfl | ⟨h1, h2, h3, h4, h5, h6⟩ | ⟨h1, h2, h3, h4⟩ | ⟨h1, h2⟩
  · exact core4_F0 b1
  · exact core4_F4 b1
  · unfold core4 r4
    rw [h1, h2, h3, h4, h5, h6, cont_bits]
    simp
  · unfold core4 r4
    rw [h1, h2, h3, h4]
    simp
  · unfold core4 r4
    rw [h1, h2]
    simp

theorem seq4_eq (b0 b1 b2 b3 : UInt8) : seq4Bits b0 b1 b2 b3 = (r4 b0 b1 && isCont b2 && isCont b3) := by
  rw [← core4_eq, ← cont_bits b2, ← cont_bits b3]
  unfold seq4Bits core4
  cases (b0 &&& 248 == 240) <;> cases (b1 &&& 192 == 128) <;> cases (b2 &&& 192 == 128) <;>
    cases (b3 &&& 192 == 128) <;> simp

/-! ### composition -/

theorem lead_class : ∀ b0 : UInt8,
    (decide (b0 < 128) = true) ∨
    (decide (b0 < 128) = false ∧ r2 b0 = true ∧ (decide (224 ≤ b0) && decide (b0 < 240)) = false ∧
      (decide (240 ≤ b0) && decide (b0 < 245)) = false) ∨
    (decide (b0 < 128) = false ∧ r2 b0 = false ∧ (decide (224 ≤ b0) && decide (b0 < 240)) = true ∧
      (decide (240 ≤ b0) && decide (b0 < 245)) = false) ∨
    (decide (b0 < 128) = false ∧ r2 b0 = false ∧ (decide (224 ≤ b0) && decide (b0 < 240)) = false ∧
      (decide (240 ≤ b0) && decide (b0 < 245)) = true) ∨
    (decide (b0 < 128) = false ∧ r2 b0 = false ∧ (decide (224 ≤ b0) && decide (b0 < 240)) = false ∧
      (decide (240 ≤ b0) && decide (b0 < 245)) = false) := by
  apply forall_uint8; decide +kernel

/-- the table `seqLen` implements, on four explicit bytes -/
def range4 (b0 b1 b2 b3 : UInt8) : Nat :=
  if b0 < 128 then 1
  else if 194 ≤ b0 && b0 < 224 then (if isCont b1 then 2 else 0)
  else if 224 ≤ b0 && b0 < 240 then
    (if isCont b1 && isCont b2 && !(b0 == 224 && b1 < 160) && !(b0 == 237 && 160 ≤ b1) then 3 else 0)
  else if 240 ≤ b0 && b0 < 245 then
    (if isCont b1 && isCont b2 && isCont b3 && !(b0 == 240 && b1 < 144) && !(b0 == 244 && 144 ≤ b1) then 4 else 0)
  else 0

theorem bits4_eq_range4 (b0 b1 b2 b3 : UInt8) : bits4 b0 b1 b2 b3 = range4 b0 b1 b2 b3 := by
  unfold bits4 range4
  rw [seq3_eq, seq2_eq, seq4_eq]
  unfold r3 r4
  rcases lead_class b0 with h | ⟨h1, h2, h3, h4⟩ | ⟨h1, h2, h3, h4⟩ | ⟨h1, h2, h3, h4⟩ | ⟨h1, h2, h3, h4⟩
  · have : b0 < 128 := by simpa using h
    simp [this]
  all_goals
    have hlt : ¬ b0 < 128 := by simpa using h1
    have h2' := h2
    unfold r2 at h2'
    simp only [hlt, ↓reduceIte, h2, h2', h3, h4, Bool.true_and, Bool.false_and, Bool.false_eq_true]
    try (cases isCont b1 <;> cases isCont b2 <;> cases isCont b3 <;> simp)

theorem isCont_zero : isCont 0 = false := by decide

theorem range4_eq_seqLen (b0 : UInt8) (t : Bytes) :
    range4 b0 (t.getD 0 0) (t.getD 1 0) (t.getD 2 0) = seqLen (b0 :: t) := by
  unfold range4 seqLen
  match t with
  | [] => simp [isCont_zero]
  | [b1] => simp [isCont_zero]
  | [b1, b2] => simp [isCont_zero]
  | b1 :: b2 :: b3 :: t' => simp

/-- utf8.h valid_utf8_4byte, masks and all, computes `seqLen` on every byte string -/
theorem seqLenBits_eq_seqLen (s : Bytes) : seqLenBits s = seqLen s := by
  match s with
  | [] => rfl
  | b0 :: t =>
    show bits4 b0 (t.getD 0 0) (t.getD 1 0) (t.getD 2 0) = _
    rw [bits4_eq_range4, range4_eq_seqLen]

end SonicSpec.Str
