/-
  C06 helper lemmas, part 2: the ownership invariant of the heap model and its preservation by
  the primitive state transformers.  Core Lean only.
-/
import SonicSpec.Model.OwnHeap
import SonicSpec.Proofs.Own
namespace SonicSpec.Own
open SonicSpec

/-- what a log entry must satisfy: inside the array, and the array was the library's own or the
    spare part of the slice lent to the running call -/
def WriteEv.ok (e : WriteEv) : Prop :=
  e.hi ≤ e.cap ∧ (e.owner = .internal ∨ (e.owner = .caller ∧ ∃ l, e.lent = some l ∧ l ≤ e.off))

/-- a recorded result still denotes the bytes that were returned -/
def Result.ok (st : State) (r : Result) : Prop :=
  ∃ b, st.heap[r.id]? = some b ∧ b.owner = .caller ∧ r.off + r.bytes.length ≤ b.len ∧
    (b.mem.drop r.off).take r.bytes.length = r.bytes ∧ r.id ∉ st.inputs

structure Inv (st : State) : Prop where
  wf : ∀ (j : Nat) (b : Buf), st.heap[j]? = some b → b.len ≤ b.mem.length
  pooled : ∀ p ∈ st.pool, ∃ b, st.heap[p.2]? = some b ∧ b.owner = .pool ∧ b.len = 0
  nodup : (st.pool.map (·.2)).Nodup
  results : ∀ r ∈ st.results, r.ok st
  inputs : ∀ i ∈ st.inputs, ∃ b, st.heap[i]? = some b ∧ b.owner = .caller
  log : ∀ e ∈ st.log, e.ok

/-- array `id` is held by the library -/
def Held (st : State) (id : Nat) : Prop := ∃ b, st.heap[id]? = some b ∧ b.owner = .internal

theorem inv_init : Inv {} := by
  refine ⟨?_, ?_, ?_, ?_, ?_, ?_⟩ <;> simp

theorem getElem?_set_eq {l : List Buf} {i j : Nat} {a b : Buf} (h : l[i]? = some b) :
    (l.set i a)[j]? = if i = j then some a else l[j]? := by
  rw [List.getElem?_set]
  have : i < l.length := by
    rcases List.getElem?_eq_some_iff.mp h with ⟨h, _⟩; exact h
  simp [this]

/-! ### alloc -/

theorem alloc_heap_old (st : State) (o : Owner) (mem : Bytes) (len : Nat) {j : Nat} (h : j ≠ st.heap.length) :
    (st.alloc o mem len).1.heap[j]? = st.heap[j]? := by
  simp only [State.alloc]
  by_cases hj : j < st.heap.length
  · exact List.getElem?_append_left hj
  · rw [List.getElem?_eq_none (by simp; omega), List.getElem?_eq_none (by omega)]

theorem alloc_heap_new (st : State) (o : Owner) (mem : Bytes) (len : Nat) :
    (st.alloc o mem len).1.heap[(st.alloc o mem len).2]? = some ⟨o, mem, len⟩ := by
  simp [State.alloc]

theorem heap_lt {st : State} {j : Nat} {b : Buf} (h : st.heap[j]? = some b) : j < st.heap.length := by
  rcases List.getElem?_eq_some_iff.mp h with ⟨h, _⟩; exact h

theorem alloc_inv {st : State} (h : Inv st) (o : Owner) (mem : Bytes) (len : Nat) (hw : len ≤ mem.length) :
    Inv (st.alloc o mem len).1 := by
  have old : ∀ {j : Nat} {b : Buf}, st.heap[j]? = some b → (st.alloc o mem len).1.heap[j]? = some b := by
    intro j b hj
    rw [alloc_heap_old st o mem len (Nat.ne_of_lt (heap_lt hj))]; exact hj
  refine ⟨?_, ?_, h.nodup, ?_, ?_, h.log⟩
  · intro j b hj
    by_cases e : j = st.heap.length
    · subst e
      have := alloc_heap_new st o mem len
      simp only [State.alloc] at this hj
      rw [this] at hj; cases hj; exact hw
    · rw [alloc_heap_old st o mem len e] at hj; exact h.wf j b hj
  · intro p hp
    obtain ⟨b, hb, ho, hl⟩ := h.pooled p hp
    exact ⟨b, old hb, ho, hl⟩
  · intro r hr
    obtain ⟨b, hb, ho, hl, hs, hi⟩ := h.results r hr
    exact ⟨b, old hb, ho, hl, hs, hi⟩
  · intro i hi
    obtain ⟨b, hb, ho⟩ := h.inputs i hi
    exact ⟨b, old hb, ho⟩

theorem alloc_held_old {st : State} (o : Owner) (mem : Bytes) (len : Nat) {j : Nat} (h : Held st j) :
    Held (st.alloc o mem len).1 j := by
  obtain ⟨b, hb, ho⟩ := h
  exact ⟨b, by rw [alloc_heap_old st o mem len (Nat.ne_of_lt (heap_lt hb))]; exact hb, ho⟩

/-! ### acquire -/

theorem choose_mem {st : State} {k : PoolKind} {pick id : Nat} (h : st.choose k pick = some id) :
    (k, id) ∈ st.pool := by
  unfold State.choose at h
  split at h
  · cases h
  · have := List.mem_of_getElem? h
    simp only [State.candidates, List.mem_map, List.mem_filter] at this
    obtain ⟨p, ⟨hp, hk⟩, hid⟩ := this
    have : p = (k, id) := by
      cases p; simp at hk hid; simp [hk, hid]
    rw [← this]; exact hp

/-- everything the callers of `acquire` need -/
structure Acquired (st st' : State) (id : Nat) : Prop where
  inv : Inv st'
  cell : ∃ mem, st'.heap[id]? = some ⟨.internal, mem, 0⟩
  frame : ∀ j, j ≠ id → st'.heap[j]? = st.heap[j]?
  notHeld : ¬ Held st id
  results : st'.results = st.results
  inputs : st'.inputs = st.inputs
  notInput : id ∉ st.inputs

theorem acquire_ok {st : State} (h : Inv st) (env : Env) (k : PoolKind) (dflt pick : Nat) :
    Acquired st (st.acquire env k dflt pick).1 (st.acquire env k dflt pick).2 := by
  have fresh : Acquired st (st.alloc .internal (SBuf.fill env 0 dflt) 0).1 (st.alloc .internal (SBuf.fill env 0 dflt) 0).2 := by
    refine ⟨alloc_inv h _ _ _ (Nat.zero_le _), ⟨_, alloc_heap_new st _ _ _⟩, ?_, ?_, rfl, rfl, ?_⟩
    · intro j hj; exact alloc_heap_old st _ _ _ hj
    · rintro ⟨b, hb, _⟩
      have := heap_lt hb
      simp [State.alloc] at this
    · intro hi
      obtain ⟨b, hb, _⟩ := h.inputs _ hi
      have := heap_lt hb
      simp [State.alloc] at this
  unfold State.acquire
  split
  · rename_i id hch
    split
    · rename_i b hb
      have hmem := choose_mem hch
      obtain ⟨b0, hb0, ho0, hl0⟩ := h.pooled _ hmem
      simp only at hb0
      rw [hb] at hb0; cases hb0
      have hne : ∀ {j : Nat} {b' : Buf}, st.heap[j]? = some b' → b'.owner ≠ .pool → j ≠ id := by
        intro j b' hj hno e; subst e; rw [hb] at hj; cases hj; exact hno ho0
      have same : ∀ {j : Nat} {b' : Buf}, st.heap[j]? = some b' → b'.owner ≠ .pool →
          (st.heap.set id { b with owner := .internal })[j]? = some b' := by
        intro j b' hj hno
        rw [getElem?_set_eq hb, if_neg (Ne.symm (hne hj hno))]; exact hj
      refine ⟨⟨?_, ?_, ?_, ?_, ?_, h.log⟩, ?_, ?_, ?_, rfl, rfl, ?_⟩
      · intro j b' hj
        simp only at hj
        rw [getElem?_set_eq hb] at hj
        split at hj
        · cases hj; exact h.wf id b hb
        · exact h.wf _ _ hj
      · intro p hp
        simp only [List.mem_filter, bne_iff_ne, ne_eq] at hp
        obtain ⟨b', hb', ho', hl'⟩ := h.pooled p hp.1
        refine ⟨b', ?_, ho', hl'⟩
        simp only
        rw [getElem?_set_eq hb, if_neg (Ne.symm hp.2)]; exact hb'
      · exact List.Nodup.sublist (List.Sublist.map _ List.filter_sublist) h.nodup
      · intro r hr
        obtain ⟨b', hb', ho', hl', hs', hi'⟩ := h.results r hr
        exact ⟨b', same hb' (by rw [ho']; decide), ho', hl', hs', hi'⟩
      · intro i hi
        obtain ⟨b', hb', ho'⟩ := h.inputs i hi
        exact ⟨b', same hb' (by rw [ho']; decide), ho'⟩
      · refine ⟨b.mem, ?_⟩
        simp only
        rw [getElem?_set_eq hb, if_pos rfl, ← hl0]
      · intro j hj
        simp only
        rw [getElem?_set_eq hb, if_neg (Ne.symm hj)]
      · rintro ⟨b', hb', ho'⟩
        rw [hb] at hb'; cases hb'; rw [ho0] at ho'; cases ho'
      · intro hi
        obtain ⟨b', hb', ho'⟩ := h.inputs _ hi
        rw [hb] at hb'; cases hb'; rw [ho0] at ho'; cases ho'
    · exact fresh
  · exact fresh

/-! ### release -/

structure Released (st st' : State) (id : Nat) : Prop where
  inv : Inv st'
  frame : ∀ j, j ≠ id → st'.heap[j]? = st.heap[j]?
  results : st'.results = st.results
  inputs : st'.inputs = st.inputs

theorem release_ok {st : State} (h : Inv st) (P : Params) (k : PoolKind) {id : Nat} (hh : Held st id) :
    Released st (State.release P st k id) id := by
  obtain ⟨b, hb, ho⟩ := hh
  unfold State.release
  rw [hb]
  simp only
  split
  · have hne : ∀ {j : Nat} {b' : Buf}, st.heap[j]? = some b' → b'.owner ≠ .internal → j ≠ id := by
      intro j b' hj hno e; subst e; rw [hb] at hj; cases hj; exact hno ho
    have same : ∀ {j : Nat} {b' : Buf}, st.heap[j]? = some b' → b'.owner ≠ .internal →
        (st.heap.set id { b with owner := .pool, len := 0 })[j]? = some b' := by
      intro j b' hj hno
      rw [getElem?_set_eq hb, if_neg (Ne.symm (hne hj hno))]; exact hj
    refine ⟨⟨?_, ?_, ?_, ?_, ?_, h.log⟩, ?_, rfl, rfl⟩
    · intro j b' hj
      simp only at hj
      rw [getElem?_set_eq hb] at hj
      split at hj
      · cases hj; exact Nat.zero_le _
      · exact h.wf _ _ hj
    · intro p hp
      simp only [List.mem_cons] at hp
      rcases hp with hp | hp
      · subst hp
        exact ⟨_, by simp only; rw [getElem?_set_eq hb, if_pos rfl], rfl, rfl⟩
      · obtain ⟨b', hb', ho', hl'⟩ := h.pooled p hp
        exact ⟨b', same hb' (by rw [ho']; decide), ho', hl'⟩
    · simp only [List.map_cons, List.nodup_cons]
      refine ⟨?_, h.nodup⟩
      intro hin
      simp only [List.mem_map] at hin
      obtain ⟨p, hp, hpid⟩ := hin
      obtain ⟨b', hb', ho', _⟩ := h.pooled p hp
      rw [hpid, hb] at hb'; cases hb'; rw [ho] at ho'; cases ho'
    · intro r hr
      obtain ⟨b', hb', ho', hl', hs', hi'⟩ := h.results r hr
      exact ⟨b', same hb' (by rw [ho']; decide), ho', hl', hs', hi'⟩
    · intro i hi
      obtain ⟨b', hb', ho'⟩ := h.inputs i hi
      exact ⟨b', same hb' (by rw [ho']; decide), ho'⟩
    · intro j hj
      simp only
      rw [getElem?_set_eq hb, if_neg (Ne.symm hj)]
  · exact ⟨h, fun _ _ => rfl, rfl, rfl⟩

/-! ### give -/

structure Given (st st' : State) (id off n : Nat) : Prop where
  inv : Inv st'
  frame : ∀ j, j ≠ id → st'.heap[j]? = st.heap[j]?
  results : ∃ r, st'.results = r :: st.results ∧ r.id = id ∧ r.off = off ∧
    r.bytes = ((st.bytesOf id).drop off).take n
  inputs : st'.inputs = st.inputs

/-- handing an array to the caller is sound when the library holds it, or when it is already the
    caller's (and not one of the decoder inputs the caller overwrites) -/
theorem give_ok {st : State} (h : Inv st) {id off n : Nat} {b : Buf} (hb : st.heap[id]? = some b)
    (ho : b.owner = .internal ∨ (b.owner = .caller ∧ id ∉ st.inputs)) (hn : off + n ≤ b.len) :
    Given st (st.give id off n) id off n := by
  have hwf := h.wf _ _ hb
  have hnotin : id ∉ st.inputs := by
    rcases ho with ho | ho
    · intro hi
      obtain ⟨b', hb', ho'⟩ := h.inputs _ hi
      rw [hb] at hb'; cases hb'; rw [ho] at ho'; cases ho'
    · exact ho.2
  have hnp : b.owner ≠ .pool := by
    rcases ho with ho | ho
    · rw [ho]; decide
    · rw [ho.1]; decide
  unfold State.give
  rw [hb]
  simp only
  have set_get : ∀ j, (st.heap.set id { b with owner := .caller })[j]? =
      if id = j then some { b with owner := .caller } else st.heap[j]? := fun j => getElem?_set_eq hb
  have keep : ∀ {j : Nat} {b' : Buf}, st.heap[j]? = some b' →
      ∃ b'', (st.heap.set id { b with owner := .caller })[j]? = some b'' ∧ b''.mem = b'.mem ∧ b''.len = b'.len ∧
        (b'.owner = .caller → b''.owner = .caller) ∧ (j ≠ id → b'' = b') := by
    intro j b' hj
    rw [set_get]
    by_cases e : id = j
    · subst e; rw [hb] at hj; cases hj
      exact ⟨{ b with owner := .caller }, by simp, rfl, rfl, fun _ => rfl, fun c => absurd rfl c⟩
    · exact ⟨b', by simp [e, hj], rfl, rfl, fun x => x, fun _ => rfl⟩
  have hlen : ((b.mem.drop off).take n).length = n := by
    simp only [List.length_take, List.length_drop]; omega
  refine ⟨⟨?_, ?_, h.nodup, ?_, ?_, h.log⟩, ?_, ?_, rfl⟩
  · intro j b' hj
    simp only at hj
    rw [set_get] at hj
    split at hj
    · cases hj; exact hwf
    · exact h.wf _ _ hj
  · intro p hp
    obtain ⟨b', hb', ho', hl'⟩ := h.pooled p hp
    have hne : p.2 ≠ id := by
      intro e; rw [e, hb] at hb'; cases hb'; exact hnp ho'
    refine ⟨b', ?_, ho', hl'⟩
    simp only
    rw [set_get, if_neg (Ne.symm hne)]; exact hb'
  · intro r hr
    simp only [List.mem_cons] at hr
    rcases hr with hr | hr
    · subst hr
      refine ⟨{ b with owner := .caller }, ?_, rfl, ?_, ?_, hnotin⟩
      · simp only; rw [set_get, if_pos rfl]
      · simp only [hlen]; exact hn
      · simp only [hlen, List.take_take, Nat.min_self]
    · obtain ⟨b', hb', ho', hl', hs', hi'⟩ := h.results r hr
      obtain ⟨b'', hb'', hm, hl, hoc, _⟩ := keep hb'
      exact ⟨b'', hb'', hoc ho', by rw [hl]; exact hl', by rw [hm]; exact hs', hi'⟩
  · intro i hi
    obtain ⟨b', hb', ho'⟩ := h.inputs i hi
    obtain ⟨b'', hb'', _, _, hoc, _⟩ := keep hb'
    exact ⟨b'', hb'', hoc ho'⟩
  · intro j hj
    simp only
    rw [set_get, if_neg (Ne.symm hj)]
  · refine ⟨_, rfl, rfl, rfl, ?_⟩
    simp only [State.bytesOf, hb]
    rw [List.drop_take, List.take_take]
    congr 1
    omega

/-! ### write / touch / runOn -/

theorem slice_of_take {l m : Bytes} {k off n : Nat} (h : m.take k = l.take k) (hk : off + n ≤ k) :
    (m.drop off).take n = (l.drop off).take n := by
  have e : ∀ (x : Bytes), (x.drop off).take n = ((x.take k).drop off).take n := by
    intro x
    rw [List.drop_take, List.take_take]
    congr 1; omega
  rw [e m, e l, h]

structure Written (st st' : State) (id : Nat) (b' : Buf) : Prop where
  inv : Inv st'
  cell : st'.heap[id]? = some b'
  frame : ∀ j, j ≠ id → st'.heap[j]? = st.heap[j]?
  results : st'.results = st.results
  inputs : st'.inputs = st.inputs

theorem write_ok {st : State} (h : Inv st) {id : Nat} {b : Buf} (hb : st.heap[id]? = some b)
    {mem : Bytes} {len : Nat} {lent : Option Nat}
    (hcap : mem.length = b.mem.length) (hlen : len ≤ mem.length)
    (hown : b.owner = .internal ∨
      (b.owner = .caller ∧ lent = some b.len ∧ b.len ≤ len ∧ mem.take b.len = b.mem.take b.len)) :
    Written st (st.write id b.len mem len lent) id { b with mem := mem, len := len } := by
  have hnp : b.owner ≠ .pool := by
    rcases hown with ho | ho
    · rw [ho]; decide
    · rw [ho.1]; decide
  unfold State.write
  rw [hb]
  simp only
  have set_get : ∀ j, (st.heap.set id { b with mem := mem, len := len })[j]? =
      if id = j then some { b with mem := mem, len := len } else st.heap[j]? := fun j => getElem?_set_eq hb
  refine ⟨⟨?_, ?_, h.nodup, ?_, ?_, ?_⟩, ?_, ?_, rfl, rfl⟩
  · intro j b' hj
    simp only at hj
    rw [set_get] at hj
    split at hj
    · cases hj; exact hlen
    · exact h.wf _ _ hj
  · intro p hp
    obtain ⟨b', hb', ho', hl'⟩ := h.pooled p hp
    have hne : p.2 ≠ id := by
      intro e; rw [e, hb] at hb'; cases hb'; exact hnp ho'
    refine ⟨b', ?_, ho', hl'⟩
    simp only
    rw [set_get, if_neg (Ne.symm hne)]; exact hb'
  · intro r hr
    obtain ⟨b', hb', ho', hl', hs', hi'⟩ := h.results r hr
    by_cases e : r.id = id
    · rw [e, hb] at hb'; cases hb'
      rcases hown with ho | ⟨_, _, hle, htk⟩
      · rw [ho] at ho'; cases ho'
      · refine ⟨{ b with mem := mem, len := len }, ?_, ho', ?_, ?_, hi'⟩
        · simp only; rw [e, set_get, if_pos rfl]
        · simp only; omega
        · simp only
          rw [slice_of_take htk hl']; exact hs'
    · refine ⟨b', ?_, ho', hl', hs', hi'⟩
      simp only
      rw [set_get, if_neg (Ne.symm e)]; exact hb'
  · intro i hi
    obtain ⟨b', hb', ho'⟩ := h.inputs i hi
    by_cases e : i = id
    · subst e; rw [hb] at hb'; cases hb'
      exact ⟨{ b with mem := mem, len := len }, by simp only; rw [set_get, if_pos rfl], ho'⟩
    · exact ⟨b', by simp only; rw [set_get, if_neg (Ne.symm e)]; exact hb', ho'⟩
  · intro e he
    simp only [List.mem_cons] at he
    rcases he with he | he
    · subst he
      refine ⟨by simp only; omega, ?_⟩
      rcases hown with ho | ⟨ho, hl, _, _⟩
      · exact Or.inl ho
      · exact Or.inr ⟨ho, b.len, hl, Nat.le_refl _⟩
    · exact h.log e he
  · simp only; rw [set_get, if_pos rfl]
  · intro j hj
    simp only
    rw [set_get, if_neg (Ne.symm hj)]

theorem touch_inv {st : State} (h : Inv st) {id : Nat} {b : Buf} (hb : st.heap[id]? = some b)
    {lent : Option Nat} (hown : b.owner = .internal ∨ (b.owner = .caller ∧ lent = some b.len)) :
    Inv (st.touch id b.len lent) ∧ (st.touch id b.len lent).heap = st.heap ∧
      (st.touch id b.len lent).results = st.results ∧ (st.touch id b.len lent).inputs = st.inputs ∧
      (st.touch id b.len lent).pool = st.pool := by
  unfold State.touch
  rw [hb]
  refine ⟨⟨h.wf, h.pooled, h.nodup, h.results, h.inputs, ?_⟩, rfl, rfl, rfl, rfl⟩
  intro e he
  simp only [List.mem_cons] at he
  rcases he with he | he
  · subst he
    refine ⟨Nat.le_refl _, ?_⟩
    rcases hown with ho | ⟨ho, hl⟩
    · exact Or.inl ho
    · exact Or.inr ⟨ho, b.len, hl, Nat.le_refl _⟩
  · exact h.log e he

/-- everything the callers of `runOn` need -/
structure Ran (st st' : State) (id id' : Nat) (b : Buf) (sb : SBuf) : Prop where
  inv : Inv st'
  cell : st'.heap[id']? = some ⟨if id' = id then b.owner else .internal, sb.mem, sb.len⟩
  frame : ∀ j, j ≠ id' → st'.heap[j]? = st.heap[j]?
  fresh : id' ≠ id → st.heap[id']? = none
  results : st'.results = st.results
  inputs : st'.inputs = st.inputs

theorem runOn_ok {st : State} (h : Inv st) {id : Nat} {b : Buf} (hb : st.heap[id]? = some b)
    {lent : Option Nat} (hown : b.owner = .internal ∨ (b.owner = .caller ∧ lent = some b.len))
    {f : SBuf → Except Fault (SBuf × Bool)} {sb : SBuf} {err : Bool} {x : Bytes}
    (hf : f { mem := b.mem, len := b.len, gen := 0 } = .ok (sb, err))
    (hx : Ext { mem := b.mem, len := b.len, gen := 0 } sb x) :
    ∃ st' id', st.runOn id lent f = .ok (st', id', err) ∧ Ran st st' id id' b sb := by
  have hwfb := h.wf _ _ hb
  unfold State.runOn
  rw [hb]
  simp only [hf]
  by_cases hg : sb.gen = 0
  · simp only [hg, if_true]
    have hcap : sb.mem.length = b.mem.length := hx.same hg
    have hlen : sb.len ≤ sb.mem.length := hx.wf
    have hl : sb.len = b.len + x.length := hx.len
    have htk : sb.mem.take b.len = b.mem.take b.len := by
      have hbts := hx.bytes
      simp only [SBuf.bytes] at hbts
      have : (sb.mem.take sb.len).take b.len = (b.mem.take b.len ++ x).take b.len := by rw [hbts]
      rw [List.take_take, List.take_left' (by simp [List.length_take]; omega)] at this
      have hmin : min b.len sb.len = b.len := by omega
      rw [hmin] at this; exact this
    have hw := write_ok h hb (lent := lent) hcap hlen (by
      rcases hown with ho | ⟨ho, hl'⟩
      · exact Or.inl ho
      · exact Or.inr ⟨ho, hl', by omega, htk⟩)
    refine ⟨_, _, rfl, hw.inv, ?_, hw.frame, fun c => absurd rfl c, hw.results, hw.inputs⟩
    simp only [if_true]; exact hw.cell
  · simp only [hg, if_false]
    obtain ⟨hti, hth, htr, htin, _⟩ := touch_inv h hb hown
    refine ⟨_, _, rfl, alloc_inv hti _ _ _ hx.wf, ?_, ?_, ?_, ?_, ?_⟩
    · have hne : (st.touch id b.len lent).heap.length ≠ id := by
        rw [hth]; exact Nat.ne_of_gt (heap_lt hb)
      have := alloc_heap_new (st.touch id b.len lent) .internal sb.mem sb.len
      simp only [State.alloc] at this ⊢
      simp only [hne, if_false]; exact this
    · intro j hj
      have := alloc_heap_old (st.touch id b.len lent) .internal sb.mem sb.len (j := j) (by simpa [State.alloc] using hj)
      rw [this, hth]
    · intro _
      simp only [State.alloc, hth]
      exact List.getElem?_eq_none (Nat.le_refl _)
    · simp only [State.alloc]; exact htr
    · simp only [State.alloc]; exact htin

/-! ### the common tail -/

theorem bytesOf_cell {st : State} {id : Nat} {b : Buf} (h : st.heap[id]? = some b) :
    st.bytesOf id = b.mem.take b.len := by simp [State.bytesOf, h]

/-- what every call guarantees -/
structure StepOK (st st' : State) : Prop where
  inv : Inv st'
  mono : ∃ new, st'.results = new ++ st.results

theorem finishPooled_ok {st : State} (h : Inv st) (P : Params) (k : PoolKind) {id : Nat} (hh : Held st id) :
    StepOK st (finishPooled P st k id).1 ∧
      ∃ rid, (finishPooled P st k id).2 = .bytes rid (st.bytesOf id) ∧
        ∃ r, (finishPooled P st k id).1.results = r :: st.results ∧ r.id = rid ∧ r.bytes = st.bytesOf id := by
  obtain ⟨b, hb, ho⟩ := hh
  have hwf := h.wf _ _ hb
  have hbl : (st.bytesOf id).length = b.len := by
    rw [bytesOf_cell hb, List.length_take]; omega
  unfold finishPooled
  by_cases hc : canReuse P (st.capOf id) = true
  · simp only [hc, if_true]
    -- copy out, recycle the array
    have hi1 := alloc_inv h .internal (st.bytesOf id) (st.bytesOf id).length (Nat.le_refl _)
    have hheld1 : Held (st.alloc .internal (st.bytesOf id) (st.bytesOf id).length).1 id := alloc_held_old _ _ _ ⟨b, hb, ho⟩
    have hrel := release_ok hi1 P k hheld1
    have hne : st.heap.length ≠ id := Nat.ne_of_gt (heap_lt hb)
    have hcell : (State.release P (st.alloc .internal (st.bytesOf id) (st.bytesOf id).length).1 k id).heap[st.heap.length]? =
        some ⟨.internal, st.bytesOf id, (st.bytesOf id).length⟩ := by
      rw [hrel.frame _ hne]
      exact alloc_heap_new st _ _ _
    have hg := give_ok hrel.inv hcell (Or.inl rfl) (off := 0) (n := (st.bytesOf id).length) (by simp)
    obtain ⟨r, hr, hrid, _, hrb⟩ := hg.results
    have hres : (State.release P (st.alloc .internal (st.bytesOf id) (st.bytesOf id).length).1 k id).results = st.results := by
      rw [hrel.results]; rfl
    refine ⟨⟨hg.inv, [r], ?_⟩, st.heap.length, rfl, r, ?_, hrid, ?_⟩
    · show (State.give _ (st.alloc .internal (st.bytesOf id) (st.bytesOf id).length).2 0 _).results = _
      simp only [State.alloc] at hr hres ⊢
      rw [hr, hres]; rfl
    · show (State.give _ (st.alloc .internal (st.bytesOf id) (st.bytesOf id).length).2 0 _).results = _
      simp only [State.alloc] at hr hres ⊢
      rw [hr, hres]
    · rw [hrb, bytesOf_cell hcell]
      simp
  · simp only [hc, if_false, Bool.false_eq_true]
    have hg := give_ok h hb (Or.inl ho) (off := 0) (n := (st.bytesOf id).length) (by omega)
    obtain ⟨r, hr, hrid, _, hrb⟩ := hg.results
    refine ⟨⟨hg.inv, [r], by rw [hr]; rfl⟩, id, rfl, r, hr, hrid, ?_⟩
    rw [hrb]; simp

end SonicSpec.Own
