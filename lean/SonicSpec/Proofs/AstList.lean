/-
  C15 - list lemmas behind the soft-deletion bookkeeping of ast/node.go (`nodeAt`, `pairAt`, `Pop`, `Move`).
-/
import SonicSpec.Model.AstRefine
set_option linter.unusedSimpArgs false
namespace SonicSpec.Ast
variable {α : Type}

theorem countLive_nil (live : α → Bool) : countLive live [] = 0 := rfl

theorem countLive_cons (live : α → Bool) (x : α) (xs : List α) :
    countLive live (x :: xs) = (if live x then 1 else 0) + countLive live xs := by
  unfold countLive
  by_cases h : live x <;> simp [List.filter_cons, h] <;> omega

theorem countLive_le (live : α → Bool) (st : List α) : countLive live st ≤ st.length := by
  unfold countLive; exact List.length_filter_le _ _

theorem countLive_eq_length (live : α → Bool) :
    ∀ st : List α, countLive live st = st.length → ∀ x ∈ st, live x = true
  | [], _, x, hx => by simp at hx
  | y :: ys, h, x, hx => by
    rw [countLive_cons] at h
    have hle := countLive_le live ys
    by_cases hy : live y
    · simp [hy] at h
      have h' : countLive live ys = ys.length := by omega
      rcases List.mem_cons.mp hx with rfl | hx'
      · exact hy
      · exact countLive_eq_length live ys h' x hx'
    · simp [hy] at h; omega

theorem filter_eq_self_of_all (live : α → Bool) (st : List α) (h : ∀ x ∈ st, live x = true) :
    st.filter live = st := List.filter_eq_self.mpr h

/-- what `nthLive` finds -/
theorem nthLive_some (live : α → Bool) :
    ∀ (st : List α) (i p : Nat), nthLive live st i = some p →
      ∃ x, st[p]? = some x ∧ live x = true ∧ (st.filter live)[i]? = some x ∧
        countLive live (st.take p) = i
  | [], i, p, h => by simp [nthLive] at h
  | y :: ys, i, p, h => by
    unfold nthLive at h
    by_cases hy : live y
    · simp only [hy, if_true] at h
      by_cases hi : i = 0
      · subst hi
        simp at h; subst h
        exact ⟨y, by simp, hy, by simp [List.filter_cons, hy], by simp [countLive]⟩
      · simp only [hi, if_false] at h
        cases hq : nthLive live ys (i - 1) with
        | none => simp [hq] at h
        | some q =>
          simp [hq] at h; subst h
          obtain ⟨x, h1, h2, h3, h4⟩ := nthLive_some live ys (i - 1) q hq
          refine ⟨x, by simpa using h1, h2, ?_, ?_⟩
          · have : i = (i - 1) + 1 := by omega
            rw [this]; simp [List.filter_cons, hy, h3]
          · rw [List.take_succ_cons, countLive_cons]; simp [hy]; omega
    · simp only [hy] at h
      cases hq : nthLive live ys i with
      | none => simp [hq] at h
      | some q =>
        simp [hq] at h; subst h
        obtain ⟨x, h1, h2, h3, h4⟩ := nthLive_some live ys i q hq
        refine ⟨x, by simpa using h1, h2, ?_, ?_⟩
        · simp [List.filter_cons, hy, h3]
        · rw [List.take_succ_cons, countLive_cons]; simp [hy]; omega

theorem nthLive_none (live : α → Bool) :
    ∀ (st : List α) (i : Nat), nthLive live st i = none ↔ countLive live st ≤ i
  | [], i => by simp [nthLive, countLive]
  | y :: ys, i => by
    unfold nthLive
    rw [countLive_cons]
    by_cases hy : live y
    · by_cases hi : i = 0
      · simp [hy, hi]
      · simp only [hy, hi, if_true, if_false, Option.map_eq_none_iff]
        rw [nthLive_none live ys (i - 1)]; omega
    · have hy' : live y = false := by simpa using hy
      simp only [hy', Bool.false_eq_true, if_false, Option.map_eq_none_iff]
      rw [nthLive_none live ys i]; simp

theorem nthLive_all (live : α → Bool) :
    ∀ (st : List α), (∀ x ∈ st, live x = true) → ∀ i, nthLive live st i = if i < st.length then some i else none
  | [], _, i => by simp [nthLive]
  | y :: ys, h, i => by
    have hy : live y = true := h y (by simp)
    have hys : ∀ x ∈ ys, live x = true := fun x hx => h x (by simp [hx])
    unfold nthLive
    by_cases hi : i = 0
    · simp [hy, hi]
    · simp only [hy, hi, if_true, if_false]
      rw [nthLive_all live ys hys (i - 1)]
      by_cases hl : i - 1 < ys.length
      · have : i < (y :: ys).length := by simp; omega
        simp [hl, this]; omega
      · have : ¬ i < (y :: ys).length := by simp; omega
        simp only [hl, this, if_false]; rfl

/-! ### overwriting one slot -/

theorem filter_set_live (live : α → Bool) :
    ∀ (st : List α) (p : Nat) (x y : α), st[p]? = some x → live x = true → live y = true →
      (st.set p y).filter live = (st.filter live).set (countLive live (st.take p)) y
  | [], p, x, y, h, _, _ => by simp at h
  | z :: zs, 0, x, y, h, hx, hy => by
    simp at h; subst h
    simp [List.filter_cons, hx, hy, countLive]
  | z :: zs, p + 1, x, y, h, hx, hy => by
    have h' : zs[p]? = some x := by simpa using h
    have ih := filter_set_live live zs p x y h' hx hy
    by_cases hz : live z
    · simp [List.filter_cons, hz, ih, countLive_cons]
      rw [Nat.add_comm]; simp
    · simp [List.filter_cons, hz, ih, countLive_cons]

theorem filter_set_dead (live : α → Bool) :
    ∀ (st : List α) (p : Nat) (x y : α), st[p]? = some x → live x = true → live y = false →
      (st.set p y).filter live = (st.filter live).eraseIdx (countLive live (st.take p))
  | [], p, x, y, h, _, _ => by simp at h
  | z :: zs, 0, x, y, h, hx, hy => by
    simp at h; subst h
    simp [List.filter_cons, hx, hy, countLive]
  | z :: zs, p + 1, x, y, h, hx, hy => by
    have h' : zs[p]? = some x := by simpa using h
    have ih := filter_set_dead live zs p x y h' hx hy
    by_cases hz : live z
    · simp [List.filter_cons, hz, ih, countLive_cons]
      rw [Nat.add_comm]; simp
    · simp [List.filter_cons, hz, ih, countLive_cons]

theorem countLive_take_lt (live : α → Bool) :
    ∀ (st : List α) (p : Nat) (x : α), st[p]? = some x → live x = true →
      countLive live (st.take p) < countLive live st
  | [], p, x, h, _ => by simp at h
  | z :: zs, 0, x, h, hx => by
    simp at h; subst h
    rw [List.take_zero, countLive_nil, countLive_cons]; simp [hx]; omega
  | z :: zs, p + 1, x, h, hx => by
    have h' : zs[p]? = some x := by simpa using h
    have ih := countLive_take_lt live zs p x h' hx
    simp only [List.take_succ_cons, countLive_cons]; omega

/-! ### Pop -/

theorem popRev_spec (live : α → Bool) :
    ∀ l : List α, ((popRev live l).1.filter live = (l.filter live).tail) ∧
      ((popRev live l).2 = true ↔ l.filter live ≠ []) ∧ (∃ k, (popRev live l).1 = l.drop k)
  | [] => by simp [popRev]
  | x :: xs => by
    unfold popRev
    by_cases hx : live x
    · simp [hx, List.filter_cons]; exact ⟨1, by simp⟩
    · obtain ⟨h1, h2, k, h3⟩ := popRev_spec live xs
      simp [hx, List.filter_cons, h1, h2]
      exact ⟨k + 1, by simpa using h3⟩

theorem popLive_spec (live : α → Bool) (st : List α) :
    (popLive live st).1.filter live = (st.filter live).dropLast ∧
    ((popLive live st).2 = true ↔ st.filter live ≠ []) ∧ (∃ k, (popLive live st).1 = st.take k) := by
  obtain ⟨h1, h2, k, h3⟩ := popRev_spec live st.reverse
  unfold popLive
  refine ⟨?_, ?_, ?_⟩
  · simp only [List.filter_reverse, h1]
    rw [List.tail_reverse, List.reverse_reverse]
  · simp only [h2, List.filter_reverse]; simp
  · refine ⟨st.length - k, ?_⟩
    simp only [h3]
    rw [List.drop_reverse, List.reverse_reverse]

end SonicSpec.Ast
