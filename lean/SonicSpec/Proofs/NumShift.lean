/-
  Helper lemmas for C19: decimals `d * 10^j` (j : Int) brought over one denominator `10^s`
  (`s` large enough that every `j + s ≥ 0`), so that comparisons become comparisons of naturals.
-/
import SonicSpec.Proofs.NumMono
import SonicSpec.Proofs.NumFmt
namespace SonicSpec.Num

theorem pow10_pos (n : Nat) : 0 < 10 ^ n := Nat.pow_pos (by decide)

/-- `scale d j` is the fraction `d * 10^(j+s) / 10^s` -/
theorem scale_shift (d : Nat) (j : Int) (s : Nat) (hs : 0 ≤ j + s) :
    (scale d j).1 * 10 ^ s = d * 10 ^ (j + s).toNat * (scale d j).2 := by
  simp only [scale]
  split
  · rename_i hj
    have : (j + s).toNat = j.toNat + s := by omega
    rw [this, Nat.pow_add]
    simp only [Nat.mul_one]; ac_rfl
  · rename_i hj
    have : s = (j + s).toNat + (-j).toNat := by omega
    simp only
    conv => lhs; rw [this]
    rw [Nat.pow_add]; ac_rfl

/-- order of two decimals from the order of their shifted numerators (with a common factor `B`) -/
theorem dec_le_of_shift (d1 : Nat) (j1 : Int) (d2 : Nat) (j2 : Int) (s B : Nat)
    (h1 : 0 ≤ j1 + s) (h2 : 0 ≤ j2 + s)
    (h : d1 * 10 ^ (j1 + s).toNat ≤ d2 * 10 ^ (j2 + s).toNat) :
    (scale d1 j1).1 * B * (scale d2 j2).2 ≤ (scale d2 j2).1 * B * (scale d1 j1).2 := by
  have e1 := scale_shift d1 j1 s h1
  have e2 := scale_shift d2 j2 s h2
  apply Nat.le_of_mul_le_mul_right _ (pow10_pos s)
  have l : (scale d1 j1).1 * B * (scale d2 j2).2 * 10 ^ s =
      (scale d1 j1).1 * 10 ^ s * (B * (scale d2 j2).2) := by ac_rfl
  have r : (scale d2 j2).1 * B * (scale d1 j1).2 * 10 ^ s =
      (scale d2 j2).1 * 10 ^ s * (B * (scale d1 j1).2) := by ac_rfl
  rw [l, r, e1, e2]
  have := Nat.mul_le_mul_right (B * (scale d1 j1).2 * (scale d2 j2).2) h
  have l2 : d1 * 10 ^ (j1 + s).toNat * (scale d1 j1).2 * (B * (scale d2 j2).2) =
      d1 * 10 ^ (j1 + s).toNat * (B * (scale d1 j1).2 * (scale d2 j2).2) := by ac_rfl
  have r2 : d2 * 10 ^ (j2 + s).toNat * (scale d2 j2).2 * (B * (scale d1 j1).2) =
      d2 * 10 ^ (j2 + s).toNat * (B * (scale d1 j1).2 * (scale d2 j2).2) := by ac_rfl
  rw [l2, r2]; exact this

/-- a decimal is at most the value `V / 1` (in units `B`) when its shifted numerator is -/
theorem dec_le_val_of_shift (d : Nat) (j : Int) (s B V : Nat) (h1 : 0 ≤ j + s)
    (h : d * 10 ^ (j + s).toNat * B ≤ V * 10 ^ s) :
    (scale d j).1 * B * 1 ≤ V * (scale d j).2 := by
  have e1 := scale_shift d j s h1
  apply Nat.le_of_mul_le_mul_right _ (pow10_pos s)
  have l : (scale d j).1 * B * 1 * 10 ^ s = (scale d j).1 * 10 ^ s * B := by
    rw [Nat.mul_one]; ac_rfl
  rw [l, e1]
  have := Nat.mul_le_mul_right (scale d j).2 h
  have l2 : d * 10 ^ (j + s).toNat * (scale d j).2 * B = d * 10 ^ (j + s).toNat * B * (scale d j).2 := by ac_rfl
  have r2 : V * (scale d j).2 * 10 ^ s = V * 10 ^ s * (scale d j).2 := by ac_rfl
  rw [l2, r2]; exact this

theorem val_le_dec_of_shift (d : Nat) (j : Int) (s B V : Nat) (h1 : 0 ≤ j + s)
    (h : V * 10 ^ s ≤ d * 10 ^ (j + s).toNat * B) :
    V * (scale d j).2 ≤ (scale d j).1 * B * 1 := by
  have e1 := scale_shift d j s h1
  apply Nat.le_of_mul_le_mul_right _ (pow10_pos s)
  have l : (scale d j).1 * B * 1 * 10 ^ s = (scale d j).1 * 10 ^ s * B := by
    rw [Nat.mul_one]; ac_rfl
  rw [l, e1]
  have := Nat.mul_le_mul_right (scale d j).2 h
  have l2 : d * 10 ^ (j + s).toNat * (scale d j).2 * B = d * 10 ^ (j + s).toNat * B * (scale d j).2 := by ac_rfl
  have r2 : V * (scale d j).2 * 10 ^ s = V * 10 ^ s * (scale d j).2 := by ac_rfl
  rw [l2, r2]; exact this

/-- the floor at scale `10^j`, shifted -/
theorem shift_floor (N D : Nat) (j : Int) (s : Nat) (hD : 0 < D) (hs : 0 ≤ j + s) :
    floorScaled N D j * 10 ^ (j + s).toNat * D ≤ N * 10 ^ s ∧
    N * 10 ^ s < (floorScaled N D j + 1) * 10 ^ (j + s).toNat * D := by
  obtain ⟨h1, h2⟩ := floorScaled_spec N D j hD
  by_cases hj : 0 ≤ j
  · obtain ⟨a, b⟩ := h1 hj
    have : (j + s).toNat = j.toNat + s := by omega
    rw [this, Nat.pow_add]
    generalize floorScaled N D j = lo at *
    have a' := Nat.mul_le_mul_right (10 ^ s) a
    have b' := Nat.mul_lt_mul_of_pos_right b (pow10_pos s)
    have e1 : lo * (D * 10 ^ j.toNat) * 10 ^ s = lo * (10 ^ j.toNat * 10 ^ s) * D := by ac_rfl
    have e2 : (lo + 1) * (D * 10 ^ j.toNat) * 10 ^ s = (lo + 1) * (10 ^ j.toNat * 10 ^ s) * D := by ac_rfl
    rw [e1] at a'; rw [e2] at b'
    exact ⟨a', b'⟩
  · obtain ⟨a, b⟩ := h2 (by omega)
    have hs' : s = (j + s).toNat + (-j).toNat := by omega
    generalize floorScaled N D j = lo at *
    have a' := Nat.mul_le_mul_right (10 ^ (j + s).toNat) a
    have b' := Nat.mul_lt_mul_of_pos_right b (pow10_pos (j + s).toNat)
    have e0 : N * 10 ^ (-j).toNat * 10 ^ (j + s).toNat = N * 10 ^ s := by
      conv => rhs; rw [hs']
      rw [Nat.pow_add]; ac_rfl
    have e1 : lo * D * 10 ^ (j + s).toNat = lo * 10 ^ (j + s).toNat * D := by ac_rfl
    have e2 : (lo + 1) * D * 10 ^ (j + s).toNat = (lo + 1) * 10 ^ (j + s).toNat * D := by ac_rfl
    rw [e0, e1] at a'; rw [e0, e2] at b'
    exact ⟨a', b'⟩

/-- `pow10Le`, shifted -/
theorem shift_pow10Le (E : Int) (N D s : Nat) (hs : 0 ≤ E + s) :
    (pow10Le E N D = true → 10 ^ (E + s).toNat * D ≤ N * 10 ^ s) ∧
    (pow10Le E N D = false → N * 10 ^ s < 10 ^ (E + s).toNat * D) := by
  simp only [pow10Le]
  by_cases hE : E ≥ 0
  · simp only [if_pos hE, decide_eq_true_eq, decide_eq_false_iff_not, Nat.not_le]
    have : (E + s).toNat = E.toNat + s := by omega
    rw [this, Nat.pow_add]
    have e1 : 10 ^ E.toNat * 10 ^ s * D = 10 ^ E.toNat * D * 10 ^ s := by ac_rfl
    rw [e1]
    exact ⟨fun h => Nat.mul_le_mul_right _ h, fun h => Nat.mul_lt_mul_of_pos_right h (pow10_pos s)⟩
  · simp only [if_neg hE, decide_eq_true_eq, decide_eq_false_iff_not, Nat.not_le]
    have hs' : s = (E + s).toNat + (-E).toNat := by omega
    have e0 : N * 10 ^ s = N * 10 ^ (-E).toNat * 10 ^ (E + s).toNat := by
      conv => lhs; rw [hs']
      rw [Nat.pow_add]; ac_rfl
    rw [e0, Nat.mul_comm (10 ^ (E + s).toNat) D]
    exact ⟨fun h => Nat.mul_le_mul_right _ h, fun h => Nat.mul_lt_mul_of_pos_right h (pow10_pos _)⟩

end SonicSpec.Num
