/-
  C16 - the invariant behind the access discipline (`safe`) and its preservation by every step
  of every thread under every schedule.  Helper lemmas only; the property theorems are in
  Props/C16.lean.
-/
import SonicSpec.Model.RW
namespace SonicSpec.RW

variable {pf : Bool}

/-! ### list helpers -/

theorem getElem?_set_ite {α} {l : List α} {i j : Nat} {x y : α} (hi : l[i]? = some x) :
    (l.set i y)[j]? = if i = j then some y else l[j]? := by
  have hlt : i < l.length := by
    rcases Nat.lt_or_ge i l.length with h | h
    · exact h
    · rw [List.getElem?_eq_none_iff.mpr h] at hi; cases hi
  rw [List.getElem?_set]
  by_cases h : i = j
  · subst h; simp [hlt]
  · simp [h]

theorem set_same {α} {l : List α} {i : Nat} {x : α} (hi : l[i]? = some x) : l.set i x = l := by
  apply List.ext_getElem?
  intro j
  rw [getElem?_set_ite hi]
  by_cases h : i = j
  · subst h; simp [hi]
  · simp [h]

/-! ### the invariant -/

def AllWritesIn (hist : List Acc) (hb : List Nat) : Prop := ∀ a ∈ hist, a.wr = true → a.id ∈ hb

def RawFacts (sh : Sh) (a : Abs) (g : Nat) : Prop := a.lk = true → sh.t = .raw ∧ g = sh.tg

def NonRawFacts (sh : Sh) (th : Th) (g : Nat) : Prop :=
  sh.t ≠ .raw ∧ g = sh.tg ∧ AllWritesIn sh.hist th.hb

def KnowOK (sh : Sh) (th : Th) (a : Abs) : Prop :=
  match a.k with
  | .none => th.tv = none
  | .unk => ∃ v g, th.tv = some (v, g) ∧ (v = .raw → RawFacts sh a g) ∧ (v ≠ .raw → NonRawFacts sh th g)
  | .raw => ∃ g, th.tv = some (.raw, g) ∧ RawFacts sh a g
  | .nonraw => ∃ v g, th.tv = some (v, g) ∧ v ≠ .raw ∧ NonRawFacts sh th g

/-- the concrete state of thread `i` agrees with the abstract state `a` of the discipline check -/
structure ThOK (i : Nat) (sh : Sh) (th : Th) (a : Abs) : Prop where
  hW : a.hW = true ↔ sh.w = some i
  hR : a.hR = true ↔ i ∈ sh.r
  lkHeld : a.lk = true → a.hR = true ∨ a.hW = true
  wlw : a.hW = true → sh.wl = a.wl ∧ sh.wp = a.wp ∧ sh.wc = a.wc
  wlH : a.wl = true → a.hW = true
  wpH : a.wp = true → a.hW = true
  wcH : a.wc = true → a.hW = true
  nofault : th.fault = false
  mread : a.mread = true → th.mv = true
  lv : a.lv = true → th.lockv = true
  know : KnowOK sh th a
  view : th.viewOK = true
  tvok : ∀ v g, th.tv = some (v, g) → v ≠ .err

/-- `b` is older than `a`; if they conflict, `b` is in the happens-before set of `a`'s thread -/
def OrdRel (ths : List Th) (a b : Acc) : Prop :=
  conflict b a = true → ∀ th, ths[a.tid]? = some th → b.id ∈ th.hb

structure Glob (s : State) : Prop where
  m : s.sh.m = true
  norace : s.sh.race = false
  noerr : s.sh.t ≠ .err
  excl : ∀ i, s.sh.w = some i → s.sh.r = []
  wfree : s.sh.w = none → s.sh.wl = false ∧ s.sh.wp = false ∧ s.sh.wc = false
  gRaw : s.sh.t = .raw → s.sh.tg = 0 ∧ s.sh.l = (if s.sh.wl then 1 else 0) ∧ s.sh.p = (if s.sh.wp then 1 else 0)
  gParsed : s.sh.t = .parsed → s.sh.tg = 1 ∧ s.sh.l = 1 ∧ s.sh.p = 1
  hbT : s.sh.t ≠ .raw → AllWritesIn s.sh.hist s.sh.relT
  wrBy : s.sh.t = .raw → ∀ a ∈ s.sh.hist, a.wr = true → s.sh.w = some a.tid ∧ (s.sh.wl = true ∨ s.sh.wp = true ∨ s.sh.wc = true)
  wrAtomicT : ∀ a ∈ s.sh.hist, a.wr = true → a.f = .t → a.atomic = true
  wrNotM : ∀ a ∈ s.sh.hist, a.wr = true → a.f ≠ .m
  atomicT : ∀ a ∈ s.sh.hist, a.atomic = true → a.f = .t
  rdRel : s.sh.t = .raw → ∀ a ∈ s.sh.hist, a.wr = false → a.atomic = false → a.f ≠ .m →
            a.id ∈ s.sh.relR ∨ a.id ∈ s.sh.relW ∨ s.sh.w = some a.tid ∨ a.tid ∈ s.sh.r
  holdHB : ∀ i th, s.ths[i]? = some th →
            (s.sh.w = some i → (∀ x ∈ s.sh.relR, x ∈ th.hb) ∧ (∀ x ∈ s.sh.relW, x ∈ th.hb)) ∧
            (i ∈ s.sh.r → ∀ x ∈ s.sh.relW, x ∈ th.hb)
  own : ∀ a ∈ s.sh.hist, ∀ th, s.ths[a.tid]? = some th → a.id ∈ th.hb
  ordered : s.sh.hist.Pairwise (OrdRel s.ths)   -- the history is newest first
  rawNoStore : s.sh.t = .raw → ∀ a ∈ s.sh.hist, (a.f == .t && a.wr && a.atomic) = false
  noWriteAfterStore : s.sh.hist.Pairwise (fun a b => (b.f == .t && b.wr && b.atomic) = true → a.wr = false)

theorem ordered_mono {ths : List Th} {i : Nat} {th th' : Th} {hist : List Acc}
    (h : hist.Pairwise (OrdRel ths)) (hth : ths[i]? = some th) (hsub : ∀ x ∈ th.hb, x ∈ th'.hb) :
    hist.Pairwise (OrdRel (ths.set i th')) := by
  apply h.imp
  intro a b hab hc th'' hth''
  rw [getElem?_set_ite hth] at hth''
  by_cases hi : i = a.tid
  · simp only [hi, if_true] at hth''
    cases hth''
    exact hsub _ (hab hc th (hi ▸ hth))
  · simp only [hi, if_false] at hth''
    exact hab hc th'' hth''

/-- a new access `acc` of thread `i` all of whose conflicting predecessors are in `i`'s new hb -/
theorem ordered_cons {ths : List Th} {i : Nat} {th th' : Th} {hist : List Acc} {acc : Acc}
    (h : hist.Pairwise (OrdRel ths)) (hth : ths[i]? = some th) (hsub : ∀ x ∈ th.hb, x ∈ th'.hb)
    (hacc : acc.tid = i) (hnew : ∀ b ∈ hist, conflict b acc = true → b.id ∈ th'.hb) :
    (acc :: hist).Pairwise (OrdRel (ths.set i th')) := by
  refine List.pairwise_cons.mpr ⟨?_, ordered_mono h hth hsub⟩
  intro b hb hc th'' hth''
  rw [getElem?_set_ite hth, hacc] at hth''
  simp only [if_true] at hth''
  cases hth''
  exact hnew b hb hc

def ThsOK (pf : Bool) (s : State) : Prop :=
  ∀ i th, s.ths[i]? = some th → ∃ a, safe pf a th.prog = true ∧ ThOK i s.sh th a

def Inv (pf : Bool) (s : State) : Prop := Glob s ∧ ThsOK pf s

/-! ### frame lemmas: what a step of thread `i` leaves intact for another thread `j` -/

/-- F1: the history grows by a non-write access; the thread itself may have extended its
    happens-before set and changed registers other than `tv` -/
theorem ThOK.read_step {j : Nat} {sh sh' : Sh} {th th' : Th} {a : Abs} {acc : Acc}
    (h : ThOK j sh th a) (hacc : acc.wr = false)
    (hw : sh'.w = sh.w) (hr : sh'.r = sh.r) (hwl : sh'.wl = sh.wl) (hwp : sh'.wp = sh.wp) (hwc : sh'.wc = sh.wc)
    (ht : sh'.t = sh.t) (htg : sh'.tg = sh.tg) (hh : sh'.hist = acc :: sh.hist)
    (htv : th'.tv = th.tv) (hhb : ∀ x ∈ th.hb, x ∈ th'.hb) (hf : th'.fault = th.fault)
    (hmv : a.mread = true → th'.mv = true) (hlv : th'.lockv = th.lockv) (hview : th'.viewOK = true) :
    ThOK j sh' th' a := by
  refine { hW := (by rw [hw]; exact h.hW), hR := (by rw [hr]; exact h.hR), lkHeld := h.lkHeld,
           wlw := (by rw [hwl, hwp, hwc]; exact h.wlw), wlH := h.wlH, wpH := h.wpH, wcH := h.wcH,
           nofault := (by rw [hf]; exact h.nofault), mread := hmv, tvok := (by rw [htv]; exact h.tvok),
           lv := (by rw [hlv]; exact h.lv), know := ?_, view := hview }
  have hk := h.know
  have hall : ∀ g, NonRawFacts sh th g → NonRawFacts sh' th' g := by
    intro g ⟨h1, h2, h3⟩
    refine ⟨by rw [ht]; exact h1, by rw [htg]; exact h2, ?_⟩
    intro b hb hbw
    rw [hh] at hb
    rcases List.mem_cons.mp hb with rfl | hb
    · rw [hacc] at hbw; cases hbw
    · exact hhb _ (h3 b hb hbw)
  have hraw : ∀ g, RawFacts sh a g → RawFacts sh' a g := by
    intro g hg hl; rw [ht, htg]; exact hg hl
  unfold KnowOK at hk ⊢
  rw [htv]
  cases hka : a.k <;> rw [hka] at hk <;> simp only at hk ⊢
  · exact hk
  · obtain ⟨v, g, h1, h2, h3⟩ := hk
    exact ⟨v, g, h1, fun hv => hraw g (h2 hv), fun hv => hall g (h3 hv)⟩
  · obtain ⟨g, h1, h2⟩ := hk
    exact ⟨g, h1, hraw g h2⟩
  · obtain ⟨v, g, h1, h2, h3⟩ := hk
    exact ⟨v, g, h1, h2, hall g h3⟩

theorem ThOK.frame_read {j : Nat} {sh sh' : Sh} {th : Th} {a : Abs} {acc : Acc}
    (h : ThOK j sh th a) (hacc : acc.wr = false)
    (hw : sh'.w = sh.w) (hr : sh'.r = sh.r) (hwl : sh'.wl = sh.wl) (hwp : sh'.wp = sh.wp) (hwc : sh'.wc = sh.wc)
    (ht : sh'.t = sh.t) (htg : sh'.tg = sh.tg) (hh : sh'.hist = acc :: sh.hist) : ThOK j sh' th a :=
  h.read_step hacc hw hr hwl hwp hwc ht htg hh rfl (fun _ hx => hx) rfl h.mread rfl h.view

/-- F2: only the mutex state / the release sets change, and not for `j` -/
theorem ThOK.frame_lock {j : Nat} {sh sh' : Sh} {th : Th} {a : Abs}
    (h : ThOK j sh th a)
    (hw : sh'.w = some j ↔ sh.w = some j) (hr : j ∈ sh'.r ↔ j ∈ sh.r)
    (hwl : sh'.wl = sh.wl) (hwp : sh'.wp = sh.wp) (hwc : sh'.wc = sh.wc)
    (ht : sh'.t = sh.t) (htg : sh'.tg = sh.tg) (hh : sh'.hist = sh.hist) : ThOK j sh' th a := by
  refine { h with hW := (by rw [hw]; exact h.hW), hR := (by rw [hr]; exact h.hR),
                  wlw := (by rw [hwl, hwp, hwc]; exact h.wlw), know := ?_ }
  have hk := h.know
  unfold KnowOK RawFacts NonRawFacts at hk ⊢
  rw [ht, htg, hh]
  exact hk

/-- F3: the write-lock holder `i ≠ j` changes the node while `t` is still raw -/
theorem ThOK.frame_write {i j : Nat} {sh sh' : Sh} {th : Th} {a : Abs}
    (h : ThOK j sh th a) (hij : j ≠ i) (hwi : sh.w = some i) (hri : sh.r = []) (hraw : sh.t = .raw)
    (hw : sh'.w = sh.w) (hr : sh'.r = sh.r) : ThOK j sh' th a := by
  have hW : a.hW = false := by
    cases hx : a.hW
    · rfl
    · have := h.hW.mp hx; rw [hwi] at this; injection this with this; exact absurd this.symm hij
  have hR : a.hR = false := by
    cases hx : a.hR
    · rfl
    · have := h.hR.mp hx; rw [hri] at this; cases this
  have hlk : a.lk = false := by
    cases hx : a.lk
    · rfl
    · rcases h.lkHeld hx with h1 | h1
      · rw [hR] at h1; cases h1
      · rw [hW] at h1; cases h1
  refine { h with hW := (by rw [hw]; exact h.hW), hR := (by rw [hr]; exact h.hR),
                  wlw := (by intro hx; rw [hW] at hx; cases hx), know := ?_ }
  have hk := h.know
  unfold KnowOK at hk ⊢
  have hnr : ∀ g, NonRawFacts sh th g → False := fun g hg => hg.1 hraw
  have hrf : ∀ g, RawFacts sh' a g := by intro g hl; rw [hlk] at hl; cases hl
  cases hka : a.k <;> rw [hka] at hk <;> simp only at hk ⊢
  · exact hk
  · obtain ⟨v, g, h1, h2, h3⟩ := hk
    exact ⟨v, g, h1, fun _ => hrf g, fun hv => (hnr g (h3 hv)).elim⟩
  · obtain ⟨g, h1, _⟩ := hk
    exact ⟨g, h1, hrf g⟩
  · obtain ⟨v, g, _, _, h3⟩ := hk
    exact (hnr g h3).elim

end SonicSpec.RW
