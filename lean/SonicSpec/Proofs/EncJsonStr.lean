/-
  Helper lemmas about the strict string scanner of Model/JsonTree.lean: which bodies it accepts
  (`StrOK`), closure under plain bytes and escapes, and soundness of what it returns.
-/
import SonicSpec.Model.JsonTree
namespace SonicSpec.Enc
open SonicSpec SonicSpec.Json

/-- a raw body the strict scanner reads back exactly, whatever follows the closing quote -/
def StrOK (b : Bytes) : Prop := ∀ rest, scanString (b ++ 34 :: rest) = some (b, rest)

/-- a byte that may stand unescaped inside a string literal -/
def Plain (c : UInt8) : Prop := ¬ c < 32 ∧ c ≠ 92 ∧ c ≠ 34

instance : DecidablePred Plain := fun c => by unfold Plain; infer_instance

theorem StrOK_nil : StrOK [] := by
  intro rest; simp [scanString]

theorem scanString_plain {c : UInt8} (h : Plain c) (r : Bytes) :
    scanString (c :: r) = (scanString r).map fun (bt : Bytes × Bytes) => (c :: bt.1, bt.2) := by
  obtain ⟨h1, h2, h3⟩ := h
  rw [scanString.eq_def]
  split
  · rename_i heq; cases heq
  · rename_i heq; injection heq with a b; exact absurd a h3
  · rename_i heq; injection heq with a b; exact absurd a h2
  · rename_i heq; injection heq with a b; exact absurd a h2
  · rename_i heq
    injection heq with a b
    subst a; subst b
    simp [h1, h2]

theorem StrOK_plain {c : UInt8} (h : Plain c) {b : Bytes} (hb : StrOK b) : StrOK (c :: b) := by
  intro rest
  show scanString (c :: (b ++ 34 :: rest)) = _
  rw [scanString_plain h, hb rest]; rfl

theorem StrOK_esc2 {e : UInt8}
    (he : (e == 34 || e == 92 || e == 47 || e == 98 || e == 102 || e == 110 || e == 114 || e == 116) = true)
    {b : Bytes} (hb : StrOK b) : StrOK (92 :: e :: b) := by
  intro rest
  show scanString (92 :: e :: (b ++ 34 :: rest)) = _
  simp only [Bool.or_eq_true, beq_iff_eq] at he
  rcases he with ((((((h | h) | h) | h) | h) | h) | h) | h <;> subst h <;> simp [scanString, hb rest]

theorem StrOK_u {a b c d : UInt8} (h : (isHex a && isHex b && isHex c && isHex d) = true)
    {t : Bytes} (ht : StrOK t) : StrOK (92 :: 117 :: a :: b :: c :: d :: t) := by
  intro rest
  show scanString (92 :: 117 :: a :: b :: c :: d :: (t ++ 34 :: rest)) = _
  simp only [scanString, h, if_true, ht rest, Option.map]

theorem StrOK_append_plain {p : Bytes} (hp : ∀ c ∈ p, Plain c) {b : Bytes} (hb : StrOK b) : StrOK (p ++ b) := by
  induction p with
  | nil => simpa using hb
  | cons c r ih =>
    have h1 : Plain c := hp c (by simp)
    have h2 : StrOK (r ++ b) := ih (fun x hx => hp x (by simp [hx]))
    exact StrOK_plain h1 h2

/-- soundness: whatever the scanner returns as a body is a body it reads back -/
theorem scanString_sound : ∀ (s b t : Bytes), scanString s = some (b, t) → StrOK b ∧ s = b ++ 34 :: t := by
  intro s
  induction s using scanString.induct with
  | case1 => intro b t h; simp [scanString] at h
  | case2 r =>
    intro b t h
    simp [scanString] at h
    obtain ⟨h1, h2⟩ := h
    subst h1; subst h2
    exact ⟨StrOK_nil, rfl⟩
  | case3 a b c d r hhex ih =>
    intro body t h
    simp only [scanString, hhex, if_true] at h
    cases hr : scanString r with
    | none => simp [hr] at h
    | some bt =>
      obtain ⟨b', t'⟩ := bt
      simp [hr] at h
      obtain ⟨h1, h2⟩ := h
      subst h1; subst h2
      obtain ⟨i1, i2⟩ := ih b' t' hr
      exact ⟨StrOK_u hhex i1, by simp [i2]⟩
  | case4 a b c d r hhex =>
    intro body t h
    simp [scanString, hhex] at h
  | case5 e r hne hok ih =>
    intro body t h
    rw [scanString.eq_def] at h
    split at h
    · rename_i heq; cases heq
    · rename_i heq; cases heq
    · rename_i heq
      injection heq with _ heq
      injection heq with h1 h2
      exact (hne _ _ _ _ _ h1 h2).elim
    · rename_i e' r' _ heq
      injection heq with _ heq
      injection heq with h1 h2
      subst h1; subst h2
      simp only [hok, if_true] at h
      cases hr : scanString r with
      | none => simp [hr] at h
      | some bt =>
        obtain ⟨b', t'⟩ := bt
        simp [hr] at h
        obtain ⟨h1, h2⟩ := h
        subst h1; subst h2
        obtain ⟨i1, i2⟩ := ih b' t' hr
        refine ⟨?_, by simp [i2]⟩
        exact StrOK_esc2 hok i1
    · rename_i h2 h3 heq
      injection heq with h1 hr
      exact (h3 e r h1.symm hr.symm).elim
  | case6 e r hne hbad =>
    intro body t h
    rw [scanString.eq_def] at h
    split at h
    · rename_i heq; cases heq
    · rename_i heq; cases heq
    · rename_i heq
      injection heq with _ heq
      injection heq with h1 h2
      exact (hne _ _ _ _ _ h1 h2).elim
    · rename_i e' r' _ heq
      injection heq with _ heq
      injection heq with h1 h2
      subst h1; subst h2
      simp [hbad] at h
    · rename_i h2 h3 heq
      injection heq with h1 hr
      exact (h3 e r h1.symm hr.symm).elim
  | case7 c r h1 h2 h3 hbad =>
    intro body t h
    rw [scanString.eq_def] at h
    split at h
    · rename_i heq; cases heq
    · rename_i heq; injection heq with a b; exact absurd a h1
    · rename_i heq; injection heq with a b; exact (h2 _ _ _ _ _ a b).elim
    · rename_i heq; injection heq with a b; exact (h3 _ _ a b).elim
    · rename_i heq
      injection heq with a b
      subst a; subst b
      simp at hbad
      simp [hbad] at h
  | case8 c r h1 h2 h3 hok ih =>
    intro body t h
    have hp : Plain c := by
      simp at hok
      exact ⟨by simpa using hok.1, hok.2, fun hh => h1 hh⟩
    rw [scanString_plain hp] at h
    cases hr : scanString r with
    | none => simp [hr] at h
    | some bt =>
      obtain ⟨b', t'⟩ := bt
      simp [hr] at h
      obtain ⟨e1, e2⟩ := h
      subst e1; subst e2
      obtain ⟨i1, i2⟩ := ih b' t' hr
      exact ⟨StrOK_plain hp i1, by simp [i2]⟩

end SonicSpec.Enc
