/-
  C15 - the refinement theorem: single operations, operations addressed through a path, sequences.
-/
import SonicSpec.Proofs.AstSort
import SonicSpec.Proofs.AstMove
set_option linter.unusedSimpArgs false
namespace SonicSpec.Ast

theorem checkRaw_idem (n : NodeM) : n.checkRaw.checkRaw = n.checkRaw := by
  cases n with
  | raw v lock => exact checkRaw_of_not_raw _ (parse1_spec lock v).2.2
  | _ => rfl

/-- one operation on the node itself -/
theorem stepHere_refines (n : NodeM) (op : Op) (hr : n.repOk = true) (hs : n.safeHere op = true) :
    Refines (n.stepHere op) (n.abs.stepHere op) := by
  obtain ⟨c1, c2, c3⟩ := checkRaw_spec n hr
  have hidem := checkRaw_idem n
  cases op with
  | get k =>
    have e : n.stepHere (.get k) = n.checkRaw.stepHere (.get k) := by simp only [NodeM.stepHere, hidem]
    rw [e, ← c1]; exact here_get _ k c2 c3
  | idx i =>
    have e : n.stepHere (.idx i) = n.checkRaw.stepHere (.idx i) := by simp only [NodeM.stepHere, hidem]
    rw [e, ← c1]; exact here_idx _ i c2 c3
  | len =>
    have e : n.stepHere .len = n.checkRaw.stepHere .len := by simp only [NodeM.stepHere, hidem]
    rw [e, ← c1]; exact here_len _ c2 c3 (by simpa [NodeM.safeHere, NodeM.lenSafe, hidem] using hs)
  | iter =>
    have e : n.stepHere .iter = n.checkRaw.stepHere .iter := by simp only [NodeM.stepHere, hidem]
    rw [e, ← c1]; exact here_iter _ c2 c3
  | set k v =>
    have e : n.stepHere (.set k v) = n.checkRaw.stepHere (.set k v) := by simp only [NodeM.stepHere, hidem]
    rw [e, ← c1]; exact here_set _ k v c2 c3
  | seti i v =>
    have e : n.stepHere (.seti i v) = n.checkRaw.stepHere (.seti i v) := by simp only [NodeM.stepHere, hidem]
    rw [e, ← c1]; exact here_seti _ i v c2 c3
  | add v =>
    have e : n.stepHere (.add v) = n.checkRaw.stepHere (.add v) := by simp only [NodeM.stepHere, hidem]
    rw [e, ← c1]; exact here_add _ v c2 c3
  | unset k =>
    have e : n.stepHere (.unset k) = n.checkRaw.stepHere (.unset k) := by simp only [NodeM.stepHere, hidem]
    rw [e, ← c1]; exact here_unset _ k c2 c3
  | unseti i =>
    have e : n.stepHere (.unseti i) = n.checkRaw.stepHere (.unseti i) := by simp only [NodeM.stepHere, hidem]
    rw [e, ← c1]; exact here_unseti _ i c2 c3
  | pop =>
    have e : n.stepHere .pop = n.checkRaw.stepHere .pop := by simp only [NodeM.stepHere, hidem]
    rw [e, ← c1]; exact here_pop _ c2 c3
  | move d s =>
    have e : n.stepHere (.move d s) = n.checkRaw.stepHere (.move d s) := by simp only [NodeM.stepHere, hidem]
    rw [e, ← c1]; exact here_move _ d s c2 c3
  | sort r => exact here_sort n r hr
  | load => exact here_load n hr
  | raw => exact here_raw n hr
  | mar => exact here_mar n hr

/-! ### walking to the addressed node -/

theorem repOk_live (n : NodeM) (h : n.repOk = true) : n.live = true := by
  cases n <;> simp [NodeM.repOk, NodeM.live] at h ⊢

theorem child_idx (t : Tree) (i : Nat) : t.child? (.idx i) = t.kidAt i ∧ ∀ c, t.setChild (.idx i) c = t.setKid i c := by
  cases t <;> simp [Tree.child?, Tree.kidAt, Tree.setChild, Tree.setKid] <;> intro c <;> rfl

theorem child_key_found (kvs : List (Key × Tree)) (k : Key) (i : Nat) (h : findKey k kvs = some i) :
    (Tree.obj kvs).child? (.key k) = (Tree.obj kvs).kidAt i ∧
    ∀ c, (Tree.obj kvs).setChild (.key k) c = (Tree.obj kvs).setKid i c := by
  refine ⟨by simp [Tree.child?, Tree.kidAt, h], fun c => ?_⟩
  rw [setKid_obj_key kvs k i c h]
  simp [Tree.setChild, h]

theorem child_key_none (t : Tree) (k : Key) (h : t.kind ≠ .obj) : t.child? (.key k) = none := by
  cases t <;> simp [Tree.kind] at h <;> rfl

theorem child_idx_none (t : Tree) (i : Nat) (h1 : t.kind ≠ .arr) (h2 : t.kind ≠ .obj) : t.child? (.idx i) = none := by
  cases t <;> simp [Tree.kind] at h1 h2 <;> rfl

theorem locate_spec (n : NodeM) (s : Sel) (hr : n.repOk = true) :
    (n.locate s).1.abs = n.abs ∧ (n.locate s).1.repOk = true ∧
    (match (n.locate s).2 with
     | some j => ∃ i, FoundAt (n.locate s).1 j i ∧ n.abs.child? s = n.abs.kidAt i ∧
         ∀ c, n.abs.setChild s c = n.abs.setKid i c
     | none => n.abs.child? s = none) := by
  obtain ⟨c1, c2, c3⟩ := checkRaw_spec n hr
  have hka := kind_abs _ c2
  rw [c1] at hka
  cases s with
  | key k =>
    simp only [NodeM.locate]
    by_cases hk : n.checkRaw.kind = .obj
    · rw [if_neg (by simp [hk])]
      obtain ⟨s1, s2, s3, s4⟩ := skipKey_spec _ k c2 c3 hk
      cases hf : (n.checkRaw.skipKey k).2 with
      | no =>
        simp only [hf] at s4 ⊢
        obtain ⟨⟨kvs, ha, hfk⟩, _⟩ := s4
        rw [c1] at ha
        refine ⟨by rw [s1, c1], s2, ?_⟩
        rw [ha]; simp [Tree.child?, hfk]
      | «at» j =>
        simp only [hf] at s4 ⊢
        obtain ⟨i, kvs, hfa, ha, hfk⟩ := s4
        rw [c1] at ha
        obtain ⟨k1, k2⟩ := child_key_found kvs k i hfk
        refine ⟨by rw [s1, c1], s2, i, hfa, ?_, ?_⟩
        · rw [ha]; exact k1
        · rw [ha]; exact k2
    · rw [if_pos (by simpa using hk)]
      refine ⟨c1, c2, ?_⟩
      exact child_key_none _ _ (by rw [← hka]; exact hk)
  | idx i =>
    simp only [NodeM.locate]
    by_cases hk : n.checkRaw.kind ≠ .arr ∧ n.checkRaw.kind ≠ .obj
    · rw [if_pos hk]
      exact ⟨c1, c2, child_idx_none _ _ (by rw [← hka]; exact hk.1) (by rw [← hka]; exact hk.2)⟩
    · rw [if_neg hk]
      obtain ⟨s1, s2, s3, s4⟩ := skipIndex_spec _ i c2 c3
      obtain ⟨k1, k2⟩ := child_idx n.abs i
      refine ⟨by rw [s1, c1], s2, ?_⟩
      cases hf : (n.checkRaw.skipIndex i).2 with
      | none =>
        simp only [hf] at s4 ⊢
        rw [k1, ← c1]; exact s4
      | some j =>
        simp only [hf] at s4 ⊢
        exact ⟨i, s4, k1, k2⟩

theorem stepAt_cons_tree (t : Tree) (s : Sel) (p : List Sel) (op : Op) :
    t.stepAt (s :: p) op =
      match t.child? s with
      | none => (.notarget, t)
      | some c => ((c.stepAt p op).1, t.setChild s (c.stepAt p op).2) := rfl

/-- an operation addressed through a path -/
theorem stepAt_refines : ∀ (p : List Sel) (op : Op) (n : NodeM), n.repOk = true → n.safeAt p op = true →
    Refines (n.stepAt p op) (n.abs.stepAt p op)
  | [], op, n, hr, hs => stepHere_refines n op hr hs
  | s :: p, op, n, hr, hs => by
    simp only [NodeM.safeAt] at hs
    obtain ⟨l1, l2, l4⟩ := locate_spec n s hr
    rw [stepAt_cons_tree]
    simp only [NodeM.stepAt]
    cases hf : (n.locate s).2 with
    | none =>
      simp only [hf] at l4 ⊢
      rw [l4]; exact ⟨rfl, l1, l2⟩
    | some j =>
      simp only [hf] at l4 hs ⊢
      obtain ⟨i, hfa, hc, hset⟩ := l4
      have hfa' := hfa
      obtain ⟨c, c1, c2, c3, c4, c5⟩ := hfa
      simp only [c1, c2, if_true] at hs ⊢
      rw [l1] at c4
      rw [hc, c4]
      obtain ⟨q1, q2, q3⟩ := stepAt_refines p op c c3 hs
      obtain ⟨e1, e2⟩ := setChildAt_spec _ j i (c.stepAt p op).2 l2 hfa' (repOk_live _ q3) q3
      refine ⟨q1, ?_, e2⟩
      show ((n.locate s).1.setChildAt j (c.stepAt p op).2).abs = n.abs.setChild s (c.abs.stepAt p op).2
      rw [e1, l1, hset, q2]

theorem step_refines (n : NodeM) (o : POp) (hr : n.repOk = true) (hs : safeStep n o = true) :
    Refines (stepM n o) (step n.abs o) := stepAt_refines o.path o.op n hr hs

/-- whole sequences: every observation, and the canonical text of the root after every step -/
theorem run_refines : ∀ (ops : List POp) (n : NodeM), n.repOk = true → safeRun n ops = true →
    (runM n ops).1 = (run n.abs ops).1 ∧ (runM n ops).2.abs = (run n.abs ops).2 ∧ (runM n ops).2.repOk = true
  | [], n, hr, _ => ⟨rfl, rfl, hr⟩
  | o :: os, n, hr, hs => by
    simp only [safeRun, Bool.and_eq_true] at hs
    obtain ⟨q1, q2, q3⟩ := step_refines n o hr hs.1
    obtain ⟨i1, i2, i3⟩ := run_refines os (stepM n o).2 q3 hs.2
    simp only [runM, run]
    rw [← q2]
    refine ⟨?_, i2, i3⟩
    rw [i1, q1]
    simp only [NodeM.canon, (encode_spec _ q3).1]


/-! ### without `Len` nothing is excluded -/

theorem safeAt_of_not_len (op : Op) (h : op.isLen = false) : ∀ (p : List Sel) (n : NodeM), n.safeAt p op = true
  | [], n => by cases op <;> simp [Op.isLen] at h <;> rfl
  | s :: p, n => by
    simp only [NodeM.safeAt]
    cases (n.locate s).2 with
    | none => rfl
    | some i =>
      simp only
      cases (n.locate s).1.childAt i with
      | none => rfl
      | some c =>
        simp only
        by_cases hc : c.live = true
        · rw [if_pos hc]; exact safeAt_of_not_len op h p c
        · rw [if_neg hc]

theorem safeRun_of_no_len : ∀ (ops : List POp) (n : NodeM), (∀ o ∈ ops, o.op.isLen = false) → safeRun n ops = true
  | [], _, _ => rfl
  | o :: os, n, h => by
    simp only [safeRun, safeStep, Bool.and_eq_true]
    exact ⟨safeAt_of_not_len o.op (h o (by simp)) o.path n,
      safeRun_of_no_len os _ (fun o' ho' => h o' (by simp [ho']))⟩


/-! ### `Len` on loaded nodes -/

theorem safeHere_of_lenSafe (n : NodeM) (op : Op) (hl : n.lenSafe = true) : n.safeHere op = true := by
  cases op <;> first | rfl | exact hl

/-- after an iteration (`Values`/`Properties` to the end) the node is completely loaded -/
theorem lenSafe_after_iter (n : NodeM) (hr : n.repOk = true) : (n.stepHere .iter).2.lenSafe = true := by
  obtain ⟨c1, c2, c3⟩ := checkRaw_spec n hr
  simp only [NodeM.stepHere]
  cases hcr : n.checkRaw with
  | raw v lock => rw [hcr] at c3; simp [NodeM.isRaw] at c3
  | arrLazy pre rest => simp [NodeM.kind, NodeM.skipAll, NodeM.lenSafe, NodeM.checkRaw]
  | objLazy pre rest => simp [NodeM.kind, NodeM.skipAll, NodeM.lenSafe, NodeM.checkRaw, mkObject]
  | arr l st => simp [NodeM.kind, NodeM.skipAll, NodeM.lenSafe, NodeM.checkRaw]
  | obj l st ix => simp [NodeM.kind, NodeM.skipAll, NodeM.lenSafe, NodeM.checkRaw]
  | gone => simp [NodeM.kind, NodeM.lenSafe, NodeM.checkRaw]
  | null => simp [NodeM.kind, NodeM.lenSafe, NodeM.checkRaw]
  | bool b => simp [NodeM.kind, NodeM.lenSafe, NodeM.checkRaw]
  | num x => simp [NodeM.kind, NodeM.lenSafe, NodeM.checkRaw]
  | str x => simp [NodeM.kind, NodeM.lenSafe, NodeM.checkRaw]

end SonicSpec.Ast
