/-
  Helper lemmas for C19: round-half-even of a rational to a binary floating-point number.
-/
import SonicSpec.Model.Num
import SonicSpec.Model.NumSpec
namespace SonicSpec.Num

/-- `rne N D` is a nearest integer to N/D, and on a tie it is even -/
theorem rne_nearest (N D : Nat) (hD : 0 < D) :
    (2 * (N - rne N D * D) ≤ D ∧ 2 * (rne N D * D - N) ≤ D) ∧
    ((2 * (N - rne N D * D) = D ∨ 2 * (rne N D * D - N) = D) → rne N D % 2 = 0) := by
  have h1 := Nat.div_add_mod N D
  have h2 := Nat.mod_lt N hD
  simp only [rne]
  generalize N / D = q at *
  generalize N % D = r at *
  have e1 : (q + 1) * D = q * D + D := by rw [Nat.add_mul, Nat.one_mul]
  have e2 : D * q = q * D := Nat.mul_comm _ _
  split
  · omega
  · split
    · rw [e1]; omega
    · split
      · omega
      · rw [e1]; omega

/-- `rne` lies between the floor and the floor plus one -/
theorem rne_bounds (N D : Nat) : N / D ≤ rne N D ∧ rne N D ≤ N / D + 1 := by
  simp only [rne]
  repeat' split
  all_goals omega

/-- bounds on the quotient carry over to `rne` -/
theorem rne_le_of_lt (N D B : Nat) (hD : 0 < D) (h : N < B * D) : rne N D ≤ B := by
  have := (rne_bounds N D).2
  have h2 : N / D < B := (Nat.div_lt_iff_lt_mul hD).mpr h
  omega

theorem le_rne_of_le (N D B : Nat) (hD : 0 < D) (h : B * D ≤ N) : B ≤ rne N D := by
  have := (rne_bounds N D).1
  have h2 : B ≤ N / D := (Nat.le_div_iff_mul_le hD).mpr h
  omega

/-- the exponent chosen by `roundNat` before rounding: `N / (D * 2^t)` is in `[2^(p-1), 2^p)`
    (only the upper bound in the subnormal range `t = 0`) -/
def binadeExp (p N D : Nat) : Nat :=
  let t0 := Nat.log2 N - Nat.log2 D - p
  if 2 ^ p * (D * 2 ^ t0) ≤ N then t0 + 1 else t0

theorem binadeExp_spec (p N D : Nat) (hN : N ≠ 0) (hD : D ≠ 0) (hp : 1 ≤ p) :
    N < 2 ^ p * (D * 2 ^ binadeExp p N D) ∧
    (0 < binadeExp p N D → 2 ^ (p - 1) * (D * 2 ^ binadeExp p N D) ≤ N) := by
  have ha1 := Nat.log2_self_le hN
  have ha2 := @Nat.lt_log2_self N
  have hb1 := Nat.log2_self_le hD
  have hb2 := @Nat.lt_log2_self D
  simp only [binadeExp]
  generalize Nat.log2 N = a at *
  generalize Nat.log2 D = b at *
  -- upper bound before the correction: N < 2^(p+1) * (D * 2^t0)
  have hA : N < 2 ^ (p + 1) * (D * 2 ^ (a - b - p)) := by
    have h1 : a + 1 ≤ (p + 1) + (b + (a - b - p)) := by omega
    have h2 : 2 ^ (a + 1) ≤ 2 ^ ((p + 1) + (b + (a - b - p))) := Nat.pow_le_pow_right (by omega) h1
    have h4 : 2 ^ ((p + 1) + (b + (a - b - p))) = 2 ^ (p + 1) * (2 ^ b * 2 ^ (a - b - p)) := by
      simp only [Nat.pow_add, Nat.mul_assoc]
    have h3 : 2 ^ (p + 1) * (2 ^ b * 2 ^ (a - b - p)) ≤ 2 ^ (p + 1) * (D * 2 ^ (a - b - p)) :=
      Nat.mul_le_mul (Nat.le_refl _) (Nat.mul_le_mul hb1 (Nat.le_refl _))
    rw [h4] at h2
    exact Nat.lt_of_lt_of_le ha2 (Nat.le_trans h2 h3)
  -- lower bound before the correction, when t0 > 0
  have hB : 0 < a - b - p → 2 ^ (p - 1) * (D * 2 ^ (a - b - p)) ≤ N := by
    intro ht
    have h1 : (p - 1) + ((b + 1) + (a - b - p)) = a := by omega
    have h2 : 2 ^ (p - 1) * (D * 2 ^ (a - b - p)) ≤ 2 ^ (p - 1) * (2 ^ (b + 1) * 2 ^ (a - b - p)) :=
      Nat.mul_le_mul (Nat.le_refl _) (Nat.mul_le_mul (Nat.le_of_lt hb2) (Nat.le_refl _))
    have h4 : 2 ^ (p - 1) * (2 ^ (b + 1) * 2 ^ (a - b - p)) = 2 ^ ((p - 1) + ((b + 1) + (a - b - p))) := by
      simp only [Nat.pow_add, Nat.mul_assoc]
    rw [h4, h1] at h2
    exact Nat.le_trans h2 ha1
  have hpp : 2 ^ (p + 1) = 2 * 2 ^ p := by rw [Nat.pow_succ, Nat.mul_comm]
  have hpm : 2 ^ p = 2 * 2 ^ (p - 1) := by
    have : p = (p - 1) + 1 := by omega
    rw [this, Nat.pow_succ, Nat.mul_comm]; simp
  generalize a - b - p = t0 at *
  have hs : D * 2 ^ (t0 + 1) = 2 * (D * 2 ^ t0) := by
    rw [Nat.pow_succ]; ac_rfl
  split
  · rename_i hc
    rw [hs]
    constructor
    · rw [hpp] at hA
      have : 2 ^ p * (2 * (D * 2 ^ t0)) = 2 * 2 ^ p * (D * 2 ^ t0) := by ac_rfl
      omega
    · intro _
      have : 2 ^ (p - 1) * (2 * (D * 2 ^ t0)) = 2 * 2 ^ (p - 1) * (D * 2 ^ t0) := by ac_rfl
      rw [this, ← hpm]
      exact hc
  · rename_i hc
    exact ⟨by omega, hB⟩

theorem roundNat_eq (p N D : Nat) :
    roundNat p N D =
      (if rne N (D * 2 ^ binadeExp p N D) = 2 ^ p then (2 ^ (p - 1), binadeExp p N D + 1)
       else (rne N (D * 2 ^ binadeExp p N D), binadeExp p N D)) := rfl

theorem two_pow_pred_lt (p : Nat) (hp : 1 ≤ p) : 2 ^ (p - 1) < 2 ^ p :=
  Nat.pow_lt_pow_right (by omega) (by omega)

/-- `roundNat` is IEEE round-to-nearest-even and returns a canonical pair -/
theorem roundNat_spec (p N D : Nat) (hN : N ≠ 0) (hD : D ≠ 0) (hp : 1 ≤ p) :
    IsRNE p N D (roundNat p N D).1 (roundNat p N D).2 ∧
    Canonical p (roundNat p N D).1 (roundNat p N D).2 := by
  obtain ⟨hup, hlo⟩ := binadeExp_spec p N D hN hD hp
  rw [roundNat_eq]
  generalize binadeExp p N D = t at *
  have hDt : 0 < D * 2 ^ t := Nat.mul_pos (Nat.pos_of_ne_zero hD) (Nat.two_pow_pos t)
  obtain ⟨⟨hn1, hn2⟩, htie⟩ := rne_nearest N (D * 2 ^ t) hDt
  have hq_le : rne N (D * 2 ^ t) ≤ 2 ^ p := rne_le_of_lt N _ (2 ^ p) hDt hup
  have hq_ge : 0 < t → 2 ^ (p - 1) ≤ rne N (D * 2 ^ t) := fun ht => le_rne_of_le N _ _ hDt (hlo ht)
  have hlt := two_pow_pred_lt p hp
  split
  · rename_i hc
    exact ⟨⟨rne N (D * 2 ^ t), t, hup, hlo, hn1, hn2, htie, Or.inr ⟨hc, rfl, rfl⟩⟩, hlt, fun _ => Nat.le_refl _⟩
  · rename_i hc
    have : rne N (D * 2 ^ t) < 2 ^ p := by omega
    exact ⟨⟨rne N (D * 2 ^ t), t, hup, hlo, hn1, hn2, htie, Or.inl ⟨rfl, rfl, this⟩⟩, this, hq_ge⟩

/-- the distance of the result from `N / D` is at most half a unit in the last place of the result -/
theorem IsRNE.half_ulp {p N D q t : Nat} (hp : 1 ≤ p) (h : IsRNE p N D q t) :
    2 * (N - q * (D * 2 ^ t)) ≤ D * 2 ^ t ∧ 2 * (q * (D * 2 ^ t) - N) ≤ D * 2 ^ t := by
  obtain ⟨q0, u, _, _, h1, h2, _, hn⟩ := h
  rcases hn with ⟨rfl, rfl, _⟩ | ⟨hq0, rfl, rfl⟩
  · exact ⟨h1, h2⟩
  · have e : 2 ^ (p - 1) * (D * 2 ^ (u + 1)) = q0 * (D * 2 ^ u) := by
      have : 2 ^ p = 2 * 2 ^ (p - 1) := by
        have : p = (p - 1) + 1 := by omega
        rw [this, Nat.pow_succ, Nat.mul_comm]; simp
      rw [hq0, this, Nat.pow_succ]; ac_rfl
    have e2 : D * 2 ^ (u + 1) = 2 * (D * 2 ^ u) := by rw [Nat.pow_succ]; ac_rfl
    rw [e, e2]
    omega

end SonicSpec.Num

namespace SonicSpec.Num

/-- the specification is functional: `IsRNE` determines the result -/
theorem IsRNE.unique {p N D q t q' t' : Nat} (hp : 1 ≤ p) (hD : 0 < D)
    (h : IsRNE p N D q t) (h' : IsRNE p N D q' t') : q = q' ∧ t = t' := by
  obtain ⟨q0, u, hup, hlo, hn1, hn2, htie, hnorm⟩ := h
  obtain ⟨q0', u', hup', hlo', hn1', hn2', htie', hnorm'⟩ := h'
  have mono : ∀ a b : Nat, a ≤ b → D * 2 ^ a ≤ D * 2 ^ b := fun a b hab =>
    Nat.mul_le_mul_left D (Nat.pow_le_pow_right (by decide) hab)
  have step : ∀ a : Nat, D * 2 ^ (a + 1) = 2 * (D * 2 ^ a) := fun a => by
    rw [Nat.pow_succ]; ac_rfl
  have hK : 2 ^ p = 2 * 2 ^ (p - 1) := by
    have : p = (p - 1) + 1 := by omega
    rw [this, Nat.pow_succ]; simp [Nat.mul_comm]
  -- the binade is determined by the value
  have hu : u = u' := by
    apply Classical.byContradiction
    intro hne
    rcases Nat.lt_or_gt_of_ne hne with hlt | hgt
    · have h1 := hlo' (by omega)
      have h2 : D * 2 ^ (u + 1) ≤ D * 2 ^ u' := mono _ _ hlt
      rw [step] at h2
      have h3 : 2 ^ (p - 1) * (2 * (D * 2 ^ u)) ≤ 2 ^ (p - 1) * (D * 2 ^ u') := Nat.mul_le_mul_left _ h2
      have h4 : 2 ^ (p - 1) * (2 * (D * 2 ^ u)) = 2 ^ p * (D * 2 ^ u) := by rw [hK]; ac_rfl
      omega
    · have h1 := hlo (by omega)
      have h2 : D * 2 ^ (u' + 1) ≤ D * 2 ^ u := mono _ _ hgt
      rw [step] at h2
      have h3 : 2 ^ (p - 1) * (2 * (D * 2 ^ u')) ≤ 2 ^ (p - 1) * (D * 2 ^ u) := Nat.mul_le_mul_left _ h2
      have h4 : 2 ^ (p - 1) * (2 * (D * 2 ^ u')) = 2 ^ p * (D * 2 ^ u') := by rw [hK]; ac_rfl
      omega
  subst hu
  have hDu : 0 < D * 2 ^ u := Nat.mul_pos hD (Nat.two_pow_pos _)
  -- the nearest integer with ties to even is determined
  have hq0 : q0 = q0' := by
    generalize D * 2 ^ u = Du at *
    apply Classical.byContradiction
    intro hne
    rcases Nat.lt_or_gt_of_ne hne with hlt | hgt
    · obtain ⟨k, rfl⟩ := Nat.exists_eq_add_of_lt hlt
      have e : (q0 + k + 1) * Du = q0 * Du + k * Du + Du := by
        rw [Nat.add_mul, Nat.add_mul, Nat.one_mul]
      rw [e] at hn1' hn2' htie'
      have hk : k = 0 := by
        apply Classical.byContradiction
        intro hk
        have : Du ≤ k * Du := Nat.le_mul_of_pos_left Du (Nat.pos_of_ne_zero hk)
        omega
      subst hk
      simp only [Nat.zero_mul, Nat.add_zero] at *
      have t1 := htie (by omega)
      have t2 := htie' (by omega)
      omega
    · obtain ⟨k, rfl⟩ := Nat.exists_eq_add_of_lt hgt
      have e : (q0' + k + 1) * Du = q0' * Du + k * Du + Du := by
        rw [Nat.add_mul, Nat.add_mul, Nat.one_mul]
      rw [e] at hn1 hn2 htie
      have hk : k = 0 := by
        apply Classical.byContradiction
        intro hk
        have : Du ≤ k * Du := Nat.le_mul_of_pos_left Du (Nat.pos_of_ne_zero hk)
        omega
      subst hk
      simp only [Nat.zero_mul, Nat.add_zero] at *
      have t1 := htie (by omega)
      have t2 := htie' (by omega)
      omega
  subst hq0
  rcases hnorm with ⟨rfl, rfl, h1⟩ | ⟨h1, rfl, rfl⟩ <;> rcases hnorm' with ⟨rfl, rfl, h2⟩ | ⟨h2, rfl, rfl⟩
  · exact ⟨rfl, rfl⟩
  · omega
  · omega
  · exact ⟨rfl, rfl⟩

end SonicSpec.Num
